(* Proofs about the Manager model, deferred mode (C05 second half, C09 deferred half):
   - split_packs cuts a buffer into maximal runs of commands on one handle;
   - a buffer whose commands all have dead (not valid), non-creating targets is skipped by apply_storage: the state
     is unchanged except that the buffer's own temporaries are destroyed (EvD events);
   - flush of dead / empty buffers;
   - what the entity builder (OBuild) records while locked, and isolation extended to it;
   - what the unlocked builder does with a handle that is not valid.
   Everything is stated for ALL states of the model, not only reachable ones. *)
Require Import Coq.Lists.List Coq.NArith.NArith Coq.ZArith.ZArith Coq.Arith.Arith Coq.Bool.Bool Coq.micromega.Lia.
Require Import Coq.Sorting.Sorted.
From Mustache Require Import Res Manager.
From Mustache.proofs Require Import ManagerIsolation.
Import ListNotations.

(* ------------------------------------------------------------------------------------------ *)
(* small tools                                                                                  *)
Lemma bind_ok {A B} (r : res A) (f : A -> res B) b : bind r f = Ok b -> exists a, r = Ok a /\ f a = Ok b.
Proof. destruct r as [a|e]; simpl; intros H; [exists a; auto|discriminate]. Qed.

Lemma nth_res_ok {A} (l : list A) i a : nth_res l i = Ok a -> nth_error l i = Some a.
Proof. unfold nth_res. destruct (nth_error l i); intros H; inversion H; reflexivity. Qed.

Lemma upd_res_ok {A} (l : list A) i x l' : upd_res l i x = Ok l' -> i < length l /\ l' = upd l i x.
Proof. unfold upd_res. destruct (Nat.ltb_spec i (length l)) as [Hlt|Hge]; intros E; inversion E; auto. Qed.

Lemma nth_error_upd_same {A} (l : list A) i x : i < length l -> nth_error (upd l i x) i = Some x.
Proof. revert i. induction l as [|a t IH]; intros [|i] H; simpl in *; try lia; [reflexivity|apply IH; lia]. Qed.

Lemma nth_upd_same {A} (l : list A) i x d : i < length l -> nth i (upd l i x) d = x.
Proof. revert i. induction l as [|a t IH]; intros [|i] H; simpl in *; try lia; [reflexivity|apply IH; lia]. Qed.

Lemma nth_error_nth' {A} (l : list A) i a d : nth_error l i = Some a -> nth i l d = a.
Proof. revert i. induction l as [|x t IH]; intros [|i] H; simpl in *; try discriminate; [inversion H; reflexivity|apply IH; assumption]. Qed.

Lemma upd_oob {A} (l : list A) i x : length l <= i -> upd l i x = l.
Proof. revert i. induction l as [|a t IH]; intros [|i] H; simpl in *; try reflexivity; [lia|]. rewrite IH by lia. reflexivity. Qed.

Lemma upd_nth_id {A} (l : list A) i d : upd l i (nth i l d) = l.
Proof. revert i. induction l as [|a t IH]; intros [|i]; simpl; try reflexivity. rewrite IH. reflexivity. Qed.

Lemma upd_upd {A} (l : list A) i x y : upd (upd l i x) i y = upd l i y.
Proof. revert i. induction l as [|a t IH]; intros [|i]; simpl; try reflexivity. rewrite IH. reflexivity. Qed.

(* appending twice to the same buffer *)
Lemma upd_upd_nth {A} (l : list (list A)) i x y : upd (upd l i x) i (nth i (upd l i x) [] ++ y) = upd l i (x ++ y).
Proof. revert i. induction l as [|a t IH]; intros [|i]; simpl; try reflexivity. rewrite IH. reflexivity. Qed.

Lemma upd_app_last {A} (l : list A) a x : upd (l ++ [a]) (length l) x = l ++ [x].
Proof. induction l as [|b t IH]; simpl; [reflexivity|]. rewrite IH. reflexivity. Qed.

Lemma nth_error_lt {A} (l : list A) i a : nth_error l i = Some a -> i < length l.
Proof. intros H. apply nth_error_Some. congruence. Qed.

Lemma fold_res_app {A S} (f : S -> A -> res S) l1 l2 s :
  fold_res f (l1 ++ l2) s = do s1 <- fold_res f l1 s; fold_res f l2 s1.
Proof.
  revert s. induction l1 as [|a t IH]; intros s; simpl; [reflexivity|].
  destruct (f s a) as [s'|e]; simpl; [apply IH|reflexivity].
Qed.

Lemma handle_eqb_eq a b : handle_eqb a b = true <-> a = b.
Proof.
  unfold handle_eqb. destruct a as [a1 a2], b as [b1 b2]. simpl. rewrite andb_true_iff, !N.eqb_eq.
  split; [intros (-> & ->); reflexivity|intros H; inversion H; auto].
Qed.

Lemma handle_eqb_neq a b : handle_eqb a b = false <-> a <> b.
Proof.
  split.
  - intros H E. apply handle_eqb_eq in E. congruence.
  - intros H. destruct (handle_eqb a b) eqn:E; [apply handle_eqb_eq in E; contradiction|reflexivity].
Qed.

(* ------------------------------------------------------------------------------------------ *)
(* (3) split_packs: the packs are the maximal runs of commands on one handle                     *)
Definition uniform (p : list acmd) : Prop :=
  forall c1 c2, In c1 p -> In c2 p -> handle_eqb (cmd_handle c1) (cmd_handle c2) = true.

Fixpoint adjacent_differ (ps : list (list acmd)) : Prop :=
  match ps with
  | [] => True
  | p :: t =>
    match t with
    | [] => True
    | q :: _ => forall c1 c2, In c1 p -> In c2 q -> handle_eqb (cmd_handle c1) (cmd_handle c2) = false
    end /\ adjacent_differ t
  end.

Lemma uniform_rev p : uniform p -> uniform (rev p).
Proof. intros H c1 c2 H1 H2. apply H; apply in_rev; assumption. Qed.

Lemma uniform_single c : uniform [c].
Proof. intros c1 c2 [<-|[]] [<-|[]]. apply handle_eqb_eq. reflexivity. Qed.

Lemma uniform_cons c c0 cur :
  uniform (c0 :: cur) -> handle_eqb (cmd_handle c0) (cmd_handle c) = true -> uniform (c :: c0 :: cur).
Proof.
  intros Hu E. apply handle_eqb_eq in E.
  assert (H0 : forall x, In x (c :: c0 :: cur) -> cmd_handle x = cmd_handle c).
  { intros x [<-|Hx]; [reflexivity|]. rewrite <- E. apply handle_eqb_eq. apply Hu; [assumption|left; reflexivity]. }
  intros c1 c2 H1 H2. apply handle_eqb_eq. rewrite (H0 _ H1), (H0 _ H2). reflexivity.
Qed.

Lemma split_packs_spec : forall cs cur, uniform cur ->
  concat (split_packs cs cur) = rev cur ++ cs /\
  Forall (fun p => p <> [] /\ uniform p) (split_packs cs cur) /\
  adjacent_differ (split_packs cs cur) /\
  (cur <> [] -> exists suffix rest, split_packs cs cur = (rev cur ++ suffix) :: rest).
Proof.
  induction cs as [|c t IH]; intros cur Hu.
  - destruct cur as [|c0 cur']; cbn [split_packs].
    + simpl. repeat split; auto. intros H; congruence.
    + split; [cbn [concat]; reflexivity|]. split.
      * constructor; [|constructor]. split; [|apply uniform_rev; assumption].
        simpl. intros E. apply app_eq_nil in E. destruct E; discriminate.
      * split; [simpl; auto|]. intros _. exists [], []. rewrite app_nil_r. reflexivity.
  - destruct cur as [|c0 cur']; cbn [split_packs].
    + destruct (IH [c] (uniform_single c)) as (C & F & A & L).
      split; [rewrite C; reflexivity|]. split; [assumption|]. split; [assumption|]. intros H; congruence.
    + destruct (handle_eqb (cmd_handle c0) (cmd_handle c)) eqn:E.
      * destruct (IH (c :: c0 :: cur') (uniform_cons _ _ _ Hu E)) as (C & F & A & L).
        split; [rewrite C; cbn [rev]; rewrite <- app_assoc; reflexivity|]. split; [assumption|]. split; [assumption|].
        intros _. destruct L as (suffix & rest & L); [discriminate|]. exists (c :: suffix), rest. rewrite L.
        cbn [rev]. rewrite <- app_assoc. reflexivity.
      * destruct (IH [c] (uniform_single c)) as (C & F & A & L).
        split; [cbn [concat]; rewrite C; reflexivity|]. split.
        { constructor; [|assumption]. split; [|apply uniform_rev; assumption].
          simpl. intros E'. apply app_eq_nil in E'. destruct E'; discriminate. }
        split.
        { destruct L as (suffix & rest & L); [discriminate|]. cbn [adjacent_differ]. rewrite L in *. split; [|assumption].
          intros c1 c2 H1 H2. apply handle_eqb_neq. intros E12.
          assert (E1 : cmd_handle c1 = cmd_handle c0).
          { apply handle_eqb_eq. apply Hu; [apply in_rev; assumption|left; reflexivity]. }
          assert (E2 : cmd_handle c2 = cmd_handle c).
          { inversion F as [|? ? (_ & Hq) _]. apply handle_eqb_eq. apply Hq; [assumption|]. simpl. left. reflexivity. }
          apply handle_eqb_neq in E. apply E. congruence. }
        intros _. exists [], (split_packs t [c]). rewrite app_nil_r. reflexivity.
Qed.

Theorem split_packs_correct b :
  concat (split_packs b []) = b /\
  Forall (fun p => p <> [] /\ uniform p) (split_packs b []) /\
  adjacent_differ (split_packs b []).
Proof.
  destruct (split_packs_spec b []) as (C & F & A & _); [intros c1 c2 []|]. auto.
Qed.

(* every command of a pack is a command of the buffer *)
Lemma split_packs_in b p c : In p (split_packs b []) -> In c p -> In c b.
Proof.
  intros Hp Hc. destruct (split_packs_correct b) as (C & _ & _). rewrite <- C. apply in_concat. exists p. auto.
Qed.

(* ------------------------------------------------------------------------------------------ *)
(* (1) a buffer of dead, non-creating commands is skipped                                       *)
(* the target of the command is not valid and the command does not create it *)
Definition cmd_deadb (s : mst) (c : acmd) : bool :=
  match c with ACreate _ _ _ _ => false | _ => negb (is_valid s (cmd_handle c)) end.
(* the component of an assign command is registered (always true of a recorded command: assign_locked looks it up) *)
Definition cmd_regb (s : mst) (c : acmd) : bool :=
  match c with AAssign _ cid _ => Nat.ltb cid (length (cinfos s)) | _ => true end.
Definition buf_deadb (s : mst) (b : list acmd) : bool := forallb (fun c => cmd_deadb s c && cmd_regb s c) b.

(* the destruction of the temporary of one command, as an event list *)
Definition tmp_dtor (s : mst) (tid : nat) (c : acmd) : list event :=
  match c with
  | AAssign _ cid n =>
    match nth_error (cinfos s) cid with
    | Some inf => if ci_destroy inf && ci_ev inf then [EvD (ci_pal inf) (PTmp (epoch s * 64 + tid) n)] else []
    | None => []
    end
  | _ => []
  end.
Definition dtor_events (s : mst) (tid : nat) (b : list acmd) : list event := flat_map (tmp_dtor s tid) b.

(* the second loop of applyStorage, named *)
Definition dtor_step (tid : nat) (st : mst) (c : acmd) : res mst :=
  match c with
  | AAssign _ cid n =>
    do inf <- info_of st cid;
    Ok (if ci_destroy inf && ci_ev inf then emit st (EvD (ci_pal inf) (PTmp (epoch st * 64 + tid) n)) else st)
  | _ => Ok st
  end.
Definition destroy_tmps (tid : nat) (b : list acmd) (s : mst) : res mst := fold_res (dtor_step tid) b s.

Lemma apply_storage_unfold s tid b :
  apply_storage s (tid, b) = do s1 <- fold_res (apply_pack tid) (split_packs b []) s; destroy_tmps tid b s1.
Proof. reflexivity. Qed.

Lemma set_log_id s : set_log s (log s) = s.
Proof. destruct s; reflexivity. Qed.

Lemma is_valid_frame s s' h : slots s' = slots s -> is_valid s' h = is_valid s h.
Proof. intros H. unfold is_valid. rewrite H. reflexivity. Qed.

Lemma cmd_deadb_frame s s' c : slots s' = slots s -> cmd_deadb s' c = cmd_deadb s c.
Proof. intros H. unfold cmd_deadb. rewrite (is_valid_frame s s' _ H). reflexivity. Qed.

Lemma cmd_regb_frame s s' c : cinfos s' = cinfos s -> cmd_regb s' c = cmd_regb s c.
Proof. intros H. unfold cmd_regb. rewrite H. reflexivity. Qed.

Lemma buf_deadb_frame s s' b : slots s' = slots s -> cinfos s' = cinfos s -> buf_deadb s' b = buf_deadb s b.
Proof.
  intros H1 H2. unfold buf_deadb. induction b as [|c t IH]; simpl; [reflexivity|].
  rewrite IH, (cmd_deadb_frame s s' c H1), (cmd_regb_frame s s' c H2). reflexivity.
Qed.

Lemma tmp_dtor_frame s s' tid c : cinfos s' = cinfos s -> epoch s' = epoch s -> tmp_dtor s' tid c = tmp_dtor s tid c.
Proof. intros H1 H2. unfold tmp_dtor. rewrite H1, H2. reflexivity. Qed.

Lemma dtor_events_frame s s' tid b : cinfos s' = cinfos s -> epoch s' = epoch s -> dtor_events s' tid b = dtor_events s tid b.
Proof.
  intros H1 H2. unfold dtor_events. induction b as [|c t IH]; simpl; [reflexivity|].
  rewrite IH, (tmp_dtor_frame s s' tid c H1 H2). reflexivity.
Qed.

Lemma dtor_step_spec tid s c : cmd_regb s c = true ->
  dtor_step tid s c = Ok (set_log s (rev (tmp_dtor s tid c) ++ log s)).
Proof.
  intros H. destruct c; simpl; try (rewrite set_log_id; reflexivity).
  simpl in H. apply Nat.ltb_lt in H. unfold info_of.
  destruct (nth_error (cinfos s) c) as [inf|] eqn:E; [|apply nth_error_None in E; lia].
  simpl. destruct (ci_destroy inf && ci_ev inf); simpl; [reflexivity|rewrite set_log_id; reflexivity].
Qed.

Lemma destroy_tmps_spec tid : forall b s, (forall c, In c b -> cmd_regb s c = true) ->
  destroy_tmps tid b s = Ok (set_log s (rev (dtor_events s tid b) ++ log s)).
Proof.
  unfold destroy_tmps. induction b as [|c t IH]; intros s H.
  - simpl. rewrite set_log_id. reflexivity.
  - cbn [fold_res]. rewrite dtor_step_spec by (apply H; left; reflexivity). cbn [bind].
    rewrite IH.
    + rewrite (dtor_events_frame s _ tid t) by reflexivity.
      unfold dtor_events. cbn [flat_map]. rewrite rev_app_distr, <- app_assoc. reflexivity.
    + intros c' Hc'. rewrite (cmd_regb_frame s) by reflexivity. apply H. right. assumption.
Qed.

Lemma packs_dead_skipped tid s : forall ps,
  (forall p, In p ps -> exists c t, p = c :: t /\ cmd_deadb s c = true) -> fold_res (apply_pack tid) ps s = Ok s.
Proof.
  induction ps as [|p t IH]; intros H; [reflexivity|].
  destruct (H p (or_introl eq_refl)) as (c & t' & -> & Hd). cbn [fold_res].
  rewrite dead_target_pack_skipped.
  - cbn [bind]. apply IH. intros q Hq. apply H. right. assumption.
  - destruct c; simpl in Hd; try discriminate; exact I.
  - destruct c; simpl in Hd |- *; try discriminate; apply negb_true_iff in Hd; exact Hd.
Qed.

Lemma buf_deadb_in s b c : buf_deadb s b = true -> In c b -> cmd_deadb s c = true /\ cmd_regb s c = true.
Proof. unfold buf_deadb. intros H Hc. rewrite forallb_forall in H. apply andb_true_iff. apply H. assumption. Qed.

(* THEOREM (1): the whole buffer is skipped; the state is unchanged except for the log, which gains exactly the
   destruction events of the buffer's own temporaries, in buffer order *)
Theorem apply_storage_dead s tid b :
  buf_deadb s b = true -> apply_storage s (tid, b) = Ok (set_log s (rev (dtor_events s tid b) ++ log s)).
Proof.
  intros H. rewrite apply_storage_unfold. rewrite packs_dead_skipped.
  - cbn [bind]. apply destroy_tmps_spec. intros c Hc. apply (buf_deadb_in s b c H Hc).
  - intros p Hp. destruct (split_packs_correct b) as (_ & F & _). rewrite Forall_forall in F.
    destruct (F p Hp) as (Hne & _). destruct p as [|c t]; [congruence|]. exists c, t. split; [reflexivity|].
    apply (buf_deadb_in s b c H). eapply split_packs_in; [eassumption|left; reflexivity].
Qed.

(* the events are destructions (EvD) of temporaries of this buffer and epoch, one per assign command at most *)
Lemma dtor_events_own s tid b e : In e (dtor_events s tid b) ->
  exists h cid n inf, In (AAssign h cid n) b /\ nth_error (cinfos s) cid = Some inf /\
                      e = EvD (ci_pal inf) (PTmp (epoch s * 64 + tid) n).
Proof.
  unfold dtor_events. intros H. apply in_flat_map in H. destruct H as (c & Hc & He).
  destruct c; simpl in He; try contradiction.
  destruct (nth_error (cinfos s) c) as [inf|] eqn:E; [|contradiction].
  destruct (ci_destroy inf && ci_ev inf); [|contradiction]. destruct He as [<-|[]].
  exists h, c, tmp, inf. auto.
Qed.

(* in any sequence of packs, a pack whose target is dead when it is reached contributes nothing *)
Theorem dead_pack_in_sequence tid ps1 c t ps2 s s1 :
  fold_res (apply_pack tid) ps1 s = Ok s1 -> cmd_deadb s1 c = true ->
  fold_res (apply_pack tid) (ps1 ++ (c :: t) :: ps2) s = fold_res (apply_pack tid) ps2 s1.
Proof.
  intros H1 Hd. rewrite fold_res_app, H1. cbn [bind fold_res].
  rewrite dead_target_pack_skipped; [reflexivity| |].
  - destruct c; simpl in Hd; try discriminate; exact I.
  - destruct c; simpl in Hd |- *; try discriminate; apply negb_true_iff in Hd; exact Hd.
Qed.

(* ------------------------------------------------------------------------------------------ *)
(* flush                                                                                         *)
Definition flush_events (s : mst) (l : list (nat * list acmd)) : list event :=
  flat_map (fun x => dtor_events s (fst x) (snd x)) l.

Lemma flush_events_frame s s' l : cinfos s' = cinfos s -> epoch s' = epoch s -> flush_events s' l = flush_events s l.
Proof.
  intros H1 H2. unfold flush_events. induction l as [|x t IH]; simpl; [reflexivity|].
  rewrite IH, (dtor_events_frame s s' _ _ H1 H2). reflexivity.
Qed.

Lemma storages_dead : forall l s, (forall x, In x l -> buf_deadb s (snd x) = true) ->
  fold_res apply_storage l s = Ok (set_log s (rev (flush_events s l) ++ log s)).
Proof.
  induction l as [|[tid b] t IH]; intros s H.
  - simpl. rewrite set_log_id. reflexivity.
  - cbn [fold_res]. rewrite apply_storage_dead by (apply (H (tid, b)); left; reflexivity). cbn [bind].
    rewrite IH.
    + rewrite (flush_events_frame s) by reflexivity.
      unfold flush_events. cbn [flat_map fst snd]. rewrite rev_app_distr, <- app_assoc. reflexivity.
    + intros x Hx. rewrite (buf_deadb_frame s) by reflexivity. apply H. right. assumption.
Qed.

Definition numbered_bufs (s : mst) : list (nat * list acmd) := combine (seq 0 (length (bufs s))) (bufs s).

(* flush when every buffer holds only dead commands: nothing but the log, the epoch and the (cleared) buffers changes *)
Theorem flush_all_dead s :
  forallb (buf_deadb s) (bufs s) = true ->
  flush s = Ok (set_epoch (set_bufs (set_log s (rev (flush_events s (numbered_bufs s)) ++ log s))
                                    (map (fun _ => []) (bufs s)) (map (fun _ => []) (tmps s)))
                          (S (epoch s))).
Proof.
  intros H. unfold flush. fold (numbered_bufs s). rewrite storages_dead; [reflexivity|].
  intros x Hx. rewrite forallb_forall in H. apply H. destruct x as [tid b]. apply in_combine_r in Hx. exact Hx.
Qed.

Lemma flush_events_own s l e : In e (flush_events s l) ->
  exists tid b h cid n inf, In (tid, b) l /\ In (AAssign h cid n) b /\ nth_error (cinfos s) cid = Some inf /\
                            e = EvD (ci_pal inf) (PTmp (epoch s * 64 + tid) n).
Proof.
  unfold flush_events. intros H. apply in_flat_map in H. destruct H as ([tid b] & Hx & He).
  apply dtor_events_own in He. destruct He as (h & cid & n & inf & H1 & H2 & H3).
  exists tid, b, h, cid, n, inf. auto.
Qed.

(* (2) flush with all buffers empty is the identity up to the epoch and the temporaries (which it clears) *)
Lemma storages_empty : forall l s, (forall x, In x l -> snd x = []) -> fold_res apply_storage l s = Ok s.
Proof.
  induction l as [|[tid b] t IH]; intros s H; [reflexivity|].
  assert (E : b = []) by (apply (H (tid, b)); left; reflexivity). subst b.
  cbn [fold_res]. change (apply_storage s (tid, [])) with (Ok s). cbn [bind]. apply IH. intros x Hx. apply H. right. assumption.
Qed.

Lemma map_nil_id {A} (l : list (list A)) : Forall (fun b => b = []) l -> map (fun _ => []) l = l.
Proof. induction 1 as [|b t Hb Ht IH]; simpl; [reflexivity|]. rewrite IH, Hb. reflexivity. Qed.

Theorem flush_empty s :
  Forall (fun b => b = []) (bufs s) ->
  flush s = Ok (set_epoch (set_bufs s (bufs s) (map (fun _ => []) (tmps s))) (S (epoch s))).
Proof.
  intros H. unfold flush. rewrite storages_empty.
  - cbn [bind]. rewrite (map_nil_id (bufs s) H). reflexivity.
  - intros [tid b] Hx. apply in_combine_r in Hx. rewrite Forall_forall in H. apply H. exact Hx.
Qed.

(* ------------------------------------------------------------------------------------------ *)
(* (4) recording while locked: exact effect of the recording primitives and of the entity builder *)
(* the only fields recording can move: the id counter, the buffers, their temporaries, the log *)
Definition with_rec (s : mst) (eid : N) (b : list (list acmd)) (t : list (list cell)) (l : list event) : mst :=
  set_log (set_bufs (set_eid s eid) b t) l.

Lemma with_rec_id s : with_rec s (next_eid s) (bufs s) (tmps s) (log s) = s.
Proof. destruct s; reflexivity. Qed.

Lemma with_rec_observe s e b t l : observe (with_rec s e b t l) = observe s.
Proof. reflexivity. Qed.
Lemma with_rec_eid s e b t l : next_eid (with_rec s e b t l) = e. Proof. reflexivity. Qed.
Lemma with_rec_bufs s e b t l : bufs (with_rec s e b t l) = b. Proof. reflexivity. Qed.
Lemma with_rec_tmps s e b t l : tmps (with_rec s e b t l) = t. Proof. reflexivity. Qed.
Lemma with_rec_log s e b t l : log (with_rec s e b t l) = l. Proof. reflexivity. Qed.
Lemma with_rec_cinfos s e b t l : cinfos (with_rec s e b t l) = cinfos s. Proof. reflexivity. Qed.
Lemma with_rec_epoch s e b t l : epoch (with_rec s e b t l) = epoch s. Proof. reflexivity. Qed.
Lemma with_rec_slots s e b t l : slots (with_rec s e b t l) = slots s. Proof. reflexivity. Qed.
Lemma with_rec_lockc s e b t l : lockc (with_rec s e b t l) = lockc s. Proof. reflexivity. Qed.
Lemma with_rec_twice s e b t l e' b' t' l' : with_rec (with_rec s e b t l) e' b' t' l' = with_rec s e' b' t' l'.
Proof. reflexivity. Qed.
Ltac wr := rewrite ?with_rec_eid, ?with_rec_bufs, ?with_rec_tmps, ?with_rec_log, ?with_rec_cinfos, ?with_rec_epoch,
                   ?with_rec_twice.

Lemma push_cmd_spec s tid c s' : push_cmd s tid c = Ok s' ->
  exists b, nth_error (bufs s) tid = Some b /\
            s' = with_rec s (next_eid s) (upd (bufs s) tid (b ++ [c])) (tmps s) (log s).
Proof.
  unfold push_cmd. intros H. apply bind_ok in H. destruct H as (b & Hb & H). apply nth_res_ok in Hb.
  inversion H. exists b. split; [assumption|reflexivity].
Qed.

Definition fresh_handle (s : mst) : handle :=
  (next_eid s, match nth_error (slots s) (N.to_nat (next_eid s)) with
               | Some sl => ((s_ver sl + 1) mod VER_MOD)%N
               | None => 0%N
               end).

Lemma create_locked_spec s tid m sh s' h : create_locked s tid m sh = Ok (s', h) ->
  h = fresh_handle s /\
  exists b, nth_error (bufs s) tid = Some b /\
    s' = with_rec s (next_eid s + 1)%N (upd (bufs s) tid
           (b ++ [ACreate h (negb (m =? 0)%N || negb (match si_data sh with [] => true | _ => false end)) m sh]))
           (tmps s) (log s).
Proof.
  unfold create_locked. intros H. apply bind_ok in H. destruct H as (s1 & Hp & H). inversion H; subst s1 h. clear H.
  split; [reflexivity|]. apply push_cmd_spec in Hp. destruct Hp as (b & Hb & ->). exists b. split; [exact Hb|reflexivity].
Qed.

(* the value of the fresh temporary and the event of its construction *)
Definition al_value (inf : cinfo) (skip_ctor : bool) : cell :=
  if skip_ctor then None else match ci_create inf with Some x => Some x | None => ci_default inf end.
Definition al_events (inf : cinfo) (skip_ctor : bool) (p n : nat) : list event :=
  match ci_create inf with
  | Some _ => if skip_ctor then [] else if ci_ev inf then [EvC (ci_pal inf) (PTmp p n)] else []
  | None => []
  end.

Lemma assign_locked_spec s tid h c sk s' n : assign_locked s tid h c sk = Ok (s', n) ->
  exists inf b tl, nth_error (cinfos s) c = Some inf /\ nth_error (bufs s) tid = Some b /\
    nth_error (tmps s) tid = Some tl /\ n = length tl /\
    s' = with_rec s (next_eid s) (upd (bufs s) tid (b ++ [AAssign h c n]))
                  (upd (tmps s) tid (tl ++ [al_value inf sk]))
                  (al_events inf sk (epoch s * 64 + tid) n ++ log s).
Proof.
  unfold assign_locked. intros H.
  apply bind_ok in H. destruct H as (inf & Hi & H).
  assert (Hi' : nth_error (cinfos s) c = Some inf).
  { unfold info_of in Hi. destruct (nth_error (cinfos s) c); inversion Hi; reflexivity. }
  apply bind_ok in H. destruct H as (tl & Ht & H). apply nth_res_ok in Ht.
  exists inf. unfold al_value, al_events.
  destruct (ci_create inf) as [x|]; [destruct sk; [|destruct (ci_ev inf)]|];
    apply bind_ok in H; destruct H as (s2 & Hp & H); apply push_cmd_spec in Hp; destruct Hp as (b & Hb & ->);
    inversion H; subst; exists b, tl; (split; [assumption|]); (split; [assumption|]); (split; [assumption|]);
    (split; [reflexivity|]); reflexivity.
Qed.

Lemma write_tmp_spec s tid n v s' : write_tmp s tid n v = Ok s' ->
  exists tl, nth_error (tmps s) tid = Some tl /\ n < length tl /\
    s' = with_rec s (next_eid s) (bufs s) (upd (tmps s) tid (upd tl n v)) (log s).
Proof.
  unfold write_tmp. intros H. apply bind_ok in H. destruct H as (tl & Ht & H). apply nth_res_ok in Ht.
  apply bind_ok in H. destruct H as (tl' & Hu & H). apply upd_res_ok in Hu. destruct Hu as (Hlt & ->).
  inversion H. exists tl. split; [assumption|]. split; [assumption|reflexivity].
Qed.

(* one assignment of the builder: a temporary constructed from the value *)
Definition assign_cell (cis : list cinfo) (a : nat * Z) : cell :=
  match nth_error cis (fst a) with Some inf => if ci_hasval inf then Some (snd a) else None | None => None end.
Definition assign_ev (cis : list cinfo) (p n : nat) (a : nat * Z) : list event :=
  match nth_error cis (fst a) with Some inf => if ci_ev inf then [EvV (ci_pal inf) (PTmp p n)] else [] | None => [] end.

Lemma assign_locked_value_spec s tid h c x s' : assign_locked_value s tid h c x = Ok s' ->
  exists b tl, nth_error (bufs s) tid = Some b /\ nth_error (tmps s) tid = Some tl /\
    c < length (cinfos s) /\
    s' = with_rec s (next_eid s) (upd (bufs s) tid (b ++ [AAssign h c (length tl)]))
                  (upd (tmps s) tid (tl ++ [assign_cell (cinfos s) (c, x)]))
                  (assign_ev (cinfos s) (epoch s * 64 + tid) (length tl) (c, x) ++ log s).
Proof.
  unfold assign_locked_value. intros H.
  apply bind_ok in H. destruct H as (inf & Hi & H).
  apply bind_ok in H. destruct H as ([s1 n] & Ha & H).
  apply assign_locked_spec in Ha. destruct Ha as (inf' & b & tl & Hi' & Hb & Ht & -> & ->).
  assert (inf' = inf).
  { unfold info_of in Hi. rewrite Hi' in Hi. inversion Hi. reflexivity. }
  subst inf'. exists b, tl. split; [assumption|]. split; [assumption|]. split; [eapply nth_error_lt; eassumption|].
  assert (Hlt : tid < length (tmps s)) by (eapply nth_error_lt; eassumption).
  assert (Hal : al_events inf true (epoch s * 64 + tid) (length tl) = []).
  { unfold al_events. destruct (ci_create inf); reflexivity. }
  rewrite Hal in H. unfold al_value in H. cbn [app] in H.
  unfold assign_cell, assign_ev. cbn [fst snd]. rewrite Hi'.
  destruct (ci_hasval inf).
  - apply bind_ok in H. destruct H as (s2 & Hw & H). apply write_tmp_spec in Hw.
    destruct Hw as (tl0 & Ht0 & _ & ->).
    rewrite with_rec_tmps, nth_error_upd_same in Ht0 by assumption.
    inversion Ht0; subst tl0. clear Ht0.
    rewrite with_rec_eid, with_rec_bufs, with_rec_tmps, with_rec_log, with_rec_twice, upd_upd, upd_app_last in H.
    destruct (ci_ev inf); inversion H; reflexivity.
  - cbn [bind] in H. destruct (ci_ev inf); inversion H; reflexivity.
Qed.

(* the commands, temporaries and events of a list of builder assignments, numbered from n0 *)
Fixpoint assign_cmds (h : handle) (n0 : nat) (assigns : list (nat * Z)) : list acmd :=
  match assigns with [] => [] | a :: t => AAssign h (fst a) n0 :: assign_cmds h (S n0) t end.
Fixpoint assign_evs (cis : list cinfo) (p n0 : nat) (assigns : list (nat * Z)) : list event :=   (* chronological *)
  match assigns with [] => [] | a :: t => assign_ev cis p n0 a ++ assign_evs cis p (S n0) t end.

Lemma build_assigns_spec tid h : forall assigns s s',
  fold_res (fun st (a : nat * Z) => assign_locked_value st tid h (fst a) (snd a)) assigns s = Ok s' ->
  s' = with_rec s (next_eid s)
         (upd (bufs s) tid (nth tid (bufs s) [] ++ assign_cmds h (length (nth tid (tmps s) [])) assigns))
         (upd (tmps s) tid (nth tid (tmps s) [] ++ map (assign_cell (cinfos s)) assigns))
         (rev (assign_evs (cinfos s) (epoch s * 64 + tid) (length (nth tid (tmps s) [])) assigns) ++ log s).
Proof.
  induction assigns as [|[c x] t IH]; intros s s' H.
  - inversion H; subst s'. cbn [assign_cmds map assign_evs rev app]. rewrite !app_nil_r, !upd_nth_id.
    symmetry. apply with_rec_id.
  - cbn [fold_res fst snd] in H. apply bind_ok in H. destruct H as (s1 & H1 & H).
    apply assign_locked_value_spec in H1. destruct H1 as (b & tl & Hb & Ht & _ & ->).
    apply IH in H. rewrite H. clear H IH.
    assert (Hlb : tid < length (bufs s)) by (eapply nth_error_lt; eassumption).
    assert (Hlt : tid < length (tmps s)) by (eapply nth_error_lt; eassumption).
    rewrite (nth_error_nth' _ _ _ [] Hb), (nth_error_nth' _ _ _ [] Ht).
    wr. rewrite !nth_upd_same by assumption. rewrite !upd_upd.
    rewrite app_length. cbn [length]. rewrite Nat.add_1_r.
    cbn [assign_cmds map assign_evs fst snd]. rewrite <- !app_assoc. cbn [app].
    rewrite rev_app_distr, <- app_assoc.
    assert (E : forall l, rev (assign_ev (cinfos s) (epoch s * 64 + tid) (length tl) (c, x)) ++ l =
                          assign_ev (cinfos s) (epoch s * 64 + tid) (length tl) (c, x) ++ l).
    { intros l. unfold assign_ev. destruct (nth_error (cinfos s) (fst (c, x))) as [inf|]; [destruct (ci_ev inf)|]; reflexivity. }
    rewrite E. reflexivity.
Qed.

Lemma push_cmds_spec tid (f : nat -> acmd) : forall l s s',
  fold_res (fun st c => push_cmd st tid (f c)) l s = Ok s' ->
  s' = with_rec s (next_eid s) (upd (bufs s) tid (nth tid (bufs s) [] ++ map f l)) (tmps s) (log s).
Proof.
  induction l as [|c t IH]; intros s s' H.
  - inversion H; subst s'. cbn [map]. rewrite app_nil_r, upd_nth_id. symmetry. apply with_rec_id.
  - cbn [fold_res] in H. apply bind_ok in H. destruct H as (s1 & H1 & H).
    apply push_cmd_spec in H1. destruct H1 as (b & Hb & ->). apply IH in H. rewrite H. clear H IH.
    assert (Hlb : tid < length (bufs s)) by (eapply nth_error_lt; eassumption).
    rewrite (nth_error_nth' _ _ _ [] Hb).
    wr. rewrite nth_upd_same by assumption. rewrite upd_upd, <- app_assoc. reflexivity.
Qed.

(* what OBuild records: the creation (new entity only), the assignments in order, the removals (existing entity only:
   the model, like the implementation, drops the removal list of a builder that creates its entity) *)
Lemma step_build_some s tid h assigns removes k : lockc s = S k ->
  step s (OBuild tid (Some h) assigns removes) =
  (do s1 <- fold_res (fun st (a : nat * Z) => assign_locked_value st tid h (fst a) (snd a)) assigns s;
   do s2 <- fold_res (fun st c => push_cmd st tid (ARemove h c)) (mitems (mask_of_list removes)) s1;
   Ok (s2, RNone)).
Proof. intros E. cbn [step]. rewrite E. reflexivity. Qed.

Lemma step_build_none s tid assigns removes k : lockc s = S k ->
  step s (OBuild tid None assigns removes) =
  (do r <- create_locked s tid 0%N si_null;
   do s2 <- fold_res (fun st (a : nat * Z) => assign_locked_value st tid (snd r) (fst a) (snd a)) assigns (fst r);
   Ok (s2, RHandle (snd r))).
Proof.
  intros E. destruct assigns as [|a t]; cbn [step]; rewrite E.
  - destruct (create_locked s tid 0%N si_null) as [[s1 h]|e]; reflexivity.
  - destruct (create_locked s tid 0%N si_null) as [[s1 h]|e]; reflexivity.
Qed.

Lemma create_locked_plain s tid s' h : create_locked s tid 0%N si_null = Ok (s', h) ->
  h = fresh_handle s /\
  exists b, nth_error (bufs s) tid = Some b /\
    s' = with_rec s (next_eid s + 1)%N (upd (bufs s) tid (b ++ [ACreate h false 0%N si_null])) (tmps s) (log s).
Proof. apply create_locked_spec. Qed.

Lemma build_locked_some s tid h assigns removes s' r k : lockc s = S k ->
  step s (OBuild tid (Some h) assigns removes) = Ok (s', r) ->
  s' = with_rec s (next_eid s)
         (upd (bufs s) tid (nth tid (bufs s) [] ++
            assign_cmds h (length (nth tid (tmps s) [])) assigns ++ map (ARemove h) (mitems (mask_of_list removes))))
         (upd (tmps s) tid (nth tid (tmps s) [] ++ map (assign_cell (cinfos s)) assigns))
         (rev (assign_evs (cinfos s) (epoch s * 64 + tid) (length (nth tid (tmps s) [])) assigns) ++ log s) /\
  r = RNone.
Proof.
  intros El H. rewrite (step_build_some _ _ _ _ _ _ El) in H.
  apply bind_ok in H. destruct H as (s1 & H1 & H). apply bind_ok in H. destruct H as (s2 & H2 & H).
  inversion H; subst s' r. clear H. split; [|reflexivity].
  apply build_assigns_spec in H1. apply push_cmds_spec in H2. rewrite H2, H1. clear H1 H2.
  wr. rewrite upd_upd_nth, <- app_assoc. reflexivity.
Qed.

Lemma build_locked_none s tid assigns removes s' r k : lockc s = S k ->
  step s (OBuild tid None assigns removes) = Ok (s', r) ->
  s' = with_rec s (next_eid s + 1)%N
         (upd (bufs s) tid (nth tid (bufs s) [] ++
            ACreate (fresh_handle s) false 0%N si_null :: assign_cmds (fresh_handle s) (length (nth tid (tmps s) [])) assigns))
         (upd (tmps s) tid (nth tid (tmps s) [] ++ map (assign_cell (cinfos s)) assigns))
         (rev (assign_evs (cinfos s) (epoch s * 64 + tid) (length (nth tid (tmps s) [])) assigns) ++ log s) /\
  r = RHandle (fresh_handle s).
Proof.
  intros El H. rewrite (step_build_none _ _ _ _ _ El) in H.
  apply bind_ok in H. destruct H as ([s1 h] & Hc & H). cbn [fst snd] in H.
  apply bind_ok in H. destruct H as (s2 & Hf & H). inversion H; subst s' r. clear H.
  apply create_locked_plain in Hc. destruct Hc as (-> & b & Hb & ->). split; [|reflexivity].
  apply build_assigns_spec in Hf. rewrite Hf. clear Hf.
  rewrite (nth_error_nth' _ _ _ [] Hb). wr.
  rewrite upd_upd_nth, <- app_assoc. reflexivity.
Qed.

(* isolation (C05, first sentence) extended to the builder *)
Theorem build_isolated s tid target assigns removes s' r :
  lockc s <> 0 -> step s (OBuild tid target assigns removes) = Ok (s', r) -> observe s' = observe s.
Proof.
  intros Hl H. destruct (lockc s) as [|k] eqn:El; [congruence|]. clear Hl.
  destruct target as [h|].
  - destruct (build_locked_some _ _ _ _ _ _ _ _ El H) as (-> & _). apply with_rec_observe.
  - destruct (build_locked_none _ _ _ _ _ _ _ El H) as (-> & _). apply with_rec_observe.
Qed.

(* the removal commands: one per distinct removed component (below the mask width), in increasing component order *)
Lemma seq_ssorted : forall n a, StronglySorted lt (seq a n).
Proof.
  induction n as [|n IH]; intros a; simpl; constructor; [apply IH|].
  apply Forall_forall. intros x Hx. apply in_seq in Hx. lia.
Qed.

Lemma filter_ssorted {A} (R : A -> A -> Prop) (f : A -> bool) l : StronglySorted R l -> StronglySorted R (filter f l).
Proof.
  induction 1 as [|a l Hs IH Hf]; simpl; [constructor|].
  destruct (f a); [|assumption]. constructor; [assumption|].
  apply Forall_forall. intros x Hx. apply filter_In in Hx. rewrite Forall_forall in Hf. apply Hf. tauto.
Qed.

Lemma mitems_sorted m : StronglySorted lt (mitems m).
Proof. unfold mitems. apply filter_ssorted, seq_ssorted. Qed.

Lemma mitems_in m c : In c (mitems m) <-> c < MASK_BITS /\ mhas m c = true.
Proof. unfold mitems. rewrite filter_In, in_seq. simpl. intuition lia. Qed.

Lemma mhas_madd m x c : mhas (madd m x) c = Nat.eqb x c || mhas m c.
Proof.
  unfold mhas, madd. rewrite N.setbit_eqb. f_equal.
  destruct (Nat.eqb_spec x c) as [->|Hne]; [apply N.eqb_refl|]. apply N.eqb_neq. intros E. apply Nat2N.inj in E. contradiction.
Qed.

Lemma mhas_mask_of_list l c : mhas (mask_of_list l) c = true <-> In c l.
Proof.
  unfold mask_of_list.
  assert (G : forall m, mhas (fold_left madd l m) c = true <-> mhas m c = true \/ In c l).
  { induction l as [|x t IH]; intros m; simpl; [tauto|].
    rewrite IH, mhas_madd, orb_true_iff, Nat.eqb_eq. intuition. }
  rewrite G. unfold mhas. rewrite N.bits_0. intuition discriminate.
Qed.

Theorem build_removals_exact h removes :
  StronglySorted lt (mitems (mask_of_list removes)) /\
  forall c, In (ARemove h c) (map (ARemove h) (mitems (mask_of_list removes))) <-> (In c removes /\ c < MASK_BITS).
Proof.
  split; [apply mitems_sorted|]. intros c. rewrite in_map_iff. split.
  - intros (c' & E & Hc'). inversion E; subst c'. apply mitems_in in Hc'. rewrite mhas_mask_of_list in Hc'. tauto.
  - intros (H1 & H2). exists c. split; [reflexivity|]. apply mitems_in. rewrite mhas_mask_of_list. tauto.
Qed.

(* the assign commands of a builder, spelled out *)
Lemma assign_cmds_nth h : forall assigns n0 i a,
  nth_error assigns i = Some a -> nth_error (assign_cmds h n0 assigns) i = Some (AAssign h (fst a) (n0 + i)).
Proof.
  induction assigns as [|x t IH]; intros n0 [|i] a H; simpl in *; try discriminate.
  - inversion H. rewrite Nat.add_0_r. reflexivity.
  - rewrite (IH (S n0) i a H). f_equal. f_equal. lia.
Qed.

Lemma assign_cmds_length h : forall assigns n0, length (assign_cmds h n0 assigns) = length assigns.
Proof. induction assigns as [|x t IH]; intros n0; simpl; [reflexivity|]. rewrite IH. reflexivity. Qed.

Lemma assign_cmds_in h c : forall assigns n0, In c (assign_cmds h n0 assigns) ->
  exists a n, In a assigns /\ c = AAssign h (fst a) n.
Proof.
  induction assigns as [|x t IH]; intros n0 H; simpl in H; [contradiction|].
  destruct H as [<-|H]; [exists x, n0; split; [left; reflexivity|reflexivity]|].
  destruct (IH _ H) as (a & n & Ha & ->). exists a, n. split; [right; assumption|reflexivity].
Qed.

(* a successful builder only names registered components *)
Lemma build_assigns_registered tid h : forall assigns s s',
  fold_res (fun st (a : nat * Z) => assign_locked_value st tid h (fst a) (snd a)) assigns s = Ok s' ->
  forall a, In a assigns -> fst a < length (cinfos s).
Proof.
  induction assigns as [|[c x] t IH]; intros s s' H a Ha; [contradiction|].
  cbn [fold_res fst snd] in H. apply bind_ok in H. destruct H as (s1 & H1 & H).
  apply assign_locked_value_spec in H1. destruct H1 as (b & tl & _ & _ & Hc & ->).
  destruct Ha as [<-|Ha]; [exact Hc|]. apply (IH _ _ H a Ha).
Qed.

(* ------------------------------------------------------------------------------------------ *)
(* recording through a dead handle, then unlocking: the round trip is harmless (C09, deferred mode)   *)
Definition ev_tmp (e : event) : Prop :=
  match e with EvC _ (PTmp _ _) | EvV _ (PTmp _ _) | EvD _ (PTmp _ _) => True | _ => False end.

(* s' is s with the commands cs appended to buffer tid; besides that only the id counter, temporaries and the log
   (events about temporaries) may differ *)
Definition records (s s' : mst) (tid : nat) (cs : list acmd) : Prop :=
  exists e t evs, s' = with_rec s e (upd (bufs s) tid (nth tid (bufs s) [] ++ cs)) t (evs ++ log s) /\ Forall ev_tmp evs.

(* the thread and handle a deferred mutation goes through *)
Definition deferred_target (o : op) : option (nat * handle) :=
  match o with
  | ODestroy tid h | ODestroyNow tid h | ORemove tid h _ _ | OAssign tid h _ _ _ | OBuild tid (Some h) _ _ => Some (tid, h)
  | _ => None
  end.

Lemma with_rec_emit s e b t l ev : emit (with_rec s e b t l) ev = with_rec s e b t (ev :: l).
Proof. reflexivity. Qed.

Lemma records_push s s' tid c : push_cmd s tid c = Ok s' -> records s s' tid [c].
Proof.
  intros H. apply push_cmd_spec in H. destruct H as (b & Hb & ->).
  exists (next_eid s), (tmps s), []. rewrite (nth_error_nth' _ _ _ [] Hb). split; [reflexivity|constructor].
Qed.

Lemma step_assign_locked s tid h c v typed k : lockc s = S k ->
  step s (OAssign tid h c v typed) =
  (do inf <- info_of s c;
   do r <- assign_locked s tid h c (match v with AValue _ => typed | ADefault => false end);
   match v with
   | ADefault => Ok (fst r, RNone)
   | AValue x =>
     do s2 <- (if ci_hasval inf then write_tmp (fst r) tid (snd r) (Some x) else Ok (fst r));
     Ok (if typed then (if ci_ev inf then emit s2 (EvV (ci_pal inf) (PTmp (epoch s * 64 + tid) (snd r))) else s2) else s2, RNone)
   end).
Proof.
  intros E. cbn [step]. rewrite E. destruct (info_of s c) as [inf|e]; [|reflexivity]. cbn [bind].
  destruct (assign_locked s tid h c match v with ADefault => false | AValue _ => typed end) as [[s1 n]|e]; [|reflexivity].
  cbn [bind fst snd]. destruct v as [|x]; [reflexivity|].
  destruct (if ci_hasval inf then write_tmp s1 tid n (Some x) else Ok s1) as [s2|e]; [|reflexivity].
  cbn [bind]. destruct typed; reflexivity.
Qed.

Lemma al_events_tmp inf sk p n : Forall ev_tmp (al_events inf sk p n).
Proof.
  unfold al_events. destruct (ci_create inf); [destruct sk; [|destruct (ci_ev inf)]|]; repeat constructor.
Qed.

Lemma records_assign s tid h c v typed s' r : lockc s <> 0 -> step s (OAssign tid h c v typed) = Ok (s', r) ->
  records s s' tid [AAssign h c (length (nth tid (tmps s) []))] /\ c < length (cinfos s).
Proof.
  intros Hl H. destruct (lockc s) as [|k] eqn:El; [congruence|]. clear Hl.
  rewrite (step_assign_locked _ _ _ _ _ _ _ El) in H.
  apply bind_ok in H. destruct H as (inf & Hi & H).
  apply bind_ok in H. destruct H as ([s1 n] & Ha & H). cbn [fst snd] in H.
  apply assign_locked_spec in Ha. destruct Ha as (inf' & b & tl & Hi' & Hb & Ht & -> & ->).
  unfold records. rewrite (nth_error_nth' _ _ _ [] Hb), (nth_error_nth' _ _ _ [] Ht).
  split; [|eapply nth_error_lt; eassumption].
  pose proof (al_events_tmp inf' (match v with AValue _ => typed | ADefault => false end) (epoch s * 64 + tid) (length tl)) as Hev.
  destruct v as [|x].
  - inversion H; subst s' r. eexists _, _, _. split; [reflexivity|exact Hev].
  - apply bind_ok in H. destruct H as (s2 & Hw & H).
    assert (Hs2 : exists t2, s2 = with_rec s (next_eid s) (upd (bufs s) tid (b ++ [AAssign h c (length tl)])) t2
                                   (al_events inf' typed (epoch s * 64 + tid) (length tl) ++ log s)).
    { destruct (ci_hasval inf).
      - apply write_tmp_spec in Hw. destruct Hw as (tl0 & _ & _ & ->). wr. eexists. reflexivity.
      - inversion Hw; subst s2. eexists. reflexivity. }
    destruct Hs2 as (t2 & ->).
    destruct typed; [destruct (ci_ev inf)|]; inversion H; subst s' r.
    + rewrite with_rec_emit. exists (next_eid s), t2, (EvV (ci_pal inf) (PTmp (epoch s * 64 + tid) (length tl)) :: al_events inf' true (epoch s * 64 + tid) (length tl)).
      split; [reflexivity|]. constructor; [exact I|exact Hev].
    + eexists _, _, _. split; [reflexivity|exact Hev].
    + eexists _, _, _. split; [reflexivity|exact Hev].
Qed.

Lemma assign_evs_tmp cis p : forall assigns n0, Forall ev_tmp (assign_evs cis p n0 assigns).
Proof.
  induction assigns as [|a t IH]; intros n0; simpl; [constructor|]. apply Forall_app. split; [|apply IH].
  unfold assign_ev. destruct (nth_error cis (fst a)) as [inf|]; [destruct (ci_ev inf)|]; repeat constructor.
Qed.

Lemma Forall_rev' {A} (P : A -> Prop) l : Forall P l -> Forall P (rev l).
Proof. rewrite !Forall_forall. intros H x Hx. apply H. apply in_rev. assumption. Qed.

(* every deferred mutation through handle h records commands on h only, none of them a creation, all registered *)
Theorem deferred_op_records s o tid h s' r :
  lockc s <> 0 -> deferred_target o = Some (tid, h) -> step s o = Ok (s', r) ->
  exists cs, records s s' tid cs /\
    forall c, In c cs -> cmd_handle c = h /\ (match c with ACreate _ _ _ _ => False | _ => True end) /\ cmd_regb s c = true.
Proof.
  intros Hl Ht H. destruct o; simpl in Ht; try discriminate.
  - (* destroy *)
    inversion Ht; subst tid0 h0. destruct (lockc s) as [|k] eqn:El; [congruence|].
    cbn [step] in H. rewrite El in H. apply bind_ok in H. destruct H as (s1 & Hp & H). inversion H; subst s' r.
    exists [ADestroy h]. split; [apply records_push; assumption|]. intros c [<-|[]]. simpl. auto.
  - (* destroyNow *)
    inversion Ht; subst tid0 h0. destruct (lockc s) as [|k] eqn:El; [congruence|].
    cbn [step] in H. rewrite El in H. apply bind_ok in H. destruct H as (s1 & Hp & H). inversion H; subst s' r.
    exists [ADestroyNow h]. split; [apply records_push; assumption|]. intros c [<-|[]]. simpl. auto.
  - (* assign *)
    inversion Ht; subst tid0 h0. destruct (records_assign _ _ _ _ _ _ _ _ Hl H) as (Hr & Hc).
    eexists. split; [exact Hr|]. intros c' [<-|[]]. simpl. repeat split; auto. apply Nat.ltb_lt. exact Hc.
  - (* remove *)
    inversion Ht; subst tid0 h0. destruct (lockc s) as [|k] eqn:El; [congruence|].
    cbn [step] in H. rewrite El in H. apply bind_ok in H. destruct H as (s1 & Hp & H). inversion H; subst s' r.
    exists [ARemove h c]. split; [apply records_push; assumption|]. intros c' [<-|[]]. simpl. auto.
  - (* the builder on an existing entity *)
    destruct target as [h0|]; [|discriminate]. inversion Ht; subst tid0 h0.
    destruct (lockc s) as [|k] eqn:El; [congruence|].
    assert (Hreg : forall a, In a assigns -> fst a < length (cinfos s)).
    { rewrite (step_build_some _ _ _ _ _ _ El) in H. apply bind_ok in H. destruct H as (s1 & H1 & _).
      eapply build_assigns_registered; eassumption. }
    destruct (build_locked_some _ _ _ _ _ _ _ _ El H) as (-> & _).
    eexists. split.
    + eexists _, _, _. split; [reflexivity|]. apply Forall_rev'. apply assign_evs_tmp.
    + intros c Hc. apply in_app_or in Hc. destruct Hc as [Hc|Hc].
      * apply assign_cmds_in in Hc. destruct Hc as (a & n & Ha & ->). simpl. repeat split; auto.
        apply Nat.ltb_lt. apply Hreg. assumption.
      * apply in_map_iff in Hc. destruct Hc as (c' & <- & _). simpl. auto.
Qed.

Lemma step_unlock_outer s : lockc s = 1 -> step s OUnlock = do s2 <- flush (set_lock s 0); Ok (s2, RBool true).
Proof. intros E. cbn [step]. unfold do_unlock. rewrite E. cbn [pred lockc set_lock]. destruct (flush (set_lock s 0)); reflexivity. Qed.

Lemma forallb_upd {A} (f : A -> bool) l i x : forallb f l = true -> f x = true -> forallb f (upd l i x) = true.
Proof.
  revert i. induction l as [|a t IH]; intros [|i] H Hx; simpl in *; try reflexivity.
  - apply andb_true_iff in H. rewrite Hx. tauto.
  - apply andb_true_iff in H. destruct H as (H1 & H2). rewrite H1. apply IH; assumption.
Qed.

Lemma forallb_ext_eq {A} (f g : A -> bool) l : (forall x, f x = g x) -> forallb f l = forallb g l.
Proof. intros H. induction l as [|a t IH]; simpl; [reflexivity|]. rewrite IH, H. reflexivity. Qed.

Lemma forallb_nth {A} (f : A -> bool) l i d : forallb f l = true -> f d = true -> f (nth i l d) = true.
Proof.
  intros H Hd. destruct (Nat.lt_ge_cases i (length l)) as [Hlt|Hge].
  - rewrite forallb_forall in H. apply H. apply nth_In. assumption.
  - rewrite nth_overflow by assumption. assumption.
Qed.

(* THE ROUND TRIP: the manager is locked once, every buffer holds only dead commands (e.g. all are empty), more dead
   commands are recorded; then the unlock succeeds, reports the flush, and everything observable is as before the
   lock was taken apart from the lock depth itself; the log gains only events about command temporaries *)
Theorem dead_commands_roundtrip s s1 tid cs :
  lockc s = 1 -> forallb (buf_deadb s) (bufs s) = true -> records s s1 tid cs -> buf_deadb s cs = true ->
  exists s2, step s1 OUnlock = Ok (s2, RBool true) /\ observe s2 = observe (set_lock s 0) /\
             Forall (fun b => b = []) (bufs s2) /\ epoch s2 = S (epoch s) /\
             exists evs, log s2 = evs ++ log s /\ Forall ev_tmp evs.
Proof.
  intros Hl Hd (e & t & evs & -> & Hevs) Hcs.
  rewrite step_unlock_outer by (rewrite with_rec_lockc; exact Hl).
  rewrite flush_all_dead.
  - cbn [bind]. eexists. split; [reflexivity|]. split; [reflexivity|]. split.
    + cbn [bufs set_epoch set_bufs]. apply Forall_forall. intros b Hb. apply in_map_iff in Hb. destruct Hb as (? & <- & _). reflexivity.
    + split; [reflexivity|]. eexists. split.
      * cbn [log set_epoch set_bufs set_log set_lock with_rec]. rewrite app_assoc. reflexivity.
      * apply Forall_app. split; [|exact Hevs]. apply Forall_rev'. apply Forall_forall. intros ev Hev.
        apply flush_events_own in Hev. destruct Hev as (? & ? & ? & ? & ? & ? & _ & _ & _ & ->). exact I.
  - change (bufs (set_lock (with_rec s e (upd (bufs s) tid (nth tid (bufs s) [] ++ cs)) t (evs ++ log s)) 0))
      with (upd (bufs s) tid (nth tid (bufs s) [] ++ cs)).
    assert (Hfr : forall b, buf_deadb (set_lock (with_rec s e (upd (bufs s) tid (nth tid (bufs s) [] ++ cs)) t (evs ++ log s)) 0) b
                            = buf_deadb s b).
    { intros b. apply buf_deadb_frame; reflexivity. }
    apply forallb_upd.
    + rewrite <- Hd. apply forallb_ext_eq. exact Hfr.
    + rewrite Hfr. unfold buf_deadb. rewrite forallb_app. apply andb_true_iff. split; [|exact Hcs].
      apply (forallb_nth (buf_deadb s) (bufs s) tid [] Hd). reflexivity.
Qed.

(* the same, per entry point: any deferred mutation through a handle that is not valid *)
Theorem deferred_dead_harmless s o tid h s1 r :
  lockc s = 1 -> forallb (buf_deadb s) (bufs s) = true ->
  deferred_target o = Some (tid, h) -> is_valid s h = false -> step s o = Ok (s1, r) ->
  exists s2, step s1 OUnlock = Ok (s2, RBool true) /\ observe s2 = observe (set_lock s 0) /\
             Forall (fun b => b = []) (bufs s2) /\ epoch s2 = S (epoch s) /\
             exists evs, log s2 = evs ++ log s /\ Forall ev_tmp evs.
Proof.
  intros Hl Hd Ht Hv H.
  destruct (deferred_op_records s o tid h s1 r) as (cs & Hr & Hcs); [lia|assumption|assumption|].
  apply (dead_commands_roundtrip s s1 tid cs Hl Hd Hr).
  unfold buf_deadb. apply forallb_forall. intros c Hc. destruct (Hcs c Hc) as (Hh & Hnc & Hreg).
  rewrite Hreg, andb_true_r. unfold cmd_deadb. rewrite Hh, Hv. destruct c; try reflexivity. contradiction.
Qed.

(* queries and guarded calls through a handle that is not valid do nothing at ANY lock depth *)
Theorem harmless_any_lock s h :
  is_valid s h = false ->
  (forall c, step s (OGetConst h c) = Ok (s, RCell false None)) /\
  (forall c w, step s (OGetMut h c w) = Ok (s, RCell false None)) /\
  (forall c, step s (OHas h c) = Ok (s, RBool false)) /\
  (forall c, step s (OMarkDirty h c) = Ok (s, RNone)) /\
  step s (OClone h) = Ok (s, RNullHandle) /\
  (forall sid, step s (ORemoveShared h sid) = Ok (s, RBool false)).
Proof.
  intros Hv. repeat split; intros; cbn [step]; unfold remove_shared, get_mut, mark_dirty, bind; rewrite ?Hv; reflexivity.
Qed.

(* ------------------------------------------------------------------------------------------ *)
(* (5) the UNLOCKED builder on an existing entity is not a checked entry point: it never tests validity.
   It reads the location table at the handle's id. When there is no location there (id out of range -- e.g. the null
   handle -- or an id that is currently free) the model reports the crash of archetypes_[null index]. When the id has
   been recycled, the stale handle reaches the entity that now owns the id (see C09_builder_stale_example). *)
Theorem build_unlocked_no_location s tid h assigns removes :
  lockc s = 0 ->
  match nth_error (locs s) (N.to_nat (fst h)) with Some l => l_arch l = None | None => True end ->
  step s (OBuild tid (Some h) assigns removes) = Err OobIndex.
Proof.
  intros Hl Hloc. cbn [step]. rewrite Hl. unfold build_update_unlocked, loc_arch, nth_res.
  destruct (nth_error (locs s) (N.to_nat (fst h))) as [l|]; [|reflexivity]. cbn [bind]. rewrite Hloc. reflexivity.
Qed.
