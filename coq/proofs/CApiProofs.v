(* Proofs for C18: the C interface (untyped, id-based entry points; components described at run time) against
   the C++ interface (typed entry points; static descriptions) on the Manager model. *)
Require Import Coq.Lists.List Coq.NArith.NArith Coq.ZArith.ZArith Coq.Arith.Arith Coq.Bool.Bool Coq.micromega.Lia
  Coq.Sorting.Permutation.
From Mustache Require Import Res Manager Palette.
From Mustache.proofs Require Import ListLemmas SkelBasics.
Import ListNotations.

(* ---------------------------------------------------------------------------------------- *)
(* states equal but for the event log                                                        *)
Definition state_eq_but_log (s1 s2 : mst) : Prop := set_log s1 [] = set_log s2 [].

Lemma state_eq_but_log_fields s1 s2 :
  state_eq_but_log s1 s2 <->
  slots s1 = slots s2 /\ locs s1 = locs s2 /\ next_slot s1 = next_slot s2 /\ empty_slots s1 = empty_slots s2 /\
  archs s1 = archs s2 /\ lockc s1 = lockc s2 /\ next_eid s1 = next_eid s2 /\ bufs s1 = bufs s2 /\ tmps s1 = tmps s2 /\
  marked s1 = marked s2 /\ deps s1 = deps s2 /\ pool s1 = pool s2 /\ insts s1 = insts s2 /\ wv s1 = wv s2 /\
  cached s1 = cached s2 /\ def_chunk s1 = def_chunk s2 /\ chunk_fns s1 = chunk_fns s2 /\ cinfos s1 = cinfos s2 /\
  nthreads s1 = nthreads s2 /\ epoch s1 = epoch s2.
Proof.
  unfold state_eq_but_log. destruct s1, s2; unfold set_log; simpl. split.
  - intros E; inversion E; repeat split; reflexivity.
  - intros H. repeat match goal with H : _ /\ _ |- _ => destruct H as [? H] end. subst. reflexivity.
Qed.

Lemma state_eq_but_log_set_log s l : state_eq_but_log s (set_log s l).
Proof. reflexivity. Qed.

(* ---------------------------------------------------------------------------------------- *)
(* relating two runs in the result monad                                                     *)
Definition res_rel {A B} (R : A -> B -> Prop) (r : res A) (r' : res B) : Prop :=
  match r, r' with Ok a, Ok b => R a b | Err e, Err e' => e = e' | _, _ => False end.

Lemma bind_rel {A B A' B'} (R : A -> A' -> Prop) (Q : B -> B' -> Prop) r r' f g :
  res_rel R r r' -> (forall a a', R a a' -> res_rel Q (f a) (g a')) -> res_rel Q (bind r f) (bind r' g).
Proof. destruct r, r'; simpl; intros H K; try contradiction; [apply K; assumption|assumption]. Qed.

Lemma bind_rel_same {A B B'} (Q : B -> B' -> Prop) (r : res A) f g :
  (forall a, res_rel Q (f a) (g a)) -> res_rel Q (bind r f) (bind r g).
Proof. destruct r; simpl; intros K; [apply K|reflexivity]. Qed.

Lemma bind_rel_same' {A B B'} (Q : B -> B' -> Prop) (r : res A) f g :
  (forall a, r = Ok a -> res_rel Q (f a) (g a)) -> res_rel Q (bind r f) (bind r g).
Proof. destruct r; simpl; intros K; [apply K; reflexivity|reflexivity]. Qed.

Lemma res_rel_bind_l {A B C} (Q : B -> C -> Prop) (r : res A) a f r' :
  r = Ok a -> res_rel Q (f a) r' -> res_rel Q (bind r f) r'.
Proof. intros ->. auto. Qed.
Lemma res_rel_bind_r {A B C} (Q : C -> B -> Prop) (r : res A) a f r' :
  r = Ok a -> res_rel Q r' (f a) -> res_rel Q r' (bind r f).
Proof. intros ->. auto. Qed.

Lemma res_rel_refl {A} (R : A -> A -> Prop) (r : res A) : (forall a, R a a) -> res_rel R r r.
Proof. destruct r; simpl; auto. Qed.

Lemma res_rel_weaken {A B} (R Q : A -> B -> Prop) r r' :
  res_rel R r r' -> (forall a b, r = Ok a -> r' = Ok b -> R a b -> Q a b) -> res_rel Q r r'.
Proof. destruct r, r'; simpl; auto. Qed.

Lemma fold_rel {A S S'} (R : S -> S' -> Prop) (f : S -> A -> res S) (g : S' -> A -> res S') (l : list A) :
  (forall x s s', In x l -> R s s' -> res_rel R (f s x) (g s' x)) ->
  forall s s', R s s' -> res_rel R (fold_res f l s) (fold_res g l s').
Proof.
  induction l as [|x t IH]; intros Hstep s s' HR; simpl; [exact HR|].
  apply bind_rel with (R := R); [apply Hstep; [left; reflexivity|assumption]|].
  intros a a' Ha. apply IH; [|assumption]. intros y u u' Hy. apply Hstep. right. assumption.
Qed.

Lemma fold_res_app {A S} (f : S -> A -> res S) l1 l2 s :
  fold_res f (l1 ++ l2) s = bind (fold_res f l1 s) (fold_res f l2).
Proof.
  revert s; induction l1 as [|x t IH]; intros s; simpl; [reflexivity|].
  destruct (f s x); simpl; [apply IH|reflexivity].
Qed.

(* two folds that agree step by step on the states satisfying an invariant the steps preserve *)
Lemma fold_res_ext_inv {A S} (I : S -> Prop) (f g : S -> A -> res S) (l : list A) :
  (forall x s, In x l -> I s -> f s x = g s x) ->
  (forall x s t, In x l -> I s -> f s x = Ok t -> I t) ->
  forall s, I s -> fold_res f l s = fold_res g l s /\ (forall t, fold_res f l s = Ok t -> I t).
Proof.
  induction l as [|x t IH]; intros He Hp s Hs; simpl.
  - split; [reflexivity|]. intros u E; inversion E; subst; assumption.
  - rewrite <- (He x s (or_introl eq_refl) Hs). destruct (f s x) as [s1|e] eqn:E; simpl.
    + apply IH; [intros; apply He; [right|]; assumption|intros y u v Hy; apply Hp; right; assumption|].
      apply (Hp x s s1 (or_introl eq_refl) Hs E).
    + split; [reflexivity|discriminate].
Qed.

Lemma bind_ok {A B} (r : res A) (f : A -> res B) b : bind r f = Ok b -> exists a, r = Ok a /\ f a = Ok b.
Proof. destruct r as [a|e]; simpl; intros H; [exists a; auto|discriminate]. Qed.

(* ---------------------------------------------------------------------------------------- *)
(* lists with update                                                                         *)
Lemma upd_same_id {A} (l : list A) i x : nth_error l i = Some x -> upd l i x = l.
Proof. revert i; induction l as [|y t IH]; intros [|i]; simpl; intros H; try discriminate; [inversion H; reflexivity|f_equal; auto]. Qed.
Lemma upd_upd {A} (l : list A) i x y : upd (upd l i x) i y = upd l i y.
Proof. revert i; induction l as [|z t IH]; intros [|i]; simpl; auto. f_equal; auto. Qed.
Lemma upd_comm {A} (l : list A) i j x y : i <> j -> upd (upd l i x) j y = upd (upd l j y) i x.
Proof. revert i j; induction l as [|z t IH]; intros [|i] [|j] H; simpl; auto; [congruence|]. f_equal; apply IH; congruence. Qed.
Lemma nth_upd_other {A} (l : list A) i j x d : i <> j -> nth j (upd l i x) d = nth j l d.
Proof. revert i j; induction l as [|z t IH]; intros [|i] [|j] H; simpl; auto; try congruence. Qed.
Lemma upd_oob {A} (l : list A) i x : length l <= i -> upd l i x = l.
Proof. revert i; induction l as [|z t IH]; intros [|i]; simpl; intros H; auto; [lia|]. f_equal; apply IH; lia. Qed.
Lemma upd_nth_id {A} (l : list A) i d : upd l i (nth i l d) = l.
Proof. revert i; induction l as [|z t IH]; intros [|i]; simpl; auto. f_equal; auto. Qed.
Lemma upd_app_last {A} (l : list A) x y : upd (l ++ [x]) (length l) y = l ++ [y].
Proof. induction l as [|z t IH]; simpl; [reflexivity|]. f_equal; assumption. Qed.

(* ---------------------------------------------------------------------------------------- *)
(* writing one cell                                                                          *)
Definition putc (sl : nat) (col : list cell) (v : cell) : list cell :=
  upd (if Nat.ltb sl (length col) then col else resize col (S sl) None) sl v.

Lemma put_cell_putc a ci sl v : put_cell a ci sl v = with_cols a (upd (am_cols a) ci (putc sl (nth ci (am_cols a) []) v)).
Proof. reflexivity. Qed.

Lemma resize_length {A} (l : list A) n d : length (resize l n d) = n.
Proof. unfold resize. rewrite app_length, firstn_length, repeat_length. lia. Qed.

Lemma putc_length sl col v : sl < length (putc sl col v).
Proof.
  unfold putc. rewrite upd_length. destruct (Nat.ltb_spec sl (length col)); [assumption|]. rewrite resize_length. lia.
Qed.

Lemma putc_putc sl col v w : putc sl (putc sl col v) w = putc sl col w.
Proof.
  unfold putc at 1. pose proof (putc_length sl col v) as H. apply Nat.ltb_lt in H. rewrite H.
  unfold putc. apply upd_upd.
Qed.

(* ---------------------------------------------------------------------------------------- *)
(* The relation between the typed and the untyped run of one assign: the untyped run has constructed the new cell
   (ai, ci, slot) by default before the value is written over it, and has logged the events X of that construction.
   s' is s with other contents in that one cell (contents a later write of the cell makes irrelevant) and with X
   inserted into the log at the point L1. *)
Section Poke.
Variables (ai ci slot : nat) (M : mask) (X L1 : list event).

Definition puteq (col col' : list cell) : Prop := forall v, putc slot col v = putc slot col' v.
Definition poke_arch (a : archetype) (col' : list cell) : archetype := with_cols a (upd (am_cols a) ci col').

Definition R (s s' : mst) : Prop :=
  exists a col' pre, nth_error (archs s) ai = Some a /\ am_mask a = M /\ puteq (nth ci (am_cols a) []) col' /\
    log s = pre ++ L1 /\ s' = set_log (set_arch s ai (poke_arch a col')) (pre ++ X ++ L1).

Lemma R_locs s s' : R s s' -> locs s' = locs s.
Proof. intros (a & col' & pre & _ & _ & _ & _ & ->). reflexivity. Qed.
Lemma R_cinfos s s' : R s s' -> cinfos s' = cinfos s.
Proof. intros (a & col' & pre & _ & _ & _ & _ & ->). reflexivity. Qed.
Lemma R_info s s' c : R s s' -> info_of s' c = info_of s c.
Proof. intros H. unfold info_of. rewrite (R_cinfos _ _ H). reflexivity. Qed.
Lemma R_wv s s' : R s s' -> wv s' = wv s.
Proof. intros (a & col' & pre & _ & _ & _ & _ & ->). reflexivity. Qed.
Lemma R_arch_other s s' k : R s s' -> k <> ai -> nth_res (archs s') k = nth_res (archs s) k.
Proof.
  intros (a & col' & pre & _ & _ & _ & _ & ->) Hk. unfold nth_res. simpl.
  rewrite nth_error_upd_other by congruence. reflexivity.
Qed.

Lemma R_emit s s' e : R s s' -> R (emit s e) (emit s' e).
Proof.
  intros (a & col' & pre & Ha & HM & Hp & Hl & ->). exists a, col', (e :: pre).
  split; [exact Ha|]. split; [exact HM|]. split; [exact Hp|]. split; [simpl; rewrite Hl; reflexivity|reflexivity].
Qed.

Lemma R_set_arch s s' k Y : R s s' -> k <> ai -> R (set_arch s k Y) (set_arch s' k Y).
Proof.
  intros (a & col' & pre & Ha & HM & Hp & Hl & ->) Hk. exists a, col', pre.
  split; [simpl; rewrite nth_error_upd_other by congruence; exact Ha|]. split; [exact HM|]. split; [exact Hp|].
  split; [exact Hl|]. unfold set_arch, set_archs, set_log; simpl. rewrite (upd_comm (archs s) ai k) by congruence. reflexivity.
Qed.

Lemma R_set_locs s s' ls : R s s' -> R (set_locs s ls) (set_locs s' ls).
Proof.
  intros (a & col' & pre & Ha & HM & Hp & Hl & ->). exists a, col', pre. repeat (split; [assumption|]). reflexivity.
Qed.

Lemma update_location_rel s s' h l : R s s' -> res_rel R (update_location s h l) (update_location s' h l).
Proof.
  intros H. unfold update_location. rewrite (R_locs _ _ H). apply bind_rel_same. intros ls. simpl. apply R_set_locs. exact H.
Qed.

(* a write into another column of the new archetype *)
Lemma write_cell_other_rel s s' ci' sl v : R s s' -> ci' <> ci ->
  res_rel R (write_cell s ai ci' sl v) (write_cell s' ai ci' sl v).
Proof.
  intros (a & col' & pre & Ha & HM & Hp & Hl & ->) Hc. unfold write_cell.
  assert (Hlt : ai < length (archs s)) by (apply nth_error_Some; congruence).
  rewrite (nth_res_some _ _ _ Ha). simpl.
  unfold nth_res. cbn [archs set_log set_arch set_archs]. rewrite nth_error_upd_same by exact Hlt. cbn [bind].
  exists (put_cell a ci' sl v), col', pre.
  split; [cbn [archs set_arch set_archs]; rewrite nth_error_upd_same by exact Hlt; reflexivity|]. split; [exact HM|].
  split; [rewrite put_cell_putc; simpl; rewrite nth_upd_other by congruence; exact Hp|]. split; [exact Hl|].
  unfold set_arch, set_archs, set_log; simpl. rewrite !upd_upd.
  replace (put_cell (poke_arch a col') ci' sl v) with (poke_arch (put_cell a ci' sl v) col'); [reflexivity|].
  rewrite !put_cell_putc. unfold poke_arch, with_cols; simpl.
  rewrite nth_upd_other by congruence. rewrite (upd_comm (am_cols a) ci' ci) by congruence. reflexivity.
Qed.

(* the write of the assigned value into the cell itself makes the two runs meet *)
Lemma write_cell_same_rel s s' v : R s s' ->
  exists t, write_cell s ai ci slot v = Ok t /\ write_cell s' ai ci slot v = Ok (set_log t (log s')).
Proof.
  intros (a & col' & pre & Ha & HM & Hp & Hl & ->). unfold write_cell.
  assert (Hlt : ai < length (archs s)) by (apply nth_error_Some; congruence).
  rewrite (nth_res_some _ _ _ Ha). simpl. eexists. split; [reflexivity|].
  unfold nth_res. cbn [archs set_log set_arch set_archs]. rewrite nth_error_upd_same by exact Hlt. cbn [bind]. f_equal.
  unfold set_arch, set_archs, set_log; simpl. rewrite !upd_upd.
  replace (put_cell (poke_arch a col') ci slot v) with (put_cell a ci slot v); [reflexivity|].
  rewrite !put_cell_putc. unfold poke_arch, with_cols; simpl. rewrite upd_upd.
  destruct (Nat.ltb_spec ci (length (am_cols a))) as [Hin|Hout].
  - rewrite (nth_upd_same (am_cols a) ci col' []) by exact Hin. rewrite (Hp v). reflexivity.
  - rewrite !(upd_oob (am_cols a) ci) by exact Hout. reflexivity.
Qed.

Lemma poke_id_state s a l : nth_error (archs s) ai = Some a ->
  set_log (set_arch s ai (poke_arch a (nth ci (am_cols a) []))) l = set_log s l.
Proof.
  intros Ha. unfold poke_arch. rewrite upd_nth_id. destruct a; unfold with_cols; simpl.
  unfold set_arch, set_archs, set_log; simpl. rewrite (upd_same_id _ _ _ Ha). reflexivity.
Qed.

Lemma R_refl s a pre : nth_error (archs s) ai = Some a -> am_mask a = M -> X = [] -> log s = pre ++ L1 -> R s s.
Proof.
  intros Ha HM HX Hl. exists a, (nth ci (am_cols a) []), pre.
  split; [exact Ha|]. split; [exact HM|]. split; [intro v; reflexivity|]. split; [exact Hl|].
  rewrite (poke_id_state _ _ _ Ha). rewrite HX. simpl. rewrite <- Hl. destruct s; reflexivity.
Qed.

(* the operations on OTHER archetypes (the one the entity leaves) commute with the difference *)
Lemma call_destructor_rel s s' k sl : R s s' -> k <> ai -> res_rel R (call_destructor s k sl) (call_destructor s' k sl).
Proof.
  intros H Hk. unfold call_destructor. rewrite (R_arch_other _ _ k H Hk). apply bind_rel_same. intros a0.
  apply bind_rel with (R := R).
  - apply fold_rel; [|exact H]. intros c0 t t' _ Ht. rewrite (R_info _ _ c0 Ht). apply bind_rel_same. intros inf. simpl.
    destruct (ci_destroy inf && ci_ev inf); [apply R_emit|]; exact Ht.
  - intros t t' Ht. rewrite (R_arch_other _ _ k Ht Hk). apply bind_rel_same. intros a1. simpl. apply R_set_arch; assumption.
Qed.

Lemma pop_back_rel s s' k : R s s' -> k <> ai -> res_rel R (pop_back s k) (pop_back s' k).
Proof.
  intros H Hk. unfold pop_back. rewrite (R_arch_other _ _ k H Hk). apply bind_rel_same. intros a0. simpl.
  apply R_set_arch; assumption.
Qed.

Lemma internal_move_rel s s' k src dst : R s s' -> k <> ai ->
  res_rel R (internal_move s k src dst) (internal_move s' k src dst).
Proof.
  intros H Hk. unfold internal_move. rewrite (R_arch_other _ _ k H Hk). apply bind_rel_same. intros a0.
  apply bind_rel with (R := R).
  - apply fold_rel; [|exact H]. intros [ci0 c0] t t' _ Ht. rewrite (R_info _ _ c0 Ht). apply bind_rel_same. intros inf.
    rewrite (R_arch_other _ _ k Ht Hk). apply bind_rel_same. intros a'. simpl.
    destruct (ci_move inf && ci_ev inf); [apply R_emit|]; apply R_set_arch; assumption.
  - intros t t' Ht. rewrite (R_arch_other _ _ k Ht Hk). apply bind_rel_same. intros a1.
    apply bind_rel_same. intros src_e. apply bind_rel_same. intros dst_e.
    apply bind_rel_same. intros csrc. apply bind_rel_same. intros cdst. rewrite (R_wv _ _ Ht).
    apply bind_rel_same. intros a2. apply bind_rel_same. intros a3.
    apply bind_rel with (R := R); [apply update_location_rel; apply R_set_arch; assumption|].
    intros u u' Hu. apply bind_rel with (R := R); [apply update_location_rel; exact Hu|].
    intros w w' Hw. rewrite (R_arch_other _ _ k Hw Hk). apply bind_rel_same. intros a4.
    apply call_destructor_rel; [apply R_set_arch; assumption|exact Hk].
Qed.

Lemma arch_remove_rel s s' k idx h skip : R s s' -> k <> ai ->
  res_rel R (arch_remove s k idx h skip) (arch_remove s' k idx h skip).
Proof.
  intros H Hk. unfold arch_remove. rewrite (R_arch_other _ _ k H Hk). apply bind_rel_same. intros a0.
  rewrite (R_cinfos _ _ H). apply bind_rel_same. intros ent.
  apply bind_rel with (R := R).
  - apply fold_rel; [|exact H]. intros c0 t t' _ Ht. rewrite (R_info _ _ c0 Ht). apply bind_rel_same. intros inf. simpl.
    destruct (ci_br inf && mhas _ c0); [apply R_emit|]; exact Ht.
  - intros t t' Ht. destruct (am_size a0) as [|last]; [reflexivity|].
    destruct (Nat.eqb idx last); [|apply internal_move_rel; assumption].
    apply bind_rel with (R := R).
    + unfold any_destroy. rewrite (R_cinfos _ _ Ht).
      destruct (existsb _ _); [apply call_destructor_rel|apply pop_back_rel]; assumption.
    + intros u u' Hu. rewrite (R_arch_other _ _ k Hu Hk). apply bind_rel_same. intros a2.
      apply bind_rel_same. intros ch. rewrite (R_wv _ _ Hu). apply bind_rel_same. intros a3.
      apply update_location_rel. apply R_set_arch; assumption.
Qed.

Lemma construct_default_other_rel s s' c' ci' sl h u : R s s' -> ci' <> ci ->
  res_rel R (construct_default s ai c' ci' sl h u) (construct_default s' ai c' ci' sl h u).
Proof.
  intros H Hc. unfold construct_default. rewrite (R_info _ _ c' H). apply bind_rel_same. intros inf.
  apply bind_rel with (R := R).
  - destruct (ci_create inf) as [v|].
    + apply bind_rel with (R := R); [apply write_cell_other_rel; assumption|]. intros t t' Ht. simpl.
      destruct (ci_ev inf); [apply R_emit|]; exact Ht.
    + destruct (ci_default inf) as [v|]; [|exact H]. destruct u; [apply write_cell_other_rel; assumption|exact H].
  - intros t t' Ht. simpl. destruct (ci_aa inf); [apply R_emit|]; exact Ht.
Qed.

End Poke.

(* ---------------------------------------------------------------------------------------- *)
(* component indices                                                                         *)
Lemma filter_seq_index (p : nat -> bool) n : forall a i c,
  nth_error (filter p (seq a n)) i = Some c -> p c = true /\ a <= c /\ length (filter p (seq a (c - a))) = i.
Proof.
  induction n as [|n IH]; intros a i c H; simpl in H; [destruct i; discriminate|].
  destruct (p a) eqn:Ea.
  - destruct i as [|i]; simpl in H.
    + inversion H; subst c. rewrite Nat.sub_diag. simpl. auto.
    + destruct (IH _ _ _ H) as (Hp & Hle & Hlen). split; [exact Hp|]. split; [lia|].
      replace (c - a) with (S (c - S a)) by lia. simpl. rewrite Ea. simpl. rewrite Hlen. reflexivity.
  - destruct (IH _ _ _ H) as (Hp & Hle & Hlen). split; [exact Hp|]. split; [lia|].
    replace (c - a) with (S (c - S a)) by lia. simpl. rewrite Ea. exact Hlen.
Qed.

Lemma in_combine_seq {A} (l : list A) : forall a i x, In (i, x) (combine (seq a (length l)) l) -> a <= i /\ nth_error l (i - a) = Some x.
Proof.
  induction l as [|y t IH]; intros a i x H; simpl in H; [contradiction|]. destruct H as [H|H].
  - inversion H; subst. rewrite Nat.sub_diag. auto.
  - destruct (IH _ _ _ H) as (Hle & Hn). split; [lia|]. replace (i - a) with (S (i - S a)) by lia. exact Hn.
Qed.

Lemma filter_index0 (p : nat -> bool) n i c :
  nth_error (filter p (seq 0 n)) i = Some c -> p c = true /\ length (filter p (seq 0 c)) = i.
Proof. intros H. destruct (filter_seq_index p n 0 i c H) as (Hp & _ & Hlen). rewrite Nat.sub_0_r in Hlen. auto. Qed.

(* (stated over an abstract list: letting the kernel unfold the 128-element filter is exponential) *)
Lemma comps_index_gen (p : nat -> bool) n l ci c : l = filter p (seq 0 n) ->
  In (ci, c) (combine (seq 0 (length l)) l) -> p c = true /\ length (filter p (seq 0 c)) = ci.
Proof.
  intros -> H. destruct (in_combine_seq _ 0 ci c H) as (_ & Hn). rewrite Nat.sub_0_r in Hn.
  apply filter_index0 in Hn. exact Hn.
Qed.
Lemma mitems_eq m : mitems m = filter (mhas m) (seq 0 MASK_BITS).
Proof. reflexivity. Qed.
Lemma comps_index m ci c : In (ci, c) (combine (seq 0 (length (mitems m))) (mitems m)) -> cindex m c = Some ci.
Proof.
  intros H. unfold cindex.
  destruct (comps_index_gen (mhas m) MASK_BITS (mitems m) ci c (mitems_eq m) H) as (Hp & Hlen).
  rewrite Hp, Hlen. reflexivity.
Qed.

Lemma cindex_lt m c1 c2 i : c1 < c2 -> cindex m c1 = Some i -> cindex m c2 = Some i -> False.
Proof.
  unfold cindex. intros Hlt H1 H2. destruct (mhas m c1) eqn:E1; [|discriminate]. destruct (mhas m c2); [|discriminate].
  inversion H1 as [L1]. inversion H2 as [L2]. clear H1 H2.
  replace c2 with (c1 + S (c2 - S c1)) in L2 by lia. rewrite seq_app, filter_app, app_length in L2. simpl in L2.
  rewrite E1 in L2. simpl in L2. lia.
Qed.

Lemma cindex_inj m c1 c2 i : cindex m c1 = Some i -> cindex m c2 = Some i -> c1 = c2.
Proof.
  intros H1 H2. destruct (Nat.lt_trichotomy c1 c2) as [H|[H|H]]; [exfalso; eapply cindex_lt; eauto|exact H|exfalso; eapply cindex_lt; eauto].
Qed.

Lemma map_snd_combine' {A B} (l1 : list A) (l2 : list B) : length l1 = length l2 -> map snd (combine l1 l2) = l2.
Proof. revert l2; induction l1 as [|x t IH]; intros [|y u] H; simpl in *; try discriminate; [reflexivity|]. f_equal. apply IH. lia. Qed.

Lemma mitems_nodup m : NoDup (mitems m).
Proof. rewrite mitems_eq. apply NoDup_filter. apply seq_NoDup. Qed.

Lemma mhas_madd_other m c c' : c <> c' -> mhas (madd m c) c' = mhas m c'.
Proof. intros H. unfold mhas, madd. apply N.setbit_neq. intros E. apply Nat2N.inj in E. congruence. Qed.
Lemma mhas_madd_same m c : mhas (madd m c) c = true.
Proof. unfold mhas, madd. apply N.setbit_eq. Qed.
Lemma mhas_zero c : mhas 0%N c = false.
Proof. unfold mhas. apply N.bits_0. Qed.

(* ---------------------------------------------------------------------------------------- *)
(* the events of the two ways of giving a component its first value *)
Definition Tev (inf : cinfo) (p : place) (h : handle) : list event :=      (* typed assign with a value: EvV, afterAssign *)
  (if ci_aa inf then [EvAA (ci_pal inf) p h] else []) ++ (if ci_ev inf then [EvV (ci_pal inf) p] else []).
Definition Cev (inf : cinfo) (p : place) (h : handle) : list event :=      (* default construction: EvC, afterAssign *)
  (if ci_aa inf then [EvAA (ci_pal inf) p h] else []) ++
  (match ci_create inf with Some _ => if ci_ev inf then [EvC (ci_pal inf) p] else [] | None => [] end).

Lemma R_intro ai ci slot X s a col' s' :
  nth_error (archs s) ai = Some a -> puteq slot (nth ci (am_cols a) []) col' ->
  s' = set_log (set_arch s ai (poke_arch ci a col')) (X ++ log s) -> R ai ci slot (am_mask a) X (log s) s s'.
Proof. intros Ha Hp ->. exists a, col', []. split; [exact Ha|]. split; [reflexivity|]. split; [exact Hp|]. split; reflexivity. Qed.

Lemma construct_default_intro ai ci slot c h s a inf :
  nth_error (archs s) ai = Some a -> info_of s c = Ok inf ->
  exists s', construct_default s ai c ci slot h true = Ok s' /\
    R ai ci slot (am_mask a) (Cev inf (PArch ai c slot) h) (log s) s s'.
Proof.
  intros Ha Hi. unfold construct_default. rewrite Hi. cbn [bind]. unfold write_cell. rewrite (nth_res_some _ _ _ Ha). cbn [bind].
  destruct inf as [pal ev hv cr mv mc ds df aa br cl cp]. unfold Cev. cbn [ci_create ci_default ci_ev ci_aa ci_pal].
  destruct cr as [v|]; [|destruct df as [v|]].
  - eexists; split; [reflexivity|].
    apply (R_intro ai ci slot _ s a (putc slot (nth ci (am_cols a) []) (Some v))); [exact Ha|intro w; symmetry; apply putc_putc|].
    destruct ev, aa; reflexivity.
  - eexists; split; [reflexivity|].
    apply (R_intro ai ci slot _ s a (putc slot (nth ci (am_cols a) []) (Some v))); [exact Ha|intro w; symmetry; apply putc_putc|].
    destruct aa; reflexivity.
  - eexists; split; [reflexivity|].
    apply (R_intro ai ci slot _ s a (nth ci (am_cols a) [])); [exact Ha|intro w; reflexivity|].
    rewrite (poke_id_state ai ci s a _ Ha). destruct aa; [reflexivity|destruct s; reflexivity].
Qed.

(* ---------------------------------------------------------------------------------------- *)
(* what no step of the component loop changes: the masks of the archetypes and the descriptions *)
Definition shape (s : mst) : list mask * list cinfo := (map am_mask (archs s), cinfos s).

Lemma shape_arch s t k a : shape s = shape t -> nth_error (archs s) k = Some a ->
  exists b, nth_error (archs t) k = Some b /\ am_mask b = am_mask a.
Proof.
  unfold shape. intros E Ha. inversion E as [[Em Ec]]. apply (map_nth_error am_mask) in Ha. rewrite Em in Ha.
  rewrite nth_error_map in Ha. destruct (nth_error (archs t) k) as [b|]; [|discriminate].
  exists b. inversion Ha. auto.
Qed.
Lemma shape_info s t c : shape s = shape t -> info_of s c = info_of t c.
Proof. unfold shape, info_of. intros E; inversion E as [[Em Ec]]. reflexivity. Qed.

Lemma write_cell_shape s k ci sl v t : write_cell s k ci sl v = Ok t -> shape t = shape s /\ log t = log s.
Proof.
  unfold write_cell. intros H. apply bind_ok in H. destruct H as (a & Ha & H). inversion H; subst t; clear H.
  apply nth_res_ok in Ha. split; [|reflexivity]. unfold shape; simpl. f_equal. rewrite map_upd.
  apply upd_same_id. rewrite put_cell_putc. simpl. apply map_nth_error. exact Ha.
Qed.

Lemma construct_default_shape s k c ci sl h u t : construct_default s k c ci sl h u = Ok t -> shape t = shape s.
Proof.
  unfold construct_default. intros H. apply bind_ok in H. destruct H as (inf & _ & H).
  apply bind_ok in H. destruct H as (s1 & H1 & H). inversion H; subst t; clear H.
  assert (E : shape s1 = shape s).
  { destruct (ci_create inf) as [v|].
    - apply bind_ok in H1. destruct H1 as (s' & Hw & H1). apply write_cell_shape in Hw. destruct Hw as (Hw & _).
      inversion H1; subst s1. destruct (ci_ev inf); exact Hw.
    - destruct (ci_default inf) as [v|]; [|inversion H1; reflexivity].
      destruct u; [apply write_cell_shape in H1; apply H1|inversion H1; reflexivity]. }
  destruct (ci_aa inf); exact E.
Qed.

(* ---------------------------------------------------------------------------------------- *)
(* Archetype::externalMove: the loop over the components of the new archetype                *)
Definition em_body (ai prev pidx idx : nat) (h : handle) (skip : mask) (st : mst) (x : nat * nat) : res mst :=
  let '(ci, c) := x in
  do inf <- info_of st c;
  do pa' <- nth_res (archs st) prev;
  match cindex (am_mask pa') c with
  | Some pci =>
    if Nat.ltb pidx (am_size pa') then
      do st1 <- write_cell st ai ci idx (get_cell pa' pci pidx);
      Ok (if ci_mctor inf && ci_ev inf then emit st1 (EvMC (ci_pal inf) (PArch ai c idx) (PArch prev c pidx)) else st1)
    else Err OobIndex
  | None =>
    if ((match ci_create inf with Some _ => true | None => false end) ||
        (match ci_default inf with Some _ => true | None => false end) || ci_aa inf) && negb (mhas skip c)
    then construct_default st ai c ci idx h true else Ok st
  end.

Lemma external_move_eq s ai h prev pidx skip :
  external_move s ai h prev pidx skip =
  if Nat.eqb ai prev then Err (Throw 4) else
  do r <- push_back s ai h;
  let '(s1, idx) := r in
  do a <- nth_res (archs s1) ai;
  do pa <- nth_res (archs s1) prev;
  do s2 <- fold_res (em_body ai prev pidx idx h skip) (combine (seq 0 (length (mitems (am_mask a)))) (mitems (am_mask a))) s1;
  do pa2 <- nth_res (archs s2) prev;
  do pent <- nth_res (am_ents pa2) pidx;
  do s3 <- arch_remove s2 prev pidx pent (am_mask a);
  update_location s3 h {| l_arch := Some ai; l_idx := idx |}.
Proof. reflexivity. Qed.

Lemma em_body_shape ai prev pidx idx h skip st x t : em_body ai prev pidx idx h skip st x = Ok t -> shape t = shape st.
Proof.
  destruct x as [ci c]. unfold em_body. intros H. apply bind_ok in H. destruct H as (inf & _ & H).
  apply bind_ok in H. destruct H as (pa & _ & H). destruct (cindex (am_mask pa) c) as [pci|].
  - destruct (Nat.ltb pidx (am_size pa)); [|discriminate]. apply bind_ok in H. destruct H as (st1 & Hw & H).
    apply write_cell_shape in Hw. destruct Hw as (Hw & _). inversion H; subst t. destruct (ci_mctor inf && ci_ev inf); exact Hw.
  - destruct (_ && _); [eapply construct_default_shape; eassumption|inversion H; reflexivity].
Qed.

Lemma res_rel_and {A B} (R : A -> B -> Prop) (P : A -> Prop) r r' :
  res_rel R r r' -> (forall a, r = Ok a -> P a) -> res_rel (fun a b => R a b /\ P a) r r'.
Proof. destruct r, r'; simpl; auto. Qed.

Section Move.
Variables (ai prev pidx idx : nat) (h : handle) (c : nat) (sk1 sk2 Mp : mask).
Hypothesis Hne : prev <> ai.
Hypothesis Hsk1 : mhas sk1 c = true.
Hypothesis Hskip : forall c', c' <> c -> mhas Mp c' = false -> mhas sk1 c' = mhas sk2 c'.

Lemma cindex_none m c' : cindex m c' = None -> mhas m c' = false.
Proof. unfold cindex. destruct (mhas m c'); [discriminate|reflexivity]. Qed.

(* the skip masks only matter at component c, and only when the old archetype lacks it *)
Lemma em_body_same st pa ci' c' : nth_error (archs st) prev = Some pa -> am_mask pa = Mp ->
  (c' <> c \/ mhas Mp c = true) ->
  em_body ai prev pidx idx h sk1 st (ci', c') = em_body ai prev pidx idx h sk2 st (ci', c').
Proof.
  intros Hpa HM Hc. unfold em_body. destruct (info_of st c') as [inf|]; [|reflexivity]. cbn [bind].
  rewrite (nth_res_some _ _ _ Hpa). cbn [bind]. rewrite HM.
  destruct (cindex Mp c') as [pci|] eqn:Ec; [reflexivity|]. apply cindex_none in Ec.
  destruct (Nat.eq_dec c' c) as [->|Hn]; [destruct Hc; congruence|]. rewrite (Hskip c' Hn Ec). reflexivity.
Qed.

Lemma em_body_other_rel ci M X L1 st st' pa ci' c' :
  R ai ci idx M X L1 st st' -> nth_error (archs st) prev = Some pa -> am_mask pa = Mp -> c' <> c -> ci' <> ci ->
  res_rel (R ai ci idx M X L1) (em_body ai prev pidx idx h sk1 st (ci', c')) (em_body ai prev pidx idx h sk2 st' (ci', c')).
Proof.
  intros HR Hpa HM Hc Hci. unfold em_body. rewrite (R_info _ _ _ _ _ _ _ _ c' HR). apply bind_rel_same. intros inf.
  rewrite (R_arch_other _ _ _ _ _ _ _ _ prev HR Hne). rewrite (nth_res_some _ _ _ Hpa). cbn [bind]. rewrite HM.
  destruct (cindex Mp c') as [pci|] eqn:Ec.
  - destruct (Nat.ltb pidx (am_size pa)); [|reflexivity].
    apply bind_rel with (R := R ai ci idx M X L1); [apply write_cell_other_rel; assumption|].
    intros t t' Ht. simpl. destruct (ci_mctor inf && ci_ev inf); [apply R_emit|]; exact Ht.
  - apply cindex_none in Ec. rewrite (Hskip c' Hc Ec).
    destruct (_ && _); [apply construct_default_other_rel; assumption|exact HR].
Qed.

Definition move_rel (M : mask) (inf : cinfo) (t t' : mst) : Prop :=
  t = t' \/ exists ci X L1, cindex M c = Some ci /\ (X = [] \/ X = Cev inf (PArch ai c idx) h) /\ R ai ci idx M X L1 t t'.

Lemma em_fold_rel M inf l s1 a pa :
  nth_error (archs s1) ai = Some a -> am_mask a = M ->
  nth_error (archs s1) prev = Some pa -> am_mask pa = Mp ->
  info_of s1 c = Ok inf ->
  NoDup (map snd l) -> (forall ci' c', In (ci', c') l -> cindex M c' = Some ci') ->
  res_rel (move_rel M inf) (fold_res (em_body ai prev pidx idx h sk1) l s1) (fold_res (em_body ai prev pidx idx h sk2) l s1).
Proof.
  intros Ha HM Hpa HMp Hinf Hnd Hidx.
  set (I := fun st => shape st = shape s1).
  assert (Iprev : forall st, I st -> exists pa', nth_error (archs st) prev = Some pa' /\ am_mask pa' = Mp).
  { intros st Hst. destruct (shape_arch s1 st prev pa (eq_sym Hst) Hpa) as (b & Hb & Hm). exists b. split; congruence. }
  assert (Iai : forall st, I st -> exists a', nth_error (archs st) ai = Some a' /\ am_mask a' = M).
  { intros st Hst. destruct (shape_arch s1 st ai a (eq_sym Hst) Ha) as (b & Hb & Hm). exists b. split; congruence. }
  assert (Ipres : forall sk x st t, I st -> em_body ai prev pidx idx h sk st x = Ok t -> I t).
  { intros sk x st t Hst E. unfold I in *. rewrite (em_body_shape _ _ _ _ _ _ _ _ _ E). exact Hst. }
  assert (Same : forall l0, (forall x, In x l0 -> snd x <> c \/ mhas Mp c = true) -> forall st, I st ->
            fold_res (em_body ai prev pidx idx h sk1) l0 st = fold_res (em_body ai prev pidx idx h sk2) l0 st /\
            (forall t, fold_res (em_body ai prev pidx idx h sk1) l0 st = Ok t -> I t)).
  { intros l0 Hl0. apply fold_res_ext_inv.
    - intros [ci' c'] st Hin Hst. destruct (Iprev st Hst) as (pa' & Hpa' & Hm'). eapply em_body_same; eauto. apply (Hl0 _ Hin).
    - intros x st t _ Hst E. eapply Ipres; eassumption. }
  destruct (mhas Mp c) eqn:Emc.
  { destruct (Same l (fun _ _ => or_intror eq_refl) s1 eq_refl) as (E & _). rewrite E. apply res_rel_refl. intros t. left. reflexivity. }
  destruct (in_dec Nat.eq_dec c (map snd l)) as [Hin|Hnin].
  2:{ destruct (Same l) with (st := s1) as (E & _); [|reflexivity|].
      - intros x Hx. left. intros Ec. apply Hnin. rewrite <- Ec. apply in_map. exact Hx.
      - rewrite E. apply res_rel_refl. intros t. left. reflexivity. }
  apply in_map_iff in Hin. destruct Hin as ([ci c0] & Ec & Hin). simpl in Ec. subst c0.
  pose proof (Hidx _ _ Hin) as Hci.
  apply in_split in Hin. destruct Hin as (l1 & l2 & ->).
  rewrite map_app in Hnd. simpl in Hnd. apply NoDup_remove_2 in Hnd.
  rewrite !fold_res_app.
  destruct (Same l1) with (st := s1) as (E & Hinv); [|reflexivity|].
  { intros x Hx. left. intros Ec. apply Hnd. apply in_or_app. left. rewrite <- Ec. apply in_map. exact Hx. }
  rewrite <- E. destruct (fold_res (em_body ai prev pidx idx h sk1) l1 s1) as [st|e]; [|reflexivity]. cbn [bind].
  specialize (Hinv st eq_refl). clear E.
  destruct (Iprev st Hinv) as (pa' & Hpa' & Hm'). destruct (Iai st Hinv) as (a' & Ha' & HM').
  assert (Hinf' : info_of st c = Ok inf) by (rewrite <- Hinf; apply shape_info; exact Hinv).
  cbn [fold_res]. unfold em_body at 1 3. rewrite Hinf'. cbn [bind]. rewrite (nth_res_some _ _ _ Hpa'). cbn [bind].
  rewrite Hm'. unfold cindex at 1 2. rewrite Emc. rewrite Hsk1. cbn [negb]. rewrite andb_false_r. cbn [bind].
  assert (Hstart : exists X st', (X = [] \/ X = Cev inf (PArch ai c idx) h) /\ R ai ci idx M X (log st) st st' /\
            (if ((match ci_create inf with Some _ => true | None => false end) ||
                 (match ci_default inf with Some _ => true | None => false end) || ci_aa inf) && negb (mhas sk2 c)
             then construct_default st ai c ci idx h true else Ok st) = Ok st').
  { destruct (_ && _).
    - destruct (construct_default_intro ai ci idx c h st a' inf Ha' Hinf') as (st' & Hc & HR). rewrite HM' in HR.
      exists (Cev inf (PArch ai c idx) h), st'. auto.
    - exists [], st. split; [left; reflexivity|]. split; [|reflexivity]. apply (R_refl ai ci idx M [] (log st) st a' []); auto. }
  destruct Hstart as (X & st' & HX & HR & ->). cbn [bind].
  apply res_rel_weaken with (R := fun t t' => R ai ci idx M X (log st) t t' /\ I t).
  - apply fold_rel; [|split; assumption]. intros [ci' c'] t t' Hx (Ht & Hit).
    assert (Hc' : c' <> c).
    { intros ->. apply Hnd. apply in_or_app. right. change c with (snd (ci', c)). apply in_map. exact Hx. }
    assert (Hci' : ci' <> ci).
    { intros ->. apply Hc'. apply (cindex_inj M c' c ci); [|exact Hci]. apply Hidx. apply in_or_app. right. right. exact Hx. }
    destruct (Iprev t Hit) as (pt & Hpt & Hmt).
    apply res_rel_and; [eapply em_body_other_rel; eassumption|]. intros u Eu. eapply Ipres; eassumption.
  - intros t t' _ _ (Ht & _). right. exists ci, X, (log st). auto.
Qed.

End Move.

Lemma R_arch_same ai ci slot M X L1 s s' : R ai ci slot M X L1 s s' ->
  exists a a', nth_error (archs s) ai = Some a /\ nth_error (archs s') ai = Some a' /\ am_mask a = M /\ am_mask a' = M /\
    log s' = (firstn (length (log s) - length L1) (log s)) ++ X ++ L1 /\ log s = (firstn (length (log s) - length L1) (log s)) ++ L1.
Proof.
  intros (a & col' & pre & Ha & HM & _ & Hl & ->). exists a, (poke_arch ci a col').
  assert (Hlt : ai < length (archs s)) by (apply nth_error_Some; congruence).
  split; [exact Ha|]. split; [cbn [archs set_log set_arch set_archs]; apply nth_error_upd_same; exact Hlt|].
  split; [exact HM|]. split; [exact HM|].
  assert (E : firstn (length (log s) - length L1) (log s) = pre).
  { rewrite Hl, app_length. replace (length pre + length L1 - length L1) with (length pre + 0) by lia.
    rewrite firstn_app_2. simpl. apply app_nil_r. }
  rewrite E. split; [reflexivity|exact Hl].
Qed.

Lemma push_back_facts s ai h s1 idx : push_back s ai h = Ok (s1, idx) ->
  cinfos s1 = cinfos s /\ forall k, k <> ai -> nth_error (archs s1) k = nth_error (archs s) k.
Proof.
  unfold push_back. intros H. apply bind_ok in H. destruct H as (a & _ & H). apply bind_ok in H. destruct H as (a1 & _ & H).
  inversion H; subst s1 idx; clear H. split; [reflexivity|]. intros k Hk. simpl. apply nth_error_upd_other. congruence.
Qed.

Lemma get_arch_facts s m sh s1 ai : get_arch s m sh = Ok (s1, ai) ->
  cinfos s1 = cinfos s /\ forall k a, nth_error (archs s) k = Some a -> nth_error (archs s1) k = Some a.
Proof.
  unfold get_arch. intros H. apply bind_ok in H. destruct H as (ex & _ & H).
  destruct (find_arch (archs s) (munion m ex) sh 0) as [i|].
  - inversion H; subst. auto.
  - apply bind_ok in H. destruct H as (cs & _ & H). inversion H; subst s1 ai; clear H. split; [reflexivity|].
    intros k a Hk. simpl. rewrite nth_error_app1; [exact Hk|]. apply nth_error_Some. congruence.
Qed.

Lemma update_location_locs s h l t : update_location s h l = Ok t -> nth_error (locs t) (N.to_nat (fst h)) = Some l.
Proof.
  unfold update_location. intros H. apply bind_ok in H. destruct H as (ls & Hu & H). inversion H; subst t; clear H.
  apply upd_res_ok in Hu. destruct Hu as (Hlt & ->). simpl. apply nth_error_upd_same. exact Hlt.
Qed.

(* Archetype::externalMove with two skip masks that differ at component c only *)
Definition moved_rel (ai c : nat) (h : handle) (inf : cinfo) (t t' : mst) : Prop :=
  t = t' \/ exists ci idx M X L1, cindex M c = Some ci /\ (X = [] \/ X = Cev inf (PArch ai c idx) h) /\
     R ai ci idx M X L1 t t' /\ nth_error (locs t) (N.to_nat (fst h)) = Some {| l_arch := Some ai; l_idx := idx |}.

Lemma external_move_rel s ai h prev pidx c sk1 sk2 pa inf :
  nth_error (archs s) prev = Some pa -> info_of s c = Ok inf ->
  mhas sk1 c = true -> (forall c', c' <> c -> mhas (am_mask pa) c' = false -> mhas sk1 c' = mhas sk2 c') ->
  res_rel (moved_rel ai c h inf) (external_move s ai h prev pidx sk1) (external_move s ai h prev pidx sk2).
Proof.
  intros Hpa Hinf Hsk1 Hskip. rewrite !external_move_eq. destruct (Nat.eqb_spec ai prev) as [|Hne]; [reflexivity|].
  assert (Hne' : prev <> ai) by congruence.
  apply bind_rel_same'. intros [s1 idx] Epb. destruct (push_back_facts _ _ _ _ _ Epb) as (Hci1 & Hother).
  apply bind_rel_same'. intros a Ea. apply nth_res_ok in Ea. apply bind_rel_same. intros pa1.
  apply bind_rel with (R := move_rel ai idx h c (am_mask a) inf).
  - apply (em_fold_rel ai prev pidx idx h c sk1 sk2 (am_mask pa) Hne' Hsk1 Hskip (am_mask a) inf _ s1 a pa).
    + exact Ea.
    + reflexivity.
    + rewrite (Hother prev Hne'). exact Hpa.
    + reflexivity.
    + unfold info_of in *. rewrite Hci1. exact Hinf.
    + rewrite map_snd_combine' by apply seq_length. apply mitems_nodup.
    + intros ci' c' Hin. apply comps_index. exact Hin.
  - intros t t' [->|(ci & X & L1 & Hci & HX & HR)].
    + apply res_rel_refl. intros u. left. reflexivity.
    + rewrite (R_arch_other _ _ _ _ _ _ _ _ prev HR Hne'). apply bind_rel_same. intros pa2. apply bind_rel_same. intros pent.
      apply bind_rel with (R := R ai ci idx (am_mask a) X L1); [apply arch_remove_rel; assumption|].
      intros u u' Hu. eapply res_rel_weaken; [apply update_location_rel; exact Hu|].
      intros v v' Ev _ Hv. right. exists ci, idx, (am_mask a), X, L1.
      split; [exact Hci|]. split; [exact HX|]. split; [exact Hv|]. apply (update_location_locs _ _ _ _ Ev).
Qed.

(* assign<_SkipConstructor = true / false>, unlocked *)
Definition assigned_rel (c : nat) (h : handle) (inf : cinfo) (r r' : mst * (nat * nat * nat)) : Prop :=
  snd r = snd r' /\
  let '(ai, ci, sl) := snd r in
  (fst r = fst r' \/ exists M X L1, (X = [] \/ X = Cev inf (PArch ai c sl) h) /\ R ai ci sl M X L1 (fst r) (fst r')).

Lemma assign_unlocked_rel s h c inf : info_of s c = Ok inf ->
  res_rel (assigned_rel c h inf) (assign_unlocked s h c true) (assign_unlocked s h c false).
Proof.
  intros Hinf. unfold assign_unlocked. apply bind_rel_same. intros [pai pidx].
  apply bind_rel_same'. intros pa Epa. apply nth_res_ok in Epa. cbv zeta.
  apply bind_rel_same'. intros [s1 ai] Eg. destruct (get_arch_facts _ _ _ _ _ Eg) as (Hci1 & Hkeep).
  apply bind_rel with (R := moved_rel ai c h inf).
  - apply external_move_rel with (pa := pa).
    + apply Hkeep. exact Epa.
    + unfold info_of in *. rewrite Hci1. exact Hinf.
    + apply mhas_madd_same.
    + intros c' Hc Hm. rewrite mhas_madd_other by congruence. rewrite mhas_zero. exact Hm.
  - intros t t' [->|(ci & idx & M & X & L1 & Hci & HX & HR & Hloc)].
    + apply res_rel_refl. intros [u [[a1 c1] l1]]. split; [reflexivity|]. left. reflexivity.
    + destruct (R_arch_same _ _ _ _ _ _ _ _ HR) as (af & af' & Haf & Haf' & Hm & Hm' & _).
      rewrite (nth_res_some _ _ _ Haf), (nth_res_some _ _ _ Haf'). cbn [bind].
      rewrite (R_locs _ _ _ _ _ _ _ _ HR). rewrite (nth_res_some _ _ _ Hloc). cbn [bind].
      rewrite Hm, Hm', Hci. simpl. split; [reflexivity|]. right. exists M, X, L1. auto.
Qed.

(* ---------------------------------------------------------------------------------------- *)
(* 1/2. assign with a value: C API (assign by id, default construction, write through the pointer) against the
   typed C++ form (construction from the value in place)                                      *)
Lemma step_assign_value s tid h c x typed :
  step s (OAssign tid h c (AValue x) typed) =
  do inf <- info_of s c;
  match lockc s with
  | O =>
    do r <- assign_unlocked s h c typed;
    let '(s1, (ai, ci, slot)) := r in
    do s2 <- (if ci_hasval inf then write_cell s1 ai ci slot (Some x) else Ok s1);
    if typed then
      let p := PArch ai c slot in
      let s3 := if ci_ev inf then emit s2 (EvV (ci_pal inf) p) else s2 in
      Ok (if ci_aa inf then emit s3 (EvAA (ci_pal inf) p h) else s3, RNone)
    else Ok (s2, RNone)
  | S _ =>
    do r <- assign_locked s tid h c typed;
    let '(s1, n) := r in
    do s2 <- (if ci_hasval inf then write_tmp s1 tid n (Some x) else Ok s1);
    if typed then
      let p := PTmp (epoch s * 64 + tid) n in
      Ok (if ci_ev inf then emit s2 (EvV (ci_pal inf) p) else s2, RNone)
    else Ok (s2, RNone)
  end.
Proof. reflexivity. Qed.

(* The two results: same state but for the log, same return value; the logs hold the same events except that the typed
   run ends with Tev (EvV, afterAssign) where the untyped run has X -- nothing, or Cev (EvC, afterAssign) -- at the point
   where the component loop of externalMove reaches the new component.  (Logs are kept newest first.) *)
Definition assign_agree (inf : cinfo) (c : nat) (h : handle) (rt ru : mst * out) : Prop :=
  state_eq_but_log (fst rt) (fst ru) /\ snd rt = snd ru /\
  exists ai slot pre X L1,
    log (fst rt) = Tev inf (PArch ai c slot) h ++ pre ++ L1 /\
    log (fst ru) = pre ++ X ++ L1 /\
    (X = [] \/ X = Cev inf (PArch ai c slot) h).

Theorem assign_value_unlocked s tid h c x inf :
  lockc s = 0 -> nth_error (cinfos s) c = Some inf -> ci_hasval inf = true ->
  res_rel (assign_agree inf c h) (step s (OAssign tid h c (AValue x) true)) (step s (OAssign tid h c (AValue x) false)).
Proof.
  intros Hlock Hc Hhv. assert (Hinf : info_of s c = Ok inf) by (unfold info_of; rewrite Hc; reflexivity).
  rewrite !step_assign_value. rewrite Hinf. cbn [bind]. rewrite Hlock, Hhv.
  apply bind_rel with (R := assigned_rel c h inf); [apply assign_unlocked_rel; exact Hinf|].
  intros [t [[ai ci] sl]] [t' [[ai' ci'] sl']] (Esnd & Hrel). simpl in Esnd. inversion Esnd; subst ai' ci' sl'. clear Esnd.
  cbn [fst snd] in Hrel. destruct Hrel as [->|(M & X & L1 & HX & HR)].
  - destruct (write_cell t' ai ci sl (Some x)) as [t2|e]; [|reflexivity]. cbn [bind res_rel].
    split; [destruct (ci_ev inf), (ci_aa inf); reflexivity|]. split; [reflexivity|].
    exists ai, sl, [], [], (log t2). unfold Tev. cbn [fst].
    split; [destruct (ci_ev inf), (ci_aa inf); reflexivity|]. split; [reflexivity|left; reflexivity].
  - destruct (write_cell_same_rel _ _ _ _ _ _ _ _ (Some x) HR) as (t2 & E1 & E2). rewrite E1, E2. cbn [bind res_rel].
    destruct (write_cell_shape _ _ _ _ _ _ E1) as (_ & Hlog).
    destruct HR as (a & col' & pre & _ & _ & _ & Hl & ->).
    split; [destruct (ci_ev inf), (ci_aa inf); reflexivity|]. split; [reflexivity|].
    exists ai, sl, pre, X, L1. unfold Tev. cbn [fst].
    split; [destruct (ci_ev inf), (ci_aa inf); cbn; rewrite Hlog, Hl; reflexivity|]. split; [reflexivity|exact HX].
Qed.

(* locked: both forms record the same command and leave the same value in the same temporary *)
Definition assign_agree_locked (s : mst) (tid : nat) (inf : cinfo) (rt ru : mst * out) : Prop :=
  state_eq_but_log (fst rt) (fst ru) /\ snd rt = snd ru /\
  exists n, let p := PTmp (epoch s * 64 + tid) n in
    log (fst rt) = (if ci_ev inf then [EvV (ci_pal inf) p] else []) ++ log s /\
    log (fst ru) = (match ci_create inf with Some _ => if ci_ev inf then [EvC (ci_pal inf) p] else [] | None => [] end) ++ log s.

Lemma nth_res_upd_same {A} (l : list A) i x y : nth_res l i = Ok x -> nth_res (upd l i y) i = Ok y.
Proof. intros H. apply nth_res_ok in H. apply nth_res_some. apply nth_error_upd_same. apply nth_error_Some. congruence. Qed.

Theorem assign_value_locked s tid h c x inf k :
  lockc s = S k -> nth_error (cinfos s) c = Some inf -> ci_hasval inf = true ->
  res_rel (assign_agree_locked s tid inf) (step s (OAssign tid h c (AValue x) true)) (step s (OAssign tid h c (AValue x) false)).
Proof.
  intros Hlock Hc Hhv. assert (Hinf : info_of s c = Ok inf) by (unfold info_of; rewrite Hc; reflexivity).
  rewrite !step_assign_value. rewrite Hinf. cbn [bind]. rewrite Hlock, Hhv.
  unfold assign_locked. rewrite Hinf. cbn [bind].
  destruct (nth_res (tmps s) tid) as [tl|e] eqn:Etl; [|reflexivity]. cbn [bind].
  assert (Hw : forall (s1 : mst) (v : cell), tmps s1 = tmps s ->
            exists s2, write_tmp (set_bufs s1 (bufs s1) (upd (tmps s1) tid (tl ++ [v]))) tid (length tl) (Some x) = Ok s2 /\
              s2 = set_bufs s1 (bufs s1) (upd (tmps s) tid (tl ++ [Some x]))).
  { intros s1 v E1. unfold write_tmp. cbn [tmps set_bufs]. rewrite E1. rewrite (nth_res_upd_same _ _ _ _ Etl). cbn [bind].
    unfold upd_res. rewrite app_length. simpl. replace (length tl <? length tl + 1) with true by (symmetry; apply Nat.ltb_lt; lia).
    cbn [bind]. eexists. split; [reflexivity|]. cbn [bufs set_bufs]. rewrite upd_app_last, upd_upd. reflexivity. }
  unfold push_cmd.
  assert (Hb : forall e, bufs (if ci_ev inf then emit s e else s) = bufs s) by (intro e; destruct (ci_ev inf); reflexivity).
  unfold assign_agree_locked. destruct (ci_create inf) as [x0|].
  - rewrite Hb. destruct (nth_res (bufs s) tid) as [b|e]; [|reflexivity]. cbn [bind].
    edestruct (Hw (set_bufs s (upd (bufs s) tid (b ++ [AAssign h c (length tl)])) (tmps s)) None) as (s2 & E2 & ->); [reflexivity|].
    eapply res_rel_bind_l; [exact E2|]. clear E2.
    edestruct (Hw (set_bufs (if ci_ev inf then emit s (EvC (ci_pal inf) (PTmp (epoch s * 64 + tid) (length tl))) else s)
                     (upd (bufs s) tid (b ++ [AAssign h c (length tl)]))
                     (tmps (if ci_ev inf then emit s (EvC (ci_pal inf) (PTmp (epoch s * 64 + tid) (length tl))) else s))) (Some x0))
      as (s3 & E3 & ->); [destruct (ci_ev inf); reflexivity|].
    eapply res_rel_bind_r; [exact E3|]. clear E3. cbn [res_rel].
    split; [destruct (ci_ev inf); reflexivity|]. split; [reflexivity|]. exists (length tl). destruct (ci_ev inf); split; reflexivity.
  - cbv beta iota. destruct (nth_res (bufs s) tid) as [b|e]; [|reflexivity]. cbn [bind].
    edestruct (Hw (set_bufs s (upd (bufs s) tid (b ++ [AAssign h c (length tl)])) (tmps s)) None) as (s2 & E2 & ->); [reflexivity|].
    eapply res_rel_bind_l; [exact E2|]. clear E2.
    edestruct (Hw (set_bufs s (upd (bufs s) tid (b ++ [AAssign h c (length tl)])) (tmps s)) (ci_default inf)) as (s3 & E3 & ->); [reflexivity|].
    eapply res_rel_bind_r; [exact E3|]. clear E3. cbn [res_rel].
    split; [destruct (ci_ev inf); reflexivity|]. split; [reflexivity|]. exists (length tl). destruct (ci_ev inf); split; reflexivity.
Qed.

(* ---------------------------------------------------------------------------------------- *)
(* removal: removeComponent(entity, id) of the C API against the guarded removeComponent<T>(entity)                  *)
Lemma step_remove s tid h c typed :
  step s (ORemove tid h c typed) =
  match lockc s with
  | O => if typed && negb (is_valid s h) then Ok (s, RNone) else do s1 <- remove_unlocked s h c; Ok (s1, RNone)
  | S _ => do s1 <- push_cmd s tid (ARemove h c); Ok (s1, RNone)
  end.
Proof. reflexivity. Qed.

Theorem remove_agree s tid h c : is_valid s h = true \/ lockc s <> 0 ->
  step s (ORemove tid h c false) = step s (ORemove tid h c true).
Proof.
  intros H. rewrite !step_remove. destruct (lockc s) as [|k]; [|reflexivity].
  destruct H as [H|H]; [rewrite H; reflexivity|congruence].
Qed.

(* the two differ exactly on handles the validity test rejects: the typed form is then a no-op ... *)
Theorem remove_typed_invalid s tid h c : lockc s = 0 -> is_valid s h = false -> step s (ORemove tid h c true) = Ok (s, RNone).
Proof. intros Hl Hv. rewrite step_remove, Hl, Hv. reflexivity. Qed.

(* ... while the untyped form trusts the id: see the Example remove_stale_differs below *)
Definition run_ops (s : mst) (ops : list op) : res mst := fold_res (fun st o => do r <- step st o; Ok (fst r)) ops s.

Definition out_of (r : res (mst * out)) : option out := match r with Ok x => Some (snd x) | Err _ => None end.

(* a recycled id: entity #0 destroyed, its id reused by a new entity with components 0 and 1; removing component 1
   through the STALE handle by id strips it from the live entity; the typed form does nothing *)
Example remove_stale_differs :
  exists s, run_ops (init 1 [pal_info 0 0; pal_info 2 0]) [OCreate 0 3%N [] false; ODestroyNow 0 (0, 0)%N; OCreate 0 3%N [] false] = Ok s /\
    lockc s = 0 /\ is_valid s (0, 0)%N = false /\ is_valid s (0, 1)%N = true /\
    step s (ORemove 0 (0, 0)%N 1 true) = Ok (s, RNone) /\
    out_of (step s (OHas (0, 1)%N 1)) = Some (RBool true) /\
    exists s2, step s (ORemove 0 (0, 0)%N 1 false) = Ok (s2, RNone) /\ out_of (step s2 (OHas (0, 1)%N 1)) = Some (RBool false).
Proof.
  eexists. split; [vm_compute; reflexivity|]. split; [reflexivity|]. split; [vm_compute; reflexivity|].
  split; [vm_compute; reflexivity|]. split; [vm_compute; reflexivity|]. split; [vm_compute; reflexivity|].
  eexists. split; [vm_compute; reflexivity|]. vm_compute; reflexivity.
Qed.

(* ---------------------------------------------------------------------------------------- *)
(* 3. components described at run time                                                       *)
Lemma flag_testbit f k : flag f (2 ^ k) = Nat.testbit f k.
Proof. unfold flag. rewrite Nat.testbit_odd, Nat.shiftr_div_pow2. reflexivity. Qed.

Lemma pal_info_dyn p f : 8 <= p <= 11 -> pal_info p f = dyn_info p f.
Proof. intros H. do 8 (destruct p as [|p]; [lia|]). do 4 (destruct p as [|p]; [reflexivity|]). lia. Qed.

Theorem pal_info_fields p f : 8 <= p <= 11 ->
  let i := pal_info p f in
  ci_pal i = p /\ ci_ev i = true /\ ci_hasval i = true /\
  ci_create i = (if Nat.testbit f 0 then Some (Z.of_nat (1000 + p)) else None) /\
  ci_copy i = Nat.testbit f 1 /\ ci_move i = Nat.testbit f 2 /\ ci_mctor i = Nat.testbit f 3 /\
  ci_destroy i = Nat.testbit f 4 /\
  ci_default i = (if Nat.testbit f 5 then Some (Z.of_nat (2000 + p)) else None) /\
  ci_aa i = false /\ ci_br i = false /\ ci_clone i = false.
Proof.
  intros H. rewrite (pal_info_dyn p f H). unfold dyn_info. cbn [ci_pal ci_ev ci_hasval ci_create ci_copy ci_move ci_mctor ci_destroy ci_default ci_aa ci_br ci_clone].
  rewrite <- (flag_testbit f 0), <- (flag_testbit f 1), <- (flag_testbit f 2), <- (flag_testbit f 3), <- (flag_testbit f 4), <- (flag_testbit f 5).
  repeat split; reflexivity.
Qed.

(* what construct_default and call_destructor can see of a description *)
Definition lc_equiv (i j : cinfo) : Prop :=
  ci_pal i = ci_pal j /\ ci_create i = ci_create j /\ ci_aa i = ci_aa j /\
  (ci_create i <> None -> ci_ev i = ci_ev j) /\
  (ci_create i = None -> ci_default i = ci_default j) /\
  ci_destroy i && ci_ev i = ci_destroy j && ci_ev j.

Theorem dyn_full_like_static p : 8 <= p <= 11 ->
  lc_equiv (pal_info p 31) (inst_info p false) /\ lc_equiv (pal_info p 63) (inst_info p false).
Proof.
  intros H. rewrite !(pal_info_dyn p _ H). split; unfold lc_equiv; cbn; repeat split; try reflexivity; intros; congruence.
Qed.

Theorem dyn_plain_like_trivial p : 8 <= p <= 11 -> lc_equiv (pal_info p 0) (trivial_info p true).
Proof. intros H. rewrite (pal_info_dyn p _ H). unfold lc_equiv; cbn; repeat split; try reflexivity; intros; congruence. Qed.

Definition set_cinfos s v := {| slots := slots s; locs := locs s; next_slot := next_slot s; empty_slots := empty_slots s; archs := archs s; lockc := lockc s; next_eid := next_eid s; bufs := bufs s; tmps := tmps s; marked := marked s; deps := deps s; pool := pool s; insts := insts s; wv := wv s; cached := cached s; def_chunk := def_chunk s; chunk_fns := chunk_fns s; cinfos := v; nthreads := nthreads s; epoch := epoch s; log := log s |}.
Definition res_map {A B} (f : A -> B) (r : res A) : res B := match r with Ok a => Ok (f a) | Err e => Err e end.

Lemma Forall2_nth_error {A B} (P : A -> B -> Prop) l l' : Forall2 P l l' -> forall n,
  match nth_error l n, nth_error l' n with Some a, Some b => P a b | None, None => True | _, _ => False end.
Proof. induction 1 as [|a b l l' Hab _ IH]; intros [|n]; simpl; auto. apply IH. Qed.

Lemma fold_res_map_inv {A S} (I : S -> Prop) (m : S -> S) (f : S -> A -> res S) l :
  (forall st x, I st -> f (m st) x = res_map m (f st x)) -> (forall st x t, I st -> f st x = Ok t -> I t) ->
  forall s, I s -> fold_res f l (m s) = res_map m (fold_res f l s).
Proof.
  intros Hc Hp. induction l as [|x t IH]; intros s Hs; simpl; [reflexivity|].
  rewrite (Hc s x Hs). destruct (f s x) as [s1|e] eqn:E; simpl; [|reflexivity]. apply IH. eapply Hp; eassumption.
Qed.

(* Two worlds that differ only in descriptions that are lifecycle-equivalent construct and destroy alike: same cells,
   same events (EvC / afterAssign / EvD) at the same places. *)
Theorem construct_default_equiv s cis' ai c ci slot h u : Forall2 lc_equiv (cinfos s) cis' ->
  construct_default (set_cinfos s cis') ai c ci slot h u = res_map (fun t => set_cinfos t cis') (construct_default s ai c ci slot h u).
Proof.
  intros HF. unfold construct_default, info_of. cbn [cinfos set_cinfos].
  pose proof (Forall2_nth_error _ _ _ HF c) as Hn.
  destruct (nth_error (cinfos s) c) as [i|], (nth_error cis' c) as [j|]; try contradiction; [|reflexivity]. cbn [bind].
  destruct Hn as (Hpal & Hcr & Haa & Hev & Hdf & _). unfold write_cell. cbn [archs set_cinfos].
  rewrite <- Hpal, <- Hcr, <- Haa. destruct (ci_create i) as [v|].
  - rewrite <- Hev by discriminate. destruct (nth_res (archs s) ai) as [a|e]; [|reflexivity]. cbn [bind res_map].
    destruct (ci_ev i), (ci_aa i); reflexivity.
  - rewrite <- Hdf by reflexivity. destruct (ci_default i) as [v|]; [destruct u|].
    + destruct (nth_res (archs s) ai) as [a|e]; [|reflexivity]. cbn [bind res_map]. destruct (ci_aa i); reflexivity.
    + cbn [bind res_map]. destruct (ci_aa i); reflexivity.
    + cbn [bind res_map]. destruct (ci_aa i); reflexivity.
Qed.

Theorem call_destructor_equiv s cis' ai slot : Forall2 lc_equiv (cinfos s) cis' ->
  call_destructor (set_cinfos s cis') ai slot = res_map (fun t => set_cinfos t cis') (call_destructor s ai slot).
Proof.
  intros HF. unfold call_destructor. cbn [archs set_cinfos].
  destruct (nth_res (archs s) ai) as [a|e]; [|reflexivity]. cbn [bind].
  rewrite (fold_res_map_inv (fun st => cinfos st = cinfos s) (fun t => set_cinfos t cis')).
  - destruct (fold_res _ (mitems (am_mask a)) s) as [s1|e]; [|reflexivity]. cbn [bind res_map archs set_cinfos].
    destruct (nth_res (archs s1) ai) as [a1|e]; reflexivity.
  - intros st c Hst. unfold info_of. cbn [cinfos set_cinfos]. rewrite Hst.
    pose proof (Forall2_nth_error _ _ _ HF c) as Hn.
    destruct (nth_error (cinfos s) c) as [i|], (nth_error cis' c) as [j|]; try contradiction; [|reflexivity]. cbn [bind res_map].
    destruct Hn as (Hpal & _ & _ & _ & _ & Hd). rewrite <- Hpal, <- Hd. destruct (ci_destroy i && ci_ev i); reflexivity.
  - intros st c t Hst E. apply bind_ok in E. destruct E as (inf & _ & E). inversion E; subst t.
    destruct (ci_destroy inf && ci_ev inf); exact Hst.
  - reflexivity.
Qed.

(* ---------------------------------------------------------------------------------------- *)
(* 4. job requests: the masks do not depend on the order of requests with distinct component ids                     *)
Lemma mset_comm m c1 b1 c2 b2 : c1 <> c2 -> mset (mset m c1 b1) c2 b2 = mset (mset m c2 b2) c1 b1.
Proof.
  intros H. assert (Hn : N.of_nat c1 <> N.of_nat c2) by (intros E; apply Nat2N.inj in E; congruence).
  apply N.bits_inj. intros k. unfold mset, madd, mdel.
  destruct b1, b2; rewrite ?N.setbit_eqb, ?N.clearbit_eqb, ?N.setbit_eqb, ?N.clearbit_eqb;
    destruct (N.eqb_spec (N.of_nat c1) k), (N.eqb_spec (N.of_nat c2) k); try congruence; destruct (N.testbit m k); reflexivity.
Qed.

Lemma fold_left_perm {A} (key : A -> nat) (f : mask -> A -> mask) :
  (forall m x y, key x <> key y -> f (f m x) y = f (f m y) x) ->
  forall l l', Permutation l l' -> NoDup (map key l) -> forall m, fold_left f l m = fold_left f l' m.
Proof.
  intros Hc l l' HP. induction HP as [|x l l' HP IH|x y l|l l' l'' HP1 IH1 HP2 IH2]; intros Hnd m; simpl.
  - reflexivity.
  - inversion Hnd; subst. apply IH. assumption.
  - rewrite Hc; [reflexivity|]. simpl in Hnd. inversion Hnd as [|? ? Hnin _]; subst. intros E. apply Hnin. left. symmetry. exact E.
  - rewrite IH1 by assumption. apply IH2. eapply Permutation_NoDup; [apply Permutation_map; eassumption|assumption].
Qed.

Definition req_id (r : nat * bool * bool) : nat := fst (fst r).
Definition with_reqs (j : job) (l : list (nat * bool * bool)) : job := {| j_reqs := l; j_check := j_check j; j_last := j_last j |}.

Theorem job_masks_order_irrelevant j l' :
  Permutation (j_reqs j) l' -> NoDup (map req_id (j_reqs j)) ->
  job_required_mask (with_reqs j l') = job_required_mask j /\ job_update_mask (with_reqs j l') = job_update_mask j.
Proof.
  intros HP Hnd. unfold job_required_mask, job_update_mask. cbn [j_reqs with_reqs]. split; symmetry.
  - apply (fold_left_perm req_id); [|exact HP|exact Hnd]. intros m [[c1 k1] r1] [[c2 k2] r2] Hk. apply mset_comm. exact Hk.
  - apply (fold_left_perm req_id); [|exact HP|exact Hnd]. intros m [[c1 k1] r1] [[c2 k2] r2] Hk. apply mset_comm. exact Hk.
Qed.

(* with a component id listed twice the order does matter (the later request wins) *)
Example job_masks_duplicate_ids_order_matters :
  let j := {| j_reqs := [(1, false, true); (1, false, false)]; j_check := 0%N; j_last := 0%N |} in
  Permutation (j_reqs j) [(1, false, false); (1, false, true)] /\
  job_required_mask j = 0%N /\ job_required_mask (with_reqs j [(1, false, false); (1, false, true)]) = 2%N.
Proof. split; [apply perm_swap|]. split; vm_compute; reflexivity. Qed.

(* ---------------------------------------------------------------------------------------- *)
(* both lock modes at once, without the account of the events *)
Theorem assign_value_agree s tid h c x inf :
  nth_error (cinfos s) c = Some inf -> ci_hasval inf = true ->
  res_rel (fun rt ru => state_eq_but_log (fst rt) (fst ru) /\ snd rt = snd ru)
    (step s (OAssign tid h c (AValue x) true)) (step s (OAssign tid h c (AValue x) false)).
Proof.
  intros Hc Hv. destruct (lockc s) as [|k] eqn:El.
  - eapply res_rel_weaken; [apply (assign_value_unlocked s tid h c x inf El Hc Hv)|]. intros a b _ _ (H1 & H2 & _). auto.
  - eapply res_rel_weaken; [apply (assign_value_locked s tid h c x inf k El Hc Hv)|]. intros a b _ _ (H1 & H2 & _). auto.
Qed.

(* an unregistered component id: both forms fail alike *)
Theorem assign_value_unregistered s tid h c x : nth_error (cinfos s) c = None ->
  step s (OAssign tid h c (AValue x) true) = Err OobIndex /\ step s (OAssign tid h c (AValue x) false) = Err OobIndex.
Proof. intros H. rewrite !step_assign_value. unfold info_of. rewrite H. split; reflexivity. Qed.
