(* C12 under lock: the control fields of the manager (lock counter, thread count, command buffers with their temporaries,
   the set of entities marked for destruction) are not touched by the unlocked structural operations, shared ones
   included.  No invariant is needed: none of the primitives writes these fields. *)
Require Import Coq.Lists.List Coq.NArith.NArith Coq.ZArith.ZArith Coq.Arith.Arith Coq.Bool.Bool Coq.micromega.Lia.
From Mustache Require Import Res Manager MgrSpec Refine.
From Mustache.proofs Require Import ListLemmas SkelBasics ManagerBasics ManagerMoves ManagerInv SharedProofs SharedInv.
Import ListNotations.

Definition mc (s : mst) := (lockc s, nthreads s, bufs s, tmps s, marked s).

Lemma mc_fields s s' : mc s' = mc s ->
  lockc s' = lockc s /\ nthreads s' = nthreads s /\ bufs s' = bufs s /\ tmps s' = tmps s /\ marked s' = marked s.
Proof. unfold mc. intros H. inversion H. auto. Qed.

Lemma mc_if (b : bool) s e : mc (if b then emit s e else s) = mc s.
Proof. destruct b; reflexivity. Qed.

Lemma fold_mc {A} (f : mst -> A -> res mst) l s s' : fold_res f l s = Ok s' ->
  (forall st x st', f st x = Ok st' -> mc st' = mc st) -> mc s' = mc s.
Proof.
  intros H Hf. apply (fold_res_inv f (fun st => mc st = mc s) l s s'); [reflexivity| |exact H].
  intros x st st' _ HP Hx. rewrite (Hf _ _ _ Hx). exact HP.
Qed.

Lemma write_cell_mc s ai ci slot v s' : write_cell s ai ci slot v = Ok s' -> mc s' = mc s.
Proof. intros H. apply write_cell_ok in H. destruct H as (a & _ & ->). reflexivity. Qed.

Lemma update_location_mc s h l s' : update_location s h l = Ok s' -> mc s' = mc s.
Proof. intros H. apply update_location_ok in H. destruct H as (_ & ->). reflexivity. Qed.

Lemma construct_default_mc s ai c ci slot h u s' : construct_default s ai c ci slot h u = Ok s' -> mc s' = mc s.
Proof.
  unfold construct_default. intros H. bd H inf Hinf. bd H s1 H1. inversion H; subst s'; clear H. rewrite mc_if.
  destruct (ci_create inf) as [v|].
  - bd H1 s2 Hw. inversion H1; subst s1. rewrite mc_if. eapply write_cell_mc; eassumption.
  - destruct (ci_default inf) as [v|]; [destruct u|]; try (inversion H1; subst; reflexivity). eapply write_cell_mc; eassumption.
Qed.

Lemma push_back_mc s ai h s1 idx : push_back s ai h = Ok (s1, idx) -> mc s1 = mc s.
Proof. unfold push_back. intros H. bd H a Ha. bd H a1 Ha1. inversion H; subst. reflexivity. Qed.

Lemma pop_back_mc s ai s' : pop_back s ai = Ok s' -> mc s' = mc s.
Proof. unfold pop_back. intros H. bd H a Ha. inversion H; subst. reflexivity. Qed.

Lemma call_destructor_mc s ai slot s' : call_destructor s ai slot = Ok s' -> mc s' = mc s.
Proof.
  unfold call_destructor. intros H. bd H a Ha. cbv zeta in H. bd H s1 H1. bd H a1 Ha1. inversion H; subst s'; clear H.
  change (mc s1 = mc s). apply (fold_mc _ _ _ _ H1). intros st c st' Hc. bd Hc inf Hinf. inversion Hc. apply mc_if.
Qed.

Lemma internal_move_mc s ai src dst s' : internal_move s ai src dst = Ok s' -> mc s' = mc s.
Proof.
  unfold internal_move. intros H. bd H a Ha. cbv zeta in H. bd H s1 H1.
  assert (E1 : mc s1 = mc s).
  { apply (fold_mc _ _ _ _ H1). intros st (ci, c) st' Hc. bd Hc inf Hinf. bd Hc a' Ha'. inversion Hc. rewrite mc_if. reflexivity. }
  bd H a1 Ha1. bd H src_e Hs. bd H dst_e Hd. bd H csrc Hcs. bd H cdst Hcd. bd H a2 Ha2. bd H a3 Ha3.
  bd H s3 H3. bd H s4 H4. bd H a4 Ha4. apply call_destructor_mc in H. rewrite H. change (mc s4 = mc s).
  rewrite (update_location_mc _ _ _ _ H4), (update_location_mc _ _ _ _ H3). exact E1.
Qed.

Lemma arch_remove_mc s ai idx h skip s' : arch_remove s ai idx h skip = Ok s' -> mc s' = mc s.
Proof.
  unfold arch_remove. intros H. bd H a Ha. cbv zeta in H. bd H ent0 Hent. bd H s1 H1.
  assert (E1 : mc s1 = mc s).
  { apply (fold_mc _ _ _ _ H1). intros st c st' Hc. bd Hc inf Hinf. inversion Hc. apply mc_if. }
  destruct (am_size a) as [|last]; [discriminate|]. destruct (Nat.eqb idx last).
  - bd H s2 H2. assert (E2 : mc s2 = mc s1).
    { destruct (any_destroy s1 (am_mask a)); [eapply call_destructor_mc|eapply pop_back_mc]; eassumption. }
    bd H a2 Ha2. bd H ch Hch. bd H a3 Ha3. apply update_location_mc in H. rewrite H. change (mc s2 = mc s). congruence.
  - apply internal_move_mc in H. congruence.
Qed.

Lemma external_move_mc s ai h prev pidx skip s' : external_move s ai h prev pidx skip = Ok s' -> mc s' = mc s.
Proof.
  unfold external_move. intros H. destruct (Nat.eqb ai prev); [discriminate|]. bd H r Hr. destruct r as (s1, idx).
  apply push_back_mc in Hr. cbv beta iota in H. bd H a Ha. bd H pa Hpa. cbv zeta in H. bd H s2 H2.
  assert (E2 : mc s2 = mc s1).
  { apply (fold_mc _ _ _ _ H2). intros st (ci, c) st' Hc. bd Hc inf Hinf. bd Hc pa' Hpa'.
    destruct (cindex (am_mask pa') c) as [pci|].
    - destruct (Nat.ltb pidx (am_size pa')); [|discriminate]. bd Hc st1 Hw. inversion Hc. rewrite mc_if. eapply write_cell_mc; eassumption.
    - match type of Hc with (if ?b then _ else _) = _ => destruct b end; [eapply construct_default_mc; eassumption|inversion Hc; reflexivity]. }
  bd H pa2 Hpa2. bd H pent Hpent. bd H s3 H3. apply arch_remove_mc in H3. apply update_location_mc in H. congruence.
Qed.

Lemma arch_insert_mc s ai h skip s' : arch_insert s ai h skip = Ok s' -> mc s' = mc s.
Proof.
  unfold arch_insert. intros H. bd H r Hr. destruct r as (s1, idx). apply push_back_mc in Hr. cbv beta iota in H.
  bd H a Ha. cbv zeta in H. bd H s2 H2.
  assert (E2 : mc s2 = mc s1).
  { destruct (skip =? am_mask a)%N; [inversion H2; reflexivity|]. bd H2 sm Hm.
    assert (Em : mc sm = mc s1).
    { apply (fold_mc _ _ _ _ Hm). intros st (ci, c) st' Hc. bd Hc inf Hinf.
      match type of Hc with (if ?b then _ else _) = _ => destruct b end; [|inversion Hc; reflexivity].
      match type of Hc with (if ?b then _ else _) = _ => destruct b end; [eapply construct_default_mc; eassumption|inversion Hc; reflexivity]. }
    rewrite <- Em.
    apply (fold_mc _ _ _ _ H2). intros st (ci, c) st' Hc. bd Hc inf Hinf.
    match type of Hc with (if ?b then _ else _) = _ => destruct b end; [inversion Hc; reflexivity|].
    destruct (ci_default inf) as [v|]; [|inversion Hc; reflexivity].
    match type of Hc with (if ?b then _ else _) = _ => destruct b end; [eapply write_cell_mc; eassumption|inversion Hc; reflexivity]. }
  bd H a2 Ha2. bd H a3 Ha3. apply update_location_mc in H. rewrite H. change (mc s2 = mc s). congruence.
Qed.

Lemma get_arch_mc s m sh s1 ai : get_arch s m sh = Ok (s1, ai) -> mc s1 = mc s.
Proof.
  unfold get_arch. intros H. bd H exm Hex. cbv zeta in H. destruct (find_arch _ _ _ _); [inversion H; reflexivity|].
  bd H cs Hcs. inversion H; subst. reflexivity.
Qed.

Lemma create_id_mc s s' h : create_id s = Ok (s', h) -> mc s' = mc s.
Proof.
  unfold create_id. intros H. destruct (empty_slots s); [inversion H; reflexivity|]. bd H sl Hsl. cbv zeta in H. bd H ls Hls. inversion H; subst. reflexivity.
Qed.

Lemma destroy_now_mc s h s' : destroy_now_unlocked s h = Ok s' -> mc s' = mc s.
Proof.
  unfold destroy_now_unlocked. intros H. destruct (is_valid s h); [|inversion H; reflexivity]. bd H l Hl. bd H s1 H1. inversion H; subst s'.
  change (mc s1 = mc s). destruct (l_arch l); [eapply arch_remove_mc; eassumption|inversion H1; reflexivity].
Qed.

Lemma assign_unlocked_mc s h c sk s' r : assign_unlocked s h c sk = Ok (s', r) -> mc s' = mc s.
Proof.
  unfold assign_unlocked. intros H. bd H la Hla. destruct la as (pai, pidx). cbv beta iota in H. bd H pa Hpa. cbv zeta in H.
  bd H rg Hg. destruct rg as (s1, ai). cbv beta iota in H. apply get_arch_mc in Hg. bd H s2 Hmv. apply external_move_mc in Hmv.
  bd H a Ha. bd H l Hl. destruct (cindex (am_mask a) c); [|discriminate]. inversion H; subst. congruence.
Qed.

Lemma remove_unlocked_mc s h c s' : remove_unlocked s h c = Ok s' -> mc s' = mc s.
Proof.
  unfold remove_unlocked. intros H. bd H l Hl. destruct (l_arch l) as [pai|]; [|inversion H; reflexivity]. bd H pa Hpa.
  destruct (negb (mhas (am_mask pa) c)); [inversion H; reflexivity|]. bd H rg Hg. destruct rg as (s1, ai). cbv beta iota in H.
  apply get_arch_mc in Hg. destruct (Nat.eqb ai pai); [inversion H; subst; exact Hg|]. apply external_move_mc in H. congruence.
Qed.

Lemma get_mut_mc s h c w s' out : get_mut s h c w = Ok (s', out) -> mc s' = mc s.
Proof.
  unfold get_mut. intros H. destruct (negb (is_valid s h)); [inversion H; reflexivity|]. bd H l Hl.
  destruct (l_arch l) as [ai|]; [|inversion H; reflexivity]. bd H a Ha. destruct (cindex (am_mask a) c) as [ci|]; [|inversion H; reflexivity].
  bd H ch Hch. bd H a1 Ha1. cbv zeta in H. inversion H; subst. reflexivity.
Qed.

Lemma created_shared_mc s sid inst : mc (fst (created_shared s sid inst)) = mc s.
Proof. unfold created_shared. cbv zeta. destruct (find _ _); reflexivity. Qed.

Lemma assign_shared_mc s h sid v s' : assign_shared s h sid v = Ok s' -> mc s' = mc s.
Proof.
  unfold assign_shared. unfold new_inst. cbv beta iota zeta. intros H. bd H l Hl.
  destruct (created_shared (set_pool s (pool s) (insts s ++ [(sid, v)])) sid (length (insts s))) as (s1, inst) eqn:Ec.
  assert (E1 : mc s1 = mc s).
  { pose proof (created_shared_mc (set_pool s (pool s) (insts s ++ [(sid, v)])) sid (length (insts s))) as E. rewrite Ec in E. exact E. }
  cbv beta iota in H. destruct (l_arch l) as [pai|]; [|discriminate]. bd H pa Hpa. bd H sh Hsh. bd H rg Hg. destruct rg as (s2, ai). cbv beta iota in H.
  apply get_arch_mc in Hg. destruct (Nat.eqb ai pai); [inversion H; subst; congruence|]. apply external_move_mc in H. congruence.
Qed.

Lemma remove_shared_mc s h sid s' b : remove_shared s h sid = Ok (s', b) -> mc s' = mc s.
Proof.
  unfold remove_shared. intros H. destruct (negb (is_valid s h)); [inversion H; reflexivity|]. bd H l Hl.
  destruct (l_arch l) as [pai|]; [|inversion H; reflexivity]. bd H pa Hpa.
  destruct (negb (mhas (si_mask (am_shared pa)) sid)); [inversion H; reflexivity|]. bd H sh Hsh. bd H rg Hg. destruct rg as (s1, ai). cbv beta iota in H.
  apply get_arch_mc in Hg. destruct (Nat.eqb ai pai); [inversion H; subst; exact Hg|]. bd H s2 Hmv. apply external_move_mc in Hmv. inversion H; subst. congruence.
Qed.

(* ---- the steps of the unlocked alphabet with shared components ---- *)
Lemma step_unlocked_mc typed s hs o s1 out : lockc s = 0 ->
  match o with
  | XoCreate _ _ sids _ => sids = []
  | XoDestroyNow _ _ | XoAssign _ _ _ _ | XoRemove _ _ _ _ | XoSet _ _ _ | XoAssignShared _ _ _ | XoRemoveShared _ _ => True
  | _ => False
  end ->
  step s (concretize typed hs o) = Ok (s1, out) -> mc s1 = mc s.
Proof.
  intros Hl Ho H. destruct o; try contradiction; cbn [concretize] in H.
  - subst sids. rewrite (step_create_unlocked _ _ _ _ Hl) in H. bd H r Hg. destruct r as (s0, ai). cbv beta iota in H.
    bd H r2 Hc. destruct r2 as (s2, h). cbv beta iota in H. bd H s3 Hi. inversion H; subst.
    rewrite (arch_insert_mc _ _ _ _ _ Hi), (create_id_mc _ _ _ Hc). eapply get_arch_mc. exact Hg.
  - rewrite (step_destroy_now_unlocked _ _ _ Hl) in H. bd H s2 Hd. inversion H; subst. eapply destroy_now_mc. exact Hd.
  - rewrite (step_assign_unlocked _ _ _ _ _ _ Hl) in H. bd H inf Hinf. bd H r Hr. destruct r as (s2, ((ai, ci), slot)). cbv beta iota in H.
    apply assign_unlocked_mc in Hr. destruct v as [z|]; [|inversion H; subst; exact Hr].
    bd H s3 Hw. assert (E3 : mc s3 = mc s2).
    { destruct (ci_hasval inf); [eapply write_cell_mc; eassumption|inversion Hw; reflexivity]. }
    destruct typed; inversion H; subst; rewrite ?mc_if; congruence.
  - rewrite (step_remove_unlocked _ _ _ _ _ Hl) in H. destruct (typed0 && negb (is_valid s (resolve hs k))); [inversion H; reflexivity|].
    bd H s2 Hr. inversion H; subst. eapply remove_unlocked_mc. exact Hr.
  - rewrite step_assign_shared in H. bd H s2 Ha. inversion H; subst. eapply assign_shared_mc. exact Ha.
  - rewrite step_remove_shared in H. bd H r Hr. destruct r as (s2, b). inversion H; subst. eapply remove_shared_mc. exact Hr.
  - eapply get_mut_mc. exact H.
Qed.
