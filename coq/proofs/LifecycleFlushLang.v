(* C03, history level, the flush at unlock -- checker-level lemmas (no Manager invariant in this file).
   A. the bracket checker does not look at the order of its live list, and events that only mention archetype cells
      leave the live temporaries alone (frame lemma): the soundness lemmas of LifecycleHist.v, stated for a live set
      that is exactly the occupied tracked cells, carry over to a live set that also holds parked temporaries;
   B. which event lists only mention archetype cells;
   C. the last loop of applyCommandPack (one move construction from a parked temporary per assign command of the
      pack): its event list and what the checker makes of it;
   D. the mask loop of applyCommandPack read structurally (which components the pack assigns, what the final mask can
      contain), and the decidable contract `ra_ok` (no component is removed and later assigned within one pack). *)
Require Import Coq.Lists.List Coq.NArith.NArith Coq.ZArith.ZArith Coq.Arith.Arith Coq.Bool.Bool Coq.micromega.Lia.
From Mustache Require Import Res Manager MgrSpec Refine.
From Mustache Require Skeleton.
From Mustache Require Import SkelSpec.
From Mustache.proofs Require Import ListLemmas SkelBasics SkelInv SkelSteps SkelMove SkelMain ClosureProofs
  ManagerBasics ManagerMoves ManagerProj ManagerInv ManagerMain LifecycleProofs LifecycleLang LifecycleHist.
Import ListNotations.

(* ------------------------------------------------------------------------------------------ *)
(* A. frame                                                                                    *)
Definition is_parch (p : place) : bool := match p with PArch _ _ _ => true | PTmp _ _ => false end.
Definition ev_arch_only (e : event) : Prop := forall p, In p (ev_places e) -> is_parch p = true.

Lemma pmem_ext p L L' : (In p L <-> In p L') -> pmem p L = pmem p L'.
Proof.
  intros H. destruct (pmem p L') eqn:E.
  - apply pmem_in. apply H. apply pmem_in. exact E.
  - apply pmem_false. intros Hin. apply H in Hin. apply pmem_in in Hin. congruence.
Qed.

Section Frame.
Variable dp : list nat.

(* LA: the archetype cells of L *)
Definition arch_part (LA L : list place) : Prop :=
  (forall p, In p LA -> is_parch p = true) /\ (forall p, is_parch p = true -> (In p L <-> In p LA)).

Lemma arch_part_filter L : arch_part (filter is_parch L) L.
Proof.
  split.
  - intros p Hp. apply filter_In in Hp. tauto.
  - intros p Hp. rewrite filter_In. tauto.
Qed.

Lemma lc_step_frame e LA L LA1 : ev_arch_only e -> arch_part LA L -> lc_step dp LA e = Some LA1 ->
  exists L1, lc_step dp L e = Some L1 /\ arch_part LA1 L1 /\ forall p, is_parch p = false -> (In p L1 <-> In p L).
Proof.
  intros He (HA1 & HA2) H.
  assert (Hm : forall p, is_parch p = true -> pmem p L = pmem p LA) by (intros p Hp; apply pmem_ext; apply HA2; exact Hp).
  assert (Hcons : forall p, is_parch p = true -> arch_part (p :: LA) (p :: L) /\ forall q, is_parch q = false -> (In q (p :: L) <-> In q L)).
  { intros p Hp. split; [split|].
    - intros q [<-|Hq]; [exact Hp|apply HA1; exact Hq].
    - intros q Hq. simpl. rewrite (HA2 q Hq). tauto.
    - intros q Hq. simpl. split; [intros [<-|Hin]; [congruence|exact Hin]|auto]. }
  assert (Hsame : arch_part LA L /\ forall q, is_parch q = false -> (In q L <-> In q L)) by (split; [split; assumption|tauto]).
  destruct e as [pal p|pal p|pal d s|pal d s|pal d s|pal p|pal p h|pal p h]; simpl in H |- *.
  - assert (Hp : is_parch p = true) by (apply He; left; reflexivity).
    destruct (pal_in pal dp); [|inversion H; subst; eauto]. rewrite (Hm p Hp). destruct (pmem p LA); [discriminate|].
    inversion H; subst. eexists. split; [reflexivity|]. apply Hcons. exact Hp.
  - assert (Hp : is_parch p = true) by (apply He; left; reflexivity).
    destruct (pal_in pal dp); [|inversion H; subst; eauto]. rewrite (Hm p Hp). destruct (pmem p LA); [discriminate|].
    inversion H; subst. eexists. split; [reflexivity|]. apply Hcons. exact Hp.
  - assert (Hd : is_parch d = true) by (apply He; left; reflexivity).
    assert (Hs : is_parch s = true) by (apply He; right; left; reflexivity).
    destruct (pal_in pal dp); [|inversion H; subst; eauto]. rewrite (Hm d Hd), (Hm s Hs). destruct (pmem d LA); [discriminate|].
    destruct (pmem s LA); [|discriminate]. inversion H; subst. eexists. split; [reflexivity|]. apply Hcons. exact Hd.
  - assert (Hd : is_parch d = true) by (apply He; left; reflexivity).
    assert (Hs : is_parch s = true) by (apply He; right; left; reflexivity).
    destruct (pal_in pal dp); [|inversion H; subst; eauto]. rewrite (Hm d Hd), (Hm s Hs). destruct (pmem d LA); [discriminate|].
    destruct (pmem s LA); [|discriminate]. inversion H; subst. eexists. split; [reflexivity|]. apply Hcons. exact Hd.
  - assert (Hd : is_parch d = true) by (apply He; left; reflexivity).
    assert (Hs : is_parch s = true) by (apply He; right; left; reflexivity).
    destruct (pal_in pal dp); [|inversion H; subst; eauto]. rewrite (Hm d Hd), (Hm s Hs).
    destruct (pmem d LA && pmem s LA); [|discriminate]. inversion H; subst. eauto.
  - assert (Hp : is_parch p = true) by (apply He; left; reflexivity).
    destruct (pal_in pal dp); [|inversion H; subst; eauto]. rewrite (Hm p Hp). destruct (pmem p LA); [|discriminate].
    inversion H; subst. eexists. split; [reflexivity|]. split; [split|].
    + intros q Hq. apply premove_in in Hq. apply HA1. tauto.
    + intros q Hq. rewrite !premove_in, (HA2 q Hq). tauto.
    + intros q Hq. rewrite premove_in. split; [tauto|]. intros Hin. split; [exact Hin|]. intros ->. congruence.
  - inversion H; subst. eauto.
  - inversion H; subst. eauto.
Qed.

Lemma lc_run_frame : forall evs LA L LA', Forall ev_arch_only evs -> arch_part LA L -> lc_run dp LA evs = Some LA' ->
  exists L', lc_run dp L evs = Some L' /\ arch_part LA' L' /\ forall p, is_parch p = false -> (In p L' <-> In p L).
Proof.
  induction evs as [|e t IH]; intros LA L LA' Hev HA H; simpl in H |- *.
  - inversion H; subst. exists L. split; [reflexivity|]. split; [exact HA|tauto].
  - inversion Hev as [|? ? He Ht]; subst. destruct (lc_step dp LA e) as [LA1|] eqn:E1; [|discriminate].
    destruct (lc_step_frame e LA L LA1 He HA E1) as (L1 & -> & HA1 & HT1).
    destruct (IH LA1 L1 LA' Ht HA1 H) as (L' & Hr & HA' & HT'). exists L'. split; [exact Hr|]. split; [exact HA'|].
    intros p Hp. rewrite (HT' p Hp). apply HT1. exact Hp.
Qed.

(* how the soundness lemmas of LifecycleHist.v are used from a live set with temporaries in it *)
Lemma frame_apply (A Q : place -> Prop) evs L : Forall ev_arch_only evs ->
  (forall p, A p -> is_parch p = true) ->
  (forall p, is_parch p = true -> (In p L <-> A p)) ->
  (forall LA, (forall p, In p LA <-> A p) -> exists LA', lc_run dp LA evs = Some LA' /\ forall p, In p LA' <-> Q p) ->
  exists L', lc_run dp L evs = Some L' /\ (forall p, is_parch p = true -> (In p L' <-> Q p)) /\
             (forall p, is_parch p = false -> (In p L' <-> In p L)).
Proof.
  intros Hev HAa HL Hsound.
  destruct (Hsound (filter is_parch L)) as (LA' & Hr & HQ).
  { intros p. rewrite filter_In. split; [intros (Hin & Hp); apply HL; assumption|]. intros Hp. pose proof (HAa p Hp) as Ha. split; [apply HL; assumption|exact Ha]. }
  destruct (lc_run_frame evs _ L LA' Hev (arch_part_filter L) Hr) as (L' & Hr' & (HA1 & HA2) & HT).
  exists L'. split; [exact Hr'|]. split; [|exact HT]. intros p Hp. rewrite (HA2 p Hp). apply HQ.
Qed.

End Frame.

Lemma aplace_parch cis al p : aplace cis al p -> is_parch p = true.
Proof. destruct p; [reflexivity|intros []]. Qed.

(* ------------------------------------------------------------------------------------------ *)
(* B. event lists that only mention archetype cells                                            *)
Ltac ao_leaf := intros p Hp; simpl in Hp; repeat (destruct Hp as [<-|Hp]); try contradiction; reflexivity.
Ltac ao_tac := repeat match goal with
  | |- Forall _ (_ ++ _) => apply Forall_app; split
  | |- Forall _ (flat_map _ _) => apply Forall_flat_map, Forall_forall; intros ? _
  | |- Forall _ (map _ _) => apply Forall_forall; intros ? ?Hm; apply in_map_iff in Hm; destruct Hm as (? & <- & _); ao_leaf
  | |- Forall _ (on_info _ _ _) => unfold on_info
  | |- Forall _ (match ?x with _ => _ end) => destruct x
  | |- Forall _ [] => constructor
  | |- Forall _ (_ :: _) => constructor; [ao_leaf|]
  end.

Lemma cd_events_ao inf ai c slot h : Forall ev_arch_only (cd_events inf ai c slot h).
Proof. unfold cd_events. ao_tac. Qed.
Lemma dtor_events_ao cis ai slot comps : Forall ev_arch_only (dtor_events cis ai slot comps).
Proof. unfold dtor_events. ao_tac. Qed.
Lemma ma_events_ao cis ai src dst comps : Forall ev_arch_only (ma_events cis ai src dst comps).
Proof. unfold ma_events. ao_tac. Qed.
Lemma br_events_ao cis ai idx ent rm comps : Forall ev_arch_only (br_events cis ai idx ent rm comps).
Proof. unfold br_events. ao_tac. Qed.
Lemma vacate_events_ao cis ai idx last m : Forall ev_arch_only (vacate_events cis ai idx last m).
Proof. unfold vacate_events. destruct (Nat.eqb idx last); ao_tac; auto using dtor_events_ao, ma_events_ao. Qed.
Lemma move_events_ao cis ai idx prev pidx h skip pm comps : Forall ev_arch_only (move_events cis ai idx prev pidx h skip pm comps).
Proof. unfold move_events. ao_tac; apply cd_events_ao. Qed.
Lemma insert_events_ao cis ai idx h skip comps : Forall ev_arch_only (insert_events cis ai idx h skip comps).
Proof. unfold insert_events, insert_one. ao_tac; apply cd_events_ao. Qed.
Lemma remove_events_ao cis ai idx ent rm last m comps :
  Forall ev_arch_only (br_events cis ai idx ent rm comps ++ vacate_events cis ai idx last m).
Proof. apply Forall_app. split; [apply br_events_ao|apply vacate_events_ao]. Qed.
Lemma extmove_events_ao cis ai idx prev pidx h skip pm comps pent rm pcomps last :
  Forall ev_arch_only (move_events cis ai idx prev pidx h skip pm comps ++ br_events cis prev pidx pent rm pcomps ++ vacate_events cis prev pidx last pm).
Proof. apply Forall_app. split; [apply move_events_ao|apply remove_events_ao]. Qed.

(* ------------------------------------------------------------------------------------------ *)
(* C. the move constructions from the parked temporaries                                       *)
Definition asg_cids (p : list acmd) : list nat := flat_map (fun c => match c with AAssign _ cid _ => [cid] | _ => [] end) p.

Definition wr_one (cis : list cinfo) (k : nat) (h : handle) (ai idx : nat) (c : acmd) : list event :=
  match c with
  | AAssign _ cid n => on_info cis cid (fun inf =>
      (if ci_mctor inf && ci_ev inf then [EvMC (ci_pal inf) (PArch ai cid idx) (PTmp k n)] else []) ++
      (if ci_aa inf then [EvAA (ci_pal inf) (PArch ai cid idx) h] else []))
  | _ => []
  end.
Definition wr_events (cis : list cinfo) (k : nat) (h : handle) (ai idx : nat) (p : list acmd) : list event :=
  flat_map (wr_one cis k h ai idx) p.

Lemma run_wr cis k h ai idx : lc_cis_ok cis -> forall p L, NoDup (asg_cids p) ->
  (forall h' c n, In (AAssign h' c n) p -> tcomp cis c = true -> In (PTmp k n) L) ->
  (forall c, In c (asg_cids p) -> tcomp cis c = true -> ~ In (PArch ai c idx) L) ->
  exists L', lc_run (destroy_pals cis) L (wr_events cis k h ai idx p) = Some L' /\
    forall q, In q L' <-> (In q L \/ exists c, In c (asg_cids p) /\ tcomp cis c = true /\ q = PArch ai c idx).
Proof.
  intros Hok. induction p as [|c0 t IH]; intros L Hnd Hsrc Hdst.
  - exists L. split; [reflexivity|]. intros q. split; [auto|intros [Hq|(c & [] & _)]; exact Hq].
  - unfold wr_events. cbn [flat_map]. fold (wr_events cis k h ai idx t). rewrite lc_run_app.
    destruct c0 as [h0 ha m0 sh0|h0|h0|h0 c0|h0 cid n];
      try (simpl; destruct (IH L Hnd) as (L' & Hr & HL');
           [intros h' c n Hin; apply (Hsrc h' c n); right; exact Hin|intros c Hc; apply Hdst; exact Hc|];
           exists L'; split; [exact Hr|exact HL']).
    simpl in Hnd. apply NoDup_cons_iff in Hnd. destruct Hnd as (Hni & Hnd').
    set (L1 := if tcomp cis cid then PArch ai cid idx :: L else L).
    assert (E1 : lc_run (destroy_pals cis) L (wr_one cis k h ai idx (AAssign h0 cid n)) = Some L1).
    { unfold wr_one, on_info, L1. destruct (nth_error cis cid) as [inf|] eqn:Hn; [|unfold tcomp; rewrite Hn; reflexivity].
      rewrite lc_run_app.
      assert (E2 : forall L0, lc_run (destroy_pals cis) L0 (if ci_aa inf then [EvAA (ci_pal inf) (PArch ai cid idx) h] else []) = Some L0)
        by (intros L0; destruct (ci_aa inf); reflexivity).
      destruct (tcomp cis cid) eqn:Ht.
      - destruct (tcomp_funs cis Hok _ _ Hn Ht) as (Hev & _ & _ & Hm & Hp). rewrite Hm, Hev. simpl. rewrite Hp.
        assert (Hd : ~ In (PArch ai cid idx) L) by (apply Hdst; [left; reflexivity|exact Ht]).
        assert (Hs : In (PTmp k n) L) by (apply (Hsrc h0 cid n); [left; reflexivity|exact Ht]).
        rewrite (proj2 (pmem_false _ _) Hd), (proj2 (pmem_in _ _) Hs). apply E2.
      - destruct (ci_mctor inf && ci_ev inf) eqn:G; [|simpl; apply E2]. apply andb_true_iff in G. destruct G as (_ & Hev).
        simpl. rewrite (untracked_pal cis Hok _ _ Hn Ht Hev). apply E2. }
    rewrite E1.
    assert (HL1 : forall q, In q L1 <-> In q L \/ (tcomp cis cid = true /\ q = PArch ai cid idx)).
    { intros q. unfold L1. destruct (tcomp cis cid); simpl.
      - split; [intros [E|Hq]; [right; auto|left; exact Hq]|intros [Hq|(_ & E)]; [right; exact Hq|left; auto]].
      - split; [auto|intros [Hq|(E & _)]; [exact Hq|discriminate]]. }
    destruct (IH L1 Hnd') as (L' & Hr & HL').
    + intros h' c n' Hin Ht. apply HL1. left. apply (Hsrc h' c n'); [right; exact Hin|exact Ht].
    + intros c Hc Ht. rewrite HL1. intros [Hq|(_ & E)]; [apply (Hdst c); [right; exact Hc|exact Ht|exact Hq]|].
      inversion E; subst c. contradiction.
    + exists L'. split; [exact Hr|]. intros q. rewrite HL', HL1. simpl. split.
      * intros [[Hq|(Ht & E)]|(c & Hc & Ht & E)]; [left; exact Hq|right; exists cid; auto|right; exists c; auto].
      * intros [Hq|(c & [<-|Hc] & Ht & E)]; [left; left; exact Hq|left; right; auto|right; exists c; auto].
Qed.

(* ------------------------------------------------------------------------------------------ *)
(* D. the mask loop, structurally                                                              *)
(* the contract of the deferred interface the bracket checker needs on top of x_viol = 0: within one pack (the
   consecutive commands of one thread on one entity) no component is removed and assigned afterwards *)
Fixpoint ra_ok (removed : list nat) (p : list acmd) : bool :=
  match p with
  | [] => true
  | ARemove _ c :: t => ra_ok (c :: removed) t
  | AAssign _ c _ :: t => negb (existsb (Nat.eqb c) removed) && ra_ok removed t
  | _ :: t => ra_ok removed t
  end.

(* packs through the null handle (a handle the script has not been given yet) are skipped whole: no contract for them *)
Definition pack_ra (p : list acmd) : bool :=
  match p with [] => true | c0 :: _ => is_null (cmd_handle c0) || ra_ok [] p end.

(* every assign meets a component set that lacks the component (what x_viol = 0 gives: ManagerPack.pack_loop_sim) *)
Fixpoint pack_fresh (fm : mask) (p : list acmd) : bool :=
  match p with
  | [] => true
  | ADestroyNow _ :: _ => true
  | ARemove _ c :: t => pack_fresh (mdel fm c) t
  | AAssign _ c _ :: t => negb (mhas fm c) && pack_fresh (madd fm c) t
  | _ :: t => pack_fresh fm t
  end.

(* every assigned component is new to the entity and assigned once (what the checker needs) *)
Fixpoint pack_once (seen : mask) (p : list acmd) : bool :=
  match p with
  | [] => true
  | ADestroyNow _ :: _ => true
  | AAssign _ c _ :: t => negb (mhas seen c) && pack_once (madd seen c) t
  | _ :: t => pack_once seen t
  end.

Lemma existsb_eqb_in c l : existsb (Nat.eqb c) l = true <-> In c l.
Proof.
  rewrite existsb_exists. split; [intros (y & Hin & E); apply Nat.eqb_eq in E; subst; exact Hin|].
  intros Hin. exists c. split; [exact Hin|apply Nat.eqb_refl].
Qed.

Lemma fresh_ra_once : forall p fm R seen, pack_fresh fm p = true -> ra_ok R p = true ->
  (forall c, mhas seen c = true -> mhas fm c = true \/ In c R) -> pack_once seen p = true.
Proof.
  induction p as [|c0 t IH]; intros fm R seen Hf Hr Hs; [reflexivity|].
  destruct c0 as [h0 ha m0 sh0|h0|h0|h0 c|h0 c n]; simpl in *.
  - eapply IH; eassumption.
  - eapply IH; eassumption.
  - reflexivity.
  - apply (IH (mdel fm c) (c :: R) seen Hf Hr). intros c' Hc'. rewrite mhas_mdel. destruct (Nat.eqb_spec c' c) as [->|Hne].
    + right. left. reflexivity.
    + destruct (Hs c' Hc') as [H1|H1]; [left; rewrite H1; reflexivity|right; right; exact H1].
  - apply andb_true_iff in Hf. destruct Hf as (Hf1 & Hf2). apply andb_true_iff in Hr. destruct Hr as (Hr1 & Hr2).
    apply negb_true_iff in Hf1, Hr1. apply andb_true_iff. split.
    + apply negb_true_iff. destruct (mhas seen c) eqn:E; [|reflexivity]. exfalso. destruct (Hs c E) as [H1|H1]; [congruence|].
      apply existsb_eqb_in in H1. congruence.
    + apply (IH (madd fm c) R (madd seen c) Hf2 Hr2). intros c' Hc'. rewrite mhas_madd in Hc' |- *.
      destruct (Nat.eqb c' c); [left; reflexivity|]. simpl in *. apply Hs. exact Hc'.
Qed.

Fixpoint has_dnow (p : list acmd) : bool :=
  match p with [] => false | ADestroyNow _ :: _ => true | _ :: t => has_dnow t end.

Lemma pack_once_spec : forall p seen, has_dnow p = false -> pack_once seen p = true ->
  NoDup (asg_cids p) /\ forall c, In c (asg_cids p) -> mhas seen c = false.
Proof.
  induction p as [|c0 t IH]; intros seen Hd H; [split; [constructor|intros c []]|].
  destruct c0 as [h0 ha m0 sh0|h0|h0|h0 c|h0 c n]; simpl in *; try (apply IH; assumption); [discriminate|].
  apply andb_true_iff in H. destruct H as (H1 & H2). apply negb_true_iff in H1.
  destruct (IH (madd seen c) Hd H2) as (Hnd & Hno). split.
  - constructor; [|exact Hnd]. intros Hin. specialize (Hno c Hin). rewrite mhas_madd, Nat.eqb_refl in Hno. discriminate.
  - intros c' [<-|Hin]; [exact H1|]. specialize (Hno c' Hin). rewrite mhas_madd in Hno. apply orb_false_iff in Hno. tauto.
Qed.

Lemma set_marked_same s : set_marked s (marked s) = s.
Proof. destruct s; reflexivity. Qed.

(* the loop finished without destroyNow: only the marked set of the state changed; the masks *)
Lemma pack_loop_nf create h : forall t s fm am s3 final assigned,
  pack_loop create h t s fm am = Ok (s3, final, assigned, false) ->
  (exists m', s3 = set_marked s m') /\ has_dnow t = false /\
  (forall c, mhas final c = true -> mhas fm c = true \/ In c (asg_cids t)) /\
  (forall c, In c (asg_cids t) -> mhas assigned c = true) /\
  (forall c, mhas assigned c = true -> mhas am c = true \/ In c (asg_cids t)).
Proof.
  induction t as [|c0 t IH]; intros s fm am s3 final assigned H; simpl in H.
  - inversion H; subst. split; [exists (marked s3); destruct s3; reflexivity|]. split; [reflexivity|]. split; [auto|]. split; [intros c []|auto].
  - destruct c0 as [h0 ha m0 sh0|h0|h0|h0 c|h0 c n]; [discriminate| | | |].
    + destruct (IH _ _ _ _ _ _ H) as ((m' & ->) & Hd & H1 & H2 & H3). split; [exists m'; reflexivity|]. simpl. auto.
    + destruct create; [inversion H|]. destruct (destroy_now_unlocked s h); simpl in H; inversion H.
    + destruct (IH _ _ _ _ _ _ H) as (Hm & Hd & H1 & H2 & H3). split; [exact Hm|]. split; [exact Hd|]. simpl. split; [|auto].
      intros c' Hc'. destruct (H1 c' Hc') as [E|E]; [|right; exact E]. rewrite mhas_mdel in E. apply andb_true_iff in E. left. tauto.
    + destruct (IH _ _ _ _ _ _ H) as (Hm & Hd & H1 & H2 & H3). split; [exact Hm|]. split; [exact Hd|]. simpl. split; [|split].
      * intros c' Hc'. destruct (H1 c' Hc') as [E|E]; [|right; right; exact E]. rewrite mhas_madd in E.
        destruct (Nat.eqb_spec c' c) as [->|Hne]; [right; left; reflexivity|left; exact E].
      * intros c' [<-|Hin]; [|apply H2; exact Hin].
        clear - H. revert H. generalize (madd fm c). assert (Hc : mhas (madd am c) c = true) by (rewrite mhas_madd, Nat.eqb_refl; reflexivity).
        revert Hc. generalize (madd am c). revert s. induction t as [|c1 t IHt]; intros s am0 Hc fm0 H; simpl in H.
        -- inversion H; subst. exact Hc.
        -- destruct c1 as [h1 ha m1 sh1|h1|h1|h1 c1|h1 c1 n1]; [discriminate| | | |].
           ++ eapply IHt; eassumption.
           ++ destruct create; [inversion H|]. destruct (destroy_now_unlocked s h); simpl in H; inversion H.
           ++ eapply IHt; eassumption.
           ++ eapply (IHt _ (madd am0 c1)); [|exact H]. rewrite mhas_madd, Hc. apply orb_true_r.
      * intros c' Hc'. destruct (H3 c' Hc') as [E|E]; [|right; right; exact E]. rewrite mhas_madd in E.
        destruct (Nat.eqb_spec c' c) as [->|Hne]; [right; left; reflexivity|left; exact E].
Qed.

(* the loop met a destroyNow *)
Lemma pack_loop_fin create h : forall t s fm am s3 final assigned,
  pack_loop create h t s fm am = Ok (s3, final, assigned, true) ->
  exists m', if create then s3 = release_id (set_marked s m') h else destroy_now_unlocked (set_marked s m') h = Ok s3.
Proof.
  induction t as [|c0 t IH]; intros s fm am s3 final assigned H; simpl in H; [inversion H|].
  destruct c0 as [h0 ha m0 sh0|h0|h0|h0 c|h0 c n]; [discriminate| | | |].
  - destruct (IH _ _ _ _ _ _ H) as (m' & Hm). exists m'. exact Hm.
  - exists (marked s). rewrite set_marked_same. destruct create; [inversion H; reflexivity|].
    destruct (destroy_now_unlocked s h) as [s1|e]; simpl in H; inversion H. reflexivity.
  - eapply IH; exact H.
  - eapply IH; exact H.
Qed.
