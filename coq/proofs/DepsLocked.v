(* C13 / C05: the relation DLR between a Manager run and the run of the specification over the alphabet with
   lock / unlock AND dependency declarations.  DLR = the relation LR of C05 on the two states with their tables erased
   (DepsInv.nd / xnd) + "the two tables are equal and well formed" + "every archetype with a member has a closed set
   inside the 128 bits" + "the masks of the recorded creations are inside the 128 bits".
   - operations that do not read the table commute with the erasure: the step lemmas of C05 are reused as they are;
   - the unlocked create / assign / remove / declarations go through the step lemma of C13 (DepsMain.DInv_step);
   - the flush is DepsFlush.F_buffers_d. *)
Require Import Coq.Lists.List Coq.NArith.NArith Coq.ZArith.ZArith Coq.Arith.Arith Coq.Bool.Bool Coq.micromega.Lia Coq.Sorting.Permutation.
From Mustache Require Import Res Manager MgrSpec Refine.
From Mustache Require Skeleton.
From Mustache Require Import SkelSpec.
From Mustache.proofs Require Import ListLemmas SkelBasics SkelInv SkelSteps SkelRefine SkelLocked SkelFlush SkelMove SkelMoveRem SkelMain ClosureProofs
  ManagerBasics ManagerMoves ManagerProj ManagerInv ManagerMain ManagerWorlds ManagerLInv ManagerPack ManagerFlush ManagerLocked ManagerLockedMain
  DepsFrame DepsClosure DepsInv DepsMain DepsTotal DepsAlgebra DepsPack DepsFlush.
From Mustache.proofs Require ManagerDeferred ManagerIsolation.
Import ListNotations.

(* ---------------------------------------------------------------------------------------- *)
(* recording commutes with replacing the table *)
Lemma push_cmd_sd d s tid c : push_cmd (sd d s) tid c = rmap (sd d) (push_cmd s tid c).
Proof. unfold push_cmd. cbn [sd set_deps bufs tmps]. apply bind_same. intros b. reflexivity. Qed.

Lemma create_locked_sd d s tid m sh : create_locked (sd d s) tid m sh = rmap (sd1 d) (create_locked s tid m sh).
Proof.
  unfold create_locked. cbn [sd set_deps next_eid slots]. apply (bind_comm (sd d)).
  - apply (push_cmd_sd d (set_eid s (next_eid s + 1)%N)).
  - intros s1. reflexivity.
Qed.

Lemma assign_locked_sd d s tid h c sk : assign_locked (sd d s) tid h c sk = rmap (sd1 d) (assign_locked s tid h c sk).
Proof.
  unfold assign_locked. rewrite info_of_sd. apply bind_same. intros inf. cbn [sd set_deps tmps epoch]. apply bind_same. intros tl0.
  destruct (ci_create inf) as [z|]; [destruct sk; [|destruct (ci_ev inf)]|].
  - apply (bind_comm (sd d)); [apply push_cmd_sd|]. intros s2. reflexivity.
  - apply (bind_comm (sd d)); [apply (push_cmd_sd d (emit s _))|]. intros s2. reflexivity.
  - apply (bind_comm (sd d)); [apply push_cmd_sd|]. intros s2. reflexivity.
  - apply (bind_comm (sd d)); [apply push_cmd_sd|]. intros s2. reflexivity.
Qed.

Lemma write_tmp_sd d s tid n v : write_tmp (sd d s) tid n v = rmap (sd d) (write_tmp s tid n v).
Proof. unfold write_tmp. cbn [sd set_deps tmps bufs]. apply bind_same. intros tl0. apply bind_same. intros tl'. reflexivity. Qed.

Lemma do_lock_sd d s : do_lock (sd d s) = sd d (do_lock s).
Proof. unfold do_lock. cbn [sd set_deps lockc]. destruct (lockc s); reflexivity. Qed.

(* the operations that do not read the table, in the lock state in which they do not *)
Definition ndt (s : mst) (o : xop) : Prop :=
  match o with
  | XoDestroy _ _ | XoDestroyNow _ _ | XoUpdate | XoLock | XoSet _ _ _ => True
  | XoUnlock => exists n, lockc s = S (S n)
  | XoCreate _ _ sids via => lockc s <> 0 /\ via = false /\ sids = []
  | XoAssign _ _ _ _ | XoRemove _ _ _ _ => lockc s <> 0
  | _ => False
  end.

Lemma step_sd typed d s hs o : ndt s o ->
  step (sd d s) (concretize typed hs o) = rmap (sd1 d) (step s (concretize typed hs o)).
Proof.
  intros Hn. destruct o; simpl in Hn; try contradiction; cbn [concretize].
  - (* create, locked *)
    destruct Hn as (Hl & -> & ->). cbn [step]. unfold make_shared_info. cbn [fold_res]. rewrite !bind_Ok. cbv beta iota.
    cbn [sd set_deps lockc]. destruct (lockc s) as [|n]; [congruence|].
    apply (bind_comm (sd1 d)); [apply create_locked_sd|]. intros (s1, h). reflexivity.
  - (* destroy *)
    cbn [step]. cbn [sd set_deps lockc marked]. destruct (lockc s); [reflexivity|].
    apply (bind_comm (sd d)); [apply push_cmd_sd|]. intros s1. reflexivity.
  - (* destroyNow *)
    cbn [step]. cbn [sd set_deps lockc]. destruct (lockc s).
    + apply (bind_comm (sd d)); [apply destroy_now_unlocked_sd|]. intros s1. reflexivity.
    + apply (bind_comm (sd d)); [apply push_cmd_sd|]. intros s1. reflexivity.
  - (* update *)
    cbn [step]. cbv zeta. cbv iota. change (lockc (inc_wv (sd d s))) with (lockc s). change (lockc (inc_wv s)) with (lockc s).
    destruct (lockc s); [|reflexivity].
    apply (bind_comm (sd d)).
    + apply (fold_res_sd d destroy_now_unlocked (fun st x => destroy_now_unlocked_sd d st x) (marked s) (set_wv (inc_wv s) (wv (inc_wv s)) (Some (wv (inc_wv s))))).
    + intros s2. reflexivity.
  - (* lock *)
    cbn [step]. rewrite do_lock_sd. reflexivity.
  - (* unlock that stays locked *)
    destruct Hn as (n & Hl). rewrite (ManagerIsolation.nested_unlock_does_not_flush s n Hl).
    rewrite (ManagerIsolation.nested_unlock_does_not_flush (sd d s) n Hl). reflexivity.
  - (* assign, locked *)
    destruct (lockc s) as [|n] eqn:El; [congruence|].
    rewrite (ManagerDeferred.step_assign_locked s _ _ _ _ _ n El), (ManagerDeferred.step_assign_locked (sd d s) _ _ _ _ _ n El).
    rewrite info_of_sd. apply bind_same. intros inf.
    apply (bind_comm (sd1 d)); [apply assign_locked_sd|]. intros (s1, nn). cbn [sd1 fst snd]. destruct v as [z|]; [|reflexivity].
    apply (bind_comm (sd d)).
    + destruct (ci_hasval inf); [apply write_tmp_sd|reflexivity].
    + intros s2. cbn [sd set_deps epoch]. destruct typed; [destruct (ci_ev inf)|]; reflexivity.
  - (* remove, locked *)
    cbn [step]. cbn [sd set_deps lockc]. destruct (lockc s); [congruence|].
    apply (bind_comm (sd d)); [apply push_cmd_sd|]. intros s1. reflexivity.
  - (* write through getComponent *)
    change (get_mut (sd d s) (resolve hs k) c (Some v) = rmap (sd1 d) (get_mut s (resolve hs k) c (Some v))). apply get_mut_sd.
Qed.

Lemma mstep_nd typed s hs o s' hs' : ndt s o -> mstep typed (s, hs) o = Ok (s', hs') ->
  mstep typed (nd s, hs) o = Ok (nd s', hs') /\ deps s' = deps s.
Proof.
  intros Hn H. unfold mstep in *. bd H r Hst. destruct r as (s1, out). inversion H; subst s' hs'; clear H. split.
  - unfold nd. rewrite (step_sd typed [] s hs o Hn), Hst. reflexivity.
  - change (deps (set_log s1 [])) with (deps s1).
    apply (comm_deps1 (fun st => step st (concretize typed hs o)) s s1 out); [|exact Hst]. intros d. apply step_sd.
    (* ndt reads the lock counter only *)
    destruct o; simpl in *; auto.
Qed.

(* ---------------------------------------------------------------------------------------- *)
(* ... and so do the same operations of the specification *)
Lemma xnd_fold_kill : forall l x, fold_left x_kill l (xnd x) = xnd (fold_left x_kill l x).
Proof. induction l as [|k l IH]; intros x; simpl; [reflexivity|]. rewrite xnd_kill. apply IH. Qed.

Definition xndt (x : xst) (o : xop) : Prop :=
  match o with
  | XoDestroy _ _ | XoDestroyNow _ _ | XoUpdate | XoLock | XoSet _ _ _ => True
  | XoUnlock => exists n, x_lock x = S (S n)
  | XoCreate _ _ _ _ | XoAssign _ _ _ _ | XoRemove _ _ _ _ => x_lock x <> 0
  | _ => False
  end.

Lemma x_step_xnd x o : xndt x o -> x_step (xnd x) o = xnd (x_step x o).
Proof.
  intros Hn. unfold x_step. destruct o; simpl in Hn; try contradiction.
  - change (out_of_contract (xnd x) (XoCreate tid m sids via_arch)) with (out_of_contract x (XoCreate tid m sids via_arch)).
    destruct (out_of_contract x _); [reflexivity|]. unfold x_step_in. change (x_lock (xnd x)) with (x_lock x). destruct (x_lock x); [congruence|reflexivity].
  - change (out_of_contract (xnd x) (XoDestroy tid k)) with (out_of_contract x (XoDestroy tid k)).
    destruct (out_of_contract x _); [reflexivity|]. unfold x_step_in. change (issued_b (xnd x) k) with (issued_b x k). change (x_lock (xnd x)) with (x_lock x).
    destruct (negb (issued_b x k)); [reflexivity|]. destruct (x_lock x); reflexivity.
  - change (out_of_contract (xnd x) (XoDestroyNow tid k)) with (out_of_contract x (XoDestroyNow tid k)).
    destruct (out_of_contract x _); [reflexivity|]. unfold x_step_in. change (issued_b (xnd x) k) with (issued_b x k). change (x_lock (xnd x)) with (x_lock x).
    destruct (negb (issued_b x k)); [reflexivity|]. destruct (x_lock x); [apply xnd_kill|reflexivity].
  - change (out_of_contract (xnd x) XoUpdate) with (out_of_contract x XoUpdate).
    destruct (out_of_contract x _); [reflexivity|]. unfold x_step_in. change (x_marked (xnd x)) with (x_marked x). rewrite xnd_fold_kill. reflexivity.
  - change (out_of_contract (xnd x) XoLock) with (out_of_contract x XoLock).
    destruct (out_of_contract x _); [reflexivity|]. unfold x_step_in. change (x_lock (xnd x)) with (x_lock x). destruct (x_lock x); reflexivity.
  - destruct Hn as (n & Hl). change (out_of_contract (xnd x) XoUnlock) with (out_of_contract x XoUnlock).
    destruct (out_of_contract x _); [reflexivity|]. unfold x_step_in. change (x_lock (xnd x)) with (x_lock x). rewrite Hl. reflexivity.
  - change (out_of_contract (xnd x) (XoAssign tid k c v)) with (out_of_contract x (XoAssign tid k c v)).
    destruct (out_of_contract x _); [reflexivity|]. unfold x_step_in. change (issued_b (xnd x) k) with (issued_b x k). change (x_lock (xnd x)) with (x_lock x).
    destruct (negb (issued_b x k)); [reflexivity|]. destruct (x_lock x); [congruence|reflexivity].
  - change (out_of_contract (xnd x) (XoRemove tid k c typed)) with (out_of_contract x (XoRemove tid k c typed)).
    destruct (out_of_contract x _); [reflexivity|]. unfold x_step_in. change (issued_b (xnd x) k) with (issued_b x k). change (x_lock (xnd x)) with (x_lock x).
    destruct (negb (issued_b x k)); [reflexivity|]. destruct (x_lock x); [congruence|reflexivity].
  - change (out_of_contract (xnd x) (XoSet k c v)) with (out_of_contract x (XoSet k c v)).
    destruct (out_of_contract x _); [reflexivity|]. unfold x_step_in. rewrite find_ent_xnd. destruct (find_ent x k) as [e|]; [|reflexivity].
    destruct (has_comp (e_comps e) c); reflexivity.
Qed.

Lemma x_deps_xndt x o : xndt x o -> x_deps (x_step x o) = x_deps x.
Proof.
  intros Hn. assert (E : x_deps (xnd (x_step x o)) = []) by reflexivity.
  unfold x_step. destruct (out_of_contract x o); [reflexivity|]. destruct o; simpl in Hn; try contradiction; unfold x_step_in.
  - destruct (x_lock x); [congruence|reflexivity].
  - destruct (negb (issued_b x k)); [reflexivity|]. destruct (x_lock x); reflexivity.
  - destruct (negb (issued_b x k)); [reflexivity|]. destruct (x_lock x); [|reflexivity]. unfold x_kill. destruct (find_ent x k); reflexivity.
  - pose proof (xfr_fold_kill (x_marked x) x) as F. apply (f_equal x_deps) in F. exact F.
  - destruct (x_lock x); reflexivity.
  - destruct Hn as (n & Hl). rewrite Hl. reflexivity.
  - destruct (negb (issued_b x k)); [reflexivity|]. destruct (x_lock x); [congruence|reflexivity].
  - destruct (negb (issued_b x k)); [reflexivity|]. destruct (x_lock x); [congruence|reflexivity].
  - destruct (find_ent x k) as [e|]; [|reflexivity]. destruct (has_comp (e_comps e) c); reflexivity.
Qed.

(* ---------------------------------------------------------------------------------------- *)
(* the relation *)
Definition KO (s : mst) : Prop :=
  forall ai a idx h, nth_error (archs s) ai = Some a -> nth_error (am_ents a) idx = Some h ->
    closed (deps s) (am_mask a) /\ lowm (am_mask a).
Definition xlow (xc : xcmd) : Prop := match xc with XCreate _ m _ => lowm m | _ => True end.
Definition BL (x : xst) : Prop := Forall (Forall xlow) (x_bufs x).

Record DLR (cis : list cinfo) (s : mst) (hs : list handle) (x : xst) : Prop := {
  dr_L : LR cis (nd s) hs (xnd x);
  dr_deps : deps s = x_deps x;
  dr_dwf : dwf (deps s);
  dr_ko : KO s;
  dr_bl : BL x
}.

Lemma keys_of_KO cis s hs al rem x0 : LInv cis (nd s) hs al rem x0 -> KO s -> keysok (deps s) al.
Proof.
  intros HI HK k key Hin. destruct (live_l _ _ _ _ _ _ (li_G _ _ _ _ _ _ HI) Hin) as (_ & ai & idx & a & _ & Ha & Hkey & Hent).
  rewrite <- Hkey. apply (HK ai a idx _ Ha Hent).
Qed.

Lemma KO_of_keys cis s hs al rem x0 : LInv cis (nd s) hs al rem x0 -> keysok (deps s) al -> KO s.
Proof.
  intros HI Hk ai a idx h Ha Hh. destruct (members_l (nd s) _ _ _ _ _ _ _ (li_G _ _ _ _ _ _ HI) Ha Hh) as (k & Hin & _). apply (Hk k _ Hin).
Qed.

Lemma KO_same s s' : archs s' = archs s -> deps s' = deps s -> KO s -> KO s'.
Proof. intros Ea Ed H ai a idx h Ha Hh. rewrite Ed. rewrite Ea in Ha. apply (H ai a idx h Ha Hh). Qed.

Lemma in_xrem k key : forall l, In (SCreate k key) (xrem l) -> exists sh, In (XCreate k key sh) l.
Proof.
  induction l as [|c t IH]; simpl; [intros []|]. destruct c as [k' m' sh'|k'|k'|k' c' v'|k' c']; simpl;
    try (intros H; destruct (IH H) as (sh & Hs); exists sh; right; exact Hs).
  intros [E|H]; [inversion E; subst; exists sh'; left; reflexivity|destruct (IH H) as (sh & Hs); exists sh; right; exact Hs].
Qed.

Lemma remlow_of_BL x : BL x -> remlow (xrem (concat (x_bufs x))).
Proof.
  intros HB k key Hin. apply in_xrem in Hin. destruct Hin as (sh & Hin). apply in_concat in Hin. destruct Hin as (b & Hb & Hc).
  unfold BL in HB. rewrite Forall_forall in HB. specialize (HB b Hb). rewrite Forall_forall in HB. exact (HB _ Hc).
Qed.

Lemma BL_push x tid xc : BL x -> xlow xc -> BL (x_push x tid xc).
Proof.
  intros HB Hc. unfold BL, x_push. simpl. apply Forall_upd; [exact HB|]. apply Forall_app. split; [|constructor; [exact Hc|constructor]].
  destruct (nth_in_or_default tid (x_bufs x) []) as [Hin|E]; [exact (proj1 (Forall_forall _ _) HB _ Hin)|rewrite E; constructor].
Qed.

Lemma BL_same x x' : x_bufs x' = x_bufs x -> BL x -> BL x'.
Proof. unfold BL. intros ->. auto. Qed.

Lemma BL_nil x : Forall (fun b => b = []) (x_bufs x) -> BL x.
Proof. intros H. unfold BL. eapply Forall_impl; [|exact H]. simpl. intros b ->. constructor. Qed.

(* ---------------------------------------------------------------------------------------- *)
(* frames of the unlocked structural operations when there is a table *)
Lemma get_arch_awf_d s m s1 ai : Forall awf (archs s) -> get_arch s m si_null = Ok (s1, ai) ->
  fr1 s1 = fr1 s /\ Forall awf (archs s1).
Proof.
  intros Hawf H. destruct (get_arch_ex _ _ _ _ _ H) as (exm & Hex). pose proof (get_arch_nd _ _ _ _ _ _ Hex H) as Hn.
  destruct (get_arch_awf (sd [] s) (munion m exm) (sd [] s1) ai eq_refl Hawf Hn) as (F & Hawf1 & _).
  split; [apply fr1_of_nd; [exact F|apply (get_arch_deps _ _ _ _ _ H)]|exact Hawf1].
Qed.

Lemma fr_unlocked_create_d s tid m via s' out : lockc s = 0 -> Forall awf (archs s) ->
  step s (OCreate tid m [] via) = Ok (s', out) -> fr4 s' = fr4 s /\ marked s' = marked s.
Proof.
  intros Hl Hawf H. rewrite (step_create_unlocked _ _ _ _ Hl) in H.
  bd H r Hga. destruct r as (s1, ai). cbv beta iota in H. bd H r2 Hcid. destruct r2 as (s2, h). cbv beta iota in H.
  bd H s3 Hins. inversion H; subst s' out; clear H.
  destruct (get_arch_awf_d _ _ _ _ Hawf Hga) as (F1 & Hawf1). destruct (create_id_frame _ _ _ Hcid) as (A2 & F2).
  assert (Hawf2 : Forall awf (archs s2)) by (rewrite A2; exact Hawf1).
  destruct (arch_insert_fr _ _ _ _ _ Hawf2 Hins) as (F3 & _).
  split.
  - rewrite (fr2_fr4 _ _ F3), (fr3_fr4 _ _ F2). apply fr1_fr4. exact F1.
  - rewrite (fr3_marked _ _ (fr2_fr3 _ _ F3)), (fr3_marked _ _ F2). apply fr3_marked, fr2_fr3, fr1_fr2. exact F1.
Qed.

Lemma fr_unlocked_assign_d s tid h c v typed s' out : lockc s = 0 -> Forall awf (archs s) ->
  step s (OAssign tid h c v typed) = Ok (s', out) -> fr4 s' = fr4 s /\ marked s' = marked s.
Proof.
  intros Hl Hawf H. rewrite (step_assign_unlocked _ _ _ _ _ _ Hl) in H. bd H inf Hinf.
  bd H r Hr. destruct r as (s2, ((ai, ci), slot)). cbv beta iota in H.
  assert (F2 : fr2 s2 = fr2 s).
  { unfold assign_unlocked in Hr. bd Hr la Hla. destruct la as (pai, pidx). cbv beta iota in Hr. bd Hr pa Hpa. apply nth_res_ok in Hpa.
    cbv zeta in Hr. destruct (awf_nth _ _ _ Hawf Hpa) as (Wsh & _). rewrite Wsh in Hr.
    bd Hr rg Hga. destruct rg as (sg, ai'). cbv beta iota in Hr. bd Hr s2' Hmv.
    destruct (get_arch_awf_d _ _ _ _ Hawf Hga) as (Fg & Hawfg). destruct (external_move_fr _ _ _ _ _ _ _ Hawfg Hmv) as (Fm & _).
    bd Hr a2 Ha2. bd Hr l2 Hl2. destruct (cindex (am_mask a2) c); [|discriminate]. inversion Hr; subst s2'.
    rewrite Fm. apply fr1_fr2. exact Fg. }
  assert (Hres : fr4 s2 = fr4 s /\ marked s2 = marked s) by (split; [apply fr2_fr4; exact F2|apply fr3_marked, fr2_fr3; exact F2]).
  destruct v as [|z]; [inversion H; subst; exact Hres|].
  bd H s3 Hw. assert (F3 : fr4 s3 = fr4 s2 /\ marked s3 = marked s2).
  { destruct (ci_hasval inf); [|inversion Hw; subst; auto]. apply write_cell_ok in Hw. destruct Hw as (a0 & _ & ->). auto. }
  destruct F3 as (F3 & M3). destruct Hres as (F & M).
  destruct typed; inversion H; subst s' out; [destruct (ci_aa inf), (ci_ev inf)|]; simpl marked; rewrite ?fr4_emit; split; congruence.
Qed.

Lemma fr_unlocked_remove_d s tid h c typed s' out : lockc s = 0 -> Forall awf (archs s) ->
  step s (ORemove tid h c typed) = Ok (s', out) -> fr4 s' = fr4 s /\ marked s' = marked s.
Proof.
  intros Hl Hawf H. rewrite (step_remove_unlocked _ _ _ _ _ Hl) in H.
  destruct (typed && negb (is_valid s h)); [inversion H; subst; auto|]. bd H s1 Hr. inversion H; subst s' out; clear H.
  assert (F2 : fr2 s1 = fr2 s).
  { unfold remove_unlocked in Hr. bd Hr l Hl0. destruct (l_arch l) as [pai|]; [|inversion Hr; reflexivity].
    bd Hr pa Hpa. apply nth_res_ok in Hpa. destruct (negb (mhas (am_mask pa) c)); [inversion Hr; reflexivity|].
    destruct (awf_nth _ _ _ Hawf Hpa) as (Wsh & _). rewrite Wsh in Hr.
    bd Hr rg Hga. destruct rg as (sg, ai). cbv beta iota in Hr.
    destruct (get_arch_awf_d _ _ _ _ Hawf Hga) as (Fg & Hawfg).
    destruct (Nat.eqb ai pai); [inversion Hr; subst; apply fr1_fr2; exact Fg|].
    destruct (external_move_fr _ _ _ _ _ _ _ Hawfg Hr) as (Fm & _). rewrite Fm. apply fr1_fr2. exact Fg. }
  split; [apply fr2_fr4; exact F2|apply fr3_marked, fr2_fr3; exact F2].
Qed.

(* the control fields of the model the relation reads besides the structure *)
Definition mctl (s : mst) := (lockc s, nthreads s, bufs s, tmps s, marked s).
Lemma mctl_of_fr4 s s' : fr4 s' = fr4 s -> marked s' = marked s -> mctl s' = mctl s.
Proof. intros F M. destruct (fr4_fields _ _ F) as (E1 & _ & _ & _ & E5 & E6 & E7 & _). unfold mctl. congruence. Qed.

Lemma mstep_unlocked_ctl_d cis typed s hs o s' hs' : lockc s = 0 -> Forall awf (archs s) -> alpha_d cis o = true ->
  mstep typed (s, hs) o = Ok (s', hs') -> mctl s' = mctl s /\ (hs' = hs \/ exists h, hs' = hs ++ [h]).
Proof.
  intros Hl Hawf Ha H. unfold mstep in H. bd H r Hst. destruct r as (s1, out). inversion H; subst s' hs'; clear H.
  assert (Hhs : (match out with RHandle h => hs ++ [h] | _ => hs end) = hs \/ exists h, (match out with RHandle h => hs ++ [h] | _ => hs end) = hs ++ [h])
    by (destruct out; eauto).
  split; [|exact Hhs]. change (mctl (set_log s1 [])) with (mctl s1).
  destruct o; simpl in Ha; try discriminate; cbn [concretize] in Hst.
  - apply andb_true_iff in Ha. destruct Ha as (Hs & _). destruct sids; [|discriminate].
    destruct (fr_unlocked_create_d _ _ _ _ _ _ Hl Hawf Hst). apply mctl_of_fr4; assumption.
  - destruct (fr_unlocked_destroy_now _ _ _ _ _ Hl Hawf Hst). apply mctl_of_fr4; assumption.
  - destruct (fr_unlocked_assign_d _ _ _ _ _ _ _ _ Hl Hawf Hst). apply mctl_of_fr4; assumption.
  - destruct (fr_unlocked_remove_d _ _ _ _ _ _ _ Hl Hawf Hst). apply mctl_of_fr4; assumption.
  - destruct (fr_getmut _ _ _ _ _ _ Hst). apply mctl_of_fr4; assumption.
  - rewrite step_dep in Hst. bd Hst s2 Hadd. inversion Hst; subst s1 out. unfold add_dependency in Hadd. bd Hadd exm Hex. inversion Hadd. reflexivity.
Qed.

Lemma xctl_step_unlocked_d cis x o : x_lock x = 0 -> alpha_d cis o = true -> xctl (x_step x o) = xctl x.
Proof.
  intros Hl Ha. destruct o; try (apply (xctl_step_unlocked cis x _ Hl Ha)); simpl in Ha.
  - unfold x_step. destruct (out_of_contract x _); [reflexivity|]. unfold x_step_in. rewrite Hl. rewrite xctl_create. reflexivity.
  - reflexivity.
Qed.

(* ---- the operations of the C13 alphabet while the manager is not locked ---- *)
Lemma DLR_DInv cis s hs x : DLR cis s hs x -> x_lock x = 0 -> exists al, DInv cis s hs al x.
Proof.
  intros [HR Hd Hw HK HB] Hl. destruct (LR_MInv _ _ _ _ HR Hl) as (al & HM). exists al. constructor; [exact HM|exact Hd|exact Hw|].
  eapply keys_of_KO; [apply LInv_of_MInv; exact HM|exact HK].
Qed.

Lemma DLR_unlocked_d cis typed s hs x o s' hs' :
  DLR cis s hs x -> cis_ok cis -> x_lock x = 0 -> alpha_d cis o = true -> x_viol x = 0 -> x_viol (x_step x o) = 0 ->
  (match o with XoDep _ _ => ents_closed (x_step x o) = true | _ => True end) ->
  mstep typed (s, hs) o = Ok (s', hs') -> within (length hs') -> DLR cis s' hs' (x_step x o).
Proof.
  intros HD Hok Hl Ha Hv0 Hv1 Hdecl H Hb. destruct (DLR_DInv _ _ _ _ HD Hl) as (al & HI).
  destruct (DInv_step cis typed s hs al x o s' hs' HI Hok Ha Hv0 Hv1 Hdecl H Hb) as (al' & HI').
  destruct HD as [HR Hdp Hdw HK HB].
  destruct HR as [_ Hlk Hn H3 Hux Hum Hcr Hmr _ Hcf].
  assert (Hlm : lockc s = 0) by (change (lockc s) with (lockc (nd s)); rewrite Hlk; exact Hl).
  assert (Hawf : Forall awf (archs s)) by exact (mi_awf _ _ _ _ _ (di_M _ _ _ _ _ HI)).
  destruct (mstep_unlocked_ctl_d cis typed s hs o s' hs' Hlm Hawf Ha H) as (Ec & Hhs). unfold mctl in Ec. inversion Ec as [[E1 E5 E6 E7 M]].
  destruct (xctl_fields _ _ (xctl_step_unlocked_d cis x o Hl Ha)) as (X1 & X2 & X3 & X4).
  destruct (F3_length _ _ _ _ H3) as (L1 & L2).
  pose proof (di_M _ _ _ _ _ HI') as HM'.
  assert (Hnil : xrem (concat (x_bufs (x_step x o))) = []) by (rewrite X2; change (x_bufs x) with (x_bufs (xnd x)); rewrite (all_nil_concat' _ (Hux Hl)); reflexivity).
  constructor.
  - constructor.
    + exists al'. change (x_bufs (xnd (x_step x o))) with (x_bufs (x_step x o)). rewrite Hnil. apply LInv_of_MInv. exact HM'.
    + change (lockc s' = x_lock (x_step x o)). rewrite E1, X1. exact Hlk.
    + change (nthreads s' = x_nthr (x_step x o)). rewrite E5, X3. exact Hn.
    + change (F3 (brel cis hs') (tmps s') (bufs s') (x_bufs (x_step x o))). rewrite E6, E7, X2. apply brel_nil_all; auto.
    + intros _. change (x_bufs (xnd (x_step x o))) with (x_bufs (x_step x o)). rewrite X2. auto.
    + intros _. change (bufs (nd s')) with (bufs s'). rewrite E6. auto.
    + change (x_bufs (xnd (x_step x o))) with (x_bufs (x_step x o)). rewrite Hnil. constructor.
    + change (MR hs' (marked s') (x_marked (x_step x o))). rewrite M, X4. destruct Hhs as [->|(h & ->)]; [exact Hmr|].
      pose proof (mi_G _ _ _ _ _ HM') as HG'.
      apply MR_app; [exact Hmr| |].
      * pose proof (g_hs_nodup HG') as Hnd. apply nodup_app_inv in Hnd. destruct Hnd as (_ & _ & Hd). intros Hin. apply (Hd h Hin). left. reflexivity.
      * intros E. apply (null_not_in _ _ _ _ HG'). apply in_or_app. right. left. exact E.
    + change (x_lock (xnd (x_step x o))) with (x_lock (x_step x o)). rewrite X1, Hl. intros E. congruence.
    + change (Forall mcf (bufs s')). rewrite E6. exact Hcf.
  - exact (di_deps _ _ _ _ _ HI').
  - exact (di_dwf _ _ _ _ _ HI').
  - eapply KO_of_keys; [apply LInv_of_MInv; exact HM'|exact (di_keys _ _ _ _ _ HI')].
  - eapply BL_same; [exact X2|exact HB].
Qed.

(* ---------------------------------------------------------------------------------------- *)
(* the alphabet: that of C05 (ManagerLockedMain.alphaL_b) with creation masks inside the 128 bits, plus declarations *)
Definition alphaL_d (cis : list cinfo) (o : xop) : bool :=
  match o with
  | XoCreate _ m sids _ => (match sids with [] => true | _ => false end) && lowmb m
  | XoDep c m => Nat.ltb c MASK_BITS && lowmb m
  | _ => alphaL_b cis o
  end.

Lemma alphaL_d_b cis o : alphaL_d cis o = true -> (forall c m, o <> XoDep c m) -> alphaL_b cis o = true.
Proof.
  intros Ha Hn. destruct o; simpl in *; try exact Ha.
  - apply andb_true_iff in Ha. tauto.
  - exfalso. apply (Hn c m). reflexivity.
Qed.

(* the masks of the recorded creations stay inside the 128 bits *)
Lemma BL_step cis x o : alphaL_d cis o = true -> BL x -> BL (x_step x o).
Proof.
  intros Ha HB. unfold x_step. destruct (out_of_contract x o); [exact HB|].
  destruct o; simpl in Ha; try discriminate; unfold x_step_in.
  - apply andb_true_iff in Ha. destruct Ha as (_ & Hlm). apply lowmb_ok in Hlm. destruct (x_lock x).
    + eapply BL_same; [|exact HB]. pose proof (xctl_create (xw_count x (S (x_count x))) (x_count x) m (map (fun sid => (sid, 0%Z)) sids)) as E.
      apply xctl_fields in E. destruct E as (_ & E & _). exact E.
    + apply BL_push; [exact HB|exact Hlm].
  - destruct (negb (issued_b x k)); [exact HB|]. destruct (x_lock x); [exact HB|apply BL_push; [exact HB|exact I]].
  - destruct (negb (issued_b x k)); [exact HB|]. destruct (x_lock x); [|apply BL_push; [exact HB|exact I]].
    eapply BL_same; [|exact HB]. apply (xctl_fields _ _ (xctl_kill x k)).
  - eapply BL_same; [|exact HB]. pose proof (xfr_fold_kill (x_marked x) x) as F. apply (f_equal x_bufs) in F. exact F.
  - destruct (x_lock x); [|exact HB]. unfold BL. simpl. apply Forall_resize; [exact HB|constructor].
  - destruct (x_lock (xw_lock x (pred (x_lock x)))); [|exact HB]. apply BL_nil. unfold x_flush. simpl. apply all_nil_map_nil.
  - destruct (negb (issued_b x k)); [exact HB|]. destruct (x_lock x); [|apply BL_push; [exact HB|exact I]].
    eapply BL_same; [|exact HB]. apply (xctl_fields _ _ (xctl_assign x k c v)).
  - destruct (negb (issued_b x k)); [exact HB|]. destruct (x_lock x); [|apply BL_push; [exact HB|exact I]].
    eapply BL_same; [|exact HB]. apply (xctl_fields _ _ (xctl_remove x k c)).
  - destruct (find_ent x k) as [e|]; [|exact HB]. destruct (has_comp (e_comps e) c); exact HB.
  - exact HB.
Qed.

(* destroyNow of handles that are issued or null: the sets of the archetypes that keep members stay closed *)
Lemma keys_destroy_list cis hs rem d : forall m s al x0 s',
  LInv cis (nd s) hs al rem x0 -> keysok d al -> within (length hs) -> (forall h, In h m -> h = null_handle \/ In h hs) ->
  fold_res destroy_now_unlocked m s = Ok s' -> exists al' x1, LInv cis (nd s') hs al' rem x1 /\ keysok d al'.
Proof.
  induction m as [|h m IH]; intros s al x0 s' HI Hk Hb Hm H.
  - simpl in H. inversion H; subst s'. eauto.
  - simpl in H. bd H s1 Hd. destruct (Hm h (or_introl eq_refl)) as [->|Hin].
    + rewrite destroy_now_null in Hd. inversion Hd; subst s1. apply (IH s al x0 s' HI Hk Hb (fun h' Hh' => Hm h' (or_intror Hh')) H).
    + destruct (In_hnd _ _ Hin) as (k & Hkk & Eh). rewrite <- Eh in Hd.
      assert (Hd' : destroy_now_unlocked (nd s) (hnd hs k) = Ok (nd s1)) by (unfold nd; rewrite destroy_now_unlocked_sd, (rmap_ok _ _ _ Hd); reflexivity).
      destruct (LInv_destroy_now cis (nd s) hs al rem x0 k (nd s1) HI Hb Hkk Hd') as (HI1 & _).
      apply (IH s1 _ _ s' HI1 (keysok_kill _ _ _ Hk) Hb (fun h' Hh' => Hm h' (or_intror Hh')) H).
Qed.

(* ---- the operations that commute with the erasure of the table ---- *)
Lemma DLR_ndt_step cis typed s hs x o s' hs' :
  DLR cis s hs x -> cis_ok cis -> ndt s o -> alphaL_d cis o = true -> x_viol x = 0 -> x_viol (x_step x o) = 0 ->
  mstep typed (s, hs) o = Ok (s', hs') -> within (length hs') -> DLR cis s' hs' (x_step x o).
Proof.
  intros HD Hok Hn Ha Hv0 Hv1 H Hb. pose proof HD as [HR Hdp Hdw HK HB].
  assert (Hlk : lockc s = x_lock x) by exact (lr_lock _ _ _ _ HR).
  assert (Hxn : xndt x o).
  { destruct o; simpl in Hn |- *; try exact Hn; try (rewrite <- Hlk; tauto). }
  assert (Hab : alphaL_b cis o = true) by (apply alphaL_d_b; [exact Ha|intros c m ->; exact Hn]).
  destruct (mstep_nd typed s hs o s' hs' Hn H) as (Hnd & Hds).
  assert (HR' : LR cis (nd s') hs' (xnd (x_step x o))).
  { rewrite <- (x_step_xnd x o Hxn). apply (LR_step cis typed (nd s) hs (xnd x) o (nd s') hs' HR Hok Hab Hv0); [|exact Hnd|exact Hb].
    rewrite (x_step_xnd x o Hxn). exact Hv1. }
  assert (Hb0 : within (length hs)) by (eapply within_le; [eapply mstep_mono; exact H|exact Hb]).
  constructor; [exact HR'|rewrite Hds, (x_deps_xndt x o Hxn); exact Hdp|rewrite Hds; exact Hdw| |apply (BL_step cis); assumption].
  (* the closed sets *)
  destruct (lr_inv _ _ _ _ HR) as (al & HI). pose proof (keys_of_KO _ _ _ _ _ _ HI HK) as Hko.
  unfold mstep in H. bd H r Hst. destruct r as (s1, out). inversion H; subst s' hs'; clear H.
  assert (Hsame : archs s1 = archs s -> KO (set_log s1 [])).
  { intros Ea. apply (KO_same s); [exact Ea|exact Hds|exact HK]. }
  assert (Hiso : lockc s <> 0 -> ManagerIsolation.is_structural (concretize typed hs o) = true -> KO (set_log s1 [])).
  { intros Hl Hs. apply Hsame. pose proof (ManagerIsolation.isolation_while_locked s _ s1 out Hl Hs Hst) as E.
    apply (f_equal ManagerIsolation.ob_archs) in E. exact E. }
  assert (Hlist : forall s0 m s2, archs s0 = archs s -> slots s0 = slots s -> locs s0 = locs s -> next_slot s0 = next_slot s -> empty_slots s0 = empty_slots s ->
            deps s0 = deps s -> cinfos s0 = cinfos s -> (forall h, In h m -> h = null_handle \/ In h hs) ->
            fold_res destroy_now_unlocked m s0 = Ok s2 -> archs s1 = archs s2 -> KO (set_log s1 [])).
  { intros s0 m s2 A1 A2 A3 A4 A5 A6 A7 Hm Hf Ea.
    assert (HI0 : LInv cis (nd s0) hs al (xrem (concat (x_bufs (xnd x)))) (xnd x)) by (eapply LInv_frame; [| | | | | | |exact HI]; simpl; congruence).
    destruct (keys_destroy_list cis hs _ (deps s) m s0 al _ s2 HI0 Hko Hb0 Hm Hf) as (al' & x1 & HI2 & Hk2).
    assert (HK2 : KO s2).
    { apply (KO_of_keys cis s2 hs al' _ x1 HI2). assert (E : deps s2 = deps s0) by (apply (comm_deps (fun st => fold_res destroy_now_unlocked m st)); [|exact Hf];
        intros d0; apply fold_res_sd; intros st h0; apply destroy_now_unlocked_sd). rewrite E, A6. exact Hk2. }
    intros ai a idx h Ha' Hh'. simpl in Ha'. rewrite Ea in Ha'. change (deps (set_log s1 [])) with (deps s1). simpl in Hds. rewrite Hds.
    assert (E : deps s2 = deps s) by (rewrite <- A6; apply (comm_deps (fun st => fold_res destroy_now_unlocked m st)); [|exact Hf];
        intros d0; apply fold_res_sd; intros st h0; apply destroy_now_unlocked_sd).
    rewrite <- E. apply (HK2 ai a idx h Ha' Hh'). }
  destruct o; simpl in Hn; try contradiction; cbn [concretize] in Hst.
  - destruct Hn as (Hl & -> & ->). apply Hiso; [exact Hl|reflexivity].
  - (* destroy *)
    destruct (lockc s) as [|n] eqn:El.
    + cbn [step] in Hst. rewrite El in Hst. inversion Hst; subst s1 out. apply Hsame. reflexivity.
    + apply Hiso; [congruence|reflexivity].
  - (* destroyNow *)
    destruct (lockc s) as [|n] eqn:El.
    + rewrite (step_destroy_now_unlocked _ _ _ El) in Hst. bd Hst s2 Hdn. inversion Hst; subst s1 out. rewrite resolve_hnd in Hdn.
      apply (Hlist s [hnd hs k] s2); try reflexivity.
      * intros h [<-|[]]. destruct (Nat.lt_ge_cases k (length hs)) as [Hk|Hk]; [right; apply nth_In_hnd; exact Hk|left; apply hnd_beyond; exact Hk].
      * simpl. rewrite Hdn. reflexivity.
    + apply Hiso; [congruence|reflexivity].
  - (* update *)
    destruct (lockc s) as [|n] eqn:El.
    + rewrite (step_update_unlocked _ El) in Hst. bd Hst s2 Hf. inversion Hst; subst s1 out.
      apply (Hlist (set_wv (inc_wv s) (wv (inc_wv s)) (Some (wv (inc_wv s)))) (marked s) s2); try reflexivity; [|exact Hf].
      destruct (lr_mr _ _ _ _ HR) as (M1 & _). exact M1.
    + exfalso. unfold x_step in Hv1. simpl out_of_contract in Hv1. rewrite <- Hlk in Hv1. simpl in Hv1. lia.
  - cbn [step] in Hst. inversion Hst; subst s1 out. apply Hsame. unfold do_lock. destruct (lockc s); reflexivity.
  - destruct Hn as (n & Hl). rewrite (ManagerIsolation.nested_unlock_does_not_flush s n Hl) in Hst. inversion Hst; subst s1 out. apply Hsame. reflexivity.
  - apply Hiso; [exact Hn|reflexivity].
  - apply Hiso; [exact Hn|reflexivity].
  - (* write through getComponent *)
    rewrite resolve_hnd in Hst. simpl in Ha. apply Nat.ltb_lt in Ha.
    assert (Hst' : step (nd s) (OGetMut (hnd hs k) c (Some v)) = Ok (nd s1, out)).
    { change (get_mut (nd s) (hnd hs k) c (Some v) = Ok (nd s1, out)). unfold nd. rewrite get_mut_sd. change (get_mut s (hnd hs k) c (Some v)) with (step s (OGetMut (hnd hs k) c (Some v))). rewrite Hst. reflexivity. }
    destruct (LInv_set cis (nd s) hs al _ (xnd x) k c v (nd s1) out HI Ha Hst') as (HI1 & _).
    apply (KO_same s1); [reflexivity|reflexivity|]. apply (KO_of_keys cis s1 hs al _ _ HI1). simpl in Hds. rewrite Hds. exact Hko.
Qed.

(* ---------------------------------------------------------------------------------------- *)
(* create(Archetype&) under lock: the driver fetches the archetype first and the recorded mask is the archetype's; the
   specification records the requested mask -- the same when the requested set is closed *)
Lemma DLR_create_via cis typed s hs x tid m s' hs' n :
  DLR cis s hs x -> cis_ok cis -> x_lock x = S n -> lowmb m = true -> closure (x_deps x) m = m -> x_viol x = 0 ->
  x_viol (x_step x (XoCreate tid m [] true)) = 0 -> within (length hs') ->
  mstep typed (s, hs) (XoCreate tid m [] true) = Ok (s', hs') -> DLR cis s' hs' (x_step x (XoCreate tid m [] true)).
Proof.
  intros HD Hok El Hlm Hclm Hv0 Hv1 Hb H. pose proof HD as [HR Hdp Hdw HK HB].
  assert (Hlk : lockc s = S n) by (rewrite <- El; exact (lr_lock _ _ _ _ HR)).
  unfold mstep in H. bd H r Hst. destruct r as (s1, out). cbn [concretize] in Hst.
  unfold step, make_shared_info in Hst. cbn [fold_res] in Hst. rewrite bind_Ok in Hst. cbv beta iota in Hst. rewrite Hlk in Hst.
  bd Hst rg Hga. destruct rg as (sg, ai). cbv beta iota in Hst. bd Hst a Ha. bd Hst r2 Hcl. destruct r2 as (s2, h).
  inversion Hst; subst s1 out; clear Hst. inversion H; subst s' hs'; clear H. simpl fst. simpl snd.
  destruct (get_arch_ex _ _ _ _ _ Hga) as (exm & Hex).
  assert (Em : munion m exm = m) by (rewrite <- (closure_eq s m exm Hdw Hex), Hdp; exact Hclm).
  assert (Hga' : get_arch (nd s) m si_null = Ok (nd sg, ai)) by (rewrite <- Em at 1; apply get_arch_nd; assumption).
  pose proof (get_arch_deps _ _ _ _ _ Hga) as Hdg.
  assert (Hcl' : create_locked (nd sg) tid (am_mask a) (am_shared a) = Ok (nd s2, h)).
  { unfold nd. rewrite create_locked_sd, (rmap_ok _ _ _ Hcl). reflexivity. }
  assert (Hnd : mstep typed (nd s, hs) (XoCreate tid m [] true) = Ok (nd (set_log s2 []), hs ++ [h])).
  { unfold mstep. cbn [concretize]. unfold step, make_shared_info. cbn [fold_res]. rewrite bind_Ok. cbv beta iota.
    change (lockc (nd s)) with (lockc s). rewrite Hlk, Hga', bind_Ok. cbv beta iota.
    change (archs (nd sg)) with (archs sg). rewrite Ha, bind_Ok, Hcl', bind_Ok. reflexivity. }
  assert (Hxn : xndt x (XoCreate tid m [] true)) by (simpl; congruence).
  assert (HR' : LR cis (nd (set_log s2 [])) (hs ++ [h]) (xnd (x_step x (XoCreate tid m [] true)))).
  { rewrite <- (x_step_xnd x _ Hxn). apply (LR_step cis typed (nd s) hs (xnd x) (XoCreate tid m [] true) _ _ HR Hok eq_refl Hv0); [|exact Hnd|exact Hb].
    rewrite (x_step_xnd x _ Hxn). exact Hv1. }
  destruct (ManagerDeferred.create_locked_spec _ _ _ _ _ _ Hcl) as (_ & b & _ & Es2).
  assert (Hd2 : deps (set_log s2 []) = deps s) by (rewrite Es2; simpl; exact Hdg).
  constructor; [exact HR'|rewrite Hd2, (x_deps_xndt x _ Hxn); exact Hdp|rewrite Hd2; exact Hdw| |apply (BL_step cis); [simpl; exact Hlm|exact HB]].
  - destruct (lr_inv _ _ _ _ HR) as (al & HI). pose proof (keys_of_KO _ _ _ _ _ _ HI HK) as Hko.
    destruct (LInv_get_arch cis (nd s) hs al _ (xnd x) m (nd sg) ai HI Hga') as (HIg & _).
    apply (KO_same sg); [rewrite Es2; reflexivity|rewrite Es2; reflexivity|]. apply (KO_of_keys cis sg hs al _ _ HIg). rewrite Hdg. exact Hko.
Qed.

(* ---------------------------------------------------------------------------------------- *)
(* THE FLUSH with a table: from related states, the flush of the recorded buffers reaches the state the specification's
   x_flush reaches, provided every buffer satisfies the pack condition buf_ok and no command leaves the contract *)
Theorem flush_faithful_d cis s hs x s' :
  DLR cis s hs x -> cis_ok cis -> within (length hs) -> forallb (buf_ok (x_deps x) None []) (x_bufs x) = true ->
  x_viol (x_flush (xw_lock x 0)) = x_viol x ->
  flush (set_lock s 0) = Ok s' -> DLR cis s' hs (x_flush (xw_lock x 0)).
Proof.
  intros HD Hok Hb Hbo Hviol H. pose proof HD as [HR Hdp Hdw HK HB].
  pose proof HR as [(al & HI) Hlk Hn H3 Hux Hum Hcr Hmr He Hcf].
  unfold flush in H. bd H s1 Hfold. inversion H; subst s'; clear H.
  change (bufs (set_lock s 0)) with (bufs s) in Hfold.
  assert (Hviol' : x_viol (fold_left (fun st b => fold_left x_cmd b st) (x_bufs x) (xw_lock x 0)) = x_viol (xw_lock x 0)) by exact Hviol.
  unfold x_flush. change (x_bufs (xw_lock x 0)) with (x_bufs x).
  remember (xw_lock x 0) as x1 eqn:Ex1 in *.
  assert (Eb1 : x_bufs x1 = x_bufs x) by (rewrite Ex1; reflexivity).
  remember (fold_left (fun st b => fold_left x_cmd b st) (x_bufs x) x1) as xf eqn:Exf in *.
  assert (Hids : forall h, In h hs -> N.to_nat (fst h) < length hs).
  { intros h Hin. destruct (Nat.eq_dec (x_lock x) 0) as [E0|Hne].
    - rewrite (LR_rem_nil _ _ _ _ HR E0) in HI. destruct (In_hnd _ _ Hin) as (k & Hk & <-).
      pose proof (ids_in_range _ hs _ k (li_G _ _ _ _ _ _ HI) Hk) as Hr. simpl in Hr. rewrite map_length in Hr.
      pose proof (li_slots _ _ _ _ _ _ HI) as Hsl. simpl in Hsl. exact (Nat.lt_le_trans _ _ _ Hr Hsl).
    - destruct (He Hne) as (_ & E2 & E3). pose proof (E3 h Hin) as E4. simpl in E2, E4. clear - E2 E4. lia. }
  assert (HF : DFInv cis (set_lock s 0) hs x1 (xrem (concat (x_bufs x)))).
  { constructor; [|exact Hcr|rewrite Ex1; exact Hmr|exact Hids].
    exists al. constructor.
    - rewrite Ex1. eapply LInv_ext; [eapply LInv_frame; [| | | | | | |exact HI]; reflexivity| | | |]; reflexivity.
    - rewrite Ex1. exact Hdp.
    - exact Hdw.
    - exact (keys_of_KO _ _ _ _ _ _ HI HK).
    - apply remlow_of_BL. exact HB. }
  assert (Ed1 : x_deps x1 = x_deps x) by (rewrite Ex1; reflexivity).
  destruct (F_buffers_d cis hs (bufs s) (tmps s) (x_bufs x) 0 (set_lock s 0) x1 s1 H3 Hcf) as (HF1 & F1); try assumption.
  { intros j tl Hj. exact Hj. }
  { rewrite Ed1. exact Hbo. }
  { rewrite <- Exf. exact Hviol'. }
  rewrite <- Exf in HF1. destruct HF1 as [(al1 & [HI1 D1 W1 K1 R1]) _ Hmr1 _].
  pose proof (xc3_bufs (x_bufs x) x1) as Ex. rewrite <- Exf in Ex. unfold xc3 in Ex. inversion Ex as [[X1 X2 X3]].
  destruct (fr4_fields _ _ F1) as (E1 & _ & _ & _ & E5 & E6 & E7 & _).
  destruct (F3_length _ _ _ _ H3) as (L1 & L2). simpl in L1, L2, E1, E5, E6, E7.
  assert (Exl : x_lock x1 = 0) by (rewrite Ex1; reflexivity).
  constructor.
  - constructor; simpl.
    + exists al1. rewrite xrem_map_nil. eapply LInv_ext; [eapply LInv_frame; [| | | | | | |exact HI1]; reflexivity| | | |]; reflexivity.
    + rewrite E1, X1, Exl. reflexivity.
    + rewrite E5, X3, Ex1. exact Hn.
    + apply brel_nil_all; rewrite ?map_length; [rewrite E7, E6; exact L1|rewrite E6, X2, Eb1; exact L2|apply all_nil_map_nil|apply all_nil_map_nil].
    + intros _. apply all_nil_map_nil.
    + intros _. apply all_nil_map_nil.
    + rewrite xrem_map_nil. constructor.
    + exact Hmr1.
    + rewrite X1, Exl. intros E. congruence.
    + apply all_nil_mcf. apply all_nil_map_nil.
  - simpl. exact D1.
  - simpl. exact W1.
  - apply (KO_same s1); [reflexivity|reflexivity|]. exact (KO_of_keys _ _ _ _ _ _ HI1 K1).
  - apply BL_nil. simpl. apply all_nil_map_nil.
Qed.

Lemma DLR_set_log cis s hs x l : DLR cis s hs x -> DLR cis (set_log s l) hs x.
Proof.
  intros [HR A B C D]. constructor; try assumption. exact (LR_set_log cis (nd s) hs (xnd x) l HR).
Qed.

Lemma DLR_unlock_flush cis typed s hs x s' hs' :
  DLR cis s hs x -> cis_ok cis -> pred (x_lock x) = 0 -> within (length hs) ->
  forallb (buf_ok (x_deps x) None []) (x_bufs x) = true ->
  x_viol (x_step x XoUnlock) = x_viol x ->
  mstep typed (s, hs) XoUnlock = Ok (s', hs') -> hs' = hs /\ DLR cis s' hs (x_step x XoUnlock).
Proof.
  intros HD Hok Hp Hb Hbo Hv H. unfold mstep in H. cbn [concretize] in H. bd H r Hst. destruct r as (s1, out).
  unfold step in Hst. bd Hst r Hd. inversion Hst; subst r; clear Hst. unfold do_unlock in Hd. cbn [lockc set_lock] in Hd.
  assert (Hlk : lockc s = x_lock x) by exact (lr_lock _ _ _ _ (dr_L _ _ _ _ HD)).
  rewrite Hlk, Hp in Hd. bd Hd s2 Hfl. inversion Hd; subst s1 out; clear Hd. inversion H; subst s' hs'; clear H.
  split; [reflexivity|].
  assert (Ex : x_step x XoUnlock = x_flush (xw_lock x 0)).
  { unfold x_step. simpl out_of_contract. cbv iota. unfold x_step_in. rewrite Hp. reflexivity. }
  rewrite Ex in *. apply DLR_set_log. apply (flush_faithful_d cis s hs x s2 HD Hok Hb Hbo Hv Hfl).
Qed.

(* ---------------------------------------------------------------------------------------- *)
(* the side conditions on a script (checked along the run of the specification):
   - a declaration is made while the manager is not locked and leaves every live entity closed (as in C13_entity_level);
   - create(Archetype&) under lock names a closed set (the archetype's mask is what is recorded);
   - at an outermost unlock every buffer satisfies the pack condition *)
Definition op_ok (x : xst) (o : xop) : bool :=
  match o with
  | XoDep _ _ => Nat.eqb (x_lock x) 0 && ents_closed (x_step x o)
  | XoCreate _ m _ via => Nat.eqb (x_lock x) 0 || negb via || N.eqb (closure (x_deps x) m) m
  | XoUnlock => Nat.ltb 1 (x_lock x) || forallb (buf_ok (x_deps x) None []) (x_bufs x)
  | _ => true
  end.
Fixpoint sched_ok (x : xst) (ops : list xop) : bool :=
  match ops with [] => true | o :: t => op_ok x o && sched_ok (x_step x o) t end.

Lemma x_viol_stepD_mono cis x o : alphaL_d cis o = true -> x_viol x <= x_viol (x_step x o).
Proof.
  intros Ha. destruct o; try (apply (x_viol_stepL_mono cis); exact Ha).
  - unfold x_step. destruct (out_of_contract x _); [simpl; lia|]. unfold x_step_in.
    destruct (x_lock x); [rewrite x_viol_create|rewrite x_viol_push]; simpl; lia.
  - unfold x_step. simpl. lia.
Qed.

Lemma x_viol_runD_mono cis : forall ops x, forallb (alphaL_d cis) ops = true -> x_viol x <= x_viol (fold_left x_step ops x).
Proof.
  induction ops as [|o t IH]; intros x Ha; simpl in *; [lia|]. apply andb_true_iff in Ha. destruct Ha as (Ho & Ht).
  pose proof (x_viol_stepD_mono cis x o Ho). pose proof (IH (x_step x o) Ht). lia.
Qed.

Lemma alphaL_d_alpha_d cis o : alphaL_d cis o = true ->
  match o with XoCreate _ _ _ _ | XoDestroyNow _ _ | XoAssign _ _ _ _ | XoRemove _ _ _ _ | XoSet _ _ _ | XoDep _ _ => alpha_d cis o = true | _ => True end.
Proof. destruct o; simpl; auto. Qed.

(* ---- one step ---- *)
Lemma DLR_step cis typed s hs x o s' hs' :
  DLR cis s hs x -> cis_ok cis -> alphaL_d cis o = true -> op_ok x o = true -> x_viol x = 0 -> x_viol (x_step x o) = 0 ->
  mstep typed (s, hs) o = Ok (s', hs') -> within (length hs') -> DLR cis s' hs' (x_step x o).
Proof.
  intros HD Hok Ha Hop Hv0 Hv1 H Hb.
  assert (Hb0 : within (length hs)) by (eapply within_le; [eapply mstep_mono; exact H|exact Hb]).
  assert (Hve : x_viol (x_step x o) = x_viol x) by congruence.
  assert (Hlk : lockc s = x_lock x) by exact (lr_lock _ _ _ _ (dr_L _ _ _ _ HD)).
  pose proof (alphaL_d_alpha_d cis o Ha) as Had.
  assert (Hndt : ndt s o -> DLR cis s' hs' (x_step x o)).
  { intros Hn. apply (DLR_ndt_step cis typed s hs x o s' hs' HD Hok Hn Ha Hv0 Hv1 H Hb). }
  assert (Hunl : x_lock x = 0 -> alpha_d cis o = true -> (match o with XoDep _ _ => ents_closed (x_step x o) = true | _ => True end) ->
                 DLR cis s' hs' (x_step x o)).
  { intros El A B. apply (DLR_unlocked_d cis typed s hs x o s' hs' HD Hok El A Hv0 Hv1 B H Hb). }
  assert (Hfl : o = XoUnlock -> pred (x_lock x) = 0 -> DLR cis s' hs' (x_step x o)).
  { intros -> Hp. destruct (DLR_unlock_flush cis typed s hs x s' hs' HD Hok Hp Hb0) as (-> & HD'); [|exact Hve|exact H|exact HD'].
    simpl in Hop. destruct (x_lock x) as [|[|n]]; simpl in Hop, Hp; [exact Hop|exact Hop|discriminate]. }
  destruct (x_lock x) as [|n] eqn:El.
  - (* not locked *)
    destruct o; try (simpl in Ha; discriminate).
    + apply Hunl; [reflexivity|exact Had|exact I].
    + apply Hndt. exact I.
    + apply Hunl; [reflexivity|exact Had|exact I].
    + apply Hndt. exact I.
    + apply Hndt. exact I.
    + apply Hfl; reflexivity.
    + apply Hunl; [reflexivity|exact Had|exact I].
    + apply Hunl; [reflexivity|exact Had|exact I].
    + apply Hunl; [reflexivity|exact Had|exact I].
    + simpl in Hop. rewrite El in Hop. simpl in Hop. apply Hunl; [reflexivity|exact Had|exact Hop].
  - (* locked *)
    assert (Hl : lockc s <> 0) by congruence.
    destruct o; try (simpl in Ha; discriminate).
    + simpl in Ha. apply andb_true_iff in Ha. destruct Ha as (Hs & Hlm). destruct sids; [|discriminate]. destruct via_arch.
      * simpl in Hop. rewrite El in Hop. simpl in Hop. apply N.eqb_eq in Hop.
        apply (DLR_create_via cis typed s hs x tid m s' hs' n HD Hok El Hlm Hop Hv0 Hv1 Hb H).
      * apply Hndt. simpl. auto.
    + apply Hndt. exact I.
    + apply Hndt. exact I.
    + apply Hndt. exact I.
    + apply Hndt. exact I.
    + destruct n as [|n]; [apply Hfl; reflexivity|]. apply Hndt. simpl. exists n. congruence.
    + apply Hndt. exact Hl.
    + apply Hndt. exact Hl.
    + apply Hndt. exact I.
    + exfalso. simpl in Hop. rewrite El in Hop. discriminate.
Qed.

Lemma DLR_run cis typed : forall ops s hs x s' hs',
  DLR cis s hs x -> cis_ok cis -> forallb (alphaL_d cis) ops = true -> sched_ok x ops = true -> x_viol x = 0 ->
  x_viol (fold_left x_step ops x) = 0 ->
  fold_res (mstep typed) ops (s, hs) = Ok (s', hs') -> within (length hs') ->
  DLR cis s' hs' (fold_left x_step ops x).
Proof.
  induction ops as [|o t IH]; intros s hs x s' hs' HR Hok Ha Hso Hv0 Hv1 H Hb; simpl in *.
  - inversion H; subst. exact HR.
  - apply andb_true_iff in Ha. destruct Ha as (Ho & Ht). apply andb_true_iff in Hso. destruct Hso as (Hs1 & Hs2). bd H r H1. destruct r as (s1, hs1).
    assert (Hv1' : x_viol (x_step x o) = 0).
    { pose proof (x_viol_runD_mono cis t (x_step x o) Ht). lia. }
    assert (HR1 : DLR cis s1 hs1 (x_step x o)).
    { apply (DLR_step cis typed s hs x o s1 hs1 HR Hok Ho Hs1 Hv0 Hv1' H1). eapply within_le; [|exact Hb]. eapply mrun_mono. exact H. }
    apply (IH s1 hs1 (x_step x o) s' hs' HR1 Hok Ht Hs2 Hv1' Hv1 H Hb).
Qed.

Lemma DLR_init n cis : DLR cis (init n cis) [] (x_init n cis).
Proof.
  constructor.
  - exact (LR_init n cis).
  - reflexivity.
  - apply dwf_nil.
  - intros ai a idx h Ha. destruct ai; discriminate.
  - constructor.
Qed.
