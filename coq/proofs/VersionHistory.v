(* History-level statements of C07 (no miss) and C11 (quiescent, chunk-precise) over operation sequences of the
   Manager model.

   Alphabet (vop): world.update() / entity-manager update(), mutable component access, markDirty, const access,
   has-component, runs of jobs (no callback actions, both run modes) and -- the one structural change covered --
   createEntity while unlocked.  Entities are never destroyed or moved.  Jobs live in a small driver state: a list of
   job records whose j_last is replaced by the `last` of the RJob result after every run, exactly as the OCaml driver
   does (ocaml/driver.ml, "runjob": `{ jb with j_last = last }`).
   Every history theorem assumes that the world version cannot reach its null value 2^32-1 within the script (it grows
   by at most one per operation), so that the model's (wv + 1) mod 2^32 is wv + 1.

   Part 1   archetype-level facts: what the stamping primitives and the filter do to the invariant of one archetype
   Part 2   what each operation of the alphabet does to a state (effect lemmas over Manager.step)
   Part 3   the driver state, the invariant VInv of every run and the frame
   Part 3b  createEntity (unlocked): create_effect
            vstep_inv (one operation), vrun_inv (scripts)
   Part 4a  run_handed_char: which entities a run hands to the job
   Part 4b  C07 over histories (mutable access / markDirty)
   Part 5a  C11 over histories: quiescence
   Part 5b  C11 over histories: chunk precision (stamped_in, op_stamps)
   Part 4c  C07 for components written by another job
            the population (setup from Manager.init), the theorems from the initial state, C07 for created entities *)
Require Import Coq.Lists.List Coq.NArith.NArith Coq.ZArith.ZArith Coq.Arith.Arith Coq.Bool.Bool Coq.micromega.Lia.
From Mustache Require Import Res Iter Manager.
From Mustache.proofs Require Import ListLemmas SkelBasics ClosureProofs ManagerBasics ManagerMoves ManagerDeferred
  IterProofs IterCover VersionProofs.
Import ListNotations.

(* ------------------------------------------------------------------------------------------ *)
(* generic facts                                                                               *)
Lemma Forall2_refl' {A} (R : A -> A -> Prop) l : (forall x, R x x) -> Forall2 R l l.
Proof. intro H. induction l; constructor; auto. Qed.

Lemma Forall2_trans' {A} (R : A -> A -> Prop) : (forall x y z, R x y -> R y z -> R x z) ->
  forall l1 l2 l3, Forall2 R l1 l2 -> Forall2 R l2 l3 -> Forall2 R l1 l3.
Proof.
  intros HT l1 l2 l3 H12. revert l3. induction H12 as [|x y t1 t2 Hxy Ht IH]; intros l3 H23; inversion H23; subst; constructor.
  - eapply HT; eassumption.
  - apply IH. assumption.
Qed.

Lemma Forall2_upd_r {A} (R : A -> A -> Prop) l i a a' :
  (forall x, R x x) -> nth_error l i = Some a -> R a a' -> Forall2 R l (upd l i a').
Proof.
  intros Hr. revert i. induction l as [|x t IH]; intros [|i] Hn Ha; simpl in *; try discriminate.
  - inversion Hn; subst. constructor; [assumption|apply Forall2_refl'; assumption].
  - constructor; [apply Hr|apply IH; assumption].
Qed.

Lemma Forall2_nth_l {A} (R : A -> A -> Prop) l l' i a :
  Forall2 R l l' -> nth_error l i = Some a -> exists a', nth_error l' i = Some a' /\ R a a'.
Proof.
  intros H. revert i. induction H as [|x y t t' Hxy Ht IH]; intros [|i] Hn; simpl in *; try discriminate.
  - inversion Hn; subst. eauto.
  - apply IH. assumption.
Qed.

Lemma Forall2_nth_r {A} (R : A -> A -> Prop) l l' i a' :
  Forall2 R l l' -> nth_error l' i = Some a' -> exists a, nth_error l i = Some a /\ R a a'.
Proof.
  intros H. revert i. induction H as [|x y t t' Hxy Ht IH]; intros [|i] Hn; simpl in *; try discriminate.
  - inversion Hn; subst. eauto.
  - apply IH. assumption.
Qed.

Lemma Forall_upd_nth {A} (P : A -> Prop) l i x : Forall P l -> P x -> Forall P (upd l i x).
Proof. apply Forall_upd. Qed.

Lemma Forall_nth_error {A} (P : A -> Prop) l i a : Forall P l -> nth_error l i = Some a -> P a.
Proof. intros H Hn. rewrite Forall_forall in H. apply H. eapply nth_error_In. eassumption. Qed.

Lemma row_pos_unique nc k i k' i' : i < nc -> i' < nc -> nc * k + i = nc * k' + i' -> k = k' /\ i = i'.
Proof.
  intros Hi Hi' E.
  assert (Hk : k = k').
  { destruct (Nat.lt_trichotomy k k') as [L|[L|L]]; [|assumption|]; exfalso.
    - assert (nc * S k <= nc * k') by (apply Nat.mul_le_mono_l; lia). lia.
    - assert (nc * S k' <= nc * k) by (apply Nat.mul_le_mono_l; lia). lia. }
  subst k'. split; [reflexivity|lia].
Qed.

Definition le_all (w : N) (l : list N) : Prop := Forall (fun x => (x <= w)%N) l.

Lemma le_all_mono w w' l : (w <= w')%N -> le_all w l -> le_all w' l.
Proof. intros H. apply Forall_impl. intros x Hx. eapply N.le_trans; eassumption. Qed.

Lemma le_all_nth w l p : le_all w l -> (nth p l 0 <= w)%N.
Proof. apply nth_Forall_le. Qed.

(* ------------------------------------------------------------------------------------------ *)
(* Part 1: one archetype                                                                       *)
Record arch_ok (w : N) (a : archetype) : Prop := {
  ao_wf : ver_wf a;                                              (* one global stamp per component *)
  ao_bounds : gver_bounds a;                                     (* chunk stamp <= global stamp *)
  ao_cver : le_all w (am_cver a);                                (* no chunk stamp ahead of the world version *)
  ao_gver : am_ents a <> [] -> le_all w (am_gver a);             (* nor a global stamp, once populated *)
  ao_size : am_size a = length (am_ents a);
  ao_chunk : am_ents a <> [] -> 0 < am_chunk a;
  (* the chunk stamps cover every version chunk of the population *)
  ao_len : am_ents a <> [] -> length (am_cver a) = length (am_gver a) * S ((length (am_ents a) - 1) / am_chunk a);
  ao_empty : am_ents a = [] -> am_cver a = []
}.

Lemma arch_ok_mono w w' a : (w <= w')%N -> arch_ok w a -> arch_ok w' a.
Proof.
  intros H [H1 H2 H3 H4 H5 H6 H7 H8]. constructor; try assumption.
  - eapply le_all_mono; eassumption.
  - intro Hne. eapply le_all_mono; [eassumption|auto].
Qed.

(* same population and layout; only stamps (and cells) may differ *)
Definition same_shape (a a' : archetype) : Prop :=
  am_mask a' = am_mask a /\ am_ents a' = am_ents a /\ am_chunk a' = am_chunk a /\ am_size a' = am_size a /\
  length (am_gver a') = length (am_gver a).
Definition cver_mono (a a' : archetype) : Prop := forall p, (nth p (am_cver a) 0 <= nth p (am_cver a') 0)%N.
Definition evolves (a a' : archetype) : Prop := same_shape a a' /\ cver_mono a a'.

Lemma same_shape_refl a : same_shape a a.
Proof. repeat split. Qed.
Lemma same_shape_trans a b c : same_shape a b -> same_shape b c -> same_shape a c.
Proof. intros (A1 & A2 & A3 & A4 & A5) (B1 & B2 & B3 & B4 & B5). repeat split; congruence. Qed.
Lemma evolves_refl a : evolves a a.
Proof. split; [apply same_shape_refl|intro p; apply N.le_refl]. Qed.
Lemma evolves_trans a b c : evolves a b -> evolves b c -> evolves a c.
Proof.
  intros (A1 & A2) (B1 & B2). split; [eapply same_shape_trans; eassumption|].
  intro p. eapply N.le_trans; [apply A2|apply B2].
Qed.

(* the weaker relation of histories with entity creation: the population may grow at the end *)
Definition grows (a a' : archetype) : Prop :=
  am_mask a' = am_mask a /\ (exists ext, am_ents a' = am_ents a ++ ext) /\ am_chunk a' = am_chunk a /\
  length (am_gver a') = length (am_gver a).
Definition evolves_w (a a' : archetype) : Prop := grows a a' /\ cver_mono a a'.

Lemma same_shape_grows a a' : same_shape a a' -> grows a a'.
Proof. intros (H1 & H2 & H3 & _ & H5). repeat split; try assumption. exists []. rewrite app_nil_r. assumption. Qed.
Lemma evolves_weaken a a' : evolves a a' -> evolves_w a a'.
Proof. intros (H1 & H2). split; [apply same_shape_grows; assumption|assumption]. Qed.
Lemma grows_refl a : grows a a.
Proof. apply same_shape_grows, same_shape_refl. Qed.
Lemma grows_trans a b c : grows a b -> grows b c -> grows a c.
Proof.
  intros (A1 & (e1 & A2) & A3 & A4) (B1 & (e2 & B2) & B3 & B4). repeat split; try congruence.
  exists (e1 ++ e2). rewrite B2, A2, app_assoc. reflexivity.
Qed.
Lemma evolves_w_refl a : evolves_w a a.
Proof. apply evolves_weaken, evolves_refl. Qed.
Lemma evolves_w_trans a b c : evolves_w a b -> evolves_w b c -> evolves_w a c.
Proof.
  intros (A1 & A2) (B1 & B2). split; [eapply grows_trans; eassumption|].
  intro p. eapply N.le_trans; [apply A2|apply B2].
Qed.
Lemma grows_nth a a' idx h : grows a a' -> nth_error (am_ents a) idx = Some h -> nth_error (am_ents a') idx = Some h.
Proof. intros (_ & (e & E) & _) H. rewrite E. rewrite nth_error_app1; [assumption|]. apply nth_error_Some. congruence. Qed.

(* every archetype of l is still there in l', evolved; l' may have more *)
Definition archs_le (l l' : list archetype) : Prop :=
  forall k a, nth_error l k = Some a -> exists a', nth_error l' k = Some a' /\ evolves_w a a'.
Lemma archs_le_refl l : archs_le l l.
Proof. intros k a H. exists a. split; [assumption|apply evolves_w_refl]. Qed.
Lemma archs_le_trans l1 l2 l3 : archs_le l1 l2 -> archs_le l2 l3 -> archs_le l1 l3.
Proof.
  intros H12 H23 k a Ha. destruct (H12 _ _ Ha) as (a' & Ha' & E1). destruct (H23 _ _ Ha') as (a'' & Ha'' & E2).
  exists a''. split; [assumption|eapply evolves_w_trans; eassumption].
Qed.

Lemma jmatch_shape j a a' : same_shape a a' -> jmatch j a' = jmatch j a.
Proof. intros (H1 & H2 & _). unfold jmatch. rewrite H1, H2. reflexivity. Qed.
Lemma jcheck_shape j a a' : same_shape a a' -> jcheck j a' = jcheck j a.
Proof. intros (H1 & _). unfold jcheck. rewrite H1. reflexivity. Qed.
Lemma jset_shape j a a' : same_shape a a' -> jset j a' = jset j a.
Proof. intros (H1 & _). unfold jset. rewrite H1. reflexivity. Qed.

(* --- mutable access / markDirty: one chunk stamp and one global stamp become the world version --- *)
Lemma stamp_one_ok w a ch ci a1 a2 :
  arch_ok w a -> vs_set_one a w ch ci = Ok a1 ->
  am_gver a2 = am_gver a1 -> am_cver a2 = am_cver a1 -> am_mask a2 = am_mask a -> am_ents a2 = am_ents a ->
  am_chunk a2 = am_chunk a -> am_size a2 = am_size a ->
  arch_ok w a2 /\ evolves a a2 /\
  ci < length (am_gver a) /\ length (am_gver a) * ch + ci < length (am_cver a) /\
  nth (length (am_gver a) * ch + ci) (am_cver a2) 0%N = w /\
  (forall p, p <> length (am_gver a) * ch + ci -> nth p (am_cver a2) 0%N = nth p (am_cver a) 0%N) /\
  (forall i, i <> ci -> nth i (am_gver a2) 0%N = nth i (am_gver a) 0%N).
Proof.
  intros [W1 W2 W3 W4 W5 W6 W7 W8] H Eg Ec Em Ee Ek Es.
  pose proof (vs_set_one_bounds _ _ _ _ _ H W2 (fun k => le_all_nth _ _ _ W3)) as Hb.
  pose proof (vs_set_one_spec _ _ _ _ _ H) as S. cbv zeta in S. destruct S as (S1 & S2 & S3 & S4 & S5 & S6 & S7 & S8).
  split; [|split].
  - constructor.
    + unfold ver_wf. rewrite Eg, S3, upd_length, Em. exact W1.
    + unfold gver_bounds. rewrite Eg, Ec. exact Hb.
    + unfold le_all. rewrite Ec, S4. apply Forall_upd; [exact W3|apply N.le_refl].
    + intro Hne. unfold le_all. rewrite Eg, S3. apply Forall_upd; [apply W4; congruence|apply N.le_refl].
    + congruence.
    + intro Hne. rewrite Ek. apply W6. congruence.
    + intro Hne. rewrite Eg, Ec, S3, S4, !upd_length, Ee, Ek. apply W7. congruence.
    + intro He. rewrite Ec, S4, W8 by congruence. reflexivity.
  - split.
    + repeat split; try assumption. rewrite Eg, S3. apply upd_length.
    + intro p. rewrite Ec. destruct (Nat.eq_dec p (length (am_gver a) * ch + ci)) as [->|Hne].
      * rewrite S6. apply le_all_nth. exact W3.
      * rewrite S7 by assumption. apply N.le_refl.
  - rewrite Ec. repeat split; try assumption. intros i Hi. rewrite Eg. apply S8. assumption.
Qed.

(* --- the filter on one archetype --- *)
(* every position of the new chunk stamps either keeps its value or carries cur, and then it is a set_ position of a
   flagged chunk *)
Lemma filter_chunks_nth nc check set_ last cur : forall todo chunk cv p,
  let r := filter_chunks nc check set_ last cur chunk todo cv in
  nth p (fst r) 0%N = nth p cv 0%N \/
  (nth p (fst r) 0%N = cur /\ exists k i, k < todo /\ In i set_ /\ p = nc * (chunk + k) + i /\ nth k (snd r) false = true).
Proof.
  induction todo as [|t IH]; intros chunk cv p; [left; reflexivity|].
  cbv zeta. rewrite filter_chunks_S. cbn [fst snd].
  specialize (IH (S chunk) (cas_row cv (nc * chunk) check set_ last cur) p). cbv zeta in IH.
  destruct IH as [IH|(IH1 & k & i & Hk & Hi & Hp & Hf)].
  - rewrite IH. unfold cas_row. rewrite check_and_set_unfold. cbn [fst].
    destruct (need_flag cv (nc * chunk) check last) eqn:En; [|left; reflexivity].
    rewrite stamp_set_nth. destruct (existsb (fun i => nc * chunk + i =? p) set_) eqn:Ex; cbn [andb]; [|left; reflexivity].
    destruct (p <? length cv); [|left; reflexivity].
    right. split; [reflexivity|]. apply existsb_exists in Ex. destruct Ex as (i & Hi & Hp). apply Nat.eqb_eq in Hp.
    exists 0, i. rewrite Nat.add_0_r. repeat split; try assumption; [lia|auto].
  - right. split; [assumption|]. exists (S k), i. repeat split; try assumption; [lia|lia].
Qed.

Lemma filter_chunks_length nc check set_ last cur : forall todo chunk cv,
  length (fst (filter_chunks nc check set_ last cur chunk todo cv)) = length cv.
Proof.
  induction todo as [|t IH]; intros chunk cv; [reflexivity|]. rewrite filter_chunks_S. cbn [fst]. rewrite IH. apply cas_row_length.
Qed.

Lemma stamp_set_gver_nth vers set_ cur i :
  nth i (stamp_set vers 0 set_ cur) 0%N = if existsb (fun k => k =? i) set_ && (i <? length vers) then cur else nth i vers 0%N.
Proof. rewrite stamp_set_nth. reflexivity. Qed.

Definition filtered (j : job) (cur : N) (a : archetype) : archetype :=
  with_vers a (stamp_set (am_gver a) 0 (jset j a) cur) (fst (jchunks j cur a)).

Lemma filtered_ok j w a : arch_ok w a -> arch_ok w (filtered j w a) /\ evolves a (filtered j w a).
Proof.
  intros [W1 W2 W3 W4 W5 W6 W7 W8].
  assert (Hs : lt_all (length (am_gver a)) (jset j a)) by (rewrite W1; apply comp_indices_lt).
  assert (Hmono : forall p, (nth p (am_cver a) 0 <= nth p (fst (jchunks j w a)) 0)%N).
  { intro p. unfold jchunks.
    destruct (filter_chunks_nth (length (am_gver a)) (jcheck j a) (jset j a) (j_last j) w
                (S ((length (am_ents a) - 1) / am_chunk a)) 0 (am_cver a) p) as [E|(E & _)]; rewrite E.
    - apply N.le_refl.
    - apply le_all_nth. exact W3. }
  split.
  - constructor; unfold filtered; cbn [with_vers am_gver am_cver am_mask am_ents am_size am_chunk].
    + unfold ver_wf. cbn [with_vers am_gver am_mask]. rewrite stamp_set_length. exact W1.
    + unfold gver_bounds. cbn [with_vers am_gver am_cver]. rewrite stamp_set_length. intros c i Hi.
      rewrite stamp_set_gver_nth. rewrite (proj2 (Nat.ltb_lt _ _) Hi), andb_true_r.
      destruct (existsb (fun k => k =? i) (jset j a)) eqn:Ex.
      * apply le_all_nth. unfold jchunks. apply filter_chunks_Forall; [exact W3|apply N.le_refl].
      * unfold jchunks.
        destruct (filter_chunks_nth (length (am_gver a)) (jcheck j a) (jset j a) (j_last j) w
                    (S ((length (am_ents a) - 1) / am_chunk a)) 0 (am_cver a) (length (am_gver a) * c + i))
          as [E|(_ & k & i' & _ & Hi' & Hp & _)].
        -- rewrite E. apply W2. exact Hi.
        -- exfalso. pose proof (lt_all_in _ _ _ Hs Hi') as Hlt.
           destruct (row_pos_unique _ _ _ _ _ Hi Hlt Hp) as (_ & ->).
           assert (T : existsb (fun k0 => k0 =? i') (jset j a) = true).
           { apply existsb_exists. exists i'. split; [assumption|apply Nat.eqb_refl]. }
           congruence.
    + unfold jchunks. apply filter_chunks_Forall; [exact W3|apply N.le_refl].
    + intro Hne. apply stamp_set_Forall; [apply W4; exact Hne|apply N.le_refl].
    + exact W5.
    + exact W6.
    + intro Hne. rewrite stamp_set_length. unfold jchunks. rewrite filter_chunks_length. apply W7. exact Hne.
    + intro He. apply length_zero_iff_nil. unfold jchunks. rewrite filter_chunks_length, (W8 He). reflexivity.
  - split; [|exact Hmono]. unfold filtered. repeat split. cbn [with_vers am_gver]. apply stamp_set_length.
Qed.

Lemma with_vers_id a : with_vers a (am_gver a) (am_cver a) = a.
Proof. destruct a; reflexivity. Qed.

(* ------------------------------------------------------------------------------------------ *)
(* Part 2: what the operations do to a state                                                   *)

(* --- the filter of a run: every archetype is left alone or replaced by `filtered` --- *)
Definition jf_rel (j : job) (w : N) (a a' : archetype) : Prop :=
  a' = a \/ (a' = filtered j w a /\ jmatch j a = true /\ need_flag (am_gver a) 0 (jcheck j a) (j_last j) = true).

Lemma set_archs_id s : set_archs s (archs s) = s.
Proof. destruct s; reflexivity. Qed.

Lemma set_arch_same s ai a : nth_error (archs s) ai = Some a -> set_arch s ai a = s.
Proof. intro H. unfold set_arch. rewrite (upd_same_id _ _ _ H). apply set_archs_id. Qed.

Lemma jf_step_state j st fas ai st1 fas1 :
  jf_step j (st, fas) ai = Ok (st1, fas1) ->
  exists a a', nth_error (archs st) ai = Some a /\ jf_rel j (wv st) a a' /\ st1 = set_archs st (upd (archs st) ai a').
Proof.
  rewrite jf_step_eq. destruct (nth_error (archs st) ai) as [a|] eqn:En; [|discriminate].
  destruct (jmatch j a) eqn:Em; cbn [negb].
  2:{ intro H; inversion H; subst. exists a, a. split; [reflexivity|]. split; [left; reflexivity|].
      rewrite (upd_same_id _ _ _ En). symmetry. apply set_archs_id. }
  destruct (need_flag (am_gver a) 0 (jcheck j a) (j_last j)) eqn:Eg; cbn [negb].
  2:{ intro H; inversion H; subst. exists a, a. split; [reflexivity|]. split; [left; reflexivity|].
      rewrite with_vers_id. reflexivity. }
  destruct (am_chunk a); [discriminate|]. intro H; inversion H; subst.
  exists a, (filtered j (wv st) a). split; [reflexivity|]. split; [right; auto|reflexivity].
Qed.

Lemma jf_fold_state j : forall l st fas st1 fas1,
  NoDup l -> fold_res (jf_step j) l (st, fas) = Ok (st1, fas1) ->
  st1 = set_archs st (archs st1) /\ wv st1 = wv st /\ length (archs st1) = length (archs st) /\
  forall k a, nth_error (archs st) k = Some a ->
    exists a', nth_error (archs st1) k = Some a' /\ jf_rel j (wv st) a a' /\ (~ In k l -> a' = a).
Proof.
  induction l as [|ai t IH]; intros st fas st1 fas1 Hnd H.
  - simpl in H. inversion H; subst. split; [symmetry; apply set_archs_id|]. split; [reflexivity|]. split; [reflexivity|].
    intros k a Hk. exists a. split; [assumption|]. split; [left; reflexivity|auto].
  - cbn [fold_res] in H. destruct (jf_step j (st, fas) ai) as [[st' fas']|e] eqn:E; [|discriminate]. cbn [bind] in H.
    inversion Hnd as [|? ? Hni Hnd']; subst.
    destruct (jf_step_state _ _ _ _ _ _ E) as (a0 & a0' & Ha0 & Hrel0 & Est').
    destruct (IH _ _ _ _ Hnd' H) as (I1 & I2 & I3 & I4).
    assert (Hwv : wv st' = wv st) by (rewrite Est'; reflexivity).
    assert (Harchs : archs st' = upd (archs st) ai a0') by (rewrite Est'; reflexivity).
    split; [rewrite I1, Est'; reflexivity|]. split; [congruence|]. split; [rewrite I3, Harchs; apply upd_length|].
    intros k a Hk. destruct (Nat.eq_dec k ai) as [->|Hne].
    + rewrite Ha0 in Hk. inversion Hk; subst a0.
      assert (Hmid : nth_error (archs st') ai = Some a0').
      { rewrite Harchs. apply nth_error_upd_same. apply nth_error_Some. congruence. }
      destruct (I4 _ _ Hmid) as (a' & Ha' & _ & Hsame). rewrite (Hsame Hni) in Ha'.
      exists a0'. split; [assumption|]. split; [assumption|]. intro F. exfalso. apply F. left. reflexivity.
    + assert (Hmid : nth_error (archs st') k = Some a) by (rewrite Harchs, nth_error_upd_other by congruence; assumption).
      destruct (I4 _ _ Hmid) as (a' & Ha' & Hrel & Hsame). rewrite Hwv in Hrel.
      exists a'. split; [assumption|]. split; [assumption|]. intro F. apply Hsame. intro F'. apply F. right. assumption.
Qed.

Lemma job_filter_state s j s1 fas :
  job_filter s j = Ok (s1, fas) ->
  s1 = set_archs s (archs s1) /\ wv s1 = wv s /\ length (archs s1) = length (archs s) /\
  forall k a, nth_error (archs s) k = Some a -> exists a', nth_error (archs s1) k = Some a' /\ jf_rel j (wv s) a a'.
Proof.
  rewrite job_filter_unfold. intro H. apply jf_fold_state in H; [|apply seq_NoDup].
  destruct H as (H1 & H2 & H3 & H4). repeat split; try assumption.
  intros k a Hk. destruct (H4 k a Hk) as (a' & Ha' & Hr & _). eauto.
Qed.

(* --- the run of a job without callback actions --- *)
Definition set_cap (cap : nat) (a : farch) : farch :=
  {| fa_arch := fa_arch a; fa_blocks := fa_blocks a; fa_count := fa_count a; fa_size := fa_size a; fa_cap := cap |}.

Definition visit := (nat * nat * list (handle * list (option cell)))%type.

Definition vis_inner (s2 : mst) (j : job) (fas : list farch) (k : nat) (acc2 : nat * list visit) (ar : nat * nat * nat)
  : res (nat * list visit) :=
  let '(idx2, o2) := acc2 in
  let '(pos, start, len) := ar in
  do fa <- nth_res fas pos;
  do es <- array_visits s2 j (fa_arch fa) start len;
  Ok ((idx2 + len)%nat, o2 ++ [(k, idx2, es)]).

Definition vis_outer (s2 : mst) (j : job) (fas : list farch) (acc : nat * nat * list visit) (arrs : list (nat * nat * nat))
  : res (nat * nat * list visit) :=
  let '(k, idx, out_) := acc in
  do r2 <- fold_res (vis_inner s2 j fas k) arrs (idx, out_);
  Ok (S k, fst r2, snd r2).

Definition run_tasks (par : bool) (tov wk total : nat) : nat :=
  if par then Nat.max 1 (match tov with O => Nat.min total (S wk) | t => t end) else 1.

Lemma run_tasks_pos par tov wk total : 0 < run_tasks par tov wk total.
Proof. unfold run_tasks. destruct par; lia. Qed.

Lemma step_runjob_eq s j par tov wk cap :
  step s (ORunJob j par tov wk cap [] false) =
  (do r <- job_filter s j;
   let '(s1, fas0) := r in
   let fas := map (set_cap cap) fas0 in
   match total_count fas with
   | O => Ok (s1, RJob (j_last j) [])
   | S _ =>
     let s2 := do_lock (inc_wv s1) in
     do per_task <- run_arrays fas (run_tasks par tov wk (total_count fas));
     do vis <- fold_res (vis_outer s2 j fas) per_task (O, O, []);
     do r3 <- do_unlock s2;
     Ok (fst r3, RJob (wv s1) (snd vis))
   end).
Proof. reflexivity. Qed.

Definition bufs_empty (s : mst) : Prop := Forall (fun b => b = []) (bufs s).

Lemma unlock_lock s : lockc s = 0 -> bufs_empty s ->
  exists s3, do_unlock (do_lock s) = Ok (s3, RBool true) /\
    archs s3 = archs s /\ wv s3 = wv s /\ slots s3 = slots s /\ locs s3 = locs s /\ lockc s3 = 0 /\
    marked s3 = marked s /\ empty_slots s3 = empty_slots s /\ bufs_empty s3 /\ cached s3 = cached s.
Proof.
  intros Hl Hb. unfold do_lock. rewrite Hl. unfold do_unlock.
  cbn [lockc set_eid set_bufs set_lock pred].
  match goal with |- context [flush ?x] => set (sx := x) end.
  assert (Hbx : Forall (fun b => b = []) (bufs sx)).
  { subst sx. cbn [bufs set_lock set_eid set_bufs]. apply Forall_resize; [exact Hb|reflexivity]. }
  rewrite (flush_empty sx Hbx). cbn [bind]. eexists. split; [reflexivity|].
  subst sx. cbn. repeat split; try reflexivity. unfold bufs_empty. cbn. apply Forall_resize; [exact Hb|reflexivity].
Qed.

Lemma step_update_eq s world : lockc s = 0 -> marked s = [] ->
  step s (OUpdate world) =
  Ok (set_marked (set_wv (if world then inc_wv s else s) (wv (if world then inc_wv s else s))
                         (Some (wv (if world then inc_wv s else s)))) [], RNone).
Proof.
  intros Hl Hm. cbn [step]. destruct world.
  - unfold inc_wv at 1. cbn [lockc set_wv]. rewrite Hl.
    change (marked (set_wv (inc_wv s) (wv (inc_wv s)) (Some (wv (inc_wv s))))) with (marked s). rewrite Hm. reflexivity.
  - rewrite Hl. change (marked (set_wv s (wv s) (Some (wv s)))) with (marked s). rewrite Hm. reflexivity.
Qed.

(* --- mutable access and markDirty --- *)
(* entity h carries component c: its archetype, position and the component's index *)
Definition touch (s : mst) (h : handle) (c ai idx : nat) (a : archetype) (ci : nat) : Prop :=
  is_valid s h = true /\
  (exists l, nth_error (locs s) (N.to_nat (fst h)) = Some l /\ l_arch l = Some ai /\ l_idx l = idx) /\
  nth_error (archs s) ai = Some a /\ cindex (am_mask a) c = Some ci.

Lemma touch_fun s h c ai idx a ci ai' idx' a' ci' :
  touch s h c ai idx a ci -> touch s h c ai' idx' a' ci' -> ai' = ai /\ idx' = idx /\ a' = a /\ ci' = ci.
Proof.
  intros (_ & (l & L1 & L2 & L3) & A & C) (_ & (l' & L1' & L2' & L3') & A' & C').
  rewrite L1 in L1'. inversion L1'; subst l'. rewrite L2 in L2'. inversion L2'; subst ai'. subst idx idx'.
  rewrite A in A'. inversion A'; subst a'. rewrite C in C'. inversion C'; subst ci'. auto.
Qed.

(* the common shape of the two stamping accesses *)
Definition stamps_entity (s : mst) (h : handle) (c : nat) (s' : mst) : Prop :=
  (s' = s /\ forall ai idx a ci, ~ touch s h c ai idx a ci) \/
  exists ai idx a ci a1 a2, touch s h c ai idx a ci /\ 0 < am_chunk a /\
    vs_set_one a (wv s) (idx / am_chunk a) ci = Ok a1 /\
    am_gver a2 = am_gver a1 /\ am_cver a2 = am_cver a1 /\ am_mask a2 = am_mask a /\ am_ents a2 = am_ents a /\
    am_chunk a2 = am_chunk a /\ am_size a2 = am_size a /\
    s' = set_arch s ai a2.

Lemma chunk_at_ok a idx ch : chunk_at a idx = Ok ch -> 0 < am_chunk a /\ ch = idx / am_chunk a.
Proof. unfold chunk_at. destruct (am_chunk a) as [|k]; [discriminate|]. intro H; inversion H. split; [lia|reflexivity]. Qed.

Lemma step_getmut s h c w :
  step s (OGetMut h c w) =
    (if negb (is_valid s h) then Ok (s, RCell false None) else
    do l <- nth_res (locs s) (N.to_nat (fst h));
    match l_arch l with
    | None => Ok (s, RCell false None)
    | Some ai =>
      do a <- nth_res (archs s) ai;
      match cindex (am_mask a) c with
      | None => Ok (s, RCell false None)
      | Some ci =>
        do ch <- chunk_at a (l_idx l);
        do a1 <- vs_set_one a (wv s) ch ci;
        let a2 := match w with Some x => put_cell a1 ci (l_idx l) (Some x) | None => a1 end in
        Ok (set_arch s ai a2, RCell true (get_cell a2 ci (l_idx l)))
      end
    end).
Proof. reflexivity. Qed.

Lemma step_getconst s h c :
  step s (OGetConst h c) =
    (if negb (is_valid s h) then Ok (s, RCell false None) else
    do l <- nth_res (locs s) (N.to_nat (fst h));
    match l_arch l with
    | None => Ok (s, RCell false None)
    | Some ai =>
      do a <- nth_res (archs s) ai;
      match cindex (am_mask a) c with
      | None => Ok (s, RCell false None)
      | Some ci => Ok (s, RCell true (get_cell a ci (l_idx l)))
      end
    end).
Proof. reflexivity. Qed.

Lemma step_has s h c :
  step s (OHas h c) =
    (if negb (is_valid s h) then Ok (s, RBool false) else
    do l <- nth_res (locs s) (N.to_nat (fst h));
    match l_arch l with
    | None => Ok (s, RBool false)
    | Some ai => do a <- nth_res (archs s) ai; Ok (s, RBool (mhas (am_mask a) c))
    end).
Proof. reflexivity. Qed.

Lemma step_getmut_effect s h c w s' out :
  step s (OGetMut h c w) = Ok (s', out) -> stamps_entity s h c s'.
Proof.
  rewrite step_getmut. destruct (is_valid s h) eqn:Ev; cbn [negb].
  2:{ intro H; inversion H; subst s' out; left. split; [reflexivity|]. intros ai idx a ci (F & _). congruence. }
  intro H. bd H l Hl. apply nth_res_ok in Hl. destruct (l_arch l) as [ai|] eqn:Ea.
  2:{ inversion H; subst s' out; left. split; [reflexivity|]. intros ai idx a ci (_ & (l' & L1 & L2 & _) & _). congruence. }
  bd H a Ha. apply nth_res_ok in Ha. destruct (cindex (am_mask a) c) as [ci|] eqn:Ec.
  2:{ inversion H; subst s' out; left. split; [reflexivity|]. intros ai' idx a' ci (_ & (l' & L1 & L2 & _) & A & C).
      rewrite Hl in L1. inversion L1; subst l'. rewrite Ea in L2. inversion L2; subst ai'. rewrite Ha in A. inversion A; subst a'. congruence. }
  bd H ch Hch. apply chunk_at_ok in Hch. destruct Hch as (Hcs & ->). bd H a1 Ha1. cbv zeta in H. inversion H; subst s' out; clear H.
  right. destruct (vs_set_one_ok _ _ _ _ _ Ha1) as (g & cv & E1).
  exists ai, (l_idx l), a, ci, a1, (match w with Some x => put_cell a1 ci (l_idx l) (Some x) | None => a1 end).
  split; [split; [assumption|]; split; [exists l; auto|]; split; assumption|].
  split; [assumption|]. split; [assumption|].
  destruct w as [x|]; subst a1; cbn; repeat split; reflexivity.
Qed.

Lemma step_markdirty_effect s h c s' out :
  step s (OMarkDirty h c) = Ok (s', out) -> stamps_entity s h c s'.
Proof.
  cbn [step]. intro H. bd H s1 Hs1. inversion H; subst s' out; clear H. unfold mark_dirty in Hs1.
  destruct (is_valid s h) eqn:Ev; cbn [negb] in Hs1.
  2:{ inversion Hs1; subst s1; left. split; [reflexivity|]. intros ai idx a ci (F & _). congruence. }
  bd Hs1 la Hla. unfold loc_arch in Hla. bd Hla l Hl. apply nth_res_ok in Hl.
  destruct (l_arch l) as [ai|] eqn:Ea; [|discriminate]. inversion Hla; subst la; clear Hla. cbv beta iota in Hs1.
  bd Hs1 a Ha. apply nth_res_ok in Ha. destruct (cindex (am_mask a) c) as [ci|] eqn:Ec.
  2:{ inversion Hs1; subst s1; left. split; [reflexivity|]. intros ai' idx a' ci (_ & (l' & L1 & L2 & _) & A & C).
      rewrite Hl in L1. inversion L1; subst l'. rewrite Ea in L2. inversion L2; subst ai'. rewrite Ha in A. inversion A; subst a'. congruence. }
  bd Hs1 ch Hch. apply chunk_at_ok in Hch. destruct Hch as (Hcs & ->). bd Hs1 a1 Ha1. inversion Hs1; subst s1; clear Hs1.
  right. destruct (vs_set_one_ok _ _ _ _ _ Ha1) as (g & cv & E1).
  exists ai, (l_idx l), a, ci, a1, a1.
  split; [split; [assumption|]; split; [exists l; auto|]; split; assumption|].
  split; [assumption|]. split; [assumption|]. subst a1. cbn. repeat split; reflexivity.
Qed.

Lemma step_getconst_effect s h c s' out : step s (OGetConst h c) = Ok (s', out) -> s' = s.
Proof.
  rewrite step_getconst. destruct (negb (is_valid s h)); [intro H; inversion H; reflexivity|].
  intro H. bd H l Hl. destruct (l_arch l); [|inversion H; reflexivity]. bd H a Ha.
  destruct (cindex (am_mask a) c); inversion H; reflexivity.
Qed.

Lemma step_has_effect s h c s' out : step s (OHas h c) = Ok (s', out) -> s' = s.
Proof.
  rewrite step_has. destruct (negb (is_valid s h)); [intro H; inversion H; reflexivity|].
  intro H. bd H l Hl. destruct (l_arch l); [|inversion H; reflexivity]. bd H a Ha. inversion H; reflexivity.
Qed.

(* ------------------------------------------------------------------------------------------ *)
(* Part 3: the driver state, the invariant of every run, the frame                              *)
Inductive vop :=
| VUpdate (world : bool)                                  (* true: world.update(); false: EntityManager::update() *)
| VGetMut (h : handle) (c : nat) (w : option Z)
| VMarkDirty (h : handle) (c : nat)
| VGetConst (h : handle) (c : nat)
| VHas (h : handle) (c : nat)
| VRun (jn : nat) (parallel : bool) (tasks_override workers cap : nat)
| VCreate (tid : nat) (m : mask) (shared_ids : list nat) (via_arch : bool).   (* createEntity while unlocked: the stretch *)

(* the manager and the jobs of the driver: job jn's j_last is the `last` of its latest RJob result *)
Definition vstate := (mst * list job)%type.

Definition vstep (st : vstate) (o : vop) : res (vstate * out) :=
  let '(s, js) := st in
  match o with
  | VUpdate w => do r <- step s (OUpdate w); Ok ((fst r, js), snd r)
  | VGetMut h c w => do r <- step s (OGetMut h c w); Ok ((fst r, js), snd r)
  | VMarkDirty h c => do r <- step s (OMarkDirty h c); Ok ((fst r, js), snd r)
  | VGetConst h c => do r <- step s (OGetConst h c); Ok ((fst r, js), snd r)
  | VHas h c => do r <- step s (OHas h c); Ok ((fst r, js), snd r)
  | VRun jn par tov wk cap =>
    do j <- nth_res js jn;
    do r <- step s (ORunJob j par tov wk cap [] false);
    Ok ((fst r, match snd r with RJob last _ => upd js jn (relast j last) | _ => js end), snd r)
  | VCreate tid m sids via => do r <- step s (OCreate tid m sids via); Ok ((fst r, js), snd r)
  end.

Fixpoint vrun (ops : list vop) (st : vstate) : res vstate :=
  match ops with
  | [] => Ok st
  | o :: t => do r <- vstep st o; vrun t (fst r)
  end.

Lemma vrun_app ops1 ops2 st : vrun (ops1 ++ ops2) st = do st1 <- vrun ops1 st; vrun ops2 st1.
Proof.
  revert st. induction ops1 as [|o t IH]; intro st; [reflexivity|]. cbn [app vrun].
  destruct (vstep st o) as [r|e]; [cbn [bind]; apply IH|reflexivity].
Qed.

Definition loc_ok (s : mst) : Prop :=
  forall h l ai, is_valid s h = true -> nth_error (locs s) (N.to_nat (fst h)) = Some l -> l_arch l = Some ai ->
  exists a, nth_error (archs s) ai = Some a /\ nth_error (am_ents a) (l_idx l) = Some h.

Definition job_ok (w : N) (j : job) : Prop := j_last j = WV_NULL \/ (j_last j < w)%N.

Record VInv (st : vstate) : Prop := {
  vi_lock : lockc (fst st) = 0;
  vi_marked : marked (fst st) = [];
  vi_bufs : bufs_empty (fst st);
  vi_free : empty_slots (fst st) = 0;
  vi_archs : Forall (arch_ok (wv (fst st))) (archs (fst st));
  vi_locs : loc_ok (fst st);
  vi_jobs : Forall (job_ok (wv (fst st))) (snd st)
}.

Definition same_job (j j' : job) : Prop := j_reqs j' = j_reqs j /\ j_check j' = j_check j.

(* what no operation of the alphabet undoes: live entities stay live and where they are; every archetype keeps its mask,
   chunk size and its entities in place (new ones are appended); chunk stamps and the world version never decrease;
   the jobs keep their requests and check masks *)
Record vframe (st st' : vstate) : Prop := {
  vf_valid : forall h, is_valid (fst st) h = true -> is_valid (fst st') h = true;
  vf_locs : forall h l, is_valid (fst st) h = true -> nth_error (locs (fst st)) (N.to_nat (fst h)) = Some l ->
              nth_error (locs (fst st')) (N.to_nat (fst h)) = Some l;
  vf_archs : archs_le (archs (fst st)) (archs (fst st'));
  vf_wv : (wv (fst st) <= wv (fst st'))%N;
  vf_jobs : Forall2 same_job (snd st) (snd st')
}.

Lemma vframe_refl st : vframe st st.
Proof.
  constructor; try reflexivity; auto.
  - apply archs_le_refl.
  - apply Forall2_refl'. intro j. split; reflexivity.
Qed.

Lemma vframe_trans a b c : vframe a b -> vframe b c -> vframe a c.
Proof.
  intros [A1 A2 A3 A4 A5] [B1 B2 B3 B4 B5]. constructor.
  - auto.
  - auto.
  - eapply archs_le_trans; eassumption.
  - eapply N.le_trans; eassumption.
  - eapply Forall2_trans'; [|eassumption|eassumption]. intros x y z (X1 & X2) (Y1 & Y2). split; congruence.
Qed.

Lemma Forall2_pointwise {A B} (R : A -> B -> Prop) : forall l l',
  length l' = length l -> (forall k a a', nth_error l k = Some a -> nth_error l' k = Some a' -> R a a') -> Forall2 R l l'.
Proof.
  induction l as [|x t IH]; intros [|y t'] Hlen H; simpl in Hlen; try discriminate; constructor.
  - apply (H 0); reflexivity.
  - apply IH; [lia|]. intros k a a' Ha Ha'. apply (H (S k)); assumption.
Qed.

Lemma Forall2_Forall_r {A B} (R : A -> B -> Prop) (P : B -> Prop) l l' :
  Forall2 R l l' -> (forall a b, R a b -> P b) -> Forall P l'.
Proof. intros H HP. induction H; constructor; eauto. Qed.

Lemma Forall2_impl' {A B} (R R' : A -> B -> Prop) l l' : (forall a b, R a b -> R' a b) -> Forall2 R l l' -> Forall2 R' l l'.
Proof. intros HR H. induction H; constructor; auto. Qed.

Lemma is_valid_slots s s' h : slots s' = slots s -> is_valid s' h = is_valid s h.
Proof. intro E. unfold is_valid. rewrite E. reflexivity. Qed.

Lemma loc_ok_frame s s' : slots s' = slots s -> locs s' = locs s -> Forall2 evolves (archs s) (archs s') -> loc_ok s -> loc_ok s'.
Proof.
  intros Es El Ha H h l ai Hv Hl Hai. rewrite (is_valid_slots _ _ _ Es) in Hv. rewrite El in Hl.
  destruct (H h l ai Hv Hl Hai) as (a & Ha1 & Ha2).
  destruct (Forall2_nth_l _ _ _ _ _ Ha Ha1) as (a' & Ha' & ((_ & Ee & _) & _)). exists a'. split; [assumption|]. rewrite Ee. assumption.
Qed.

Lemma job_ok_mono w w' j : (w <= w')%N -> job_ok w j -> job_ok w' j.
Proof. intros H [E|L]; [left; assumption|right; eapply N.lt_le_trans; eassumption]. Qed.

(* one generic step of the invariant: the archetypes evolve and are fine at the new world version *)
Lemma VInv_step s js s' js' :
  VInv (s, js) ->
  lockc s' = 0 -> marked s' = [] -> bufs_empty s' -> empty_slots s' = 0 -> slots s' = slots s -> locs s' = locs s ->
  (wv s <= wv s')%N ->
  Forall2 (fun a a' => evolves a a' /\ arch_ok (wv s') a') (archs s) (archs s') ->
  Forall (job_ok (wv s')) js' -> Forall2 same_job js js' ->
  VInv (s', js') /\ vframe (s, js) (s', js').
Proof.
  intros [I1 I2 I3 I4 I5 I6 I7] H1 H2 H3 H4 H5 H6 H7 H8 H9 H10. cbn [fst snd] in *.
  assert (Hev : Forall2 evolves (archs s) (archs s')) by (eapply Forall2_impl'; [|exact H8]; intros a b (X & _); exact X).
  split; constructor; cbn [fst snd]; try assumption.
  - eapply Forall2_Forall_r; [exact H8|]. intros a b (_ & X). exact X.
  - eapply loc_ok_frame; eassumption.
  - intros h Hv. rewrite (is_valid_slots _ _ _ H5). exact Hv.
  - intros h l _ Hl. rewrite H6. exact Hl.
  - intros k a Ha. destruct (Forall2_nth_l _ _ _ _ _ Hev Ha) as (a' & Ha' & E). exists a'. split; [assumption|apply evolves_weaken; assumption].
Qed.

(* ------------------------------------------------------------------------------------------ *)
(* Part 3b: creating an entity while unlocked                                                   *)
Lemma nth_ext_error {A} : forall (l l' : list A), (forall k, nth_error l k = nth_error l' k) -> l = l'.
Proof.
  induction l as [|x t IH]; intros [|y t'] H.
  - reflexivity.
  - specialize (H 0). discriminate.
  - specialize (H 0). discriminate.
  - pose proof (H 0) as H0. inversion H0; subst. f_equal. apply IH. intro k. apply (H (S k)).
Qed.

(* only the columns of archetype ai and the event log differ *)
Definition cols_only (ai : nat) (s s' : mst) : Prop :=
  fr1 s' = fr1 s /\ length (archs s') = length (archs s) /\
  forall k a, nth_error (archs s) k = Some a ->
    exists a', nth_error (archs s') k = Some a' /\ ab1 a' = ab1 a /\ (k <> ai -> a' = a).

Lemma cols_only_refl ai s : cols_only ai s s.
Proof. split; [reflexivity|]. split; [reflexivity|]. intros k a Ha. exists a. auto. Qed.

Lemma cols_only_trans ai s1 s2 s3 : cols_only ai s1 s2 -> cols_only ai s2 s3 -> cols_only ai s1 s3.
Proof.
  intros (A1 & A2 & A3) (B1 & B2 & B3). split; [congruence|]. split; [congruence|].
  intros k a Ha. destruct (A3 _ _ Ha) as (a' & Ha' & E1 & N1). destruct (B3 _ _ Ha') as (a'' & Ha'' & E2 & N2).
  exists a''. split; [assumption|]. split; [congruence|]. intro Hk. rewrite (N2 Hk). apply N1. assumption.
Qed.

Lemma cols_only_emit ai s e : cols_only ai s (emit s e).
Proof. split; [reflexivity|]. split; [reflexivity|]. intros k a Ha. exists a. auto. Qed.

Lemma cols_only_if_emit ai s (b : bool) e : cols_only ai s (if b then emit s e else s).
Proof. destruct b; [apply cols_only_emit|apply cols_only_refl]. Qed.

Lemma write_cell_cols s ai ci slot v s' : write_cell s ai ci slot v = Ok s' -> cols_only ai s s'.
Proof.
  intro H. apply write_cell_ok in H. destruct H as (a & Ha & ->).
  split; [reflexivity|]. split; [cbn [archs set_arch set_archs]; apply upd_length|].
  intros k x Hx. cbn [archs set_arch set_archs]. destruct (Nat.eq_dec k ai) as [->|Hne].
  - rewrite Ha in Hx. inversion Hx; subst x. exists (put_cell a ci slot v).
    split; [apply nth_error_upd_same; apply nth_error_Some; congruence|]. split; [apply ab1_put|intro F; contradiction].
  - exists x. rewrite nth_error_upd_other by congruence. auto.
Qed.

Lemma construct_default_cols s ai c ci slot h udv s' : construct_default s ai c ci slot h udv = Ok s' -> cols_only ai s s'.
Proof.
  unfold construct_default. intro H. bd H inf Hinf. bd H s1 Hs1. inversion H; subst s'; clear H.
  eapply cols_only_trans; [|apply cols_only_if_emit].
  destruct (ci_create inf) as [v|].
  - bd Hs1 s2 Hs2. inversion Hs1; subst s1. eapply cols_only_trans; [eapply write_cell_cols; eassumption|apply cols_only_if_emit].
  - destruct (ci_default inf) as [v|]; [|inversion Hs1; apply cols_only_refl].
    destruct udv; [eapply write_cell_cols; eassumption|inversion Hs1; apply cols_only_refl].
Qed.

Lemma fold_cols_only {A} (f : mst -> A -> res mst) ai l s s' :
  (forall st x st', f st x = Ok st' -> cols_only ai st st') -> fold_res f l s = Ok s' -> cols_only ai s s'.
Proof.
  intros Hf H. apply (fold_res_inv f (fun st => cols_only ai s st) l s s'); [apply cols_only_refl| |assumption].
  intros x st st' _ HP Hx. eapply cols_only_trans; [exact HP|]. eapply Hf. eassumption.
Qed.

Lemma ab1_fields a a' : ab1 a' = ab1 a ->
  am_mask a' = am_mask a /\ am_ents a' = am_ents a /\ am_size a' = am_size a /\ am_chunk a' = am_chunk a /\
  am_gver a' = am_gver a /\ am_cver a' = am_cver a.
Proof.
  intro H. repeat split.
  - apply (f_equal am_mask) in H. exact H.
  - apply (f_equal am_ents) in H. exact H.
  - apply (f_equal am_size) in H. exact H.
  - apply (f_equal am_chunk) in H. exact H.
  - apply (f_equal am_gver) in H. exact H.
  - apply (f_equal am_cver) in H. exact H.
Qed.

(* the fields the invariant looks at *)
Definition core_eq (s s' : mst) : Prop :=
  slots s' = slots s /\ locs s' = locs s /\ empty_slots s' = empty_slots s /\ lockc s' = lockc s /\ marked s' = marked s /\
  bufs s' = bufs s /\ wv s' = wv s.

Lemma fr1_core s s' : fr1 s' = fr1 s -> core_eq s s'.
Proof.
  intro H. repeat split.
  - apply (f_equal slots) in H. exact H.
  - apply (f_equal locs) in H. exact H.
  - apply (f_equal empty_slots) in H. exact H.
  - apply (f_equal lockc) in H. exact H.
  - apply (f_equal marked) in H. exact H.
  - apply (f_equal bufs) in H. exact H.
  - apply (f_equal wv) in H. exact H.
Qed.

(* Archetype::insert with the version stamps: emplace, constructors, emplace again, location *)
Lemma arch_insert_effect s ai h skip s' a :
  nth_error (archs s) ai = Some a -> arch_insert s ai h skip = Ok s' ->
  exists a1 a2 a3,
    vs_emplace a (wv s) (length (am_ents a)) = Ok a1 /\
    ab1 a2 = ab1 (with_size (with_ents a1 (am_ents a1 ++ [h])) (Nat.max (am_size a1) (S (length (am_ents a))))) /\
    vs_emplace a2 (wv s) (length (am_ents a)) = Ok a3 /\
    archs s' = upd (archs s) ai a3 /\
    N.to_nat (fst h) < length (locs s) /\
    locs s' = upd (locs s) (N.to_nat (fst h)) {| l_arch := Some ai; l_idx := length (am_ents a) |} /\
    slots s' = slots s /\ empty_slots s' = empty_slots s /\ lockc s' = lockc s /\ marked s' = marked s /\ bufs s' = bufs s /\
    wv s' = wv s.
Proof.
  intros Ha H. assert (Hai : ai < length (archs s)) by (apply nth_error_Some; congruence).
  unfold arch_insert in H. bd H r Hr. destruct r as (s1, idx).
  unfold push_back in Hr. rewrite (nth_res_some _ _ _ Ha) in Hr. bok Hr. bd Hr a1 Ha1. inversion Hr; subst s1 idx; clear Hr.
  destruct (vs_emplace_ok _ _ _ _ Ha1) as (g1 & c1 & Ea1).
  assert (Hents1 : am_ents a1 = am_ents a) by (rewrite Ea1; reflexivity).
  cbv beta iota in H.
  set (a1' := with_size (with_ents a1 (am_ents a1 ++ [h])) (Nat.max (am_size a1) (S (length (am_ents a))))) in *.
  assert (Ha1' : nth_error (archs (set_arch s ai a1')) ai = Some a1') by (cbn [archs set_arch set_archs]; apply nth_error_upd_same; exact Hai).
  rewrite (nth_res_some _ _ _ Ha1') in H. bok H.
  bd H s2 Hs2.
  assert (Hco : cols_only ai (set_arch s ai a1') s2).
  { destruct ((skip =? am_mask a1')%N); [inversion Hs2; apply cols_only_refl|].
    bd Hs2 sm Hsm. eapply cols_only_trans.
    - eapply fold_cols_only; [|exact Hsm]. intros st [ci c] st' Hf. bd Hf inf Hinf.
      destruct ((match ci_create inf with Some _ => true | None => false end) || ci_aa inf); [|inversion Hf; apply cols_only_refl].
      destruct ((skip =? 0)%N || negb (mhas skip c)); [eapply construct_default_cols; eassumption|inversion Hf; apply cols_only_refl].
    - eapply fold_cols_only; [|exact Hs2]. intros st [ci c] st' Hf. bd Hf inf Hinf.
      destruct ((match ci_create inf with Some _ => true | None => false end) || ci_aa inf); [inversion Hf; apply cols_only_refl|].
      destruct (ci_default inf); [|inversion Hf; apply cols_only_refl].
      destruct ((skip =? 0)%N || negb (mhas skip c)); [eapply write_cell_cols; eassumption|inversion Hf; apply cols_only_refl]. }
  destruct Hco as (F2 & L2 & P2). destruct (P2 _ _ Ha1') as (a2 & Ha2 & Eab & _).
  rewrite (nth_res_some _ _ _ Ha2) in H. bok H. bd H a3 Ha3.
  apply update_location_ok in H. destruct H as (Hlt & ->).
  destruct (fr1_core _ _ F2) as (C1 & C2 & C3 & C4 & C5 & C6 & C7).
  cbn [slots locs empty_slots lockc marked bufs wv set_arch set_archs set_locs] in *.
  exists a1, a2, a3. split; [assumption|]. split; [exact Eab|]. rewrite C7 in Ha3. split; [exact Ha3|].
  assert (Harchs2 : archs s2 = upd (archs s) ai a2).
  { apply nth_ext_error. intro k. destruct (Nat.eq_dec k ai) as [->|Hne].
    - rewrite Ha2. symmetry. apply nth_error_upd_same. exact Hai.
    - rewrite nth_error_upd_other by congruence.
      destruct (nth_error (archs s) k) as [x|] eqn:Ex.
      + assert (Hx : nth_error (archs (set_arch s ai a1')) k = Some x) by (cbn [archs set_arch set_archs]; rewrite nth_error_upd_other by congruence; exact Ex).
        destruct (P2 _ _ Hx) as (x' & Hx' & _ & Hsame). rewrite (Hsame Hne) in Hx'. exact Hx'.
      + apply nth_error_None. apply nth_error_None in Ex. rewrite L2. cbn [archs set_arch set_archs]. rewrite upd_length. exact Ex. }
  split; [cbn [archs set_arch set_archs set_locs]; rewrite Harchs2, upd_upd; reflexivity|].
  split; [rewrite <- C2; exact Hlt|]. split; [rewrite C2; reflexivity|]. repeat split; assumption.
Qed.

Lemma le_all_const w (l : list N) : le_all w (map (fun _ => w) l).
Proof. induction l; constructor; [apply N.le_refl|assumption]. Qed.

Lemma inserted_ok w a h a1 a2 a3 :
  arch_ok w a -> vs_emplace a w (length (am_ents a)) = Ok a1 ->
  ab1 a2 = ab1 (with_size (with_ents a1 (am_ents a1 ++ [h])) (Nat.max (am_size a1) (S (length (am_ents a))))) ->
  vs_emplace a2 w (length (am_ents a)) = Ok a3 ->
  arch_ok w a3 /\ am_ents a3 = am_ents a ++ [h].
Proof.
  intros [W1 W2 W3 W4 W5 W6 W7 W8] H1 H2 H3.
  destruct (vs_emplace_bounds _ _ _ _ H1 W3) as (_ & Hc1).
  pose proof (vs_emplace_spec _ _ _ _ H1) as S1. cbv zeta in S1.
  destruct S1 as (c1 & _ & _ & Eg1 & _ & _ & _ & _ & Em1 & Ee1 & Ek1 & _ & Es1).
  destruct (ab1_fields _ _ H2) as (Em2 & Ee2 & Es2 & Ek2 & Eg2 & Ec2).
  cbn [with_size with_ents am_mask am_ents am_size am_chunk am_gver am_cver] in Em2, Ee2, Es2, Ek2, Eg2, Ec2.
  assert (Hc2 : Forall (fun x => (x <= w)%N) (am_cver a2)) by (rewrite Ec2; exact Hc1).
  destruct (vs_emplace_bounds _ _ _ _ H3 Hc2) as (Hb3 & Hc3).
  pose proof (vs_emplace_spec _ _ _ _ H3) as S3. cbv zeta in S3.
  destruct S3 as (c3 & Hch3 & _ & Eg3 & Hlen3 & _ & _ & _ & Em3 & Ee3 & Ek3 & _ & Es3).
  apply chunk_at_ok in Hch3. destruct Hch3 as (Hcs & ->).
  assert (Hents : am_ents a3 = am_ents a ++ [h]) by (rewrite Ee3, Ee2, Ee1; reflexivity).
  split; [|exact Hents]. constructor.
  - unfold ver_wf. rewrite Eg3, map_length, Eg2, Eg1, map_length, Em3, Em2, Em1. exact W1.
  - exact Hb3.
  - exact Hc3.
  - intros _. rewrite Eg3. apply le_all_const.
  - rewrite Es3, Es2, Es1, Hents, app_length, W5. simpl. lia.
  - intros _. rewrite Ek3. exact Hcs.
  - intros _. rewrite Hlen3, Eg3, map_length, Ek3, Hents, app_length. simpl length.
    replace (length (am_ents a) + 1 - 1) with (length (am_ents a)) by lia. lia.
  - intro He. rewrite Hents in He. destruct (am_ents a); discriminate.
Qed.

Lemma make_shared_info_core sids : forall s sh s' sh', fold_res (fun (x : mst * shared_info) sid =>
      let '(st, sh) := x in
      let '(st1, i) := new_inst st sid 0%Z in
      do sh' <- si_add sh sid i; Ok (st1, sh')) sids (s, sh) = Ok (s', sh') ->
  core_eq s s' /\ archs s' = archs s.
Proof.
  induction sids as [|sid t IH]; intros s sh s' sh' H.
  - simpl in H. inversion H; subst. split; [repeat split|reflexivity].
  - cbn [fold_res] in H. bd H r Hr. destruct r as [s1 sh1]. unfold new_inst in Hr. bd Hr sh2 Hsh. inversion Hr; subst s1 sh1; clear Hr.
    destruct (IH _ _ _ _ H) as ((C1 & C2 & C3 & C4 & C5 & C6 & C7) & C8).
    cbn [slots locs empty_slots lockc marked bufs wv archs set_pool] in *. split; [repeat split; assumption|assumption].
Qed.

Lemma get_arch_effect s m sh s1 ai :
  get_arch s m sh = Ok (s1, ai) ->
  s1 = s \/ exists a, s1 = set_archs s (archs s ++ [a]) /\ ai = length (archs s) /\
                      am_ents a = [] /\ am_cver a = [] /\ length (am_gver a) = mcount (am_mask a) /\ am_size a = 0.
Proof.
  unfold get_arch. intro H. bd H exm Hexm. cbv zeta in H.
  destruct (find_arch (archs s) (munion m exm) sh 0); [inversion H; left; reflexivity|].
  bd H cs Hcs. inversion H; subst s1 ai; clear H. right. eexists. split; [reflexivity|]. split; [reflexivity|].
  cbn [am_ents am_cver am_gver am_mask am_size]. rewrite repeat_length. auto.
Qed.

Lemma fresh_arch_ok w a : am_ents a = [] -> am_cver a = [] -> length (am_gver a) = mcount (am_mask a) -> am_size a = 0 -> arch_ok w a.
Proof.
  intros E1 E2 E3 E4. constructor; try (intro F; contradiction).
  - exact E3.
  - intros c i _. rewrite E2. destruct (length (am_gver a) * c + i); apply N.le_0_l.
  - unfold le_all. rewrite E2. constructor.
  - rewrite E4, E1. reflexivity.
  - intros _. exact E2.
Qed.

Lemma VInv_core s s' js : core_eq s s' -> archs s' = archs s -> VInv (s, js) -> VInv (s', js).
Proof.
  intros (C1 & C2 & C3 & C4 & C5 & C6 & C7) C8 [I1 I2 I3 I4 I5 I6 I7]. cbn [fst snd] in *.
  constructor; cbn [fst snd].
  - congruence.
  - congruence.
  - unfold bufs_empty. rewrite C6. exact I3.
  - congruence.
  - rewrite C7, C8. exact I5.
  - intros h l ai Hv Hl Hai. rewrite (is_valid_slots _ _ _ C1) in Hv. rewrite C2 in Hl. rewrite C8. eapply I6; eassumption.
  - rewrite C7. exact I7.
Qed.

Lemma nth_error_app_l {A} (l : list A) x k a : nth_error l k = Some a -> nth_error (l ++ [x]) k = Some a.
Proof. intro H. rewrite nth_error_app1; [assumption|]. apply nth_error_Some. congruence. Qed.

(* stamps of the archetype after Archetype::insert: the version chunk of the new entity carries the world version in
   every component; nothing else moved *)
Lemma inserted_stamps w a h a1 a2 a3 :
  arch_ok w a -> vs_emplace a w (length (am_ents a)) = Ok a1 ->
  ab1 a2 = ab1 (with_size (with_ents a1 (am_ents a1 ++ [h])) (Nat.max (am_size a1) (S (length (am_ents a))))) ->
  vs_emplace a2 w (length (am_ents a)) = Ok a3 ->
  am_mask a3 = am_mask a /\ am_chunk a3 = am_chunk a /\ length (am_gver a3) = length (am_gver a) /\
  (forall i, i < length (am_gver a) -> nth (length (am_gver a) * (length (am_ents a) / am_chunk a) + i) (am_cver a3) 0%N = w) /\
  (forall p, nth p (am_cver a3) 0%N = nth p (am_cver a) 0%N \/
             exists i, i < length (am_gver a) /\ p = length (am_gver a) * (length (am_ents a) / am_chunk a) + i).
Proof.
  intros [W1 W2 W3 W4 W5 W6 W7 W8] H1 H2 H3.
  pose proof (vs_emplace_spec _ _ _ _ H1) as S1. cbv zeta in S1.
  destruct S1 as (c1 & Hch1 & _ & Eg1 & Hlen1 & _ & _ & Hlow1 & Em1 & Ee1 & Ek1 & _ & Es1).
  apply chunk_at_ok in Hch1. destruct Hch1 as (Hcs & ->).
  destruct (ab1_fields _ _ H2) as (Em2 & Ee2 & Es2 & Ek2 & Eg2 & Ec2).
  cbn [with_size with_ents am_mask am_ents am_size am_chunk am_gver am_cver] in Em2, Ee2, Es2, Ek2, Eg2, Ec2.
  pose proof (vs_emplace_spec _ _ _ _ H3) as S3. cbv zeta in S3.
  destruct S3 as (c3 & Hch3 & _ & Eg3 & Hlen3 & _ & Hrow3 & Hlow3 & Em3 & Ee3 & Ek3 & _ & Es3).
  apply chunk_at_ok in Hch3. destruct Hch3 as (_ & ->).
  assert (Enc : length (am_gver a2) = length (am_gver a)) by (rewrite Eg2, Eg1, map_length; reflexivity).
  rewrite Enc, Ek2, Ek1 in *.
  set (nc := length (am_gver a)) in *. set (c := length (am_ents a) / am_chunk a) in *.
  split; [congruence|]. split; [congruence|]. split; [rewrite Eg3, map_length; exact Enc|].
  split; [exact Hrow3|].
  intro p. destruct (Nat.lt_ge_cases p (nc * c)) as [L|G].
  - left. rewrite Hlow3 by exact L. rewrite Ec2. apply Hlow1. exact L.
  - destruct (Nat.lt_ge_cases p (nc * c + nc)) as [L2|G2].
    + right. exists (p - nc * c). split; lia.
    + left. rewrite nth_overflow by (rewrite Hlen3; lia). symmetry. apply nth_overflow.
      destruct (am_ents a) as [|e0 et] eqn:Eents.
      * rewrite W8 by reflexivity. simpl. lia.
      * rewrite W7 by discriminate. fold nc.
        assert (Hc' : (length (e0 :: et) - 1) / am_chunk a <= c).
        { subst c. apply Nat.div_le_mono; [lia|]. simpl. lia. }
        assert (nc * S ((length (e0 :: et) - 1) / am_chunk a) <= nc * S c) by (apply Nat.mul_le_mono_l; lia). lia.
Qed.

(* createEntity while unlocked (fresh slot: no entity was ever destroyed): the invariant is kept; the new entity is
   appended to its archetype, whose version chunk of that position is stamped with the world version in every
   component; nothing else changes *)
Theorem create_effect s js tid m sids via s' out_ :
  VInv (s, js) -> step s (OCreate tid m sids via) = Ok (s', out_) ->
  VInv (s', js) /\ wv s' = wv s /\
  exists h ai a3 idx,
    out_ = RHandle h /\ is_valid s h = false /\ is_valid s' h = true /\
    nth_error (archs s') ai = Some a3 /\ S idx = length (am_ents a3) /\ nth_error (am_ents a3) idx = Some h /\
    (exists l, nth_error (locs s') (N.to_nat (fst h)) = Some l /\ l_arch l = Some ai /\ l_idx l = idx) /\
    (forall i, i < length (am_gver a3) -> nth (length (am_gver a3) * (idx / am_chunk a3) + i) (am_cver a3) 0%N = wv s) /\
    (forall h', is_valid s h' = true -> is_valid s' h' = true) /\
    (forall h' l, is_valid s h' = true -> nth_error (locs s) (N.to_nat (fst h')) = Some l ->
                  nth_error (locs s') (N.to_nat (fst h')) = Some l) /\
    (forall k a, nth_error (archs s) k = Some a -> exists a', nth_error (archs s') k = Some a' /\ evolves_w a a' /\ (k <> ai -> a' = a)) /\
    (forall k a', nth_error (archs s') k = Some a' -> k = ai \/ nth_error (archs s) k = Some a') /\
    (forall a, nth_error (archs s) ai = Some a ->
       am_ents a3 = am_ents a ++ [h] /\
       forall p, nth p (am_cver a3) 0%N = nth p (am_cver a) 0%N \/
                 exists i, i < length (am_gver a3) /\ p = length (am_gver a3) * (idx / am_chunk a3) + i) /\
    (nth_error (archs s) ai = None -> idx = 0).
Proof.
  intros HI H. cbn [step] in H. bd H r0 Hr0. destruct r0 as [s0 sh].
  unfold make_shared_info in Hr0. destruct (make_shared_info_core _ _ _ _ _ Hr0) as (Hcore0 & Harchs0).
  pose proof Hcore0 as (Cs0 & Cl0 & _ & _ & _ & _ & W0).
  pose proof (VInv_core _ _ _ Hcore0 Harchs0 HI) as HI0. clear HI Hr0 Hcore0.
  pose proof HI0 as [I1 I2 I3 I4 I5 I6 I7]. cbn [fst snd] in *. rewrite I1 in H.
  bd H r Hr. destruct r as [s1 ai]. bd H r2 Hr2. destruct r2 as [s2 h]. bd H s3 Hs3. inversion H; subst s' out_; clear H.
  (* the archetype exists or is appended empty *)
  assert (HI1 : VInv (s1, js)).
  { destruct (get_arch_effect _ _ _ _ _ Hr) as [->|(a0 & -> & -> & E1 & E2 & E3 & E4)]; [exact HI0|].
    constructor; cbn [fst snd lockc marked bufs empty_slots archs wv set_archs]; try assumption.
    - apply Forall_app. split; [exact I5|]. constructor; [|constructor]. apply fresh_arch_ok; assumption.
    - intros h' l ai' Hv Hl Hai'. destruct (I6 h' l ai' Hv Hl Hai') as (x & Hx1 & Hx2). exists x. split; [apply nth_error_app_l; assumption|assumption]. }
  assert (Hga : wv s1 = wv s0 /\ slots s1 = slots s0 /\ locs s1 = locs s0 /\
                (archs s1 = archs s0 \/ exists a0, archs s1 = archs s0 ++ [a0] /\ ai = length (archs s0) /\ am_ents a0 = [] /\ am_cver a0 = [])).
  { destruct (get_arch_effect _ _ _ _ _ Hr) as [->|(a0 & -> & -> & E1 & E2 & _)]; cbn [wv slots locs archs set_archs].
    - repeat split; try reflexivity. left. reflexivity.
    - repeat split; try reflexivity. right. exists a0. auto. }
  destruct Hga as (W1 & Cs1 & Cl1 & Harchs1).
  clear HI0 I1 I2 I3 I4 I5 I6 I7 Hr.
  pose proof HI1 as [I1 I2 I3 I4 I5 I6 I7]. cbn [fst snd] in *.
  (* a fresh id *)
  unfold create_id in Hr2. rewrite I4 in Hr2. inversion Hr2; subst s2 h; clear Hr2.
  set (id := N.of_nat (length (slots s1))) in *.
  set (s2 := set_locs (set_slots s1 (slots s1 ++ [{| s_id := id; s_ver := 0 |}])) (locs s1 ++ [default_loc])) in *.
  assert (Hex : exists a, nth_error (archs s2) ai = Some a).
  { pose proof Hs3 as Hx. unfold arch_insert, push_back in Hx. bd Hx rr Hrr. bd Hrr a Ha. apply nth_res_ok in Ha. eauto. }
  destruct Hex as (a & Ha2). assert (Ha : nth_error (archs s1) ai = Some a) by exact Ha2.
  destruct (arch_insert_effect _ _ _ _ _ _ Ha2 Hs3) as (a1 & a2 & a3 & E1 & E2 & E3 & Earchs & Hlt & Elocs & Eslots & Efree & Elock & Emarked & Ebufs & Ewv).
  clear Hs3. subst s2. cbn [archs locs slots empty_slots lockc marked bufs wv set_locs set_slots fst] in *.
  pose proof (Forall_nth_error _ _ _ _ I5 Ha) as Hoka.
  destruct (inserted_ok (wv s1) a (id, 0%N) a1 a2 a3 Hoka E1 E2 E3) as (Hok3 & Hents3).
  destruct (inserted_stamps (wv s1) a (id, 0%N) a1 a2 a3 Hoka E1 E2 E3) as (Em3 & Ek3 & Eg3 & Hrow3 & Hsrc3).
  assert (Hid : N.to_nat id = length (slots s1)) by (unfold id; apply Nat2N.id).
  assert (Hvalid_old : forall h', is_valid s1 h' = true -> N.to_nat (fst h') < length (slots s1)).
  { intros h' Hv. unfold is_valid in Hv. destruct (is_null h'); [discriminate|].
    destruct (nth_error (slots s1) (N.to_nat (fst h'))) eqn:En; [|discriminate]. apply nth_error_Some. congruence. }
  assert (HVI : VInv (s3, js)).
  { constructor; cbn [fst snd].
    - congruence.
    - congruence.
    - unfold bufs_empty. rewrite Ebufs. exact I3.
    - congruence.
    - rewrite Ewv, Earchs. apply Forall_upd; assumption.
    - intros h' l ai' Hv Hl Hai'. rewrite Earchs. rewrite Elocs in Hl.
      unfold is_valid in Hv. destruct (is_null h') eqn:En; [discriminate|]. rewrite Eslots in Hv.
      destruct (Nat.eq_dec (N.to_nat (fst h')) (length (slots s1))) as [Eq|Hne].
      + rewrite Eq in Hv. rewrite nth_error_app2, Nat.sub_diag in Hv by lia. cbn [nth_error s_ver] in Hv. apply N.eqb_eq in Hv.
        assert (Hh' : h' = (id, 0%N)).
        { destruct h' as [i v]. cbn [fst snd] in *. subst v. f_equal. rewrite <- Hid in Eq. apply N2Nat.inj. exact Eq. }
        subst h'. cbn [fst] in Hl. rewrite nth_error_upd_same in Hl by exact Hlt. inversion Hl; subst l; clear Hl.
        cbn [l_arch l_idx] in *. inversion Hai'; subst ai'.
        exists a3. split; [apply nth_error_upd_same; apply nth_error_Some; congruence|].
        rewrite Hents3. apply nth_error_app_last.
      + assert (Hv1 : is_valid s1 h' = true).
        { unfold is_valid. rewrite En.
          destruct (Nat.lt_ge_cases (N.to_nat (fst h')) (length (slots s1))) as [L|G].
          - rewrite nth_error_app1 in Hv by exact L. exact Hv.
          - rewrite nth_error_app2 in Hv by exact G.
            destruct (N.to_nat (fst h') - length (slots s1)) as [|n] eqn:En'; [lia|]. destruct n; discriminate. }
        rewrite Hid in Hl. rewrite nth_error_upd_other in Hl by congruence.
        assert (Hl1 : nth_error (locs s1) (N.to_nat (fst h')) = Some l).
        { destruct (Nat.lt_ge_cases (N.to_nat (fst h')) (length (locs s1))) as [L|G].
          - rewrite nth_error_app1 in Hl by exact L. exact Hl.
          - exfalso. rewrite nth_error_app2 in Hl by exact G.
            destruct (N.to_nat (fst h') - length (locs s1)) as [|n] eqn:En'.
            + cbn [nth_error] in Hl. inversion Hl; subst l. discriminate.
            + destruct n; discriminate. }
        destruct (I6 h' l ai' Hv1 Hl1 Hai') as (x & Hx1 & Hx2).
        destruct (Nat.eq_dec ai' ai) as [->|Hna].
        * rewrite Ha in Hx1. inversion Hx1; subst x. exists a3. split; [apply nth_error_upd_same; apply nth_error_Some; congruence|].
          rewrite Hents3. apply nth_error_app_l. exact Hx2.
        * exists x. split; [rewrite nth_error_upd_other by congruence; exact Hx1|exact Hx2].
    - rewrite Ewv. exact I7. }
  split; [exact HVI|]. split; [congruence|].
  assert (Hai : ai < length (archs s1)) by (apply nth_error_Some; congruence).
  assert (Hlen3 : length (am_ents a3) = S (length (am_ents a))) by (rewrite Hents3, app_length; simpl; lia).
  exists (id, 0%N), ai, a3, (length (am_ents a)).
  split; [reflexivity|]. split.
  { unfold is_valid. destruct (is_null (id, 0%N)); [reflexivity|]. cbn [fst]. rewrite <- Cs0, <- Cs1, Hid.
    rewrite (proj2 (nth_error_None _ _)) by lia. reflexivity. }
  split.
  { unfold is_valid. assert (En : is_null (id, 0%N) = false).
    { unfold is_null, handle_eqb, null_handle. cbn [fst snd]. apply andb_false_iff. right. reflexivity. }
    rewrite En. cbn [fst snd]. rewrite Eslots, Hid, nth_error_app2, Nat.sub_diag by lia. reflexivity. }
  split; [rewrite Earchs; apply nth_error_upd_same; exact Hai|]. split; [symmetry; exact Hlen3|].
  split; [rewrite Hents3; apply nth_error_app_last|].
  split; [eexists; split; [rewrite Elocs; cbn [fst]; apply nth_error_upd_same; exact Hlt|split; reflexivity]|].
  split; [intros i Hi; rewrite Eg3, Ek3 in *; rewrite <- W0, <- W1; apply Hrow3; exact Hi|].
  split.
  { intros h' Hv. rewrite <- (is_valid_slots s s0 h' Cs0), <- (is_valid_slots s0 s1 h' Cs1) in Hv.
    pose proof (Hvalid_old _ Hv) as Hlt'. unfold is_valid in *. destruct (is_null h'); [discriminate|].
    rewrite Eslots, nth_error_app1 by exact Hlt'. exact Hv. }
  split.
  { intros h' l Hv Hl. rewrite <- (is_valid_slots s s0 h' Cs0), <- (is_valid_slots s0 s1 h' Cs1) in Hv.
    pose proof (Hvalid_old _ Hv) as Hlt'. rewrite <- Cl0, <- Cl1 in Hl.
    rewrite Elocs, nth_error_upd_other by lia. rewrite nth_error_app1; [exact Hl|]. apply nth_error_Some. congruence. }
  assert (Hev3 : evolves_w a a3).
  { split; [repeat split; try assumption; exists [(id, 0%N)]; exact Hents3|].
    intro p. destruct (Hsrc3 p) as [E|(i & Hi & ->)]; [rewrite E; apply N.le_refl|]. rewrite (Hrow3 i Hi).
    apply le_all_nth. destruct Hoka as [_ _ X _ _ _ _ _]. exact X. }
  split.
  { intros k x Hx. rewrite <- Harchs0 in Hx.
    assert (Hx1 : nth_error (archs s1) k = Some x).
    { destruct Harchs1 as [->|(a0 & -> & _)]; [exact Hx|apply nth_error_app_l; exact Hx]. }
    destruct (Nat.eq_dec k ai) as [->|Hne].
    - rewrite Ha in Hx1. inversion Hx1; subst x. exists a3. split; [rewrite Earchs; apply nth_error_upd_same; exact Hai|].
      split; [exact Hev3|intro F; contradiction].
    - exists x. split; [rewrite Earchs, nth_error_upd_other by congruence; exact Hx1|]. split; [apply evolves_w_refl|reflexivity]. }
  split.
  { intros k a' Hk. destruct (Nat.eq_dec k ai) as [->|Hne]; [left; reflexivity|right].
    rewrite Earchs, nth_error_upd_other in Hk by congruence. rewrite <- Harchs0.
    destruct Harchs1 as [E|(a0 & E & -> & _)]; [rewrite <- E; exact Hk|].
    rewrite E in Hk. assert (k < length (archs s0 ++ [a0])) by (apply nth_error_Some; congruence).
    rewrite app_length in H. simpl in H. rewrite nth_error_app1 in Hk by lia. exact Hk. }
  split.
  { intros x Hx. rewrite <- Harchs0 in Hx.
    assert (Hx1 : nth_error (archs s1) ai = Some x).
    { destruct Harchs1 as [->|(a0 & -> & _)]; [exact Hx|apply nth_error_app_l; exact Hx]. }
    rewrite Ha in Hx1. inversion Hx1; subst x. split; [exact Hents3|].
    intro p. rewrite Eg3, Ek3. exact (Hsrc3 p). }
  intro Hnone. rewrite <- Harchs0 in Hnone. destruct Harchs1 as [E|(a0 & E & -> & E0 & _)].
  - rewrite E in Ha. congruence.
  - rewrite E, nth_error_app2, Nat.sub_diag in Ha by lia. inversion Ha; subst a. rewrite E0. reflexivity.
Qed.

Theorem VInv_create s js tid m sids via s' out_ :
  VInv (s, js) -> step s (OCreate tid m sids via) = Ok (s', out_) -> VInv (s', js) /\ wv s' = wv s.
Proof. intros HI H. destruct (create_effect _ _ _ _ _ _ _ _ HI H) as (A & B & _). auto. Qed.

Lemma relast_id j : relast j (j_last j) = j.
Proof. destruct j; reflexivity. Qed.

Lemma same_job_refl_list js : Forall2 same_job js js.
Proof. apply Forall2_refl'. intro j. split; reflexivity. Qed.

Lemma same_job_upd js jn j v : nth_error js jn = Some j -> Forall2 same_job js (upd js jn (relast j v)).
Proof. intro H. eapply Forall2_upd_r; [intro x; split; reflexivity|eassumption|split; reflexivity]. Qed.

(* --- the two outcomes of a run --- *)
Lemma vstep_run_cases s js jn par tov wk cap st' out :
  lockc s = 0 -> bufs_empty s ->
  vstep (s, js) (VRun jn par tov wk cap) = Ok (st', out) ->
  exists j s1 fas0, nth_error js jn = Some j /\ job_filter s j = Ok (s1, fas0) /\
    ((total_count (map (set_cap cap) fas0) = 0 /\ st' = (s1, js) /\ out = RJob (j_last j) []) \/
     (total_count (map (set_cap cap) fas0) <> 0 /\
      exists per_task vis s3,
        run_arrays (map (set_cap cap) fas0) (run_tasks par tov wk (total_count (map (set_cap cap) fas0))) = Ok per_task /\
        fold_res (vis_outer (do_lock (inc_wv s1)) j (map (set_cap cap) fas0)) per_task (O, O, []) = Ok vis /\
        archs s3 = archs s1 /\ wv s3 = ((wv s + 1) mod WV_MOD)%N /\ slots s3 = slots s /\ locs s3 = locs s /\ lockc s3 = 0 /\
        marked s3 = marked s /\ empty_slots s3 = empty_slots s /\ bufs_empty s3 /\ cached s3 = cached s /\
        st' = (s3, upd js jn (relast j (wv s))) /\ out = RJob (wv s) (snd vis))).
Proof.
  intros Hl Hb H. cbn [vstep] in H. bd H j Hj. apply nth_res_ok in Hj. bd H r Hr. rewrite step_runjob_eq in Hr.
  bd Hr r0 Hf. destruct r0 as [s1 fas0]. cbv zeta in Hr. exists j, s1, fas0. split; [assumption|]. split; [assumption|].
  destruct (job_filter_state _ _ _ _ Hf) as (E1 & Ewv & _).
  destruct (total_count (map (set_cap cap) fas0)) as [|n] eqn:Et.
  - left. inversion Hr; subst r; clear Hr. cbn [fst snd] in H. inversion H; subst. split; [reflexivity|].
    rewrite relast_id, (upd_same_id _ _ _ Hj). auto.
  - right. split; [discriminate|]. bd Hr per_task Hp. bd Hr vis Hv. bd Hr r3 Hu. inversion Hr; subst r; clear Hr.
    cbn [fst snd] in H. inversion H; subst st' out; clear H.
    assert (Hl1 : lockc (inc_wv s1) = 0) by (rewrite E1; exact Hl).
    assert (Hb1 : bufs_empty (inc_wv s1)) by (unfold bufs_empty; rewrite E1; exact Hb).
    destruct (unlock_lock _ Hl1 Hb1) as (s3 & Hu3 & U1 & U2 & U3 & U4 & U5 & U6 & U7 & U8 & U9).
    rewrite Hu3 in Hu. inversion Hu; subst r3; clear Hu. cbn [fst].
    exists per_task, vis, s3. split; [assumption|]. split; [assumption|].
    split; [rewrite U1; reflexivity|]. split; [rewrite U2; unfold inc_wv; cbn [wv set_wv]; rewrite Ewv; reflexivity|].
    split; [rewrite U3, E1; reflexivity|]. split; [rewrite U4, E1; reflexivity|]. split; [assumption|].
    split; [rewrite U6, E1; reflexivity|]. split; [rewrite U7, E1; reflexivity|]. split; [assumption|].
    split; [rewrite U9, E1; reflexivity|]. rewrite Ewv. split; reflexivity.
Qed.

Lemma jf_rel_ok j w a a' : arch_ok w a -> jf_rel j w a a' -> arch_ok w a' /\ evolves a a'.
Proof.
  intros Ha [->|(-> & _)]; [split; [assumption|apply evolves_refl]|apply filtered_ok; assumption].
Qed.

Lemma inc_nowrap w : (w + 1 < WV_NULL)%N -> ((w + 1) mod WV_MOD = w + 1)%N.
Proof. intro H. apply N.mod_small. unfold WV_NULL, WV_MOD in *. lia. Qed.

(* what each operation does to the world version, its cached copy and the jobs *)
Definition wv_effect (st : vstate) (o : vop) (st' : vstate) (out_ : out) : Prop :=
  let '(s, js) := st in let '(s', js') := st' in
  match o with
  | VUpdate true => wv s' = (wv s + 1)%N /\ cached s' = Some (wv s') /\ js' = js
  | VUpdate false => wv s' = wv s /\ cached s' = Some (wv s) /\ js' = js
  | VRun jn _ _ _ _ =>
    exists j, nth_error js jn = Some j /\ cached s' = cached s /\
      ((out_ = RJob (j_last j) [] /\ wv s' = wv s /\ js' = js) \/
       (exists vis, out_ = RJob (wv s) vis /\ wv s' = (wv s + 1)%N /\ js' = upd js jn (relast j (wv s))))
  | VCreate _ _ _ _ => wv s' = wv s /\ js' = js
  | _ => wv s' = wv s /\ cached s' = cached s /\ js' = js
  end.

Theorem vstep_inv st o st' out_ :
  VInv st -> (wv (fst st) + 1 < WV_NULL)%N -> vstep st o = Ok (st', out_) ->
  VInv st' /\ vframe st st' /\ wv_effect st o st' out_.
Proof.
  destruct st as [s js]. intros HI Hbound H. pose proof HI as [I1 I2 I3 I4 I5 I6 I7]. cbn [fst snd] in *.
  assert (Hsame : Forall2 (fun a a' => evolves a a' /\ arch_ok (wv s) a') (archs s) (archs s)).
  { apply Forall2_pointwise; [reflexivity|]. intros k a a' Ha Ha'. rewrite Ha in Ha'. inversion Ha'; subst a'.
    split; [apply evolves_refl|eapply Forall_nth_error; eassumption]. }
  assert (Hstamp : forall h c s', stamps_entity s h c s' ->
            VInv (s', js) /\ vframe (s, js) (s', js) /\ wv s' = wv s /\ cached s' = cached s).
  { intros h c s' [(-> & _)|(ai & idx & a & ci & a1 & a2 & Ht & Hcs & Hv & E1 & E2 & E3 & E4 & E5 & E6 & ->)].
    - split; [assumption|]. split; [apply vframe_refl|auto].
    - destruct Ht as (_ & _ & Ha & _).
      destruct (stamp_one_ok (wv s) a _ _ a1 a2 (Forall_nth_error _ _ _ _ I5 Ha) Hv E1 E2 E3 E4 E5 E6) as (K1 & K2 & _).
      assert (G : VInv (set_arch s ai a2, js) /\ vframe (s, js) (set_arch s ai a2, js)).
      { apply VInv_step; [exact HI|exact I1|exact I2|exact I3|exact I4|reflexivity|reflexivity|apply N.le_refl| |exact I7|apply same_job_refl_list].
        cbn [archs set_arch set_archs wv]. apply Forall2_pointwise; [apply upd_length|].
        intros k x x' Hx Hx'. destruct (Nat.eq_dec k ai) as [->|Hne].
        - rewrite nth_error_upd_same in Hx' by (apply nth_error_Some; congruence). inversion Hx'; subst x'.
          rewrite Ha in Hx. inversion Hx; subst x. split; assumption.
        - rewrite nth_error_upd_other in Hx' by congruence. rewrite Hx in Hx'. inversion Hx'; subst x'.
          split; [apply evolves_refl|eapply Forall_nth_error; eassumption]. }
      destruct G as (G1 & G2). split; [assumption|]. split; [assumption|]. split; reflexivity. }
  destruct o as [world|h c w|h c|h c|h c|jn par tov wk cap|tid m sids via].
  - (* update *)
    cbn [vstep] in H. rewrite (step_update_eq s world I1 I2) in H. cbn [bind fst snd] in H. inversion H; subst st' out_; clear H.
    set (s0 := if world then inc_wv s else s).
    assert (Hw : wv s0 = if world then (wv s + 1)%N else wv s).
    { subst s0. destruct world; [|reflexivity]. unfold inc_wv. cbn [wv set_wv]. apply inc_nowrap. assumption. }
    assert (Hle : (wv s <= wv s0)%N) by (rewrite Hw; destruct world; lia).
    assert (Ha0 : archs s0 = archs s) by (subst s0; destruct world; reflexivity).
    assert (G : VInv (set_marked (set_wv s0 (wv s0) (Some (wv s0))) [], js) /\
                vframe (s, js) (set_marked (set_wv s0 (wv s0) (Some (wv s0))) [], js)).
    { apply VInv_step; [exact HI| | | | | | | | | |]; cbn [lockc marked bufs empty_slots slots locs archs wv set_marked set_wv].
      - subst s0. destruct world; assumption.
      - reflexivity.
      - unfold bufs_empty. cbn [bufs set_marked set_wv]. subst s0. destruct world; assumption.
      - subst s0. destruct world; assumption.
      - subst s0. destruct world; reflexivity.
      - subst s0. destruct world; reflexivity.
      - exact Hle.
      - rewrite Ha0. eapply Forall2_impl'; [|exact Hsame]. intros a b (X & Y). split; [assumption|]. eapply arch_ok_mono; eassumption.
      - eapply Forall_impl; [|exact I7]. intros j. apply job_ok_mono. assumption.
      - apply same_job_refl_list. }
    destruct G as (G1 & G2). split; [assumption|]. split; [assumption|].
    unfold wv_effect. cbn [wv cached set_marked set_wv]. destruct world; rewrite Hw; auto.
  - cbn [vstep] in H. bd H r Hr. destruct r as [s' o']. cbn [fst snd] in H. inversion H; subst st' out_; clear H.
    apply step_getmut_effect in Hr. destruct (Hstamp _ _ _ Hr) as (G1 & G2 & G3 & G4). split; [assumption|]. split; [assumption|].
    unfold wv_effect. auto.
  - cbn [vstep] in H. bd H r Hr. destruct r as [s' o']. cbn [fst snd] in H. inversion H; subst st' out_; clear H.
    apply step_markdirty_effect in Hr. destruct (Hstamp _ _ _ Hr) as (G1 & G2 & G3 & G4). split; [assumption|]. split; [assumption|].
    unfold wv_effect. auto.
  - cbn [vstep] in H. bd H r Hr. destruct r as [s' o']. cbn [fst snd] in H. inversion H; subst st' out_; clear H.
    apply step_getconst_effect in Hr. subst s'. split; [assumption|]. split; [apply vframe_refl|]. unfold wv_effect. auto.
  - cbn [vstep] in H. bd H r Hr. destruct r as [s' o']. cbn [fst snd] in H. inversion H; subst st' out_; clear H.
    apply step_has_effect in Hr. subst s'. split; [assumption|]. split; [apply vframe_refl|]. unfold wv_effect. auto.
  - (* run *)
    destruct (vstep_run_cases _ _ _ _ _ _ _ _ _ I1 I3 H) as (j & s1 & fas0 & Hj & Hf & Hcases).
    destruct (job_filter_state _ _ _ _ Hf) as (E1 & Ewv & Elen & Hpt).
    assert (Hjok : job_ok (wv s) j) by (eapply Forall_nth_error; eassumption).
    assert (Hrel : forall w', (wv s <= w')%N -> Forall2 (fun a a' => evolves a a' /\ arch_ok w' a') (archs s) (archs s1)).
    { intros w' Hw'. apply Forall2_pointwise; [assumption|]. intros k a a' Ha Ha'. destruct (Hpt k a Ha) as (a'' & Ha'' & Hr).
      rewrite Ha' in Ha''. inversion Ha''; subst a''.
      destruct (jf_rel_ok _ _ _ _ (Forall_nth_error _ _ _ _ I5 Ha) Hr) as (X & Y). split; [assumption|]. eapply arch_ok_mono; eassumption. }
    destruct Hcases as [(Et & -> & ->)|(Et & per_task & vis & s3 & Hp & Hv & U1 & U2 & U3 & U4 & U5 & U6 & U7 & U8 & U9 & -> & ->)].
    + assert (G : VInv (s1, js) /\ vframe (s, js) (s1, js)).
      { apply VInv_step; [exact HI|rewrite E1; exact I1|rewrite E1; exact I2| |rewrite E1; exact I4|rewrite E1; reflexivity|rewrite E1; reflexivity| | | |].
        - unfold bufs_empty. rewrite E1. exact I3.
        - rewrite Ewv. apply N.le_refl.
        - rewrite Ewv. apply Hrel. apply N.le_refl.
        - rewrite Ewv. assumption.
        - apply same_job_refl_list. }
      destruct G as (G1 & G2). split; [assumption|]. split; [assumption|].
      unfold wv_effect. exists j. split; [assumption|]. split; [rewrite E1; reflexivity|]. left. auto.
    + rewrite (inc_nowrap _ Hbound) in U2.
      assert (G : VInv (s3, upd js jn (relast j (wv s))) /\ vframe (s, js) (s3, upd js jn (relast j (wv s)))).
      { apply VInv_step; [exact HI|exact U5|congruence|exact U8|congruence|exact U3|exact U4| | | |].
        - rewrite U2. lia.
        - rewrite U1, U2. apply Hrel. lia.
        - rewrite U2. apply Forall_upd.
          + eapply Forall_impl; [|exact I7]. intros j0. apply job_ok_mono. lia.
          + right. cbn [relast j_last]. lia.
        - apply same_job_upd. assumption. }
      destruct G as (G1 & G2). split; [assumption|]. split; [assumption|].
      unfold wv_effect. exists j. split; [assumption|]. split; [assumption|]. right. exists (snd vis). auto.
  - (* create *)
    cbn [vstep] in H. bd H r Hr. destruct r as [s' o']. cbn [fst snd] in H. inversion H; subst st' out_; clear H.
    destruct (create_effect _ _ _ _ _ _ _ _ HI Hr) as (G1 & Gw & h & ai & a3 & idx & _ & _ & _ & _ & _ & _ & _ & _ & Fv & Fl & Fa & _).
    split; [assumption|]. split; [|unfold wv_effect; auto].
    constructor; cbn [fst snd].
    + exact Fv.
    + exact Fl.
    + intros k a Ha. destruct (Fa _ _ Ha) as (a' & Ha' & E & _). eauto.
    + rewrite Gw. apply N.le_refl.
    + apply same_job_refl_list.
Qed.

Lemma wv_effect_le st o st' out_ : wv_effect st o st' out_ -> (wv (fst st') <= wv (fst st) + 1)%N.
Proof.
  destruct st as [s js], st' as [s' js']. unfold wv_effect. cbn [fst].
  destruct o as [[|]|h c w|h c|h c|h c|jn par tov wk cap|tid m sids via].
  - intros (E & _). lia.
  - intros (E & _). lia.
  - intros (E & _). lia.
  - intros (E & _). lia.
  - intros (E & _). lia.
  - intros (E & _). lia.
  - intros (j & _ & _ & [(_ & E & _)|(vis & _ & E & _)]); lia.
  - intros (E & _). lia.
Qed.

(* every run of a script keeps the invariant, provided the world version cannot reach its null value 2^32-1 (and so
   never wraps) within the script: it advances by at most one per operation *)
Theorem vrun_inv : forall ops st st',
  VInv st -> (wv (fst st) + N.of_nat (length ops) < WV_NULL)%N -> vrun ops st = Ok st' ->
  VInv st' /\ vframe st st' /\ (wv (fst st') <= wv (fst st) + N.of_nat (length ops))%N.
Proof.
  induction ops as [|o t IH]; intros st st' HI Hb H.
  - simpl in H. inversion H; subst. split; [assumption|]. split; [apply vframe_refl|]. simpl. lia.
  - cbn [vrun] in H. bd H r Hr. destruct r as [st1 o1]. cbn [fst] in H. cbn [length] in Hb.
    destruct (vstep_inv _ _ _ _ HI ltac:(lia) Hr) as (I1 & F1 & W1). apply wv_effect_le in W1.
    destruct (IH _ _ I1 ltac:(lia) H) as (I2 & F2 & W2).
    split; [assumption|]. split; [eapply vframe_trans; eassumption|]. cbn [length]. lia.
Qed.

(* ------------------------------------------------------------------------------------------ *)
(* Part 4a: which entities a run hands to the job                                              *)
Definition handed (o : out) (h : handle) : Prop :=
  match o with
  | RJob _ arrays => exists v e, In v arrays /\ In e (snd v) /\ fst e = h
  | _ => False
  end.

Lemma Forall2_in_l {A B} (R : A -> B -> Prop) l l' x : Forall2 R l l' -> In x l -> exists y, In y l' /\ R x y.
Proof.
  intro H. induction H as [|a b t t' Hab Ht IH]; intros [].
  - subst. exists b. split; [left; reflexivity|assumption].
  - destruct (IH H) as (y & Hy & Hr). exists y. split; [right; assumption|assumption].
Qed.

Lemma Forall2_in_r {A B} (R : A -> B -> Prop) l l' y : Forall2 R l l' -> In y l' -> exists x, In x l /\ R x y.
Proof.
  intro H. induction H as [|a b t t' Hab Ht IH]; intros [].
  - subst. exists a. split; [left; reflexivity|assumption].
  - destruct (IH H) as (x & Hx & Hr). exists x. split; [right; assumption|assumption].
Qed.

Lemma array_visits_spec s j ai start len es :
  array_visits s j ai start len = Ok es ->
  exists a, nth_error (archs s) ai = Some a /\
            Forall2 (fun i (e : handle * list (option cell)) => nth_error (am_ents a) i = Some (fst e)) (seq start len) es.
Proof.
  unfold array_visits. intro H. bd H a Ha. apply nth_res_ok in Ha. exists a. split; [assumption|].
  assert (G : forall l acc es', fold_res (fun acc i =>
                do h <- nth_res (am_ents a) i;
                let cells := map (fun (r : nat * bool * bool) => let '(c, _, _) := r in
                        match cindex (am_mask a) c with Some ci => Some (get_cell a ci i) | None => None end) (j_reqs j) in
                Ok (acc ++ [(h, cells)])) l acc = Ok es' ->
              exists ext, es' = acc ++ ext /\
                Forall2 (fun i (e : handle * list (option cell)) => nth_error (am_ents a) i = Some (fst e)) l ext).
  { induction l as [|i t IH]; intros acc es' Hf.
    - simpl in Hf. inversion Hf. exists []. rewrite app_nil_r. split; [reflexivity|constructor].
    - cbn [fold_res] in Hf. bd Hf acc1 H1. bd H1 h Hh. apply nth_res_ok in Hh. cbv zeta in H1. inversion H1; subst acc1; clear H1.
      destruct (IH _ _ Hf) as (ext & -> & HF). eexists (_ :: ext). split; [rewrite <- app_assoc; reflexivity|].
      constructor; [exact Hh|exact HF]. }
  destruct (G _ _ _ H) as (ext & -> & HF). exact HF.
Qed.

(* one array (position in the filtered list, start, length) and the visit record made from it *)
Definition arr_visit (s2 : mst) (j : job) (fas : list farch) (ar : nat * nat * nat) (v : visit) : Prop :=
  exists fa, nth_error fas (fst (fst ar)) = Some fa /\ array_visits s2 j (fa_arch fa) (snd (fst ar)) (snd ar) = Ok (snd v).

Lemma vis_inner_spec s2 j fas k : forall arrs idx o idx' o',
  fold_res (vis_inner s2 j fas k) arrs (idx, o) = Ok (idx', o') ->
  exists ext, o' = o ++ ext /\ Forall2 (arr_visit s2 j fas) arrs ext.
Proof.
  induction arrs as [|[[p st] ln] t IH]; intros idx o idx' o' H.
  - simpl in H. inversion H. exists []. rewrite app_nil_r. split; [reflexivity|constructor].
  - cbn [fold_res] in H. bd H r Hr. unfold vis_inner in Hr. bd Hr fa Hfa. apply nth_res_ok in Hfa. bd Hr es Hes.
    inversion Hr; subst r; clear Hr. destruct (IH _ _ _ _ H) as (ext & -> & HF).
    eexists (_ :: ext). split; [rewrite <- app_assoc; reflexivity|]. constructor; [|exact HF].
    exists fa. cbn [fst snd]. split; assumption.
Qed.

Lemma vis_outer_spec s2 j fas : forall per k idx o k' idx' o',
  fold_res (vis_outer s2 j fas) per (k, idx, o) = Ok (k', idx', o') ->
  exists ext, o' = o ++ ext /\ Forall2 (arr_visit s2 j fas) (concat per) ext.
Proof.
  induction per as [|arrs t IH]; intros k idx o k' idx' o' H.
  - simpl in H. inversion H. exists []. rewrite app_nil_r. split; [reflexivity|constructor].
  - cbn [fold_res] in H. bd H r Hr. unfold vis_outer in Hr. bd Hr r2 Hr2. destruct r2 as [idx2 o2]. inversion Hr; subst r; clear Hr.
    cbn [fst snd] in H. destruct (vis_inner_spec _ _ _ _ _ _ _ _ _ Hr2) as (ext1 & -> & HF1).
    destruct (IH _ _ _ _ _ _ H) as (ext2 & -> & HF2). exists (ext1 ++ ext2). split; [rewrite app_assoc; reflexivity|].
    cbn [concat]. apply Forall2_app; assumption.
Qed.

Lemma all_from_in fas : forall i p x,
  In (p, x) (all_from i fas) <-> exists fa, i <= p /\ nth_error fas (p - i) = Some fa /\ In x (sel (fa_blocks fa)).
Proof.
  induction fas as [|a t IH]; intros i p x.
  - split; [intros []|]. intros (fa & _ & H & _). destruct (p - i); discriminate.
  - rewrite all_from_cons, in_app_iff, IH. split.
    + intros [H|(fa & Hle & Hn & Hx)].
      * apply in_map_iff in H. destruct H as (y & Hy & Hin). inversion Hy; subst. exists a. rewrite Nat.sub_diag. auto.
      * exists fa. split; [lia|]. replace (p - i) with (S (p - S i)) by lia. auto.
    + intros (fa & Hle & Hn & Hx). destruct (Nat.eq_dec p i) as [->|Hne].
      * rewrite Nat.sub_diag in Hn. inversion Hn; subst. left. apply in_map. assumption.
      * right. exists fa. split; [lia|]. replace (p - i) with (S (p - S i)) in Hn by lia. auto.
Qed.

Lemma flat3_in arrs p x : In (p, x) (flat3 arrs) <-> exists s l, In (p, s, l) arrs /\ s <= x < s + l.
Proof.
  unfold flat3. rewrite in_flat_map. split.
  - intros ([[p' s] l] & Hin & Hx). apply in_map_iff in Hx. destruct Hx as (y & Hy & Hs). inversion Hy; subst.
    apply in_seq in Hs. exists s, l. auto.
  - intros (s & l & Hin & Hx). exists (p, s, l). split; [assumption|]. apply in_map. apply in_seq. assumption.
Qed.

(* the records a filter appends: archetype number, its blocks, a non-zero count *)
Definition fa_from (j : job) (st : mst) (fa : farch) : Prop :=
  exists a, nth_error (archs st) (fa_arch fa) = Some a /\ am_chunk a <> 0 /\ jmatch j a = true /\
    fa_blocks fa = jblocks j (wv st) a /\ fa_count fa = blocks_count (fa_blocks fa) /\ fa_count fa <> 0 /\ fa_size fa = am_size a.

Lemma jf_step_fas j st fas ai st1 fas1 :
  jf_step j (st, fas) ai = Ok (st1, fas1) ->
  exists ext, fas1 = fas ++ ext /\ Forall (fun fa => fa_arch fa = ai /\ fa_from j st fa) ext.
Proof.
  rewrite jf_step_eq. destruct (nth_error (archs st) ai) as [a|] eqn:En; [|discriminate].
  destruct (jmatch j a) eqn:Em; cbn [negb].
  2:{ intro H; inversion H; subst. exists []. rewrite app_nil_r. split; [reflexivity|constructor]. }
  destruct (need_flag (am_gver a) 0 (jcheck j a) (j_last j)); cbn [negb].
  2:{ intro H; inversion H; subst. exists []. rewrite app_nil_r. split; [reflexivity|constructor]. }
  destruct (am_chunk a) as [|cs] eqn:Ec; [discriminate|].
  destruct (blocks_count (jblocks j (wv st) a)) as [|n] eqn:Eb.
  - intro H; inversion H; subst. exists []. rewrite app_nil_r. split; [reflexivity|constructor].
  - intro H; inversion H; subst. eexists [_]. split; [reflexivity|]. constructor; [|constructor]. cbn [fa_arch].
    split; [reflexivity|]. exists a. cbn [fa_arch fa_blocks fa_count fa_size]. rewrite Ec, Eb. repeat split; try assumption; discriminate.
Qed.

Lemma jf_fold_fas j : forall l st fas st1 fas1,
  NoDup l -> fold_res (jf_step j) l (st, fas) = Ok (st1, fas1) ->
  exists ext, fas1 = fas ++ ext /\ Forall (fun fa => In (fa_arch fa) l /\ fa_from j st fa) ext.
Proof.
  induction l as [|ai t IH]; intros st fas st1 fas1 Hnd H.
  - simpl in H. inversion H; subst. exists []. rewrite app_nil_r. split; [reflexivity|constructor].
  - cbn [fold_res] in H. destruct (jf_step j (st, fas) ai) as [[st' fas']|e] eqn:E; [|discriminate]. cbn [bind] in H.
    inversion Hnd as [|? ? Hni Hnd']; subst.
    destruct (jf_step_fas _ _ _ _ _ _ E) as (ext1 & -> & HF1).
    destruct (jf_step_state _ _ _ _ _ _ E) as (a0 & a0' & Ha0 & _ & Est').
    destruct (IH _ _ _ _ Hnd' H) as (ext2 & -> & HF2).
    exists (ext1 ++ ext2). split; [rewrite app_assoc; reflexivity|]. apply Forall_app. split.
    + eapply Forall_impl; [|exact HF1]. intros fa (X & Y). split; [left; auto|assumption].
    + eapply Forall_impl; [|exact HF2]. intros fa (X & (a & A1 & A2)). split; [right; assumption|].
      exists a. split; [|rewrite Est' in A2; exact A2].
      rewrite Est' in A1. cbn [archs set_archs] in A1. rewrite nth_error_upd_other in A1; [assumption|].
      intro F. subst ai. contradiction.
Qed.

Lemma job_filter_fas s j s1 fas : job_filter s j = Ok (s1, fas) -> Forall (fa_from j s) fas.
Proof.
  rewrite job_filter_unfold. intro H. apply jf_fold_fas in H; [|apply seq_NoDup]. destruct H as (ext & -> & HF).
  simpl. eapply Forall_impl; [|exact HF]. intros fa (_ & X). exact X.
Qed.

Lemma jchunks_flags_length j cur a : ver_wf a ->
  length (snd (jchunks j cur a)) = S ((length (am_ents a) - 1) / am_chunk a).
Proof.
  intro Hwf. unfold jchunks.
  assert (Hc : lt_all (length (am_gver a)) (jcheck j a)) by (rewrite Hwf; apply comp_indices_lt).
  assert (Hs : lt_all (length (am_gver a)) (jset j a)) by (rewrite Hwf; apply comp_indices_lt).
  destruct (filter_chunks_spec _ _ _ (j_last j) cur Hc Hs (S ((length (am_ents a) - 1) / am_chunk a)) 0 (am_cver a)) as (H1 & _).
  exact H1.
Qed.

Lemma fa_from_wf j s w cap fa : 0 < cap -> Forall (arch_ok w) (archs s) -> fa_from j s fa -> fa_wf (set_cap cap fa).
Proof.
  intros Hcap Hok (a & Ha & Hcs & Hm & Hb & Hc & Hnz & Hsz).
  pose proof (Forall_nth_error _ _ _ _ Hok Ha) as [W1 W2 W3 W4 W5 W6 W7 W8].
  unfold fa_wf, set_cap. cbn [fa_blocks fa_size fa_count fa_cap].
  assert (Hsize : 0 < length (am_ents a)).
  { unfold jmatch in Hm. apply andb_true_iff in Hm. destruct Hm as (Hm & _). apply Nat.ltb_lt in Hm. exact Hm. }
  split; [|split; [assumption|split; [lia|assumption]]].
  rewrite Hb, Hsz, W5. unfold jblocks. apply filter_blocks_chain; [lia|assumption|]. apply jchunks_flags_length. assumption.
Qed.

Lemma total_count_zero_nil fas : Forall (fun fa => fa_count fa <> 0) fas -> total_count fas = 0 -> fas = [].
Proof.
  destruct fas as [|a t]; [reflexivity|]. intros HF H. rewrite total_count_cons in H. inversion HF; subst. lia.
Qed.

(* THE CHARACTERISATION OF A RUN: an entity is handed to the job iff it sits at a processed position of an archetype the
   job matches (processed: below the population, global test passed, its version chunk flagged; VersionProofs) *)
Theorem run_handed_char s js jn par tov wk cap st' out_ :
  VInv (s, js) -> 0 < cap ->
  vstep (s, js) (VRun jn par tov wk cap) = Ok (st', out_) ->
  exists j, nth_error js jn = Some j /\
  forall h, handed out_ h <->
    exists ai a idx, nth_error (archs s) ai = Some a /\ jmatch j a = true /\ processed j a idx /\
                     nth_error (am_ents a) idx = Some h.
Proof.
  intros HI Hcap H. pose proof HI as [I1 I2 I3 I4 I5 I6 I7]. cbn [fst snd] in *.
  destruct (vstep_run_cases _ _ _ _ _ _ _ _ _ I1 I3 H) as (j & s1 & fas0 & Hj & Hf & Hcases).
  exists j. split; [assumption|].
  pose proof (job_filter_fas _ _ _ _ Hf) as Hfas.
  destruct (job_filter_state _ _ _ _ Hf) as (E1 & Ewv & Elen & Hpt).
  (* the filter's records select exactly the processed positions *)
  assert (Hsel : forall ai a idx, nth_error (archs s) ai = Some a -> jmatch j a = true ->
            ((exists fa, In fa fas0 /\ fa_arch fa = ai /\ In idx (sel (fa_blocks fa))) <-> processed j a idx)).
  { intros ai a idx Ha Hm. pose proof (Forall_nth_error _ _ _ _ I5 Ha) as [W1 W2 W3 W4 W5 W6 W7 W8].
    apply (job_filter_char s j s1 fas0 ai a Hf Ha Hm); [|assumption]. apply W6.
    unfold jmatch in Hm. apply andb_true_iff in Hm. destruct Hm as (Hm & _). apply Nat.ltb_lt in Hm.
    destruct (am_ents a); [simpl in Hm; lia|discriminate]. }
  set (fas := map (set_cap cap) fas0) in *.
  assert (Hwf : Forall fa_wf fas).
  { subst fas. apply Forall_forall. intros x Hx. apply in_map_iff in Hx. destruct Hx as (fa & <- & Hin).
    eapply fa_from_wf; [assumption|exact I5|]. rewrite Forall_forall in Hfas. apply Hfas. assumption. }
  destruct Hcases as [(Et & -> & ->)|(Et & per_task & vis & s3 & Hp & Hv & U1 & _ & _ & _ & _ & _ & _ & _ & _ & -> & ->)].
  - (* no work: the filtered list is empty *)
    assert (Hnil : fas0 = []).
    { assert (fas = []) as Hn.
      { apply total_count_zero_nil; [|assumption]. eapply Forall_impl; [|exact Hwf]. intros fa (_ & _ & X & _). lia. }
      subst fas. destruct fas0; [reflexivity|discriminate]. }
    intro h. split; [intros (v & e & [] & _)|].
    intros (ai & a & idx & Ha & Hm & Hpr & Hh). exfalso.
    apply (Hsel ai a idx Ha Hm) in Hpr. destruct Hpr as (fa & Hin & _). rewrite Hnil in Hin. destruct Hin.
  - destruct (tasks_cover fas _ (run_tasks_pos par tov wk (total_count fas)) Hwf) as (per' & Hp' & _ & Hflat & _).
    rewrite Hp in Hp'. inversion Hp'; subst per'; clear Hp'. rewrite <- flat3_concat in Hflat.
    destruct vis as [[kk ii] vv]. destruct (vis_outer_spec _ _ _ _ _ _ _ _ _ _ Hv) as (ext & Hext & HF). simpl in Hext. subst vv.
    cbn [snd handed].
    assert (Hs2 : archs (do_lock (inc_wv s1)) = archs s1).
    { unfold do_lock. destruct (lockc (inc_wv s1)); reflexivity. }
    intro h. split.
    + intros (v & e & Hv' & He & <-).
      destruct (Forall2_in_r _ _ _ _ HF Hv') as ([[p st] ln] & Har & (fa & Hfa & Hvis)). cbn [fst snd] in Hfa, Hvis.
      apply array_visits_spec in Hvis. destruct Hvis as (a2 & Ha2 & HF2). rewrite Hs2 in Ha2.
      destruct (Forall2_in_r _ _ _ _ HF2 He) as (idx & Hidx & Hent). apply in_seq in Hidx.
      assert (Hall : In (p, idx) (all_from 0 fas)).
      { rewrite <- Hflat. apply flat3_in. exists st, ln. split; [assumption|lia]. }
      apply all_from_in in Hall. destruct Hall as (fa' & _ & Hfa' & Hselx). rewrite Nat.sub_0_r in Hfa'. rewrite Hfa in Hfa'.
      inversion Hfa'; subst fa'; clear Hfa'.
      assert (Hfin : In fa fas) by (eapply nth_error_In; eassumption).
      subst fas. apply in_map_iff in Hfin. destruct Hfin as (fa0 & <- & Hin0). cbn [set_cap fa_arch fa_blocks] in *.
      rewrite Forall_forall in Hfas. destruct (Hfas _ Hin0) as (a & Ha & Hcs & Hm & _).
      destruct (Hpt _ _ Ha) as (a1 & Ha1 & Hrel). rewrite Ha2 in Ha1. inversion Ha1; subst a1; clear Ha1.
      destruct (jf_rel_ok _ _ _ _ (Forall_nth_error _ _ _ _ I5 Ha) Hrel) as (_ & ((_ & Ee & _) & _)).
      exists (fa_arch fa0), a, idx. split; [assumption|]. split; [assumption|]. split.
      * apply (Hsel _ _ idx Ha Hm). exists fa0. auto.
      * rewrite <- Ee. assumption.
    + intros (ai & a & idx & Ha & Hm & Hpr & Hh).
      apply (Hsel ai a idx Ha Hm) in Hpr. destruct Hpr as (fa0 & Hin0 & Harch & Hselx).
      assert (Hin : In (set_cap cap fa0) fas) by (subst fas; apply in_map; assumption).
      apply In_nth_error in Hin. destruct Hin as (p & Hp0).
      assert (Hall : In (p, idx) (all_from 0 fas)).
      { apply all_from_in. exists (set_cap cap fa0). split; [lia|]. rewrite Nat.sub_0_r. split; [assumption|exact Hselx]. }
      rewrite <- Hflat in Hall. apply flat3_in in Hall. destruct Hall as (st & ln & Har & Hrange).
      destruct (Forall2_in_l _ _ _ _ HF Har) as (v & Hv' & (fa & Hfa & Hvis)). cbn [fst snd] in Hfa, Hvis.
      rewrite Hp0 in Hfa. inversion Hfa; subst fa; clear Hfa. cbn [set_cap fa_arch] in Hvis. rewrite Harch in Hvis.
      apply array_visits_spec in Hvis. destruct Hvis as (a2 & Ha2 & HF2). rewrite Hs2 in Ha2.
      destruct (Hpt _ _ Ha) as (a1 & Ha1 & Hrel). rewrite Ha2 in Ha1. inversion Ha1; subst a1; clear Ha1.
      destruct (jf_rel_ok _ _ _ _ (Forall_nth_error _ _ _ _ I5 Ha) Hrel) as (_ & ((_ & Ee & _) & _)).
      assert (Hidx : In idx (seq st ln)) by (apply in_seq; lia).
      destruct (Forall2_in_l _ _ _ _ HF2 Hidx) as (e & He & Hent). rewrite Ee, Hh in Hent. inversion Hent.
      exists v, e. auto.
Qed.

(* ------------------------------------------------------------------------------------------ *)
(* Part 4b: C07 over histories                                                                 *)
Definition not_run_of (jn : nat) (o : vop) : Prop := match o with VRun k _ _ _ _ => k <> jn | _ => True end.
Definition no_run (jn : nat) (ops : list vop) : Prop := Forall (not_run_of jn) ops.

Lemma wv_effect_keeps_job st o st' out_ jn :
  wv_effect st o st' out_ -> not_run_of jn o -> nth_error (snd st') jn = nth_error (snd st) jn.
Proof.
  destruct st as [s js], st' as [s' js']. unfold wv_effect, not_run_of. cbn [snd].
  destruct o as [[|]|h c w|h c|h c|h c|k par tov wk cap|tid m sids via]; try (intros (_ & _ & ->) _; reflexivity); try (intros (_ & ->) _; reflexivity).
  intros (j & Hj & _ & [(_ & _ & ->)|(vis & _ & _ & ->)]) Hne; [reflexivity|]. apply nth_error_upd_other. assumption.
Qed.

Lemma vrun_keeps_job jn : forall ops st st',
  VInv st -> (wv (fst st) + N.of_nat (length ops) < WV_NULL)%N -> vrun ops st = Ok st' -> no_run jn ops ->
  nth_error (snd st') jn = nth_error (snd st) jn.
Proof.
  induction ops as [|o t IH]; intros st st' HI Hb H Hno.
  - simpl in H. inversion H; reflexivity.
  - cbn [vrun] in H. bd H r Hr. destruct r as [st1 o1]. cbn [fst] in H. cbn [length] in Hb. inversion Hno; subst.
    destruct (vstep_inv _ _ _ _ HI ltac:(lia) Hr) as (I1 & F1 & W1). pose proof (wv_effect_le _ _ _ _ W1) as Hle.
    rewrite (IH _ _ I1 ltac:(lia) H) by assumption. eapply wv_effect_keeps_job; eassumption.
Qed.

Definition is_touch (o : vop) (h : handle) (c : nat) : Prop := (exists w, o = VGetMut h c w) \/ o = VMarkDirty h c.

(* a mutable access / dirty mark of component c of entity h stamps (version chunk of h, c) with the live world version *)
Lemma vstep_touch s js o h c ai idx a ci st' out_ :
  VInv (s, js) -> is_touch o h c -> touch s h c ai idx a ci -> vstep (s, js) o = Ok (st', out_) ->
  snd st' = js /\ wv (fst st') = wv s /\ ci < length (am_gver a) /\
  exists a2, nth_error (archs (fst st')) ai = Some a2 /\ same_shape a a2 /\
             nth (length (am_gver a) * (idx / am_chunk a) + ci) (am_cver a2) 0%N = wv s.
Proof.
  intros HI Ho Ht H. pose proof HI as [I1 I2 I3 I4 I5 I6 I7]. cbn [fst snd] in *.
  assert (G : exists s', st' = (s', js) /\ stamps_entity s h c s').
  { destruct Ho as [(w & ->)| ->]; cbn [vstep] in H; bd H r Hr; destruct r as [s' o']; cbn [fst snd] in H; inversion H; subst st' out_;
      exists s'; (split; [reflexivity|]); [eapply step_getmut_effect|eapply step_markdirty_effect]; eassumption. }
  destruct G as (s' & -> & [(_ & F)|(ai' & idx' & a' & ci' & a1 & a2 & Ht' & Hcs & Hv & E1 & E2 & E3 & E4 & E5 & E6 & ->)]).
  - exfalso. eapply F. eassumption.
  - destruct (touch_fun _ _ _ _ _ _ _ _ _ _ _ Ht Ht') as (-> & -> & -> & ->).
    destruct Ht as (_ & _ & Ha & _).
    destruct (stamp_one_ok (wv s) a _ _ a1 a2 (Forall_nth_error _ _ _ _ I5 Ha) Hv E1 E2 E3 E4 E5 E6) as (_ & (K2 & _) & K3 & _ & K5 & _).
    cbn [fst snd]. split; [reflexivity|]. split; [reflexivity|]. split; [assumption|].
    exists a2. split; [|split; assumption]. cbn [archs set_arch set_archs]. apply nth_error_upd_same. apply nth_error_Some. congruence.
Qed.

Lemma comp_indices_intro am m c ci : In c (mitems m) -> cindex am c = Some ci -> In ci (comp_indices am m).
Proof.
  unfold comp_indices. induction (mitems m) as [|x t IH]; intros [] Hc; simpl.
  - subst x. rewrite Hc. left. reflexivity.
  - destruct (cindex am x); [right|]; apply IH; assumption.
Qed.

(* the chunk stamp of a checked component ahead of the job's last version: the entity at idx is processed *)
Lemma stamp_ahead_processed w j a idx ci c :
  arch_ok w a -> idx < length (am_ents a) -> c < MASK_BITS -> mhas (j_check j) c = true -> cindex (am_mask a) c = Some ci ->
  j_last j = WV_NULL \/ (j_last j < nth (length (am_gver a) * (idx / am_chunk a) + ci) (am_cver a) 0)%N ->
  processed j a idx.
Proof.
  intros [W1 W2 W3 W4 W5 W6 W7 W8] Hidx Hc Hm Hci Hor.
  assert (Hin : In ci (jcheck j a)).
  { unfold jcheck. eapply comp_indices_intro; [|eassumption]. apply mitems_in. auto. }
  assert (Hlt : ci < length (am_gver a)).
  { rewrite W1. eapply (VersionProofs.cindex_lt (am_mask a) c ci); assumption. }
  split; [assumption|]. destruct Hor as [E|L].
  - split; apply need_flag_true; left; assumption.
  - split; apply need_flag_true; right; right; exists ci; (split; [assumption|]); [|exact L].
    simpl. eapply N.lt_le_trans; [exact L|]. apply W2. assumption.
Qed.

(* the common second half: a stamp W ahead of job jn's last version sits on (chunk of idx, component c); no run of jn
   follows until the one considered: it is handed the entity at idx *)
Lemma C07_from_stamp st2 mid st3 jn par tov wk cap st4 out_ h c ai idx a2 ci j W :
  VInv st2 -> (wv (fst st2) + N.of_nat (length mid) + 1 < WV_NULL)%N ->
  nth_error (archs (fst st2)) ai = Some a2 -> nth_error (am_ents a2) idx = Some h ->
  cindex (am_mask a2) c = Some ci -> c < MASK_BITS -> mhas (j_check j) c = true ->
  mmatch (am_mask a2) (job_required_mask j) = true ->
  nth_error (snd st2) jn = Some j -> j_last j = WV_NULL \/ (j_last j < W)%N ->
  nth (length (am_gver a2) * (idx / am_chunk a2) + ci) (am_cver a2) 0%N = W ->
  vrun mid st2 = Ok st3 -> no_run jn mid -> 0 < cap ->
  vstep st3 (VRun jn par tov wk cap) = Ok (st4, out_) ->
  handed out_ h.
Proof.
  intros I2 Hb Ha2 Hent Hcidx Hc Hchk Hmm Hj Hjl Hst H2 Hno Hcap H3.
  assert (Hb2 : (wv (fst st2) + N.of_nat (length mid) < WV_NULL)%N) by lia.
  destruct (vrun_inv _ _ _ I2 Hb2 H2) as (I3 & F3 & _).
  pose proof (vrun_keeps_job jn _ _ _ I2 Hb2 H2 Hno) as Ejob.
  destruct st3 as [s3 js3]. cbn [fst snd] in *.
  destruct F3 as [_ _ Fa _ _]. cbn [fst] in Fa.
  destruct (Fa _ _ Ha2) as (a3 & Ha3 & (Gr & Mono3)). pose proof Gr as (Em & (ext & Ee) & Ek & Eg).
  destruct (run_handed_char _ _ _ _ _ _ _ _ _ I3 Hcap H3) as (j' & Hj' & Hchar).
  rewrite Ejob, Hj in Hj'. inversion Hj'; subst j'; clear Hj'.
  apply Hchar. exists ai, a3, idx.
  assert (Hidx : idx < length (am_ents a2)) by (apply nth_error_Some; congruence).
  assert (Hidx3 : idx < length (am_ents a3)) by (rewrite Ee, app_length; lia).
  split; [assumption|]. split.
  { unfold jmatch. rewrite Em, Hmm, andb_true_r. apply Nat.ltb_lt. lia. }
  split; [|eapply grows_nth; eassumption].
  destruct I3 as [_ _ _ _ I5' _ _]. cbn [fst] in I5'.
  apply (stamp_ahead_processed (wv s3) j a3 idx ci c); try assumption.
  - exact (Forall_nth_error _ _ _ _ I5' Ha3).
  - rewrite Em. assumption.
  - rewrite Eg, Ek. destruct Hjl as [E|L]; [left; assumption|right].
    eapply N.lt_le_trans; [exact L|]. rewrite <- Hst. apply Mono3.
Qed.

(* C07, history level.  In a state of a run (st1), component c of entity h is obtained for writing or marked dirty (o);
   then any operations follow that are not runs of job jn -- world/manager updates, accesses, runs of other jobs,
   including jobs that write c -- and then job jn runs: it is handed entity h.  Nothing is assumed about what happened
   before st1 (whether and when jn ran, where in the frame the modification falls). *)
Theorem C07_history_core st1 o out_t st2 mid st3 jn par tov wk cap st4 out_ h c ai idx a ci j :
  VInv st1 -> (wv (fst st1) + N.of_nat (length mid) + 2 < WV_NULL)%N ->
  is_touch o h c -> touch (fst st1) h c ai idx a ci ->
  nth_error (snd st1) jn = Some j -> c < MASK_BITS -> mhas (j_check j) c = true ->
  mmatch (am_mask a) (job_required_mask j) = true ->
  vstep st1 o = Ok (st2, out_t) -> vrun mid st2 = Ok st3 -> no_run jn mid -> 0 < cap ->
  vstep st3 (VRun jn par tov wk cap) = Ok (st4, out_) ->
  handed out_ h.
Proof.
  destruct st1 as [s1 js1]. intros HI Hb Ho Ht Hj Hc Hchk Hmm H1 H2 Hno Hcap H3. cbn [fst snd] in *.
  assert (Hb1 : (wv (fst (s1, js1)) + 1 < WV_NULL)%N) by (cbn [fst]; lia).
  destruct (vstep_inv _ _ _ _ HI Hb1 H1) as (I2 & F2 & _).
  destruct (vstep_touch _ _ _ _ _ _ _ _ _ _ _ HI Ho Ht H1) as (Ejs & Ewv & Hci & a2 & Ha2 & Sh2 & Hst).
  destruct st2 as [s2 js2]. cbn [fst snd] in *. subst js2.
  destruct Ht as (Hv & (l & L1 & L2 & L3) & Ha & Hcidx). pose proof HI as [_ _ _ _ I5 I6 I7]. cbn [fst snd] in *.
  destruct (I6 h l ai Hv L1 L2) as (a' & Ha' & Hent). rewrite Ha in Ha'. inversion Ha'; subst a'; clear Ha'. rewrite L3 in Hent.
  destruct Sh2 as (Em & Ee & Ek & Es & Eg).
  refine (C07_from_stamp (s2, js1) mid st3 jn par tov wk cap st4 out_ h c ai idx a2 ci j (wv s1)
            I2 _ Ha2 _ _ Hc Hchk _ Hj _ _ H2 Hno Hcap H3).
  - cbn [fst]. lia.
  - rewrite Ee. assumption.
  - rewrite Em. assumption.
  - rewrite Em. assumption.
  - exact (Forall_nth_error _ _ _ _ I7 Hj).
  - rewrite Eg, Ek. assumption.
Qed.

(* ------------------------------------------------------------------------------------------ *)
(* Part 5a: C11 over histories -- quiescence                                                   *)
Lemma filter_count_le (f : nat -> bool) c n : c <= n -> length (filter f (seq 0 c)) <= length (filter f (seq 0 n)).
Proof. intro H. replace n with (c + (n - c)) by lia. rewrite seq_app, filter_app, app_length. lia. Qed.

(* the component index determines the component *)
Lemma cindex_inj_gen m c1 c2 ci : cindex m c1 = Some ci -> cindex m c2 = Some ci -> c1 = c2.
Proof.
  unfold cindex. destruct (mhas m c1) eqn:E1; [|discriminate]. destruct (mhas m c2) eqn:E2; [|discriminate].
  intros H1 H2. inversion H1; subst ci; clear H1. inversion H2 as [H]; clear H2.
  destruct (Nat.lt_trichotomy c1 c2) as [L|[L|L]]; [|assumption|]; exfalso.
  - pose proof (filter_count_lt (mhas m) c2 c1 L E1). lia.
  - pose proof (filter_count_lt (mhas m) c1 c2 L E2). lia.
Qed.

Lemma jcheck_eq j a : jcheck j a = comp_indices (am_mask a) (j_check j).
Proof. reflexivity. Qed.
Lemma jset_eq j a : jset j a = comp_indices (am_mask a) (job_update_mask j).
Proof. reflexivity. Qed.

(* a component index checked by the job belongs to a component of its check mask *)
Lemma jcheck_component j a c ci : In ci (jcheck j a) -> cindex (am_mask a) c = Some ci -> c < MASK_BITS /\ mhas (j_check j) c = true.
Proof.
  intros Hin Hc. rewrite jcheck_eq in Hin. destruct (comp_indices_in _ _ _ Hin) as (c' & Hc' & Hci').
  assert (E : c = c') by (eapply cindex_inj_gen; eassumption). subst c'.
  destruct (mitems_in (j_check j) c) as (H1 & _). exact (H1 Hc').
Qed.

(* every component index of an archetype comes from a component *)
Lemma comp_index_component j a ci : In ci (jset j a) -> exists c, In c (mitems (job_update_mask j)) /\ cindex (am_mask a) c = Some ci.
Proof. intro Hin. rewrite jset_eq in Hin. exact (comp_indices_in _ _ _ Hin). Qed.

Lemma jcheck_lt j a : ver_wf a -> lt_all (length (am_gver a)) (jcheck j a).
Proof. intro W. rewrite W, jcheck_eq. apply comp_indices_lt. Qed.
Lemma jset_lt j a : ver_wf a -> lt_all (length (am_gver a)) (jset j a).
Proof. intro W. rewrite W, jset_eq. apply comp_indices_lt. Qed.

(* no chunk stamp of a checked component is ahead of the job's last version *)
Definition chunk_quiet (j : job) (a : archetype) : Prop :=
  forall i k, In i (jcheck j a) -> (nth (length (am_gver a) * k + i) (am_cver a) 0 <= j_last j)%N.

(* the job checks at least one component in every archetype it looks at *)
Definition checks_all (j : job) (s : mst) : Prop := Forall (fun a => jmatch j a = true -> jcheck j a <> []) (archs s).

Definition quiet_for (j : job) (s : mst) : Prop :=
  j_last j <> WV_NULL /\ Forall (fun a => jmatch j a = true -> jcheck j a <> [] /\ chunk_quiet j a) (archs s).

Lemma blocks_all_false cs size n : 0 < cs -> 0 < size -> n = S ((size - 1) / cs) -> blocks_count (filter_blocks cs size (repeat false n)) = 0.
Proof.
  intros H1 H2 H3. rewrite blocks_count_length, blocks_exact by (try assumption; rewrite repeat_length; assumption).
  rewrite selected_spec_all_false. reflexivity.
Qed.

Lemma jchunks_quiet j cur a : j_last j <> WV_NULL -> jcheck j a <> [] -> chunk_quiet j a ->
  jchunks j cur a = (am_cver a, repeat false (S ((length (am_ents a) - 1) / am_chunk a))).
Proof.
  intros H1 H2 H3. unfold jchunks. apply filter_chunks_quiet; try assumption. intros k i _ Hi. simpl. apply H3. assumption.
Qed.

(* a quiet job: the filter hands over nothing and leaves every chunk stamp alone *)
Lemma job_filter_quiet s j s1 fas w :
  Forall (arch_ok w) (archs s) -> quiet_for j s -> job_filter s j = Ok (s1, fas) ->
  fas = [] /\ forall k a, nth_error (archs s) k = Some a -> exists a', nth_error (archs s1) k = Some a' /\ am_cver a' = am_cver a.
Proof.
  intros Hok (Hnn & HQ) Hf. split.
  - pose proof (job_filter_fas _ _ _ _ Hf) as Hfas. destruct fas as [|fa t]; [reflexivity|]. exfalso.
    inversion Hfas as [|? ? (a & Ha & Hcs & Hm & Hb & Hc & Hnz & _) _]; subst.
    destruct (Forall_nth_error _ _ _ _ HQ Ha Hm) as (Hne & Hq).
    pose proof (Forall_nth_error _ _ _ _ Hok Ha) as [W1 W2 W3 W4 W5 W6 W7 W8].
    apply Hnz. rewrite Hc, Hb. unfold jblocks. rewrite (jchunks_quiet j (wv s) a Hnn Hne Hq). cbn [snd].
    apply blocks_all_false; [lia| |reflexivity].
    unfold jmatch in Hm. apply andb_true_iff in Hm. destruct Hm as (Hm & _). apply Nat.ltb_lt in Hm. exact Hm.
  - destruct (job_filter_state _ _ _ _ Hf) as (_ & _ & _ & Hpt). intros k a Ha. destruct (Hpt k a Ha) as (a' & Ha' & Hrel).
    exists a'. split; [assumption|]. destruct Hrel as [->|(-> & Hm & _)]; [reflexivity|].
    destruct (Forall_nth_error _ _ _ _ HQ Ha Hm) as (Hne & Hq).
    unfold filtered. cbn [with_vers am_cver]. rewrite (jchunks_quiet j (wv s) a Hnn Hne Hq). reflexivity.
Qed.

(* the operations that cannot wake job jn (check mask chk): updates, read-only access, mutable access and dirty marks of
   components outside chk, runs of jn itself and of jobs that write no component of chk *)
Definition harmless (js : list job) (jn : nat) (chk : mask) (o : vop) : Prop :=
  match o with
  | VGetMut _ c _ => mhas chk c = false
  | VMarkDirty _ c => mhas chk c = false
  | VRun k _ _ _ _ => k = jn \/ exists j', nth_error js k = Some j' /\ forall c, In c (mitems (job_update_mask j')) -> mhas chk c = false
  | VCreate _ _ _ _ => False          (* an arriving entity stamps its version chunk in every component *)
  | _ => True
  end.

Lemma quiet_shape j a a' : same_shape a a' -> (forall p, nth p (am_cver a') 0%N = nth p (am_cver a) 0%N \/
    exists k i, i < length (am_gver a) /\ ~ In i (jcheck j a) /\ p = length (am_gver a) * k + i) ->
  lt_all (length (am_gver a)) (jcheck j a) ->
  (jmatch j a = true -> jcheck j a <> [] /\ chunk_quiet j a) -> (jmatch j a' = true -> jcheck j a' <> [] /\ chunk_quiet j a').
Proof.
  intros Sh Hp Hlt HQ Hm. rewrite (jmatch_shape _ _ _ Sh) in Hm. destruct (HQ Hm) as (Hne & Hq).
  unfold chunk_quiet. rewrite (jcheck_shape _ _ _ Sh). split; [assumption|]. intros i k Hi. destruct Sh as (_ & _ & _ & _ & Eg). rewrite Eg.
  destruct (Hp (length (am_gver a) * k + i)) as [E|(k' & i' & Hi' & Hni & E)].
  - rewrite E. apply Hq. assumption.
  - exfalso. destruct (row_pos_unique _ _ _ _ _ (lt_all_in _ _ _ Hlt Hi) Hi' E) as (_ & ->). contradiction.
Qed.

Lemma same_job_masks j j' : same_job j j' -> job_update_mask j' = job_update_mask j /\ job_required_mask j' = job_required_mask j.
Proof. intros (E & _). unfold job_update_mask, job_required_mask. rewrite E. split; reflexivity. Qed.

Lemma jset_same_job j j' a : same_job j j' -> jset j' a = jset j a.
Proof. intro H. unfold jset. rewrite (proj1 (same_job_masks _ _ H)). reflexivity. Qed.

(* one harmless operation keeps the job quiet, keeps its record, and -- if it is a run of the job itself -- hands over
   nothing *)
Lemma quiet_step js0 s js jn j o st' out_ :
  VInv (s, js) -> (wv s + 1 < WV_NULL)%N -> Forall2 same_job js0 js ->
  nth_error js jn = Some j -> quiet_for j s -> harmless js0 jn (j_check j) o ->
  vstep (s, js) o = Ok (st', out_) ->
  nth_error (snd st') jn = Some j /\ quiet_for j (fst st') /\
  (forall par tov wk cap, o = VRun jn par tov wk cap -> out_ = RJob (j_last j) []).
Proof.
  intros HI Hb Hsj Hj HQ Hh H. pose proof HI as [I1 I2 I3 I4 I5 I6 I7]. cbn [fst snd] in *.
  destruct HQ as (Hnn & HQa).
  (* a stamping access to a component outside the check mask *)
  assert (Hstamp : forall h c s', mhas (j_check j) c = false -> stamps_entity s h c s' -> quiet_for j s').
  { intros h c s' Hc [(-> & _)|(ai & idx & a & ci & a1 & a2 & Ht & Hcs & Hv & E1 & E2 & E3 & E4 & E5 & E6 & ->)]; [split; assumption|].
    destruct Ht as (_ & _ & Ha & Hci).
    pose proof (Forall_nth_error _ _ _ _ I5 Ha) as Hok.
    destruct (stamp_one_ok (wv s) a _ _ a1 a2 Hok Hv E1 E2 E3 E4 E5 E6) as (_ & (Sh & _) & K3 & _ & _ & K6 & _).
    split; [assumption|]. cbn [archs set_arch set_archs]. apply Forall_upd; [assumption|].
    destruct Hok as [W1 _ _ _ _ _ _ _].
    apply (quiet_shape j a a2 Sh); [| |exact (Forall_nth_error _ _ _ _ HQa Ha)].
    - intro p. destruct (Nat.eq_dec p (length (am_gver a) * (idx / am_chunk a) + ci)) as [->|Hne]; [right|left; apply K6; assumption].
      exists (idx / am_chunk a), ci. split; [assumption|]. split; [|reflexivity].
      intro F. destruct (jcheck_component _ _ _ _ F Hci) as (_ & T). congruence.
    - apply jcheck_lt. assumption. }
  destruct o as [world|h c w|h c|h c|h c|k par tov wk cap|tid m sids via]; [| | | | | |destruct Hh].
  - cbn [vstep] in H. rewrite (step_update_eq s world I1 I2) in H. cbn [bind fst snd] in H. inversion H; subst st' out_; clear H.
    cbn [fst snd]. split; [assumption|]. split; [|intros; discriminate]. split; [assumption|].
    cbn [archs set_marked set_wv]. destruct world; exact HQa.
  - cbn [vstep] in H. bd H r Hr. destruct r as [s' o']. cbn [fst snd] in H. inversion H; subst st' out_; clear H. cbn [fst snd].
    split; [assumption|]. split; [|intros; discriminate]. eapply Hstamp; [exact Hh|]. eapply step_getmut_effect. eassumption.
  - cbn [vstep] in H. bd H r Hr. destruct r as [s' o']. cbn [fst snd] in H. inversion H; subst st' out_; clear H. cbn [fst snd].
    split; [assumption|]. split; [|intros; discriminate]. eapply Hstamp; [exact Hh|]. eapply step_markdirty_effect. eassumption.
  - cbn [vstep] in H. bd H r Hr. destruct r as [s' o']. cbn [fst snd] in H. inversion H; subst st' out_; clear H.
    apply step_getconst_effect in Hr. subst s'. cbn [fst snd]. split; [assumption|]. split; [split; assumption|intros; discriminate].
  - cbn [vstep] in H. bd H r Hr. destruct r as [s' o']. cbn [fst snd] in H. inversion H; subst st' out_; clear H.
    apply step_has_effect in Hr. subst s'. cbn [fst snd]. split; [assumption|]. split; [split; assumption|intros; discriminate].
  - destruct (vstep_run_cases _ _ _ _ _ _ _ _ _ I1 I3 H) as (j' & s1 & fas0 & Hj' & Hf & Hcases).
    destruct (job_filter_state _ _ _ _ Hf) as (E1 & Ewv & Elen & Hpt).
    destruct (Nat.eq_dec k jn) as [->|Hne].
    + (* the job itself: nothing to do *)
      rewrite Hj in Hj'. inversion Hj'; subst j'; clear Hj'.
      destruct (job_filter_quiet _ _ _ _ _ I5 (conj Hnn HQa) Hf) as (-> & Hcv).
      destruct Hcases as [(_ & -> & ->)|(Et & _)]; [|exfalso; apply Et; reflexivity].
      cbn [fst snd]. split; [assumption|]. split; [|intros; reflexivity]. split; [assumption|].
      apply Forall_forall. intros a' Hin. apply In_nth_error in Hin. destruct Hin as (i & Ha').
      assert (Hi : i < length (archs s)) by (rewrite <- Elen; apply nth_error_Some; congruence).
      destruct (nth_error (archs s) i) as [a|] eqn:Ha; [|apply nth_error_None in Ha; lia].
      destruct (Hpt _ _ Ha) as (a'' & Ha'' & Hrel). rewrite Ha' in Ha''. inversion Ha''; subst a''; clear Ha''.
      destruct (Hcv _ _ Ha) as (a'' & Ha'' & Ecv). rewrite Ha' in Ha''. inversion Ha''; subst a''; clear Ha''.
      pose proof (Forall_nth_error _ _ _ _ I5 Ha) as Hok. destruct (jf_rel_ok _ _ _ _ Hok Hrel) as (_ & (Sh & _)).
      destruct Hok as [W1 _ _ _ _ _ _ _].
      apply (quiet_shape j a a' Sh); [intro p; left; rewrite Ecv; reflexivity|apply jcheck_lt; assumption|].
      exact (Forall_nth_error _ _ _ _ HQa Ha).
    + (* another job, writing no checked component *)
      destruct Hh as [->|(j0 & Hj0 & Hdis)]; [contradiction|].
      destruct (Forall2_nth_l _ _ _ _ _ Hsj Hj0) as (j'' & Hj'' & Hsame). rewrite Hj' in Hj''. inversion Hj''; subst j''; clear Hj''.
      assert (HQ1 : Forall (fun a => jmatch j a = true -> jcheck j a <> [] /\ chunk_quiet j a) (archs s1)).
      { apply Forall_forall. intros a' Hin. apply In_nth_error in Hin. destruct Hin as (i & Ha').
        assert (Hi : i < length (archs s)) by (rewrite <- Elen; apply nth_error_Some; congruence).
        destruct (nth_error (archs s) i) as [a|] eqn:Ha; [|apply nth_error_None in Ha; lia].
        destruct (Hpt _ _ Ha) as (a'' & Ha'' & Hrel). rewrite Ha' in Ha''. inversion Ha''; subst a''; clear Ha''.
        pose proof (Forall_nth_error _ _ _ _ I5 Ha) as Hok. destruct (jf_rel_ok _ _ _ _ Hok Hrel) as (_ & (Sh & _)).
        destruct Hok as [W1 _ _ _ _ _ _ _].
        apply (quiet_shape j a a' Sh); [|apply jcheck_lt; assumption|exact (Forall_nth_error _ _ _ _ HQa Ha)].
        intro p. destruct Hrel as [->|(-> & _)]; [left; reflexivity|]. unfold filtered. cbn [with_vers am_cver]. unfold jchunks.
        destruct (filter_chunks_nth (length (am_gver a)) (jcheck j' a) (jset j' a) (j_last j') (wv s)
                    (S ((length (am_ents a) - 1) / am_chunk a)) 0 (am_cver a) p) as [E|(_ & k0 & i0 & _ & Hi0 & Hp & _)]; [left; exact E|right].
        exists (0 + k0), i0. split; [apply (lt_all_in _ _ _ (jset_lt j' a W1) Hi0)|].
        split; [|exact Hp]. intro F. destruct (comp_index_component _ _ _ Hi0) as (c & Hc1 & Hc2).
        destruct (jcheck_component _ _ _ _ F Hc2) as (_ & T).
        rewrite (proj1 (same_job_masks _ _ Hsame)) in Hc1. rewrite (Hdis c Hc1) in T. discriminate. }
      destruct Hcases as [(_ & -> & ->)|(_ & per_task & vis & s3 & _ & _ & U1 & _ & _ & _ & _ & _ & _ & _ & _ & -> & ->)]; cbn [fst snd].
      * split; [assumption|]. split; [split; assumption|]. intros ? ? ? ? E. inversion E. congruence.
      * split; [rewrite nth_error_upd_other by assumption; assumption|]. split; [split; [assumption|rewrite U1; assumption]|].
        intros ? ? ? ? E. inversion E. congruence.
Qed.

Lemma quiet_vrun js0 jn j : forall ops st st',
  VInv st -> (wv (fst st) + N.of_nat (length ops) < WV_NULL)%N -> Forall2 same_job js0 (snd st) ->
  nth_error (snd st) jn = Some j -> quiet_for j (fst st) -> Forall (harmless js0 jn (j_check j)) ops ->
  vrun ops st = Ok st' ->
  VInv st' /\ Forall2 same_job js0 (snd st') /\ nth_error (snd st') jn = Some j /\ quiet_for j (fst st').
Proof.
  induction ops as [|o t IH]; intros st st' HI Hb Hsj Hj HQ Hh H.
  - simpl in H. inversion H; subst. auto.
  - cbn [vrun] in H. bd H r Hr. destruct r as [st1 o1]. cbn [fst] in H. cbn [length] in Hb. inversion Hh; subst.
    assert (Hb1 : (wv (fst st) + 1 < WV_NULL)%N) by lia.
    destruct (vstep_inv _ _ _ _ HI Hb1 Hr) as (I1 & F1 & W1). pose proof (wv_effect_le _ _ _ _ W1) as Hle.
    destruct st as [s js]. cbn [fst snd] in *.
    destruct (quiet_step _ _ _ _ _ _ _ _ HI Hb1 Hsj Hj HQ H2 Hr) as (Q1 & Q2 & _).
    apply (IH st1 st'); try assumption; [lia|].
    destruct F1 as [_ _ _ _ Fj]. cbn [snd] in Fj. eapply Forall2_trans'; [|exact Hsj|exact Fj].
    intros x y z (X1 & X2) (Y1 & Y2). split; congruence.
Qed.

(* right after a run that had work the job is quiet: its last version is the world version of that run, and no stamp
   is ahead of it *)
Lemma after_work_quiet s js jn j par tov wk cap st1 out_ h0 :
  VInv (s, js) -> (wv s + 1 < WV_NULL)%N -> nth_error js jn = Some j -> checks_all j s ->
  vstep (s, js) (VRun jn par tov wk cap) = Ok (st1, out_) -> handed out_ h0 ->
  nth_error (snd st1) jn = Some (relast j (wv s)) /\ quiet_for (relast j (wv s)) (fst st1) /\
  wv (fst st1) = (wv s + 1)%N /\ exists vis, out_ = RJob (wv s) vis.
Proof.
  intros HI Hb Hj Hca H Hh. pose proof HI as [I1 I2 I3 I4 I5 I6 I7]. cbn [fst snd] in *.
  destruct (vstep_run_cases _ _ _ _ _ _ _ _ _ I1 I3 H) as (j' & s1 & fas0 & Hj' & Hf & Hcases).
  rewrite Hj in Hj'. inversion Hj'; subst j'; clear Hj'.
  destruct (job_filter_state _ _ _ _ Hf) as (E1 & Ewv & Elen & Hpt).
  destruct Hcases as [(_ & _ & ->)|(_ & per_task & vis & s3 & _ & _ & U1 & U2 & _ & _ & _ & _ & _ & _ & _ & -> & ->)].
  { destruct Hh as (v & e & [] & _). }
  cbn [fst snd]. split; [apply nth_error_upd_same; apply nth_error_Some; congruence|].
  split; [|split; [rewrite U2; apply inc_nowrap; assumption|eauto]].
  split; [cbn [relast j_last]; unfold WV_NULL in *; lia|]. rewrite U1.
  apply Forall_forall. intros a' Hin. apply In_nth_error in Hin. destruct Hin as (i & Ha').
  assert (Hi : i < length (archs s)) by (rewrite <- Elen; apply nth_error_Some; congruence).
  destruct (nth_error (archs s) i) as [a|] eqn:Ha; [|apply nth_error_None in Ha; lia].
  destruct (Hpt _ _ Ha) as (a'' & Ha'' & Hrel). rewrite Ha' in Ha''. inversion Ha''; subst a''; clear Ha''.
  destruct (jf_rel_ok _ _ _ _ (Forall_nth_error _ _ _ _ I5 Ha) Hrel) as ([W1 W2 W3 W4 W5 W6 W7 W8] & (Sh & _)).
  rewrite jmatch_relast, jcheck_relast. intro Hm. rewrite (jmatch_shape _ _ _ Sh) in Hm. rewrite (jcheck_shape _ _ _ Sh).
  split; [exact (Forall_nth_error _ _ _ _ Hca Ha Hm)|].
  unfold chunk_quiet. intros i0 k _. cbn [relast j_last]. apply le_all_nth. assumption.
Qed.

(* C11, quiescence over histories.  Job jn ran and had work (it was handed some entity h0).  Since then only harmless
   operations happened: world/manager updates, read-only access (OGetConst, OHas), mutable access and dirty marks of
   components outside its check mask, further runs of jn itself, runs of jobs that write no component of its check mask.
   Then a run of jn is handed nothing (and reports its old last version).  A job that writes a component it checks does
   not wake itself. *)
Theorem C11_history_quiet_core st0 jn j p0 t0 w0 c0 st1 out0 h0 mid st2 par tov wk cap st3 out_ :
  VInv st0 -> (wv (fst st0) + N.of_nat (length mid) + 2 < WV_NULL)%N ->
  nth_error (snd st0) jn = Some j -> checks_all j (fst st0) ->
  vstep st0 (VRun jn p0 t0 w0 c0) = Ok (st1, out0) -> handed out0 h0 ->
  Forall (harmless (snd st0) jn (j_check j)) mid -> vrun mid st1 = Ok st2 ->
  vstep st2 (VRun jn par tov wk cap) = Ok (st3, out_) ->
  out_ = RJob (wv (fst st0)) [] /\ forall h, ~ handed out_ h.
Proof.
  destruct st0 as [s0 js0]. intros HI Hb Hj Hca H1 Hh Hmid H2 H3. cbn [fst snd] in *.
  assert (Hb0 : (wv (fst (s0, js0)) + 1 < WV_NULL)%N) by (cbn [fst]; lia).
  destruct (vstep_inv _ _ _ _ HI Hb0 H1) as (I1 & F1 & _). cbn [fst] in Hb0.
  destruct (after_work_quiet _ _ _ _ _ _ _ _ _ _ _ HI Hb0 Hj Hca H1 Hh) as (Hj1 & HQ1 & Hwv1 & _).
  assert (Hb1 : (wv (fst st1) + N.of_nat (length mid) < WV_NULL)%N) by lia.
  assert (Hck : j_check (relast j (wv s0)) = j_check j) by reflexivity.
  destruct F1 as [_ _ _ _ Fj]. cbn [snd] in Fj.
  destruct (quiet_vrun js0 jn (relast j (wv s0)) mid st1 st2 I1 Hb1 Fj Hj1 HQ1 Hmid H2) as (I2 & Fj2 & Hj2 & HQ2).
  destruct st2 as [s2 js2]. cbn [fst snd] in *.
  destruct (vrun_inv _ _ _ I1 Hb1 H2) as (_ & _ & Hle2). cbn [fst] in Hle2.
  assert (Hb2 : (wv s2 + 1 < WV_NULL)%N) by lia.
  assert (Hharm : harmless js0 jn (j_check (relast j (wv s0))) (VRun jn par tov wk cap)) by (left; reflexivity).
  destruct (quiet_step js0 _ _ _ _ _ _ _ I2 Hb2 Fj2 Hj2 HQ2 Hharm H3) as (_ & _ & Hout).
  rewrite (Hout _ _ _ _ eq_refl). cbn [relast j_last]. split; [reflexivity|]. intros h (v & e & [] & _).
Qed.

(* ------------------------------------------------------------------------------------------ *)
(* Part 5b: C11 over histories -- chunk precision                                              *)
(* operation o, executed in state st, writes the stamp of (archetype ai, version chunk k, component index i):
   a mutable access / dirty mark of that component of an entity sitting in that chunk, the run of a job that writes
   that component and is handed (a position of) that chunk, or the arrival of a new entity in that chunk (which stamps
   every component) *)
Definition op_stamps (st : vstate) (o : vop) (ai k i : nat) : Prop :=
  match o with
  | VGetMut h c _ => exists idx a, touch (fst st) h c ai idx a i /\ k = idx / am_chunk a
  | VMarkDirty h c => exists idx a, touch (fst st) h c ai idx a i /\ k = idx / am_chunk a
  | VRun jn' _ _ _ _ =>
    exists j' a idx, nth_error (snd st) jn' = Some j' /\ nth_error (archs (fst st)) ai = Some a /\ jmatch j' a = true /\
      In i (jset j' a) /\ processed j' a idx /\ k = idx / am_chunk a
  | VCreate tid m sids via =>
    exists s' h l a', step (fst st) (OCreate tid m sids via) = Ok (s', RHandle h) /\
      nth_error (locs s') (N.to_nat (fst h)) = Some l /\ l_arch l = Some ai /\ nth_error (archs s') ai = Some a' /\
      k = l_idx l / am_chunk a'
  | _ => False
  end.

Inductive stamped_in (ai k i : nat) : vstate -> list vop -> Prop :=
| si_here st o rest : op_stamps st o ai k i -> stamped_in ai k i st (o :: rest)
| si_later st o st' out_ rest : vstep st o = Ok (st', out_) -> stamped_in ai k i st' rest -> stamped_in ai k i st (o :: rest).

Lemma stamped_in_cases ai k i : forall ops st, stamped_in ai k i st ops ->
  exists pre o post st_o, ops = pre ++ o :: post /\ vrun pre st = Ok st_o /\ op_stamps st_o o ai k i.
Proof.
  intros ops st H. induction H as [st o rest Ho|st o st' out_ rest Hs _ IH].
  - exists [], o, rest, st. auto.
  - destruct IH as (pre & o' & post & st_o & -> & Hr & Ho). exists (o :: pre), o', post, st_o.
    split; [reflexivity|]. split; [|assumption]. cbn [vrun]. rewrite Hs. cbn [bind fst]. assumption.
Qed.

Definition stamp_src (a a' : archetype) (P : nat -> nat -> Prop) : Prop :=
  forall p, nth p (am_cver a') 0%N = nth p (am_cver a) 0%N \/
            exists k i, i < length (am_gver a) /\ p = length (am_gver a) * k + i /\ P k i.

Lemma stamp_source_step s js o st' out_ ai a :
  VInv (s, js) -> vstep (s, js) o = Ok (st', out_) -> nth_error (archs s) ai = Some a ->
  exists a', nth_error (archs (fst st')) ai = Some a' /\ grows a a' /\ stamp_src a a' (op_stamps (s, js) o ai).
Proof.
  intros HI H Ha. pose proof HI as [I1 I2 I3 I4 I5 I6 I7]. cbn [fst snd] in *.
  assert (Hsame : exists a', nth_error (archs s) ai = Some a' /\ grows a a' /\ stamp_src a a' (op_stamps (s, js) o ai)).
  { exists a. split; [assumption|]. split; [apply grows_refl|]. intro p. left. reflexivity. }
  assert (Hstamp : forall h c s', (forall k i, (exists idx a0, touch s h c ai idx a0 i /\ k = idx / am_chunk a0) -> op_stamps (s, js) o ai k i) ->
            stamps_entity s h c s' ->
            exists a', nth_error (archs s') ai = Some a' /\ grows a a' /\ stamp_src a a' (op_stamps (s, js) o ai)).
  { intros h c s' Hop [(-> & _)|(ai0 & idx & a0 & ci & a1 & a2 & Ht & Hcs & Hv & E1 & E2 & E3 & E4 & E5 & E6 & ->)]; [exact Hsame|].
    pose proof Ht as (_ & _ & Ha0 & Hci).
    destruct (Nat.eq_dec ai ai0) as [->|Hne].
    - rewrite Ha in Ha0. inversion Ha0; subst a0; clear Ha0.
      destruct (stamp_one_ok (wv s) a _ _ a1 a2 (Forall_nth_error _ _ _ _ I5 Ha) Hv E1 E2 E3 E4 E5 E6) as (_ & (Sh & _) & K3 & _ & _ & K6 & _).
      exists a2. split; [cbn [archs set_arch set_archs]; apply nth_error_upd_same; apply nth_error_Some; congruence|].
      split; [apply same_shape_grows; assumption|].
      intro p. destruct (Nat.eq_dec p (length (am_gver a) * (idx / am_chunk a) + ci)) as [->|Hne]; [right|left; apply K6; assumption].
      exists (idx / am_chunk a), ci. split; [assumption|]. split; [reflexivity|]. apply Hop. exists idx, a. auto.
    - exists a. split; [cbn [archs set_arch set_archs]; rewrite nth_error_upd_other by congruence; assumption|].
      split; [apply grows_refl|]. intro p. left. reflexivity. }
  destruct o as [world|h c w|h c|h c|h c|jn' par tov wk cap|tid m sids via].
  - cbn [vstep] in H. rewrite (step_update_eq s world I1 I2) in H. cbn [bind fst snd] in H. inversion H; subst st' out_; clear H.
    cbn [fst archs set_marked set_wv]. destruct world; exact Hsame.
  - cbn [vstep] in H. bd H r Hr. destruct r as [s' o']. cbn [fst snd] in H. inversion H; subst st' out_; clear H. cbn [fst].
    eapply Hstamp; [|eapply step_getmut_effect; eassumption]. intros k i Hx. exact Hx.
  - cbn [vstep] in H. bd H r Hr. destruct r as [s' o']. cbn [fst snd] in H. inversion H; subst st' out_; clear H. cbn [fst].
    eapply Hstamp; [|eapply step_markdirty_effect; eassumption]. intros k i Hx. exact Hx.
  - cbn [vstep] in H. bd H r Hr. destruct r as [s' o']. cbn [fst snd] in H. inversion H; subst st' out_; clear H.
    apply step_getconst_effect in Hr. subst s'. exact Hsame.
  - cbn [vstep] in H. bd H r Hr. destruct r as [s' o']. cbn [fst snd] in H. inversion H; subst st' out_; clear H.
    apply step_has_effect in Hr. subst s'. exact Hsame.
  - destruct (vstep_run_cases _ _ _ _ _ _ _ _ _ I1 I3 H) as (j' & s1 & fas0 & Hj' & Hf & Hcases).
    destruct (job_filter_state _ _ _ _ Hf) as (E1 & Ewv & Elen & Hpt).
    destruct (Hpt _ _ Ha) as (a' & Ha' & Hrel).
    pose proof (Forall_nth_error _ _ _ _ I5 Ha) as Hok. destruct (jf_rel_ok _ _ _ _ Hok Hrel) as (_ & (Sh & _)).
    assert (G : exists a', nth_error (archs s1) ai = Some a' /\ grows a a' /\ stamp_src a a' (op_stamps (s, js) (VRun jn' par tov wk cap) ai)).
    { exists a'. split; [assumption|]. split; [apply same_shape_grows; assumption|]. intro p.
      destruct Hrel as [->|(-> & Hm & Hg)]; [left; reflexivity|]. unfold filtered. cbn [with_vers am_cver]. unfold jchunks.
      destruct Hok as [W1 W2 W3 W4 W5 W6 W7 W8].
      assert (Hsize : 0 < length (am_ents a)).
      { unfold jmatch in Hm. apply andb_true_iff in Hm. destruct Hm as (Hm & _). apply Nat.ltb_lt in Hm. exact Hm. }
      assert (Hcs : 0 < am_chunk a) by (apply W6; destruct (am_ents a); [simpl in Hsize; lia|discriminate]).
      destruct (filter_chunks_nth (length (am_gver a)) (jcheck j' a) (jset j' a) (j_last j') (wv s)
                  (S ((length (am_ents a) - 1) / am_chunk a)) 0 (am_cver a) p) as [E|(_ & k0 & i0 & Hk0 & Hi0 & Hp & Hfl)]; [left; exact E|right].
      exists k0, i0. split; [apply (lt_all_in _ _ _ (jset_lt j' a W1) Hi0)|]. split; [exact Hp|].
      cbn [op_stamps fst snd]. exists j', a, (am_chunk a * k0).
      destruct (filter_chunks_spec _ _ _ (j_last j') (wv s) (jcheck_lt j' a W1) (jset_lt j' a W1)
                  (S ((length (am_ents a) - 1) / am_chunk a)) 0 (am_cver a)) as (_ & _ & H3 & _).
      rewrite (H3 k0 Hk0) in Hfl.
      assert (Hdiv : am_chunk a * k0 / am_chunk a = k0) by (rewrite Nat.mul_comm; apply Nat.div_mul; lia).
      assert (Hlt : am_chunk a * k0 < length (am_ents a)).
      { assert (am_chunk a * k0 <= am_chunk a * ((length (am_ents a) - 1) / am_chunk a)) by (apply Nat.mul_le_mono_l; lia).
        pose proof (Nat.mul_div_le (length (am_ents a) - 1) (am_chunk a) ltac:(lia)). lia. }
      split; [assumption|]. split; [assumption|]. split; [assumption|]. split; [assumption|]. split; [|symmetry; exact Hdiv].
      split; [assumption|]. split; [assumption|]. rewrite Hdiv. exact Hfl. }
    destruct Hcases as [(_ & -> & ->)|(_ & per_task & vis & s3 & _ & _ & U1 & _ & _ & _ & _ & _ & _ & _ & _ & -> & ->)]; cbn [fst].
    + exact G.
    + rewrite U1. exact G.
  - (* create *)
    cbn [vstep] in H. bd H r Hr. destruct r as [s' o']. cbn [fst snd] in H. inversion H; subst st' out_; clear H. cbn [fst].
    destruct (create_effect _ _ _ _ _ _ _ _ HI Hr) as (_ & _ & h & ai0 & a3 & idx & -> & _ & _ & Ha3 & _ & _ & (l & Hl & Hla & Hli) & _ & _ & _ & Fa & _ & Fsrc & _).
    destruct (Fa _ _ Ha) as (a' & Ha' & (Gr & _) & Hsame'). exists a'. split; [assumption|]. split; [assumption|].
    destruct (Nat.eq_dec ai ai0) as [->|Hne]; [|rewrite (Hsame' Hne); intro p; left; reflexivity].
    rewrite Ha3 in Ha'. inversion Ha'; subst a'; clear Ha'. destruct (Fsrc _ Ha) as (_ & Hsrc). destruct Gr as (_ & _ & _ & Eg).
    intro p. destruct (Hsrc p) as [E|(i & Hi & Hp)]; [left; exact E|right]. rewrite Eg in Hi, Hp.
    exists (idx / am_chunk a3), i. split; [assumption|]. split; [assumption|].
    cbn [op_stamps fst]. exists s', h, l, a3. rewrite Hli. auto.
Qed.

Lemma stamp_source_run ai : forall ops st st' a,
  VInv st -> (wv (fst st) + N.of_nat (length ops) < WV_NULL)%N -> vrun ops st = Ok st' ->
  nth_error (archs (fst st)) ai = Some a ->
  exists a', nth_error (archs (fst st')) ai = Some a' /\ grows a a' /\
             stamp_src a a' (fun k i => stamped_in ai k i st ops).
Proof.
  induction ops as [|o t IH]; intros st st' a HI Hb H Ha.
  - simpl in H. inversion H; subst. exists a. split; [assumption|]. split; [apply grows_refl|]. intro p. left. reflexivity.
  - cbn [vrun] in H. bd H r Hr. destruct r as [st1 o1]. cbn [fst] in H. cbn [length] in Hb.
    assert (Hb1 : (wv (fst st) + 1 < WV_NULL)%N) by lia.
    destruct (vstep_inv _ _ _ _ HI Hb1 Hr) as (I1 & _ & W1). pose proof (wv_effect_le _ _ _ _ W1) as Hle.
    destruct st as [s js]. cbn [fst] in *.
    destruct (stamp_source_step _ _ _ _ _ _ _ HI Hr Ha) as (a1 & Ha1 & Sh1 & Src1).
    assert (Hb2 : (wv (fst st1) + N.of_nat (length t) < WV_NULL)%N) by lia.
    destruct (IH _ _ _ I1 Hb2 H Ha1) as (a' & Ha' & Sh' & Src').
    exists a'. split; [assumption|]. split; [eapply grows_trans; eassumption|].
    destruct Sh1 as (_ & _ & _ & Eg1). intro p. destruct (Src' p) as [E|(k & i & Hi & Hp & Hs)].
    + rewrite E. destruct (Src1 p) as [E1|(k & i & Hi & Hp & Hs)]; [left; exact E1|right].
      exists k, i. split; [assumption|]. split; [assumption|]. apply si_here. assumption.
    + right. exists k, i. rewrite <- Eg1. split; [assumption|]. split; [assumption|]. eapply si_later; eassumption.
Qed.

(* where the positions of the archetypes come from: an operation other than a creation adds none *)
Definition is_create (o : vop) : Prop := match o with VCreate _ _ _ _ => True | _ => False end.

Lemma vstep_ents_back s js o st' out_ :
  VInv (s, js) -> ~ is_create o -> vstep (s, js) o = Ok (st', out_) ->
  forall ai a', nth_error (archs (fst st')) ai = Some a' -> exists a, nth_error (archs s) ai = Some a /\ am_ents a = am_ents a'.
Proof.
  intros HI Hnc H. pose proof HI as [I1 I2 I3 I4 I5 I6 I7]. cbn [fst snd] in *.
  assert (Hsame : forall ai a', nth_error (archs s) ai = Some a' -> exists a, nth_error (archs s) ai = Some a /\ am_ents a = am_ents a') by eauto.
  assert (Hstamp : forall h c s', stamps_entity s h c s' ->
            forall ai a', nth_error (archs s') ai = Some a' -> exists a, nth_error (archs s) ai = Some a /\ am_ents a = am_ents a').
  { intros h c s' [(-> & _)|(ai0 & idx & a0 & ci & a1 & a2 & Ht & Hcs & Hv & E1 & E2 & E3 & E4 & E5 & E6 & ->)]; [exact Hsame|].
    destruct Ht as (_ & _ & Ha0 & _). intros ai a' Ha'. cbn [archs set_arch set_archs] in Ha'.
    destruct (Nat.eq_dec ai ai0) as [->|Hne].
    - rewrite nth_error_upd_same in Ha' by (apply nth_error_Some; congruence). inversion Ha'; subst a'. eauto.
    - rewrite nth_error_upd_other in Ha' by congruence. eauto. }
  destruct o as [world|h c w|h c|h c|h c|jn' par tov wk cap|tid m sids via].
  - cbn [vstep] in H. rewrite (step_update_eq s world I1 I2) in H. cbn [bind fst snd] in H. inversion H; subst st' out_; clear H.
    cbn [fst archs set_marked set_wv]. destruct world; exact Hsame.
  - cbn [vstep] in H. bd H r Hr. destruct r as [s' o']. cbn [fst snd] in H. inversion H; subst st' out_; clear H. cbn [fst].
    eapply Hstamp. eapply step_getmut_effect. eassumption.
  - cbn [vstep] in H. bd H r Hr. destruct r as [s' o']. cbn [fst snd] in H. inversion H; subst st' out_; clear H. cbn [fst].
    eapply Hstamp. eapply step_markdirty_effect. eassumption.
  - cbn [vstep] in H. bd H r Hr. destruct r as [s' o']. cbn [fst snd] in H. inversion H; subst st' out_; clear H.
    apply step_getconst_effect in Hr. subst s'. exact Hsame.
  - cbn [vstep] in H. bd H r Hr. destruct r as [s' o']. cbn [fst snd] in H. inversion H; subst st' out_; clear H.
    apply step_has_effect in Hr. subst s'. exact Hsame.
  - destruct (vstep_run_cases _ _ _ _ _ _ _ _ _ I1 I3 H) as (j' & s1 & fas0 & Hj' & Hf & Hcases).
    destruct (job_filter_state _ _ _ _ Hf) as (E1 & Ewv & Elen & Hpt).
    assert (G : forall ai a', nth_error (archs s1) ai = Some a' -> exists a, nth_error (archs s) ai = Some a /\ am_ents a = am_ents a').
    { intros ai a' Ha'. assert (Hi : ai < length (archs s)) by (rewrite <- Elen; apply nth_error_Some; congruence).
      destruct (nth_error (archs s) ai) as [a|] eqn:Ha; [|apply nth_error_None in Ha; lia].
      destruct (Hpt _ _ Ha) as (a'' & Ha'' & Hrel). rewrite Ha' in Ha''. inversion Ha''; subst a''.
      exists a. split; [reflexivity|]. destruct Hrel as [->|(-> & _)]; reflexivity. }
    destruct Hcases as [(_ & -> & ->)|(_ & per_task & vis & s3 & _ & _ & U1 & _ & _ & _ & _ & _ & _ & _ & _ & -> & ->)]; cbn [fst].
    + exact G.
    + rewrite U1. exact G.
  - exfalso. apply Hnc. exact I.
Qed.

Lemma is_create_dec o : {is_create o} + {~ is_create o}.
Proof. destruct o; try (right; intro F; exact F); left; exact I. Qed.

(* a position (ai, idx) after an operation existed before it, or the operation created the entity there *)
Lemma position_source_step s js o st' out_ ai a' idx :
  VInv (s, js) -> vstep (s, js) o = Ok (st', out_) -> nth_error (archs (fst st')) ai = Some a' -> idx < length (am_ents a') ->
  (exists a, nth_error (archs s) ai = Some a /\ idx < length (am_ents a)) \/
  (forall i, op_stamps (s, js) o ai (idx / am_chunk a') i).
Proof.
  intros HI H Ha' Hidx. destruct (is_create_dec o) as [Hc|Hnc].
  - destruct o as [ | | | | | |tid m sids via]; try contradiction.
    cbn [vstep] in H. bd H r Hr. destruct r as [s' o']. cbn [fst snd] in H. inversion H; subst st' out_; clear H. cbn [fst] in Ha'.
    destruct (create_effect _ _ _ _ _ _ _ _ HI Hr) as (_ & _ & h & ai0 & a3 & idx0 & -> & _ & _ & Ha3 & Hlen3 & _ & (l & Hl & Hla & Hli) & _ & _ & _ & _ & Fback & Fsrc & Fnone).
    destruct (Fback _ _ Ha') as [->|Hold]; [|left; eauto].
    rewrite Ha3 in Ha'. inversion Ha'; subst a'; clear Ha'.
    destruct (Nat.eq_dec idx idx0) as [->|Hne].
    + right. intro i. cbn [op_stamps fst]. exists s', h, l, a3. rewrite Hli. auto.
    + left. destruct (nth_error (archs s) ai0) as [a|] eqn:Ha.
      * exists a. split; [reflexivity|]. destruct (Fsrc _ eq_refl) as (Ee & _). rewrite Ee, app_length in Hlen3, Hidx. simpl in Hlen3, Hidx. lia.
      * specialize (Fnone eq_refl). lia.
  - left. destruct (vstep_ents_back _ _ _ _ _ HI Hnc H _ _ Ha') as (a & Ha & Ee). exists a. rewrite Ee. auto.
Qed.

Lemma position_source_run ai idx : forall ops st st' a',
  VInv st -> (wv (fst st) + N.of_nat (length ops) < WV_NULL)%N -> vrun ops st = Ok st' ->
  nth_error (archs (fst st')) ai = Some a' -> idx < length (am_ents a') ->
  (exists a, nth_error (archs (fst st)) ai = Some a /\ idx < length (am_ents a)) \/
  (forall i, stamped_in ai (idx / am_chunk a') i st ops).
Proof.
  induction ops as [|o t IH]; intros st st' a' HI Hb H Ha' Hidx.
  - simpl in H. inversion H; subst. left. eauto.
  - cbn [vrun] in H. bd H r Hr. destruct r as [st1 o1]. cbn [fst] in H. cbn [length] in Hb.
    assert (Hb1 : (wv (fst st) + 1 < WV_NULL)%N) by lia.
    destruct (vstep_inv _ _ _ _ HI Hb1 Hr) as (I1 & _ & W1). pose proof (wv_effect_le _ _ _ _ W1) as Hle.
    assert (Hb2 : (wv (fst st1) + N.of_nat (length t) < WV_NULL)%N) by lia.
    destruct (IH _ _ _ I1 Hb2 H Ha' Hidx) as [(a1 & Ha1 & Hidx1)|Hst].
    + destruct st as [s js]. cbn [fst] in *.
      destruct (position_source_step _ _ _ _ _ _ _ _ HI Hr Ha1 Hidx1) as [Hold|Hnew]; [left; exact Hold|right].
      destruct (vrun_inv _ _ _ I1 Hb2 H) as (_ & [_ _ Fa _ _] & _). destruct (Fa _ _ Ha1) as (a'' & Ha'' & ((_ & _ & Ek & _) & _)).
      rewrite Ha' in Ha''. inversion Ha''; subst a''. rewrite Ek. intro i. apply si_here. apply Hnew.
    + right. intro i. eapply si_later; [eassumption|apply Hst].
Qed.

(* C11, chunk precision over histories.  Job jn ran and had work; then any operations that are not runs of jn (entities
   may be created); then jn runs again.  Every entity it is handed lies in a version chunk in which, in between, a stamp
   was written (stamped_in, op_stamps) -- the stamp of a component index i of its check mask, by a mutable access /
   dirty mark of an entity of that chunk or by a run of another job that writes that component and was itself handed
   that chunk; or, by an entity arriving in that chunk, the stamps of all components. *)
Theorem C11_history_precise_core st0 jn j p0 t0 w0 c0 st1 out0 h0 mid st2 par tov wk cap st3 out_ h :
  VInv st0 -> (wv (fst st0) + N.of_nat (length mid) + 2 < WV_NULL)%N ->
  nth_error (snd st0) jn = Some j -> checks_all j (fst st0) ->
  vstep st0 (VRun jn p0 t0 w0 c0) = Ok (st1, out0) -> handed out0 h0 ->
  no_run jn mid -> vrun mid st1 = Ok st2 -> 0 < cap ->
  vstep st2 (VRun jn par tov wk cap) = Ok (st3, out_) -> handed out_ h ->
  exists ai a idx i, nth_error (archs (fst st2)) ai = Some a /\ nth_error (am_ents a) idx = Some h /\
    jmatch j a = true /\ (jcheck j a = [] \/ In i (jcheck j a)) /\ stamped_in ai (idx / am_chunk a) i st1 mid.
Proof.
  destruct st0 as [s0 js0]. intros HI Hb Hj Hca H1 Hh0 Hno H2 Hcap H3 Hh. cbn [fst snd] in *.
  assert (Hb0 : (wv (fst (s0, js0)) + 1 < WV_NULL)%N) by (cbn [fst]; lia).
  destruct (vstep_inv _ _ _ _ HI Hb0 H1) as (I1 & F1 & _). cbn [fst] in Hb0.
  destruct (after_work_quiet _ _ _ _ _ _ _ _ _ _ _ HI Hb0 Hj Hca H1 Hh0) as (Hj1 & (Hnn & HQ1) & Hwv1 & _).
  assert (Hb1 : (wv (fst st1) + N.of_nat (length mid) < WV_NULL)%N) by lia.
  destruct (vrun_inv _ _ _ I1 Hb1 H2) as (I2 & F2 & _).
  pose proof (vrun_keeps_job jn _ _ _ I1 Hb1 H2 Hno) as Ejob. rewrite Hj1 in Ejob.
  destruct st2 as [s2 js2]. cbn [fst snd] in *.
  destruct (run_handed_char _ _ _ _ _ _ _ _ _ I2 Hcap H3) as (j2 & Hj2 & Hchar). rewrite Ejob in Hj2. inversion Hj2; subst j2; clear Hj2.
  apply Hchar in Hh. destruct Hh as (ai & a2 & idx & Ha2 & Hm2 & (Hidx & _ & Hfl) & Hent).
  rewrite jmatch_relast in Hm2. rewrite jcheck_relast in Hfl. cbn [relast j_last] in Hfl.
  destruct (position_source_run ai idx _ _ _ _ I1 Hb1 H2 Ha2 Hidx) as [(a1 & Ha1 & Hidx1)|Hnew].
  2:{ (* the entity arrived after the first run *)
      destruct (jcheck j a2) as [|i0 t0'] eqn:Ejc.
      - exists ai, a2, idx, 0. rewrite Ejc. repeat split; try assumption; [left; reflexivity|apply Hnew].
      - exists ai, a2, idx, i0. rewrite Ejc. repeat split; try assumption; [right; left; reflexivity|apply Hnew]. }
  destruct (stamp_source_run ai _ _ _ _ I1 Hb1 H2 Ha1) as (a2' & Ha2' & Gr & Src). cbn [fst] in Ha2'.
  rewrite Ha2 in Ha2'. inversion Ha2'; subst a2'; clear Ha2'.
  pose proof Gr as (Em & _ & Ek & Eg).
  assert (Hm1 : jmatch j a1 = true).
  { unfold jmatch in *. rewrite Em in Hm2. apply andb_true_iff in Hm2. destruct Hm2 as (_ & X). rewrite X, andb_true_r. apply Nat.ltb_lt. lia. }
  assert (Ejc : jcheck j a2 = jcheck j a1) by (rewrite !jcheck_eq, Em; reflexivity).
  rewrite Ejc in *.
  destruct (Forall_nth_error _ _ _ _ HQ1 Ha1) as (Hne & Hq); [rewrite jmatch_relast; assumption|].
  rewrite jcheck_relast in Hne. unfold chunk_quiet in Hq. rewrite jcheck_relast in Hq. cbn [relast j_last] in Hq.
  apply need_flag_true in Hfl. destruct Hfl as [E|[E|(i & Hi & Hlt)]]; [cbn [relast j_last] in Hnn; contradiction|contradiction|].
  exists ai, a2, idx, i. rewrite Ejc. split; [assumption|]. split; [assumption|]. split; [assumption|]. split; [right; assumption|].
  destruct I1 as [_ _ _ _ I5 _ _]. pose proof (Forall_nth_error _ _ _ _ I5 Ha1) as [W1 _ _ _ _ _ _ _].
  rewrite Eg in Hlt. destruct (Src (length (am_gver a1) * (idx / am_chunk a2) + i)) as [E|(k & i' & Hi' & Hp & Hs)].
  - exfalso. rewrite E, Ek in Hlt. specialize (Hq i (idx / am_chunk a1) Hi). lia.
  - destruct (row_pos_unique _ _ _ _ _ (lt_all_in _ _ _ (jcheck_lt j a1 W1) Hi) Hi' Hp) as (-> & ->). exact Hs.
Qed.

(* ------------------------------------------------------------------------------------------ *)
(* Part 4c: C07 for components written by another job                                          *)
Lemma job_filter_filtered s j s1 fas k a :
  job_filter s j = Ok (s1, fas) -> nth_error (archs s) k = Some a -> jmatch j a = true ->
  need_flag (am_gver a) 0 (jcheck j a) (j_last j) = true ->
  nth_error (archs s1) k = Some (filtered j (wv s) a).
Proof.
  intros H Ha Hm Hg. rewrite job_filter_unfold in H.
  assert (Hk : k < length (archs s)) by (apply nth_error_Some; congruence).
  replace (length (archs s)) with (k + S (length (archs s) - S k)) in H by lia.
  rewrite seq_app in H. cbn [seq] in H. rewrite fold_res_app in H.
  destruct (fold_res (jf_step j) (seq 0 k) (s, [])) as [[sa fa_a]|e] eqn:Ea; [|discriminate]. cbn [bind fold_res] in H.
  apply jf_fold_state in Ea; [|apply seq_NoDup]. destruct Ea as (_ & Ewa & _ & Hpa).
  destruct (Hpa _ _ Ha) as (a' & Ha' & _ & Hsame). rewrite Hsame in Ha' by (intro F; apply in_seq in F; lia). clear Hsame.
  destruct (jf_step j (sa, fa_a) (0 + k)) as [[sb fa_b]|e] eqn:Eb; [|discriminate]. cbn [bind] in H.
  cbn [Nat.add] in Eb. rewrite jf_step_eq, Ha', Hm, Hg in Eb. cbn [negb] in Eb.
  destruct (am_chunk a); [discriminate|]. inversion Eb; subst sb fa_b; clear Eb.
  apply jf_fold_state in H; [|apply seq_NoDup]. destruct H as (_ & _ & _ & Hpb).
  assert (Hmid : nth_error (archs (set_arch sa k (filtered j (wv sa) a))) k = Some (filtered j (wv sa) a)).
  { cbn [archs set_arch set_archs]. apply nth_error_upd_same. apply nth_error_Some. congruence. }
  destruct (Hpb _ _ Hmid) as (a'' & Ha'' & _ & Hsame). rewrite Hsame in Ha'' by (intro F; apply in_seq in F; lia).
  rewrite <- Ewa. exact Ha''.
Qed.

(* a processed position's version chunk receives the run's world version in every component the job writes *)
Lemma filtered_stamped w j a idx ci :
  arch_ok w a -> processed j a idx -> In ci (jset j a) ->
  nth (length (am_gver a) * (idx / am_chunk a) + ci) (am_cver (filtered j w a)) 0%N = w.
Proof.
  intros [W1 W2 W3 W4 W5 W6 W7 W8] (Hidx & _ & Hfl) Hci.
  assert (Hne : am_ents a <> []) by (destruct (am_ents a); [simpl in Hidx; lia|discriminate]).
  specialize (W6 Hne). specialize (W7 Hne).
  unfold filtered. cbn [with_vers am_cver]. unfold jchunks.
  destruct (filter_chunks_spec _ _ _ (j_last j) w (jcheck_lt j a W1) (jset_lt j a W1)
              (S ((length (am_ents a) - 1) / am_chunk a)) 0 (am_cver a)) as (_ & _ & _ & H4 & _).
  assert (Hk : idx / am_chunk a < S ((length (am_ents a) - 1) / am_chunk a)).
  { apply Nat.lt_succ_r. apply Nat.div_le_mono; lia. }
  pose proof (lt_all_in _ _ _ (jset_lt j a W1) Hci) as Hlt.
  specialize (H4 (idx / am_chunk a) ci Hk Hlt). cbn [Nat.add] in H4. rewrite H4.
  unfold cas_row. rewrite check_and_set_unfold. cbn [fst]. rewrite Hfl, stamp_set_nth.
  assert (E1 : existsb (fun i => length (am_gver a) * (idx / am_chunk a) + i =? length (am_gver a) * (idx / am_chunk a) + ci) (jset j a) = true).
  { apply existsb_exists. exists ci. split; [assumption|apply Nat.eqb_refl]. }
  assert (E2 : (length (am_gver a) * (idx / am_chunk a) + ci <? length (am_cver a)) = true).
  { apply Nat.ltb_lt. rewrite W7.
    assert (length (am_gver a) * S (idx / am_chunk a) <= length (am_gver a) * S ((length (am_ents a) - 1) / am_chunk a))
      by (apply Nat.mul_le_mono_l; lia). lia. }
  rewrite E1, E2. reflexivity.
Qed.

(* C07 for a component written by another job: job jn' (writing c) runs and is handed entity h; any operations follow
   that are not runs of jn; then jn (checking c) runs: it is handed h. *)
Theorem C07_history_job_core st1 jn' p1 t1 w1 c1 out1 st2 mid st3 jn par tov wk cap st4 out_ h c ai a idx ci j j' :
  VInv st1 -> (wv (fst st1) + N.of_nat (length mid) + 2 < WV_NULL)%N ->
  nth_error (snd st1) jn = Some j -> nth_error (snd st1) jn' = Some j' -> jn' <> jn ->
  vstep st1 (VRun jn' p1 t1 w1 c1) = Ok (st2, out1) ->
  (* the run of jn' processed the entity h at position idx of archetype ai *)
  nth_error (archs (fst st1)) ai = Some a -> nth_error (am_ents a) idx = Some h -> jmatch j' a = true -> processed j' a idx ->
  (* jn' writes c, jn checks c, the entity carries c and matches jn *)
  In c (mitems (job_update_mask j')) -> c < MASK_BITS -> mhas (j_check j) c = true -> cindex (am_mask a) c = Some ci ->
  mmatch (am_mask a) (job_required_mask j) = true ->
  vrun mid st2 = Ok st3 -> no_run jn mid -> 0 < cap ->
  vstep st3 (VRun jn par tov wk cap) = Ok (st4, out_) ->
  handed out_ h.
Proof.
  destruct st1 as [s1 js1]. intros HI Hb Hj Hj' Hne H1 Ha Hent Hm' Hpr Hw Hc Hchk Hci Hmm H2 Hno Hcap H3. cbn [fst snd] in *.
  assert (Hb1 : (wv (fst (s1, js1)) + 1 < WV_NULL)%N) by (cbn [fst]; lia).
  destruct (vstep_inv _ _ _ _ HI Hb1 H1) as (I2 & F2 & W2). pose proof (wv_effect_le _ _ _ _ W2) as Hle. cbn [fst] in Hle.
  pose proof HI as [I1 _ I3 _ I5 _ I7]. cbn [fst snd] in *.
  destruct (vstep_run_cases _ _ _ _ _ _ _ _ _ I1 I3 H1) as (j0 & s1' & fas0 & Hj0 & Hf & Hcases).
  rewrite Hj' in Hj0. inversion Hj0; subst j0; clear Hj0.
  pose proof (Forall_nth_error _ _ _ _ I5 Ha) as Hok.
  pose proof Hpr as (_ & Hg & _).
  pose proof (job_filter_filtered _ _ _ _ _ _ Hf Ha Hm' Hg) as Ha1.
  assert (Hcs : In ci (jset j' a)) by (rewrite jset_eq; eapply comp_indices_intro; eassumption).
  pose proof (filtered_stamped (wv s1) j' a idx ci Hok Hpr Hcs) as Hst.
  destruct (filtered_ok j' (wv s1) a Hok) as (_ & ((Em & Ee & Ek & Es & Eg) & _)).
  assert (Hjob2 : nth_error (snd st2) jn = Some j).
  { rewrite (wv_effect_keeps_job _ _ _ _ jn W2 Hne). assumption. }
  assert (Ha2 : nth_error (archs (fst st2)) ai = Some (filtered j' (wv s1) a)).
  { destruct Hcases as [(_ & -> & _)|(_ & per_task & vis & s3 & _ & _ & U1 & _ & _ & _ & _ & _ & _ & _ & _ & -> & _)]; cbn [fst]; [|rewrite U1]; assumption. }
  refine (C07_from_stamp st2 mid st3 jn par tov wk cap st4 out_ h c ai idx (filtered j' (wv s1) a) ci j (wv s1)
            I2 _ Ha2 _ _ Hc Hchk _ Hjob2 _ _ H2 Hno Hcap H3).
  - lia.
  - rewrite Ee. assumption.
  - rewrite Em. assumption.
  - rewrite Em. assumption.
  - exact (Forall_nth_error _ _ _ _ I7 Hj).
  - rewrite Eg, Ek. assumption.
Qed.

(* ------------------------------------------------------------------------------------------ *)
(* the population: configuration and entity creation from the initial state                     *)
Definition is_setup (o : op) : Prop :=
  match o with
  | OCreate _ _ _ _ => True          (* executed unlocked: the setup never locks *)
  | OVerChunk _ => True
  | OChunkFn _ _ _ => True
  | ODep _ _ => True
  | _ => False
  end.

Definition setup_run (s : mst) (ops : list op) : res mst := fold_res (fun st o => do r <- step st o; Ok (fst r)) ops s.

Lemma VInv_setup_step s js o s' out_ : is_setup o -> VInv (s, js) -> step s o = Ok (s', out_) -> VInv (s', js) /\ wv s' = wv s.
Proof.
  intros Ho HI H. destruct o; try contradiction.
  - eapply VInv_create; eassumption.
  - cbn [step] in H. bd H s1 Hs1. inversion H; subst s' out_; clear H. unfold add_dependency in Hs1. bd Hs1 exm Hexm.
    inversion Hs1; subst s1. split; [|reflexivity]. eapply VInv_core; [| |exact HI]; [repeat split|reflexivity].
  - cbn [step] in H. inversion H; subst s' out_. split; [|reflexivity]. eapply VInv_core; [| |exact HI]; [repeat split|reflexivity].
  - cbn [step] in H. inversion H; subst s' out_. split; [|reflexivity]. eapply VInv_core; [| |exact HI]; [repeat split|reflexivity].
Qed.

Theorem VInv_setup js : forall ops s s', Forall is_setup ops -> VInv (s, js) -> setup_run s ops = Ok s' -> VInv (s', js) /\ wv s' = wv s.
Proof.
  induction ops as [|o t IH]; intros s s' Hs HI H.
  - simpl in H. inversion H; subst. auto.
  - unfold setup_run in H. cbn [fold_res] in H. bd H s1 Hs1. bd Hs1 r Hr. destruct r as [s1' o']. inversion Hs1; subst s1; clear Hs1.
    inversion Hs; subst. destruct (VInv_setup_step _ _ _ _ _ H2 HI Hr) as (I1 & W1). cbn [fst] in H.
    destruct (IH _ _ H3 I1 H) as (I2 & W2). split; [assumption|congruence].
Qed.

(* jobs as the driver makes them (mkjob): never run *)
Definition fresh_jobs (js : list job) : Prop := Forall (fun j => j_last j = WV_NULL) js.

Lemma VInv_init n cis js : fresh_jobs js -> VInv (init n cis, js).
Proof.
  intro Hj. constructor; cbn [fst snd init lockc marked bufs empty_slots archs wv]; try reflexivity.
  - constructor.
  - constructor.
  - intros h l ai Hv _ _. unfold is_valid in Hv. cbn [init slots] in Hv. destruct (is_null h); [discriminate|].
    destruct (N.to_nat (fst h)); discriminate.
  - eapply Forall_impl; [|exact Hj]. intros j E. left. exact E.
Qed.

(* a fixed population: entities created (unlocked) from the initial state, with any chunk-size configuration and
   dependency declarations in between; never destroyed, moved or extended afterwards *)
Definition population (n : nat) (cis : list cinfo) (setup : list op) (s0 : mst) : Prop :=
  Forall is_setup setup /\ setup_run (init n cis) setup = Ok s0.

Lemma population_inv n cis setup s0 js : population n cis setup s0 -> fresh_jobs js -> VInv (s0, js) /\ wv s0 = 0%N.
Proof.
  intros (Hs & Hr) Hj. destruct (VInv_setup js _ _ _ Hs (VInv_init n cis js Hj) Hr) as (I & W). split; [assumption|]. rewrite W. reflexivity.
Qed.

(* (1) THE INVARIANTS OF EVERY RUN over a fixed population, from the initial state *)
Theorem history_invariants n cis setup s0 js ops st :
  population n cis setup s0 -> fresh_jobs js -> (N.of_nat (length ops) < WV_NULL)%N ->
  vrun ops (s0, js) = Ok st ->
  VInv st /\ vframe (s0, js) st /\ (wv (fst st) <= N.of_nat (length ops))%N.
Proof.
  intros Hp Hj Hb H. destruct (population_inv _ _ _ _ _ Hp Hj) as (I0 & W0).
  assert (Hb0 : (wv (fst (s0, js)) + N.of_nat (length ops) < WV_NULL)%N) by (cbn [fst]; rewrite W0; lia).
  destruct (vrun_inv _ _ _ I0 Hb0 H) as (I & F & W). cbn [fst] in W. rewrite W0 in W. auto.
Qed.

(* (2) C07 over histories, from the initial state *)
Theorem C07_history n cis setup s0 js pre st1 o out_t st2 mid st3 jn par tov wk cap st4 out_ h c ai idx a ci j :
  population n cis setup s0 -> fresh_jobs js ->
  (N.of_nat (length pre) + N.of_nat (length mid) + 2 < WV_NULL)%N ->
  vrun pre (s0, js) = Ok st1 ->
  is_touch o h c -> touch (fst st1) h c ai idx a ci ->
  nth_error (snd st1) jn = Some j -> c < MASK_BITS -> mhas (j_check j) c = true ->
  mmatch (am_mask a) (job_required_mask j) = true ->
  vstep st1 o = Ok (st2, out_t) -> vrun mid st2 = Ok st3 -> no_run jn mid -> 0 < cap ->
  vstep st3 (VRun jn par tov wk cap) = Ok (st4, out_) ->
  handed out_ h.
Proof.
  intros Hp Hj Hb Hpre. assert (Hbp : (N.of_nat (length pre) < WV_NULL)%N) by lia.
  destruct (history_invariants _ _ _ _ _ _ _ Hp Hj Hbp Hpre) as (I1 & _ & W1).
  apply C07_history_core; try assumption. lia.
Qed.

Theorem C07_history_job n cis setup s0 js pre st1 jn' p1 t1 w1 c1 out1 st2 mid st3 jn par tov wk cap st4 out_ h c ai a idx ci j j' :
  population n cis setup s0 -> fresh_jobs js ->
  (N.of_nat (length pre) + N.of_nat (length mid) + 2 < WV_NULL)%N ->
  vrun pre (s0, js) = Ok st1 ->
  nth_error (snd st1) jn = Some j -> nth_error (snd st1) jn' = Some j' -> jn' <> jn ->
  vstep st1 (VRun jn' p1 t1 w1 c1) = Ok (st2, out1) ->
  nth_error (archs (fst st1)) ai = Some a -> nth_error (am_ents a) idx = Some h -> jmatch j' a = true -> processed j' a idx ->
  In c (mitems (job_update_mask j')) -> c < MASK_BITS -> mhas (j_check j) c = true -> cindex (am_mask a) c = Some ci ->
  mmatch (am_mask a) (job_required_mask j) = true ->
  vrun mid st2 = Ok st3 -> no_run jn mid -> 0 < cap ->
  vstep st3 (VRun jn par tov wk cap) = Ok (st4, out_) ->
  handed out_ h.
Proof.
  intros Hp Hj Hb Hpre. assert (Hbp : (N.of_nat (length pre) < WV_NULL)%N) by lia.
  destruct (history_invariants _ _ _ _ _ _ _ Hp Hj Hbp Hpre) as (I1 & _ & W1).
  intros. eapply (C07_history_job_core st1 jn' p1 t1 w1 c1 out1 st2 mid st3 jn par tov wk cap st4 out_ h c ai a idx ci j j'); try eassumption. lia.
Qed.

(* (3) C11 over histories, from the initial state *)
Theorem C11_history_quiet n cis setup s0 js pre st0 jn j p0 t0 w0 c0 st1 out0 h0 mid st2 par tov wk cap st3 out_ :
  population n cis setup s0 -> fresh_jobs js ->
  (N.of_nat (length pre) + N.of_nat (length mid) + 2 < WV_NULL)%N ->
  vrun pre (s0, js) = Ok st0 ->
  nth_error (snd st0) jn = Some j -> checks_all j (fst st0) ->
  vstep st0 (VRun jn p0 t0 w0 c0) = Ok (st1, out0) -> handed out0 h0 ->
  Forall (harmless (snd st0) jn (j_check j)) mid -> vrun mid st1 = Ok st2 ->
  vstep st2 (VRun jn par tov wk cap) = Ok (st3, out_) ->
  out_ = RJob (wv (fst st0)) [] /\ forall h, ~ handed out_ h.
Proof.
  intros Hp Hj Hb Hpre. assert (Hbp : (N.of_nat (length pre) < WV_NULL)%N) by lia.
  destruct (history_invariants _ _ _ _ _ _ _ Hp Hj Hbp Hpre) as (I1 & _ & W1).
  intros. eapply (C11_history_quiet_core st0 jn j p0 t0 w0 c0 st1 out0 h0 mid st2 par tov wk cap st3 out_); try eassumption. lia.
Qed.

Theorem C11_history_precise n cis setup s0 js pre st0 jn j p0 t0 w0 c0 st1 out0 h0 mid st2 par tov wk cap st3 out_ h :
  population n cis setup s0 -> fresh_jobs js ->
  (N.of_nat (length pre) + N.of_nat (length mid) + 2 < WV_NULL)%N ->
  vrun pre (s0, js) = Ok st0 ->
  nth_error (snd st0) jn = Some j -> checks_all j (fst st0) ->
  vstep st0 (VRun jn p0 t0 w0 c0) = Ok (st1, out0) -> handed out0 h0 ->
  no_run jn mid -> vrun mid st1 = Ok st2 -> 0 < cap ->
  vstep st2 (VRun jn par tov wk cap) = Ok (st3, out_) -> handed out_ h ->
  exists ai a idx i, nth_error (archs (fst st2)) ai = Some a /\ nth_error (am_ents a) idx = Some h /\
    jmatch j a = true /\ (jcheck j a = [] \/ In i (jcheck j a)) /\ stamped_in ai (idx / am_chunk a) i st1 mid.
Proof.
  intros Hp Hj Hb Hpre. assert (Hbp : (N.of_nat (length pre) < WV_NULL)%N) by lia.
  destruct (history_invariants _ _ _ _ _ _ _ Hp Hj Hbp Hpre) as (I1 & _ & W1).
  intros. eapply (C11_history_precise_core st0 jn j p0 t0 w0 c0 st1 out0 h0 mid st2 par tov wk cap st3 out_ h); try eassumption. lia.
Qed.

(* ------------------------------------------------------------------------------------------ *)
(* read-only access changes nothing at all *)
Theorem readonly_no_effect st o st' out_ :
  (exists h c, o = VGetConst h c \/ o = VHas h c) -> vstep st o = Ok (st', out_) -> st' = st.
Proof.
  destruct st as [s js]. intros (h & c & [-> | ->]) H; cbn [vstep] in H; bd H r Hr; destruct r as [s' o']; cbn [fst snd] in H;
    inversion H; subst st' out_; [apply step_getconst_effect in Hr|apply step_has_effect in Hr]; subst s'; reflexivity.
Qed.

(* what "stamped_in" means in terms of components and entities: somewhere in the script an operation, executed in the
   state st_o reached by the operations before it, is
   - a mutable access / dirty mark of a component c of the job's check mask on an entity sitting in version chunk k of
     archetype ai, or
   - a run of a job that writes such a component c and was itself handed a position of version chunk k of archetype ai *)
Definition cause (j : job) (a : archetype) (ai k i : nat) (st_o : vstate) (a_o : archetype) (o : vop) : Prop :=
  match o with
  | VGetMut hm c _ => c < MASK_BITS /\ mhas (j_check j) c = true /\ exists idxm, touch (fst st_o) hm c ai idxm a_o i /\ k = idxm / am_chunk a
  | VMarkDirty hm c => c < MASK_BITS /\ mhas (j_check j) c = true /\ exists idxm, touch (fst st_o) hm c ai idxm a_o i /\ k = idxm / am_chunk a
  | VRun jn' _ _ _ _ =>
    exists j' idx', nth_error (snd st_o) jn' = Some j' /\ jmatch j' a_o = true /\ processed j' a_o idx' /\ k = idx' / am_chunk a /\
      exists c, c < MASK_BITS /\ mhas (j_check j) c = true /\ In c (mitems (job_update_mask j')) /\ cindex (am_mask a) c = Some i
  | VCreate tid m sids via =>
    exists s' h l, step (fst st_o) (OCreate tid m sids via) = Ok (s', RHandle h) /\
      nth_error (locs s') (N.to_nat (fst h)) = Some l /\ l_arch l = Some ai /\ k = l_idx l / am_chunk a
  | _ => False
  end.

Theorem stamped_in_explained st1 mid ai k i j a :
  VInv st1 -> (wv (fst st1) + N.of_nat (length mid) < WV_NULL)%N ->
  nth_error (archs (fst st1)) ai = Some a -> In i (jcheck j a) -> stamped_in ai k i st1 mid ->
  exists pre o post st_o a_o, mid = pre ++ o :: post /\ vrun pre st1 = Ok st_o /\
    nth_error (archs (fst st_o)) ai = Some a_o /\ grows a a_o /\ cause j a ai k i st_o a_o o.
Proof.
  intros HI Hb Ha Hi Hs. destruct (stamped_in_cases _ _ _ _ _ Hs) as (pre & o & post & st_o & -> & Hr & Ho).
  assert (Hbp : (wv (fst st1) + N.of_nat (length pre) < WV_NULL)%N) by (rewrite app_length in Hb; lia).
  destruct (vrun_inv _ _ _ HI Hbp Hr) as (I_o & [_ _ Fa _ _] & Wle).
  destruct (Fa _ _ Ha) as (a_o & Ha_o & (Gr & _)).
  exists pre, o, post, st_o, a_o. split; [reflexivity|]. split; [assumption|]. split; [assumption|]. split; [assumption|].
  pose proof Gr as (Em & _ & Ek & Eg).
  assert (Hi_o : In i (jcheck j a_o)) by (rewrite jcheck_eq, Em, <- jcheck_eq; exact Hi).
  destruct o as [world|hm c w|hm c|hm c|hm c|jn' par tov wk cap|tid m sids via]; cbn [op_stamps cause] in *; try contradiction.
  - destruct Ho as (idxm & a' & Ht & ->). pose proof Ht as (_ & _ & Ha' & Hc). rewrite Ha_o in Ha'. inversion Ha'; subst a'.
    destruct (jcheck_component _ _ _ _ Hi_o Hc) as (C1 & C2). split; [assumption|]. split; [assumption|].
    exists idxm. split; [assumption|]. rewrite Ek. reflexivity.
  - destruct Ho as (idxm & a' & Ht & ->). pose proof Ht as (_ & _ & Ha' & Hc). rewrite Ha_o in Ha'. inversion Ha'; subst a'.
    destruct (jcheck_component _ _ _ _ Hi_o Hc) as (C1 & C2). split; [assumption|]. split; [assumption|].
    exists idxm. split; [assumption|]. rewrite Ek. reflexivity.
  - destruct Ho as (j' & a' & idx' & Hj' & Ha' & Hm' & Hset & Hpr & ->). rewrite Ha_o in Ha'. inversion Ha'; subst a'.
    exists j', idx'. split; [assumption|]. split; [assumption|]. split; [assumption|]. split; [rewrite Ek; reflexivity|].
    destruct (comp_index_component _ _ _ Hset) as (c & Hc1 & Hc2). destruct (jcheck_component _ _ _ _ Hi_o Hc2) as (C1 & C2).
    exists c. split; [assumption|]. split; [assumption|]. split; [assumption|]. rewrite <- Em. assumption.
  - destruct Ho as (s' & h & l & a' & Hst & Hl & Hla & Ha' & ->). exists s', h, l. split; [assumption|]. split; [assumption|]. split; [assumption|].
    (* the archetype after the creation is a_o grown *)
    destruct st_o as [s_o js_o]. cbn [fst snd] in *.
    destruct (create_effect _ _ _ _ _ _ _ _ I_o Hst) as (_ & _ & h0 & ai0 & a30 & idx0 & _ & _ & _ & _ & _ & _ & _ & _ & _ & _ & Fa' & _).
    destruct (Fa' _ _ Ha_o) as (a'' & Ha'' & ((_ & _ & Ek' & _) & _) & _). rewrite Ha' in Ha''. inversion Ha''; subst a''. congruence.
Qed.

(* C07 for a component written by another job, in terms of what that job was handed *)
Theorem C07_history_job_handed st1 jn' p1 t1 w1 c1 out1 st2 mid st3 jn par tov wk cap st4 out_ h c j j' :
  VInv st1 -> (wv (fst st1) + N.of_nat (length mid) + 2 < WV_NULL)%N ->
  nth_error (snd st1) jn = Some j -> nth_error (snd st1) jn' = Some j' -> jn' <> jn -> 0 < c1 ->
  vstep st1 (VRun jn' p1 t1 w1 c1) = Ok (st2, out1) -> handed out1 h ->
  In c (mitems (job_update_mask j')) -> mhas (j_check j) c = true ->
  (forall ai a idx, nth_error (archs (fst st1)) ai = Some a -> nth_error (am_ents a) idx = Some h ->
     mhas (am_mask a) c = true /\ mmatch (am_mask a) (job_required_mask j) = true) ->
  vrun mid st2 = Ok st3 -> no_run jn mid -> 0 < cap ->
  vstep st3 (VRun jn par tov wk cap) = Ok (st4, out_) ->
  handed out_ h.
Proof.
  destruct st1 as [s1 js1]. intros HI Hb Hj Hj' Hne Hc1 H1 Hh Hw Hchk Hcarry H2 Hno Hcap H3. cbn [fst snd] in *.
  destruct (run_handed_char _ _ _ _ _ _ _ _ _ HI Hc1 H1) as (j0 & Hj0 & Hchar). rewrite Hj' in Hj0. inversion Hj0; subst j0; clear Hj0.
  apply Hchar in Hh. destruct Hh as (ai & a & idx & Ha & Hm' & Hpr & Hent).
  destruct (Hcarry _ _ _ Ha Hent) as (Hhas & Hmm).
  assert (Hci : exists ci, cindex (am_mask a) c = Some ci) by (unfold cindex; rewrite Hhas; eauto). destruct Hci as (ci & Hci).
  assert (Hc : c < MASK_BITS) by (apply (proj1 (mitems_in _ _)) in Hw; tauto).
  eapply (C07_history_job_core (s1, js1) jn' p1 t1 w1 c1 out1 st2 mid st3 jn par tov wk cap st4 out_ h c ai a idx ci j j'); eassumption.
Qed.

(* ------------------------------------------------------------------------------------------ *)
(* C07 for an entity that is created (the one structural change covered): the new entity is handed to the next run of
   every job that checks a component it carries (and whose required mask its archetype matches) *)
Theorem C07_history_created_core st1 tid m sids via st2 h mid st3 jn par tov wk cap st4 out_ j c :
  VInv st1 -> (wv (fst st1) + N.of_nat (length mid) + 2 < WV_NULL)%N ->
  nth_error (snd st1) jn = Some j ->
  vstep st1 (VCreate tid m sids via) = Ok (st2, RHandle h) ->
  (forall ai a idx, nth_error (archs (fst st2)) ai = Some a -> nth_error (am_ents a) idx = Some h ->
     mhas (am_mask a) c = true /\ mmatch (am_mask a) (job_required_mask j) = true) ->
  c < MASK_BITS -> mhas (j_check j) c = true ->
  vrun mid st2 = Ok st3 -> no_run jn mid -> 0 < cap ->
  vstep st3 (VRun jn par tov wk cap) = Ok (st4, out_) ->
  handed out_ h.
Proof.
  destruct st1 as [s1 js1]. intros HI Hb Hj H1 Hcarry Hc Hchk H2 Hno Hcap H3. cbn [fst snd] in *.
  assert (Hb1 : (wv (fst (s1, js1)) + 1 < WV_NULL)%N) by (cbn [fst]; lia).
  destruct (vstep_inv _ _ _ _ HI Hb1 H1) as (I2 & _ & _).
  cbn [vstep] in H1. bd H1 r Hr. destruct r as [s2 o2]. cbn [fst snd] in H1. inversion H1; subst st2 o2; clear H1. cbn [fst snd] in *.
  destruct (create_effect _ _ _ _ _ _ _ _ HI Hr) as (_ & Ewv & h' & ai & a3 & idx & Eh & _ & _ & Ha3 & _ & Hent & _ & Hrow & _).
  inversion Eh; subst h'; clear Eh.
  destruct (Hcarry _ _ _ Ha3 Hent) as (Hhas & Hmm).
  assert (Hci : exists ci, cindex (am_mask a3) c = Some ci) by (unfold cindex; rewrite Hhas; eauto). destruct Hci as (ci & Hci).
  pose proof I2 as [_ _ _ _ I5 _ _]. cbn [fst] in I5. pose proof (Forall_nth_error _ _ _ _ I5 Ha3) as [W1 _ _ _ _ _ _ _].
  assert (Hlt : ci < length (am_gver a3)) by (rewrite W1; eapply (VersionProofs.cindex_lt (am_mask a3) c ci); assumption).
  destruct HI as [_ _ _ _ _ _ I7]. cbn [snd] in I7.
  refine (C07_from_stamp (s2, js1) mid st3 jn par tov wk cap st4 out_ h c ai idx a3 ci j (wv s1)
            I2 _ Ha3 Hent Hci Hc Hchk Hmm Hj _ _ H2 Hno Hcap H3).
  - cbn [fst]. lia.
  - exact (Forall_nth_error _ _ _ _ I7 Hj).
  - apply Hrow. exact Hlt.
Qed.

Theorem C07_history_created n cis setup s0 js pre st1 tid m sids via st2 h mid st3 jn par tov wk cap st4 out_ j c :
  population n cis setup s0 -> fresh_jobs js ->
  (N.of_nat (length pre) + N.of_nat (length mid) + 2 < WV_NULL)%N ->
  vrun pre (s0, js) = Ok st1 ->
  nth_error (snd st1) jn = Some j ->
  vstep st1 (VCreate tid m sids via) = Ok (st2, RHandle h) ->
  (forall ai a idx, nth_error (archs (fst st2)) ai = Some a -> nth_error (am_ents a) idx = Some h ->
     mhas (am_mask a) c = true /\ mmatch (am_mask a) (job_required_mask j) = true) ->
  c < MASK_BITS -> mhas (j_check j) c = true ->
  vrun mid st2 = Ok st3 -> no_run jn mid -> 0 < cap ->
  vstep st3 (VRun jn par tov wk cap) = Ok (st4, out_) ->
  handed out_ h.
Proof.
  intros Hp Hj Hb Hpre. assert (Hbp : (N.of_nat (length pre) < WV_NULL)%N) by lia.
  destruct (history_invariants _ _ _ _ _ _ _ Hp Hj Hbp Hpre) as (I1 & _ & W1).
  intros. eapply (C07_history_created_core st1 tid m sids via st2 h mid st3 jn par tov wk cap st4 out_ j c); try eassumption. lia.
Qed.
