(* C07 / C11 over histories WITH DESTRUCTION, part 2: the state invariant.

   The alphabet `vopd` = the operations of VersionHistory.vop (VOld) + VDestroyNow tid h (destroyNow while unlocked:
   Manager.destroy_now_unlocked -> arch_remove -> release_id).
   The invariant VInvD generalises VersionHistory.VInv:
     - arch_okd for every archetype (VersionDestroyArch.v) instead of arch_ok;
     - instead of "no free slot": the free list is a duplicate-free chain of `empty_slots` ids starting at next_slot,
       every id on it has a location without archetype (free_ok);
     - in addition to loc_ok (a valid located handle sits where its location says): every member of an archetype
       carries the version of its slot and its location points back to it (mem_ok).
   A handle whose slot version matches is "valid" for the manager (isEntityValid) even when its id is on the free list:
   destroyNow on such a handle -- one that no create ever returned -- releases the id a second time and corrupts the
   free list (in the C++ as in the model).  The theorems therefore speak about PROPER scripts: every VDestroyNow is
   applied to a handle that is not valid or is located in an archetype (properb, proper_run). *)
Require Import Coq.Lists.List Coq.NArith.NArith Coq.ZArith.ZArith Coq.Arith.Arith Coq.Bool.Bool Coq.micromega.Lia.
From Mustache Require Import Res Iter Manager.
From Mustache.proofs Require Import ListLemmas SkelBasics ClosureProofs ManagerBasics ManagerMoves ManagerDeferred
  IterProofs IterCover VersionProofs VersionHistory VersionDestroyArch.
Import ListNotations.

(* ------------------------------------------------------------------------------------------ *)
(* the alphabet                                                                                *)
Inductive vopd :=
| VOld (o : vop)
| VDestroyNow (tid : nat) (h : handle).          (* destroyNow(entity) while unlocked *)

Definition dstep (st : vstate) (o : vopd) : res (vstate * out) :=
  match o with
  | VOld o' => vstep st o'
  | VDestroyNow tid h => let '(s, js) := st in do r <- step s (ODestroyNow tid h); Ok ((fst r, js), snd r)
  end.

Fixpoint drun (ops : list vopd) (st : vstate) : res vstate :=
  match ops with
  | [] => Ok st
  | o :: t => do r <- dstep st o; drun t (fst r)
  end.

Lemma drun_app ops1 ops2 st : drun (ops1 ++ ops2) st = do st1 <- drun ops1 st; drun ops2 st1.
Proof.
  revert st. induction ops1 as [|o t IH]; intro st; [reflexivity|]. cbn [app drun].
  destruct (dstep st o) as [r|e]; [cbn [bind]; apply IH|reflexivity].
Qed.

Lemma drun_old ops st : drun (map VOld ops) st = vrun ops st.
Proof.
  revert st. induction ops as [|o t IH]; intro st; [reflexivity|]. cbn [map drun vrun dstep].
  destruct (vstep st o) as [r|e]; [cbn [bind]; apply IH|reflexivity].
Qed.

(* proper scripts: destroyNow only on handles that are not valid or are located in an archetype *)
Definition locatedb (s : mst) (h : handle) : bool :=
  match nth_error (locs s) (N.to_nat (fst h)) with
  | Some l => match l_arch l with Some _ => true | None => false end
  | None => false
  end.
Definition properb (s : mst) (o : vopd) : bool :=
  match o with
  | VDestroyNow _ h => negb (is_valid s h) || locatedb s h
  | VOld _ => true
  end.
Fixpoint proper_run (ops : list vopd) (st : vstate) : bool :=
  match ops with
  | [] => true
  | o :: t => properb (fst st) o && match dstep st o with Ok r => proper_run t (fst r) | Err _ => true end
  end.

Lemma proper_run_app ops1 ops2 st st1 :
  drun ops1 st = Ok st1 -> proper_run (ops1 ++ ops2) st = proper_run ops1 st && proper_run ops2 st1.
Proof.
  revert st. induction ops1 as [|o t IH]; intros st H.
  - simpl in H. inversion H; subst. reflexivity.
  - cbn [app proper_run drun] in *. destruct (dstep st o) as [r|e]; [|discriminate]. cbn [bind] in H.
    rewrite (IH _ H). apply andb_assoc.
Qed.

(* ------------------------------------------------------------------------------------------ *)
(* the invariant                                                                               *)
Fixpoint fchain (sl : list slot) (nxt : N) (F : list N) : Prop :=
  match F with
  | [] => True
  | i :: F' => i = nxt /\ exists x, nth_error sl (N.to_nat i) = Some x /\ fchain sl (s_id x) F'
  end.

Definition unlocated (s : mst) (i : N) : Prop :=
  exists l, nth_error (locs s) (N.to_nat i) = Some l /\ l_arch l = None.

Definition free_okF (s : mst) (F : list N) : Prop :=
  NoDup F /\ length F = empty_slots s /\ fchain (slots s) (next_slot s) F /\ forall i, In i F -> unlocated s i.

Definition ver_match (s : mst) (e : handle) : Prop :=
  exists x, nth_error (slots s) (N.to_nat (fst e)) = Some x /\ s_ver x = snd e.

Definition mem_ok (s : mst) : Prop :=
  forall ai a idx e, nth_error (archs s) ai = Some a -> nth_error (am_ents a) idx = Some e ->
    ver_match s e /\ nth_error (locs s) (N.to_nat (fst e)) = Some {| l_arch := Some ai; l_idx := idx |}.

Record VInvD (st : vstate) : Prop := {
  vd_lock : lockc (fst st) = 0;
  vd_marked : marked (fst st) = [];
  vd_bufs : bufs_empty (fst st);
  vd_len : length (locs (fst st)) = length (slots (fst st));
  vd_archs : Forall (arch_okd (wv (fst st))) (archs (fst st));
  vd_locs : loc_ok (fst st);
  vd_mem : mem_ok (fst st);
  vd_free : exists F, free_okF (fst st) F;
  vd_jobs : Forall (job_ok (wv (fst st))) (snd st)
}.

(* between two states: every archetype is still there with its mask, chunk size and its entities in place (new ones
   appended), the stamps of their version chunks did not decrease; the world version did not decrease *)
Definition sframe (st st' : vstate) : Prop :=
  (forall k a, nth_error (archs (fst st)) k = Some a -> exists a', nth_error (archs (fst st')) k = Some a' /\ aframe a a') /\
  (wv (fst st) <= wv (fst st'))%N.

(* the stamp of (archetype ai, version chunk k, component index i); 0 when there is no such archetype *)
Definition stampof (s : mst) (ai k i : nat) : N :=
  match nth_error (archs s) ai with
  | Some a => nth (length (am_gver a) * k + i) (am_cver a) 0%N
  | None => 0%N
  end.

Lemma sframe_refl st : sframe st st.
Proof. split; [|apply N.le_refl]. intros k a Ha. exists a. split; [assumption|apply aframe_refl]. Qed.

(* --- small facts --- *)
Lemma is_valid_match s h : is_valid s h = true -> ver_match s h.
Proof.
  unfold is_valid. destruct (is_null h); [discriminate|].
  destruct (nth_error (slots s) (N.to_nat (fst h))) as [x|] eqn:E; [|discriminate].
  intro H. apply N.eqb_eq in H. exists x. auto.
Qed.

Lemma ver_match_eq s e e' : ver_match s e -> ver_match s e' -> fst e = fst e' -> e = e'.
Proof.
  intros (x & X1 & X2) (y & Y1 & Y2) E. rewrite E in X1. rewrite X1 in Y1. inversion Y1; subst y.
  destruct e, e'. cbn [fst snd] in *. congruence.
Qed.

Lemma ver_match_slots s s' e : (nth_error (slots s') (N.to_nat (fst e)) = nth_error (slots s) (N.to_nat (fst e))) ->
  ver_match s e -> ver_match s' e.
Proof. intros E (x & X1 & X2). exists x. rewrite E. auto. Qed.

Lemma is_valid_slot s s' h : nth_error (slots s') (N.to_nat (fst h)) = nth_error (slots s) (N.to_nat (fst h)) ->
  is_valid s' h = is_valid s h.
Proof. intro E. unfold is_valid. rewrite E. reflexivity. Qed.

Lemma fchain_upd sl j x : forall F nxt, (forall i, In i F -> N.to_nat i <> j) -> fchain sl nxt F -> fchain (upd sl j x) nxt F.
Proof.
  induction F as [|i F' IH]; intros nxt Hn H; [exact I|]. cbn [fchain] in *. destruct H as (E & y & Hy & Hc).
  split; [exact E|]. exists y. split.
  - rewrite nth_error_upd_other; [exact Hy|]. intro F. apply (Hn i); [left; reflexivity|congruence].
  - apply IH; [|exact Hc]. intros k Hk. apply Hn. right. exact Hk.
Qed.

Lemma fchain_app sl ext : forall F nxt, fchain sl nxt F -> fchain (sl ++ ext) nxt F.
Proof.
  induction F as [|i F' IH]; intros nxt H; [exact I|]. cbn [fchain] in *. destruct H as (E & y & Hy & Hc).
  split; [exact E|]. exists y. split; [|apply IH; exact Hc].
  rewrite nth_error_app1; [exact Hy|]. apply nth_error_Some. congruence.
Qed.

Lemma fchain_range sl : forall F nxt i, fchain sl nxt F -> In i F -> N.to_nat i < length sl.
Proof.
  induction F as [|k F' IH]; intros nxt i H [].
  - subst k. cbn [fchain] in H. destruct H as (_ & y & Hy & _). apply nth_error_Some. congruence.
  - cbn [fchain] in H. destruct H as (_ & y & _ & Hc). eapply IH; eassumption.
Qed.

(* a located id is not on the free list *)
Lemma located_not_free s F i l ai : free_okF s F -> nth_error (locs s) (N.to_nat i) = Some l -> l_arch l = Some ai -> ~ In i F.
Proof.
  intros (_ & _ & _ & Hu) Hl Ha Hin. destruct (Hu i Hin) as (l' & Hl' & Hn). rewrite Hl in Hl'. inversion Hl'; subst l'. congruence.
Qed.

(* members of archetypes sit at distinct ids *)
Lemma mem_ok_inj s ai a idx e ai' a' idx' e' : mem_ok s ->
  nth_error (archs s) ai = Some a -> nth_error (am_ents a) idx = Some e ->
  nth_error (archs s) ai' = Some a' -> nth_error (am_ents a') idx' = Some e' ->
  fst e = fst e' -> ai = ai' /\ idx = idx'.
Proof.
  intros Hm Ha He Ha' He' E. destruct (Hm _ _ _ _ Ha He) as (_ & L). destruct (Hm _ _ _ _ Ha' He') as (_ & L').
  rewrite E in L. rewrite L in L'. inversion L'. auto.
Qed.

(* one generic step of the invariant for the operations that leave slots, locations and the free list alone: the
   archetypes evolve (same population) and are fine at the new world version *)
Lemma VInvD_step s js s' js' :
  VInvD (s, js) ->
  lockc s' = 0 -> marked s' = [] -> bufs_empty s' -> slots s' = slots s -> locs s' = locs s ->
  next_slot s' = next_slot s -> empty_slots s' = empty_slots s ->
  (wv s <= wv s')%N ->
  Forall2 (fun a a' => evolves a a' /\ arch_okd (wv s') a') (archs s) (archs s') ->
  Forall (job_ok (wv s')) js' ->
  VInvD (s', js') /\ sframe (s, js) (s', js').
Proof.
  intros [I1 I2 I3 I4 I5 I6 I7 I8 I9] H1 H2 H3 H4 H5 H6 H7 H8 H9 H10. cbn [fst snd] in *.
  assert (Hev : Forall2 evolves (archs s) (archs s')) by (eapply Forall2_impl'; [|exact H9]; intros a b (X & _); exact X).
  split; [constructor; cbn [fst snd]; try assumption|].
  - congruence.
  - eapply Forall2_Forall_r; [exact H9|]. intros a b (_ & X). exact X.
  - eapply loc_ok_frame; eassumption.
  - intros ai a' idx e Ha' He. destruct (Forall2_nth_r _ _ _ _ _ Hev Ha') as (a & Ha & ((_ & Ee & _) & _)).
    rewrite Ee in He. destruct (I7 _ _ _ _ Ha He) as ((x & X1 & X2) & L). split; [exists x; rewrite H4; auto|rewrite H5; exact L].
  - destruct I8 as (F & N1 & N2 & N3 & N4). exists F. split; [exact N1|]. split; [congruence|]. split; [rewrite H4, H6; exact N3|].
    intros i Hi. destruct (N4 i Hi) as (l & Hl & Hn). exists l. rewrite H5. auto.
  - split; cbn [fst]; [|exact H8]. intros k a Ha. destruct (Forall2_nth_l _ _ _ _ _ Hev Ha) as (a' & Ha' & E).
    exists a'. split; [assumption|apply evolves_aframe; assumption].
Qed.

(* the fields VInvD looks at besides the archetypes *)
Definition core_eqd (s s' : mst) : Prop := core_eq s s' /\ next_slot s' = next_slot s.

Lemma VInvD_core s s' js : core_eqd s s' -> archs s' = archs s -> VInvD (s, js) -> VInvD (s', js).
Proof.
  intros ((C1 & C2 & C3 & C4 & C5 & C6 & C7) & C9) C8 [I1 I2 I3 I4 I5 I6 I7 I8 I9]. cbn [fst snd] in *.
  constructor; cbn [fst snd].
  - congruence.
  - congruence.
  - unfold bufs_empty. rewrite C6. exact I3.
  - congruence.
  - rewrite C7, C8. exact I5.
  - intros h l ai Hv Hl Hai. rewrite (is_valid_slots _ _ _ C1) in Hv. rewrite C2 in Hl. rewrite C8. eapply I6; eassumption.
  - intros ai a idx e Ha He. rewrite C8 in Ha. destruct (I7 _ _ _ _ Ha He) as ((x & X1 & X2) & L).
    split; [exists x; rewrite C1; auto|rewrite C2; exact L].
  - destruct I8 as (F & N1 & N2 & N3 & N4). exists F. split; [exact N1|]. split; [congruence|]. split; [rewrite C1, C9; exact N3|].
    intros i Hi. destruct (N4 i Hi) as (l & Hl & Hn). exists l. rewrite C2. auto.
  - rewrite C7. exact I9.
Qed.

(* ------------------------------------------------------------------------------------------ *)
(* the operations of the old alphabet other than creation                                      *)
Lemma unlock_lock_next s s3 o : lockc s = 0 -> bufs_empty s -> do_unlock (do_lock s) = Ok (s3, o) -> next_slot s3 = next_slot s.
Proof.
  intros Hl Hb. unfold do_lock. rewrite Hl. unfold do_unlock.
  cbn [lockc set_eid set_bufs set_lock pred].
  match goal with |- context [flush ?x] => set (sx := x) end.
  assert (Hbx : Forall (fun b => b = []) (bufs sx)).
  { subst sx. cbn [bufs set_lock set_eid set_bufs]. apply Forall_resize; [exact Hb|reflexivity]. }
  rewrite (flush_empty sx Hbx). cbn [bind]. intro H. inversion H; subst s3 o. reflexivity.
Qed.

Lemma vstep_run_next s js jn par tov wk cap st' out_ :
  lockc s = 0 -> bufs_empty s -> vstep (s, js) (VRun jn par tov wk cap) = Ok (st', out_) -> next_slot (fst st') = next_slot s.
Proof.
  intros Hl Hb H. cbn [vstep] in H. bd H j Hj. bd H r Hr. inversion H; subst st' out_; clear H. cbn [fst].
  rewrite step_runjob_eq in Hr. bd Hr r0 Hf. destruct r0 as [s1 fas0]. cbv zeta in Hr.
  destruct (job_filter_state _ _ _ _ Hf) as (E1 & _).
  destruct (total_count (map (set_cap cap) fas0)) as [|n].
  - inversion Hr; subst r. cbn [fst]. rewrite E1. reflexivity.
  - bd Hr per_task Hp. bd Hr vis Hv. bd Hr r3 Hu. inversion Hr; subst r; clear Hr. cbn [fst]. destruct r3 as [s3 o3]. cbn [fst].
    rewrite (unlock_lock_next (inc_wv s1) s3 o3); [rewrite E1; reflexivity| | |exact Hu].
    + rewrite E1. exact Hl.
    + unfold bufs_empty. rewrite E1. exact Hb.
Qed.

Definition not_create (o : vop) : Prop := match o with VCreate _ _ _ _ => False | _ => True end.

Lemma vstep_inv_nc st o st' out_ :
  VInvD st -> (wv (fst st) + 1 < WV_NULL)%N -> not_create o -> vstep st o = Ok (st', out_) ->
  VInvD st' /\ sframe st st' /\ wv_effect st o st' out_.
Proof.
  destruct st as [s js]. intros HI Hbound Hnc H. pose proof HI as [I1 I2 I3 I4 I5 I6 I7 I8 I9]. cbn [fst snd] in *.
  assert (Hsame : Forall2 (fun a a' => evolves a a' /\ arch_okd (wv s) a') (archs s) (archs s)).
  { apply Forall2_pointwise; [reflexivity|]. intros k a a' Ha Ha'. rewrite Ha in Ha'. inversion Ha'; subst a'.
    split; [apply evolves_refl|eapply Forall_nth_error; eassumption]. }
  assert (Hstamp : forall h c s', stamps_entity s h c s' ->
            VInvD (s', js) /\ sframe (s, js) (s', js) /\ wv s' = wv s /\ cached s' = cached s).
  { intros h c s' [(-> & _)|(ai & idx & a & ci & a1 & a2 & Ht & Hcs & Hv & E1 & E2 & E3 & E4 & E5 & E6 & ->)].
    - split; [assumption|]. split; [apply sframe_refl|auto].
    - destruct Ht as (_ & _ & Ha & _).
      destruct (stamp_one_okd (wv s) a _ _ a1 a2 (Forall_nth_error _ _ _ _ I5 Ha) Hv E1 E2 E3 E4 E5 E6) as (K1 & K2 & _).
      assert (G : VInvD (set_arch s ai a2, js) /\ sframe (s, js) (set_arch s ai a2, js)).
      { apply VInvD_step; [exact HI|exact I1|exact I2|exact I3|reflexivity|reflexivity|reflexivity|reflexivity|apply N.le_refl| |exact I9].
        cbn [archs set_arch set_archs wv]. apply Forall2_pointwise; [apply upd_length|].
        intros k x x' Hx Hx'. destruct (Nat.eq_dec k ai) as [->|Hne].
        - rewrite nth_error_upd_same in Hx' by (apply nth_error_Some; congruence). inversion Hx'; subst x'.
          rewrite Ha in Hx. inversion Hx; subst x. split; assumption.
        - rewrite nth_error_upd_other in Hx' by congruence. rewrite Hx in Hx'. inversion Hx'; subst x'.
          split; [apply evolves_refl|eapply Forall_nth_error; eassumption]. }
      destruct G as (G1 & G2). split; [assumption|]. split; [assumption|]. split; reflexivity. }
  destruct o as [world|h c w|h c|h c|h c|jn par tov wk cap|tid m sids via].
  - (* update *)
    cbn [vstep] in H. rewrite (step_update_eq s world I1 I2) in H. cbn [bind fst snd] in H. inversion H; subst st' out_; clear H.
    set (s0 := if world then inc_wv s else s).
    assert (Hw : wv s0 = if world then (wv s + 1)%N else wv s).
    { subst s0. destruct world; [|reflexivity]. unfold inc_wv. cbn [wv set_wv]. apply inc_nowrap. assumption. }
    assert (Hle : (wv s <= wv s0)%N) by (rewrite Hw; destruct world; lia).
    assert (Ha0 : archs s0 = archs s) by (subst s0; destruct world; reflexivity).
    assert (G : VInvD (set_marked (set_wv s0 (wv s0) (Some (wv s0))) [], js) /\
                sframe (s, js) (set_marked (set_wv s0 (wv s0) (Some (wv s0))) [], js)).
    { apply VInvD_step; [exact HI| | | | | | | | | |]; cbn [lockc marked bufs empty_slots next_slot slots locs archs wv set_marked set_wv].
      - subst s0. destruct world; assumption.
      - reflexivity.
      - unfold bufs_empty. cbn [bufs set_marked set_wv]. subst s0. destruct world; assumption.
      - subst s0. destruct world; reflexivity.
      - subst s0. destruct world; reflexivity.
      - subst s0. destruct world; reflexivity.
      - subst s0. destruct world; reflexivity.
      - exact Hle.
      - rewrite Ha0. eapply Forall2_impl'; [|exact Hsame]. intros a b (X & Y). split; [assumption|]. eapply arch_okd_mono; eassumption.
      - eapply Forall_impl; [|exact I9]. intros j. apply job_ok_mono. assumption. }
    destruct G as (G1 & G2). split; [assumption|]. split; [assumption|].
    unfold wv_effect. cbn [wv cached set_marked set_wv]. destruct world; rewrite Hw; auto.
  - cbn [vstep] in H. bd H r Hr. destruct r as [s' o']. cbn [fst snd] in H. inversion H; subst st' out_; clear H.
    apply step_getmut_effect in Hr. destruct (Hstamp _ _ _ Hr) as (G1 & G2 & G3 & G4). split; [assumption|]. split; [assumption|].
    unfold wv_effect. auto.
  - cbn [vstep] in H. bd H r Hr. destruct r as [s' o']. cbn [fst snd] in H. inversion H; subst st' out_; clear H.
    apply step_markdirty_effect in Hr. destruct (Hstamp _ _ _ Hr) as (G1 & G2 & G3 & G4). split; [assumption|]. split; [assumption|].
    unfold wv_effect. auto.
  - cbn [vstep] in H. bd H r Hr. destruct r as [s' o']. cbn [fst snd] in H. inversion H; subst st' out_; clear H.
    apply step_getconst_effect in Hr. subst s'. split; [assumption|]. split; [apply sframe_refl|]. unfold wv_effect. auto.
  - cbn [vstep] in H. bd H r Hr. destruct r as [s' o']. cbn [fst snd] in H. inversion H; subst st' out_; clear H.
    apply step_has_effect in Hr. subst s'. split; [assumption|]. split; [apply sframe_refl|]. unfold wv_effect. auto.
  - (* run *)
    pose proof (vstep_run_next _ _ _ _ _ _ _ _ _ I1 I3 H) as Hnext.
    destruct (vstep_run_cases _ _ _ _ _ _ _ _ _ I1 I3 H) as (j & s1 & fas0 & Hj & Hf & Hcases).
    destruct (job_filter_state _ _ _ _ Hf) as (E1 & Ewv & Elen & Hpt).
    assert (Hjok : job_ok (wv s) j) by (eapply Forall_nth_error; eassumption).
    assert (Hrel : forall w', (wv s <= w')%N -> Forall2 (fun a a' => evolves a a' /\ arch_okd w' a') (archs s) (archs s1)).
    { intros w' Hw'. apply Forall2_pointwise; [assumption|]. intros k a a' Ha Ha'. destruct (Hpt k a Ha) as (a'' & Ha'' & Hr).
      rewrite Ha' in Ha''. inversion Ha''; subst a''.
      destruct (jf_rel_okd _ _ _ _ (Forall_nth_error _ _ _ _ I5 Ha) Hr) as (X & Y). split; [assumption|]. eapply arch_okd_mono; eassumption. }
    destruct Hcases as [(Et & -> & ->)|(Et & per_task & vis & s3 & Hp & Hv & U1 & U2 & U3 & U4 & U5 & U6 & U7 & U8 & U9 & -> & ->)].
    + assert (G : VInvD (s1, js) /\ sframe (s, js) (s1, js)).
      { apply VInvD_step; [exact HI|rewrite E1; exact I1|rewrite E1; exact I2| |rewrite E1; reflexivity|rewrite E1; reflexivity
                           |rewrite E1; reflexivity|rewrite E1; reflexivity| | |].
        - unfold bufs_empty. rewrite E1. exact I3.
        - rewrite Ewv. apply N.le_refl.
        - rewrite Ewv. apply Hrel. apply N.le_refl.
        - rewrite Ewv. assumption. }
      destruct G as (G1 & G2). split; [assumption|]. split; [assumption|].
      unfold wv_effect. exists j. split; [assumption|]. split; [rewrite E1; reflexivity|]. left. auto.
    + rewrite (inc_nowrap _ Hbound) in U2. cbn [fst] in Hnext.
      assert (G : VInvD (s3, upd js jn (relast j (wv s))) /\ sframe (s, js) (s3, upd js jn (relast j (wv s)))).
      { apply VInvD_step; [exact HI|exact U5|congruence|exact U8|exact U3|exact U4|exact Hnext|congruence| | |].
        - rewrite U2. lia.
        - rewrite U1, U2. apply Hrel. lia.
        - rewrite U2. apply Forall_upd.
          + eapply Forall_impl; [|exact I9]. intros j0. apply job_ok_mono. lia.
          + right. cbn [relast j_last]. lia. }
      destruct G as (G1 & G2). split; [assumption|]. split; [assumption|].
      unfold wv_effect. exists j. split; [assumption|]. split; [assumption|]. right. exists (snd vis). auto.
  - contradiction.
Qed.
