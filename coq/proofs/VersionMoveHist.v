(* C07 over histories WITH ARCHETYPE MOVES, part 3: the history theorems.

   The alphabet `vopm` = the operations of VersionDestroyInv.vopd (VD: update, accesses, job runs, unlocked creation,
   destroyNow) + VAssign tid h c v typed / VRemove tid h c typed (Manager.OAssign / ORemove while unlocked: assign<C>(e),
   removeComponent<C>(e), removeComponent(e, id)).
   PROPER scripts (properm, proper_mrun): in addition to the condition on destroyNow, every VAssign is applied to a handle
   that is valid, every VRemove to a handle that is valid unless the call is the typed one (which tests validity itself).
   assign and the untyped removeComponent read the location table without testing the handle: on a stale handle of a
   recycled id they would move the entity that now owns the id and record the stale handle in the target archetype.
   Dependencies and shared components are NOT excluded: getArchetype is used through get_arch_effect only (the target
   exists or is appended empty).

     mstep_inv, mrun_inv       every proper script over the extended alphabet keeps VInvD
     carries_move              `carries` (VersionDestroyHist.v) survives the move of ANOTHER entity -- out of the
                               archetype (relocation by the swap-remove) or into it (arrival at the end)
     carries_arrived           the moved entity carries the world version in every component of the target archetype
     C07_moved_core            an entity moved into an archetype is handed to the next run of every job checking a
                               component of that archetype
     C07_touched_m_core        C07_history (mutable access / markDirty) over the extended alphabet *)
Require Import Coq.Lists.List Coq.NArith.NArith Coq.ZArith.ZArith Coq.Arith.Arith Coq.Bool.Bool Coq.micromega.Lia.
From Mustache Require Import Res Iter Manager.
From Mustache.proofs Require Import ListLemmas SkelBasics ClosureProofs ManagerBasics ManagerMoves ManagerDeferred
  IterProofs IterCover VersionProofs VersionHistory VersionDestroyArch VersionDestroyInv VersionDestroyStep VersionDestroyHist
  VersionMoveArch VersionMoveStep.
Import ListNotations.

(* ------------------------------------------------------------------------------------------ *)
(* the alphabet                                                                                *)
Inductive vopm :=
| VD (o : vopd)
| VAssign (tid : nat) (h : handle) (c : nat) (v : aval) (typed : bool)     (* assign<C>(e [, args]) while unlocked *)
| VRemove (tid : nat) (h : handle) (c : nat) (typed : bool).               (* removeComponent while unlocked *)

Definition mstep (st : vstate) (o : vopm) : res (vstate * out) :=
  match o with
  | VD o' => dstep st o'
  | VAssign tid h c v typed => let '(s, js) := st in do r <- step s (OAssign tid h c v typed); Ok ((fst r, js), snd r)
  | VRemove tid h c typed => let '(s, js) := st in do r <- step s (ORemove tid h c typed); Ok ((fst r, js), snd r)
  end.

Fixpoint mrun (ops : list vopm) (st : vstate) : res vstate :=
  match ops with
  | [] => Ok st
  | o :: t => do r <- mstep st o; mrun t (fst r)
  end.

Lemma mrun_app ops1 ops2 st : mrun (ops1 ++ ops2) st = do st1 <- mrun ops1 st; mrun ops2 st1.
Proof.
  revert st. induction ops1 as [|o t IH]; intro st; [reflexivity|]. cbn [app mrun].
  destruct (mstep st o) as [r|e]; [cbn [bind]; apply IH|reflexivity].
Qed.

Lemma mrun_d ops st : mrun (map VD ops) st = drun ops st.
Proof.
  revert st. induction ops as [|o t IH]; intro st; [reflexivity|]. cbn [map mrun drun mstep].
  destruct (dstep st o) as [r|e]; [cbn [bind]; apply IH|reflexivity].
Qed.

Definition properm (s : mst) (o : vopm) : bool :=
  match o with
  | VD o' => properb s o'
  | VAssign _ h _ _ _ => is_valid s h
  | VRemove _ h _ typed => is_valid s h || typed
  end.
Fixpoint proper_mrun (ops : list vopm) (st : vstate) : bool :=
  match ops with
  | [] => true
  | o :: t => properm (fst st) o && match mstep st o with Ok r => proper_mrun t (fst r) | Err _ => true end
  end.

Lemma proper_mrun_app ops1 ops2 st st1 :
  mrun ops1 st = Ok st1 -> proper_mrun (ops1 ++ ops2) st = proper_mrun ops1 st && proper_mrun ops2 st1.
Proof.
  revert st. induction ops1 as [|o t IH]; intros st H.
  - simpl in H. inversion H; subst. reflexivity.
  - cbn [app proper_mrun mrun] in *. destruct (mstep st o) as [r|e]; [|discriminate]. cbn [bind] in H.
    rewrite (IH _ H). apply andb_assoc.
Qed.

Lemma proper_mrun_d ops st : proper_mrun (map VD ops) st = proper_run ops st.
Proof.
  revert st. induction ops as [|o t IH]; intro st; [reflexivity|]. cbn [map proper_mrun proper_run properm mstep].
  destruct (dstep st o) as [r|e]; [rewrite IH|]; reflexivity.
Qed.

(* ------------------------------------------------------------------------------------------ *)
(* one operation                                                                               *)
Definition is_move (o : vopm) (h : handle) : Prop :=
  (exists tid c v typed, o = VAssign tid h c v typed) \/ (exists tid c typed, o = VRemove tid h c typed).

(* a proper assign / remove of entity h: the invariant is kept, world version, its cached copy and the jobs are left alone;
   nothing happened, or h was moved *)
Theorem move_step st o st' out_ h :
  VInvD st -> is_move o h -> properm (fst st) o = true -> mstep st o = Ok (st', out_) ->
  VInvD st' /\ wv (fst st') = wv (fst st) /\ cached (fst st') = cached (fst st) /\ snd st' = snd st /\
  (fst st' = fst st \/ (is_valid (fst st) h = true /\ exists ai, move_effect (fst st) (fst st') h ai)).
Proof.
  destruct st as [s js]. intros HI Hmove Hp H. cbn [fst snd] in *.
  destruct Hmove as [(tid & c & v & typed & ->)|(tid & c & typed & ->)]; cbn [mstep properm] in *;
    bd H r Hr; destruct r as [s' o']; cbn [fst snd] in H; inversion H; subst st' out_; clear H; cbn [fst snd].
  - destruct (assign_m _ _ _ _ _ _ _ _ _ HI Hp Hr) as (A & B & C & D). repeat (split; [assumption|]). split; [reflexivity|]. right. auto.
  - assert (Hor : is_valid s h = true \/ typed = true) by (apply orb_true_iff; exact Hp).
    destruct (remove_m _ _ _ _ _ _ _ _ HI Hor Hr) as (A & B & C & D). repeat (split; [assumption|]). split; [reflexivity|]. exact D.
Qed.

Definition wv_effect_m (st : vstate) (o : vopm) (st' : vstate) (out_ : out) : Prop :=
  match o with
  | VD o' => wv_effect_d st o' st' out_
  | _ => wv (fst st') = wv (fst st) /\ cached (fst st') = cached (fst st) /\ snd st' = snd st
  end.

Theorem mstep_inv st o st' out_ :
  VInvD st -> (wv (fst st) + 1 < WV_NULL)%N -> properm (fst st) o = true -> mstep st o = Ok (st', out_) ->
  VInvD st' /\ wv_effect_m st o st' out_.
Proof.
  intros HI Hb Hp H. destruct o as [o|tid h c v typed|tid h c typed].
  - cbn [mstep properm] in *. exact (dstep_inv _ _ _ _ HI Hb Hp H).
  - destruct (move_step st _ st' out_ h HI (or_introl (ex_intro _ tid (ex_intro _ c (ex_intro _ v (ex_intro _ typed eq_refl))))) Hp H)
      as (A & B & C & D & _). split; [exact A|]. cbn [wv_effect_m]. auto.
  - destruct (move_step st _ st' out_ h HI (or_intror (ex_intro _ tid (ex_intro _ c (ex_intro _ typed eq_refl)))) Hp H)
      as (A & B & C & D & _). split; [exact A|]. cbn [wv_effect_m]. auto.
Qed.

Lemma wv_effect_m_le st o st' out_ : wv_effect_m st o st' out_ -> (wv (fst st) <= wv (fst st') <= wv (fst st) + 1)%N.
Proof.
  destruct o as [o|tid h c v typed|tid h c typed]; cbn [wv_effect_m].
  - apply wv_effect_d_le.
  - intros (E & _). lia.
  - intros (E & _). lia.
Qed.

Theorem mrun_inv : forall ops st st',
  VInvD st -> (wv (fst st) + N.of_nat (length ops) < WV_NULL)%N -> proper_mrun ops st = true -> mrun ops st = Ok st' ->
  VInvD st' /\ (wv (fst st) <= wv (fst st') <= wv (fst st) + N.of_nat (length ops))%N.
Proof.
  induction ops as [|o t IH]; intros st st' HI Hb Hp H.
  - simpl in H. inversion H; subst. split; [assumption|]. simpl. lia.
  - cbn [mrun] in H. cbn [proper_mrun] in Hp. apply andb_true_iff in Hp. destruct Hp as (Hp1 & Hp2).
    bd H r Hr. destruct r as [st1 o1]. rewrite Hr in Hp2. cbn [fst] in H, Hp2. cbn [length] in Hb.
    destruct (mstep_inv _ _ _ _ HI ltac:(lia) Hp1 Hr) as (I1 & W1). apply wv_effect_m_le in W1.
    destruct (IH _ _ I1 ltac:(lia) Hp2 H) as (I2 & W2).
    split; [assumption|]. cbn [length]. lia.
Qed.

(* ------------------------------------------------------------------------------------------ *)
(* an entity and the stamp of its version chunk, across the move of another entity              *)
Lemma carries_move s js s' (h : handle) ai_t b ai m c W :
  VInvD (s, js) -> c < MASK_BITS -> move_effect s s' h ai_t -> b <> h -> carries s b ai m c W -> carries s' b ai m c W.
Proof.
  intros HI Hc (prev & pidx & pa & pa' & a2 & M1 & M2 & M3 & M4 & M5 & M6 & M7 & M8 & M9 & M10) Hne Hcar.
  pose proof Hcar as (a & idx & ci & Ha & Hm & Hb & Hci & HW).
  pose proof (Forall_nth_error _ _ _ _ (vd_archs _ HI) Ha) as Hok. cbn [fst] in Hok.
  assert (Hlt : ci < length (am_gver a)).
  { rewrite (ad_wf _ _ Hok). apply (VersionProofs.cindex_lt (am_mask a) c ci); [exact Hc|rewrite Hm; exact Hci]. }
  destruct (Nat.eq_dec ai prev) as [->|Hnp].
  - (* b's archetype is the one h leaves *)
    rewrite M2 in Ha. inversion Ha; subst a; clear Ha.
    assert (Hni : idx <> pidx) by (intro E; rewrite E, M3 in Hb; congruence).
    destruct (carries_removal _ _ _ _ _ _ _ _ Hok M5 Hb Hni Hlt HW) as (idx' & Hb' & HW').
    destruct M5 as (last & _ & _ & Em & _).
    exists pa', idx', ci. split; [exact M4|]. split; [congruence|]. auto.
  - destruct (Nat.eq_dec ai ai_t) as [->|Hnt].
    + (* b's archetype is the one h arrives in *)
      rewrite Ha in M8. destruct M8 as (_ & _ & _ & Hfr).
      exact (carries_aframe s s' b ai_t m c W a a2 Hc (ad_wf _ _ Hok) Ha M7 Hfr Hcar).
    + exists a, idx, ci. rewrite (M10 ai Hnp Hnt). auto.
Qed.

(* the moved entity: last member of the target, whose version chunk carries the world version in every component *)
Lemma carries_arrived s js s' (h : handle) ai_t A c ci :
  VInvD (s', js) -> move_effect s s' h ai_t -> nth_error (archs s') ai_t = Some A -> cindex (am_mask A) c = Some ci -> c < MASK_BITS ->
  carries s' h ai_t (am_mask A) c (wv s).
Proof.
  intros HI (prev & pidx & pa & pa' & a2 & M1 & M2 & M3 & M4 & M5 & M6 & M7 & M8 & M9 & M10) HA Hci Hc.
  rewrite M7 in HA. inversion HA; subst A; clear HA.
  pose proof (Forall_nth_error _ _ _ _ (vd_archs _ HI) M7) as Hok. cbn [fst] in Hok.
  assert (Hlt : ci < length (am_gver a2)).
  { rewrite (ad_wf _ _ Hok). apply (VersionProofs.cindex_lt (am_mask a2) c ci); assumption. }
  destruct M8 as (Hents & _ & Hrow & _).
  exists a2, (length (am_ents a2) - 1), ci. split; [exact M7|]. split; [reflexivity|]. split.
  - rewrite Hents, app_length. simpl length.
    match goal with |- nth_error (?l ++ _) _ = _ => replace (length l + 1 - 1) with (length l) by lia end. apply nth_error_app_last.
  - split; [exact Hci|]. rewrite (Hrow ci Hlt). apply N.le_refl.
Qed.

(* scripts *)
Definition not_run_m (jn : nat) (o : vopm) : Prop := match o with VD o' => not_run_d jn o' | _ => True end.
Definition no_run_m (jn : nat) (ops : list vopm) : Prop := Forall (not_run_m jn) ops.
(* b is not destroyed and not the subject of an assign / remove (a removeComponent that finds nothing to remove is
   excluded as well: the condition is syntactic) *)
Definition untouched_of (b : handle) (o : vopm) : Prop :=
  match o with
  | VD o' => not_destroy_of b o'
  | VAssign _ h _ _ _ => h <> b
  | VRemove _ h _ _ => h <> b
  end.
Definition untouched (b : handle) (ops : list vopm) : Prop := Forall (untouched_of b) ops.

Lemma carries_mstep st o st' out_ b ai m c W :
  VInvD st -> (wv (fst st) + 1 < WV_NULL)%N -> properm (fst st) o = true -> c < MASK_BITS -> mstep st o = Ok (st', out_) ->
  untouched_of b o -> carries (fst st) b ai m c W -> carries (fst st') b ai m c W.
Proof.
  intros HI Hb Hp Hc H Hnd Hcar.
  assert (Hmv : forall h, is_move o h -> h <> b -> carries (fst st') b ai m c W).
  { intros h Hmove Hne. destruct (move_step st o st' out_ h HI Hmove Hp H) as (_ & _ & _ & _ & [E|(_ & ai_t & Heff)]).
    - rewrite E. exact Hcar.
    - destruct st as [s js]. cbn [fst] in *. eapply carries_move; try eassumption. congruence. }
  destruct o as [o|tid h c0 v typed|tid h c0 typed].
  - cbn [mstep properm untouched_of] in *. eapply carries_step; eassumption.
  - apply (Hmv h); [left; eauto|exact Hnd].
  - apply (Hmv h); [right; eauto|exact Hnd].
Qed.

Lemma wv_effect_m_keeps_job st o st' out_ jn :
  wv_effect_m st o st' out_ -> not_run_m jn o -> nth_error (snd st') jn = nth_error (snd st) jn.
Proof.
  destruct o as [o|tid h c v typed|tid h c typed]; cbn [wv_effect_m not_run_m].
  - apply wv_effect_d_keeps_job.
  - intros (_ & _ & ->) _. reflexivity.
  - intros (_ & _ & ->) _. reflexivity.
Qed.

Theorem carries_mrun b ai m c W jn : forall ops st st',
  VInvD st -> (wv (fst st) + N.of_nat (length ops) < WV_NULL)%N -> proper_mrun ops st = true -> c < MASK_BITS ->
  mrun ops st = Ok st' -> untouched b ops -> no_run_m jn ops -> carries (fst st) b ai m c W ->
  carries (fst st') b ai m c W /\ nth_error (snd st') jn = nth_error (snd st) jn.
Proof.
  induction ops as [|o t IH]; intros st st' HI Hb Hp Hc H Hnd Hnr Hcar.
  - simpl in H. inversion H; subst. auto.
  - cbn [mrun] in H. cbn [proper_mrun] in Hp. apply andb_true_iff in Hp. destruct Hp as (Hp1 & Hp2).
    bd H r Hr. destruct r as [st1 o1]. rewrite Hr in Hp2. cbn [fst] in H, Hp2. cbn [length] in Hb.
    inversion Hnd; subst. inversion Hnr; subst.
    destruct (mstep_inv _ _ _ _ HI ltac:(lia) Hp1 Hr) as (I1 & W1). pose proof (wv_effect_m_le _ _ _ _ W1) as Hle.
    pose proof (carries_mstep _ _ _ _ _ _ _ _ _ HI ltac:(lia) Hp1 Hc Hr H2 Hcar) as Hcar1.
    destruct (IH _ _ I1 ltac:(lia) Hp2 Hc H H3 H5 Hcar1) as (G1 & G2).
    split; [exact G1|]. rewrite G2. eapply wv_effect_m_keeps_job; eassumption.
Qed.

(* the common second half: b carries a stamp ahead of job jn's last version; any proper script over the extended alphabet
   that leaves b alone and does not run jn; the run of jn is handed b *)
Lemma C07_carries_core_m st2 mid st3 jn par tov wk cap st4 out_ b ai m c W j :
  VInvD st2 -> (wv (fst st2) + N.of_nat (length mid) + 1 < WV_NULL)%N ->
  carries (fst st2) b ai m c W -> nth_error (snd st2) jn = Some j -> j_last j = WV_NULL \/ (j_last j < W)%N ->
  c < MASK_BITS -> mhas (j_check j) c = true -> mmatch m (job_required_mask j) = true ->
  mrun mid st2 = Ok st3 -> proper_mrun mid st2 = true -> no_run_m jn mid -> untouched b mid -> 0 < cap ->
  vstep st3 (VRun jn par tov wk cap) = Ok (st4, out_) ->
  handed out_ b.
Proof.
  intros I2 Hb Hcar Hj Hjl Hc Hchk Hmm H2 Hp Hnr Hnd Hcap H3.
  assert (Hb2 : (wv (fst st2) + N.of_nat (length mid) < WV_NULL)%N) by lia.
  destruct (mrun_inv _ _ _ I2 Hb2 Hp H2) as (I3 & _).
  destruct (carries_mrun b ai m c W jn _ _ _ I2 Hb2 Hp Hc H2 Hnd Hnr Hcar) as (Hcar3 & Ejob).
  destruct st3 as [s3 js3]. cbn [fst snd] in *.
  eapply C07_from_carries; try eassumption. rewrite Ejob. exact Hj.
Qed.

(* ------------------------------------------------------------------------------------------ *)
(* C07: moved between archetypes                                                                *)
(* after the step h is located in archetype ai (= A), before it was not *)
Definition moved_into (s s' : mst) (h : handle) (ai : nat) (A : archetype) : Prop :=
  (exists l', nth_error (locs s') (N.to_nat (fst h)) = Some l' /\ l_arch l' = Some ai) /\
  (forall l, nth_error (locs s) (N.to_nat (fst h)) = Some l -> l_arch l <> Some ai) /\
  nth_error (archs s') ai = Some A.

(* the move itself: h is the last member of A and every component stamp of its version chunk is the world version *)
Theorem move_arrives s js o st2 out_t (h : handle) ai A c ci :
  VInvD (s, js) -> is_move o h -> properm s o = true -> mstep (s, js) o = Ok (st2, out_t) -> moved_into s (fst st2) h ai A ->
  cindex (am_mask A) c = Some ci -> c < MASK_BITS ->
  VInvD st2 /\ snd st2 = js /\ wv (fst st2) = wv s /\ move_effect s (fst st2) h ai /\
  carries (fst st2) h ai (am_mask A) c (wv s) /\ nth_error (am_ents A) (length (am_ents A) - 1) = Some h.
Proof.
  intros HI Hmove Hp H ((l' & Hl' & Hla') & Hold & HA) Hci Hc.
  destruct (move_step (s, js) o st2 out_t h HI Hmove Hp H) as (I2 & Ew & _ & Ejs & Hcases). cbn [fst snd] in *.
  split; [exact I2|]. split; [exact Ejs|]. split; [exact Ew|].
  destruct Hcases as [E|(_ & ai' & Heff)].
  { exfalso. rewrite E in Hl'. exact (Hold l' Hl' Hla'). }
  assert (ai' = ai).
  { destruct Heff as (prev & pidx & pa & pa' & a2 & _ & _ & _ & _ & _ & _ & _ & _ & M9 & _).
    rewrite Hl' in M9. inversion M9; subst l'. cbn [l_arch] in Hla'. congruence. }
  subst ai'. split; [exact Heff|]. destruct st2 as [s2 js2]. cbn [fst snd] in *. subst js2.
  split; [eapply carries_arrived; eassumption|].
  destruct Heff as (prev & pidx & pa & pa' & a2 & _ & _ & _ & _ & _ & _ & M7 & (Hents & _) & _).
  rewrite M7 in HA. inversion HA; subst A. rewrite Hents, app_length. simpl length.
  match goal with |- nth_error (?l ++ _) _ = _ => replace (length l + 1 - 1) with (length l) by lia end. apply nth_error_app_last.
Qed.

(* C07, archetype move.  In a state st1 of a run, entity h is moved into archetype ai (= A) by assign or removeComponent.
   Then any proper script over the extended alphabet without a run of job jn in which h is not destroyed and not moved
   again -- other entities may be moved into and out of A, relocating h --; then jn -- checking a component c of A, A
   matching its required mask -- runs: it is handed h. *)
Theorem C07_moved_core st1 o out_t st2 mid st3 jn par tov wk cap st4 out_ (h : handle) ai A c j :
  VInvD st1 -> (wv (fst st1) + N.of_nat (length mid) + 2 < WV_NULL)%N ->
  is_move o h -> properm (fst st1) o = true -> mstep st1 o = Ok (st2, out_t) -> moved_into (fst st1) (fst st2) h ai A ->
  nth_error (snd st1) jn = Some j -> c < MASK_BITS -> mhas (j_check j) c = true -> mhas (am_mask A) c = true ->
  mmatch (am_mask A) (job_required_mask j) = true ->
  mrun mid st2 = Ok st3 -> proper_mrun mid st2 = true -> no_run_m jn mid -> untouched h mid -> 0 < cap ->
  vstep st3 (VRun jn par tov wk cap) = Ok (st4, out_) ->
  handed out_ h.
Proof.
  destruct st1 as [s1 js1]. intros HI Hb Hmove Hp1 H1 Hinto Hj Hc Hchk Hmc Hmm H2 Hp Hnr Hnd Hcap H3. cbn [fst snd] in *.
  destruct (cindex (am_mask A) c) as [ci|] eqn:Hci.
  2:{ apply cindex_none_has in Hci. congruence. }
  destruct (move_arrives _ _ _ _ _ _ _ _ _ _ HI Hmove Hp1 H1 Hinto Hci Hc) as (I2 & Ejs & Ewv & _ & Hcar & _).
  eapply (C07_carries_core_m st2 mid st3 jn par tov wk cap st4 out_ h ai (am_mask A) c (wv s1) j); try eassumption.
  - rewrite Ewv. lia.
  - rewrite Ejs. exact Hj.
  - exact (Forall_nth_error _ _ _ _ (vd_jobs _ HI) Hj).
Qed.

(* ------------------------------------------------------------------------------------------ *)
(* C07: mutable access / markDirty, over the alphabet with moves                                *)
Theorem C07_touched_m_core st1 o out_t st2 mid st3 jn par tov wk cap st4 out_ h c ai idx a ci j :
  VInvD st1 -> (wv (fst st1) + N.of_nat (length mid) + 2 < WV_NULL)%N ->
  is_touch o h c -> touch (fst st1) h c ai idx a ci ->
  nth_error (snd st1) jn = Some j -> c < MASK_BITS -> mhas (j_check j) c = true ->
  mmatch (am_mask a) (job_required_mask j) = true ->
  vstep st1 o = Ok (st2, out_t) ->
  mrun mid st2 = Ok st3 -> proper_mrun mid st2 = true -> no_run_m jn mid -> untouched h mid -> 0 < cap ->
  vstep st3 (VRun jn par tov wk cap) = Ok (st4, out_) ->
  handed out_ h.
Proof.
  destruct st1 as [s1 js1]. intros HI Hb Ho Ht Hj Hc Hchk Hmm H1 H2 Hp Hnr Hnd Hcap H3. cbn [fst snd] in *.
  assert (Hb1 : (wv (fst (s1, js1)) + 1 < WV_NULL)%N) by (cbn [fst]; lia).
  destruct (vstep_inv_d _ _ _ _ HI Hb1 H1) as (I2 & _ & _).
  destruct (vstep_touch_d _ _ _ _ _ _ _ _ _ _ _ HI Ho Ht H1) as (Ejs & Ewv & Hci & a2 & Ha2 & Sh2 & Hst).
  destruct Ht as (Hv & (l & L1 & L2 & L3) & Ha & Hcidx).
  destruct (vd_locs _ HI h l ai Hv L1 L2) as (a' & Ha' & Hent). cbn [fst] in Ha'. rewrite Ha in Ha'. inversion Ha'; subst a'; clear Ha'.
  rewrite L3 in Hent. destruct Sh2 as (Em & Ee & Ek & Es & Eg).
  eapply (C07_carries_core_m st2 mid st3 jn par tov wk cap st4 out_ h ai (am_mask a) c (wv s1) j); try eassumption.
  - rewrite Ewv. lia.
  - exists a2, idx, ci. split; [exact Ha2|]. split; [exact Em|]. split; [rewrite Ee; exact Hent|]. split; [exact Hcidx|].
    rewrite Eg, Ek, Hst. apply N.le_refl.
  - rewrite Ejs. exact Hj.
  - exact (Forall_nth_error _ _ _ _ (vd_jobs _ HI) Hj).
Qed.

(* ------------------------------------------------------------------------------------------ *)
(* from the initial state                                                                       *)
Theorem history_invariants_m n cis setup s0 js ops st :
  population n cis setup s0 -> fresh_jobs js -> (N.of_nat (length ops) < WV_NULL)%N ->
  proper_mrun ops (s0, js) = true -> mrun ops (s0, js) = Ok st ->
  VInvD st /\ (wv (fst st) <= N.of_nat (length ops))%N.
Proof.
  intros Hp Hj Hb Hpr H. destruct (population_inv_d _ _ _ _ _ Hp Hj) as (I0 & W0).
  assert (Hb0 : (wv (fst (s0, js)) + N.of_nat (length ops) < WV_NULL)%N) by (cbn [fst]; rewrite W0; lia).
  destruct (mrun_inv _ _ _ I0 Hb0 Hpr H) as (I & W). cbn [fst] in W. rewrite W0 in W. split; [assumption|lia].
Qed.

Theorem C07_moved_pop n cis setup s0 js pre st1 o out_t st2 mid st3 jn par tov wk cap st4 out_ (h : handle) ai A c j :
  population n cis setup s0 -> fresh_jobs js ->
  (N.of_nat (length pre) + N.of_nat (length mid) + 2 < WV_NULL)%N ->
  proper_mrun pre (s0, js) = true -> mrun pre (s0, js) = Ok st1 ->
  is_move o h -> properm (fst st1) o = true -> mstep st1 o = Ok (st2, out_t) -> moved_into (fst st1) (fst st2) h ai A ->
  nth_error (snd st1) jn = Some j -> c < MASK_BITS -> mhas (j_check j) c = true -> mhas (am_mask A) c = true ->
  mmatch (am_mask A) (job_required_mask j) = true ->
  mrun mid st2 = Ok st3 -> proper_mrun mid st2 = true -> no_run_m jn mid -> untouched h mid -> 0 < cap ->
  vstep st3 (VRun jn par tov wk cap) = Ok (st4, out_) ->
  handed out_ h.
Proof.
  intros Hp Hj Hb Hppre Hpre. assert (Hbp : (N.of_nat (length pre) < WV_NULL)%N) by lia.
  destruct (history_invariants_m _ _ _ _ _ _ _ Hp Hj Hbp Hppre Hpre) as (I1 & W1).
  intros. eapply (C07_moved_core st1 o out_t st2 mid st3 jn par tov wk cap st4 out_ h ai A c j); try eassumption. lia.
Qed.

Theorem C07_touched_m_pop n cis setup s0 js pre st1 o out_t st2 mid st3 jn par tov wk cap st4 out_ h c ai idx a ci j :
  population n cis setup s0 -> fresh_jobs js ->
  (N.of_nat (length pre) + N.of_nat (length mid) + 2 < WV_NULL)%N ->
  proper_mrun pre (s0, js) = true -> mrun pre (s0, js) = Ok st1 ->
  is_touch o h c -> touch (fst st1) h c ai idx a ci ->
  nth_error (snd st1) jn = Some j -> c < MASK_BITS -> mhas (j_check j) c = true ->
  mmatch (am_mask a) (job_required_mask j) = true ->
  vstep st1 o = Ok (st2, out_t) ->
  mrun mid st2 = Ok st3 -> proper_mrun mid st2 = true -> no_run_m jn mid -> untouched h mid -> 0 < cap ->
  vstep st3 (VRun jn par tov wk cap) = Ok (st4, out_) ->
  handed out_ h.
Proof.
  intros Hp Hj Hb Hppre Hpre. assert (Hbp : (N.of_nat (length pre) < WV_NULL)%N) by lia.
  destruct (history_invariants_m _ _ _ _ _ _ _ Hp Hj Hbp Hppre Hpre) as (I1 & W1).
  intros. eapply (C07_touched_m_core st1 o out_t st2 mid st3 jn par tov wk cap st4 out_ h c ai idx a ci j); try eassumption. lia.
Qed.
