(* small list facts missing from the 8.16 standard library *)
Require Import Coq.Lists.List Coq.Arith.Arith Coq.micromega.Lia.
Import ListNotations.

Lemma nodup_app_inv {A} (a b : list A) :
  NoDup (a ++ b) -> NoDup a /\ NoDup b /\ (forall x, In x a -> ~ In x b).
Proof.
  induction a as [|h t IH]; simpl; intros H.
  - repeat split; [constructor | assumption | intros x []].
  - inversion H; subst. destruct (IH H3) as (Ha & Hb & Hd). repeat split.
    + constructor; [|assumption]. intros Hin; apply H2; apply in_or_app; left; assumption.
    + assumption.
    + intros x [E|E]; [subst; intros Hin; apply H2; apply in_or_app; right; assumption | apply Hd; assumption].
Qed.

Lemma nodup_app_intro {A} (a b : list A) :
  NoDup a -> NoDup b -> (forall x, In x a -> ~ In x b) -> NoDup (a ++ b).
Proof.
  induction a as [|h t IH]; simpl; intros Ha Hb Hd; [assumption|].
  inversion Ha; subst. constructor.
  - intros Hin. apply in_app_or in Hin. destruct Hin as [Hin|Hin]; [contradiction|]. eapply Hd; [left; reflexivity|eassumption].
  - apply IH; [assumption|assumption|]. intros x Hx. apply Hd. right; assumption.
Qed.

Lemma NoDup_app_intro_single {A} (l : list A) x : NoDup l -> ~ In x l -> NoDup (l ++ [x]).
Proof.
  intros Hl Hx. apply nodup_app_intro; [assumption | constructor; [intros []|constructor] |].
  intros y Hy [E|[]]. subst. contradiction.
Qed.

Lemma forallb_filter_id {A} (f : A -> bool) (l : list A) : forallb f l = true -> filter f l = l.
Proof.
  induction l as [|a t IH]; simpl; [reflexivity|]. intros H. apply Bool.andb_true_iff in H. destruct H as (Ha & Ht).
  rewrite Ha. f_equal. apply IH. assumption.
Qed.

Lemma filter_length_le {A} (f : A -> bool) (l : list A) : length (filter f l) <= length l.
Proof. induction l as [|a t IH]; simpl; [lia|]. destruct (f a); simpl; lia. Qed.

Lemma option_eq_dec (a b : option nat) : {a = b} + {a <> b}.
Proof. decide equality. apply Nat.eq_dec. Qed.
