(* small list facts missing from the 8.16 standard library *)
Require Import Coq.Lists.List Coq.Arith.Arith Coq.micromega.Lia.
Import ListNotations.

Lemma nodup_app_inv {A} (a b : list A) :
  NoDup (a ++ b) -> NoDup a /\ NoDup b /\ (forall x, In x a -> ~ In x b).
Proof.
  induction a as [|h t IH]; simpl; intros H.
  - repeat split; [constructor | assumption | intros x []].
  - inversion H; subst. destruct (IH H3) as (Ha & Hb & Hd). repeat split.
    + constructor; [|assumption]. intros Hin; apply H2; apply in_or_app; left; assumption.
    + assumption.
    + intros x [E|E]; [subst; intros Hin; apply H2; apply in_or_app; right; assumption | apply Hd; assumption].
Qed.

Lemma nodup_app_intro {A} (a b : list A) :
  NoDup a -> NoDup b -> (forall x, In x a -> ~ In x b) -> NoDup (a ++ b).
Proof.
  induction a as [|h t IH]; simpl; intros Ha Hb Hd; [assumption|].
  inversion Ha; subst. constructor.
  - intros Hin. apply in_app_or in Hin. destruct Hin as [Hin|Hin]; [contradiction|]. eapply Hd; [left; reflexivity|eassumption].
  - apply IH; [assumption|assumption|]. intros x Hx. apply Hd. right; assumption.
Qed.

Lemma NoDup_app_intro_single {A} (l : list A) x : NoDup l -> ~ In x l -> NoDup (l ++ [x]).
Proof.
  intros Hl Hx. apply nodup_app_intro; [assumption | constructor; [intros []|constructor] |].
  intros y Hy [E|[]]. subst. contradiction.
Qed.

Lemma forallb_filter_id {A} (f : A -> bool) (l : list A) : forallb f l = true -> filter f l = l.
Proof.
  induction l as [|a t IH]; simpl; [reflexivity|]. intros H. apply Bool.andb_true_iff in H. destruct H as (Ha & Ht).
  rewrite Ha. f_equal. apply IH. assumption.
Qed.

Lemma filter_length_le {A} (f : A -> bool) (l : list A) : length (filter f l) <= length l.
Proof. induction l as [|a t IH]; simpl; [lia|]. destruct (f a); simpl; lia. Qed.

Lemma option_eq_dec (a b : option nat) : {a = b} + {a <> b}.
Proof. decide equality. apply Nat.eq_dec. Qed.

Require Import Coq.Sorting.Permutation.
From Mustache Require Import Res.

Lemma map_upd {A B} (f : A -> B) l i x : map f (upd l i x) = upd (map f l) i (f x).
Proof. revert i. induction l as [|a t IH]; intros [|i]; simpl; try reflexivity. rewrite IH. reflexivity. Qed.

Lemma Forall_upd {A} (P : A -> Prop) l i x : Forall P l -> P x -> Forall P (upd l i x).
Proof. intros H Hx. revert i. induction H as [|a t Ha Ht IH]; intros [|i]; simpl; constructor; auto. Qed.

Lemma Forall_firstn' {A} (P : A -> Prop) n l : Forall P l -> Forall P (firstn n l).
Proof. intros H. revert n. induction H as [|a t Ha Ht IH]; intros [|n]; simpl; constructor; auto. Qed.

Lemma Forall_repeat {A} (P : A -> Prop) n d : P d -> Forall P (repeat d n).
Proof. intros H. induction n; simpl; constructor; auto. Qed.

Lemma Forall_resize {A} (P : A -> Prop) l n d : Forall P l -> P d -> Forall P (resize l n d).
Proof. intros H Hd. unfold resize. apply Forall_app. split; [apply Forall_firstn'; assumption|apply Forall_repeat; assumption]. Qed.

Lemma map_repeat' {A B} (f : A -> B) d n : map f (repeat d n) = repeat (f d) n.
Proof. induction n; simpl; congruence. Qed.

Lemma map_resize {A B} (f : A -> B) l n d : map f (resize l n d) = resize (map f l) n (f d).
Proof. unfold resize. rewrite map_app, firstn_map, map_repeat', map_length. reflexivity. Qed.

Lemma nth_upd_same {A} (l : list A) i x d : i < length l -> nth i (upd l i x) d = x.
Proof. revert i. induction l as [|a t IH]; intros [|i] H; simpl in *; try lia; [reflexivity|apply IH; lia]. Qed.

Lemma nth_error_nth' {A} (l : list A) i a d : nth_error l i = Some a -> nth i l d = a.
Proof. revert i. induction l as [|x t IH]; intros [|i] H; simpl in *; try discriminate; [inversion H; reflexivity|apply IH; assumption]. Qed.

Lemma concat_upd_app_perm {A} (l : list (list A)) i c :
  i < length l -> Permutation (concat (upd l i (nth i l [] ++ [c]))) (c :: concat l).
Proof.
  revert i. induction l as [|x t IH]; intros [|i] H; simpl in *; try lia.
  - rewrite <- app_assoc. simpl. symmetry. apply Permutation_middle.
  - eapply perm_trans; [apply Permutation_app_head; apply IH; lia|]. symmetry. apply Permutation_middle.
Qed.
