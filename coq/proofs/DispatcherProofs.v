(* Proofs about the Dispatcher LTS: an invariant of every run, and from it
     - the barrier: when wait() passes (strict guard: every worker idle-waiting / the serial queue not busy), every
       task submitted to that queue before the wait has finished;
     - at most once / serial exclusivity / started tasks are accounted for.                                         *)
Require Import Coq.Lists.List Coq.Arith.Arith Coq.Bool.Bool Coq.micromega.Lia.
From Mustache Require Import Dispatcher.
From Mustache.proofs Require Import ListLemmas.
Import ListNotations.

Lemma upd_length {A} (l : list A) i x : length (upd l i x) = length l.
Proof. revert i; induction l as [|h t IH]; intros [|i]; simpl; auto. Qed.

Lemma nth_error_upd {A} (l : list A) i j x :
  nth_error (upd l i x) j = if Nat.eqb i j && Nat.ltb i (length l) then Some x else nth_error l j.
Proof.
  revert i j; induction l as [|h t IH]; intros i j; simpl.
  - rewrite andb_false_r. destruct i; reflexivity.
  - destruct i as [|i], j as [|j]; simpl; try reflexivity. rewrite IH. reflexivity.
Qed.

Lemma nth_error_upd_same {A} (l : list A) i x y : nth_error l i = Some y -> nth_error (upd l i x) i = Some x.
Proof.
  intros H. rewrite nth_error_upd, Nat.eqb_refl. simpl.
  assert (i < length l) by (apply nth_error_Some; congruence). apply Nat.ltb_lt in H0. rewrite H0. reflexivity.
Qed.

Lemma nth_error_upd_other {A} (l : list A) i j x : i <> j -> nth_error (upd l i x) j = nth_error l j.
Proof. intros H. rewrite nth_error_upd. apply Nat.eqb_neq in H. rewrite H. reflexivity. Qed.

Definition is_waiting (w : wstate) : bool := match w with WWaiting => true | _ => false end.
Definition countw (l : list wstate) : nat := length (filter is_waiting l).

Lemma countw_upd l i x y : nth_error l i = Some y ->
  countw (upd l i x) + (if is_waiting y then 1 else 0) = countw l + (if is_waiting x then 1 else 0).
Proof.
  unfold countw. revert i; induction l as [|h t IH]; intros i H; [destruct i; discriminate|].
  destruct i as [|i]; simpl in *.
  - inversion H; subst. destruct (is_waiting x), (is_waiting y); simpl; lia.
  - specialize (IH i H). destruct (is_waiting h); simpl; lia.
Qed.

Lemma countw_all l : countw l = length l -> forall t w, nth_error l t = Some w -> w = WWaiting.
Proof.
  unfold countw. induction l as [|h tl IH]; intros H t w Hw; [destruct t; discriminate|].
  simpl in H. pose proof (filter_length_le is_waiting tl).
  destruct (is_waiting h) eqn:Eh; simpl in H; [|lia].
  destruct t as [|t]; simpl in Hw.
  - inversion Hw; subst. destruct w; try discriminate. reflexivity.
  - eapply IH; [lia|eassumption].
Qed.

(* who holds a started, unfinished task: worker t (Some t) or the external helper (None) *)
Definition holds (s : dst) (h : option nat) (q id : nat) : Prop :=
  match h with
  | Some t => nth_error (workers s) t = Some (WRunning q id)
  | None => helper s = HRunning q id
  end.
Definition runner (s : dst) (q id : nat) : Prop := exists h, holds s h q id.

Record Inv (s : dst) : Prop := {
  inv_wait : waiting s = countw (workers s);
  inv_acct : forall q qu id, nth_error (queues s) q = Some qu -> id < q_pop qu -> is_fin s q id = true \/ runner s q id;
  inv_obs : forall q obs qu, helper s = HBarrier q obs -> nth_error (queues s) q = Some qu -> obs <= q_pop qu;
  inv_lock : forall q qu, nth_error (queues s) q = Some qu -> q_locked qu = false -> q_serial qu = true -> forall id, ~ runner s q id;
  inv_single : forall q qu, nth_error (queues s) q = Some qu -> q_serial qu = true ->
               forall h1 h2 id1 id2, holds s h1 q id1 -> holds s h2 q id2 -> h1 = h2;
  inv_bound : forall q qu, nth_error (queues s) q = Some qu -> q_pop qu + q_dropped qu <= q_sub qu
}.

Lemma is_fin_add s q id q' id' : is_fin (add_fin s q id) q' id' = (Nat.eqb q q' && Nat.eqb id id') || is_fin s q' id'.
Proof. unfold is_fin, add_fin. simpl. rewrite (Nat.eqb_sym q q'), (Nat.eqb_sym id id'). reflexivity. Qed.

Lemma all_fin_below_spec s q n : all_fin_below s q n = true <-> forall id, id < n -> is_fin s q id = true.
Proof.
  unfold all_fin_below. rewrite forallb_forall. split.
  - intros H id Hid. apply H. apply in_seq. lia.
  - intros H id Hid. apply in_seq in Hid. apply H. lia.
Qed.

(* ---- the barrier theorem: the strict guard implies the consequence the relaxed acceptor checks ---- *)
Theorem barrier_pass_complete s q s' :
  Inv s -> dstep true s (EBarrierPass q) = Some s' ->
  exists obs, helper s = HBarrier q obs /\ all_fin_below s q obs = true.
Proof.
  intros HI H. simpl in H.
  destruct (helper s) as [|q'|q' id|q' obs] eqn:Eh; try discriminate.
  - destruct (nth_error (queues s) q); [|discriminate]. rewrite andb_false_r in H. discriminate.
  - destruct (nth_error (queues s) q) as [qu|] eqn:Eq; [|discriminate].
    destruct (Nat.eqb_spec q q') as [->|]; [|discriminate]. simpl in H.
    exists obs. split; [reflexivity|]. apply all_fin_below_spec. intros id Hid.
    pose proof (inv_obs s HI q' obs qu Eh Eq) as Hobs.
    destruct (inv_acct s HI q' qu id Eq ltac:(lia)) as [Hf|Hr]; [assumption|exfalso].
    destruct (q_serial qu) eqn:Es.
    + destruct (q_locked qu) eqn:El; [discriminate|]. exact (inv_lock s HI q' qu Eq El Es id Hr).
    + destruct (Nat.eqb_spec (waiting s) (length (workers s))) as [Ew|]; [|discriminate].
      destruct Hr as ([t|] & Ht); simpl in Ht; [|congruence].
      rewrite (inv_wait s HI) in Ew. pose proof (countw_all _ Ew t _ Ht). discriminate.
Qed.

(* ---- the invariant holds initially and is preserved by every accepted event (strict or relaxed) ---- *)
Lemma nth_error_repeat {A} (x : A) n k y : nth_error (repeat x n) k = Some y -> y = x.
Proof. revert k; induction n as [|n IH]; intros [|k] H; simpl in H; try discriminate; [inversion H; reflexivity|eapply IH; eassumption]. Qed.

Lemma inv_init nw ns : Inv (d_init nw ns).
Proof.
  constructor; simpl.
  - unfold countw. induction nw; simpl; auto.
  - intros q qu id Hq Hid. exfalso. destruct q as [|q]; simpl in Hq; [inversion Hq; subst; simpl in Hid; lia|].
    apply nth_error_repeat in Hq. subst. simpl in Hid. lia.
  - intros q obs qu H0. discriminate.
  - intros q qu Hq Hl Hs id ([t|] & Ht); simpl in Ht; [apply nth_error_repeat in Ht; discriminate|discriminate].
  - intros q qu Hq Hs [t1|] h2 id1 id2 H1; simpl in H1; [apply nth_error_repeat in H1; discriminate|discriminate].
  - intros q qu Hq. destruct q as [|q]; simpl in Hq; [inversion Hq; subst; simpl; lia|].
    apply nth_error_repeat in Hq. subst. simpl. lia.
Qed.

Ltac inv_some H := match type of H with Some _ = Some _ => inversion H; subst; clear H | _ => idtac end.

(* queue lookups after an update of queue q *)
Lemma queues_upd_cases (l : list queue) q x q' qu :
  nth_error (upd l q x) q' = Some qu -> (q = q' /\ qu = x) \/ (q <> q' /\ nth_error l q' = Some qu).
Proof.
  rewrite nth_error_upd. destruct (Nat.eqb_spec q q'); simpl.
  - destruct (Nat.ltb_spec q (length l)); intros H0.
    + inversion H0; subst. left. auto.
    + subst. exfalso. assert (nth_error l q' = None) by (apply nth_error_None; assumption). congruence.
  - intros H0. right. auto.
Qed.

(* ---- how "holds" changes when one worker or the helper changes state ---- *)
Lemma holds_set_q s v h q id : holds (set_q s v) h q id <-> holds s h q id.
Proof. destruct h; simpl; tauto. Qed.
Lemma holds_add_fin s a b h q id : holds (add_fin s a b) h q id <-> holds s h q id.
Proof. destruct h; simpl; tauto. Qed.
Lemma holds_set_wait s v h q id : holds (set_wait s v) h q id <-> holds s h q id.
Proof. destruct h; simpl; tauto. Qed.

Lemma holds_upd_worker s pt w0 w1 h q id :
  nth_error (workers s) pt = Some w0 ->
  (holds (set_w s (upd (workers s) pt w1)) h q id <->
   (h = Some pt /\ w1 = WRunning q id) \/ (h <> Some pt /\ holds s h q id)).
Proof.
  intros Hw. destruct h as [t|]; simpl.
  - destruct (Nat.eq_dec pt t) as [->|Hne].
    + rewrite (nth_error_upd_same _ _ _ _ Hw). split.
      * intros E. inversion E. left. auto.
      * intros [(_ & ->)|(Hn & _)]; [reflexivity|congruence].
    + rewrite nth_error_upd_other by assumption. split.
      * intros E. right. split; [congruence|assumption].
      * intros [(E & _)|(_ & E)]; [congruence|assumption].
  - split; [intros E; right; split; [discriminate|assumption] | intros [(E & _)|(_ & E)]; [discriminate|assumption]].
Qed.

Lemma holds_set_h s h1 h q id :
  holds (set_h s h1) h q id <-> (h = None /\ h1 = HRunning q id) \/ (h <> None /\ holds s h q id).
Proof.
  destruct h as [t|]; simpl.
  - split; [intros E; right; split; [discriminate|assumption] | intros [(E & _)|(_ & E)]; [discriminate|assumption]].
  - split; [intros E; left; auto | intros [(_ & E)|(E & _)]; [assumption|congruence]].
Qed.

Definition not_running (w : wstate) : Prop := forall q id, w <> WRunning q id.
Definition h_not_running (h : hstate) : Prop := forall q id, h <> HRunning q id.

(* a worker moving between two non-running states changes nobody's holdings *)
Lemma runner_upd_idle s pt w0 w1 q id :
  nth_error (workers s) pt = Some w0 -> not_running w0 -> not_running w1 ->
  (runner (set_w s (upd (workers s) pt w1)) q id <-> runner s q id).
Proof.
  intros Hw H0 H1. unfold runner. split; intros (h & Hh).
  - apply (holds_upd_worker s pt w0 w1 h q id Hw) in Hh. destruct Hh as [(_ & E)|(_ & Hh)]; [exfalso; eapply H1; eassumption|eauto].
  - exists h. apply (holds_upd_worker s pt w0 w1 h q id Hw). right. split; [|assumption].
    intros ->. simpl in Hh. rewrite Hw in Hh. inversion Hh. eapply H0; eassumption.
Qed.

Lemma holds_upd_idle s pt w0 w1 h q id :
  nth_error (workers s) pt = Some w0 -> not_running w0 -> not_running w1 ->
  (holds (set_w s (upd (workers s) pt w1)) h q id <-> holds s h q id).
Proof.
  intros Hw H0 H1. rewrite (holds_upd_worker s pt w0 w1 h q id Hw). split.
  - intros [(_ & E)|(_ & Hh)]; [exfalso; eapply H1; eassumption|assumption].
  - intros Hh. right. split; [|assumption]. intros ->. simpl in Hh. rewrite Hw in Hh. inversion Hh. eapply H0; eassumption.
Qed.

Lemma holds_set_h_idle s h1 h q id :
  h_not_running (helper s) -> h_not_running h1 -> (holds (set_h s h1) h q id <-> holds s h q id).
Proof.
  intros H0 H1. rewrite holds_set_h. split.
  - intros [(_ & E)|(_ & Hh)]; [exfalso; eapply H1; eassumption|assumption].
  - intros Hh. right. split; [|assumption]. intros ->. simpl in Hh. eapply H0; eassumption.
Qed.

(* transporting the invariant along a step that only touches fields "holds", queues and finished do not depend on *)
Lemma inv_transport s s' :
  Inv s -> waiting s' = countw (workers s') ->
  (forall h q id, holds s' h q id <-> holds s h q id) ->
  queues s' = queues s -> finished s' = finished s ->
  (forall q obs, helper s' = HBarrier q obs -> helper s = HBarrier q obs \/ (exists qu, nth_error (queues s) q = Some qu /\ obs <= q_pop qu)) ->
  Inv s'.
Proof.
  intros HI Hw Hh Hq Hf Hb. constructor.
  - assumption.
  - intros q qu id Hqu Hid. rewrite Hq in Hqu. destruct (inv_acct s HI q qu id Hqu Hid) as [F|(h & R)].
    + left. unfold is_fin in *. rewrite Hf. assumption.
    + right. exists h. apply Hh. assumption.
  - intros q obs qu Hb' Hqu. rewrite Hq in Hqu. destruct (Hb q obs Hb') as [E|(qu' & E1 & E2)].
    + eapply inv_obs; eassumption.
    + congruence.
  - intros q qu Hqu Hl Hs id (h & R). rewrite Hq in Hqu. apply Hh in R. eapply (inv_lock s HI q qu Hqu Hl Hs id). exists h. assumption.
  - intros q qu Hqu Hs h1 h2 id1 id2 R1 R2. rewrite Hq in Hqu. apply Hh in R1. apply Hh in R2. eapply inv_single; eassumption.
  - intros q qu Hqu. rewrite Hq in Hqu. eapply inv_bound; eassumption.
Qed.

Lemma not_running_idle : not_running WIdle. Proof. intros q id H; discriminate. Qed.
Lemma not_running_waiting : not_running WWaiting. Proof. intros q id H; discriminate. Qed.
Lemma not_running_exited : not_running WExited. Proof. intros q id H; discriminate. Qed.
Global Hint Resolve not_running_idle not_running_waiting not_running_exited : disp.

(* ---- pops and ends, for a worker or the helper alike: the queue-side facts ---- *)
Lemma runnable_facts qu : q_runnable qu = true -> q_pop qu + q_dropped qu < q_sub qu /\ q_locked qu = false.
Proof.
  unfold q_runnable, q_nonempty. intros H. apply andb_true_iff in H. destruct H as (H1 & H2).
  apply Nat.ltb_lt in H1. apply negb_true_iff in H2. auto.
Qed.

(* a holder h0 (not holding anything before) starts task (q, pop) *)
Lemma inv_pop s s' q qu h0 :
  Inv s -> nth_error (queues s) q = Some qu -> q_runnable qu = true ->
  (forall q' id, ~ holds s h0 q' id) ->
  queues s' = upd (queues s) q (pop_q qu) -> finished s' = finished s -> waiting s' = countw (workers s') ->
  (forall h q' id, holds s' h q' id <-> (h = h0 /\ q' = q /\ id = q_pop qu) \/ (h <> h0 /\ holds s h q' id)) ->
  (forall q' obs, helper s' = HBarrier q' obs -> helper s = HBarrier q' obs) ->
  Inv s'.
Proof.
  intros HI Hq Hrun Hfree Hqs Hf Hw Hh Hb.
  destruct (runnable_facts qu Hrun) as (Hne & Hunl).
  constructor.
  - assumption.
  - intros q' qu' id Hqu' Hid. rewrite Hqs in Hqu'. apply queues_upd_cases in Hqu'. destruct Hqu' as [(-> & ->)|(Hne' & Hqu')].
    + simpl in Hid. destruct (Nat.eq_dec id (q_pop qu)) as [->|Hd].
      * right. exists h0. apply Hh. left. auto.
      * destruct (inv_acct s HI q' qu id Hq ltac:(lia)) as [F|(h & R)].
        -- left. unfold is_fin in *. rewrite Hf. assumption.
        -- right. exists h. apply Hh. right. split; [|assumption]. intros ->. exact (Hfree _ _ R).
    + destruct (inv_acct s HI q' qu' id Hqu' Hid) as [F|(h & R)].
      * left. unfold is_fin in *. rewrite Hf. assumption.
      * right. exists h. apply Hh. right. split; [|assumption]. intros ->. exact (Hfree _ _ R).
  - intros q' obs qu' Hb' Hqu'. apply Hb in Hb'. rewrite Hqs in Hqu'. apply queues_upd_cases in Hqu'. destruct Hqu' as [(-> & ->)|(Hne' & Hqu')].
    + pose proof (inv_obs s HI q' obs qu Hb' Hq). simpl. lia.
    + eapply inv_obs; eassumption.
  - intros q' qu' Hqu' Hl Hs id (h & R). rewrite Hqs in Hqu'. apply queues_upd_cases in Hqu'. destruct Hqu' as [(-> & ->)|(Hne' & Hqu')].
    + simpl in Hl, Hs. congruence.
    + apply Hh in R. destruct R as [(_ & E & _)|(_ & R)]; [congruence|]. eapply (inv_lock s HI q' qu' Hqu' Hl Hs id). exists h. assumption.
  - intros q' qu' Hqu' Hs h1 h2 id1 id2 R1 R2. rewrite Hqs in Hqu'. apply queues_upd_cases in Hqu'. destruct Hqu' as [(-> & ->)|(Hne' & Hqu')].
    + simpl in Hs. apply Hh in R1. apply Hh in R2.
      destruct R1 as [(-> & _)|(N1 & R1)], R2 as [(-> & _)|(N2 & R2)]; try reflexivity.
      * exfalso. eapply (inv_lock s HI q' qu Hq Hunl Hs id2). exists h2. assumption.
      * exfalso. eapply (inv_lock s HI q' qu Hq Hunl Hs id1). exists h1. assumption.
      * exfalso. eapply (inv_lock s HI q' qu Hq Hunl Hs id1). exists h1. assumption.
    + apply Hh in R1. apply Hh in R2.
      destruct R1 as [(_ & E & _)|(N1 & R1)]; [congruence|]. destruct R2 as [(_ & E & _)|(N2 & R2)]; [congruence|].
      eapply inv_single; eassumption.
  - intros q' qu' Hqu'. rewrite Hqs in Hqu'. apply queues_upd_cases in Hqu'. destruct Hqu' as [(-> & ->)|(Hne' & Hqu')].
    + simpl. lia.
    + eapply inv_bound; eassumption.
Qed.

(* a holder h0 finishes the task (q, id) it holds *)
Lemma inv_end s s' q qu h0 id0 :
  Inv s -> nth_error (queues s) q = Some qu -> holds s h0 q id0 ->
  queues s' = upd (queues s) q (end_q qu) -> finished s' = (q, id0) :: finished s -> waiting s' = countw (workers s') ->
  (forall h q' id, holds s' h q' id <-> (h <> h0 /\ holds s h q' id)) ->
  (forall q' obs, helper s' = HBarrier q' obs -> helper s = HBarrier q' obs) ->
  Inv s'.
Proof.
  intros HI Hq Hheld Hqs Hf Hw Hh Hb.
  assert (Hfin : forall q' id, is_fin s q' id = true -> is_fin s' q' id = true).
  { intros q' id F. unfold is_fin in *. rewrite Hf. simpl. rewrite F. apply orb_true_r. }
  assert (Hfin0 : is_fin s' q id0 = true).
  { unfold is_fin. rewrite Hf. simpl. rewrite !Nat.eqb_refl. reflexivity. }
  (* whatever h0 held, it was (q, id0): a holder holds one task *)
  assert (Hone : forall q' id, holds s h0 q' id -> q' = q /\ id = id0).
  { intros q' id R. destruct h0 as [t|]; simpl in *; rewrite Hheld in R; inversion R; auto. }
  constructor.
  - assumption.
  - intros q' qu' id Hqu' Hid. rewrite Hqs in Hqu'. apply queues_upd_cases in Hqu'.
    assert (Hold : exists qo, nth_error (queues s) q' = Some qo /\ q_pop qo = q_pop qu').
    { destruct Hqu' as [(-> & ->)|(_ & Hqu')]; [exists qu; auto|exists qu'; auto]. }
    destruct Hold as (qo & Hqo & Ep). destruct (inv_acct s HI q' qo id Hqo ltac:(lia)) as [F|(h & R)].
    + left. auto.
    + destruct (option_eq_dec h h0) as [->|Hne].
      * destruct (Hone _ _ R) as (-> & ->). left. assumption.
      * right. exists h. apply Hh. auto.
  - intros q' obs qu' Hb' Hqu'. apply Hb in Hb'. rewrite Hqs in Hqu'. apply queues_upd_cases in Hqu'. destruct Hqu' as [(-> & ->)|(Hne' & Hqu')].
    + pose proof (inv_obs s HI q' obs qu Hb' Hq). simpl. lia.
    + eapply inv_obs; eassumption.
  - intros q' qu' Hqu' Hl Hs id (h & R). apply Hh in R. destruct R as (Hne & R).
    rewrite Hqs in Hqu'. apply queues_upd_cases in Hqu'. destruct Hqu' as [(-> & ->)|(Hne' & Hqu')].
    + simpl in Hs. apply Hne. eapply (inv_single s HI q' qu Hq Hs); eassumption.
    + eapply (inv_lock s HI q' qu' Hqu' Hl Hs id). exists h. assumption.
  - intros q' qu' Hqu' Hs h1 h2 id1 id2 R1 R2. apply Hh in R1. apply Hh in R2. destruct R1 as (_ & R1), R2 as (_ & R2).
    rewrite Hqs in Hqu'. apply queues_upd_cases in Hqu'. destruct Hqu' as [(-> & ->)|(Hne' & Hqu')].
    + simpl in Hs. eapply (inv_single s HI q' qu Hq Hs); eassumption.
    + eapply inv_single; eassumption.
  - intros q' qu' Hqu'. rewrite Hqs in Hqu'. apply queues_upd_cases in Hqu'. destruct Hqu' as [(-> & ->)|(Hne' & Hqu')].
    + simpl. eapply inv_bound; eassumption.
    + eapply inv_bound; eassumption.
Qed.

(* editing only the submitted / dropped counters of one queue *)
Lemma inv_queue_edit s q qu qu' :
  Inv s -> nth_error (queues s) q = Some qu ->
  q_pop qu' = q_pop qu -> q_locked qu' = q_locked qu -> q_serial qu' = q_serial qu -> q_pop qu' + q_dropped qu' <= q_sub qu' ->
  Inv (set_q s (upd (queues s) q qu')).
Proof.
  intros HI Hq Ep El Es Hb. constructor; simpl.
  - apply inv_wait. assumption.
  - intros q' qx id Hqx Hid. apply queues_upd_cases in Hqx. destruct Hqx as [(-> & ->)|(_ & Hqx)].
    + destruct (inv_acct s HI q' qu id Hq ltac:(lia)) as [F|(h & R)]; [left; assumption|right; exists h; apply holds_set_q; assumption].
    + destruct (inv_acct s HI q' qx id Hqx Hid) as [F|(h & R)]; [left; assumption|right; exists h; apply holds_set_q; assumption].
  - intros q' obs qx Hb' Hqx. apply queues_upd_cases in Hqx. destruct Hqx as [(-> & ->)|(_ & Hqx)].
    + pose proof (inv_obs s HI q' obs qu Hb' Hq). lia.
    + eapply inv_obs; eassumption.
  - intros q' qx Hqx Hl Hs id (h & R). apply holds_set_q in R. apply queues_upd_cases in Hqx. destruct Hqx as [(-> & ->)|(_ & Hqx)].
    + eapply (inv_lock s HI q' qu Hq); [congruence|congruence|exists h; eassumption].
    + eapply (inv_lock s HI q' qx Hqx Hl Hs id). exists h. assumption.
  - intros q' qx Hqx Hs h1 h2 id1 id2 R1 R2. apply holds_set_q in R1. apply holds_set_q in R2.
    apply queues_upd_cases in Hqx. destruct Hqx as [(-> & ->)|(_ & Hqx)].
    + eapply (inv_single s HI q' qu Hq); [congruence|eassumption|eassumption].
    + eapply inv_single; eassumption.
  - intros q' qx Hqx. apply queues_upd_cases in Hqx. destruct Hqx as [(-> & ->)|(_ & Hqx)]; [assumption|eapply inv_bound; eassumption].
Qed.

Lemma worker_idle_free s pt : nth_error (workers s) pt = Some WIdle -> forall q id, ~ holds s (Some pt) q id.
Proof. intros H q id R. simpl in R. congruence. Qed.

(* ---- every accepted event preserves the invariant ---- *)
Theorem inv_step strict s e s' : Inv s -> dstep strict s e = Some s' -> Inv s'.
Proof.
  intros HI H. destruct e; simpl in H.
  - (* submit *)
    destruct (nth_error (queues s) q) as [qu|] eqn:Eq; [|discriminate]. inversion H; subst; clear H.
    apply (inv_queue_edit s q qu); auto; simpl. pose proof (inv_bound s HI q qu Eq). lia.
  - (* worker at loop top *)
    destruct (nth_error (workers s) (pred t)) as [[| | |]|]; try discriminate. destruct (Nat.eqb t 0); inversion H; subst; assumption.
  - (* wait enter *)
    destruct (nth_error (workers s) (pred t)) as [[| | |]|] eqn:Ew; try discriminate.
    destruct (negb (Nat.eqb t 0) && negb (existsb q_runnable (queues s)) && Nat.eqb count (S (waiting s))); [|discriminate].
    inversion H; subst; clear H. apply (inv_transport s); simpl; auto.
    + pose proof (countw_upd (workers s) (pred t) WWaiting WIdle Ew). simpl in H. rewrite (inv_wait s HI). lia.
    + intros h qa ida. rewrite holds_set_wait. apply (holds_upd_idle s (pred t) WIdle WWaiting h qa ida Ew); auto with disp.
  - (* wait exit *)
    destruct (nth_error (workers s) (pred t)) as [[| | |]|] eqn:Ew; try discriminate.
    inversion H; subst; clear H. apply (inv_transport s); simpl; auto.
    + pose proof (countw_upd (workers s) (pred t) WIdle WWaiting Ew). simpl in H. rewrite (inv_wait s HI). lia.
    + intros h qa ida. rewrite holds_set_wait. apply (holds_upd_idle s (pred t) WWaiting WIdle h qa ida Ew); auto with disp.
  - (* worker pop *)
    destruct (nth_error (workers s) (pred t)) as [[| | |]|] eqn:Ew; try discriminate.
    destruct (nth_error (queues s) q) as [qu|] eqn:Eq; [|discriminate].
    destruct (negb (Nat.eqb t 0) && q_runnable qu) eqn:Eg; [|discriminate]. apply andb_true_iff in Eg. destruct Eg as (_ & Hrun).
    inversion H; subst; clear H.
    apply (inv_pop s _ q qu (Some (pred t)) HI Eq Hrun (worker_idle_free s (pred t) Ew)); simpl; auto.
    + pose proof (countw_upd (workers s) (pred t) (WRunning q (q_pop qu)) WIdle Ew). simpl in H. rewrite (inv_wait s HI). lia.
    + intros h qa ida. rewrite holds_set_q. rewrite (holds_upd_worker s (pred t) WIdle _ h qa ida Ew). split.
      * intros [(-> & E)|(N & R)]; [inversion E; left; auto|right; auto].
      * intros [(-> & -> & ->)|(N & R)]; [left; auto|right; auto].
  - (* worker end *)
    destruct (nth_error (workers s) (pred t)) as [[| |q' id|]|] eqn:Ew; try discriminate.
    destruct (nth_error (queues s) q) as [qu|] eqn:Eq; [|discriminate].
    destruct (Nat.eqb_spec q q') as [->|]; [|discriminate]. inversion H; subst; clear H.
    apply (inv_end s _ q' qu (Some (pred t)) id HI Eq Ew); simpl; auto.
    + pose proof (countw_upd (workers s) (pred t) WIdle (WRunning q' id) Ew). simpl in H. rewrite (inv_wait s HI). lia.
    + intros h qa ida. rewrite holds_add_fin, holds_set_q. rewrite (holds_upd_worker s (pred t) _ WIdle h qa ida Ew). split.
      * intros [(_ & E)|(N & R)]; [discriminate|auto].
      * intros (N & R). right. auto.
  - (* worker exit under the lock *)
    destruct (nth_error (workers s) (pred t)) as [[| | |]|] eqn:Ew; try discriminate. destruct (term s); [|discriminate].
    inversion H; subst; clear H. apply (inv_transport s); simpl; auto.
    + pose proof (countw_upd (workers s) (pred t) WExited WIdle Ew). simpl in H. rewrite (inv_wait s HI). lia.
    + intros h qa ida. apply (holds_upd_idle s (pred t) WIdle WExited h qa ida Ew); auto with disp.
  - (* worker function returns *)
    destruct (nth_error (workers s) (pred t)) as [[| | |]|] eqn:Ew; try discriminate;
      (destruct (term s && negb (Nat.eqb t 0)); [|discriminate]); inversion H; subst; clear H; apply (inv_transport s); simpl; auto.
    + pose proof (countw_upd (workers s) (pred t) WExited WIdle Ew). simpl in H. rewrite (inv_wait s HI). lia.
    + intros h qa ida. apply (holds_upd_idle s (pred t) WIdle WExited h qa ida Ew); auto with disp.
    + pose proof (countw_upd (workers s) (pred t) WExited WExited Ew). simpl in H. rewrite (inv_wait s HI). lia.
    + intros h qa ida. apply (holds_upd_idle s (pred t) WExited WExited h qa ida Ew); auto with disp.
  - (* helper enters wait() *)
    destruct (helper s) eqn:Eh; try discriminate. destruct (nth_error (queues s) q); [|discriminate].
    inversion H; subst; clear H. apply (inv_transport s); simpl; auto.
    + apply inv_wait; assumption.
    + intros h qa ida. apply holds_set_h_idle; [rewrite Eh|]; intros a b E; discriminate.
    + intros qa obsa E. discriminate.
  - (* helper observes the queue empty *)
    destruct (helper s) as [|q'| |] eqn:Eh; try discriminate. destruct (nth_error (queues s) q) as [qu|] eqn:Eq; [|discriminate].
    destruct (Nat.eqb_spec q q') as [->|]; [|discriminate]. simpl in H. destruct (negb (q_nonempty qu)) eqn:En; [|discriminate].
    inversion H; subst; clear H. apply (inv_transport s); simpl; auto.
    + apply inv_wait; assumption.
    + intros h qa ida. apply holds_set_h_idle; [rewrite Eh|]; intros a b E; discriminate.
    + intros qa obsa E. inversion E; subst. right. exists qu. split; [assumption|].
      unfold q_nonempty in En. apply negb_true_iff in En. apply Nat.ltb_ge in En. lia.
  - (* helper finds the serial queue busy *)
    destruct (helper s) as [|q'| |] eqn:Eh; try discriminate. destruct (nth_error (queues s) q) as [qu|]; [|discriminate].
    destruct (Nat.eqb q q' && q_locked qu); inversion H; subst; assumption.
  - (* helper pop *)
    destruct (helper s) as [|q'| |] eqn:Eh; try discriminate. destruct (nth_error (queues s) q) as [qu|] eqn:Eq; [|discriminate].
    destruct (Nat.eqb q q' && q_runnable qu) eqn:Eg; [|discriminate]. apply andb_true_iff in Eg. destruct Eg as (_ & Hrun).
    inversion H; subst; clear H.
    apply (inv_pop s _ q qu None HI Eq Hrun); simpl; auto.
    + intros qa ida R. simpl in R. congruence.
    + apply inv_wait; assumption.
    + intros h qa ida. rewrite holds_set_q, holds_set_h. split.
      * intros [(-> & E)|(N & R)]; [inversion E; left; auto|right; auto].
      * intros [(-> & -> & ->)|(N & R)]; [left; auto|right; auto].
    + intros qa obsa E. discriminate.
  - (* helper end *)
    destruct (helper s) as [| |q' id|] eqn:Eh; try discriminate. destruct (nth_error (queues s) q) as [qu|] eqn:Eq; [|discriminate].
    destruct (Nat.eqb_spec q q') as [->|]; [|discriminate]. inversion H; subst; clear H.
    apply (inv_end s _ q' qu None id HI Eq Eh); simpl; auto.
    + apply inv_wait; assumption.
    + intros h qa ida. rewrite holds_add_fin, holds_set_q, holds_set_h. split.
      * intros [(_ & E)|(N & R)]; [discriminate|auto].
      * intros (N & R). right. auto.
    + intros qa obsa E. discriminate.
  - (* unsuccessful barrier read *)
    destruct (helper s); inversion H; subst; assumption.
  - (* barrier pass *)
    assert (G : forall sx, sx = set_h s HOut -> h_not_running (helper s) -> Inv sx).
    { intros sx -> Hn. apply (inv_transport s); simpl; auto.
      - apply inv_wait; assumption.
      - intros h qa ida. apply holds_set_h_idle; [assumption|intros a b E; discriminate].
      - intros qa obsa E. discriminate. }
    destruct (helper s) as [|q'| |q' obs] eqn:Eh; try discriminate; destruct (nth_error (queues s) q) as [qu|]; try discriminate.
    + destruct (Nat.eqb q q' && term s && negb strict); [|discriminate]. inversion H; subst. apply G; [reflexivity|intros a b E; discriminate].
    + destruct (negb (Nat.eqb q q')); [discriminate|].
      destruct strict.
      * destruct (q_serial qu).
        -- destruct (q_locked qu); [discriminate|]. inversion H; subst. apply G; [reflexivity|intros a b E; discriminate].
        -- destruct (Nat.eqb (waiting s) (length (workers s))); [|discriminate]. inversion H; subst. apply G; [reflexivity|intros a b E; discriminate].
      * destruct (all_fin_below s q obs); [|discriminate]. inversion H; subst. apply G; [reflexivity|intros a b E; discriminate].
  - (* terminate *)
    inversion H; subst; clear H. apply (inv_transport s); simpl; auto.
    + apply inv_wait; assumption.
    + intros h qa ida. destruct h; simpl; tauto.
  - (* clear *)
    destruct (queues s) as [|qu ql] eqn:Eql; [discriminate|]. inversion H; subst; clear H.
    assert (Eq : nth_error (queues s) 0 = Some qu) by (rewrite Eql; reflexivity).
    pose proof (inv_bound s HI 0 qu Eq) as Hb.
    pose proof (inv_queue_edit s 0 qu {| q_sub := q_sub qu; q_pop := q_pop qu; q_locked := q_locked qu; q_serial := q_serial qu;
                                          q_dropped := q_sub qu - q_pop qu |} HI Eq eq_refl eq_refl eq_refl ltac:(simpl; lia)) as G.
    rewrite Eql in G. simpl in G. exact G.
  - (* joined *)
    destruct (forallb (fun w => wstate_eqb w WExited) (workers s)); [|discriminate]. inversion H; subst; clear H.
    apply (inv_transport s); simpl; auto.
    + apply inv_wait; assumption.
    + intros h qa ida. destruct h; simpl; tauto.
Qed.

(* every run from the initial state satisfies the invariant *)
Theorem inv_run strict : forall tr s s', Inv s -> drun strict s tr = Some s' -> Inv s'.
Proof.
  induction tr as [|e t IH]; intros s s' HI H; simpl in H; [inversion H; subst; assumption|].
  destruct (dstep strict s e) as [s1|] eqn:E; [|discriminate]. eapply IH; [eapply inv_step; eassumption|eassumption].
Qed.

(* the relaxed acceptor (used on recorded traces) accepts every run of the strict model, with the same states *)
Lemma dstep_strict_relaxed s e s' : Inv s -> dstep true s e = Some s' -> dstep false s e = Some s'.
Proof.
  intros HI H. destruct e; try exact H.
  destruct (barrier_pass_complete s q s' HI H) as (obs & Eh & Hall).
  simpl in H |- *. rewrite Eh in *.
  destruct (nth_error (queues s) q) as [qu|]; [|discriminate].
  destruct (negb (Nat.eqb q q)) eqn:En; [discriminate|]. rewrite Hall.
  destruct (q_serial qu); [destruct (q_locked qu); [discriminate|exact H]|].
  destruct (Nat.eqb (waiting s) (length (workers s))); [exact H|discriminate].
Qed.

Theorem strict_run_is_relaxed_run : forall tr s s', Inv s -> drun true s tr = Some s' -> drun false s tr = Some s'.
Proof.
  induction tr as [|e t IH]; intros s s' HI H; simpl in *; [assumption|].
  destruct (dstep true s e) as [s1|] eqn:E; [|discriminate].
  rewrite (dstep_strict_relaxed s e s1 HI E). apply IH; [eapply inv_step; eassumption|assumption].
Qed.

(* jobs of one serial queue never run concurrently: in every reachable state at most one thread holds a job of it *)
Theorem serial_exclusive strict nw ns tr s q qu h1 h2 id1 id2 :
  drun strict (d_init nw ns) tr = Some s -> nth_error (queues s) q = Some qu -> q_serial qu = true ->
  holds s h1 q id1 -> holds s h2 q id2 -> h1 = h2.
Proof.
  intros Hrun Hq Hs R1 R2. pose proof (inv_run strict tr _ _ (inv_init nw ns) Hrun) as HI.
  eapply inv_single; eassumption.
Qed.

(* every popped task is finished or is being run by exactly the thread that popped it *)
Theorem started_accounted strict nw ns tr s q qu id :
  drun strict (d_init nw ns) tr = Some s -> nth_error (queues s) q = Some qu -> id < q_pop qu ->
  is_fin s q id = true \/ runner s q id.
Proof.
  intros Hrun Hq Hid. pose proof (inv_run strict tr _ _ (inv_init nw ns) Hrun) as HI. eapply inv_acct; eassumption.
Qed.

(* ---- parallelFor: the ranges tile [first, last) ---- *)
Lemma pf_ranges_tile ept extra : forall todo k start,
  flat_map (fun r : nat * nat => seq (fst r) (snd r)) (pf_ranges ept extra k todo start) =
  seq start (fold_left (fun acc j => acc + (if Nat.ltb j extra then S ept else ept)) (seq k todo) 0).
Proof.
  induction todo as [|todo IH]; intros k start; simpl; [reflexivity|].
  rewrite IH.
  assert (G : forall l a b, fold_left (fun acc j => acc + (if Nat.ltb j extra then S ept else ept)) l (a + b) =
                            a + fold_left (fun acc j => acc + (if Nat.ltb j extra then S ept else ept)) l b).
  { induction l as [|x l IHl]; intros a b; simpl; [reflexivity|]. rewrite <- IHl. f_equal. lia. }
  set (sz := if Nat.ltb k extra then S ept else ept).
  rewrite <- seq_app. f_equal. rewrite <- (Nat.add_0_r sz) at 2. rewrite G. reflexivity.
Qed.

Theorem parallel_for_tiles first last threads task_count :
  0 < threads \/ 0 < task_count ->
  flat_map (fun r : nat * nat => seq (fst r) (snd r)) (parallel_for_ranges first last threads task_count) = seq first (last - first).
Proof.
  intros Hpos. unfold parallel_for_ranges. destruct (last - first) as [|n] eqn:En; [reflexivity|].
  set (size := S n). set (tc := pf_tasks size threads task_count).
  assert (Htc : 0 < tc).
  { unfold tc, pf_tasks. destruct task_count; [|lia]. destruct (Nat.ltb_spec size threads); [unfold size; lia|lia]. }
  destruct tc as [|tc'] eqn:Etc; [lia|]. rewrite pf_ranges_tile. f_equal.
  set (ept := size / S tc'). set (extra := size - S tc' * ept).
  assert (Hdm : size = S tc' * ept + extra /\ extra < S tc').
  { unfold extra, ept. pose proof (Nat.div_mod size (S tc') ltac:(lia)). pose proof (Nat.mod_upper_bound size (S tc') ltac:(lia)). nia. }
  assert (G : forall m acc, m <= S tc' ->
            fold_left (fun acc j => acc + (if Nat.ltb j extra then S ept else ept)) (seq 0 m) acc = acc + m * ept + Nat.min m extra).
  { induction m as [|m IH]; intros acc Hm; [simpl; lia|].
    rewrite seq_S, fold_left_app. cbn [fold_left Nat.add]. rewrite IH by lia. rewrite Nat.mul_succ_l. destruct (Nat.ltb_spec m extra); lia. }
  rewrite G by lia. lia.
Qed.
