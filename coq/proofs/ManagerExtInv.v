(* C02, extended unlocked alphabet: the invariant MInvE = MInv (ManagerInv.v) + the set of entities marked for
   deferred destruction + archetype masks inside the bitset width + a well-formed entity table of the specification.
   Part (a): destroy (deferred) and update. *)
Require Import Coq.Lists.List Coq.NArith.NArith Coq.ZArith.ZArith Coq.Arith.Arith Coq.Bool.Bool Coq.micromega.Lia.
From Mustache Require Import Res Manager MgrSpec Refine.
From Mustache Require Skeleton.
From Mustache Require Import SkelSpec.
From Mustache.proofs Require Import ListLemmas SkelBasics SkelInv SkelSteps SkelMove SkelRefine ClosureProofs
  ManagerBasics ManagerMoves ManagerProj ManagerInv ManagerMain ManagerWorlds ManagerExtFrames.
Import ListNotations.

(* ---------------------------------------------------------------------------------------- *)
(* masks *)
Lemma mok_lt m : (m < 2 ^ 128)%N -> mok m.
Proof.
  intros H c Hc. unfold mhas in Hc. destruct (Nat.lt_ge_cases c MASK_BITS) as [Hlt|Hge]; [exact Hlt|exfalso].
  destruct (N.eq_dec m 0) as [->|Hz]; [rewrite N.bits_0 in Hc; discriminate|].
  assert (Hl : (N.log2 m < 128)%N) by (apply N.log2_lt_pow2; lia).
  rewrite N.bits_above_log2 in Hc; [discriminate|]. unfold MASK_BITS in Hge. lia.
Qed.

Lemma comp_mask_mitems cs m : map fst cs = mitems m -> mok m -> comp_mask cs = m.
Proof.
  intros Hk Hm. apply N.bits_inj. intros n.
  assert (E : forall c, mhas (comp_mask cs) c = mhas m c).
  { intros c. rewrite comp_mask_has. apply eq_iff_eq_true. rewrite has_comp_in, Hk, mitems_in. split; [tauto|]. intros H. split; [apply Hm; exact H|exact H]. }
  specialize (E (N.to_nat n)). unfold mhas in E. rewrite N2Nat.id in E. exact E.
Qed.

(* ---------------------------------------------------------------------------------------- *)
(* the invariant MInv reads only the structural fields of the state, and the entities + control fields of the spec *)
Lemma MInv_core cis s s' hs al x : MInv cis s hs al x ->
  slots s' = slots s -> locs s' = locs s -> next_slot s' = next_slot s -> empty_slots s' = empty_slots s -> archs s' = archs s ->
  lockc s' = lockc s -> deps s' = deps s -> cinfos s' = cinfos s -> MInv cis s' hs al x.
Proof.
  intros [HG Hawf Hl Hdp Hc Hxl Hxd Hxc Hcnt Hsl Hal Hv] E1 E2 E3 E4 E5 E6 E7 E8.
  constructor; try assumption; try congruence.
  - eapply (G_same_core (proj s) (proj s')); [| | | | |exact HG]; simpl; congruence.
  - intros ai a idx h Ha Hh. rewrite E5 in Ha. apply (Hv ai a idx h Ha Hh).
Qed.

Lemma MInv_ext2 cis s hs al x x' : MInv cis s hs al x ->
  x_lock x' = x_lock x -> x_deps x' = x_deps x -> x_cinfos x' = x_cinfos x -> x_count x' = x_count x ->
  (forall k, find_ent x' k = find_ent x k) -> MInv cis s hs al x'.
Proof.
  intros [HG Hawf Hl Hdp Hc Hxl Hxd Hxc Hcnt Hsl Hal Hv] X1 X2 X3 X4 Hf.
  constructor; try assumption; try congruence.
  - intros k. rewrite Hal. unfold alive_x. rewrite Hf. tauto.
  - intros ai a idx h Ha Hh. destruct (Hv ai a idx h Ha Hh) as (k & e & A & B & C & D). exists k, e. rewrite Hf. auto.
Qed.

(* ---------------------------------------------------------------------------------------- *)
(* the entity table of the specification *)
Lemma findk_notin l k : ~ In k (map e_k l) -> findk l k = None.
Proof.
  unfold findk. induction l as [|a t IH]; simpl; intros H; [reflexivity|].
  destruct (Nat.eqb_spec (e_k a) k) as [E|E]; [exfalso; apply H; left; exact E|]. apply IH. intros Hin. apply H. right. exact Hin.
Qed.

Lemma findk_filter l (P : ent -> bool) k : NoDup (map e_k l) ->
  findk (filter P l) k = match findk l k with Some e => if P e then Some e else None | None => None end.
Proof.
  induction l as [|a t IH]; intros Hnd; [reflexivity|]. simpl in Hnd. inversion Hnd as [|? ? Hni Hnd']; subst.
  unfold findk in *. simpl. destruct (Nat.eqb_spec (e_k a) k) as [E|E].
  - destruct (P a) eqn:Ep; simpl.
    + apply Nat.eqb_eq in E. rewrite E. reflexivity.
    + rewrite (IH Hnd'). subst k. fold (findk t (e_k a)). rewrite (findk_notin _ _ Hni). reflexivity.
  - destruct (P a) eqn:Ep; simpl.
    + apply Nat.eqb_neq in E. rewrite E. apply IH. exact Hnd'.
    + apply IH. exact Hnd'.
Qed.

Lemma xwf_fields x : xwf x -> x_lock x = 0 /\ x_deps x = [] /\ NoDup (map e_k (x_ents x)) /\ forall e, In e (x_ents x) -> e_k e < x_count x.
Proof. intros H. exact H. Qed.

Lemma xwf_same x x' : xwf x -> x_lock x' = x_lock x -> x_deps x' = x_deps x -> x_ents x' = x_ents x -> x_count x' = x_count x -> xwf x'.
Proof. intros (A & B & C & D) E1 E2 E3 E4. unfold xwf. rewrite E1, E2, E3, E4. auto. Qed.

Lemma xwf_kill x k : xwf x -> xwf (x_kill x k).
Proof.
  intros Hw. pose proof Hw as (Hl & Hd & Hnd & Hlt). unfold x_kill. destruct (find_ent x k); [|exact Hw].
  split; [exact Hl|]. split; [exact Hd|]. simpl. split.
  - rewrite drop_ent_keys. apply NoDup_filter. exact Hnd.
  - intros z Hz. unfold drop_ent in Hz. apply filter_In in Hz. apply Hlt. tauto.
Qed.

Lemma fold_kill_xwf ks : forall x, xwf x -> xwf (fold_left x_kill ks x).
Proof. induction ks as [|k t IH]; intros x Hw; simpl; [exact Hw|]. apply IH. apply xwf_kill. exact Hw. Qed.

Lemma fold_kill_xfr ks : forall x, xfr (fold_left x_kill ks x) = xfr x.
Proof. induction ks as [|k t IH]; intros x; simpl; [reflexivity|]. rewrite IH. apply (proj1 (x_kill_eq x k)). Qed.

Lemma fold_kill_find ks : forall x k', find_ent (fold_left x_kill ks x) k' = if existsb (Nat.eqb k') ks then None else find_ent x k'.
Proof.
  induction ks as [|k t IH]; intros x k'; simpl; [reflexivity|]. rewrite IH. rewrite (proj2 (x_kill_eq x k)).
  destruct (Nat.eqb k' k); simpl; [destruct (existsb (Nat.eqb k') t); reflexivity|reflexivity].
Qed.

Lemma xfr_marked s s' : xfr s' = xfr s -> x_marked s' = x_marked s.
Proof. intros H. apply (f_equal x_marked) in H. exact H. Qed.

(* ---------------------------------------------------------------------------------------- *)
(* the extended invariant *)
Record MInvE (cis : list cinfo) (s : mst) (hs : list handle) (al : list (nat * N)) (x : xst) : Prop := {
  me_inv : MInv cis s hs al x;
  me_mok : Mok s;
  me_xwf : xwf x;
  me_marked_in : forall h, In h (marked s) -> h = null_handle \/ In h hs;
  me_marked_lt : forall k, In k (x_marked x) -> k < length hs;
  me_marked : forall k, k < length hs -> (In (hnd hs k) (marked s) <-> In k (x_marked x))
}.

Lemma MInvE_set_log cis s hs al x l : MInvE cis s hs al x -> MInvE cis (set_log s l) hs al x.
Proof. intros [A B C D E F]. constructor; try assumption. apply MInv_set_log. exact A. Qed.

Lemma MInvE_G cis s hs al x : MInvE cis s hs al x -> G (proj s) hs al [].
Proof. intros H. apply (mi_G _ _ _ _ _ (me_inv _ _ _ _ _ H)). Qed.

(* ---------------------------------------------------------------------------------------- *)
(* destroy(): the request waits for update() *)
Lemma m_set_insert_in l h x : In x (set_insert l h) <-> x = h \/ In x l.
Proof.
  induction l as [|y t IH]; simpl; [intuition|].
  destruct (handle_eqb y h) eqn:E.
  - assert (Ey : y = h).
    { unfold handle_eqb in E. apply andb_true_iff in E. destruct E as (E1 & E2). apply N.eqb_eq in E1, E2. destruct y, h; simpl in *; congruence. }
    subst y. simpl. intuition.
  - destruct (handle_ltb h y); simpl; [intuition|]. rewrite IH. intuition.
Qed.

Lemma step_destroy_unlocked s tid h : lockc s = 0 ->
  step s (ODestroy tid h) = Ok (set_marked s (set_insert (marked s) h), RNone).
Proof. intros Hl. unfold step. rewrite Hl. reflexivity. Qed.

Lemma MInvE_destroy cis s hs al x tid k s' out :
  MInvE cis s hs al x -> step s (ODestroy tid (hnd hs k)) = Ok (s', out) ->
  out = RNone /\ MInvE cis s' hs al (x_step_in x (XoDestroy tid k)).
Proof.
  intros [HI HM Hw Hmi Hml Hm] H. rewrite (step_destroy_unlocked _ _ _ (mi_lock _ _ _ _ _ HI)) in H.
  inversion H; subst s' out; clear H. split; [reflexivity|].
  pose proof (mi_G _ _ _ _ _ HI) as HG.
  assert (HI' : MInv cis (set_marked s (set_insert (marked s) (hnd hs k))) hs al x) by (eapply MInv_core; [exact HI|reflexivity..]).
  unfold x_step_in, issued_b. rewrite (mi_count _ _ _ _ _ HI), (mi_xlock _ _ _ _ _ HI).
  destruct (Nat.ltb_spec k (length hs)) as [Hk|Hk]; simpl negb; cbv iota.
  - constructor.
    + eapply MInv_ext2; [exact HI'|reflexivity..].
    + exact HM.
    + eapply xwf_same; [exact Hw|reflexivity..].
    + intros h Hin. cbn [marked set_marked] in Hin. apply m_set_insert_in in Hin. destruct Hin as [->|Hin]; [right; apply nth_In_hnd; exact Hk|auto].
    + intros k' [<-|Hin]; [exact Hk|auto].
    + intros k' Hk'. cbn [marked set_marked x_marked xw_marked]. rewrite m_set_insert_in. split.
      * intros [E|Hin]; [left; symmetry; eapply (hnd_inj _ hs _ _ _ _ HG); eauto|right; apply Hm; assumption].
      * intros [<-|Hin]; [left; reflexivity|right; apply Hm; assumption].
  - rewrite hnd_beyond in HI' |- * by exact Hk. constructor; try assumption.
    + intros h Hin. cbn [marked set_marked] in Hin. apply m_set_insert_in in Hin. destruct Hin as [->|Hin]; [left; reflexivity|auto].
    + intros k' Hk'. cbn [marked set_marked]. rewrite m_set_insert_in. split.
      * intros [E|Hin]; [exfalso; eapply (hnd_not_null _ hs _ _ k' HG Hk'); exact E|apply Hm; assumption].
      * intros Hin. right. apply Hm; assumption.
Qed.

(* ---------------------------------------------------------------------------------------- *)
(* update(): every marked handle goes through the checked destroyNow *)
Lemma x_step_destroy_now x tid k : x_lock x = 0 -> k < x_count x -> x_step_in x (XoDestroyNow tid k) = x_kill x k.
Proof. intros Hl Hk. unfold x_step_in, issued_b. apply Nat.ltb_lt in Hk. rewrite Hk, Hl. reflexivity. Qed.

Lemma MInv_destroy_list cis hs : forall m s al x s',
  MInv cis s hs al x -> within (length hs) ->
  (forall h, In h m -> h = null_handle \/ exists k, k < length hs /\ hnd hs k = h) ->
  fold_res destroy_now_unlocked m s = Ok s' ->
  exists al' ks, MInv cis s' hs al' (fold_left x_kill ks x) /\ sim s s' /\
    (forall k, In k ks <-> k < length hs /\ In (hnd hs k) m).
Proof.
  induction m as [|h t IH]; intros s al x s' HI Hb Hm H.
  - simpl in H. inversion H; subst s'. exists al, []. split; [exact HI|]. split; [apply sim_refl|]. intros k. simpl. tauto.
  - simpl in H. bd H s1 H1. pose proof (mi_G _ _ _ _ _ HI) as HG.
    destruct (Hm h (or_introl eq_refl)) as [->|(k & Hk & <-)].
    + unfold destroy_now_unlocked in H1. rewrite is_valid_null_m in H1. inversion H1; subst s1.
      destruct (IH s al x s' HI Hb (fun h' Hh' => Hm h' (or_intror Hh')) H) as (al' & ks & HI' & Hs & Hks).
      exists al', ks. split; [exact HI'|]. split; [exact Hs|]. intros k. rewrite Hks. split.
      * intros (A & B). split; [exact A|right; exact B].
      * intros (A & [B|B]); [exfalso; eapply (hnd_not_null _ hs _ _ k HG A); symmetry; exact B|auto].
    + assert (Hst : step s (ODestroyNow 0 (hnd hs k)) = Ok (s1, RNone)).
      { rewrite (step_destroy_now_unlocked _ _ _ (mi_lock _ _ _ _ _ HI)), H1. reflexivity. }
      destruct (MInv_destroy_now cis s hs al x 0 k s1 RNone HI Hb Hst) as (_ & HI1).
      rewrite x_step_destroy_now in HI1; [|apply (mi_xlock _ _ _ _ _ HI)|rewrite (mi_count _ _ _ _ _ HI); exact Hk].
      destruct (IH s1 _ _ s' HI1 Hb (fun h' Hh' => Hm h' (or_intror Hh')) H) as (al' & ks & HI' & Hs & Hks).
      exists al', (k :: ks). split; [exact HI'|]. split; [eapply sim_trans; [eapply destroy_now_sim; exact H1|exact Hs]|].
      intros k'. simpl. rewrite Hks. split.
      * intros [<-|(A & B)]; [split; [exact Hk|left; reflexivity]|split; [exact A|right; exact B]].
      * intros (A & [B|B]); [left; eapply (hnd_inj _ hs _ _ _ _ HG); eauto|right; auto].
Qed.

Lemma step_update s : lockc s = 0 ->
  step s (OUpdate true) =
  (do s2 <- fold_res destroy_now_unlocked (marked s) (set_wv (inc_wv s) (wv (inc_wv s)) (Some (wv (inc_wv s))));
   Ok (set_marked s2 [], RNone)).
Proof. intros Hl. unfold step. change (lockc (inc_wv s)) with (lockc s). rewrite Hl. reflexivity. Qed.

Lemma MInvE_update cis s hs al x s' out :
  MInvE cis s hs al x -> within (length hs) -> step s (OUpdate true) = Ok (s', out) ->
  out = RNone /\ exists al', MInvE cis s' hs al' (x_step_in x XoUpdate).
Proof.
  intros [HI HM Hw Hmi Hml Hm] Hb H. rewrite (step_update _ (mi_lock _ _ _ _ _ HI)) in H.
  bd H s2 Hf. inversion H; subst s' out; clear H. split; [reflexivity|].
  match type of Hf with fold_res _ _ ?S = _ => set (sw := S) in * end.
  assert (HIw : MInv cis sw hs al x) by (eapply MInv_core; [exact HI|reflexivity..]).
  assert (Hmi' : forall h, In h (marked s) -> h = null_handle \/ exists k, k < length hs /\ hnd hs k = h).
  { intros h Hin. destruct (Hmi h Hin) as [E|Hin']; [left; exact E|right; apply In_hnd; exact Hin']. }
  destruct (MInv_destroy_list cis hs (marked s) sw al x s2 HIw Hb Hmi' Hf) as (al' & ks & HI2 & Hs2 & Hks).
  exists al'. unfold x_step_in.
  assert (Hex : forall k', existsb (Nat.eqb k') (x_marked x) = existsb (Nat.eqb k') ks).
  { intros k'. apply eq_iff_eq_true. rewrite !existsb_exists. split.
    - intros (k0 & Hin & E). apply Nat.eqb_eq in E. subst k0. exists k'. split; [|apply Nat.eqb_refl].
      apply Hks. pose proof (Hml k' Hin) as Hlt. split; [exact Hlt|]. apply Hm; assumption.
    - intros (k0 & Hin & E). apply Nat.eqb_eq in E. subst k0. exists k'. split; [|apply Nat.eqb_refl].
      apply Hks in Hin. destruct Hin as (A & B). apply Hm; assumption. }
  destruct (xfr_fields _ _ (fold_kill_xfr ks x)) as (X1 & X2 & X3 & X4 & X5).
  destruct (xfr_fields _ _ (fold_kill_xfr (x_marked x) x)) as (Y1 & Y2 & Y3 & Y4 & Y5).
  constructor.
  - eapply MInv_ext2; [eapply MInv_core; [exact HI2|reflexivity..]| | | | |]; simpl; try congruence.
    intros k'. rewrite !find_ent_findk. simpl. rewrite <- !find_ent_findk. rewrite !fold_kill_find, Hex. reflexivity.
  - change (Mok s2). eapply sim_Mok; [exact Hs2|exact HM].
  - eapply xwf_same; [apply (fold_kill_xwf (x_marked x)); exact Hw|reflexivity..].
  - intros h [].
  - intros k [].
  - intros k Hk. simpl. tauto.
Qed.
