(* Preservation of the invariant G by the unlocked operations of the Skeleton: destroyNow, creation,
   clearArchetype (C01). *)
Require Import Coq.Lists.List Coq.NArith.NArith Coq.Arith.Arith Coq.Bool.Bool Coq.micromega.Lia.
From Mustache Require Import Res Skeleton SkelSpec.
From Mustache.proofs Require Import ListLemmas SkelBasics SkelInv.
Import ListNotations.

Lemma bind_ok {A B} (r : res A) (f : A -> res B) b : bind r f = Ok b -> exists a, r = Ok a /\ f a = Ok b.
Proof. destruct r as [a|e]; simpl; intros H; [exists a; auto|discriminate]. Qed.

(* the fields no structural primitive touches *)
Definition same_ctl (s s' : st) : Prop :=
  lockc s' = lockc s /\ next_eid s' = next_eid s /\ bufs s' = bufs s /\ marked s' = marked s /\ nthreads s' = nthreads s.

Lemma same_ctl_refl s : same_ctl s s.
Proof. repeat split. Qed.
Lemma same_ctl_trans a b c : same_ctl a b -> same_ctl b c -> same_ctl a c.
Proof. unfold same_ctl. intros (A1 & A2 & A3 & A4 & A5) (B1 & B2 & B3 & B4 & B5). repeat split; congruence. Qed.

Lemma kill_not_alive al k : ~ alive al k -> kill al k = al.
Proof.
  unfold alive, kill. induction al as [|[a b] t IH]; simpl; intros H; [reflexivity|].
  destruct (Nat.eqb_spec a k) as [->|Hne]; simpl; [exfalso; apply H; left; reflexivity|]. f_equal. apply IH. intros Hin. apply H. right. assumption.
Qed.

(* ---- positions and ids of the members of one archetype ---- *)
Lemma members_ids {X} s hs al rem ai a i1 i2 h1 h2 :
  GE X s hs al rem -> ~ X ai i1 -> ~ X ai i2 -> nth_error (archs s) ai = Some a ->
  nth_error (a_ents a) i1 = Some h1 -> nth_error (a_ents a) i2 = Some h2 -> fst h1 = fst h2 -> i1 = i2.
Proof.
  intros HG N1 N2 Ha H1 H2 E.
  destruct (g_arch_members HG ai a i1 h1 N1 Ha H1) as (k1 & _ & _ & _ & L1).
  destruct (g_arch_members HG ai a i2 h2 N2 Ha H2) as (k2 & _ & _ & _ & L2).
  rewrite E in L1. rewrite L1 in L2. inversion L2. reflexivity.
Qed.

(* ---- Archetype::remove ---- *)
Lemma arch_remove_facts s hs al rem ai a idx i v s1 :
  G s hs al rem -> nth_error (archs s) ai = Some a -> nth_error (a_ents a) idx = Some (i, v) ->
  arch_remove s ai idx (i, v) = Ok s1 ->
  slots s1 = slots s /\ next_slot s1 = next_slot s /\ empty_slots s1 = empty_slots s /\ same_ctl s s1 /\
  exists ents', archs s1 = upd (archs s) ai {| a_key := a_key a; a_ents := ents' |} /\
    length (locs s1) = length (locs s) /\
    (forall idx' h', nth_error ents' idx' = Some h' ->
       h' <> (i, v) /\ In h' (a_ents a) /\ nth_error (locs s1) (N.to_nat (fst h')) = Some {| l_arch := Some ai; l_idx := idx' |}) /\
    (forall h', In h' (a_ents a) -> h' <> (i, v) -> In h' ents') /\
    (forall j, (forall h', In h' (a_ents a) -> N.to_nat (fst h') <> j) -> nth_error (locs s1) j = nth_error (locs s) j).
Proof.
  intros HG Harch Hent H. unfold arch_remove in H. rewrite (nth_res_some _ _ _ Harch) in H. simpl in H.
  assert (Hidx : idx < length (a_ents a)) by (apply nth_error_Some; congruence).
  assert (Hloc_of : forall p h, nth_error (a_ents a) p = Some h ->
            nth_error (locs s) (N.to_nat (fst h)) = Some {| l_arch := Some ai; l_idx := p |}).
  { intros p h Hp. destruct (g_arch_members HG ai a p h (noex_no _ _) Harch Hp) as (k & _ & _ & _ & L). exact L. }
  assert (Hpos : forall p q h1 h2, nth_error (a_ents a) p = Some h1 -> nth_error (a_ents a) q = Some h2 -> fst h1 = fst h2 -> p = q).
  { intros p q h1 h2 Hp Hq E. eapply (members_ids s hs al rem ai a p q h1 h2); eauto using noex_no. }
  destruct (length (a_ents a)) as [|last] eqn:El; [lia|].
  destruct (Nat.eqb_spec idx last) as [->|Hne].
  - (* the last member *)
    unfold update_location in H. apply bind_ok in H. destruct H as (ls & Hu & Hs). inversion Hs; subst s1; clear Hs.
    apply upd_res_ok in Hu. simpl in Hu. destruct Hu as (Hlt & ->). simpl.
    split; [reflexivity|]. split; [reflexivity|]. split; [reflexivity|]. split; [unfold same_ctl; simpl; auto|].
    exists (removelast (a_ents a)). split; [reflexivity|]. split; [apply upd_length|].
    assert (Hrl : forall p h, nth_error (removelast (a_ents a)) p = Some h -> p < last /\ nth_error (a_ents a) p = Some h).
    { intros p h Hp. assert (p < last).
      { assert (p < length (removelast (a_ents a))) by (apply nth_error_Some; congruence). rewrite removelast_length, El in H. simpl in H. exact H. }
      split; [assumption|]. rewrite nth_error_removelast in Hp by (rewrite El; simpl; assumption). exact Hp. }
    split; [|split].
    + intros p h Hp. destruct (Hrl p h Hp) as (Hlt' & Hp').
      assert (Hne : fst h <> i).
      { intros E. assert (p = last) by (eapply Hpos; eauto). lia. }
      split; [intros E; apply Hne; rewrite E; reflexivity|]. split; [eapply nth_error_In; eassumption|].
      rewrite nth_error_upd_other by (simpl; intros E; apply Hne; apply N2Nat.inj; auto). apply Hloc_of. assumption.
    + intros h Hin Hne. apply In_nth_error in Hin. destruct Hin as (p & Hp).
      assert (p < S last) by (rewrite <- El; apply nth_error_Some; congruence).
      assert (p <> last) by (intros ->; rewrite Hent in Hp; inversion Hp; congruence).
      apply nth_error_In with p. rewrite nth_error_removelast by (rewrite El; simpl; lia). assumption.
    + intros j Hj. apply nth_error_upd_other. simpl. apply (Hj (i, v)). eapply nth_error_In. eassumption.
  - (* swap with the last member *)
    apply bind_ok in H. destruct H as (src & Hsrc & H). apply nth_res_ok in Hsrc.
    apply bind_ok in H. destruct H as (dst & Hdst & H). apply nth_res_ok in Hdst. rewrite Hent in Hdst. inversion Hdst; subst dst; clear Hdst.
    unfold update_location in H.
    apply bind_ok in H. destruct H as (s1' & H1 & H). apply bind_ok in H1. destruct H1 as (ls1 & Hu1 & Hs1). inversion Hs1; subst s1'; clear Hs1.
    apply bind_ok in H. destruct H as (s2' & H2 & H). apply bind_ok in H2. destruct H2 as (ls2 & Hu2 & Hs2). inversion Hs2; subst s2'; clear Hs2.
    inversion H; subst s1; clear H. simpl in *.
    apply upd_res_ok in Hu1. destruct Hu1 as (Hlt1 & ->). apply upd_res_ok in Hu2. destruct Hu2 as (Hlt2 & ->).
    split; [reflexivity|]. split; [reflexivity|]. split; [reflexivity|]. split; [unfold same_ctl; simpl; auto|].
    exists (removelast (upd (a_ents a) idx src)). split; [reflexivity|]. split; [rewrite !upd_length; reflexivity|].
    assert (Hsi : fst src <> i).
    { intros E. apply Hne. symmetry. eapply (Hpos last idx src (i, v)); eauto. }
    assert (Hrl : forall p h, nth_error (removelast (upd (a_ents a) idx src)) p = Some h ->
                   p < last /\ ((p = idx /\ h = src) \/ (p <> idx /\ nth_error (a_ents a) p = Some h))).
    { intros p h Hp. assert (p < last).
      { assert (p < length (removelast (upd (a_ents a) idx src))) by (apply nth_error_Some; congruence).
        rewrite removelast_length, upd_length, El in H. simpl in H. exact H. }
      split; [assumption|]. rewrite nth_error_removelast in Hp by (rewrite upd_length, El; simpl; assumption).
      rewrite nth_error_upd in Hp. destruct (Nat.eqb_spec idx p) as [->|Hnp]; simpl in Hp.
      - assert (Hb : (p <? length (a_ents a)) = true) by (apply Nat.ltb_lt; lia). rewrite Hb in Hp. inversion Hp. left. auto.
      - right. auto. }
    split; [|split].
    + intros p h Hp. destruct (Hrl p h Hp) as (Hlt' & [(-> & ->)|(Hnp & Hp')]).
      * split; [intros E; apply Hsi; rewrite E; reflexivity|]. split; [eapply nth_error_In; eassumption|].
        apply nth_error_upd_same. rewrite upd_length. rewrite upd_length in Hlt2. exact Hlt2.
      * assert (Hh_i : fst h <> i).
        { intros E. apply Hnp. eapply (Hpos p idx h (i, v)); eauto. }
        assert (Hh_s : fst h <> fst src).
        { intros E. assert (p = last) by (eapply (Hpos p last h src); eauto). lia. }
        split; [intros E; apply Hh_i; rewrite E; reflexivity|]. split; [eapply nth_error_In; eassumption|].
        rewrite nth_error_upd_other by (intros E; apply Hh_s; apply N2Nat.inj; auto).
        rewrite nth_error_upd_other by (simpl; intros E; apply Hh_i; apply N2Nat.inj; auto). apply Hloc_of. assumption.
    + intros h Hin Hneh. apply In_nth_error in Hin. destruct Hin as (p & Hp).
      assert (Hp_lt : p < S last) by (rewrite <- El; apply nth_error_Some; congruence).
      assert (p <> idx) by (intros ->; rewrite Hent in Hp; inversion Hp; congruence).
      destruct (Nat.eq_dec p last) as [->|Hpl].
      * (* the last member now sits at idx *)
        rewrite Hsrc in Hp. inversion Hp; subst h. apply nth_error_In with idx.
        rewrite nth_error_removelast by (rewrite upd_length, El; simpl; lia). apply nth_error_upd_same. lia.
      * apply nth_error_In with p. rewrite nth_error_removelast by (rewrite upd_length, El; simpl; lia).
        rewrite nth_error_upd_other by auto. assumption.
    + intros j Hj. rewrite nth_error_upd_other by (apply Hj; eapply nth_error_In; eassumption).
      apply nth_error_upd_other. simpl. apply (Hj (i, v)). eapply nth_error_In. eassumption.
Qed.

(* the version of an alive handle is bounded by the number of handles issued *)
Lemma alive_ver_bound {X} s hs al rem k key : GE X s hs al rem -> In (k, key) al -> (snd (hnd hs k) <= N.of_nat (length hs))%N.
Proof.
  intros HG Hin. destruct (g_alive HG k key Hin) as (Hlt & _ & Hs & _).
  apply (ver_le_count s hs al rem _ _ HG Hs). intros E. inversion E as [[E1 E2]].
  pose proof (g_hs_ver HG _ (nth_In_hnd hs k Hlt)) as Hb. rewrite E2 in Hb. unfold NULL_VER in Hb. lia.
Qed.

(* ---- destroyNow, unlocked ---- *)
Lemma G_destroy_now s s' hs al rem k :
  G s hs al rem -> k < length hs -> (N.of_nat (length hs) + 1 < NULL_VER)%N ->
  destroy_now_unlocked s (hnd hs k) = Ok s' ->
  G s' hs (kill al k) rem /\ same_ctl s s' /\ length (slots s') = length (slots s).
Proof.
  intros HG Hk Hv H. unfold destroy_now_unlocked in H.
  destruct (is_valid s (hnd hs k)) eqn:Ev.
  - apply (G_valid s hs al rem k HG Hk) in Ev. unfold alive in Ev. apply in_map_iff in Ev. destruct Ev as ((k0, key) & E0 & Hin). simpl in E0. subst k0.
    destruct (g_alive HG k key Hin) as (_ & HnW & Hslot & ai & idx & a & Hloc & Harch & Hkey & Hent).
    destruct (hnd hs k) as [i v] eqn:Eh. simpl in *.
    assert (Hvb : (v + 1 < NULL_VER)%N).
    { pose proof (alive_ver_bound s hs al rem k key HG Hin) as Hb. rewrite Eh in Hb. simpl in Hb. lia. }
    clear Hv. rename Hvb into Hv.
    rewrite (nth_res_some _ _ _ Hloc) in H. simpl in H.
    apply bind_ok in H. destruct H as (s1 & Hrm & H). inversion H; subst s'; clear H.
    destruct (arch_remove_facts s hs al rem ai a idx i v s1 HG Harch Hent Hrm) as (Es & En & Ee & Hctl & ents' & Ea & El & Hnew & Hkeep & Hother).
    assert (Hi : N.to_nat i < length (slots s)) by (apply nth_error_Some; congruence).
    assert (Hb : (N.to_nat i <? length (slots s1)) = true) by (rewrite Es; apply Nat.ltb_lt; assumption).
    split; [|split].
    + eapply (G_remove s (release_id s1 (i, v)) hs al rem k key i v ai idx a ents'); eauto.
      * unfold release_id. simpl. rewrite Hb, Es, Ee, En. rewrite ver_succ_nowrap by lia. reflexivity.
      * unfold release_id. simpl. rewrite Ee. reflexivity.
    + unfold same_ctl, release_id in *. simpl. assumption.
    + unfold release_id. simpl. rewrite Hb. rewrite upd_length. rewrite Es. reflexivity.
  - inversion H; subst s'. rewrite kill_not_alive; [auto using same_ctl_refl|].
    intros Ha. apply (G_valid s hs al rem k HG Hk) in Ha. congruence.
Qed.

(* ---- getArchetype ---- *)
Lemma get_arch_G s hs al rem key s1 ai :
  G s hs al rem -> get_arch s key = (s1, ai) ->
  G s1 hs al rem /\ (exists a, nth_error (archs s1) ai = Some a /\ a_key a = key) /\
  slots s1 = slots s /\ locs s1 = locs s /\ next_slot s1 = next_slot s /\ empty_slots s1 = empty_slots s /\ same_ctl s s1.
Proof.
  intros HG H. unfold get_arch in H. destruct (find_arch (archs s) key 0) as [i|] eqn:Ef.
  - inversion H; subst s1 ai. destruct (find_arch_some _ _ _ _ Ef) as (_ & a & Hn & Hk). rewrite Nat.sub_0_r in Hn.
    split; [assumption|]. split; [exists a; auto|]. repeat split.
  - inversion H; subst s1 ai. split; [apply G_new_arch; [assumption|apply (find_arch_none _ _ _ Ef)]|].
    split; [eexists; split; [simpl; apply nth_error_app_last|reflexivity]|]. repeat split.
Qed.

(* ---- creation, unlocked: createWithOutInit + Archetype::insert ---- *)
Lemma G_create s hs al ai a key s2 h s3 :
  G s hs al [] -> nth_error (archs s) ai = Some a -> a_key a = key ->
  (N.of_nat (length (slots s)) < NULL_ID)%N ->
  create_id s = Ok (s2, h) -> arch_insert s2 ai h = Ok s3 ->
  G s3 (hs ++ [h]) (al ++ [(length hs, key)]) [] /\ same_ctl s s3 /\ length (slots s3) <= S (length (slots s)) /\
  length (slots s) <= length (slots s3).
Proof.
  intros HG Harch Hkey Hid Hc Hi. pose proof (g_len HG) as Hlen. unfold create_id in Hc. destruct (empty_slots s) as [|e] eqn:Ee.
  - (* a fresh id *)
    inversion Hc; subst s2 h; clear Hc. unfold arch_insert in Hi. simpl in Hi. rewrite (nth_res_some _ _ _ Harch) in Hi. simpl in Hi.
    unfold update_location in Hi. apply bind_ok in Hi. destruct Hi as (ls & Hu & Hs). inversion Hs; subst s3; clear Hs.
    apply upd_res_ok in Hu. simpl in Hu. rewrite Nat2N.id in Hu. destruct Hu as (Hlt & ->).
    set (n := length (slots s)) in *.
    assert (Hother : forall {A} (l : list A) (x : A) j, length l = n -> j <> n -> nth_error (l ++ [x]) j = nth_error l j).
    { intros A l x j Hl Hj. destruct (Nat.lt_ge_cases j n) as [Hjl|Hjg]; [apply nth_error_app1; lia|].
      assert (E1 : nth_error (l ++ [x]) j = None) by (apply nth_error_None; rewrite app_length; simpl; lia).
      assert (E2 : nth_error l j = None) by (apply nth_error_None; lia). congruence. }
    split; [|split; [|split]].
    + eapply (G_add s _ hs al (N.of_nat n) 0%N ai a key HG); simpl; rewrite ?Nat2N.id.
      * rewrite upd_length, !app_length. simpl. lia.
      * rewrite app_length. simpl. unfold n. lia.
      * unfold n. apply nth_error_app_last.
      * intros j Hj. apply Hother; [reflexivity|assumption].
      * unfold W. simpl. rewrite Ee. constructor.
      * intros j. unfold W. simpl. rewrite Ee. simpl. tauto.
      * intros k Hk E. exfalso. pose proof (ids_in_range s hs al k HG Hk) as Hr. rewrite E, Nat2N.id in Hr. unfold n in Hr. lia.
      * assumption.
      * assumption.
      * reflexivity.
      * apply nth_error_upd_same. rewrite app_length. simpl. lia.
      * intros j Hj. rewrite nth_error_upd_other by congruence. apply Hother; assumption.
      * unfold NULL_VER. lia.
      * assumption.
      * intros w Hw. lia.
    + unfold same_ctl. simpl. auto.
    + simpl. rewrite app_length. simpl. lia.
    + simpl. rewrite app_length. simpl. lia.
  - (* a recycled id *)
    apply bind_ok in Hc. destruct Hc as (sl & Hsl & Hc). apply nth_res_ok in Hsl. simpl in Hc.
    apply bind_ok in Hc. destruct Hc as (ls & Hu & Hc). inversion Hc; subst s2 h; clear Hc.
    apply upd_res_ok in Hu. simpl in Hu. destruct Hu as (Hlt & ->).
    unfold arch_insert in Hi. simpl in Hi. rewrite (nth_res_some _ _ _ Harch) in Hi. simpl in Hi.
    unfold update_location in Hi. apply bind_ok in Hi. destruct Hi as (ls2 & Hu2 & Hs). inversion Hs; subst s3; clear Hs.
    apply upd_res_ok in Hu2. simpl in Hu2. destruct Hu2 as (Hlt2 & ->).
    set (i := next_slot s) in *.
    assert (Hi_lt : N.to_nat i < length (slots s)) by (apply nth_error_Some; congruence).
    assert (EW : W s = i :: walk e (s_id sl) (slots s)).
    { unfold W. rewrite Ee. rewrite walk_S. fold i. rewrite Hsl. reflexivity. }
    pose proof (g_free_nodup HG) as Hnd. rewrite EW in Hnd. inversion Hnd as [|x l Hni Hnd']; subst x l.
    assert (Hin_i : In i (W s)) by (rewrite EW; left; reflexivity).
    assert (Hver : (s_ver sl < NULL_VER)%N) by (apply (g_free_ver HG i sl Hin_i Hsl)).
    assert (EW' : walk e (s_id sl) (upd (slots s) (N.to_nat i) {| s_id := i; s_ver := s_ver sl |}) = walk e (s_id sl) (slots s)).
    { apply walk_upd. intros j Hj E. apply Hni. replace i with j; [assumption|apply N2Nat.inj; assumption]. }
    split; [|split; [|split]].
    + eapply (G_add s _ hs al i (s_ver sl) ai a key HG); simpl.
      * rewrite !upd_length. assumption.
      * rewrite upd_length. lia.
      * apply nth_error_upd_same. assumption.
      * intros j Hj. apply nth_error_upd_other. congruence.
      * unfold W. simpl. rewrite EW'. assumption.
      * intros j. unfold W at 1. simpl. rewrite EW', EW. simpl. split.
        -- intros Hj. split; [right; assumption|]. intros ->. contradiction.
        -- intros ([E|Hj] & Hne); [congruence|assumption].
      * intros k Hk E.
        assert (Hna : ~ alive al k).
        { intros Ha. unfold alive in Ha. apply in_map_iff in Ha. destruct Ha as ((k0, key0) & E0 & Hin). simpl in E0. subst k0.
          destruct (g_alive HG k key0 Hin) as (_ & HnW & _). apply HnW. rewrite E. assumption. }
        split; [|assumption].
        assert (Hnp : ~ pend [] k) by (intros (key0 & [])).
        destruct (g_dead HG k Hk Hna Hnp) as (sl' & Hs' & Hl'). rewrite E, Hsl in Hs'. inversion Hs'; subst sl'. assumption.
      * assumption.
      * assumption.
      * reflexivity.
      * apply nth_error_upd_same. rewrite upd_length. assumption.
      * intros j Hj. rewrite !nth_error_upd_other by congruence. reflexivity.
      * assumption.
      * apply N.lt_trans with (N.of_nat (length (slots s))); [|assumption]. lia.
      * intros w Hw. rewrite <- (N2Nat.id i). apply (g_hist HG (N.to_nat i) sl w Hsl); [|assumption].
        intros E. rewrite E in Hver. simpl in Hver. lia.
    + unfold same_ctl. simpl. auto.
    + simpl. rewrite upd_length. lia.
    + simpl. rewrite upd_length. lia.
Qed.

(* ---- clearArchetype ---- *)
Lemma GE_weaken {X Y : nat -> nat -> Prop} s hs al rem : (forall a i, X a i -> Y a i) -> GE X s hs al rem -> GE Y s hs al rem.
Proof.
  intros HXY HG. constructor;
    [apply (g_len HG)|apply (g_free_nodup HG)|apply (g_free_range HG)|apply (g_free_ver HG)|apply (g_hs_ver HG)|apply (g_hs_id HG)
    |apply (g_hs_nodup HG)|apply (g_al_nodup HG)|apply (g_alive HG)|apply (g_dead HG)|apply (g_pend HG)|apply (g_slots HG)
    |apply (g_arch_keys HG)| |apply (g_hist HG)].
  intros ai a idx h Hn. apply (g_arch_members HG). intros Hx. apply Hn. apply HXY. assumption.
Qed.

Lemma skipn_cons_nth {A} (l : list A) j h t : skipn j l = h :: t -> nth_error l j = Some h /\ skipn (S j) l = t.
Proof.
  revert j. induction l as [|x l IH]; intros [|j] H; simpl in *; try discriminate.
  - inversion H. auto.
  - apply IH. assumption.
Qed.

Lemma fold_kill_filter ks al : fold_left kill ks al = filter (fun p => negb (existsb (Nat.eqb (fst p)) ks)) al.
Proof.
  revert al. induction ks as [|k ks IH]; intros al; simpl.
  - symmetry. apply forallb_filter_id. apply forallb_forall. reflexivity.
  - rewrite IH. unfold kill. clear IH. induction al as [|p al IHal]; simpl; [reflexivity|].
    destruct (Nat.eqb_spec (fst p) k) as [E|E]; simpl.
    + assumption.
    + destruct (existsb (Nat.eqb (fst p)) ks); simpl; [assumption|f_equal; assumption].
Qed.

Lemma clear_loop ai a hs rem : forall rest j s al s',
  GE (exj ai j) s hs al rem -> nolive s hs al ai j -> nth_error (archs s) ai = Some a ->
  skipn j (a_ents a) = rest -> (N.of_nat (length hs) + 1 < NULL_VER)%N ->
  fold_res clear_one rest s = Ok s' ->
  exists ks, Forall2 (fun k h => hnd hs k = h /\ k < length hs) ks rest /\
    GE (exj ai (j + length rest)) s' hs (fold_left kill ks al) rem /\ nolive s' hs (fold_left kill ks al) ai (j + length rest) /\
    archs s' = archs s /\ same_ctl s s' /\ length (slots s') = length (slots s).
Proof.
  induction rest as [|h t IH]; intros j s al s' HG Hnl Harch Hskip Hcnt H.
  - simpl in H. inversion H; subst s'. exists []. rewrite Nat.add_0_r. simpl. split; [constructor|]. split; [assumption|]. split; [assumption|]. split; [reflexivity|]. split; [apply same_ctl_refl|reflexivity].
  - simpl in H. apply bind_ok in H. destruct H as (s1 & H1 & H).
    destruct (skipn_cons_nth _ _ _ _ Hskip) as (Hent & Hskip').
    destruct h as [i v].
    assert (Hnx : ~ exj ai j ai j) by (intros (_ & Hlt); lia).
    destruct (g_arch_members HG ai a j (i, v) Hnx Harch Hent) as (k & Hk & Hklt & Eh & Hloc). simpl in Hloc.
    assert (Hv : (v + 1 < NULL_VER)%N).
    { pose proof (alive_ver_bound s hs al rem k _ HG Hk) as Hb. rewrite Eh in Hb. simpl in Hb. lia. }
    (* what clear_one does *)
    unfold clear_one in H1. simpl in H1. rewrite (nth_res_some _ _ _ Hloc) in H1. simpl in H1.
    apply bind_ok in H1. destruct H1 as (ls & Hu & H1). apply upd_res_ok in Hu. destruct Hu as (Hlt & ->).
    apply bind_ok in H1. destruct H1 as (sl & Hu2 & H1). apply upd_res_ok in Hu2. simpl in Hu2. destruct Hu2 as (Hlt2 & ->).
    inversion H1; subst s1; clear H1.
    match type of H with fold_res clear_one t ?S1 = _ => set (s1 := S1) in * end.
    destruct (G_release_member s s1 hs al rem ai a j i v HG Harch Hent Hv) as (k' & Eh' & Hk'lt & HG1); unfold s1; simpl.
    + rewrite ver_succ_nowrap by lia. reflexivity.
    + reflexivity.
    + reflexivity.
    + reflexivity.
    + apply upd_length.
    + intros x Hx. apply nth_error_upd_other. congruence.
    + assert (k' = k) by (eapply (hnd_inj s hs al rem); eauto; congruence). subst k'.
      assert (Hnl1 : nolive s1 hs (kill al k) ai (S j)).
      { intros k2 key2 idx2 Hin2 Hloc2. apply kill_in in Hin2. destruct Hin2 as (Hin2 & Hne2).
        assert (Hne_i : fst (hnd hs k2) <> i).
        { intros E. apply Hne2. eapply (live_ids_distinct s hs al rem); eauto. rewrite Eh. exact E. }
        unfold s1 in Hloc2. simpl in Hloc2. rewrite nth_error_upd_other in Hloc2 by (intros E; apply Hne_i; apply N2Nat.inj; auto).
        pose proof (Hnl k2 key2 idx2 Hin2 Hloc2) as Hle.
        destruct (Nat.eq_dec idx2 j) as [->|Hnj]; [|lia]. exfalso.
        destruct (g_alive HG k2 key2 Hin2) as (Hk2lt & _ & _ & ai2 & idx3 & a2 & Hl2 & Ha2 & _ & He2).
        rewrite Hloc2 in Hl2. inversion Hl2; subst ai2 idx3. rewrite Harch in Ha2. inversion Ha2; subst a2.
        rewrite Hent in He2. inversion He2 as [E2]. apply Hne2. eapply (hnd_inj s hs al rem); eauto. congruence. }
      destruct (IH (S j) s1 (kill al k) s' HG1 Hnl1) as (ks & Hks & HG2 & Hnl2 & Ea & Hctl & Hlen); try assumption.
      exists (k :: ks). cbn [fold_left length]. replace (j + S (length t)) with (S j + length t) by lia.
      split; [constructor; auto|]. split; [assumption|]. split; [assumption|]. split; [rewrite Ea; reflexivity|].
      split; [|rewrite Hlen; unfold s1; simpl; rewrite upd_length; reflexivity].
      eapply same_ctl_trans; [|eassumption]. unfold same_ctl, s1. simpl. auto.
Qed.

Lemma al_key_unique (al : list (nat * N)) k x y : NoDup (map fst al) -> In (k, x) al -> In (k, y) al -> x = y.
Proof.
  induction al as [|[a b] t IH]; simpl; intros Hnd H1 H2; [contradiction|]. inversion Hnd as [|? ? Hni Hnd']; subst.
  destruct H1 as [E1|H1], H2 as [E2|H2].
  - congruence.
  - inversion E1; subst. exfalso. apply Hni. apply in_map_iff. exists (k, y). auto.
  - inversion E2; subst. exfalso. apply Hni. apply in_map_iff. exists (k, x). auto.
  - apply IH; assumption.
Qed.

Lemma arch_key_index (l : list arch) i j a b :
  NoDup (map a_key l) -> nth_error l i = Some a -> nth_error l j = Some b -> a_key a = a_key b -> i = j.
Proof.
  intros Hnd Ha Hb E. apply (proj1 (NoDup_nth_error (map a_key l)) Hnd).
  - rewrite map_length. apply nth_error_Some. congruence.
  - rewrite (map_nth_error a_key _ _ Ha), (map_nth_error a_key _ _ Hb). congruence.
Qed.

Lemma Forall2_in_r {A B} (R : A -> B -> Prop) la lb b : Forall2 R la lb -> In b lb -> exists a, In a la /\ R a b.
Proof. induction 1 as [|x y la lb Hxy HF IH]; simpl; intros Hin; [contradiction|]. destruct Hin as [<-|Hin]; [exists x; auto|]. destruct (IH Hin) as (a & Ha & Hr). exists a. auto. Qed.
Lemma Forall2_in_l {A B} (R : A -> B -> Prop) la lb a : Forall2 R la lb -> In a la -> exists b, In b lb /\ R a b.
Proof. induction 1 as [|x y la lb Hxy HF IH]; simpl; intros Hin; [contradiction|]. destruct Hin as [<-|Hin]; [exists y; auto|]. destruct (IH Hin) as (b & Hb & Hr). exists b. auto. Qed.

Lemma G_clear_arch s s' hs al rem ai a :
  G s hs al rem -> nth_error (archs s) ai = Some a -> (N.of_nat (length hs) + 1 < NULL_VER)%N ->
  clear_arch s ai = Ok s' ->
  G s' hs (filter (fun p => negb (N.eqb (snd p) (a_key a))) al) rem /\ same_ctl s s' /\ length (slots s') = length (slots s).
Proof.
  intros HG Harch Hcnt H. unfold clear_arch in H. rewrite (nth_res_some _ _ _ Harch) in H. simpl in H.
  apply bind_ok in H. destruct H as (s1 & Hf & H). inversion H; subst s'; clear H.
  assert (HG0 : GE (exj ai 0) s hs al rem) by (apply (GE_weaken s hs al rem (X := noex)); [intros ? ? []|assumption]).
  assert (Hnl0 : nolive s hs al ai 0) by (intros ? ? ? ? ?; lia).
  destruct (clear_loop ai a hs rem (a_ents a) 0 s al s1 HG0 Hnl0 Harch eq_refl Hcnt Hf) as (ks & Hks & HG1 & Hnl1 & Ea & Hctl & Hlen).
  simpl in HG1, Hnl1.
  assert (Harch1 : nth_error (archs s1) ai = Some a) by (rewrite Ea; assumption).
  pose proof (G_clear_list s1 hs _ rem ai a HG1 Hnl1 Harch1) as HG2.
  assert (Eal : fold_left kill ks al = filter (fun p => negb (N.eqb (snd p) (a_key a))) al).
  { rewrite fold_kill_filter. apply filter_ext_in. intros [k key] Hin. simpl. f_equal.
    destruct (N.eqb_spec key (a_key a)) as [->|Hne].
    - (* alive with the key of a: located in ai, hence one of the released members *)
      destruct (g_alive HG k (a_key a) Hin) as (Hklt & _ & _ & ai' & idx & a' & _ & Ha' & Hk' & He').
      assert (ai' = ai) by (eapply arch_key_index; eauto using (g_arch_keys HG)). subst ai'.
      rewrite Harch in Ha'. inversion Ha'; subst a'.
      destruct (Forall2_in_r _ _ _ _ Hks (nth_error_In _ _ He')) as (k2 & Hk2 & E2 & Hk2lt).
      assert (k2 = k) by (eapply (hnd_inj s hs al rem); eauto). subst k2.
      apply existsb_exists. exists k. split; [assumption|apply Nat.eqb_refl].
    - apply not_true_is_false. intros Hex. apply existsb_exists in Hex. destruct Hex as (k2 & Hk2 & E2). apply Nat.eqb_eq in E2. subst k2.
      destruct (Forall2_in_l _ _ _ _ Hks Hk2) as (h & Hh & Eh & Hklt).
      apply In_nth_error in Hh. destruct Hh as (idx & Hidx).
      destruct (g_arch_members HG ai a idx h (noex_no _ _) Harch Hidx) as (k' & Hin' & Hk'lt & Eh' & _).
      assert (k' = k) by (eapply (hnd_inj s hs al rem); eauto; congruence). subst k'.
      apply Hne. eapply al_key_unique; eauto using (g_al_nodup HG). }
  rewrite <- Eal. rewrite Ea. split; [rewrite Ea in HG2; exact HG2|]. split; [|simpl; assumption].
  unfold same_ctl in *. simpl. assumption.
Qed.

(* ---- update(): the deferred destroys, through the checked path ---- *)
Lemma is_valid_null s : is_valid s null_handle = false.
Proof. unfold is_valid. replace (is_null null_handle) with true by (vm_compute; reflexivity). reflexivity. Qed.

Lemma filter_filter {A} (f g : A -> bool) l : filter g (filter f l) = filter (fun x => f x && g x) l.
Proof. induction l as [|x l IH]; simpl; [reflexivity|]. destruct (f x); simpl; [destruct (g x); simpl; congruence|assumption]. Qed.

Definition not_in_marked (hs : list handle) (m : list handle) (p : nat * N) : bool :=
  forallb (fun h => negb (handle_eqb (hnd hs (fst p)) h)) m.

Lemma kill_as_handle_filter {X} s hs al rem k : GE X s hs al rem -> k < length hs ->
  kill al k = filter (fun p => negb (handle_eqb (hnd hs (fst p)) (hnd hs k))) al.
Proof.
  intros HG Hk. unfold kill. apply filter_ext_in. intros [k' key] Hin. simpl. f_equal.
  destruct (g_alive HG k' key Hin) as (Hk' & _).
  destruct (Nat.eqb_spec k' k) as [->|Hne].
  - symmetry. apply handle_eqb_eq. reflexivity.
  - symmetry. apply not_true_is_false. intros E. apply handle_eqb_eq in E. apply Hne. eapply (hnd_inj s hs al rem); eauto.
Qed.

Lemma alive_not_null {X} s hs al rem k key : GE X s hs al rem -> In (k, key) al -> hnd hs k <> null_handle.
Proof.
  intros HG Hin E. destruct (g_alive HG k key Hin) as (Hk & _). pose proof (g_hs_ver HG _ (nth_In_hnd hs k Hk)) as Hv.
  rewrite E in Hv. simpl in Hv. unfold NULL_VER in Hv. lia.
Qed.

Lemma G_destroy_list hs rem : forall m s al s',
  G s hs al rem -> (N.of_nat (length hs) + 1 < NULL_VER)%N ->
  (forall h, In h m -> h = null_handle \/ exists k, k < length hs /\ hnd hs k = h) ->
  fold_res destroy_now_unlocked m s = Ok s' ->
  G s' hs (filter (not_in_marked hs m) al) rem /\ same_ctl s s' /\ length (slots s') = length (slots s).
Proof.
  induction m as [|h t IH]; intros s al s' HG Hcnt Hm H.
  - simpl in H. inversion H; subst s'. unfold not_in_marked. simpl. rewrite forallb_filter_id by (apply forallb_forall; reflexivity).
    auto using same_ctl_refl.
  - simpl in H. apply bind_ok in H. destruct H as (s1 & H1 & H).
    assert (Hstep : exists al1, G s1 hs al1 rem /\ same_ctl s s1 /\ length (slots s1) = length (slots s) /\
                      al1 = filter (fun p => negb (handle_eqb (hnd hs (fst p)) h)) al).
    { destruct (Hm h (or_introl eq_refl)) as [->|(k & Hk & <-)].
      - unfold destroy_now_unlocked in H1. rewrite is_valid_null in H1. inversion H1; subst s1.
        exists al. split; [assumption|]. split; [apply same_ctl_refl|]. split; [reflexivity|].
        symmetry. apply forallb_filter_id. apply forallb_forall. intros [k key] Hin. simpl. apply negb_true_iff.
        apply not_true_is_false. intros E. apply handle_eqb_eq in E. eapply alive_not_null; eauto.
      - destruct (G_destroy_now s s1 hs al rem k HG Hk Hcnt H1) as (HG1 & Hctl & Hlen).
        exists (kill al k). split; [assumption|]. split; [assumption|]. split; [assumption|].
        eapply kill_as_handle_filter; eauto. }
    destruct Hstep as (al1 & HG1 & Hctl1 & Hlen1 & ->).
    destruct (IH s1 _ s' HG1 Hcnt (fun h' Hh' => Hm h' (or_intror Hh')) H) as (HG2 & Hctl2 & Hlen2).
    rewrite filter_filter in HG2. split; [|split; [eapply same_ctl_trans; eassumption|congruence]].
    unfold not_in_marked in *. simpl. exact HG2.
Qed.
