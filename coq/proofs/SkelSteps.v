(* Preservation of the invariant G by the unlocked operations of the Skeleton: destroyNow, creation,
   clearArchetype (C01). *)
Require Import Coq.Lists.List Coq.NArith.NArith Coq.Arith.Arith Coq.Bool.Bool Coq.micromega.Lia.
From Mustache Require Import Res Skeleton SkelSpec.
From Mustache.proofs Require Import ListLemmas SkelBasics SkelInv.
Import ListNotations.

Lemma bind_ok {A B} (r : res A) (f : A -> res B) b : bind r f = Ok b -> exists a, r = Ok a /\ f a = Ok b.
Proof. destruct r as [a|e]; simpl; intros H; [exists a; auto|discriminate]. Qed.

(* the fields no structural primitive touches *)
Definition same_ctl (s s' : st) : Prop :=
  lockc s' = lockc s /\ next_eid s' = next_eid s /\ bufs s' = bufs s /\ marked s' = marked s /\ nthreads s' = nthreads s.

Lemma same_ctl_refl s : same_ctl s s.
Proof. repeat split. Qed.
Lemma same_ctl_trans a b c : same_ctl a b -> same_ctl b c -> same_ctl a c.
Proof. unfold same_ctl. intros (A1 & A2 & A3 & A4 & A5) (B1 & B2 & B3 & B4 & B5). repeat split; congruence. Qed.

Lemma kill_not_alive al k : ~ alive al k -> kill al k = al.
Proof.
  unfold alive, kill. induction al as [|[a b] t IH]; simpl; intros H; [reflexivity|].
  destruct (Nat.eqb_spec a k) as [->|Hne]; simpl; [exfalso; apply H; left; reflexivity|]. f_equal. apply IH. intros Hin. apply H. right. assumption.
Qed.

(* ---- positions and ids of the members of one archetype ---- *)
Lemma members_ids {X} s hs al rem ai a i1 i2 h1 h2 :
  GE X s hs al rem -> ~ X ai i1 -> ~ X ai i2 -> nth_error (archs s) ai = Some a ->
  nth_error (a_ents a) i1 = Some h1 -> nth_error (a_ents a) i2 = Some h2 -> fst h1 = fst h2 -> i1 = i2.
Proof.
  intros HG N1 N2 Ha H1 H2 E.
  destruct (g_arch_members HG ai a i1 h1 N1 Ha H1) as (k1 & _ & _ & _ & L1).
  destruct (g_arch_members HG ai a i2 h2 N2 Ha H2) as (k2 & _ & _ & _ & L2).
  rewrite E in L1. rewrite L1 in L2. inversion L2. reflexivity.
Qed.

(* ---- Archetype::remove ---- *)
Lemma arch_remove_facts s hs al rem ai a idx i v s1 :
  G s hs al rem -> nth_error (archs s) ai = Some a -> nth_error (a_ents a) idx = Some (i, v) ->
  arch_remove s ai idx (i, v) = Ok s1 ->
  slots s1 = slots s /\ next_slot s1 = next_slot s /\ empty_slots s1 = empty_slots s /\ same_ctl s s1 /\
  exists ents', archs s1 = upd (archs s) ai {| a_key := a_key a; a_ents := ents' |} /\
    length (locs s1) = length (locs s) /\
    (forall idx' h', nth_error ents' idx' = Some h' ->
       h' <> (i, v) /\ In h' (a_ents a) /\ nth_error (locs s1) (N.to_nat (fst h')) = Some {| l_arch := Some ai; l_idx := idx' |}) /\
    (forall h', In h' (a_ents a) -> h' <> (i, v) -> In h' ents') /\
    (forall j, (forall h', In h' (a_ents a) -> N.to_nat (fst h') <> j) -> nth_error (locs s1) j = nth_error (locs s) j).
Proof.
  intros HG Harch Hent H. unfold arch_remove in H. rewrite (nth_res_some _ _ _ Harch) in H. simpl in H.
  assert (Hidx : idx < length (a_ents a)) by (apply nth_error_Some; congruence).
  assert (Hloc_of : forall p h, nth_error (a_ents a) p = Some h ->
            nth_error (locs s) (N.to_nat (fst h)) = Some {| l_arch := Some ai; l_idx := p |}).
  { intros p h Hp. destruct (g_arch_members HG ai a p h (noex_no _ _) Harch Hp) as (k & _ & _ & _ & L). exact L. }
  assert (Hpos : forall p q h1 h2, nth_error (a_ents a) p = Some h1 -> nth_error (a_ents a) q = Some h2 -> fst h1 = fst h2 -> p = q).
  { intros p q h1 h2 Hp Hq E. eapply (members_ids s hs al rem ai a p q h1 h2); eauto using noex_no. }
  destruct (length (a_ents a)) as [|last] eqn:El; [lia|].
  destruct (Nat.eqb_spec idx last) as [->|Hne].
  - (* the last member *)
    unfold update_location in H. apply bind_ok in H. destruct H as (ls & Hu & Hs). inversion Hs; subst s1; clear Hs.
    apply upd_res_ok in Hu. simpl in Hu. destruct Hu as (Hlt & ->). simpl.
    split; [reflexivity|]. split; [reflexivity|]. split; [reflexivity|]. split; [unfold same_ctl; simpl; auto|].
    exists (removelast (a_ents a)). split; [reflexivity|]. split; [apply upd_length|].
    assert (Hrl : forall p h, nth_error (removelast (a_ents a)) p = Some h -> p < last /\ nth_error (a_ents a) p = Some h).
    { intros p h Hp. assert (p < last).
      { assert (p < length (removelast (a_ents a))) by (apply nth_error_Some; congruence). rewrite removelast_length, El in H. simpl in H. exact H. }
      split; [assumption|]. rewrite nth_error_removelast in Hp by (rewrite El; simpl; assumption). exact Hp. }
    split; [|split].
    + intros p h Hp. destruct (Hrl p h Hp) as (Hlt' & Hp').
      assert (Hne : fst h <> i).
      { intros E. assert (p = last) by (eapply Hpos; eauto). lia. }
      split; [intros E; apply Hne; rewrite E; reflexivity|]. split; [eapply nth_error_In; eassumption|].
      rewrite nth_error_upd_other by (simpl; intros E; apply Hne; apply N2Nat.inj; auto). apply Hloc_of. assumption.
    + intros h Hin Hne. apply In_nth_error in Hin. destruct Hin as (p & Hp).
      assert (p < S last) by (rewrite <- El; apply nth_error_Some; congruence).
      assert (p <> last) by (intros ->; rewrite Hent in Hp; inversion Hp; congruence).
      apply nth_error_In with p. rewrite nth_error_removelast by (rewrite El; simpl; lia). assumption.
    + intros j Hj. apply nth_error_upd_other. simpl. apply (Hj (i, v)). eapply nth_error_In. eassumption.
  - (* swap with the last member *)
    apply bind_ok in H. destruct H as (src & Hsrc & H). apply nth_res_ok in Hsrc.
    apply bind_ok in H. destruct H as (dst & Hdst & H). apply nth_res_ok in Hdst. rewrite Hent in Hdst. inversion Hdst; subst dst; clear Hdst.
    unfold update_location in H.
    apply bind_ok in H. destruct H as (s1' & H1 & H). apply bind_ok in H1. destruct H1 as (ls1 & Hu1 & Hs1). inversion Hs1; subst s1'; clear Hs1.
    apply bind_ok in H. destruct H as (s2' & H2 & H). apply bind_ok in H2. destruct H2 as (ls2 & Hu2 & Hs2). inversion Hs2; subst s2'; clear Hs2.
    inversion H; subst s1; clear H. simpl in *.
    apply upd_res_ok in Hu1. destruct Hu1 as (Hlt1 & ->). apply upd_res_ok in Hu2. destruct Hu2 as (Hlt2 & ->).
    split; [reflexivity|]. split; [reflexivity|]. split; [reflexivity|]. split; [unfold same_ctl; simpl; auto|].
    exists (removelast (upd (a_ents a) idx src)). split; [reflexivity|]. split; [rewrite !upd_length; reflexivity|].
    assert (Hsi : fst src <> i).
    { intros E. apply Hne. symmetry. eapply (Hpos last idx src (i, v)); eauto. }
    assert (Hrl : forall p h, nth_error (removelast (upd (a_ents a) idx src)) p = Some h ->
                   p < last /\ ((p = idx /\ h = src) \/ (p <> idx /\ nth_error (a_ents a) p = Some h))).
    { intros p h Hp. assert (p < last).
      { assert (p < length (removelast (upd (a_ents a) idx src))) by (apply nth_error_Some; congruence).
        rewrite removelast_length, upd_length, El in H. simpl in H. exact H. }
      split; [assumption|]. rewrite nth_error_removelast in Hp by (rewrite upd_length, El; simpl; assumption).
      rewrite nth_error_upd in Hp. destruct (Nat.eqb_spec idx p) as [->|Hnp]; simpl in Hp.
      - assert (Hb : (p <? length (a_ents a)) = true) by (apply Nat.ltb_lt; lia). rewrite Hb in Hp. inversion Hp. left. auto.
      - right. auto. }
    split; [|split].
    + intros p h Hp. destruct (Hrl p h Hp) as (Hlt' & [(-> & ->)|(Hnp & Hp')]).
      * split; [intros E; apply Hsi; rewrite E; reflexivity|]. split; [eapply nth_error_In; eassumption|].
        apply nth_error_upd_same. rewrite upd_length. rewrite upd_length in Hlt2. exact Hlt2.
      * assert (Hh_i : fst h <> i).
        { intros E. apply Hnp. eapply (Hpos p idx h (i, v)); eauto. }
        assert (Hh_s : fst h <> fst src).
        { intros E. assert (p = last) by (eapply (Hpos p last h src); eauto). lia. }
        split; [intros E; apply Hh_i; rewrite E; reflexivity|]. split; [eapply nth_error_In; eassumption|].
        rewrite nth_error_upd_other by (intros E; apply Hh_s; apply N2Nat.inj; auto).
        rewrite nth_error_upd_other by (simpl; intros E; apply Hh_i; apply N2Nat.inj; auto). apply Hloc_of. assumption.
    + intros h Hin Hneh. apply In_nth_error in Hin. destruct Hin as (p & Hp).
      assert (Hp_lt : p < S last) by (rewrite <- El; apply nth_error_Some; congruence).
      assert (p <> idx) by (intros ->; rewrite Hent in Hp; inversion Hp; congruence).
      destruct (Nat.eq_dec p last) as [->|Hpl].
      * (* the last member now sits at idx *)
        rewrite Hsrc in Hp. inversion Hp; subst h. apply nth_error_In with idx.
        rewrite nth_error_removelast by (rewrite upd_length, El; simpl; lia). apply nth_error_upd_same. lia.
      * apply nth_error_In with p. rewrite nth_error_removelast by (rewrite upd_length, El; simpl; lia).
        rewrite nth_error_upd_other by auto. assumption.
    + intros j Hj. rewrite nth_error_upd_other by (apply Hj; eapply nth_error_In; eassumption).
      apply nth_error_upd_other. simpl. apply (Hj (i, v)). eapply nth_error_In. eassumption.
Qed.

(* ---- destroyNow, unlocked ---- *)
Lemma G_destroy_now s s' hs al rem k :
  G s hs al rem -> k < length hs -> (snd (hnd hs k) + 1 < NULL_VER)%N ->
  destroy_now_unlocked s (hnd hs k) = Ok s' ->
  G s' hs (kill al k) rem /\ same_ctl s s' /\ length (slots s') = length (slots s).
Proof.
  intros HG Hk Hv H. unfold destroy_now_unlocked in H.
  destruct (is_valid s (hnd hs k)) eqn:Ev.
  - apply (G_valid s hs al rem k HG Hk) in Ev. unfold alive in Ev. apply in_map_iff in Ev. destruct Ev as ((k0, key) & E0 & Hin). simpl in E0. subst k0.
    destruct (g_alive HG k key Hin) as (_ & HnW & Hslot & ai & idx & a & Hloc & Harch & Hkey & Hent).
    destruct (hnd hs k) as [i v] eqn:Eh. simpl in *.
    rewrite (nth_res_some _ _ _ Hloc) in H. simpl in H.
    apply bind_ok in H. destruct H as (s1 & Hrm & H). inversion H; subst s'; clear H.
    destruct (arch_remove_facts s hs al rem ai a idx i v s1 HG Harch Hent Hrm) as (Es & En & Ee & Hctl & ents' & Ea & El & Hnew & Hkeep & Hother).
    assert (Hi : N.to_nat i < length (slots s)) by (apply nth_error_Some; congruence).
    assert (Hb : (N.to_nat i <? length (slots s1)) = true) by (rewrite Es; apply Nat.ltb_lt; assumption).
    split; [|split].
    + eapply (G_remove s (release_id s1 (i, v)) hs al rem k key i v ai idx a ents'); eauto.
      * unfold release_id. simpl. rewrite Hb, Es, Ee, En. rewrite ver_succ_nowrap by lia. reflexivity.
      * unfold release_id. simpl. rewrite Ee. reflexivity.
    + unfold same_ctl, release_id in *. simpl. assumption.
    + unfold release_id. simpl. rewrite Hb. rewrite upd_length. rewrite Es. reflexivity.
  - inversion H; subst s'. rewrite kill_not_alive; [auto using same_ctl_refl|].
    intros Ha. apply (G_valid s hs al rem k HG Hk) in Ha. congruence.
Qed.
