(* Totality of the Manager run on in-contract scripts over the unlocked alphabet WITH dependency declarations (C13):
   inside the contract, for component ids that have a description, the model never returns Err.
   New with respect to ManagerTotal.v: the fixpoint loop of EntityManager::getExtraComponents (Manager.extra_loop,
   fuel 130) always converges -- each round that does not stop adds at least one of the 128 possible component ids --
   so Err OutOfFuel is unreachable; and every component id the closure adds is one a declaration named, hence has a
   description when the declarations name described ids only (reg_d). *)
Require Import Coq.Lists.List Coq.NArith.NArith Coq.ZArith.ZArith Coq.Arith.Arith Coq.Bool.Bool Coq.micromega.Lia.
From Mustache Require Import Res Manager MgrSpec Refine.
From Mustache Require Skeleton.
From Mustache Require Import SkelSpec.
From Mustache.proofs Require Import ListLemmas SkelBasics SkelInv SkelSteps SkelMove SkelMain ClosureProofs
  ManagerBasics ManagerMoves ManagerProj ManagerInv ManagerMain ManagerWorlds ManagerTotal DepsFrame DepsClosure DepsInv DepsMain.
Import ListNotations.

(* ---------------------------------------------------------------------------------------- *)
(* the number of component ids of a mask grows strictly with the mask *)
Lemma filter_len_mono {A} (f g : A -> bool) l :
  (forall x, In x l -> f x = true -> g x = true) -> length (filter f l) <= length (filter g l).
Proof.
  induction l as [|a t IH]; intros H; simpl; [lia|].
  assert (IH' : length (filter f t) <= length (filter g t)) by (apply IH; intros x Hx; apply H; right; exact Hx).
  pose proof (H a (or_introl eq_refl)) as Ha. destruct (f a).
  - rewrite (Ha eq_refl). simpl. lia.
  - destruct (g a); simpl; lia.
Qed.

Lemma filter_len_eq {A} (f g : A -> bool) l :
  (forall x, In x l -> f x = true -> g x = true) -> length (filter f l) = length (filter g l) ->
  forall x, In x l -> f x = g x.
Proof.
  induction l as [|a t IH]; intros H E x Hx; [contradiction|]. simpl in E.
  assert (Ht : forall y, In y t -> f y = true -> g y = true) by (intros y Hy; apply H; right; exact Hy).
  pose proof (filter_len_mono f g t Ht) as Hm.
  pose proof (H a (or_introl eq_refl)) as Ha.
  destruct (f a) eqn:Ef.
  - rewrite (Ha eq_refl) in E. simpl in E. destruct Hx as [<-|Hx]; [rewrite Ef; symmetry; apply Ha; reflexivity|].
    apply IH; [exact Ht|lia|exact Hx].
  - destruct (g a) eqn:Eg.
    + simpl in E. lia.
    + destruct Hx as [<-|Hx]; [congruence|]. apply IH; [exact Ht|exact E|exact Hx].
Qed.

Lemma mcount_le m : mcount m <= MASK_BITS.
Proof. unfold mcount, mitems. rewrite <- (seq_length MASK_BITS 0) at 2. apply filter_length_le. Qed.

Lemma mcount_lt r r' : sub r r' -> lowm r' -> r <> r' -> mcount r < mcount r'.
Proof.
  intros Hs Hl Hne. unfold mcount, mitems.
  pose proof (filter_len_mono (mhas r) (mhas r') (seq 0 MASK_BITS) (fun x _ => Hs x)) as Hm.
  destruct (Nat.eq_dec (length (filter (mhas r) (seq 0 MASK_BITS))) (length (filter (mhas r') (seq 0 MASK_BITS)))) as [E|E]; [|lia].
  exfalso. apply Hne. apply meq_eq. intros c.
  destruct (Nat.lt_ge_cases c MASK_BITS) as [Hlt|Hge].
  - apply (filter_len_eq _ _ _ (fun x _ => Hs x) E). apply in_seq. lia.
  - assert (E2 : mhas r' c = false).
    { destruct (mhas r' c) eqn:E2; [|reflexivity]. apply Hl in E2. lia. }
    rewrite E2. destruct (mhas r c) eqn:E1; [|reflexivity]. apply Hs in E1. congruence.
Qed.

(* one round of the loop stays inside the 128 bits *)
Lemma extra_round_lowm d cur result : dwf d -> lowm result -> lowm (extra_round d cur result).
Proof.
  intros (_ & Hf) Hr c Hc. apply extra_round_in in Hc. destruct Hc as [Hc|(c0 & dm & _ & Hd & Hx)]; [apply Hr; exact Hc|].
  rewrite Forall_forall in Hf. destruct (Hf _ (dep_find_in _ _ _ Hd)) as (_ & Hl). apply Hl. exact Hx.
Qed.

(* the fixpoint loop converges within its fuel *)
Lemma extra_loop_total d : dwf d -> forall fuel cur result,
  lowm result -> MASK_BITS - mcount result < fuel -> exists r, extra_loop fuel d cur result = Ok r.
Proof.
  intros Hd. induction fuel as [|f IH]; intros cur result Hl Hf; [lia|].
  rewrite extra_loop_S. destruct (N.eqb_spec result (extra_round d cur result)) as [E|E]; [eauto|].
  apply IH; [apply extra_round_lowm; assumption|].
  pose proof (mcount_lt result (extra_round d cur result) (extra_round_mono d cur result) (extra_round_lowm d cur result Hd Hl) E).
  pose proof (mcount_le (extra_round d cur result)). lia.
Qed.

Theorem extra_components_total s m : dwf (deps s) -> exists r, extra_components s m = Ok r.
Proof.
  intros Hd. unfold extra_components. destruct (deps s) as [|p t] eqn:Ed; [eauto|].
  apply extra_loop_total; [exact Hd|apply lowm_zero|]. pose proof (mcount_le 0%N). unfold MASK_BITS in *. lia.
Qed.

(* ---------------------------------------------------------------------------------------- *)
(* registered component ids *)
Definition rsub (n : nat) (m : mask) : Prop := forall c, mhas m c = true -> c < n.
Definition regmask (n : nat) : mask := N.ones (N.of_nat n).
Definition TR (n : nat) (d : list (nat * mask)) : Prop := Forall (fun p => rsub n (snd p)) d.

Lemma regmask_spec n c : mhas (regmask n) c = true <-> c < n.
Proof. unfold regmask, mhas. rewrite N.ones_spec_iff. lia. Qed.

Lemma rsub_mreg n m : rsub n m -> mreg n m.
Proof. intros H c Hc. apply mitems_in in Hc. apply H. tauto. Qed.

Lemma mreg_rsub n m : lowm m -> mreg n m -> rsub n m.
Proof. intros Hl H c Hc. apply H. apply mitems_in. split; [apply Hl|]; exact Hc. Qed.

Lemma rsub_union n a b : rsub n a -> rsub n b -> rsub n (munion a b).
Proof. intros Ha Hb c Hc. rewrite mhas_union in Hc. apply orb_true_iff in Hc. destruct Hc; auto. Qed.

Lemma rsub_madd n m c : rsub n m -> c < n -> rsub n (madd m c).
Proof. intros H Hc y Hy. rewrite mhas_madd in Hy. destruct (Nat.eqb_spec y c) as [E|_]; [rewrite E; exact Hc|]. apply H. exact Hy. Qed.

Lemma rsub_mdel n m c : rsub n m -> rsub n (mdel m c).
Proof. intros H y Hy. rewrite mhas_mdel in Hy. apply andb_true_iff in Hy. apply H. tauto. Qed.

Lemma TR_closed n d : TR n d -> closed d (regmask n).
Proof.
  intros H c dm _ Hf _ y Hy. apply regmask_spec. unfold TR in H. rewrite Forall_forall in H.
  apply (H _ (dep_find_in _ _ _ Hf)). exact Hy.
Qed.

Lemma extra_rsub s m ex n : TR n (deps s) -> rsub n m -> extra_components s m = Ok ex -> rsub n (munion m ex).
Proof.
  intros Ht Hm H. destruct (extra_components_least_fixpoint s m ex H) as (_ & _ & Hl).
  intros c Hc. apply regmask_spec. apply (Hl (regmask n) (TR_closed _ _ Ht)); [|exact Hc].
  intros y Hy. apply regmask_spec. apply Hm. exact Hy.
Qed.

Lemma TR_dep_set n : forall d c v, TR n d -> rsub n v -> TR n (dep_set d c v).
Proof.
  induction d as [|(k, w) t IH]; intros c v Hd Hv; simpl.
  - constructor; [exact Hv|constructor].
  - inversion Hd as [|? ? H0 Ht]; subst. destruct (Nat.eqb k c).
    + constructor; [exact Hv|exact Ht].
    + destruct (Nat.ltb c k); [constructor; [exact Hv|exact Hd]|constructor; [exact H0|apply IH; assumption]].
Qed.

(* ---------------------------------------------------------------------------------------- *)
(* getArchetype with a table *)
Lemma get_arch_eq_d s m sh ex : extra_components s m = Ok ex -> chunk_fns s = [] ->
  get_arch s m sh = Ok (match find_arch (archs s) (munion m ex) sh 0 with
                        | Some i => (s, i)
                        | None => (set_archs s (archs s ++ [new_arch (munion m ex) sh (def_chunk s)]), length (archs s))
                        end).
Proof.
  intros Hex Hf. unfold get_arch. rewrite Hex. cbn [bind].
  destruct (find_arch (archs s) (munion m ex) sh 0); [reflexivity|].
  unfold resolve_chunk. rewrite Hf. cbn [fold_left]. simpl. reflexivity.
Qed.

Lemma get_arch_TD cis s m : TI cis s -> dwf (deps s) -> TR (length cis) (deps s) -> rsub (length cis) m ->
  exists ex s1 ai, extra_components s m = Ok ex /\ get_arch s m si_null = Ok (s1, ai) /\ TI cis s1.
Proof.
  intros [Hch Hf Hta] Hd Ht Hm. destruct (extra_components_total s m Hd) as (ex & Hex). exists ex.
  rewrite (get_arch_eq_d s m si_null ex Hex Hf).
  destruct (find_arch (archs s) (munion m ex) si_null 0) as [i|]; eexists; eexists; (split; [exact Hex|]); (split; [reflexivity|]).
  - constructor; assumption.
  - constructor; try assumption. cbn [archs set_archs]. apply Forall_app. split; [exact Hta|].
    constructor; [|constructor]. split; [apply vwf_new; exact Hch|apply rsub_mreg; apply (extra_rsub s m ex _ Ht Hm Hex)].
Qed.

Lemma TI_nd cis s : TI cis s -> TI cis (nd s).
Proof. intros [A B C]. constructor; [exact A|exact B|exact C]. Qed.
Lemma TI_of_nd cis s : TI cis (nd s) -> TI cis s.
Proof. intros [A B C]. constructor; [exact A|exact B|exact C]. Qed.

Lemma deps_emit_if (b : bool) s e : deps (if b then emit s e else s) = deps s.
Proof. destruct b; reflexivity. Qed.

(* ---------------------------------------------------------------------------------------- *)
(* create *)
Lemma step_create_total_d cis s hs al x tid m via :
  DInv cis s hs al x -> TI cis s -> TR (length cis) (deps s) -> rsub (length cis) m ->
  exists s' h, step s (OCreate tid m [] via) = Ok (s', RHandle h) /\ TI cis s' /\ deps s' = deps s.
Proof.
  intros HD HT HR Hm. destruct (DInv_ctl _ _ _ _ _ HD) as (Hl & Hc & _).
  rewrite (step_create_unlocked _ _ _ _ Hl).
  destruct (get_arch_TD cis s m HT (di_dwf _ _ _ _ _ HD) HR Hm) as (ex & s1 & ai & Hex & Ega & HT1). rewrite Ega. cbn [bind].
  pose proof (get_arch_nd _ _ _ _ _ _ Hex Ega) as Ega'.
  destruct (MInv_get_arch cis (nd s) hs al (xnd x) (munion m ex) (nd s1) ai (di_M _ _ _ _ _ HD) Ega') as (HI1 & _ & _ & a & Ha' & _).
  assert (Ha : nth_error (archs s1) ai = Some a) by exact Ha'.
  assert (HG1 : G (proj s1) hs al []) by exact (mi_G _ _ _ _ _ HI1).
  assert (Hc1 : cinfos s1 = cis) by exact (mi_cis _ _ _ _ _ HI1).
  assert (Hawf1 : Forall awf (archs s1)) by exact (mi_awf _ _ _ _ _ HI1).
  destruct (create_id_total s1 hs al HG1) as (s2 & h & Ec & Hh). rewrite Ec. cbn [bind].
  destruct (create_id_frame _ _ _ Ec) as (A2 & F2). destruct (fr3_ctl _ _ F2) as (_ & _ & Eci & _).
  assert (Ha2 : nth_error (archs s2) ai = Some a) by (rewrite A2; exact Ha).
  destruct (arch_insert_total s2 ai a h 0%N (length cis) Ha2 (twf_nth _ _ _ _ (ti_archs _ _ HT1) Ha)) as (s3 & Ei & a3 & Ha3 & Ht3).
  { rewrite Eci, Hc1. reflexivity. }
  { exact Hh. }
  rewrite Ei. cbn [bind]. exists s3, h. split; [reflexivity|].
  destruct (arch_insert_ok _ _ _ _ _ _ Ha2 (proj2 (proj2 (awf_nth _ _ _ Hawf1 Ha))) Ei) as (a3' & F3 & A3 & _).
  assert (a3' = a3).
  { rewrite A3, nth_error_upd_same in Ha3 by (eapply nth_error_lt'; exact Ha2). congruence. }
  subst a3'. split.
  - apply (TI_upd cis s2 s3 ai a3); [|apply fr2_fr3; exact F3|exact A3|exact Ht3].
    destruct HT1 as [A B C]. destruct (fr3_ctl _ _ F2) as (_ & _ & _ & _ & _ & _ & _ & E1 & E2).
    constructor; [rewrite E1; exact A|rewrite E2; exact B|rewrite A2; exact C].
  - rewrite (arch_insert_deps _ _ _ _ _ Ei), (create_id_deps _ _ _ Ec). apply (get_arch_deps _ _ _ _ _ Ega).
Qed.

(* destroyNow and the write through getComponent never read the table *)
Lemma step_destroy_now_total_d cis s hs al x tid k :
  DInv cis s hs al x -> TI cis s ->
  exists s', step s (ODestroyNow tid (hnd hs k)) = Ok (s', RNone) /\ TI cis s' /\ deps s' = deps s.
Proof.
  intros HD HT. destruct (DInv_ctl _ _ _ _ _ HD) as (Hl & _).
  destruct (step_destroy_now_total cis (nd s) hs al (xnd x) tid k (di_M _ _ _ _ _ HD) (TI_nd _ _ HT)) as (s0 & E & HT0).
  rewrite (step_destroy_now_unlocked (nd s) _ _ Hl) in E. unfold nd in E. rewrite destroy_now_unlocked_sd in E.
  rewrite (step_destroy_now_unlocked _ _ _ Hl).
  destruct (destroy_now_unlocked s (hnd hs k)) as [s1|e] eqn:Ed; simpl in E; [|discriminate].
  inversion E; subst s0. cbn [bind]. exists s1. split; [reflexivity|]. split; [apply TI_of_nd; exact HT0|apply (destroy_now_deps _ _ _ Ed)].
Qed.

Lemma step_set_total_d cis s hs al x k c z :
  DInv cis s hs al x -> TI cis s -> c < MASK_BITS ->
  exists s' p w, step s (OGetMut (hnd hs k) c (Some z)) = Ok (s', RCell p w) /\ TI cis s' /\ deps s' = deps s.
Proof.
  intros HD HT Hc128.
  destruct (step_set_total cis (nd s) hs al (xnd x) k c z (di_M _ _ _ _ _ HD) (TI_nd _ _ HT) Hc128) as (s0 & p & w & E & HT0).
  change (get_mut (sd [] s) (hnd hs k) c (Some z) = Ok (s0, RCell p w)) in E. rewrite get_mut_sd in E.
  change (step s (OGetMut (hnd hs k) c (Some z))) with (get_mut s (hnd hs k) c (Some z)).
  destruct (get_mut s (hnd hs k) c (Some z)) as [[s1 o]|e] eqn:Eg; simpl in E; [|discriminate].
  inversion E; subst s0 o. exists s1, p, w. split; [reflexivity|]. split; [apply TI_of_nd; exact HT0|apply (get_mut_deps _ _ _ _ _ _ Eg)].
Qed.

(* ---------------------------------------------------------------------------------------- *)
(* assign *)
Lemma assign_unlocked_total_d cis s hs al x k key c b pai pidx pa :
  DInv cis s hs al x -> TI cis s -> TR (length cis) (deps s) -> c < length cis -> In (k, key) al ->
  nth_error (locs s) (N.to_nat (fst (hnd hs k))) = Some {| l_arch := Some pai; l_idx := pidx |} ->
  nth_error (archs s) pai = Some pa -> nth_error (am_ents pa) pidx = Some (hnd hs k) -> am_mask pa = key ->
  mhas (am_mask pa) c = false ->
  exists s2 ai ci slot, assign_unlocked s (hnd hs k) c b = Ok (s2, (ai, ci, slot)) /\ TI cis s2 /\ deps s2 = deps s /\
    exists a2, nth_error (archs s2) ai = Some a2.
Proof.
  intros HD HT HR Hc Hin Hloc Hpa Hent Hkey Hmc.
  destruct (DInv_ctl _ _ _ _ _ HD) as (_ & _ & _ & _ & _ & _ & Hawf).
  destruct (di_keys _ _ _ _ _ HD k key Hin) as (_ & Hlowk).
  unfold assign_unlocked, loc_arch. rewrite (nth_res_some _ _ _ Hloc). cbn [bind l_arch l_idx].
  rewrite (nth_res_some _ _ _ Hpa). cbn [bind].
  destruct (awf_nth _ _ _ Hawf Hpa) as (Wsh & _). rewrite Wsh.
  destruct (twf_nth _ _ _ _ (ti_archs _ _ HT) Hpa) as (_ & Hregp).
  assert (Hrp : rsub (length cis) (am_mask pa)) by (apply mreg_rsub; [rewrite Hkey; exact Hlowk|exact Hregp]).
  destruct (get_arch_TD cis s (madd (am_mask pa) c) HT (di_dwf _ _ _ _ _ HD) HR (rsub_madd _ _ _ Hrp Hc))
    as (ex & s_g & ai & Hex & Ega & HTg).
  rewrite Ega. cbn [bind].
  pose proof (get_arch_nd _ _ _ _ _ _ Hex Ega) as Ega'.
  destruct (MInv_get_arch cis (nd s) hs al (xnd x) _ (nd s_g) ai (di_M _ _ _ _ _ HD) Ega') as (HIg & Fg & Hkeep & a_t & Hat' & Hmt).
  assert (Hat : nth_error (archs s_g) ai = Some a_t) by exact Hat'.
  assert (Hpa_g : nth_error (archs s_g) pai = Some pa) by (apply (Hkeep pai pa); exact Hpa).
  assert (Hlg : locs s_g = locs s) by exact (fr1_locs _ _ Fg).
  assert (HcT : mhas (munion (madd (am_mask pa) c) ex) c = true) by (rewrite mhas_union, mhas_madd, Nat.eqb_refl; reflexivity).
  assert (Hne : ai <> pai).
  { intros ->. rewrite Hpa_g in Hat. inversion Hat; subst a_t. rewrite <- Hmt in HcT. congruence. }
  assert (Hawfg : Forall awf (archs s_g)) by exact (mi_awf _ _ _ _ _ HIg).
  assert (Hcg : cinfos s_g = cis) by exact (mi_cis _ _ _ _ _ HIg).
  assert (Hidsg : forall p y, nth_error (am_ents pa) p = Some y -> N.to_nat (fst y) < length (locs s_g)).
  { exact (member_ids cis (nd s_g) hs al (xnd x) pai pa HIg Hpa_g). }
  match goal with |- context [external_move s_g ai _ pai pidx ?sk] =>
    destruct (move_total_gen cis s_g (hnd hs k) ai a_t pai pidx pa sk HTg Hawfg Hcg Hidsg)
      as (s2 & Em & HT2 & Hl2 & a2 & Ha2 & Emask) end.
  { rewrite Hlg. eapply nth_error_lt'. exact Hloc. }
  { exact Hpa_g. }
  { eapply nth_error_lt'. exact Hent. }
  { exact Hat. }
  { exact Hne. }
  rewrite Em. cbn [bind]. rewrite (nth_res_some _ _ _ Ha2). cbn [bind].
  destruct (nth_error_ex (locs s2) (N.to_nat (fst (hnd hs k)))) as (l2 & El2).
  { rewrite Hl2, Hlg. eapply nth_error_lt'. exact Hloc. }
  rewrite (nth_res_some _ _ _ El2). cbn [bind].
  assert (Eci : cindex (am_mask a2) c = Some (length (filter (mhas (am_mask a2)) (seq 0 c)))).
  { unfold cindex. rewrite Emask, Hmt, HcT. reflexivity. }
  rewrite Eci. eexists. eexists. eexists. eexists. split; [reflexivity|]. split; [exact HT2|].
  split; [rewrite (external_move_deps _ _ _ _ _ _ _ Em); apply (get_arch_deps _ _ _ _ _ Ega)|]. eauto.
Qed.

Lemma step_assign_total_d cis s hs al x tid k c v typed :
  DInv cis s hs al x -> TI cis s -> TR (length cis) (deps s) -> c < MASK_BITS -> c < length cis ->
  alive_x x k = true -> x_viol (x_step_in x (XoAssign tid k c v)) = x_viol x ->
  exists s', step s (OAssign tid (hnd hs k) c (match v with Some z => AValue z | None => ADefault end) typed) = Ok (s', RNone) /\
             TI cis s' /\ deps s' = deps s.
Proof.
  intros HD HT HR Hc128 Hc Hax Hviol.
  destruct (DInv_ctl _ _ _ _ _ HD) as (Hl & Hcis & Hxl & Hxc & Hcnt & Hal & Hawf).
  destruct (alive_in _ _ (proj2 (Hal k) Hax)) as (key & Hin).
  destruct (find_ent x k) as [e|] eqn:Hfe; [|apply alive_x_find in Hax; congruence].
  destruct (live_vmatch_d _ _ _ _ _ _ _ _ HD Hin Hfe) as (Hk & pai & pidx & pa & Hloc & Hpa & Hkey & Hent & Hvm).
  assert (Hx : x_step_in x (XoAssign tid k c v) = x_assign x k c v).
  { unfold x_step_in, issued_b. rewrite Hcnt. apply Nat.ltb_lt in Hk. rewrite Hk, Hxl. reflexivity. }
  rewrite Hx in Hviol.
  assert (Hhc : has_comp (e_comps e) c = false).
  { destruct (has_comp (e_comps e) c) eqn:E; [|reflexivity]. unfold x_assign in Hviol. rewrite Hfe, E in Hviol. simpl in Hviol. lia. }
  assert (Hmc : mhas (am_mask pa) c = false) by (rewrite <- (vmatch_has _ _ _ _ Hvm Hc128); exact Hhc).
  rewrite (step_assign_unlocked _ _ _ _ _ _ Hl).
  destruct (info_of_total s c) as (inf & Einf); [rewrite Hcis; exact Hc|]. rewrite Einf. cbn [bind].
  destruct (assign_unlocked_total_d cis s hs al x k key c (match match v with Some z => AValue z | None => ADefault end with AValue _ => typed | ADefault => false end)
              pai pidx pa HD HT HR Hc Hin Hloc Hpa Hent Hkey Hmc) as (s2 & ai & ci & slot & Ea & HT2 & Hd2 & a2 & Ha2).
  rewrite Ea. cbn [bind]. destruct v as [z|]; [|exists s2; split; [reflexivity|split; [exact HT2|exact Hd2]]].
  destruct (ci_hasval inf).
  - rewrite (write_cell_total _ _ _ ci slot (Some z) Ha2). cbn [bind].
    pose proof (TI_put cis s2 ai a2 ci slot (Some z) HT2 Ha2) as HT3.
    destruct typed; eexists; (split; [reflexivity|]); (split; [|rewrite ?deps_emit_if; exact Hd2]); [|exact HT3].
    apply TI_emit_if. apply TI_emit_if. exact HT3.
  - cbn [bind]. destruct typed; eexists; (split; [reflexivity|]); (split; [|rewrite ?deps_emit_if; exact Hd2]); [|exact HT2].
    apply TI_emit_if. apply TI_emit_if. exact HT2.
Qed.

(* removeComponent *)
Lemma step_remove_total_d cis s hs al x tid k c typed :
  DInv cis s hs al x -> TI cis s -> TR (length cis) (deps s) -> (typed = true \/ alive_x x k = true) ->
  exists s', step s (ORemove tid (hnd hs k) c typed) = Ok (s', RNone) /\ TI cis s' /\ deps s' = deps s.
Proof.
  intros HD HT HR Hctr. destruct (DInv_ctl _ _ _ _ _ HD) as (Hl & Hcis & Hxl & Hxc & Hcnt & Hal & Hawf).
  rewrite (step_remove_unlocked _ _ _ _ _ Hl).
  destruct (is_valid s (hnd hs k)) eqn:Ev.
  - rewrite andb_false_r.
    destruct (valid_find_d _ _ _ _ _ _ HD Ev) as (Hk & Ha & e & Hfe). destruct (alive_in _ _ Ha) as (key & Hin).
    destruct (live_vmatch_d _ _ _ _ _ _ _ _ HD Hin Hfe) as (_ & pai & pidx & pa & Hloc & Hpa & Hkey & Hent & _).
    destruct (di_keys _ _ _ _ _ HD k key Hin) as (_ & Hlowk).
    unfold remove_unlocked. rewrite (nth_res_some _ _ _ Hloc). cbn [bind l_arch l_idx].
    rewrite (nth_res_some _ _ _ Hpa). cbn [bind].
    destruct (mhas (am_mask pa) c) eqn:Emc; cbn [negb]; [|cbn [bind]; exists s; split; [reflexivity|split; [exact HT|reflexivity]]].
    destruct (awf_nth _ _ _ Hawf Hpa) as (Wsh & _). rewrite Wsh.
    destruct (twf_nth _ _ _ _ (ti_archs _ _ HT) Hpa) as (_ & Hregp).
    assert (Hrp : rsub (length cis) (am_mask pa)) by (apply mreg_rsub; [rewrite Hkey; exact Hlowk|exact Hregp]).
    destruct (get_arch_TD cis s (mdel (am_mask pa) c) HT (di_dwf _ _ _ _ _ HD) HR (rsub_mdel _ _ _ Hrp))
      as (ex & s_g & ai & Hex & Ega & HTg).
    rewrite Ega. cbn [bind]. pose proof (get_arch_deps _ _ _ _ _ Ega) as Hdg.
    destruct (Nat.eqb_spec ai pai) as [->|Hne]; [cbn [bind]; exists s_g; split; [reflexivity|split; [exact HTg|exact Hdg]]|].
    pose proof (get_arch_nd _ _ _ _ _ _ Hex Ega) as Ega'.
    destruct (MInv_get_arch cis (nd s) hs al (xnd x) _ (nd s_g) ai (di_M _ _ _ _ _ HD) Ega') as (HIg & Fg & Hkeep & a_t & Hat' & Hmt).
    assert (Hat : nth_error (archs s_g) ai = Some a_t) by exact Hat'.
    assert (Hpa_g : nth_error (archs s_g) pai = Some pa) by (apply (Hkeep pai pa); exact Hpa).
    assert (Hlg : locs s_g = locs s) by exact (fr1_locs _ _ Fg).
    assert (Hawfg : Forall awf (archs s_g)) by exact (mi_awf _ _ _ _ _ HIg).
    assert (Hcg : cinfos s_g = cis) by exact (mi_cis _ _ _ _ _ HIg).
    assert (Hidsg : forall p y, nth_error (am_ents pa) p = Some y -> N.to_nat (fst y) < length (locs s_g)).
    { exact (member_ids cis (nd s_g) hs al (xnd x) pai pa HIg Hpa_g). }
    destruct (move_total_gen cis s_g (hnd hs k) ai a_t pai (l_idx {| l_arch := Some pai; l_idx := pidx |}) pa 0%N HTg Hawfg Hcg Hidsg)
      as (s2 & Em & HT2 & _).
    { rewrite Hlg. eapply nth_error_lt'. exact Hloc. }
    { exact Hpa_g. }
    { eapply nth_error_lt'. exact Hent. }
    { exact Hat. }
    { exact Hne. }
    cbn [l_idx] in Em. rewrite Em. cbn [bind]. exists s2. split; [reflexivity|]. split; [exact HT2|].
    rewrite (external_move_deps _ _ _ _ _ _ _ Em). exact Hdg.
  - assert (Ety : typed = true).
    { destruct Hctr as [E|E]; [exact E|]. apply alive_x_find in E. rewrite (dead_find_d _ _ _ _ _ _ HD Ev) in E. congruence. }
    subst typed. cbn [andb negb]. exists s. split; [reflexivity|]. split; [exact HT|reflexivity].
Qed.

(* addDependency *)
Lemma step_dep_total cis s hs al x c m :
  DInv cis s hs al x -> TI cis s -> TR (length cis) (deps s) -> rsub (length cis) m ->
  exists s', step s (ODep c m) = Ok (s', RNone) /\ TI cis s' /\ TR (length cis) (deps s').
Proof.
  intros HD HT HR Hm. rewrite step_dep. unfold add_dependency.
  destruct (extra_components_total s m (di_dwf _ _ _ _ _ HD)) as (ex & Hex). rewrite Hex. cbn [bind].
  eexists. split; [reflexivity|]. split.
  - destruct HT as [A B C]. constructor; [exact A|exact B|exact C].
  - cbn [deps set_deps]. apply TR_dep_set; [exact HR|]. apply rsub_union.
    + destruct (dep_find (deps s) c) as [m0|] eqn:Ef.
      * unfold TR in HR. rewrite Forall_forall in HR. apply (HR _ (dep_find_in _ _ _ Ef)).
      * intros y Hy. rewrite mhas_zero in Hy. discriminate.
    + apply (extra_rsub s m ex _ HR Hm Hex).
Qed.

(* ---------------------------------------------------------------------------------------- *)
(* the registration hypothesis with declarations: the declared dependents have a description too *)
Definition reg_d (cis : list cinfo) (o : xop) : bool :=
  match o with
  | XoDep _ m => mreg_b (length cis) m
  | _ => reg_b cis o
  end.

Lemma mstep_total_d cis typed s hs al x o :
  DInv cis s hs al x -> TI cis s -> TR (length cis) (deps s) -> alpha_d cis o = true -> reg_d cis o = true ->
  x_viol x = 0 -> x_viol (x_step x o) = 0 ->
  exists s' hs', mstep typed (s, hs) o = Ok (s', hs') /\ TI cis s' /\ TR (length cis) (deps s') /\
                 length hs' = length hs + (if is_create o then 1 else 0).
Proof.
  intros HD HT HR Ha Hr Hv0 Hv1.
  destruct (DInv_ctl _ _ _ _ _ HD) as (_ & _ & Hxl & _).
  unfold x_step in Hv1. destruct (out_of_contract x o) eqn:Eooc; [simpl in Hv1; lia|].
  destruct o; simpl in Ha; try discriminate; cbn [is_create].
  - (* create *)
    apply andb_true_iff in Ha. destruct Ha as (Hs & Hlm). destruct sids; [|discriminate]. apply lowmb_ok in Hlm.
    destruct (step_create_total_d cis s hs al x tid m via_arch HD HT HR (mreg_rsub _ _ Hlm (mreg_b_ok _ _ Hr))) as (s1 & h & E & HT1 & Hd1).
    exists (set_log s1 []), (hs ++ [h]). split; [apply (mstep_of_step typed s hs (XoCreate tid m [] via_arch) s1 (RHandle h) E)|].
    split; [apply TI_set_log; exact HT1|]. split; [cbn [deps set_log]; rewrite Hd1; exact HR|]. rewrite app_length. reflexivity.
  - (* destroyNow *)
    destruct (step_destroy_now_total_d cis s hs al x tid k HD HT) as (s1 & E & HT1 & Hd1).
    exists (set_log s1 []), hs. split; [apply (mstep_of_step typed s hs (XoDestroyNow tid k) s1 RNone E)|].
    split; [apply TI_set_log; exact HT1|]. split; [cbn [deps set_log]; rewrite Hd1; exact HR|lia].
  - (* assign *)
    apply andb_true_iff in Ha. destruct Ha as (Hc & _). apply Nat.ltb_lt in Hc. cbn [reg_d reg_b] in Hr. apply Nat.ltb_lt in Hr.
    simpl in Eooc. rewrite Hxl in Eooc. apply negb_false_iff in Eooc.
    destruct (step_assign_total_d cis s hs al x tid k c v typed HD HT HR Hc Hr Eooc) as (s1 & E & HT1 & Hd1); [lia|].
    exists (set_log s1 []), hs. split; [apply (mstep_of_step typed s hs (XoAssign tid k c v) s1 RNone E)|].
    split; [apply TI_set_log; exact HT1|]. split; [cbn [deps set_log]; rewrite Hd1; exact HR|lia].
  - (* removeComponent *)
    simpl in Eooc. rewrite Hxl in Eooc.
    destruct (step_remove_total_d cis s hs al x tid k c typed0 HD HT HR) as (s1 & E & HT1 & Hd1).
    { destruct typed0; [left; reflexivity|right]. simpl in Eooc. apply negb_false_iff in Eooc. exact Eooc. }
    exists (set_log s1 []), hs. split; [apply (mstep_of_step typed s hs (XoRemove tid k c typed0) s1 RNone E)|].
    split; [apply TI_set_log; exact HT1|]. split; [cbn [deps set_log]; rewrite Hd1; exact HR|lia].
  - (* write through getComponent *)
    apply Nat.ltb_lt in Ha.
    destruct (step_set_total_d cis s hs al x k c v HD HT Ha) as (s1 & p & w & E & HT1 & Hd1).
    exists (set_log s1 []), hs. split; [apply (mstep_of_step typed s hs (XoSet k c v) s1 (RCell p w) E)|].
    split; [apply TI_set_log; exact HT1|]. split; [cbn [deps set_log]; rewrite Hd1; exact HR|lia].
  - (* declaration *)
    apply andb_true_iff in Ha. destruct Ha as (_ & Hlm). apply lowmb_ok in Hlm.
    destruct (step_dep_total cis s hs al x c m HD HT HR (mreg_rsub _ _ Hlm (mreg_b_ok _ _ Hr))) as (s1 & E & HT1 & HR1).
    exists (set_log s1 []), hs. split; [apply (mstep_of_step typed s hs (XoDep c m) s1 RNone E)|].
    split; [apply TI_set_log; exact HT1|]. split; [exact HR1|lia].
Qed.

Lemma run_total_d cis typed : forall ops s hs al x,
  DInv cis s hs al x -> TI cis s -> TR (length cis) (deps s) -> cis_ok cis ->
  forallb (alpha_d cis) ops = true -> forallb (reg_d cis) ops = true -> decl_ok x ops = true ->
  x_viol x = 0 -> x_viol (fold_left x_step ops x) = 0 -> within (length hs + creates ops) ->
  exists s' hs', fold_res (mstep typed) ops (s, hs) = Ok (s', hs') /\ length hs' = length hs + creates ops.
Proof.
  induction ops as [|o t IH]; intros s hs al x HD HT HR Hok Ha Hr Hdk Hv0 Hv1 Hb.
  - exists s, hs. split; [reflexivity|]. unfold creates. simpl. lia.
  - cbn [forallb] in Ha, Hr. apply andb_true_iff in Ha. destruct Ha as (Ho & Ht). apply andb_true_iff in Hr. destruct Hr as (Hro & Hrt).
    cbn [decl_ok] in Hdk. apply andb_true_iff in Hdk. destruct Hdk as (Hd1 & Hd2).
    cbn [fold_left] in Hv1.
    assert (Hv1' : x_viol (x_step x o) = 0).
    { pose proof (x_viol_run_mono_d cis t (x_step x o) Ht). lia. }
    destruct (mstep_total_d cis typed s hs al x o HD HT HR Ho Hro Hv0 Hv1') as (s1 & hs1 & E1 & HT1 & HR1 & Hlen1).
    rewrite creates_cons in Hb.
    destruct (DInv_step cis typed s hs al x o s1 hs1 HD Hok Ho Hv0 Hv1') as (al1 & HD1).
    { destruct o; try exact I. exact Hd1. }
    { exact E1. }
    { eapply within_le; [|exact Hb]. lia. }
    destruct (IH s1 hs1 al1 (x_step x o) HD1 HT1 HR1 Hok Ht Hrt Hd2 Hv1' Hv1) as (s' & hs' & E & Hlen).
    { eapply within_le; [|exact Hb]. lia. }
    exists s', hs'. cbn [fold_res]. rewrite E1. cbn [bind]. split; [exact E|]. rewrite creates_cons. lia.
Qed.

Theorem deps_model_run_total typed n cis ops :
  cis_ok cis -> forallb (alpha_d cis) ops = true -> forallb (reg_d cis) ops = true -> decl_ok (x_init n cis) ops = true ->
  x_viol (xrun n cis ops) = 0 -> within (creates ops) ->
  exists s hs, mrun typed n cis ops = Ok (s, hs) /\ length hs = creates ops.
Proof.
  intros Hok Ha Hr Hdk Hv Hb. unfold mrun. unfold xrun in Hv.
  destruct (run_total_d cis typed ops (init n cis) [] [] (x_init n cis) (DInv_init n cis) (TI_init n cis)) as (s & hs & E & Hlen);
    try assumption; try reflexivity.
  - constructor.
  - exists s, hs. split; [exact E|exact Hlen].
Qed.

Theorem deps_refines_total typed n cis ops :
  cis_ok cis -> forallb (alpha_d cis) ops = true -> forallb (reg_d cis) ops = true -> decl_ok (x_init n cis) ops = true ->
  x_viol (xrun n cis ops) = 0 -> within (creates ops) ->
  refines_on typed n cis ops = true.
Proof.
  intros Hok Ha Hr Hdk Hv Hb. destruct (deps_model_run_total typed n cis ops Hok Ha Hr Hdk Hv Hb) as (s & hs & E & Hlen).
  apply (deps_refines_on typed n cis ops s hs Hok Ha Hdk E Hv). rewrite Hlen. exact Hb.
Qed.

Theorem deps_refinement_total typed n cis ops :
  cis_ok cis -> forallb (alpha_d cis) ops = true -> forallb (reg_d cis) ops = true -> decl_ok (x_init n cis) ops = true ->
  x_viol (xrun n cis ops) = 0 -> within (creates ops) ->
  exists s hs, mrun typed n cis ops = Ok (s, hs) /\ length hs = x_count (xrun n cis ops) /\
  (forall k,
    match find_ent (xrun n cis ops) k with
    | Some e => exists e', abs_ent s k (nth k hs null_handle) = Some e' /\ ent_match e e' = true
    | None => abs_ent s k (nth k hs null_handle) = None
    end) /\
  (forall k c, c < MASK_BITS ->
    step s (OHas (nth k hs null_handle) c) = Ok (s, RBool (spec_has (xrun n cis ops) k c)) /\
    exists v, step s (OGetConst (nth k hs null_handle) c) = Ok (s, RCell (spec_has (xrun n cis ops) k c) v) /\
              forall e w, find_ent (xrun n cis ops) k = Some e -> In (c, w) (e_comps e) -> cell_le w v = true) /\
  deps s = x_deps (xrun n cis ops).
Proof.
  intros Hok Ha Hr Hdk Hv Hb. destruct (deps_model_run_total typed n cis ops Hok Ha Hr Hdk Hv Hb) as (s & hs & E & Hlen).
  assert (Hb' : within (length hs)) by (rewrite Hlen; exact Hb).
  exists s, hs. split; [exact E|].
  destruct (deps_refinement typed n cis ops s hs Hok Ha Hdk E Hv Hb') as (Hc & Hk).
  split; [exact Hc|]. split; [exact Hk|]. split; [apply (deps_observations typed n cis ops s hs Hok Ha Hdk E Hv Hb')|].
  apply (deps_entities_closed typed n cis ops s hs Hok Ha Hdk E Hv Hb').
Qed.
