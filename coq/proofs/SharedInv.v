(* C12: the invariant of the unlocked refinement (ManagerInv.MInv) generalised to shared components.
   The model state re-keyed (SharedFrame.rk: archetype key = component mask + packed shared info) and the specification
   state with the shared values erased (xns) satisfy MInv; every archetype holds a well-formed, typed shared info whose
   instances are pooled; the pool invariant holds; the shared values the specification gives a live entity are the
   values of the shared info of the archetype it lives in. *)
Require Import Coq.Lists.List Coq.NArith.NArith Coq.ZArith.ZArith Coq.Arith.Arith Coq.Bool.Bool Coq.micromega.Lia.
From Mustache Require Import Res Manager MgrSpec Refine.
From Mustache Require Skeleton.
From Mustache Require Import SkelSpec.
From Mustache.proofs Require Import ListLemmas SkelBasics SkelInv SkelSteps SkelMove ClosureProofs ManagerBasics ManagerMoves ManagerProj
  ManagerInv DepsFrame DepsClosure DepsInv SharedProofs SharedKey SharedVals SharedFrame.
Import ListNotations.

(* the shared type an instance was made for *)
Definition ty (s : mst) (i : nat) : nat := fst (nth i (insts s) (O, 0%Z)).

Definition hok (s : mst) (a : archetype) : Prop :=
  lowm (am_mask a) /\ si_wf (am_shared a) /\ si_typed (ty s) (am_shared a) /\
  forall i, In i (si_data (am_shared a)) -> In i (pool_of s (ty s i)).

Definition typool (s : mst) : Prop := forall sid i, In i (pool_of s sid) -> ty s i = sid.

Definition erase (e : ent) : ent := {| e_k := e_k e; e_comps := e_comps e; e_shared := [] |}.
Definition xns (x : xst) : xst := xw_ents x (map erase (x_ents x)).

Definition hdr (a : archetype) : mask * shared_info := (am_mask a, am_shared a).
Definition hdl (s : mst) : list (mask * shared_info) := map hdr (archs s).

Record SInv (cis : list cinfo) (s : mst) (hs : list handle) (al : list (nat * N)) (x : xst) : Prop := {
  sv_M : MInv cis (rk s) hs al (xns x);
  sv_chunk : chunk_fns s = [];
  sv_hdr : Forall (hok s) (archs s);
  sv_pool : pool_wf s;
  sv_typool : typool s;
  sv_K : forall k key e, In (k, key) al -> find_ent x k = Some e ->
         exists a, In a (archs s) /\ am_mask (ha a) = key /\ e_shared e = shvals s (am_shared a)
}.

(* ---- the specification with the shared values erased ---- *)
Lemma find_map_erase l k : find (fun e => Nat.eqb (e_k e) k) (map erase l) = option_map erase (find (fun e => Nat.eqb (e_k e) k) l).
Proof. induction l as [|e t IH]; simpl; [reflexivity|]. destruct (Nat.eqb (e_k e) k); [reflexivity|exact IH]. Qed.

Lemma find_ent_xns x k : find_ent (xns x) k = option_map erase (find_ent x k).
Proof. unfold find_ent, xns. simpl. apply find_map_erase. Qed.

Lemma xfr_xns x : xfr (xns x) = xfr x. Proof. reflexivity. Qed.

Lemma alive_x_xns x k : alive_x (xns x) k = alive_x x k.
Proof. unfold alive_x. rewrite find_ent_xns. destruct (find_ent x k); reflexivity. Qed.

(* ---- headers ---- *)
Lemma hdl_upd l ai a a' : nth_error l ai = Some a -> hdr a' = hdr a -> map hdr (upd l ai a') = map hdr l.
Proof. intros Hn E. rewrite map_upd, E. apply upd_same_id. apply map_nth_error. exact Hn. Qed.

Lemma ab3_hdr a a' : ab3 a' = ab3 a -> hdr a' = hdr a.
Proof. intros H. destruct (ab3_fields _ _ H) as (E1 & E2 & _). unfold hdr. rewrite E1, E2. reflexivity. Qed.

Lemma hdr_in_archs s m sh : In (m, sh) (hdl s) -> exists a, In a (archs s) /\ hdr a = (m, sh).
Proof. unfold hdl. intros H. apply in_map_iff in H. destruct H as (a & E & Hin). eauto. Qed.

Lemma hdr_kmask a a' : hdr a' = hdr a -> am_mask (ha a') = am_mask (ha a).
Proof. unfold hdr. intros E. inversion E as [[E1 E2]]. rewrite !ha_mask, E1, E2. reflexivity. Qed.

(* ---- the pool along a step ---- *)
Lemma ty_le s s' i : pool_le s s' -> i < length (insts s) -> ty s' i = ty s i.
Proof. intros (_ & ext & E) Hlt. unfold ty. rewrite E, app_nth1 by exact Hlt. reflexivity. Qed.

Lemma hok_transfer s s' a a' : hok s a -> hdr a' = hdr a -> pool_le s s' -> pool_wf s -> hok s' a'.
Proof.
  intros (H1 & H2 & H3 & H4) E Hle (_ & Hval). unfold hdr in E. inversion E as [[E1 E2]]. unfold hok. rewrite E1, E2.
  assert (Hlt : forall i, In i (si_data (am_shared a)) -> i < length (insts s)) by (intros i Hi; eapply Hval; apply H4; exact Hi).
  split; [exact H1|]. split; [exact H2|]. split.
  - intros id v Hg. assert (Hin : In v (si_data (am_shared a))) by (rewrite si_get_lookup in Hg; apply lookup_some_in in Hg; tauto).
    rewrite (ty_le _ _ _ Hle (Hlt v Hin)). apply H3. exact Hg.
  - intros i Hi. rewrite (ty_le _ _ _ Hle (Hlt i Hi)). apply (proj1 Hle). apply H4. exact Hi.
Qed.

Lemma shvals_le s s' a : hok s a -> pool_le s s' -> pool_wf s -> shvals s' (am_shared a) = shvals s (am_shared a).
Proof.
  intros (_ & _ & _ & H4) Hle (_ & Hval). apply shvals_insts. intros i Hi. apply (pool_le_value _ _ _ Hle). eapply Hval. apply H4. exact Hi.
Qed.

Lemma pstate_eq s s' : pool s' = pool s -> insts s' = insts s ->
  pool_le s s' /\ (pool_wf s -> pool_wf s') /\ (typool s -> typool s').
Proof.
  intros Ep Ei.
  assert (Epo : forall sid, pool_of s' sid = pool_of s sid) by (intros sid; unfold pool_of; rewrite Ep; reflexivity).
  assert (Ev : forall i, inst_value s' i = inst_value s i) by (intros i; apply inst_value_insts; exact Ei).
  split; [|split].
  - split; [intros sid i; rewrite Epo; auto|]. exists []. rewrite app_nil_r. exact Ei.
  - intros (Hinj & Hval). split.
    + intros sid. rewrite Epo. destruct (Hinj sid) as (A & B). split; [exact A|]. intros i j Hi Hj. rewrite !Ev. apply B; assumption.
    + intros sid i. rewrite Epo, Ei. apply Hval.
  - intros Ht sid i. rewrite Epo. unfold ty. rewrite Ei. apply Ht.
Qed.

(* ---- how the invariant is re-established after a step ---- *)
Lemma SInv_frame cis s s' hs hs' al al' x x' ext :
  SInv cis s hs al x -> MInv cis (rk s') hs' al' (xns x') -> chunk_fns s' = [] ->
  hdl s' = hdl s ++ ext -> pool_le s s' -> pool_wf s' -> typool s' ->
  (forall a, In a (archs s') -> In (hdr a) ext -> hok s' a) ->
  (forall k key e', In (k, key) al' -> find_ent x' k = Some e' ->
     (exists e, In (k, key) al /\ find_ent x k = Some e /\ e_shared e' = e_shared e) \/
     (exists a', In a' (archs s') /\ am_mask (ha a') = key /\ e_shared e' = shvals s' (am_shared a'))) ->
  SInv cis s' hs' al' x'.
Proof.
  intros [HM Hcf Hh Hp Ht HK] HM' Hcf' Ehdl Hle Hp' Ht' Hnew Hents.
  assert (Hold : forall a, In a (archs s) -> exists a', In a' (archs s') /\ hdr a' = hdr a).
  { intros a Ha. apply hdr_in_archs. change (In (hdr a) (hdl s')). rewrite Ehdl. apply in_or_app. left. unfold hdl. apply in_map. exact Ha. }
  constructor; try assumption.
  - apply Forall_forall. intros a' Ha'.
    assert (Hin : In (hdr a') (hdl s')) by (unfold hdl; apply in_map; exact Ha').
    rewrite Ehdl in Hin. apply in_app_or in Hin. destruct Hin as [Hin|Hin]; [|apply Hnew; assumption].
    destruct (hdr a') as (m, sh) eqn:E. destruct (hdr_in_archs _ _ _ Hin) as (a & Ha & Ea).
    apply (hok_transfer s s' a a'); [apply (proj1 (Forall_forall _ _) Hh a Ha)|congruence|exact Hle|exact Hp].
  - intros k key e' Hin Hfe. destruct (Hents k key e' Hin Hfe) as [(e & Hin0 & Hfe0 & Ee)|H]; [|exact H].
    destruct (HK k key e Hin0 Hfe0) as (a & Ha & Hk & Es). destruct (Hold a Ha) as (a' & Ha' & Eh).
    exists a'. split; [exact Ha'|]. split; [rewrite (hdr_kmask _ _ Eh); exact Hk|].
    assert (Esh : am_shared a' = am_shared a) by (unfold hdr in Eh; inversion Eh; reflexivity).
    rewrite Ee, Es, Esh. symmetry. apply shvals_le; [apply (proj1 (Forall_forall _ _) Hh a Ha)|exact Hle|exact Hp].
Qed.

(* ---- the facts of MInv, read on the state itself ---- *)
Lemma SInv_ctl cis s hs al x : SInv cis s hs al x ->
  lockc s = 0 /\ cinfos s = cis /\ deps s = [] /\ x_lock x = 0 /\ x_deps x = [] /\ x_cinfos x = cis /\ x_count x = length hs /\
  (forall k, alive al k <-> alive_x x k = true).
Proof.
  intros HS. pose proof (sv_M _ _ _ _ _ HS) as [HG Hawf Hl Hdp Hc Hxl Hxd Hxc Hcnt Hsl Hal Hv].
  split; [exact Hl|]. split; [exact Hc|]. split; [exact Hdp|]. split; [exact Hxl|]. split; [exact Hxd|]. split; [exact Hxc|]. split; [exact Hcnt|].
  intros k. rewrite Hal. rewrite alive_x_xns. tauto.
Qed.

Lemma awf_ha a : awf (ha a) -> am_size a = length (am_ents a) /\ length (am_cols a) = length (mitems (am_mask a)).
Proof. intros (_ & B & C). rewrite mitems_ha in C. split; [exact B|exact C]. Qed.

Lemma arch_rk s ai a : nth_error (archs s) ai = Some a -> nth_error (archs (rk s)) ai = Some (ha a).
Proof. intros H. unfold rk. cbn [archs set_archs]. apply map_nth_error. exact H. Qed.

Lemma arch_rk_inv s ai a' : nth_error (archs (rk s)) ai = Some a' -> exists a, nth_error (archs s) ai = Some a /\ a' = ha a.
Proof. unfold rk. cbn [archs set_archs]. intros H. apply nth_error_map_inv in H. destruct H as (a & Ha & E). eauto. Qed.

Lemma SInv_awf cis s hs al x ai a : SInv cis s hs al x -> nth_error (archs s) ai = Some a ->
  am_size a = length (am_ents a) /\ length (am_cols a) = length (mitems (am_mask a)).
Proof. intros HS Ha. apply awf_ha. eapply awf_nth; [exact (mi_awf _ _ _ _ _ (sv_M _ _ _ _ _ HS))|apply arch_rk; exact Ha]. Qed.

Lemma SInv_hok cis s hs al x ai a : SInv cis s hs al x -> nth_error (archs s) ai = Some a -> hok s a.
Proof. intros HS Ha. apply (proj1 (Forall_forall _ _) (sv_hdr _ _ _ _ _ HS)). eapply nth_error_In. exact Ha. Qed.

Lemma SInv_lowm cis s hs al x : SInv cis s hs al x -> Forall (fun a => lowm (am_mask a)) (archs s).
Proof. intros HS. eapply Forall_impl; [|exact (sv_hdr _ _ _ _ _ HS)]. intros a (H & _). exact H. Qed.

(* archetypes are told apart by their keys *)
Lemma key_unique cis s hs al x a1 a2 i : SInv cis s hs al x -> In a1 (archs s) -> nth_error (archs s) i = Some a2 ->
  am_mask (ha a1) = am_mask (ha a2) -> a1 = a2.
Proof.
  intros HS H1 H2 E. apply In_nth_error in H1. destruct H1 as (j & H1).
  pose proof (g_arch_keys (mi_G _ _ _ _ _ (sv_M _ _ _ _ _ HS))) as Hnd. simpl in Hnd. rewrite map_map in Hnd.
  assert (j = i).
  { apply (nodup_map_index am_mask (archs (rk s)) j i (ha a1) (ha a2) Hnd); [apply arch_rk; exact H1|apply arch_rk; exact H2|exact E]. }
  subst j. congruence.
Qed.

(* a live entity: where it is, its cells, its shared values *)
Lemma live_s cis s hs al x k key e : SInv cis s hs al x -> In (k, key) al -> find_ent x k = Some e ->
  k < length hs /\ exists ai idx a,
    nth_error (locs s) (N.to_nat (fst (hnd hs k))) = Some {| l_arch := Some ai; l_idx := idx |} /\
    nth_error (archs s) ai = Some a /\ am_mask (ha a) = key /\ nth_error (am_ents a) idx = Some (hnd hs k) /\
    vmatch (erase e) (ha a) idx /\ e_shared e = shvals s (am_shared a).
Proof.
  intros HS Hin Hfe.
  assert (Hfe' : find_ent (xns x) k = Some (erase e)) by (rewrite find_ent_xns, Hfe; reflexivity).
  destruct (live_vmatch _ _ _ _ _ _ _ _ (sv_M _ _ _ _ _ HS) Hin Hfe') as (Hk & ai & idx & a' & Hloc & Ha' & Hkey & Hent & Hvm).
  destruct (arch_rk_inv _ _ _ Ha') as (a & Ha & ->). split; [exact Hk|]. exists ai, idx, a.
  split; [exact Hloc|]. split; [exact Ha|]. split; [exact Hkey|]. split; [exact Hent|]. split; [exact Hvm|].
  destruct (sv_K _ _ _ _ _ HS k key e Hin Hfe) as (aw & Haw & Hkw & Es).
  rewrite (key_unique _ _ _ _ _ aw a ai HS Haw Ha) in Es by congruence. exact Es.
Qed.

Lemma valid_find_s cis s hs al x k : SInv cis s hs al x -> is_valid s (hnd hs k) = true ->
  k < length hs /\ alive al k /\ exists e, find_ent x k = Some e.
Proof.
  intros HS Hv. destruct (valid_find cis (rk s) hs al (xns x) k (sv_M _ _ _ _ _ HS) Hv) as (A & B & e' & He').
  split; [exact A|]. split; [exact B|]. rewrite find_ent_xns in He'. destruct (find_ent x k) as [e|]; [eauto|discriminate].
Qed.

Lemma dead_find_s cis s hs al x k : SInv cis s hs al x -> is_valid s (hnd hs k) = false -> find_ent x k = None.
Proof.
  intros HS Hv. pose proof (dead_find cis (rk s) hs al (xns x) k (sv_M _ _ _ _ _ HS) Hv) as H.
  rewrite find_ent_xns in H. destruct (find_ent x k); [discriminate|reflexivity].
Qed.

Lemma fr2_pool s s' : fr2 s' = fr2 s -> pool s' = pool s /\ insts s' = insts s /\ chunk_fns s' = chunk_fns s.
Proof.
  intros H. split; [apply (f_equal pool) in H; exact H|]. split; [apply (f_equal insts) in H; exact H|apply (f_equal chunk_fns) in H; exact H].
Qed.
Lemma fr3_pool s s' : fr3 s' = fr3 s -> pool s' = pool s /\ insts s' = insts s /\ chunk_fns s' = chunk_fns s.
Proof.
  intros H. split; [apply (f_equal pool) in H; exact H|]. split; [apply (f_equal insts) in H; exact H|apply (f_equal chunk_fns) in H; exact H].
Qed.

(* ---------------------------------------------------------------------------------------- *)
(* getArchetype *)
Lemma hok_new s m sh cs : lowm m -> (forall a, hdr a = (m, sh) -> hok s a) -> hok s (new_arch m sh cs).
Proof. intros _ H. apply H. reflexivity. Qed.

Lemma SInv_get_arch cis s hs al x m sh s1 ai :
  SInv cis s hs al x -> lowm m -> (forall a, hdr a = (m, sh) -> hok s a) -> get_arch s m sh = Ok (s1, ai) ->
  SInv cis s1 hs al x /\ fr1 s1 = fr1 s /\
  (forall j a', nth_error (archs s) j = Some a' -> nth_error (archs s1) j = Some a') /\
  exists a, nth_error (archs s1) ai = Some a /\ am_mask a = m /\ si_eqb (am_shared a) sh = true /\ am_mask (ha a) = kmk m sh.
Proof.
  intros HS Hm Hsh H. destruct (SInv_ctl _ _ _ _ _ HS) as (Hl & Hc & Hd & _).
  pose proof (get_arch_rk s m sh s1 ai Hd (sv_chunk _ _ _ _ _ HS) (SInv_lowm _ _ _ _ _ HS) Hm H) as Hrk.
  destruct (MInv_get_arch _ _ _ _ _ _ _ _ (sv_M _ _ _ _ _ HS) Hrk) as (HM1 & _ & _ & _).
  assert (Hkey : forall a, am_mask a = m -> si_eqb (am_shared a) sh = true -> am_mask (ha a) = kmk m sh).
  { intros a E1 E2. rewrite ha_mask, E1. unfold kmk. apply enc_eqb in E2. rewrite E2. reflexivity. }
  destruct (get_arch_ok _ _ _ _ _ Hd H) as [(-> & a & Ha & Hma & Hsa)|(Hn & -> & cs & ->)].
  - split; [exact HS|]. split; [reflexivity|]. split; [auto|]. exists a. auto.
  - split; [|split; [reflexivity|split]].
    + apply (SInv_frame cis s _ hs hs al al x x [(m, sh)] HS HM1).
      * exact (sv_chunk _ _ _ _ _ HS).
      * unfold hdl. cbn [archs set_archs]. rewrite map_app. reflexivity.
      * apply (pstate_eq s (set_archs s (archs s ++ [new_arch m sh cs])) eq_refl eq_refl).
      * apply (pstate_eq s (set_archs s (archs s ++ [new_arch m sh cs])) eq_refl eq_refl). exact (sv_pool _ _ _ _ _ HS).
      * apply (pstate_eq s (set_archs s (archs s ++ [new_arch m sh cs])) eq_refl eq_refl). exact (sv_typool _ _ _ _ _ HS).
      * intros a _ [E|[]]. apply (hok_transfer s _ a a); [|reflexivity|apply (pstate_eq s (set_archs s (archs s ++ [new_arch m sh cs])) eq_refl eq_refl)|exact (sv_pool _ _ _ _ _ HS)]. apply (Hsh a). symmetry. exact E.
      * intros k key e' Hin Hfe. left. exists e'. auto.
    + intros j a' Hj. simpl. rewrite nth_error_app1; [exact Hj|]. apply nth_error_Some. congruence.
    + exists (new_arch m sh cs). simpl. split; [apply nth_error_app_last|]. split; [reflexivity|].
      assert (E : si_eqb sh sh = true) by (apply enc_eqb; reflexivity). split; [exact E|]. reflexivity.
Qed.

Lemma hok_null s m a : lowm m -> hdr a = (m, si_null) -> hok s a.
Proof.
  intros Hm E. unfold hdr in E. inversion E as [[E1 E2]]. unfold hok. rewrite E1, E2. split; [exact Hm|]. split; [exact si_null_wf|].
  split; [intros id v Hg; rewrite si_null_get in Hg; discriminate|intros i []].
Qed.

Lemma si_eqb_null sh : si_wf sh -> si_eqb sh si_null = true -> sh = si_null.
Proof.
  intros (Hl & _ & _) H. unfold si_eqb in H. apply andb_true_iff in H. destruct H as (H1 & H2). apply N.eqb_eq in H1.
  destruct (list_eq_dec Nat.eq_dec (si_data sh) (si_data si_null)) as [E|]; [|discriminate]. simpl in H1, E.
  destruct sh as [m ids data]. simpl in *. subst m data. destruct ids; [reflexivity|discriminate].
Qed.

(* ---------------------------------------------------------------------------------------- *)
(* create (without shared types) *)
Lemma SInv_create cis s hs al x tid m via s' out :
  SInv cis s hs al x -> cis_ok cis -> within (S (length hs)) -> lowm m ->
  step s (OCreate tid m [] via) = Ok (s', out) ->
  exists h, out = RHandle h /\ SInv cis s' (hs ++ [h]) (al ++ [(length hs, m)]) (x_step_in x (XoCreate tid m [] via)).
Proof.
  intros HS Hok Hb Hlm H. destruct (SInv_ctl _ _ _ _ _ HS) as (Hl & Hc & Hd & Hxl & Hxd & Hxc & Hcnt & Hal).
  pose proof H as H0. rewrite (step_create_unlocked _ _ _ _ Hl) in H.
  bd H r Hga. destruct r as (s1, ai). cbv beta iota in H. bd H r2 Hcid. destruct r2 as (s2, h). cbv beta iota in H.
  bd H s3 Hins. inversion H; subst s' out; clear H. exists h. split; [reflexivity|].
  destruct (SInv_get_arch _ _ _ _ _ _ _ _ _ HS Hlm (fun a => hok_null s m a Hlm) Hga) as (HS1 & F1 & _ & a & Ha & Hma & Hsa & Hka).
  (* the same step on the re-keyed state *)
  assert (Hrk : step (rk s) (OCreate tid m [] via) = Ok (rk s3, RHandle h)).
  { rewrite (step_create_unlocked (rk s) _ _ _ Hl). rewrite <- (kmk_null m) at 1.
    rewrite (get_arch_rk s m si_null s1 ai Hd (sv_chunk _ _ _ _ _ HS) (SInv_lowm _ _ _ _ _ HS) Hlm Hga), bind_Ok. cbv beta iota.
    rewrite create_id_rk, (rmap_ok _ _ _ Hcid), bind_Ok. unfold rk1. cbn [fst snd]. cbv beta iota.
    rewrite arch_insert_rk, (rmap_ok _ _ _ Hins), bind_Ok. reflexivity. }
  destruct (MInv_create cis (rk s) hs al (xns x) tid m via (rk s3) _ (sv_M _ _ _ _ _ HS) Hok Hb Hrk) as (h' & E & HM3). inversion E; subst h'.
  (* frames *)
  destruct (create_id_frame _ _ _ Hcid) as (A2 & F2).
  assert (Ha2 : nth_error (archs s2) ai = Some a) by (rewrite A2; exact Ha).
  destruct (SInv_awf _ _ _ _ _ _ _ HS1 Ha) as (_ & Wc).
  destruct (arch_insert_ok _ _ _ _ _ _ Ha2 Wc Hins) as (a3 & F3 & A3 & _ & _ & Hab & _).
  destruct (fr3_pool _ _ F2) as (P2 & I2 & C2). destruct (fr2_pool _ _ F3) as (P3 & I3 & C3).
  destruct (pstate_eq s1 s3) as (Hle & Hpw & Htp); [congruence|congruence|].
  assert (Hx : x_step_in x (XoCreate tid m [] via) = x_create (xw_count x (S (x_count x))) (x_count x) m []).
  { unfold x_step_in. rewrite Hxl. reflexivity. }
  assert (Hx0 : x_step_in (xns x) (XoCreate tid m [] via) = x_create (xw_count (xns x) (S (x_count x))) (x_count x) m []).
  { unfold x_step_in. change (x_lock (xns x)) with (x_lock x). rewrite Hxl. reflexivity. }
  destruct (x_create_eq (xw_count x (S (x_count x))) (x_count x) m [] Hxd) as (Fx & Ex).
  destruct (x_create_eq (xw_count (xns x) (S (x_count x))) (x_count x) m [] Hxd) as (Fx0 & Ex0).
  assert (Hfind : forall k, find_ent (x_step_in x (XoCreate tid m [] via)) k =
             if Nat.eqb k (length hs) then Some {| e_k := length hs; e_comps := map (fun c => (c, default_cell cis c)) (mitems m); e_shared := [] |}
             else find_ent x k).
  { intros k. rewrite Hx, find_ent_findk, Ex, findk_put. simpl. rewrite Hcnt, Hxc. reflexivity. }
  assert (Hfind0 : forall k, find_ent (x_step_in (xns x) (XoCreate tid m [] via)) k =
             if Nat.eqb k (length hs) then Some {| e_k := length hs; e_comps := map (fun c => (c, default_cell cis c)) (mitems m); e_shared := [] |}
             else find_ent (xns x) k).
  { intros k. rewrite Hx0, find_ent_findk, Ex0, findk_put. simpl. rewrite Hcnt. change (x_cinfos (xns x)) with (x_cinfos x). rewrite Hxc. reflexivity. }
  apply (SInv_frame cis s1 s3 hs (hs ++ [h]) al _ x _ [] HS1).
  - eapply MInv_ext; [exact HM3| |].
    + rewrite Hx0, Fx0, Hx, xfr_xns, Fx. reflexivity.
    + intros k. rewrite find_ent_xns, Hfind, Hfind0, find_ent_xns. destruct (Nat.eqb k (length hs)); reflexivity.
  - rewrite C3, C2. exact (sv_chunk _ _ _ _ _ HS1).
  - rewrite app_nil_r. unfold hdl. rewrite A3, (hdl_upd _ _ _ _ Ha2 (ab3_hdr _ _ Hab)), A2. reflexivity.
  - exact Hle.
  - apply Hpw. exact (sv_pool _ _ _ _ _ HS1).
  - apply Htp. exact (sv_typool _ _ _ _ _ HS1).
  - intros a0 _ [].
  - intros k key e' Hin Hfe. rewrite Hfind in Hfe. apply in_app_or in Hin. destruct Hin as [Hin|[E0|[]]].
    + left. exists e'. split; [exact Hin|]. split; [|reflexivity].
      destruct (live_m _ _ _ _ _ (mi_G _ _ _ _ _ (sv_M _ _ _ _ _ HS)) Hin) as (Hk & _).
      destruct (Nat.eqb_spec k (length hs)) as [Ek|Ek]; [exfalso; subst k; exact (Nat.lt_irrefl _ Hk)|exact Hfe].
    + right. inversion E0; subst k key. rewrite Nat.eqb_refl in Hfe. inversion Hfe; subst e'. cbn [e_shared].
      exists a3. split; [rewrite A3; eapply nth_error_In; apply nth_error_upd_same; apply nth_error_Some; congruence|].
      assert (Esh : am_shared a = si_null) by (apply si_eqb_null; [apply (SInv_hok _ _ _ _ _ _ _ HS1 Ha)|exact Hsa]).
      split; [rewrite (hdr_kmask _ _ (ab3_hdr _ _ Hab)), Hka; apply kmk_null|].
      destruct (ab3_fields _ _ Hab) as (_ & Es3 & _). rewrite Es3, Esh. reflexivity.
Qed.

(* ---------------------------------------------------------------------------------------- *)
(* erasing the shared values commutes with the structural commands of the specification *)
Lemma map_erase_drop l k : map erase (drop_ent l k) = drop_ent (map erase l) k.
Proof. unfold drop_ent. induction l as [|e t IH]; simpl; [reflexivity|]. destruct (negb (Nat.eqb (e_k e) k)); simpl; rewrite IH; reflexivity. Qed.

Lemma map_erase_put l e : map erase (put_ent l e) = put_ent (map erase l) (erase e).
Proof. unfold put_ent. rewrite map_app, map_erase_drop. reflexivity. Qed.

Lemma xns_kill x k : x_kill (xns x) k = xns (x_kill x k).
Proof.
  unfold x_kill. rewrite find_ent_xns. destruct (find_ent x k) as [e|]; [|reflexivity]. simpl option_map. cbv iota.
  unfold xns. simpl. rewrite map_erase_drop. reflexivity.
Qed.

Lemma widen_xns x k cs : widen (xns x) k cs = widen x k cs.
Proof. unfold widen. change (x_deps (xns x)) with (x_deps x). change (x_cinfos (xns x)) with (x_cinfos x). reflexivity. Qed.

Lemma xns_assign x k c v : x_assign (xns x) k c v = xns (x_assign x k c v).
Proof.
  unfold x_assign. rewrite find_ent_xns. destruct (find_ent x k) as [e|]; [|reflexivity]. simpl option_map. cbv iota.
  change (e_comps (erase e)) with (e_comps e). destruct (has_comp (e_comps e) c); [reflexivity|].
  change (x_cinfos (xns x)) with (x_cinfos x). rewrite widen_xns.
  destruct (widen x k _) as [cs att]. unfold xns. simpl. rewrite map_erase_put. reflexivity.
Qed.

Lemma xns_remove x k c : x_remove (xns x) k c = xns (x_remove x k c).
Proof.
  unfold x_remove. rewrite find_ent_xns. destruct (find_ent x k) as [e|]; [|reflexivity]. simpl option_map. cbv iota.
  change (e_comps (erase e)) with (e_comps e). destruct (negb (has_comp (e_comps e) c)); [reflexivity|].
  change (x_deps (xns x)) with (x_deps x). destruct (mhas _ c); [reflexivity|]. unfold xns. simpl. rewrite map_erase_put. reflexivity.
Qed.

Lemma xns_set x k c z : x_step_in (xns x) (XoSet k c z) = xns (x_step_in x (XoSet k c z)).
Proof.
  unfold x_step_in. rewrite find_ent_xns. destruct (find_ent x k) as [e|]; [|reflexivity]. simpl option_map. cbv iota.
  change (e_comps (erase e)) with (e_comps e). destruct (has_comp (e_comps e) c); [|reflexivity]. unfold xns. simpl. rewrite map_erase_put. reflexivity.
Qed.

(* ---------------------------------------------------------------------------------------- *)
(* destroyNow *)
Lemma SInv_destroy_now cis s hs al x tid k s' out :
  SInv cis s hs al x -> within (length hs) ->
  step s (ODestroyNow tid (hnd hs k)) = Ok (s', out) ->
  out = RNone /\ SInv cis s' hs (kill al k) (x_step_in x (XoDestroyNow tid k)).
Proof.
  intros HS Hb H. destruct (SInv_ctl _ _ _ _ _ HS) as (Hl & Hc & Hd & Hxl & Hxd & Hxc & Hcnt & Hal).
  rewrite (step_destroy_now_unlocked _ _ _ Hl) in H. bd H s1 Hdn. inversion H; subst s' out; clear H. split; [reflexivity|].
  assert (Hrk : step (rk s) (ODestroyNow tid (hnd hs k)) = Ok (rk s1, RNone)).
  { rewrite (step_destroy_now_unlocked (rk s) _ _ Hl). rewrite destroy_now_unlocked_rk, (rmap_ok _ _ _ Hdn). reflexivity. }
  destruct (MInv_destroy_now cis (rk s) hs al (xns x) tid k (rk s1) RNone (sv_M _ _ _ _ _ HS) Hb Hrk) as (_ & HM1).
  assert (Hx : x_step_in (xns x) (XoDestroyNow tid k) = xns (x_step_in x (XoDestroyNow tid k))).
  { unfold x_step_in. change (issued_b (xns x) k) with (issued_b x k). change (x_lock (xns x)) with (x_lock x). rewrite Hxl.
    destruct (negb (issued_b x k)); [reflexivity|apply xns_kill]. }
  rewrite Hx in HM1.
  assert (Hfind : forall k', k' <> k -> find_ent (x_step_in x (XoDestroyNow tid k)) k' = find_ent x k').
  { intros k' Hne. unfold x_step_in. rewrite Hxl. destruct (negb (issued_b x k)); [reflexivity|]. destruct (x_kill_eq x k) as (_ & Hf).
    rewrite Hf. apply Nat.eqb_neq in Hne. rewrite Hne. reflexivity. }
  (* frames *)
  assert (Hfr : hdl s1 = hdl s /\ pool s1 = pool s /\ insts s1 = insts s /\ chunk_fns s1 = chunk_fns s).
  { unfold destroy_now_unlocked in Hdn. destruct (is_valid s (hnd hs k)) eqn:Ev; [|inversion Hdn; auto].
    destruct (valid_find_s _ _ _ _ _ _ HS Ev) as (Hk & Ha & e & Hfe). destruct (alive_in _ _ Ha) as (key & Hin).
    destruct (live_s _ _ _ _ _ _ _ _ HS Hin Hfe) as (_ & ai & idx & a & Hloc & Harch & _ & _).
    rewrite (nth_res_some _ _ _ Hloc) in Hdn. bok Hdn. simpl l_arch in Hdn. cbv iota in Hdn. simpl l_idx in Hdn.
    bd Hdn s2 Hrm. inversion Hdn; subst s1; clear Hdn.
    destruct (SInv_awf _ _ _ _ _ _ _ HS Harch) as (W1 & W2).
    destruct (arch_remove_ok _ _ _ _ _ _ _ Harch W1 W2 Hrm) as (a' & F2 & A2 & (last & _ & Hab & _)).
    destruct (fr2_pool _ _ F2) as (P2 & I2 & C2).
    split; [|auto]. unfold hdl. change (archs (release_id s2 (hnd hs k))) with (archs s2). rewrite A2. apply (hdl_upd _ _ _ _ Harch (ab3_hdr _ _ Hab)). }
  destruct Hfr as (Eh & Ep & Ei & Ec). destruct (pstate_eq s s1 Ep Ei) as (Hle & Hpw & Htp).
  apply (SInv_frame cis s s1 hs hs al _ x _ [] HS HM1).
  - rewrite Ec. exact (sv_chunk _ _ _ _ _ HS).
  - rewrite app_nil_r. exact Eh.
  - exact Hle.
  - apply Hpw. exact (sv_pool _ _ _ _ _ HS).
  - apply Htp. exact (sv_typool _ _ _ _ _ HS).
  - intros a0 _ [].
  - intros k' key e' Hin Hfe. apply kill_in in Hin. destruct Hin as (Hin & Hne). left. exists e'. rewrite (Hfind k' Hne) in Hfe. auto.
Qed.

(* ---------------------------------------------------------------------------------------- *)
(* write through getComponent<T>() *)
Lemma SInv_set cis s hs al x k c z s' out :
  SInv cis s hs al x -> c < MASK_BITS ->
  step s (OGetMut (hnd hs k) c (Some z)) = Ok (s', out) ->
  (exists p w, out = RCell p w) /\ SInv cis s' hs al (x_step_in x (XoSet k c z)).
Proof.
  intros HS Hc128 H. destruct (SInv_ctl _ _ _ _ _ HS) as (Hl & Hc & Hd & Hxl & Hxd & Hxc & Hcnt & Hal).
  assert (Hg : get_mut s (hnd hs k) c (Some z) = Ok (s', out)) by exact H.
  assert (Hrk : step (rk s) (OGetMut (hnd hs k) c (Some z)) = Ok (rk s', out)).
  { change (get_mut (rk s) (hnd hs k) c (Some z) = Ok (rk s', out)). rewrite (get_mut_rk _ _ _ _ Hc128), (rmap_ok _ _ _ Hg). reflexivity. }
  destruct (MInv_set cis (rk s) hs al (xns x) k c z (rk s') out (sv_M _ _ _ _ _ HS) Hc128 Hrk) as (Ho & HM1).
  split; [exact Ho|]. rewrite xns_set in HM1.
  (* frames *)
  assert (Hfr : hdl s' = hdl s /\ pool s' = pool s /\ insts s' = insts s /\ chunk_fns s' = chunk_fns s).
  { unfold get_mut in Hg. destruct (is_valid s (hnd hs k)) eqn:Ev; simpl negb in Hg; cbv iota in Hg; [|inversion Hg; auto].
    destruct (valid_find_s _ _ _ _ _ _ HS Ev) as (Hk & Ha & e & Hfe). destruct (alive_in _ _ Ha) as (key & Hin).
    destruct (live_s _ _ _ _ _ _ _ _ HS Hin Hfe) as (_ & ai & idx & a & Hloc & Harch & _ & _).
    rewrite (nth_res_some _ _ _ Hloc) in Hg. bok Hg. simpl l_arch in Hg. cbv iota in Hg. simpl l_idx in Hg.
    rewrite (nth_res_some _ _ _ Harch) in Hg. bok Hg. destruct (cindex (am_mask a) c) as [ci|]; [|inversion Hg; auto].
    bd Hg ch Hch. bd Hg a1 Ha1. apply vs_set_one_ok in Ha1. destruct Ha1 as (g & cv & ->). cbv zeta in Hg. inversion Hg; subst s' out; clear Hg.
    split; [|auto]. unfold hdl. simpl archs. apply (hdl_upd _ _ _ _ Harch). reflexivity. }
  destruct Hfr as (Eh & Ep & Ei & Ec). destruct (pstate_eq s s' Ep Ei) as (Hle & Hpw & Htp).
  apply (SInv_frame cis s s' hs hs al _ x _ [] HS HM1).
  - rewrite Ec. exact (sv_chunk _ _ _ _ _ HS).
  - rewrite app_nil_r. exact Eh.
  - exact Hle.
  - apply Hpw. exact (sv_pool _ _ _ _ _ HS).
  - apply Htp. exact (sv_typool _ _ _ _ _ HS).
  - intros a0 _ [].
  - intros k' key e' Hin Hfe. left. unfold x_step_in in Hfe. destruct (find_ent x k) as [e|] eqn:Hfk; [|exists e'; auto].
    destruct (has_comp (e_comps e) c); [|exists e'; auto].
    rewrite find_ent_findk in Hfe. simpl in Hfe. rewrite findk_put in Hfe. simpl in Hfe.
    destruct (Nat.eqb_spec k' k) as [->|Hne]; [|exists e'; auto]. inversion Hfe; subst e'. exists e. auto.
Qed.

(* ---------------------------------------------------------------------------------------- *)
(* the invariant reads the abstract state through find_ent and the control fields only *)
Lemma SInv_ext cis s hs al x x' : SInv cis s hs al x -> xfr x' = xfr x -> (forall k, find_ent x' k = find_ent x k) -> SInv cis s hs al x'.
Proof.
  intros [HM Hcf Hh Hp Ht HK] Fx Hf. constructor; try assumption.
  - eapply MInv_ext; [exact HM|rewrite !xfr_xns; exact Fx|]. intros k. rewrite !find_ent_xns, Hf. reflexivity.
  - intros k key e Hin Hfe. rewrite Hf in Hfe. apply (HK k key e Hin Hfe).
Qed.

Lemma SInv_set_log cis s hs al x l : SInv cis s hs al x -> SInv cis (set_log s l) hs al x.
Proof. intros [HM Hcf Hh Hp Ht HK]. constructor; try assumption. exact (MInv_set_log cis (rk s) hs al (xns x) l HM). Qed.

Lemma SInv_emit cis s hs al x ev : SInv cis s hs al x -> SInv cis (emit s ev) hs al x.
Proof. apply SInv_set_log. Qed.

(* ---------------------------------------------------------------------------------------- *)
(* a live entity moves to another archetype: its cells follow it, its shared values are those of the target *)
Lemma SInv_move cis s hs al x k key e ai a_t pai pidx pa skip s2 x' e' :
  SInv cis s hs al x -> In (k, key) al -> find_ent x k = Some e ->
  nth_error (locs s) (N.to_nat (fst (hnd hs k))) = Some {| l_arch := Some pai; l_idx := pidx |} ->
  nth_error (archs s) pai = Some pa -> nth_error (am_ents pa) pidx = Some (hnd hs k) ->
  nth_error (archs s) ai = Some a_t ->
  external_move s ai (hnd hs k) pai pidx skip = Ok s2 ->
  (forall a2, am_mask a2 = am_mask (ha a_t) ->
     (forall ci c, nth_error (mitems (am_mask (ha a_t))) ci = Some c ->
        (forall pci, cindex (am_mask (ha pa)) c = Some pci -> get_cell a2 ci (length (am_ents a_t)) = get_cell pa pci pidx) /\
        (cindex (am_mask (ha pa)) c = None -> mhas skip c = false ->
         cell_le (default_cell cis c) (get_cell a2 ci (length (am_ents a_t))) = true)) ->
     vmatch (erase e') a2 (length (am_ents a_t))) ->
  e_k e' = k -> xfr x' = xfr x -> (forall k', find_ent x' k' = if Nat.eqb k' k then Some e' else find_ent x k') ->
  e_shared e' = shvals s (am_shared a_t) ->
  SInv cis s2 hs (retag al k (am_mask (ha a_t))) x' /\
  exists a2, nth_error (archs s2) ai = Some a2 /\ hdr a2 = hdr a_t /\
     nth_error (am_ents a2) (length (am_ents a_t)) = Some (hnd hs k) /\
     nth_error (locs s2) (N.to_nat (fst (hnd hs k))) = Some {| l_arch := Some ai; l_idx := length (am_ents a_t) |}.
Proof.
  intros HS Hin Hfe Hloc Hpa Hent Hat Hmv Hnew Hek Fx Hfind Hsh.
  assert (Hfe' : find_ent (xns x) k = Some (erase e)) by (rewrite find_ent_xns, Hfe; reflexivity).
  assert (Hmv' : external_move (rk s) ai (hnd hs k) pai pidx skip = Ok (rk s2)).
  { rewrite (external_move_rk s ai _ pai pidx skip skip) by (intros c0 _; reflexivity). rewrite (rmap_ok _ _ _ Hmv). reflexivity. }
  destruct (MInv_move cis (rk s) hs al (xns x) k key (erase e) ai (ha a_t) pai pidx (ha pa) skip (rk s2) (erase e')
              (sv_M _ _ _ _ _ HS) Hin Hfe' Hek Hloc (arch_rk _ _ _ Hpa) Hent (arch_rk _ _ _ Hat) Hmv' Hnew) as (HM2 & a2r & Ha2r & Em2 & Hent2 & Hloc2).
  destruct (arch_rk_inv _ _ _ Ha2r) as (a2 & Ha2 & ->).
  (* frames *)
  destruct (SInv_awf _ _ _ _ _ _ _ HS Hat) as (_ & Wt). destruct (SInv_awf _ _ _ _ _ _ _ HS Hpa) as (Wp1 & Wp2).
  destruct (external_move_ok _ _ _ _ _ _ _ _ _ Hat Hpa Wt Wp1 Wp2 Hmv)
    as (Hne & a2' & pa' & pent & l3 & F & A & _ & (last & _ & Habp & _) & _ & _ & Hab & _).
  assert (Hai : ai < length (archs s)) by (apply nth_error_Some; congruence).
  assert (Ea2 : a2' = a2).
  { rewrite A, nth_error_upd_other in Ha2 by congruence. rewrite nth_error_upd_same in Ha2 by exact Hai. congruence. }
  subst a2'. destruct (fr2_pool _ _ F) as (Ep & Ei & Ec). destruct (pstate_eq s s2 Ep Ei) as (Hle & Hpw & Htp).
  assert (Eh : hdl s2 = hdl s).
  { unfold hdl. rewrite A. rewrite (hdl_upd (upd (archs s) ai a2) pai pa pa'); [apply (hdl_upd _ _ _ _ Hat (ab3_hdr _ _ Hab))| |apply (ab3_hdr _ _ Habp)].
    rewrite nth_error_upd_other by exact Hne. exact Hpa. }
  split.
  - apply (SInv_frame cis s s2 hs hs al _ x x' [] HS).
    + eapply MInv_ext; [exact HM2|rewrite xfr_xns, Fx; reflexivity|].
      intros k'. rewrite find_ent_xns, Hfind, xput_find, find_ent_xns. simpl. rewrite Hek. destruct (Nat.eqb k' k); reflexivity.
    + rewrite Ec. exact (sv_chunk _ _ _ _ _ HS).
    + rewrite app_nil_r. exact Eh.
    + exact Hle.
    + apply Hpw. exact (sv_pool _ _ _ _ _ HS).
    + apply Htp. exact (sv_typool _ _ _ _ _ HS).
    + intros a0 _ [].
    + intros k' key' e0 Hin' Hfe0. rewrite Hfind in Hfe0. apply retag_in in Hin'. destruct Hin' as [(-> & -> & _)|(Hnk & Hin')].
      * right. rewrite Nat.eqb_refl in Hfe0. inversion Hfe0; subst e0. exists a2. split; [eapply nth_error_In; exact Ha2|].
        split; [apply hdr_kmask; apply (ab3_hdr _ _ Hab)|]. destruct (ab3_fields _ _ Hab) as (_ & Es & _). rewrite Es, Hsh.
        symmetry. apply shvals_insts. intros i _. apply inst_value_insts. exact Ei.
      * left. exists e0. apply Nat.eqb_neq in Hnk. rewrite Hnk in Hfe0. auto.
  - exists a2. split; [exact Ha2|]. split; [apply (ab3_hdr _ _ Hab)|]. split; [exact Hent2|exact Hloc2].
Qed.

(* ---------------------------------------------------------------------------------------- *)
(* writing one cell of a live entity *)
Lemma SInv_put cis s hs al x k key e ai idx a ci c v :
  SInv cis s hs al x -> In (k, key) al -> find_ent x k = Some e ->
  nth_error (archs s) ai = Some a -> nth_error (am_ents a) idx = Some (hnd hs k) ->
  cindex (am_mask a) c = Some ci -> c < MASK_BITS -> ci < length (am_cols a) ->
  SInv cis (set_arch s ai (put_cell a ci idx (Some v))) hs al
       (xput x {| e_k := k; e_comps := insert_comp (e_comps e) c (Some v); e_shared := e_shared e |}).
Proof.
  intros HS Hin Hfe Ha Hent Hci Hc128 Hlt.
  assert (Hfe' : find_ent (xns x) k = Some (erase e)) by (rewrite find_ent_xns, Hfe; reflexivity).
  assert (Hci' : cindex (am_mask (ha a)) c = Some ci) by (rewrite ha_mask, (cindex_kmk _ _ _ Hc128); exact Hci).
  assert (HM : MInv cis (rk (set_arch s ai (put_cell a ci idx (Some v)))) hs al
                 (xput (xns x) {| e_k := k; e_comps := insert_comp (e_comps (erase e)) c (Some v); e_shared := e_shared (erase e) |})).
  { eapply (MInv_put cis (rk s) hs al (xns x) k key (erase e) ai idx (ha a) ci c v (put_cell (ha a) ci idx (Some v)));
      [exact (sv_M _ _ _ _ _ HS)|exact Hin|exact Hfe'|apply arch_rk; exact Ha|exact Hent|exact Hci'|exact Hc128|reflexivity| | | | |].
    - rewrite hs_set_arch, <- ha_put. reflexivity.
    - apply ab1_ab2. apply ab1_put.
    - apply put_cell_cols_length.
    - intros ci' slot [Hn|Hn]; [apply get_put_other_col|apply get_put_other_slot]; congruence.
    - apply get_put_same. exact Hlt. }
  destruct (pstate_eq s (set_arch s ai (put_cell a ci idx (Some v))) eq_refl eq_refl) as (Hle & Hpw & Htp).
  apply (SInv_frame cis s _ hs hs al al x _ [] HS).
  - eapply MInv_ext; [exact HM|reflexivity|]. intros k'. rewrite find_ent_xns, !xput_find, find_ent_xns. simpl. destruct (Nat.eqb k' k); reflexivity.
  - exact (sv_chunk _ _ _ _ _ HS).
  - rewrite app_nil_r. unfold hdl. simpl archs. apply (hdl_upd _ _ _ _ Ha). reflexivity.
  - exact Hle.
  - apply Hpw. exact (sv_pool _ _ _ _ _ HS).
  - apply Htp. exact (sv_typool _ _ _ _ _ HS).
  - intros a0 _ [].
  - intros k' key' e0 Hin' Hfe0. left. rewrite xput_find in Hfe0. simpl in Hfe0. destruct (Nat.eqb_spec k' k) as [->|Hne]; [|exists e0; auto].
    inversion Hfe0; subst e0. exists e. split; [|auto].
    (* the key of k in al is unique *)
    pose proof (g_al_nodup (mi_G _ _ _ _ _ (sv_M _ _ _ _ _ HS))) as Hnd.
    assert (key' = key) by (eapply (nodup_keys_value al k key' key Hnd); assumption). subst key'. exact Hin'.
Qed.

(* ---------------------------------------------------------------------------------------- *)
(* assign (ordinary component): the target archetype has the same shared info *)
Lemma hok_mask s a m : hok s a -> lowm m -> forall a', hdr a' = (m, am_shared a) -> hok s a'.
Proof.
  intros (_ & H2 & H3 & H4) Hm a' E. unfold hdr in E. inversion E as [[E1 E2]]. unfold hok. rewrite E1, E2. auto.
Qed.

Lemma shvals_same_key cis s hs al x a b i j : SInv cis s hs al x -> nth_error (archs s) i = Some a -> nth_error (archs s) j = Some b ->
  si_eqb (am_shared a) (am_shared b) = true -> shvals s (am_shared a) = shvals s (am_shared b).
Proof.
  intros HS Ha Hb E. destruct (SInv_hok _ _ _ _ _ _ _ HS Ha) as (_ & A2 & A3 & _). destruct (SInv_hok _ _ _ _ _ _ _ HS Hb) as (_ & B2 & B3 & _).
  apply (shvals_eqb s (ty s)); assumption.
Qed.

Lemma SInv_assign cis s hs al x tid k c v typed s' out :
  SInv cis s hs al x -> c < MASK_BITS ->
  (forall z inf, v = Some z -> nth_error cis c = Some inf -> ci_hasval inf = true) ->
  alive_x x k = true -> x_viol (x_step_in x (XoAssign tid k c v)) = x_viol x ->
  step s (OAssign tid (hnd hs k) c (match v with Some z => AValue z | None => ADefault end) typed) = Ok (s', out) ->
  out = RNone /\ exists al', SInv cis s' hs al' (x_step_in x (XoAssign tid k c v)).
Proof.
  intros HS Hc128 Hhv Hax Hviol H. destruct (SInv_ctl _ _ _ _ _ HS) as (Hl & Hc & Hd & Hxl & Hxd & Hxc & Hcnt & Hal).
  destruct (alive_in _ _ (proj2 (Hal k) Hax)) as (key & Hin).
  destruct (find_ent x k) as [e|] eqn:Hfe; [|apply alive_x_find in Hax; congruence].
  destruct (live_s _ _ _ _ _ _ _ _ HS Hin Hfe) as (Hk & pai & pidx & pa & Hloc & Hpa & Hkey & Hent & Hvm & Hsh).
  assert (Hx : x_step_in x (XoAssign tid k c v) = x_assign x k c v).
  { unfold x_step_in, issued_b. rewrite Hcnt. apply Nat.ltb_lt in Hk. rewrite Hk, Hxl. reflexivity. }
  rewrite Hx in *.
  assert (Hhc : has_comp (e_comps e) c = false).
  { destruct (has_comp (e_comps e) c) eqn:E; [|reflexivity]. unfold x_assign in Hviol. rewrite Hfe, E in Hviol. simpl in Hviol. lia. }
  destruct (x_assign_eq x k c v e Hxd Hfe Hhc) as (Fx & Ex). rewrite Hxc in Ex.
  assert (Hmc' : mhas (am_mask (ha pa)) c = false) by (rewrite <- (vmatch_has _ _ _ _ Hvm Hc128); exact Hhc).
  assert (Hmc : mhas (am_mask pa) c = false) by (rewrite ha_mask, (kmk_low _ _ _ Hc128) in Hmc'; exact Hmc').
  pose proof (SInv_hok _ _ _ _ _ _ _ HS Hpa) as Hokpa.
  (* the model step *)
  rewrite (step_assign_unlocked _ _ _ _ _ _ Hl) in H. bd H inf Hinf. apply info_of_ok in Hinf. rewrite Hc in Hinf.
  bd H r Hr. destruct r as (s2, ((ai, ci), slot)). cbv beta iota in H.
  unfold assign_unlocked in Hr. bd Hr la Hla.
  assert (Ela : la = (pai, pidx)).
  { unfold loc_arch in Hla. rewrite (nth_res_some _ _ _ Hloc) in Hla. bok Hla. simpl in Hla. inversion Hla. reflexivity. }
  subst la. cbv beta iota in Hr. rewrite (nth_res_some _ _ _ Hpa) in Hr. bok Hr. cbv zeta in Hr.
  bd Hr rg Hga. destruct rg as (s_g, ai'). cbv beta iota in Hr.
  set (m0 := madd (am_mask pa) c) in *.
  assert (Hlm0 : lowm m0) by (apply lowm_madd; [exact (proj1 Hokpa)|exact Hc128]).
  destruct (SInv_get_arch _ _ _ _ _ _ _ _ _ HS Hlm0 (hok_mask s pa m0 Hokpa Hlm0) Hga) as (HSg & Fg & Hkeep & a_t & Hat & Hmt & Hsat & Hkat).
  bd Hr s2' Hmv. bd Hr a2' Ha2'. apply nth_res_ok in Ha2'. bd Hr l2 Hl2. apply nth_res_ok in Hl2.
  destruct (cindex (am_mask a2') c) as [ci'|] eqn:Eci; [|discriminate]. inversion Hr; subst s2' ai' ci' slot; clear Hr.
  match type of Hmv with external_move _ _ _ _ _ ?sk = _ => set (skip := sk) in * end.
  set (cmid := match v with Some _ => None | None => default_cell cis c end).
  set (e_mid := {| e_k := k; e_comps := insert_comp (e_comps e) c cmid; e_shared := e_shared e |}).
  assert (Hloc_g : nth_error (locs s_g) (N.to_nat (fst (hnd hs k))) = Some {| l_arch := Some pai; l_idx := pidx |})
    by (rewrite (fr1_locs _ _ Fg); exact Hloc).
  assert (Hpa_g : nth_error (archs s_g) pai = Some pa) by (apply Hkeep; exact Hpa).
  assert (Hmt' : mitems (am_mask (ha a_t)) = mitems m0) by (rewrite Hkat; apply mitems_kmk).
  assert (Hnew : forall a2, am_mask a2 = am_mask (ha a_t) ->
     (forall ci c0, nth_error (mitems (am_mask (ha a_t))) ci = Some c0 ->
        (forall pci, cindex (am_mask (ha pa)) c0 = Some pci -> get_cell a2 ci (length (am_ents a_t)) = get_cell pa pci pidx) /\
        (cindex (am_mask (ha pa)) c0 = None -> mhas skip c0 = false ->
         cell_le (default_cell cis c0) (get_cell a2 ci (length (am_ents a_t))) = true)) ->
     vmatch (erase e_mid) a2 (length (am_ents a_t))).
  { intros a2 Em2 Hcells. destruct Hvm as (Hm0 & Hs0 & Hv0). cbn [erase e_comps] in Hm0, Hv0.
    assert (Hkeys : map fst (insert_comp (e_comps e) c cmid) = mitems (am_mask a2)).
    { rewrite map_fst_insert_comp, Hm0, Em2, Hmt', mitems_ha. symmetry. apply mitems_madd. exact Hc128. }
    split; [exact Hkeys|]. split; [reflexivity|]. simpl. intros c' v' Hin'.
    assert (Hi' : In c' (mitems (am_mask (ha a_t)))) by (rewrite <- Em2, <- Hkeys; apply in_map_iff; exists (c', v'); auto).
    apply In_nth_error in Hi'. destruct Hi' as (ci' & Hci'). destruct (Hcells ci' c' Hci') as (Hmoved & Hdflt).
    unfold acell. rewrite Em2, (nth_cindex _ _ _ Hci').
    apply insert_comp_cases in Hin'; [|rewrite Hkeys; apply mitems_nodup]. destruct Hin' as [(-> & ->)|(Hnc & Hin')].
    - unfold cmid. destruct v as [z|]; [reflexivity|]. apply Hdflt; [apply cindex_none_has; exact Hmc'|apply mhas_zero].
    - specialize (Hv0 c' v' Hin'). unfold acell in Hv0. destruct (cindex (am_mask (ha pa)) c') as [pci|] eqn:Epci.
      + rewrite (Hmoved pci eq_refl). exact Hv0.
      + exfalso. apply cindex_none_has in Epci.
        assert (Hi : In c' (mitems (am_mask (ha pa)))) by (rewrite <- Hm0; apply in_map_iff; exists (c', v'); auto).
        apply mitems_in in Hi. destruct Hi. congruence. }
  assert (Hshm : e_shared e_mid = shvals s_g (am_shared a_t)).
  { simpl. rewrite Hsh. rewrite (shvals_same_key _ _ _ _ _ a_t pa ai pai HSg Hat Hpa_g Hsat).
    symmetry. apply shvals_insts. intros i _. apply inst_value_insts. apply (f_equal insts) in Fg. exact Fg. }
  destruct (SInv_move cis s_g hs al x k key e ai a_t pai pidx pa skip s2 (xput x e_mid) e_mid HSg Hin Hfe Hloc_g Hpa_g Hent Hat Hmv Hnew
              eq_refl (xput_xfr x e_mid) (xput_find x e_mid) Hshm) as (HS2 & a2 & Ha2 & Eh2 & Hent2 & Hloc2).
  rewrite Ha2 in Ha2'. inversion Ha2'; subst a2'. rewrite Hloc2 in Hl2. inversion Hl2; subst l2. simpl l_idx in H.
  destruct v as [z|].
  - (* a value is written *)
    rewrite (Hhv z inf eq_refl Hinf) in H. bd H s3 Hw. apply write_cell_ok in Hw. destruct Hw as (a2'' & Ha2'' & ->).
    rewrite Ha2 in Ha2''. inversion Ha2''; subst a2''.
    assert (Hci_lt : ci < length (am_cols a2)).
    { destruct (SInv_awf _ _ _ _ _ _ _ HS2 Ha2) as (_ & W). rewrite W. apply (cindex_lt _ _ _ Hc128 Eci). }
    pose proof (SInv_put cis s2 hs _ (xput x e_mid) k (am_mask (ha a_t)) e_mid ai (length (am_ents a_t)) a2 ci c z HS2
                  (retag_same _ _ _ _ Hin)) as HS3.
    specialize (HS3 ltac:(rewrite xput_find; simpl; rewrite Nat.eqb_refl; reflexivity) Ha2 Hent2 Eci Hc128 Hci_lt).
    assert (HS4 : SInv cis (set_arch s2 ai (put_cell a2 ci (length (am_ents a_t)) (Some z))) hs (retag al k (am_mask (ha a_t))) (x_assign x k c (Some z))).
    { eapply SInv_ext; [exact HS3|rewrite Fx; reflexivity|]. intros k'. rewrite find_ent_findk, Ex, findk_put, !xput_find. simpl.
      rewrite insert_comp_twice. destruct (Nat.eqb k' k); reflexivity. }
    destruct typed; inversion H; subst s' out; (split; [reflexivity|]); eexists.
    + destruct (ci_aa inf), (ci_ev inf); repeat apply SInv_emit; exact HS4.
    + exact HS4.
  - (* default construction *)
    inversion H; subst s' out. split; [reflexivity|]. eexists. eapply SInv_ext; [exact HS2|rewrite Fx; reflexivity|].
    intros k'. rewrite find_ent_findk, Ex, findk_put, xput_find. reflexivity.
Qed.

(* ---------------------------------------------------------------------------------------- *)
(* removeComponent *)
Lemma SInv_remove cis s hs al x tid k c typed s' out :
  SInv cis s hs al x -> c < MASK_BITS -> (typed = true \/ alive_x x k = true) ->
  step s (ORemove tid (hnd hs k) c typed) = Ok (s', out) ->
  out = RNone /\ exists al', SInv cis s' hs al' (x_step_in x (XoRemove tid k c typed)).
Proof.
  intros HS Hc128 Hctr H. destruct (SInv_ctl _ _ _ _ _ HS) as (Hl & Hc & Hd & Hxl & Hxd & Hxc & Hcnt & Hal).
  rewrite (step_remove_unlocked _ _ _ _ _ Hl) in H.
  assert (Hx : x_step_in x (XoRemove tid k c typed) = if negb (issued_b x k) then x else x_remove x k c).
  { unfold x_step_in. rewrite Hxl. reflexivity. }
  rewrite Hx. clear Hx.
  destruct (is_valid s (hnd hs k)) eqn:Ev.
  - (* the handle is alive *)
    destruct (valid_find_s _ _ _ _ _ _ HS Ev) as (Hk & Ha & e & Hfe). destruct (alive_in _ _ Ha) as (key & Hin).
    unfold issued_b. rewrite Hcnt. apply Nat.ltb_lt in Hk. rewrite Hk. simpl negb. cbv iota.
    rewrite andb_false_r in H. bd H s1 Hr. inversion H; subst s' out; clear H. split; [reflexivity|].
    destruct (live_s _ _ _ _ _ _ _ _ HS Hin Hfe) as (_ & pai & pidx & pa & Hloc & Hpa & Hkey & Hent & Hvm & Hsh).
    pose proof (SInv_hok _ _ _ _ _ _ _ HS Hpa) as Hokpa.
    unfold remove_unlocked in Hr. rewrite (nth_res_some _ _ _ Hloc) in Hr. bok Hr. simpl l_arch in Hr. cbv iota in Hr.
    rewrite (nth_res_some _ _ _ Hpa) in Hr. bok Hr. simpl l_idx in Hr.
    assert (Hhas : has_comp (e_comps e) c = mhas (am_mask pa) c).
    { pose proof (vmatch_has _ _ _ _ Hvm Hc128) as E. cbn [erase e_comps] in E. rewrite E, ha_mask. apply (kmk_low _ _ _ Hc128). }
    destruct (mhas (am_mask pa) c) eqn:Emc; simpl negb in Hr; cbv iota in Hr.
    + bd Hr rg Hga. destruct rg as (s_g, ai). cbv beta iota in Hr.
      set (m0 := mdel (am_mask pa) c) in *.
      assert (Hlm0 : lowm m0) by (apply lowm_mdel; exact (proj1 Hokpa)).
      destruct (SInv_get_arch _ _ _ _ _ _ _ _ _ HS Hlm0 (hok_mask s pa m0 Hokpa Hlm0) Hga) as (HSg & Fg & Hkeep & a_t & Hat & Hmt & Hsat & Hkat).
      assert (Hpa_g : nth_error (archs s_g) pai = Some pa) by (apply Hkeep; exact Hpa).
      destruct (Nat.eqb_spec ai pai) as [->|Hne].
      { exfalso. rewrite Hpa_g in Hat. inversion Hat; subst a_t.
        assert (E : mhas m0 c = true) by (rewrite <- Hmt; exact Emc).
        unfold m0 in E. rewrite ManagerBasics.mhas_mdel, Nat.eqb_refl, andb_false_r in E. discriminate. }
      assert (Hloc_g : nth_error (locs s_g) (N.to_nat (fst (hnd hs k))) = Some {| l_arch := Some pai; l_idx := pidx |})
        by (rewrite (fr1_locs _ _ Fg); exact Hloc).
      set (e_new := {| e_k := k; e_comps := filter (fun p => negb (Nat.eqb (fst p) c)) (e_comps e); e_shared := e_shared e |}).
      assert (Hmt' : mitems (am_mask (ha a_t)) = mitems m0) by (rewrite Hkat; apply mitems_kmk).
      assert (Hnew : forall a2, am_mask a2 = am_mask (ha a_t) ->
         (forall ci c0, nth_error (mitems (am_mask (ha a_t))) ci = Some c0 ->
            (forall pci, cindex (am_mask (ha pa)) c0 = Some pci -> get_cell a2 ci (length (am_ents a_t)) = get_cell pa pci pidx) /\
            (cindex (am_mask (ha pa)) c0 = None -> mhas 0%N c0 = false ->
             cell_le (default_cell cis c0) (get_cell a2 ci (length (am_ents a_t))) = true)) ->
         vmatch (erase e_new) a2 (length (am_ents a_t))).
      { intros a2 Em2 Hcells. destruct Hvm as (Hm0 & Hs0 & Hv0). cbn [erase e_comps] in Hm0, Hv0.
        assert (Hkeys : map fst (e_comps e_new) = mitems (am_mask a2)).
        { simpl. rewrite map_fst_filter, Hm0, Em2, Hmt', mitems_ha. symmetry. apply mitems_mdel. }
        split; [exact Hkeys|]. split; [reflexivity|]. intros c' v' Hin'. cbn [erase e_comps] in Hin'.
        assert (Hi' : In c' (mitems (am_mask (ha a_t)))) by (rewrite <- Em2, <- Hkeys; apply in_map_iff; exists (c', v'); auto).
        apply In_nth_error in Hi'. destruct Hi' as (ci' & Hci'). destruct (Hcells ci' c' Hci') as (Hmoved & _).
        unfold acell. rewrite Em2, (nth_cindex _ _ _ Hci'). simpl in Hin'. apply filter_In in Hin'. destruct Hin' as (Hin' & _).
        specialize (Hv0 c' v' Hin'). unfold acell in Hv0. destruct (cindex (am_mask (ha pa)) c') as [pci|] eqn:Epci.
        - rewrite (Hmoved pci eq_refl). exact Hv0.
        - exfalso. apply cindex_none_has in Epci.
          assert (Hi : In c' (mitems (am_mask (ha pa)))) by (rewrite <- Hm0; apply in_map_iff; exists (c', v'); auto).
          apply mitems_in in Hi. destruct Hi. congruence. }
      assert (Hshm : e_shared e_new = shvals s_g (am_shared a_t)).
      { simpl. rewrite Hsh. rewrite (shvals_same_key _ _ _ _ _ a_t pa ai pai HSg Hat Hpa_g Hsat).
        symmetry. apply shvals_insts. intros i _. apply inst_value_insts. apply (f_equal insts) in Fg. exact Fg. }
      destruct (SInv_move cis s_g hs al x k key e ai a_t pai pidx pa 0%N s1 (xput x e_new) e_new HSg Hin Hfe Hloc_g Hpa_g Hent Hat Hr Hnew
                  eq_refl (xput_xfr x e_new) (xput_find x e_new) Hshm) as (HS2 & _).
      assert (Hhas' : has_comp (e_comps e) c = true) by (rewrite Hhas; reflexivity).
      destruct (x_remove_eq x k c e Hxd Hfe Hhas') as (Fx & Ex).
      eexists. eapply SInv_ext; [exact HS2|rewrite Fx; reflexivity|].
      intros k'. rewrite find_ent_findk, Ex, findk_put, xput_find. reflexivity.
    + inversion Hr; subst s1. rewrite (x_remove_absent _ _ _ _ Hfe Hhas). eauto.
  - (* the handle is not alive *)
    pose proof (dead_find_s _ _ _ _ _ _ HS Ev) as Hfe.
    assert (Ety : typed = true).
    { destruct Hctr as [E|E]; [exact E|]. apply alive_x_find in E. congruence. }
    subst typed. simpl in H. inversion H; subst s' out. split; [reflexivity|]. exists al.
    destruct (negb (issued_b x k)); [exact HS|]. unfold x_remove. rewrite Hfe. exact HS.
Qed.

(* ---------------------------------------------------------------------------------------- *)
(* shared instances: allocation keeps the invariant; the new shared infos are well formed, typed and pooled *)
Lemma MInv_set_pool cis s hs al x p i : MInv cis s hs al x -> MInv cis (set_pool s p i) hs al x.
Proof. intros [A B C D E F G0 H I J K L]. constructor; assumption. Qed.

Lemma alloc_form s sid v : exists p, fst (alloc_shared s sid v) = set_pool s p (insts s ++ [(sid, v)]).
Proof.
  unfold alloc_shared, new_inst. cbn [fst snd]. rewrite created_shared_unfold. destruct (find _ _); eexists; reflexivity.
Qed.

Lemma alloc_typool s sid v : typool s -> pool_wf s -> typool (fst (alloc_shared s sid v)).
Proof.
  intros Ht (_ & Hval). pose proof (alloc_shared_le s sid v) as Hle.
  assert (Hold : forall sid' i, In i (pool_of s sid') -> ty (fst (alloc_shared s sid v)) i = sid').
  { intros sid' i Hi. rewrite (ty_le _ _ _ Hle (Hval _ _ Hi)). apply Ht. exact Hi. }
  intros sid' i Hi. unfold alloc_shared in Hi. set (s0 := fst (new_inst s sid v)) in *. rewrite new_inst_snd in Hi.
  destruct (Nat.eq_dec sid' sid) as [->|Hne].
  - destruct (find (same_val s0 (length (insts s))) (pool_of s0 sid)) as [j|] eqn:Ef.
    + destruct (created_shared_found _ _ _ _ Ef) as (_ & Ep). rewrite Ep in Hi. unfold s0 in Hi. rewrite new_inst_pool in Hi. apply Hold. exact Hi.
    + destruct (created_shared_fresh _ _ _ Ef) as (_ & Ep). rewrite Ep in Hi. apply in_app_or in Hi. destruct Hi as [Hi|[<-|[]]].
      * unfold s0 in Hi. rewrite new_inst_pool in Hi. apply Hold. exact Hi.
      * destruct (alloc_form s sid v) as (p & E). unfold ty. rewrite E. cbn [insts set_pool]. rewrite app_nth2 by lia. rewrite Nat.sub_diag. reflexivity.
  - rewrite created_shared_other in Hi by exact Hne. unfold s0 in Hi. rewrite new_inst_pool in Hi. apply Hold. exact Hi.
Qed.

Lemma in_upd {A} (l : list A) : forall k x y, In x (upd l k y) -> x = y \/ In x l.
Proof.
  induction l as [|h t IH]; intros [|k] x y; simpl; try tauto.
  - intros [E|H]; [left; congruence|right; right; exact H].
  - intros [E|H]; [right; left; exact E|]. destruct (IH _ _ _ H) as [E|H']; [left; exact E|right; right; exact H'].
Qed.

Lemma in_remove_at {A} (l : list A) : forall k x, In x (remove_at l k) -> In x l.
Proof.
  induction l as [|h t IH]; intros [|k] x; simpl; try tauto. intros [E|H]; [left; exact E|right; eapply IH; exact H].
Qed.

Lemma hok_add s a sid inst sh : hok s a -> si_add (am_shared a) sid inst = Ok sh -> In inst (pool_of s sid) -> ty s inst = sid ->
  forall a', hdr a' = (am_mask a, sh) -> hok s a'.
Proof.
  intros (H1 & H2 & H3 & H4) Hadd Hin Hty a' E. unfold hdr in E. inversion E as [[E1 E2]]. unfold hok. rewrite E1, E2.
  split; [exact H1|]. split; [apply (si_add_wf _ _ _ _ H2 Hadd)|]. split.
  - intros id w Hg. destruct (Nat.eq_dec id sid) as [->|Hne].
    + rewrite (si_add_get_same _ _ _ _ H2 Hadd) in Hg. inversion Hg; subst w. exact Hty.
    + rewrite (si_add_get_other _ _ _ _ _ H2 Hadd Hne) in Hg. apply H3. exact Hg.
  - intros i Hi. assert (Hc : i = inst \/ In i (si_data (am_shared a))).
    { destruct (si_add_inv _ _ _ _ H2 Hadd) as [(_ & k & _ & _ & ->)|(_ & _ & ->)]; simpl in Hi.
      - apply in_upd in Hi. exact Hi.
      - apply in_app_or in Hi. destruct Hi as [Hi|[<-|[]]]; auto. }
    destruct Hc as [->|Hc]; [rewrite Hty; exact Hin|apply H4; exact Hc].
Qed.

Lemma hok_remove s a sid sh : hok s a -> si_remove (am_shared a) sid = Ok sh -> forall a', hdr a' = (am_mask a, sh) -> hok s a'.
Proof.
  intros (H1 & H2 & H3 & H4) Hrm a' E. unfold hdr in E. inversion E as [[E1 E2]]. unfold hok. rewrite E1, E2.
  split; [exact H1|]. split; [apply (si_remove_wf _ _ _ H2 Hrm)|]. split.
  - intros id w Hg. destruct (Nat.eq_dec id sid) as [->|Hne].
    + rewrite (si_remove_get_same _ _ _ H2 Hrm) in Hg. discriminate.
    + rewrite (si_remove_get_other _ _ _ _ H2 Hrm Hne) in Hg. apply H3. exact Hg.
  - intros i Hi. apply H4. destruct (si_remove_inv _ _ _ H2 Hrm) as [(_ & k & _ & _ & ->)|(_ & _ & ->)]; simpl in Hi; [eapply in_remove_at; exact Hi|exact Hi].
Qed.

(* the state after the allocation of assignShared *)
Lemma SInv_alloc cis s hs al x sid v : SInv cis s hs al x -> SInv cis (fst (alloc_shared s sid v)) hs al x.
Proof.
  intros HS. destruct (alloc_form s sid v) as (p & E).
  apply (SInv_frame cis s _ hs hs al al x x [] HS).
  - rewrite E. exact (MInv_set_pool cis (rk s) hs al (xns x) p _ (sv_M _ _ _ _ _ HS)).
  - rewrite E. exact (sv_chunk _ _ _ _ _ HS).
  - rewrite app_nil_r, E. reflexivity.
  - apply alloc_shared_le.
  - apply alloc_shared_wf. exact (sv_pool _ _ _ _ _ HS).
  - apply alloc_typool; [exact (sv_typool _ _ _ _ _ HS)|exact (sv_pool _ _ _ _ _ HS)].
  - intros a0 _ [].
  - intros k key e' Hin Hfe. left. exists e'. auto.
Qed.

(* the specification changes the shared values of one live entity, the model stays *)
Lemma SInv_reshared cis s hs al x k key e shv a :
  SInv cis s hs al x -> In (k, key) al -> find_ent x k = Some e ->
  In a (archs s) -> am_mask (ha a) = key -> shv = shvals s (am_shared a) ->
  SInv cis s hs al (xput x {| e_k := k; e_comps := e_comps e; e_shared := shv |}).
Proof.
  intros HS Hin Hfe Ha Hk Hs. destruct (pstate_eq s s eq_refl eq_refl) as (Hle & _).
  apply (SInv_frame cis s s hs hs al al x _ [] HS).
  - eapply MInv_ext; [exact (sv_M _ _ _ _ _ HS)|reflexivity|]. intros k'. rewrite !find_ent_xns, xput_find. simpl.
    destruct (Nat.eqb_spec k' k) as [->|Hne]; [|reflexivity]. rewrite Hfe. simpl. unfold erase. simpl. rewrite (findk_key _ _ _ Hfe). reflexivity.
  - exact (sv_chunk _ _ _ _ _ HS).
  - rewrite app_nil_r. reflexivity.
  - exact Hle.
  - exact (sv_pool _ _ _ _ _ HS).
  - exact (sv_typool _ _ _ _ _ HS).
  - intros a0 _ [].
  - intros k' key' e0 Hin' Hfe0. rewrite xput_find in Hfe0. simpl in Hfe0. destruct (Nat.eqb_spec k' k) as [->|Hne]; [|left; exists e0; auto].
    inversion Hfe0; subst e0. right. exists a. split; [exact Ha|]. split; [|exact Hs].
    pose proof (g_al_nodup (mi_G _ _ _ _ _ (sv_M _ _ _ _ _ HS))) as Hnd.
    rewrite Hk. eapply (nodup_keys_value al k key key' Hnd); assumption.
Qed.

(* an entity moving between archetypes of the same component set keeps all its cells *)
Lemma vmatch_same_mask cis e pa a_t pidx skip :
  vmatch (erase e) (ha pa) pidx -> mitems (am_mask (ha a_t)) = mitems (am_mask (ha pa)) ->
  forall a2, am_mask a2 = am_mask (ha a_t) ->
     (forall ci c, nth_error (mitems (am_mask (ha a_t))) ci = Some c ->
        (forall pci, cindex (am_mask (ha pa)) c = Some pci -> get_cell a2 ci (length (am_ents a_t)) = get_cell pa pci pidx) /\
        (cindex (am_mask (ha pa)) c = None -> mhas skip c = false ->
         cell_le (default_cell cis c) (get_cell a2 ci (length (am_ents a_t))) = true)) ->
  forall shv, vmatch (erase {| e_k := e_k e; e_comps := e_comps e; e_shared := shv |}) a2 (length (am_ents a_t)).
Proof.
  intros (Hm0 & _ & Hv0) Emi a2 Em2 Hcells shv. cbn [erase e_comps] in *.
  split; [rewrite Em2, Emi; exact Hm0|]. split; [reflexivity|]. intros c' v' Hin'.
  assert (Hi' : In c' (mitems (am_mask (ha a_t)))) by (rewrite Emi, <- Hm0; apply in_map_iff; exists (c', v'); auto).
  apply In_nth_error in Hi'. destruct Hi' as (ci' & Hci'). destruct (Hcells ci' c' Hci') as (Hmoved & _).
  unfold acell. rewrite Em2, (nth_cindex _ _ _ Hci').
  specialize (Hv0 c' v' Hin'). unfold acell in Hv0. destruct (cindex (am_mask (ha pa)) c') as [pci|] eqn:Epci.
  - rewrite (Hmoved pci eq_refl). exact Hv0.
  - exfalso. apply cindex_none_has in Epci.
    assert (Hi : In c' (mitems (am_mask (ha pa)))) by (rewrite <- Hm0; apply in_map_iff; exists (c', v'); auto).
    apply mitems_in in Hi. destruct Hi. congruence.
Qed.

(* ---------------------------------------------------------------------------------------- *)
(* assignShared *)
Lemma step_assign_shared s h sid v : step s (OAssignShared h sid v) = (do s1 <- assign_shared s h sid v; Ok (s1, RNone)).
Proof. reflexivity. Qed.

Lemma SInv_assign_shared cis s hs al x k sid v s' out :
  SInv cis s hs al x -> alive_x x k = true ->
  step s (OAssignShared (hnd hs k) sid v) = Ok (s', out) ->
  out = RNone /\ exists al', SInv cis s' hs al' (x_step_in x (XoAssignShared k sid v)).
Proof.
  intros HS Hax H. destruct (SInv_ctl _ _ _ _ _ HS) as (Hl & Hc & Hd & Hxl & Hxd & Hxc & Hcnt & Hal).
  destruct (alive_in _ _ (proj2 (Hal k) Hax)) as (key & Hin).
  destruct (find_ent x k) as [e|] eqn:Hfe; [|apply alive_x_find in Hax; congruence].
  rewrite step_assign_shared in H. bd H s1 Has. inversion H; subst s' out; clear H. split; [reflexivity|].
  assert (Hx : x_step_in x (XoAssignShared k sid v) = xput x {| e_k := k; e_comps := e_comps e; e_shared := insert_shared (e_shared e) sid v |}).
  { unfold x_step_in. rewrite Hfe. reflexivity. }
  rewrite Hx. clear Hx.
  rewrite assign_shared_alloc in Has.
  pose proof (SInv_alloc cis s hs al x sid v HS) as HS0.
  set (s0 := fst (alloc_shared s sid v)) in *. set (inst := snd (alloc_shared s sid v)) in *.
  destruct (alloc_shared_result s sid v) as (Hpool & Hval). fold s0 inst in Hpool, Hval.
  assert (Hty : ty s0 inst = sid) by (apply (sv_typool _ _ _ _ _ HS0); exact Hpool).
  destruct (live_s _ _ _ _ _ _ _ _ HS0 Hin Hfe) as (Hk & pai & pidx & pa & Hloc & Hpa & Hkey & Hent & Hvm & Hsh).
  assert (Hloc_s : nth_error (locs s) (N.to_nat (fst (hnd hs k))) = Some {| l_arch := Some pai; l_idx := pidx |}).
  { destruct (alloc_form s sid v) as (p & E). unfold s0 in Hloc. rewrite E in Hloc. exact Hloc. }
  rewrite (nth_res_some _ _ _ Hloc_s) in Has. bok Has. cbv zeta in Has. simpl l_arch in Has. cbv iota in Has. simpl l_idx in Has.
  rewrite (nth_res_some _ _ _ Hpa) in Has. bok Has. bd Has sh Hadd. bd Has r Hga. destruct r as (s_g, ai). cbn [fst snd] in Has.
  pose proof (SInv_hok _ _ _ _ _ _ _ HS0 Hpa) as Hokpa.
  pose proof (hok_add s0 pa sid inst sh Hokpa Hadd Hpool Hty) as Hoksh.
  destruct (SInv_get_arch _ _ _ _ _ _ _ _ _ HS0 (proj1 Hokpa) Hoksh Hga) as (HSg & Fg & Hkeep & a_t & Hat & Hmt & Hsat & Hkat).
  assert (Hpa_g : nth_error (archs s_g) pai = Some pa) by (apply Hkeep; exact Hpa).
  assert (Ei_g : insts s_g = insts s0) by (apply (f_equal insts) in Fg; exact Fg).
  (* the values of the new shared info *)
  assert (Hshv : insert_shared (e_shared e) sid v = shvals s_g (am_shared a_t)).
  { rewrite Hsh. rewrite <- (shvals_add s0 (am_shared pa) sid inst sh v (proj1 (proj2 Hokpa)) Hadd Hval).
    assert (Hoksh' : hok s0 (new_arch (am_mask pa) sh 0)) by (apply Hoksh; reflexivity).
    destruct Hoksh' as (_ & S2 & S3 & _). destruct (SInv_hok _ _ _ _ _ _ _ HSg Hat) as (_ & T2 & T3 & _).
    assert (T3' : si_typed (ty s0) (am_shared a_t)).
    { intros id w Hg. specialize (T3 id w Hg). unfold ty in *. rewrite Ei_g in T3. exact T3. }
    rewrite (shvals_insts s0 s_g) by (intros i _; apply inst_value_insts; exact Ei_g).
    symmetry. apply (shvals_eqb s0 (ty s0)); assumption. }
  destruct (Nat.eqb_spec ai pai) as [->|Hne].
  - (* the entity already holds this very instance *)
    inversion Has; subst s1. rewrite Hpa_g in Hat. inversion Hat; subst a_t. eexists.
    apply (SInv_reshared cis s_g hs al x k key e _ pa HSg Hin Hfe (nth_error_In _ _ Hpa_g) Hkey Hshv).
  - assert (Hloc_g : nth_error (locs s_g) (N.to_nat (fst (hnd hs k))) = Some {| l_arch := Some pai; l_idx := pidx |})
      by (rewrite (fr1_locs _ _ Fg); exact Hloc).
    assert (Emi : mitems (am_mask (ha a_t)) = mitems (am_mask (ha pa))) by (rewrite !mitems_ha, Hmt; reflexivity).
    set (e' := {| e_k := k; e_comps := e_comps e; e_shared := insert_shared (e_shared e) sid v |}).
    assert (Hnew : forall a2, am_mask a2 = am_mask (ha a_t) ->
       (forall ci c, nth_error (mitems (am_mask (ha a_t))) ci = Some c ->
          (forall pci, cindex (am_mask (ha pa)) c = Some pci -> get_cell a2 ci (length (am_ents a_t)) = get_cell pa pci pidx) /\
          (cindex (am_mask (ha pa)) c = None -> mhas 0%N c = false ->
           cell_le (default_cell cis c) (get_cell a2 ci (length (am_ents a_t))) = true)) ->
       vmatch (erase e') a2 (length (am_ents a_t))).
    { intros a2 Em2 Hcells. unfold e'. rewrite <- (findk_key _ _ _ Hfe). apply (vmatch_same_mask cis e pa a_t pidx 0%N Hvm Emi a2 Em2 Hcells). }
    destruct (SInv_move cis s_g hs al x k key e ai a_t pai pidx pa 0%N s1 (xput x e') e' HSg Hin Hfe Hloc_g Hpa_g Hent Hat Has Hnew
                eq_refl (xput_xfr x e') (xput_find x e') Hshv) as (HS2 & _).
    eexists. exact HS2.
Qed.

(* ---------------------------------------------------------------------------------------- *)
(* removeShared *)
Lemma step_remove_shared s h sid : step s (ORemoveShared h sid) = (do r <- remove_shared s h sid; Ok (fst r, RBool (snd r))).
Proof. reflexivity. Qed.

Lemma SInv_remove_shared cis s hs al x k sid s' out :
  SInv cis s hs al x ->
  step s (ORemoveShared (hnd hs k) sid) = Ok (s', out) ->
  (exists b, out = RBool b) /\ exists al', SInv cis s' hs al' (x_step_in x (XoRemoveShared k sid)).
Proof.
  intros HS H. destruct (SInv_ctl _ _ _ _ _ HS) as (Hl & Hc & Hd & Hxl & Hxd & Hxc & Hcnt & Hal).
  rewrite step_remove_shared in H. bd H r Hrs. inversion H; subst s' out; clear H. split; [eauto|].
  unfold remove_shared in Hrs. destruct (is_valid s (hnd hs k)) eqn:Ev; simpl negb in Hrs; cbv iota in Hrs.
  2:{ inversion Hrs; subst r. simpl. pose proof (dead_find_s _ _ _ _ _ _ HS Ev) as Hfe. unfold x_step_in. rewrite Hfe. eauto. }
  destruct (valid_find_s _ _ _ _ _ _ HS Ev) as (Hk & Ha & e & Hfe). destruct (alive_in _ _ Ha) as (key & Hin).
  assert (Hx : x_step_in x (XoRemoveShared k sid) =
               xput x {| e_k := k; e_comps := e_comps e; e_shared := filter (fun p => negb (Nat.eqb (fst p) sid)) (e_shared e) |}).
  { unfold x_step_in. rewrite Hfe. reflexivity. }
  rewrite Hx. clear Hx.
  destruct (live_s _ _ _ _ _ _ _ _ HS Hin Hfe) as (_ & pai & pidx & pa & Hloc & Hpa & Hkey & Hent & Hvm & Hsh).
  rewrite (nth_res_some _ _ _ Hloc) in Hrs. bok Hrs. simpl l_arch in Hrs. cbv iota in Hrs. simpl l_idx in Hrs.
  rewrite (nth_res_some _ _ _ Hpa) in Hrs. bok Hrs.
  pose proof (SInv_hok _ _ _ _ _ _ _ HS Hpa) as Hokpa.
  destruct (mhas (si_mask (am_shared pa)) sid) eqn:Ems; simpl negb in Hrs; cbv iota in Hrs.
  - bd Hrs sh Hrm. bd Hrs rg Hga. destruct rg as (s_g, ai). cbv beta iota in Hrs.
    pose proof (hok_remove s pa sid sh Hokpa Hrm) as Hoksh.
    destruct (SInv_get_arch _ _ _ _ _ _ _ _ _ HS (proj1 Hokpa) Hoksh Hga) as (HSg & Fg & Hkeep & a_t & Hat & Hmt & Hsat & Hkat).
    assert (Hpa_g : nth_error (archs s_g) pai = Some pa) by (apply Hkeep; exact Hpa).
    assert (Ei_g : insts s_g = insts s) by (apply (f_equal insts) in Fg; exact Fg).
    destruct (Nat.eqb_spec ai pai) as [->|Hne].
    { exfalso. rewrite Hpa_g in Hat. inversion Hat; subst a_t. unfold si_eqb in Hsat. apply andb_true_iff in Hsat. destruct Hsat as (E & _).
      apply N.eqb_eq in E. pose proof (si_remove_mask _ _ _ Hrm) as Hf. rewrite <- E in Hf. congruence. }
    bd Hrs s2 Hmv. inversion Hrs; subst r; clear Hrs. cbn [fst].
    assert (Hshv : filter (fun p => negb (Nat.eqb (fst p) sid)) (e_shared e) = shvals s_g (am_shared a_t)).
    { rewrite Hsh. rewrite <- (shvals_remove s (am_shared pa) sid sh (proj1 (proj2 Hokpa)) Hrm).
      assert (Hoksh' : hok s (new_arch (am_mask pa) sh 0)) by (apply Hoksh; reflexivity).
      destruct Hoksh' as (_ & S2 & S3 & _). destruct (SInv_hok _ _ _ _ _ _ _ HSg Hat) as (_ & T2 & T3 & _).
      assert (T3' : si_typed (ty s) (am_shared a_t)).
      { intros id w Hg. specialize (T3 id w Hg). unfold ty in *. rewrite Ei_g in T3. exact T3. }
      rewrite (shvals_insts s s_g) by (intros i _; apply inst_value_insts; exact Ei_g).
      symmetry. apply (shvals_eqb s (ty s)); assumption. }
    assert (Hloc_g : nth_error (locs s_g) (N.to_nat (fst (hnd hs k))) = Some {| l_arch := Some pai; l_idx := pidx |})
      by (rewrite (fr1_locs _ _ Fg); exact Hloc).
    assert (Emi : mitems (am_mask (ha a_t)) = mitems (am_mask (ha pa))) by (rewrite !mitems_ha, Hmt; reflexivity).
    set (e' := {| e_k := k; e_comps := e_comps e; e_shared := filter (fun p => negb (Nat.eqb (fst p) sid)) (e_shared e) |}).
    assert (Hnew : forall a2, am_mask a2 = am_mask (ha a_t) ->
       (forall ci c, nth_error (mitems (am_mask (ha a_t))) ci = Some c ->
          (forall pci, cindex (am_mask (ha pa)) c = Some pci -> get_cell a2 ci (length (am_ents a_t)) = get_cell pa pci pidx) /\
          (cindex (am_mask (ha pa)) c = None -> mhas 0%N c = false ->
           cell_le (default_cell cis c) (get_cell a2 ci (length (am_ents a_t))) = true)) ->
       vmatch (erase e') a2 (length (am_ents a_t))).
    { intros a2 Em2 Hcells. unfold e'. rewrite <- (findk_key _ _ _ Hfe). apply (vmatch_same_mask cis e pa a_t pidx 0%N Hvm Emi a2 Em2 Hcells). }
    destruct (SInv_move cis s_g hs al x k key e ai a_t pai pidx pa 0%N s2 (xput x e') e' HSg Hin Hfe Hloc_g Hpa_g Hent Hat Hmv Hnew
                eq_refl (xput_xfr x e') (xput_find x e') Hshv) as (HS2 & _).
    eexists. exact HS2.
  - (* the entity has no shared component of this type *)
    inversion Hrs; subst r. cbn [fst]. exists al.
    apply (SInv_reshared cis s hs al x k key e _ pa HS Hin Hfe (nth_error_In _ _ Hpa) Hkey).
    rewrite Hsh. apply (shvals_absent s _ sid (proj1 (proj2 Hokpa)) Ems).
Qed.
