(* Totality of the Manager run on in-contract scripts over the unlocked alphabet (C02 / C09): inside the documented
   contract (x_viol = 0), for component ids that have a description, the model never returns Err -- so the refinement
   theorems of ManagerMain.v / ManagerWorlds.v are not vacuous anywhere in the contract.

   Every Err of the model on this alphabet is excluded by one of
     - the invariant MInv of the refinement proof (ManagerInv.v): ids, locations, archetype lists, sizes;
     - the invariant TI below: shape of the version storage (VersionStorage::emplace / setVersion index chunk_versions_
       without a check), version-chunk size non-zero, every component id of an archetype mask has a description;
     - the contract (out_of_contract of MgrSpec.v): unchecked entry points only on live handles, no double assign;
     - the registration hypothesis reg_b: the component ids the script names have a description
       (ComponentFactory::componentInfo indexes its vector without a check: component_factory.cpp:52-56). *)
Require Import Coq.Lists.List Coq.NArith.NArith Coq.ZArith.ZArith Coq.Arith.Arith Coq.Bool.Bool Coq.micromega.Lia.
From Mustache Require Import Res Manager MgrSpec Refine.
From Mustache Require Skeleton.
From Mustache Require Import SkelSpec.
From Mustache.proofs Require Import ListLemmas SkelBasics SkelInv SkelSteps SkelMove SkelMain ClosureProofs
  ManagerBasics ManagerMoves ManagerProj ManagerInv ManagerMain ManagerWorlds.
Import ListNotations.

(* ---------------------------------------------------------------------------------------- *)
(* small facts *)
Lemma upd_res_some' {A} (l : list A) i x : i < length l -> upd_res l i x = Ok (upd l i x).
Proof. intros H. unfold upd_res. apply Nat.ltb_lt in H. rewrite H. reflexivity. Qed.

Lemma nth_error_lt' {A} (l : list A) i a : nth_error l i = Some a -> i < length l.
Proof. intros H. apply nth_error_Some. congruence. Qed.

Lemma nth_error_ex {A} (l : list A) i : i < length l -> exists a, nth_error l i = Some a.
Proof. intros H. destruct (nth_error l i) as [a|] eqn:E; [exists a; reflexivity|]. apply nth_error_None in E. lia. Qed.

Lemma fold_res_total {A S} (f : S -> A -> res S) (P : S -> Prop) : forall l s,
  P s -> (forall x st, In x l -> P st -> exists st', f st x = Ok st' /\ P st') ->
  exists s', fold_res f l s = Ok s' /\ P s'.
Proof.
  induction l as [|x t IH]; intros s H0 Hstep; simpl.
  - exists s. split; [reflexivity|exact H0].
  - destruct (Hstep x s (or_introl eq_refl) H0) as (s1 & E1 & P1). rewrite E1. cbn [bind].
    apply IH; [exact P1|]. intros y st Hy. apply Hstep. right. exact Hy.
Qed.

Lemma div_succ_le n c : c <> 0 -> S n / c <= S (n / c).
Proof.
  intros Hc. assert (H : S n / c <= (n + 1 * c) / c) by (apply Nat.div_le_mono; [exact Hc|lia]).
  rewrite Nat.div_add in H by exact Hc. lia.
Qed.

Lemma set_range_length {A} (x : A) : forall n l from, length (set_range l from n x) = length l.
Proof. induction n as [|n IH]; intros l from; simpl; [reflexivity|]. rewrite IH. apply upd_length. Qed.

(* ---------------------------------------------------------------------------------------- *)
(* the shape of an archetype the totality argument needs *)
Definition mreg (n : nat) (m : mask) : Prop := forall c, In c (mitems m) -> c < n.

Definition vwf (a : archetype) : Prop :=
  am_chunk a <> 0 /\ length (am_gver a) = length (mitems (am_mask a)) /\
  forall idx, idx < length (am_ents a) -> length (am_gver a) * S (idx / am_chunk a) <= length (am_cver a).

Definition twf (n : nat) (a : archetype) : Prop := vwf a /\ mreg n (am_mask a).

Record TI (cis : list cinfo) (s : mst) : Prop := {
  ti_chunk : def_chunk s <> 0;
  ti_fns : chunk_fns s = [];
  ti_archs : Forall (twf (length cis)) (archs s)
}.

Lemma twf_nth n l ai a : Forall (twf n) l -> nth_error l ai = Some a -> twf n a.
Proof. intros H Hn. eapply (proj1 (Forall_forall _ _) H). eapply nth_error_In. eassumption. Qed.

(* the version stamps keep their shape when the member list does not grow *)
Lemma vwf_mono a a' : vwf a -> am_chunk a' = am_chunk a -> am_mask a' = am_mask a ->
  length (am_gver a') = length (am_gver a) -> length (am_cver a) <= length (am_cver a') ->
  length (am_ents a') <= length (am_ents a) -> vwf a'.
Proof.
  intros (A & B & C) Ec Em Eg Hc He. unfold vwf. rewrite Ec, Em, Eg. split; [exact A|]. split; [exact B|].
  intros idx Hidx. specialize (C idx). lia.
Qed.

(* ... and after VersionStorage::emplace for the new last member *)
Lemma vwf_emplaced a a' n : vwf a -> am_chunk a' = am_chunk a -> am_mask a' = am_mask a ->
  length (am_gver a') = length (am_gver a) -> length (am_ents a') = S n ->
  length (am_cver a') = S (n / am_chunk a) * length (am_gver a) -> vwf a'.
Proof.
  intros (A & B & _) Ec Em Eg He Hc. unfold vwf. rewrite Ec, Em, Eg, He, Hc. split; [exact A|]. split; [exact B|].
  intros idx Hidx. assert (H : idx / am_chunk a <= n / am_chunk a) by (apply Nat.div_le_mono; [exact A|lia]).
  rewrite Nat.mul_comm. apply Nat.mul_le_mono_r. lia.
Qed.

Lemma vwf_room a : vwf a -> (length (am_ents a) / am_chunk a) * length (am_gver a) <= length (am_cver a).
Proof.
  intros (A & _ & C). destruct (length (am_ents a)) as [|n] eqn:El.
  - rewrite Nat.div_0_l by exact A. lia.
  - specialize (C n (Nat.lt_succ_diag_r n)).
    pose proof (div_succ_le n (am_chunk a) A) as H.
    assert (H2 : S n / am_chunk a * length (am_gver a) <= S (n / am_chunk a) * length (am_gver a)) by (apply Nat.mul_le_mono_r; exact H).
    lia.
Qed.

Lemma vwf_new m cs : cs <> 0 -> vwf (new_arch m si_null cs).
Proof.
  intros H. unfold vwf, new_arch. simpl. split; [exact H|]. split; [rewrite repeat_length; apply mcount_eq|]. intros idx Hi. lia.
Qed.

Lemma ab1_fields a a' : ab1 a' = ab1 a ->
  am_mask a' = am_mask a /\ am_ents a' = am_ents a /\ am_size a' = am_size a /\ am_chunk a' = am_chunk a /\
  am_gver a' = am_gver a /\ am_cver a' = am_cver a.
Proof.
  intros H. repeat split.
  - apply (f_equal am_mask) in H. exact H.
  - apply (f_equal am_ents) in H. exact H.
  - apply (f_equal am_size) in H. exact H.
  - apply (f_equal am_chunk) in H. exact H.
  - apply (f_equal am_gver) in H. exact H.
  - apply (f_equal am_cver) in H. exact H.
Qed.

Lemma vwf_ab1 a a' : ab1 a' = ab1 a -> vwf a -> vwf a'.
Proof.
  intros H Hv. destruct (ab1_fields _ _ H) as (Em & Ee & _ & Ec & Eg & Ecv).
  apply (vwf_mono a a' Hv Ec Em); [rewrite Eg; reflexivity|rewrite Ecv; apply le_n|rewrite Ee; apply le_n].
Qed.

(* ---------------------------------------------------------------------------------------- *)
(* the version storage returns Ok on well-shaped archetypes *)
Lemma chunk_at_total a idx : am_chunk a <> 0 -> chunk_at a idx = Ok (idx / am_chunk a).
Proof. intros H. unfold chunk_at. destruct (am_chunk a); [congruence|reflexivity]. Qed.

Lemma vs_set_chunk_total a v ch : length (am_gver a) * ch + length (am_gver a) <= length (am_cver a) ->
  exists g c, vs_set_chunk a v ch = Ok (with_vers a g c) /\ length g = length (am_gver a) /\ length c = length (am_cver a).
Proof.
  intros H. unfold vs_set_chunk. destruct (Nat.ltb_spec (length (am_cver a)) (length (am_gver a) * ch + length (am_gver a))) as [Hlt|Hge]; [lia|].
  eexists. eexists. split; [reflexivity|]. split; [apply map_length|apply set_range_length].
Qed.

Lemma vs_emplace_total a v idx : am_chunk a <> 0 -> (idx / am_chunk a) * length (am_gver a) <= length (am_cver a) ->
  exists g c, vs_emplace a v idx = Ok (with_vers a g c) /\ length g = length (am_gver a) /\
              length c = S (idx / am_chunk a) * length (am_gver a).
Proof.
  intros Hc Hroom. unfold vs_emplace. rewrite (chunk_at_total a idx Hc). cbn [bind].
  apply Nat.leb_le in Hroom. rewrite Hroom.
  destruct (vs_set_chunk_total (with_vers a (am_gver a) (resize (am_cver a) (S (idx / am_chunk a) * length (am_gver a)) WV_NULL)) v (idx / am_chunk a))
    as (g & c & E & Lg & Lc).
  { cbn [am_gver am_cver with_vers]. rewrite resize_length. lia. }
  rewrite E. exists g, c. split; [reflexivity|]. cbn [am_gver am_cver with_vers] in Lg, Lc. rewrite resize_length in Lc. auto.
Qed.

Lemma vs_set_one_total a v ch ci : ci < length (am_gver a) -> length (am_gver a) * ch + ci < length (am_cver a) ->
  exists g c, vs_set_one a v ch ci = Ok (with_vers a g c) /\ length g = length (am_gver a) /\ length c = length (am_cver a).
Proof.
  intros H1 H2. unfold vs_set_one. rewrite (upd_res_some' _ _ _ H2). cbn [bind]. rewrite (upd_res_some' _ _ _ H1). cbn [bind].
  eexists. eexists. split; [reflexivity|]. split; apply upd_length.
Qed.

(* ---------------------------------------------------------------------------------------- *)
(* component descriptions *)
Lemma info_of_total s c : c < length (cinfos s) -> exists inf, info_of s c = Ok inf.
Proof. intros H. unfold info_of. destruct (nth_error_ex _ _ H) as (inf & E). rewrite E. eauto. Qed.

Lemma olog_cinfos s st : olog s st -> cinfos st = cinfos s.
Proof. intros (F & _). apply fr1_cinfos. exact F. Qed.

(* loops that only write to the event log *)
Lemma emit_fold_total {A} (f : mst -> A -> res mst) l s :
  (forall x st, In x l -> olog s st -> exists st', f st x = Ok st' /\ olog st st') ->
  exists s', fold_res f l s = Ok s' /\ olog s s'.
Proof.
  intros H. apply (fold_res_total f (fun st => olog s st)); [apply olog_refl|].
  intros x st Hx Ho. destruct (H x st Hx Ho) as (st' & E & Ho'). exists st'. split; [exact E|]. eapply olog_trans; eassumption.
Qed.

(* ---------------------------------------------------------------------------------------- *)
(* pushBack *)
Lemma push_back_total s ai a h : nth_error (archs s) ai = Some a -> vwf a ->
  exists g c, push_back s ai h =
      Ok (set_arch s ai (with_size (with_ents (with_vers a g c) (am_ents a ++ [h])) (Nat.max (am_size a) (S (length (am_ents a))))),
          length (am_ents a)) /\
    length g = length (am_gver a) /\ length c = S (length (am_ents a) / am_chunk a) * length (am_gver a).
Proof.
  intros Ha Hv. unfold push_back. rewrite (nth_res_some _ _ _ Ha). cbn [bind].
  destruct (vs_emplace_total a (wv s) (length (am_ents a)) (proj1 Hv) (vwf_room a Hv)) as (g & c & E & Lg & Lc).
  rewrite E. cbn [bind]. exists g, c. split; [reflexivity|]. split; assumption.
Qed.

Lemma vwf_pushed a g c h sz : vwf a -> length g = length (am_gver a) ->
  length c = S (length (am_ents a) / am_chunk a) * length (am_gver a) ->
  vwf (with_size (with_ents (with_vers a g c) (am_ents a ++ [h])) sz).
Proof.
  intros Hv Lg Lc. apply (vwf_emplaced a _ (length (am_ents a)) Hv); cbn [am_chunk am_mask am_gver am_cver am_ents with_size with_ents with_vers];
    try reflexivity; try assumption. rewrite app_length. simpl. lia.
Qed.

Lemma write_cell_total s ai a ci slot v : nth_error (archs s) ai = Some a ->
  write_cell s ai ci slot v = Ok (set_arch s ai (put_cell a ci slot v)).
Proof. intros Ha. unfold write_cell. rewrite (nth_res_some _ _ _ Ha). reflexivity. Qed.

(* ---------------------------------------------------------------------------------------- *)
(* sequencing: goals have the form  exists b, bind r f = Ok b /\ P b  *)
Lemma bind_ex {A B} (r : res A) (f : A -> res B) a (P : B -> Prop) :
  r = Ok a -> (exists b, f a = Ok b /\ P b) -> exists b, bind r f = Ok b /\ P b.
Proof. intros -> H. exact H. Qed.
Ltac bnd E := eapply bind_ex; [exact E|]; cbv beta iota.

Lemma ok_ex {A} (a : A) (P : A -> Prop) : P a -> exists b, Ok a = Ok b /\ P b.
Proof. intros H. exists a. split; [reflexivity|exact H]. Qed.

(* InsertInfo::constructor / ExternalMoveInfo::constructorAndAfterAssign *)
Lemma construct_default_total s ai idx a st a_st c ci h udv :
  nth_error (archs s) ai = Some a -> cells_of s ai idx a st a_st -> c < length (cinfos s) ->
  exists st', construct_default st ai c ci idx h udv = Ok st' /\ exists a', cells_of s ai idx a st' a'.
Proof.
  intros Ha Hc Hreg. unfold construct_default.
  assert (Hci : cinfos st = cinfos s) by (apply fr1_cinfos; exact (proj1 Hc)).
  destruct (info_of_total st c) as (inf & Einf); [rewrite Hci; exact Hreg|].
  bnd Einf. cbv zeta.
  pose proof (cells_of_nth _ _ _ _ _ _ Ha Hc) as Hst.
  match goal with |- exists b, bind ?X _ = Ok b /\ _ => assert (K : exists s1, X = Ok s1 /\ exists a', cells_of s ai idx a s1 a') end.
  { destruct (ci_create inf) as [v|].
    - rewrite (write_cell_total _ _ _ ci idx (Some v) Hst). cbn [bind]. eexists. split; [reflexivity|]. eexists.
      eapply cells_of_olog; [apply cells_of_put; exact Hc|apply olog_if].
    - destruct (ci_default inf) as [v|]; [destruct udv|].
      + rewrite (write_cell_total _ _ _ ci idx (Some v) Hst). eexists. split; [reflexivity|]. eexists. apply cells_of_put. exact Hc.
      + eexists. split; [reflexivity|]. eauto.
      + eexists. split; [reflexivity|]. eauto. }
  destruct K as (s1 & E1 & a' & Hc1). bnd E1. eexists. split; [reflexivity|]. exists a'.
  eapply cells_of_olog; [exact Hc1|apply olog_if].
Qed.

(* the two constructor loops of Archetype::insert *)
Lemma insert_loops_total s1 ai idx a1 h skip comps (sall : bool) :
  nth_error (archs s1) ai = Some a1 -> (forall c, In c comps -> c < length (cinfos s1)) ->
  exists s2,
  (if sall then Ok s1 else
    do s' <- fold_res (fun st (x : nat * nat) =>
        let '(ci, c) := x in
        do inf <- info_of st c;
        if (match ci_create inf with Some _ => true | None => false end) || ci_aa inf then
          if (skip =? 0)%N || negb (mhas skip c) then construct_default st ai c ci idx h false else Ok st
        else Ok st) (combine (seq 0 (length comps)) comps) s1;
    fold_res (fun st (x : nat * nat) =>
        let '(ci, c) := x in
        do inf <- info_of st c;
        if (match ci_create inf with Some _ => true | None => false end) || ci_aa inf then Ok st else
        match ci_default inf with
        | Some v => if (skip =? 0)%N || negb (mhas skip c) then write_cell st ai ci idx (Some v) else Ok st
        | None => Ok st
        end) (combine (seq 0 (length comps)) comps) s') = Ok s2 /\ exists a2, cells_of s1 ai idx a1 s2 a2.
Proof.
  intros Ha1 Hreg. destruct sall.
  - exists s1. split; [reflexivity|]. exists a1. apply cells_of_refl. exact Ha1.
  - pose (P := fun st => exists a_st, cells_of s1 ai idx a1 st a_st).
    assert (Hin : forall ci c, In (ci, c) (combine (seq 0 (length comps)) comps) -> c < length (cinfos s1)).
    { intros ci c H. apply in_combine_seq0 in H. apply Hreg. eapply nth_error_In. exact H. }
    match goal with |- exists z, bind (fold_res ?f ?l s1) _ = _ /\ _ => destruct (fold_res_total f P l s1) as (s15 & E15 & a15 & Hc15) end.
    { exists a1. apply cells_of_refl. exact Ha1. }
    { intros (ci, c) st Hx (a_st & Hc). cbv beta iota.
      assert (Hci : cinfos st = cinfos s1) by (apply fr1_cinfos; exact (proj1 Hc)).
      destruct (info_of_total st c) as (inf & Einf); [rewrite Hci; apply (Hin ci c Hx)|].
      bnd Einf. destruct (_ || ci_aa inf); [|apply ok_ex; exists a_st; exact Hc].
      destruct (_ || _); [|apply ok_ex; exists a_st; exact Hc].
      apply (construct_default_total s1 ai idx a1 st a_st c ci h false Ha1 Hc (Hin ci c Hx)). }
    bnd E15.
    match goal with |- exists z, fold_res ?f ?l s15 = _ /\ _ => destruct (fold_res_total f P l s15) as (s2 & E2 & a2 & Hc2) end.
    { exists a15. exact Hc15. }
    { intros (ci, c) st Hx (a_st & Hc). cbv beta iota.
      assert (Hci : cinfos st = cinfos s1) by (apply fr1_cinfos; exact (proj1 Hc)).
      destruct (info_of_total st c) as (inf & Einf); [rewrite Hci; apply (Hin ci c Hx)|].
      bnd Einf. destruct (_ || ci_aa inf); [apply ok_ex; exists a_st; exact Hc|].
      destruct (ci_default inf) as [v|]; [|apply ok_ex; exists a_st; exact Hc].
      destruct (_ || _); [|apply ok_ex; exists a_st; exact Hc].
      rewrite (write_cell_total _ _ _ ci idx (Some v) (cells_of_nth _ _ _ _ _ _ Ha1 Hc)). apply ok_ex. eexists. apply cells_of_put. exact Hc. }
    exists s2. split; [exact E2|]. exists a2. exact Hc2.
Qed.

(* Archetype::insert *)
Lemma arch_insert_total s ai a h skip n :
  nth_error (archs s) ai = Some a -> twf n a -> n = length (cinfos s) -> N.to_nat (fst h) < length (locs s) ->
  exists s', arch_insert s ai h skip = Ok s' /\ exists a3, nth_error (archs s') ai = Some a3 /\ twf n a3.
Proof.
  intros Ha (Hv & Hreg) -> Hh. assert (Hai : ai < length (archs s)) by (eapply nth_error_lt'; exact Ha).
  unfold arch_insert.
  destruct (push_back_total s ai a h Ha Hv) as (g & c & Epb & Lg & Lc). bnd Epb.
  match type of Epb with _ = Ok (set_arch s ai ?x, _) => set (a1 := x) in * end.
  assert (Hv1 : vwf a1) by (apply vwf_pushed; assumption).
  assert (Ha1 : nth_error (archs (set_arch s ai a1)) ai = Some a1) by (simpl; apply nth_error_upd_same; exact Hai).
  bnd (nth_res_some _ _ _ Ha1). cbv zeta.
  destruct (insert_loops_total (set_arch s ai a1) ai (length (am_ents a)) a1 h skip (mitems (am_mask a1)) (skip =? am_mask a1)%N Ha1)
    as (s2 & E2 & a2 & Hc2).
  { intros c0 Hc0. apply Hreg. exact Hc0. }
  bnd E2.
  pose proof (cells_of_nth _ _ _ _ _ _ Ha1 Hc2) as Ha2. bnd (nth_res_some _ _ _ Ha2).
  destruct Hc2 as (F2 & A2 & B2 & _).
  destruct (ab1_fields _ _ B2) as (Em & Ee & _ & Ec & Eg & Ecv).
  destruct (vs_emplace_total a2 (wv s2) (length (am_ents a))) as (g3 & c3 & E3 & Lg3 & Lc3).
  { rewrite Ec. exact (proj1 Hv1). }
  { rewrite Ec, Eg, Ecv. unfold a1. cbn [am_chunk am_gver am_cver with_size with_ents with_vers]. rewrite Lc, Lg. lia. }
  bnd E3. unfold update_location. cbn [locs set_arch set_archs fst].
  assert (Hl2 : locs s2 = locs s) by (rewrite (fr1_locs _ _ F2); reflexivity).
  rewrite upd_res_some' by (rewrite Hl2; exact Hh). cbn [bind]. apply ok_ex.
  exists (with_vers a2 g3 c3). cbn [archs set_locs set_archs]. split.
  - apply nth_error_upd_same. rewrite A2. cbn [archs set_arch set_archs]. rewrite !upd_length. exact Hai.
  - split.
    + apply (vwf_emplaced a1 _ (length (am_ents a)) Hv1); cbn [am_chunk am_mask am_gver am_cver am_ents with_vers]; try assumption.
      * rewrite Lg3, Eg. reflexivity.
      * rewrite Ee. unfold a1. cbn [am_ents with_size with_ents]. rewrite app_length. simpl. lia.
      * rewrite Lc3, Ec, Eg. reflexivity.
    + cbn [am_mask with_vers]. rewrite Em. exact Hreg.
Qed.

(* ---------------------------------------------------------------------------------------- *)
(* callDestructor / popBack *)
Lemma call_destructor_total s ai slot a : nth_error (archs s) ai = Some a -> mreg (length (cinfos s)) (am_mask a) ->
  exists s', call_destructor s ai slot = Ok s' /\
    fr1 s' = fr1 s /\ archs s' = upd (archs s) ai (with_size (with_ents a (removelast (am_ents a))) (pred (am_size a))).
Proof.
  intros Ha Hreg. unfold call_destructor. bnd (nth_res_some _ _ _ Ha). cbv zeta.
  match goal with |- exists z, bind (fold_res ?f ?l s) _ = _ /\ _ => destruct (emit_fold_total f l s) as (s1 & E1 & F1 & A1) end.
  { intros c st Hc Ho. destruct (info_of_total st c) as (inf & Einf); [rewrite (olog_cinfos _ _ Ho); apply Hreg; exact Hc|].
    rewrite Einf. cbn [bind]. eexists. split; [reflexivity|apply olog_if]. }
  bnd E1. rewrite A1. bnd (nth_res_some _ _ _ Ha). apply ok_ex. split; [exact F1|]. simpl. rewrite A1. reflexivity.
Qed.

Lemma pop_back_total s ai a : nth_error (archs s) ai = Some a ->
  exists s', pop_back s ai = Ok s' /\
    fr1 s' = fr1 s /\ archs s' = upd (archs s) ai (with_size (with_ents a (removelast (am_ents a))) (pred (am_size a))).
Proof. intros Ha. unfold pop_back. rewrite (nth_res_some _ _ _ Ha). cbn [bind]. eexists. split; [reflexivity|]. split; reflexivity. Qed.

Lemma vwf_cover a idx : vwf a -> idx < length (am_ents a) ->
  length (am_gver a) * (idx / am_chunk a) + length (am_gver a) <= length (am_cver a).
Proof. intros (_ & _ & C) Hi. specialize (C idx Hi). lia. Qed.

(* internalMove *)
Lemma internal_move_total s ai src dst a n :
  nth_error (archs s) ai = Some a -> twf n a -> n = length (cinfos s) ->
  src < length (am_ents a) -> dst < length (am_ents a) ->
  (forall p x, nth_error (am_ents a) p = Some x -> N.to_nat (fst x) < length (locs s)) ->
  exists s', internal_move s ai src dst = Ok s' /\ length (locs s') = length (locs s) /\
             exists a', archs s' = upd (archs s) ai a' /\ twf n a'.
Proof.
  intros Ha (Hv & Hreg) -> Hsrc Hdst Hids. assert (Hai : ai < length (archs s)) by (eapply nth_error_lt'; exact Ha).
  unfold internal_move. bnd (nth_res_some _ _ _ Ha). cbv zeta.
  pose (P := fun st => exists a_st, cells_of s ai dst a st a_st).
  match goal with |- exists z, bind (fold_res ?f ?l s) _ = _ /\ _ => destruct (fold_res_total f P l s) as (s1 & E1 & a1 & Hc1) end.
  { exists a. apply cells_of_refl. exact Ha. }
  { intros (ci, c) st Hx (a_st & Hc). cbv beta iota.
    assert (Hci : cinfos st = cinfos s) by (apply fr1_cinfos; exact (proj1 Hc)).
    destruct (info_of_total st c) as (inf & Einf).
    { rewrite Hci. apply Hreg. apply in_combine_seq0 in Hx. eapply nth_error_In. exact Hx. }
    bnd Einf. bnd (nth_res_some _ _ _ (cells_of_nth _ _ _ _ _ _ Ha Hc)). cbv zeta. apply ok_ex. eexists.
    eapply cells_of_olog; [apply cells_of_put; exact Hc|apply olog_if]. }
  bnd E1. pose proof (cells_of_nth _ _ _ _ _ _ Ha Hc1) as Ha1. bnd (nth_res_some _ _ _ Ha1).
  destruct Hc1 as (F1 & A1 & B1 & _). destruct (ab1_fields _ _ B1) as (Em & Ee & Ez & Ec & Eg & Ecv).
  pose proof (vwf_ab1 _ _ B1 Hv) as Hv1.
  assert (Hl1 : locs s1 = locs s) by (apply fr1_locs; exact F1).
  destruct (nth_error_ex (am_ents a) src Hsrc) as (src_e & Hse). destruct (nth_error_ex (am_ents a) dst Hdst) as (dst_e & Hde).
  rewrite Ee. bnd (nth_res_some _ _ _ Hse). bnd (nth_res_some _ _ _ Hde).
  bnd (chunk_at_total a1 src (proj1 Hv1)). bnd (chunk_at_total a1 dst (proj1 Hv1)).
  destruct (vs_set_chunk_total a1 (wv s1) (src / am_chunk a1)) as (g2 & c2 & E2 & Lg2 & Lc2).
  { apply vwf_cover; [exact Hv1|rewrite Ee; exact Hsrc]. }
  bnd E2.
  destruct (vs_set_chunk_total (with_vers a1 g2 c2) (wv s1) (dst / am_chunk a1)) as (g3 & c3 & E3 & Lg3 & Lc3).
  { cbn [am_gver am_cver with_vers]. rewrite Lg2, Lc2. apply vwf_cover; [exact Hv1|rewrite Ee; exact Hdst]. }
  bnd E3. cbn [am_gver am_cver with_vers] in Lg3, Lc3. cbv zeta.
  unfold update_location. cbn [locs set_arch set_archs set_locs].
  rewrite upd_res_some' by (rewrite Hl1; apply (Hids dst dst_e Hde)). cbn [bind locs set_arch set_archs set_locs].
  rewrite upd_res_some' by (rewrite upd_length, Hl1; apply (Hids src src_e Hse)). cbn [bind archs set_arch set_archs set_locs].
  assert (Hai1 : ai < length (archs s1)) by (eapply nth_error_lt'; exact Ha1).
  bnd (nth_res_some _ _ _ (nth_error_upd_same (archs s1) ai (with_vers (with_vers a1 g2 c2) g3 c3) Hai1)).
  match goal with |- exists z, call_destructor ?st ai src = _ /\ _ => set (s5 := st) end.
  set (a5 := with_ents (with_vers (with_vers a1 g2 c2) g3 c3) (upd (am_ents (with_vers (with_vers a1 g2 c2) g3 c3)) dst src_e)).
  assert (Ha5 : nth_error (archs s5) ai = Some a5).
  { unfold s5. cbn [archs set_arch set_archs set_locs]. apply nth_error_upd_same. rewrite upd_length. exact Hai1. }
  destruct (call_destructor_total s5 ai src a5 Ha5) as (s6 & E6 & F6 & A6).
  { unfold s5, a5. cbn [cinfos set_arch set_archs set_locs am_mask with_ents with_vers]. rewrite (fr1_cinfos _ _ F1), Em. exact Hreg. }
  exists s6. split; [exact E6|]. split.
  { rewrite (fr1_locs _ _ F6). unfold s5. cbn [locs set_arch set_archs set_locs]. rewrite !upd_length, Hl1. reflexivity. }
  eexists. split.
  { rewrite A6. unfold s5. cbn [archs set_arch set_archs set_locs]. rewrite A1, !upd_upd. reflexivity. }
  split.
  - apply (vwf_mono a _ Hv); unfold a5; cbn [am_chunk am_mask am_gver am_cver am_ents with_size with_ents with_vers].
    + exact Ec.
    + exact Em.
    + rewrite Lg3, Lg2, Eg. reflexivity.
    + rewrite Lc3, Lc2, Ecv. apply le_n.
    + rewrite removelast_length, upd_length, Ee. lia.
  - unfold a5. cbn [am_mask with_size with_ents with_vers]. rewrite Em. exact Hreg.
Qed.

(* Archetype::remove *)
Lemma arch_remove_total s ai idx h skip a n :
  nth_error (archs s) ai = Some a -> twf n a -> n = length (cinfos s) -> am_size a = length (am_ents a) ->
  idx < length (am_ents a) -> N.to_nat (fst h) < length (locs s) ->
  (forall p x, nth_error (am_ents a) p = Some x -> N.to_nat (fst x) < length (locs s)) ->
  exists s', arch_remove s ai idx h skip = Ok s' /\ length (locs s') = length (locs s) /\
             exists a', archs s' = upd (archs s) ai a' /\ twf n a'.
Proof.
  intros Ha Ht -> Hsz Hidx Hh Hids. pose proof Ht as (Hv & Hreg).
  assert (Hai : ai < length (archs s)) by (eapply nth_error_lt'; exact Ha).
  unfold arch_remove. bnd (nth_res_some _ _ _ Ha). cbv zeta.
  match goal with |- exists z, bind ?X _ = _ /\ _ => assert (K : exists ent, X = Ok ent) end.
  { destruct (existsb _ _); [|eauto]. destruct (nth_error_ex _ _ Hidx) as (e & He). rewrite (nth_res_some _ _ _ He). eauto. }
  destruct K as (ent & Eent). bnd Eent.
  match goal with |- exists z, bind (fold_res ?f ?l s) _ = _ /\ _ => destruct (emit_fold_total f l s) as (s1 & E1 & F1 & A1) end.
  { intros c st Hc Ho. destruct (info_of_total st c) as (inf & Einf); [rewrite (olog_cinfos _ _ Ho); apply Hreg; exact Hc|].
    rewrite Einf. cbn [bind]. eexists. split; [reflexivity|apply olog_if]. }
  bnd E1. rewrite Hsz.
  assert (Ha1 : nth_error (archs s1) ai = Some a) by (rewrite A1; exact Ha).
  assert (Hl1 : locs s1 = locs s) by (apply fr1_locs; exact F1).
  assert (Hc1 : cinfos s1 = cinfos s) by (apply fr1_cinfos; exact F1).
  destruct (length (am_ents a)) as [|last] eqn:El; [lia|].
  destruct (Nat.eqb_spec idx last) as [->|Hne].
  - match goal with |- exists z, bind ?X _ = _ /\ _ =>
      assert (K : exists s2, X = Ok s2 /\ fr1 s2 = fr1 s1 /\
                   archs s2 = upd (archs s1) ai (with_size (with_ents a (removelast (am_ents a))) (pred (am_size a)))) end.
    { destruct (any_destroy s1 (am_mask a)); [apply (call_destructor_total s1 ai last a Ha1); rewrite Hc1; exact Hreg|apply (pop_back_total s1 ai a Ha1)]. }
    destruct K as (s2 & E2 & F2 & A2). bnd E2.
    assert (Hai1 : ai < length (archs s1)) by (eapply nth_error_lt'; exact Ha1).
    rewrite A2. bnd (nth_res_some _ _ _ (nth_error_upd_same (archs s1) ai (with_size (with_ents a (removelast (am_ents a))) (pred (am_size a))) Hai1)).
    match goal with |- exists z, bind (chunk_at ?x _) _ = _ /\ _ => set (a2 := x) end.
    bnd (chunk_at_total a2 last (proj1 Hv)).
    destruct (vs_set_chunk_total a2 (wv s2) (last / am_chunk a2)) as (g & c & E3 & Lg & Lc).
    { unfold a2. cbn [am_chunk am_gver am_cver with_size with_ents]. apply vwf_cover; [exact Hv|rewrite El; lia]. }
    bnd E3. unfold update_location. cbn [locs set_arch set_archs fst].
    assert (Hl2 : locs s2 = locs s) by (rewrite (fr1_locs _ _ F2); exact Hl1).
    rewrite upd_res_some' by (rewrite Hl2; exact Hh). cbn [bind]. apply ok_ex.
    cbn [locs archs set_locs set_arch set_archs]. split; [rewrite upd_length, Hl2; reflexivity|].
    eexists. split; [rewrite A2, A1, !upd_upd; reflexivity|]. split.
    + apply (vwf_mono a _ Hv); unfold a2 in *; cbn [am_chunk am_mask am_gver am_cver am_ents with_size with_ents with_vers] in *; try reflexivity.
      * exact Lg.
      * rewrite Lc. apply le_n.
      * rewrite removelast_length, El. simpl. lia.
    + exact Hreg.
  - destruct (internal_move_total s1 ai last idx a (length (cinfos s)) Ha1 Ht (f_equal (@length cinfo) (eq_sym Hc1))) as (s' & E & Hl & a' & A' & Ht').
    + rewrite El. lia.
    + rewrite El. exact Hidx.
    + intros p x Hp. rewrite Hl1. apply (Hids p x Hp).
    + exists s'. split; [exact E|]. split; [rewrite Hl, Hl1; reflexivity|]. exists a'. split; [rewrite A', A1; reflexivity|exact Ht'].
Qed.

(* ---------------------------------------------------------------------------------------- *)
(* Archetype::externalMove *)
Lemma external_move_total s ai h prev pidx skip a pa n :
  nth_error (archs s) ai = Some a -> nth_error (archs s) prev = Some pa -> ai <> prev ->
  twf n a -> twf n pa -> n = length (cinfos s) -> am_size pa = length (am_ents pa) -> pidx < length (am_ents pa) ->
  N.to_nat (fst h) < length (locs s) ->
  (forall p x, nth_error (am_ents pa) p = Some x -> N.to_nat (fst x) < length (locs s)) ->
  exists s', external_move s ai h prev pidx skip = Ok s' /\ length (locs s') = length (locs s) /\
     exists a2 pa', archs s' = upd (upd (archs s) ai a2) prev pa' /\ twf n a2 /\ twf n pa' /\ am_mask a2 = am_mask a.
Proof.
  intros Ha Hpa Hne (Hv & Hreg) Htp -> Hpsz Hpidx Hh Hids.
  assert (Hai : ai < length (archs s)) by (eapply nth_error_lt'; exact Ha).
  unfold external_move. destruct (Nat.eqb_spec ai prev) as [|_]; [contradiction|].
  destruct (push_back_total s ai a h Ha Hv) as (g & c & Epb & Lg & Lc). bnd Epb.
  match type of Epb with _ = Ok (set_arch s ai ?x, _) => set (a1 := x) in * end.
  assert (Hv1 : vwf a1) by (apply vwf_pushed; assumption).
  set (s1 := set_arch s ai a1) in *.
  assert (Ha1 : nth_error (archs s1) ai = Some a1) by (simpl; apply nth_error_upd_same; exact Hai).
  assert (Hpa1 : nth_error (archs s1) prev = Some pa) by (simpl; rewrite nth_error_upd_other by exact Hne; exact Hpa).
  bnd (nth_res_some _ _ _ Ha1). bnd (nth_res_some _ _ _ Hpa1). cbv zeta.
  pose (P := fun st => exists a_st, cells_of s1 ai (length (am_ents a)) a1 st a_st).
  match goal with |- exists z, bind (fold_res ?f ?l s1) _ = _ /\ _ => destruct (fold_res_total f P l s1) as (s2 & E2 & a2 & Hc2) end.
  { exists a1. apply cells_of_refl. exact Ha1. }
  { intros (ci, c0) st Hx (a_st & Hc). cbv beta iota.
    assert (Hreg0 : c0 < length (cinfos s1)).
    { apply in_combine_seq0 in Hx. apply Hreg. eapply nth_error_In. exact Hx. }
    assert (Hci : cinfos st = cinfos s1) by (apply fr1_cinfos; exact (proj1 Hc)).
    destruct (info_of_total st c0) as (inf & Einf); [rewrite Hci; exact Hreg0|].
    bnd Einf.
    assert (Hpa' : nth_error (archs st) prev = Some pa) by (rewrite (cells_of_other _ _ _ _ _ _ prev Hc) by congruence; exact Hpa1).
    bnd (nth_res_some _ _ _ Hpa').
    destruct (cindex (am_mask pa) c0) as [pci|].
    - rewrite Hpsz. apply Nat.ltb_lt in Hpidx. rewrite Hpidx.
      rewrite (write_cell_total _ _ _ ci (length (am_ents a)) (get_cell pa pci pidx) (cells_of_nth _ _ _ _ _ _ Ha1 Hc)). cbn [bind].
      apply ok_ex. eexists. eapply cells_of_olog; [apply cells_of_put; exact Hc|apply olog_if].
    - match goal with |- exists z, (if ?b then _ else _) = _ /\ _ => destruct b end; [|apply ok_ex; exists a_st; exact Hc].
      apply (construct_default_total s1 ai (length (am_ents a)) a1 st a_st c0 ci h true Ha1 Hc Hreg0). }
  bnd E2.
  assert (Hpa2 : nth_error (archs s2) prev = Some pa) by (rewrite (cells_of_other _ _ _ _ _ _ prev Hc2) by congruence; exact Hpa1).
  bnd (nth_res_some _ _ _ Hpa2).
  destruct (nth_error_ex _ _ Hpidx) as (pent & Hpent). bnd (nth_res_some _ _ _ Hpent).
  destruct Hc2 as (F2 & A2 & B2 & _). destruct (ab1_fields _ _ B2) as (Em & Ee & _).
  assert (Hl2 : locs s2 = locs s) by (rewrite (fr1_locs _ _ F2); reflexivity).
  assert (Hci2 : cinfos s2 = cinfos s) by (rewrite (fr1_cinfos _ _ F2); reflexivity).
  destruct (arch_remove_total s2 prev pidx pent (am_mask a1) pa (length (cinfos s)) Hpa2 Htp (f_equal (@length cinfo) (eq_sym Hci2)) Hpsz Hpidx)
    as (s3 & E3 & Hl3 & pa' & A3 & Ht3).
  { rewrite Hl2. apply (Hids pidx pent Hpent). }
  { intros p x Hp. rewrite Hl2. apply (Hids p x Hp). }
  bnd E3. unfold update_location. rewrite upd_res_some' by (rewrite Hl3, Hl2; exact Hh). cbn [bind]. apply ok_ex.
  cbn [locs archs set_locs]. split; [rewrite upd_length, Hl3, Hl2; reflexivity|].
  exists a2, pa'. split.
  { rewrite A3, A2. unfold s1. cbn [archs set_arch set_archs]. rewrite upd_upd. reflexivity. }
  split; [|split; [exact Ht3|rewrite Em; reflexivity]].
  split; [apply (vwf_ab1 _ _ B2 Hv1)|rewrite Em; exact Hreg].
Qed.

(* ---------------------------------------------------------------------------------------- *)
(* getArchetype without dependencies and without chunk-size functions *)
Lemma get_arch_eq s m sh : deps s = [] -> chunk_fns s = [] ->
  get_arch s m sh = Ok (match find_arch (archs s) m sh 0 with
                        | Some i => (s, i)
                        | None => (set_archs s (archs s ++ [new_arch m sh (def_chunk s)]), length (archs s))
                        end).
Proof.
  intros Hd Hf. unfold get_arch, extra_components. rewrite Hd. cbn [bind]. rewrite munion_zero.
  destruct (find_arch (archs s) m sh 0); [reflexivity|].
  unfold resolve_chunk. rewrite Hf. cbn [fold_left]. simpl. reflexivity.
Qed.

Lemma mreg_madd n m c : mreg n m -> c < n -> mreg n (madd m c).
Proof.
  intros H Hc x Hx. apply mitems_in in Hx. destruct Hx as (Hx & Hm). rewrite mhas_madd in Hm.
  destruct (Nat.eqb_spec x c) as [->|_]; [exact Hc|]. apply H. apply mitems_in. auto.
Qed.

Lemma mreg_mdel n m c : mreg n m -> mreg n (mdel m c).
Proof.
  intros H x Hx. apply mitems_in in Hx. destruct Hx as (Hx & Hm). rewrite mhas_mdel in Hm. apply andb_true_iff in Hm.
  apply H. apply mitems_in. tauto.
Qed.

(* the state and archetype getArchetype answers with *)
Lemma get_arch_TI cis s m : TI cis s -> deps s = [] -> mreg (length cis) m ->
  exists s1 ai, get_arch s m si_null = Ok (s1, ai) /\ TI cis s1.
Proof.
  intros [Hch Hf Hta] Hd Hm. rewrite (get_arch_eq s m si_null Hd Hf).
  destruct (find_arch (archs s) m si_null 0) as [i|]; eexists; eexists; (split; [reflexivity|]).
  - constructor; assumption.
  - constructor; try assumption. cbn [archs set_archs]. apply Forall_app. split; [exact Hta|].
    constructor; [|constructor]. split; [apply vwf_new; exact Hch|exact Hm].
Qed.

(* createWithOutInit *)
Lemma create_id_total s hs al : G (proj s) hs al [] ->
  exists s2 h, create_id s = Ok (s2, h) /\ N.to_nat (fst h) < length (locs s2).
Proof.
  intros HG. pose proof (g_len HG) as Hlen. simpl in Hlen. rewrite !map_length in Hlen.
  unfold create_id. destruct (empty_slots s) as [|e] eqn:Ee.
  - eexists. eexists. split; [reflexivity|]. cbn [fst locs set_locs]. rewrite app_length, Nat2N.id. simpl. lia.
  - assert (Hin : In (next_slot s) (W (proj s))).
    { unfold W. cbn [Skeleton.empty_slots Skeleton.next_slot Skeleton.slots proj]. rewrite Ee, walk_S. left. reflexivity. }
    pose proof (g_free_range HG _ Hin) as Hr. simpl in Hr. rewrite map_length in Hr.
    destruct (nth_error_ex (slots s) (N.to_nat (next_slot s)) Hr) as (sl & Hsl).
    rewrite (nth_res_some _ _ _ Hsl). cbn [bind locs set_slots set_free].
    rewrite upd_res_some' by (rewrite Hlen; exact Hr). cbn [bind].
    eexists. eexists. split; [reflexivity|]. cbn [fst locs set_locs]. rewrite upd_length, Hlen. exact Hr.
Qed.

(* ---------------------------------------------------------------------------------------- *)
(* the extra invariant through state changes *)
Lemma TI_upd cis s s' ai a' : TI cis s -> fr3 s' = fr3 s -> archs s' = upd (archs s) ai a' -> twf (length cis) a' -> TI cis s'.
Proof.
  intros [A B C] F E Ht. destruct (fr3_ctl _ _ F) as (_ & _ & _ & _ & _ & _ & _ & E1 & E2).
  constructor; [rewrite E1; exact A|rewrite E2; exact B|rewrite E; apply Forall_upd; assumption].
Qed.

Lemma TI_upd2 cis s s' ai a' pai pa' : TI cis s -> fr3 s' = fr3 s -> archs s' = upd (upd (archs s) ai a') pai pa' ->
  twf (length cis) a' -> twf (length cis) pa' -> TI cis s'.
Proof.
  intros [A B C] F E Ht Htp. destruct (fr3_ctl _ _ F) as (_ & _ & _ & _ & _ & _ & _ & E1 & E2).
  constructor; [rewrite E1; exact A|rewrite E2; exact B|rewrite E; apply Forall_upd; [apply Forall_upd|]; assumption].
Qed.

Lemma TI_release cis s h : TI cis s -> TI cis (release_id s h).
Proof. intros [A B C]. constructor; [exact A|exact B|exact C]. Qed.

Lemma TI_set_log cis s l : TI cis s -> TI cis (set_log s l).
Proof. intros [A B C]. constructor; [exact A|exact B|exact C]. Qed.

Lemma TI_emit_if cis s (b : bool) e : TI cis s -> TI cis (if b then emit s e else s).
Proof. intros H. destruct b; [apply TI_set_log|]; exact H. Qed.

Lemma TI_init n cis : TI cis (init n cis).
Proof. constructor; [discriminate|reflexivity|constructor]. Qed.

Lemma member_ids cis s hs al x ai a : MInv cis s hs al x -> nth_error (archs s) ai = Some a ->
  forall p y, nth_error (am_ents a) p = Some y -> N.to_nat (fst y) < length (locs s).
Proof.
  intros HI Ha p y Hp. destruct (members_m _ _ _ _ _ _ _ (mi_G _ _ _ _ _ HI) Ha Hp) as (_ & _ & _ & _ & L).
  eapply nth_error_lt'. exact L.
Qed.

(* ---------------------------------------------------------------------------------------- *)
(* create *)
Lemma step_create_total cis s hs al x tid m via :
  MInv cis s hs al x -> TI cis s -> mreg (length cis) m ->
  exists s' h, step s (OCreate tid m [] via) = Ok (s', RHandle h) /\ TI cis s'.
Proof.
  intros HI HT Hm. rewrite (step_create_unlocked _ _ _ _ (mi_lock _ _ _ _ _ HI)).
  destruct (get_arch_TI cis s m HT (mi_deps _ _ _ _ _ HI) Hm) as (s1 & ai & Ega & HT1). rewrite Ega. cbn [bind].
  destruct (MInv_get_arch _ _ _ _ _ _ _ _ HI Ega) as (HI1 & _ & _ & a & Ha & _).
  destruct (create_id_total s1 hs al (mi_G _ _ _ _ _ HI1)) as (s2 & h & Ec & Hh). rewrite Ec. cbn [bind].
  destruct (create_id_frame _ _ _ Ec) as (A2 & F2). destruct (fr3_ctl _ _ F2) as (_ & _ & Eci & _).
  assert (Ha2 : nth_error (archs s2) ai = Some a) by (rewrite A2; exact Ha).
  destruct (arch_insert_total s2 ai a h 0%N (length cis) Ha2 (twf_nth _ _ _ _ (ti_archs _ _ HT1) Ha)) as (s3 & Ei & a3 & Ha3 & Ht3).
  { rewrite Eci, (mi_cis _ _ _ _ _ HI1). reflexivity. }
  { exact Hh. }
  rewrite Ei. cbn [bind]. exists s3, h. split; [reflexivity|].
  destruct (arch_insert_ok _ _ _ _ _ _ Ha2 (proj2 (proj2 (awf_nth _ _ _ (mi_awf _ _ _ _ _ HI1) Ha))) Ei) as (a3' & F3 & A3 & _).
  assert (a3' = a3).
  { rewrite A3, nth_error_upd_same in Ha3 by (eapply nth_error_lt'; exact Ha2). congruence. }
  subst a3'.
  apply (TI_upd cis s2 s3 ai a3); [|apply fr2_fr3; exact F3|exact A3|exact Ht3].
  destruct HT1 as [A B C]. destruct (fr3_ctl _ _ F2) as (_ & _ & _ & _ & _ & _ & _ & E1 & E2).
  constructor; [rewrite E1; exact A|rewrite E2; exact B|rewrite A2; exact C].
Qed.

(* destroyNow *)
Lemma step_destroy_now_total cis s hs al x tid k :
  MInv cis s hs al x -> TI cis s ->
  exists s', step s (ODestroyNow tid (hnd hs k)) = Ok (s', RNone) /\ TI cis s'.
Proof.
  intros HI HT. rewrite (step_destroy_now_unlocked _ _ _ (mi_lock _ _ _ _ _ HI)). unfold destroy_now_unlocked.
  destruct (is_valid s (hnd hs k)) eqn:Ev; [|cbn [bind]; exists s; split; [reflexivity|exact HT]].
  destruct (valid_find _ _ _ _ _ _ HI Ev) as (Hk & Hal & _). destruct (alive_in _ _ Hal) as (key & Hin).
  destruct (live_m _ _ _ _ _ (mi_G _ _ _ _ _ HI) Hin) as (_ & ai & idx & a & Hloc & Harch & _ & Hent).
  rewrite (nth_res_some _ _ _ Hloc). cbn [bind l_arch l_idx].
  destruct (awf_nth _ _ _ (mi_awf _ _ _ _ _ HI) Harch) as (_ & Wsz & Wcols).
  destruct (arch_remove_total s ai idx (hnd hs k) 0%N a (length cis) Harch (twf_nth _ _ _ _ (ti_archs _ _ HT) Harch))
    as (s1 & E & _ & a' & A' & Ht').
  { rewrite (mi_cis _ _ _ _ _ HI). reflexivity. }
  { exact Wsz. }
  { eapply nth_error_lt'. exact Hent. }
  { eapply nth_error_lt'. exact Hloc. }
  { apply (member_ids _ _ _ _ _ _ _ HI Harch). }
  rewrite E. cbn [bind]. eexists. split; [reflexivity|]. apply TI_release.
  destruct (arch_remove_ok _ _ _ _ _ _ _ Harch Wsz Wcols E) as (a'' & F2 & _).
  apply (TI_upd cis s s1 ai a' HT (fr2_fr3 _ _ F2) A' Ht').
Qed.

(* an entity moves to another archetype *)
Lemma move_total_gen cis s h ai a_t pai pidx pa skip :
  TI cis s -> Forall awf (archs s) -> cinfos s = cis ->
  (forall p y, nth_error (am_ents pa) p = Some y -> N.to_nat (fst y) < length (locs s)) ->
  N.to_nat (fst h) < length (locs s) ->
  nth_error (archs s) pai = Some pa -> pidx < length (am_ents pa) ->
  nth_error (archs s) ai = Some a_t -> ai <> pai ->
  exists s2, external_move s ai h pai pidx skip = Ok s2 /\ TI cis s2 /\ length (locs s2) = length (locs s) /\
    exists a2, nth_error (archs s2) ai = Some a2 /\ am_mask a2 = am_mask a_t.
Proof.
  intros HT Hawf Hcis Hids Hh Hpa Hpidx Hat Hne.
  destruct (awf_nth _ _ _ Hawf Hpa) as (_ & Wpsz & Wpcols).
  destruct (awf_nth _ _ _ Hawf Hat) as (_ & _ & Wtcols).
  destruct (external_move_total s ai h pai pidx skip a_t pa (length cis) Hat Hpa Hne
              (twf_nth _ _ _ _ (ti_archs _ _ HT) Hat) (twf_nth _ _ _ _ (ti_archs _ _ HT) Hpa))
    as (s2 & E & Hl & a2 & pa' & A & Ht2 & Htp & Em).
  { rewrite Hcis. reflexivity. }
  { exact Wpsz. }
  { exact Hpidx. }
  { exact Hh. }
  { exact Hids. }
  exists s2. split; [exact E|].
  destruct (external_move_ok _ _ _ _ _ _ _ _ _ Hat Hpa Wtcols Wpsz Wpcols E) as (_ & _ & _ & _ & _ & F & _).
  split; [apply (TI_upd2 cis s s2 ai a2 pai pa' HT (fr2_fr3 _ _ F) A Ht2 Htp)|]. split; [exact Hl|].
  exists a2. split; [|exact Em]. rewrite A, nth_error_upd_other by congruence. apply nth_error_upd_same. eapply nth_error_lt'. exact Hat.
Qed.

Lemma move_total cis s hs al x k key ai a_t pai pidx pa skip :
  MInv cis s hs al x -> TI cis s -> In (k, key) al ->
  nth_error (locs s) (N.to_nat (fst (hnd hs k))) = Some {| l_arch := Some pai; l_idx := pidx |} ->
  nth_error (archs s) pai = Some pa -> nth_error (am_ents pa) pidx = Some (hnd hs k) ->
  nth_error (archs s) ai = Some a_t -> ai <> pai ->
  exists s2, external_move s ai (hnd hs k) pai pidx skip = Ok s2 /\ TI cis s2 /\ length (locs s2) = length (locs s) /\
    exists a2, nth_error (archs s2) ai = Some a2 /\ am_mask a2 = am_mask a_t.
Proof.
  intros HI HT Hin Hloc Hpa Hent Hat Hne.
  apply (move_total_gen cis s (hnd hs k) ai a_t pai pidx pa skip HT (mi_awf _ _ _ _ _ HI) (mi_cis _ _ _ _ _ HI)); try assumption.
  - apply (member_ids _ _ _ _ _ _ _ HI Hpa).
  - eapply nth_error_lt'. exact Hloc.
  - eapply nth_error_lt'. exact Hent.
Qed.

(* assign, unlocked *)
Lemma assign_unlocked_total cis s hs al x k key c b pai pidx pa :
  MInv cis s hs al x -> TI cis s -> c < length cis -> In (k, key) al ->
  nth_error (locs s) (N.to_nat (fst (hnd hs k))) = Some {| l_arch := Some pai; l_idx := pidx |} ->
  nth_error (archs s) pai = Some pa -> nth_error (am_ents pa) pidx = Some (hnd hs k) -> mhas (am_mask pa) c = false ->
  exists s2 ai ci slot, assign_unlocked s (hnd hs k) c b = Ok (s2, (ai, ci, slot)) /\ TI cis s2 /\
    exists a2, nth_error (archs s2) ai = Some a2.
Proof.
  intros HI HT Hc Hin Hloc Hpa Hent Hmc.
  unfold assign_unlocked, loc_arch. rewrite (nth_res_some _ _ _ Hloc). cbn [bind l_arch l_idx].
  rewrite (nth_res_some _ _ _ Hpa). cbn [bind].
  destruct (awf_nth _ _ _ (mi_awf _ _ _ _ _ HI) Hpa) as (Wsh & _). rewrite Wsh.
  destruct (twf_nth _ _ _ _ (ti_archs _ _ HT) Hpa) as (_ & Hregp).
  destruct (get_arch_TI cis s (madd (am_mask pa) c) HT (mi_deps _ _ _ _ _ HI) (mreg_madd _ _ _ Hregp Hc)) as (s_g & ai & Ega & HTg).
  rewrite Ega. cbn [bind].
  destruct (MInv_get_arch _ _ _ _ _ _ _ _ HI Ega) as (HIg & Fg & Hkeep & a_t & Hat & Hmt).
  assert (Hpa_g : nth_error (archs s_g) pai = Some pa) by (apply Hkeep; exact Hpa).
  assert (Hloc_g : nth_error (locs s_g) (N.to_nat (fst (hnd hs k))) = Some {| l_arch := Some pai; l_idx := pidx |})
    by (rewrite (fr1_locs _ _ Fg); exact Hloc).
  assert (Hne : ai <> pai).
  { intros ->. rewrite Hpa_g in Hat. inversion Hat; subst a_t.
    assert (E : mhas (madd (am_mask pa) c) c = false) by (rewrite <- Hmt; exact Hmc).
    rewrite mhas_madd, Nat.eqb_refl in E. discriminate. }
  match goal with |- context [external_move s_g ai _ pai pidx ?sk] =>
    destruct (move_total cis s_g hs al x k key ai a_t pai pidx pa sk HIg HTg Hin Hloc_g Hpa_g Hent Hat Hne)
      as (s2 & Em & HT2 & Hl2 & a2 & Ha2 & Emask) end.
  rewrite Em. cbn [bind]. rewrite (nth_res_some _ _ _ Ha2). cbn [bind].
  destruct (nth_error_ex (locs s2) (N.to_nat (fst (hnd hs k)))) as (l2 & El2).
  { rewrite Hl2. eapply nth_error_lt'. exact Hloc_g. }
  rewrite (nth_res_some _ _ _ El2). cbn [bind].
  assert (Eci : cindex (am_mask a2) c = Some (length (filter (mhas (am_mask a2)) (seq 0 c)))).
  { unfold cindex. rewrite Emask, Hmt, mhas_madd, Nat.eqb_refl. reflexivity. }
  rewrite Eci. eexists. eexists. eexists. eexists. split; [reflexivity|]. split; [exact HT2|]. eauto.
Qed.

Lemma twf_put n a ci slot v : twf n a -> twf n (put_cell a ci slot v).
Proof. intros (Hv & Hr). split; [apply (vwf_ab1 a _ (ab1_put a ci slot v) Hv)|exact Hr]. Qed.

Lemma TI_put cis s ai a ci slot v : TI cis s -> nth_error (archs s) ai = Some a -> TI cis (set_arch s ai (put_cell a ci slot v)).
Proof.
  intros HT Ha. apply (TI_upd cis s _ ai (put_cell a ci slot v) HT); [reflexivity|reflexivity|].
  apply twf_put. apply (twf_nth _ _ _ _ (ti_archs _ _ HT) Ha).
Qed.

Lemma step_assign_total cis s hs al x tid k c v typed :
  MInv cis s hs al x -> TI cis s -> c < MASK_BITS -> c < length cis ->
  alive_x x k = true -> x_viol (x_step_in x (XoAssign tid k c v)) = x_viol x ->
  exists s', step s (OAssign tid (hnd hs k) c (match v with Some z => AValue z | None => ADefault end) typed) = Ok (s', RNone) /\
             TI cis s'.
Proof.
  intros HI HT Hc128 Hc Hax Hviol.
  pose proof HI as [HG Hawf Hl Hdp Hcis Hxl Hxd Hxc Hcnt Hsl Hal Hv].
  destruct (alive_in _ _ (proj2 (Hal k) Hax)) as (key & Hin).
  destruct (find_ent x k) as [e|] eqn:Hfe; [|apply alive_x_find in Hax; congruence].
  destruct (live_vmatch _ _ _ _ _ _ _ _ HI Hin Hfe) as (Hk & pai & pidx & pa & Hloc & Hpa & Hkey & Hent & Hvm).
  assert (Hx : x_step_in x (XoAssign tid k c v) = x_assign x k c v).
  { unfold x_step_in, issued_b. rewrite Hcnt. apply Nat.ltb_lt in Hk. rewrite Hk, Hxl. reflexivity. }
  rewrite Hx in Hviol.
  assert (Hhc : has_comp (e_comps e) c = false).
  { destruct (has_comp (e_comps e) c) eqn:E; [|reflexivity]. unfold x_assign in Hviol. rewrite Hfe, E in Hviol. simpl in Hviol. lia. }
  assert (Hmc : mhas (am_mask pa) c = false) by (rewrite <- (vmatch_has _ _ _ _ Hvm Hc128); exact Hhc).
  rewrite (step_assign_unlocked _ _ _ _ _ _ Hl).
  destruct (info_of_total s c) as (inf & Einf); [rewrite Hcis; exact Hc|]. rewrite Einf. cbn [bind].
  destruct (assign_unlocked_total cis s hs al x k key c (match match v with Some z => AValue z | None => ADefault end with AValue _ => typed | ADefault => false end)
              pai pidx pa HI HT Hc Hin Hloc Hpa Hent Hmc) as (s2 & ai & ci & slot & Ea & HT2 & a2 & Ha2).
  rewrite Ea. cbn [bind]. destruct v as [z|]; [|exists s2; split; [reflexivity|exact HT2]].
  destruct (ci_hasval inf).
  - rewrite (write_cell_total _ _ _ ci slot (Some z) Ha2). cbn [bind].
    pose proof (TI_put cis s2 ai a2 ci slot (Some z) HT2 Ha2) as HT3.
    destruct typed; eexists; (split; [reflexivity|]); [|exact HT3].
    apply TI_emit_if. apply TI_emit_if. exact HT3.
  - cbn [bind]. destruct typed; eexists; (split; [reflexivity|]); [|exact HT2].
    apply TI_emit_if. apply TI_emit_if. exact HT2.
Qed.

(* removeComponent *)
Lemma step_remove_total cis s hs al x tid k c typed :
  MInv cis s hs al x -> TI cis s -> (typed = true \/ alive_x x k = true) ->
  exists s', step s (ORemove tid (hnd hs k) c typed) = Ok (s', RNone) /\ TI cis s'.
Proof.
  intros HI HT Hctr. rewrite (step_remove_unlocked _ _ _ _ _ (mi_lock _ _ _ _ _ HI)).
  destruct (is_valid s (hnd hs k)) eqn:Ev.
  - rewrite andb_false_r.
    destruct (valid_find _ _ _ _ _ _ HI Ev) as (Hk & Hal & _). destruct (alive_in _ _ Hal) as (key & Hin).
    destruct (live_m _ _ _ _ _ (mi_G _ _ _ _ _ HI) Hin) as (_ & pai & pidx & pa & Hloc & Hpa & _ & Hent).
    unfold remove_unlocked. rewrite (nth_res_some _ _ _ Hloc). cbn [bind l_arch l_idx].
    rewrite (nth_res_some _ _ _ Hpa). cbn [bind].
    destruct (mhas (am_mask pa) c) eqn:Emc; cbn [negb]; [|cbn [bind]; exists s; split; [reflexivity|exact HT]].
    destruct (awf_nth _ _ _ (mi_awf _ _ _ _ _ HI) Hpa) as (Wsh & _). rewrite Wsh.
    destruct (twf_nth _ _ _ _ (ti_archs _ _ HT) Hpa) as (_ & Hregp).
    destruct (get_arch_TI cis s (mdel (am_mask pa) c) HT (mi_deps _ _ _ _ _ HI) (mreg_mdel _ _ _ Hregp)) as (s_g & ai & Ega & HTg).
    rewrite Ega. cbn [bind].
    destruct (Nat.eqb_spec ai pai) as [->|Hne]; [cbn [bind]; exists s_g; split; [reflexivity|exact HTg]|].
    destruct (MInv_get_arch _ _ _ _ _ _ _ _ HI Ega) as (HIg & Fg & Hkeep & a_t & Hat & Hmt).
    assert (Hpa_g : nth_error (archs s_g) pai = Some pa) by (apply Hkeep; exact Hpa).
    assert (Hloc_g : nth_error (locs s_g) (N.to_nat (fst (hnd hs k))) = Some {| l_arch := Some pai; l_idx := pidx |})
      by (rewrite (fr1_locs _ _ Fg); exact Hloc).
    destruct (move_total cis s_g hs al x k key ai a_t pai pidx pa 0%N HIg HTg Hin Hloc_g Hpa_g Hent Hat Hne)
      as (s2 & Em & HT2 & _).
    rewrite Em. cbn [bind]. exists s2. split; [reflexivity|exact HT2].
  - assert (Ety : typed = true).
    { destruct Hctr as [E|E]; [exact E|]. apply alive_x_find in E. rewrite (dead_find _ _ _ _ _ _ HI Ev) in E. congruence. }
    subst typed. cbn [andb negb]. exists s. split; [reflexivity|exact HT].
Qed.

(* getComponent<T>() with a write *)
Lemma step_set_total cis s hs al x k c z :
  MInv cis s hs al x -> TI cis s -> c < MASK_BITS ->
  exists s' p w, step s (OGetMut (hnd hs k) c (Some z)) = Ok (s', RCell p w) /\ TI cis s'.
Proof.
  intros HI HT Hc128. rewrite step_getmut.
  destruct (is_valid s (hnd hs k)) eqn:Ev; cbn [negb]; [|exists s; eexists; eexists; split; [reflexivity|exact HT]].
  destruct (valid_find _ _ _ _ _ _ HI Ev) as (Hk & Hal & _). destruct (alive_in _ _ Hal) as (key & Hin).
  destruct (live_m _ _ _ _ _ (mi_G _ _ _ _ _ HI) Hin) as (_ & ai & idx & a & Hloc & Harch & _ & Hent).
  rewrite (nth_res_some _ _ _ Hloc). cbn [bind l_arch l_idx]. rewrite (nth_res_some _ _ _ Harch). cbn [bind].
  destruct (cindex (am_mask a) c) as [ci|] eqn:Eci; [|exists s; eexists; eexists; split; [reflexivity|exact HT]].
  pose proof (twf_nth _ _ _ _ (ti_archs _ _ HT) Harch) as Ht. pose proof Ht as (Hv & Hreg). pose proof Hv as (Hch & Hg & _).
  rewrite (chunk_at_total a idx Hch). cbn [bind].
  pose proof (cindex_lt _ _ _ Hc128 Eci) as Hci. pose proof (vwf_cover a idx Hv (nth_error_lt' _ _ _ Hent)) as Hcov.
  destruct (vs_set_one_total a (wv s) (idx / am_chunk a) ci) as (g & cv & E & Lg & Lc); [lia|lia|].
  rewrite E. cbn [bind]. eexists. eexists. eexists. split; [reflexivity|].
  apply (TI_upd cis s _ ai (put_cell (with_vers a g cv) ci idx (Some z)) HT); [reflexivity|reflexivity|].
  apply twf_put. split; [|exact Hreg].
  apply (vwf_mono a _ Hv); cbn [am_chunk am_mask am_gver am_cver am_ents with_vers]; try reflexivity; [exact Lg|rewrite Lc; apply le_n].
Qed.

(* ---------------------------------------------------------------------------------------- *)
(* the registration hypothesis: the component ids the script names have a description *)
Definition mreg_b (n : nat) (m : mask) : bool := forallb (fun c => Nat.ltb c n) (mitems m).

Lemma mreg_b_ok n m : mreg_b n m = true -> mreg n m.
Proof. unfold mreg_b. intros H c Hc. rewrite forallb_forall in H. apply Nat.ltb_lt. apply H. exact Hc. Qed.
(* the kernel must not compare two unfolded copies of `mitems m` (a 128-fold nested conditional): when it meets
   reg_b ... (XoCreate ...) against mreg_b ..., it has to unfold reg_b first *)
Global Opaque mreg_b.

Definition reg_b (cis : list cinfo) (o : xop) : bool :=
  match o with
  | XoCreate _ m _ _ => mreg_b (length cis) m
  | XoAssign _ _ c _ => Nat.ltb c (length cis)
  | _ => true
  end.

Definition is_create (o : xop) : bool := match o with XoCreate _ _ _ _ => true | _ => false end.
Definition creates (ops : list xop) : nat := length (filter is_create ops).

Lemma creates_cons o t : creates (o :: t) = (if is_create o then 1 else 0) + creates t.
Proof. unfold creates. simpl. destruct (is_create o); reflexivity. Qed.

(* one operation *)
Lemma mstep_of_step typed s hs o s1 out : step s (concretize typed hs o) = Ok (s1, out) ->
  mstep typed (s, hs) o = Ok (set_log s1 [], match out with RHandle h => hs ++ [h] | _ => hs end).
Proof. intros E. unfold mstep. rewrite E. reflexivity. Qed.

Lemma mstep_total cis typed s hs al x o :
  MInv cis s hs al x -> TI cis s -> alpha_b cis o = true -> reg_b cis o = true ->
  x_viol x = 0 -> x_viol (x_step x o) = 0 ->
  exists s' hs', mstep typed (s, hs) o = Ok (s', hs') /\ TI cis s' /\ length hs' = length hs + (if is_create o then 1 else 0).
Proof.
  intros HI HT Ha Hr Hv0 Hv1.
  unfold x_step in Hv1. destruct (out_of_contract x o) eqn:Eooc; [simpl in Hv1; lia|].
  destruct o; simpl in Ha; try discriminate; cbn [is_create].
  - (* create *)
    destruct sids; [|discriminate].
    destruct (step_create_total cis s hs al x tid m via_arch HI HT (mreg_b_ok _ _ Hr)) as (s1 & h & E & HT1).
    exists (set_log s1 []), (hs ++ [h]). split; [apply (mstep_of_step typed s hs (XoCreate tid m [] via_arch) s1 (RHandle h) E)|].
    split; [apply TI_set_log; exact HT1|]. rewrite app_length. reflexivity.
  - (* destroyNow *)
    destruct (step_destroy_now_total cis s hs al x tid k HI HT) as (s1 & E & HT1).
    exists (set_log s1 []), hs. split; [apply (mstep_of_step typed s hs (XoDestroyNow tid k) s1 RNone E)|].
    split; [apply TI_set_log; exact HT1|lia].
  - (* assign *)
    apply andb_true_iff in Ha. destruct Ha as (Hc & _). apply Nat.ltb_lt in Hc. cbn [reg_b] in Hr. apply Nat.ltb_lt in Hr.
    simpl in Eooc. rewrite (mi_xlock _ _ _ _ _ HI) in Eooc. apply negb_false_iff in Eooc.
    destruct (step_assign_total cis s hs al x tid k c v typed HI HT Hc Hr Eooc) as (s1 & E & HT1); [lia|].
    exists (set_log s1 []), hs. split; [apply (mstep_of_step typed s hs (XoAssign tid k c v) s1 RNone E)|].
    split; [apply TI_set_log; exact HT1|lia].
  - (* removeComponent *)
    simpl in Eooc. rewrite (mi_xlock _ _ _ _ _ HI) in Eooc.
    destruct (step_remove_total cis s hs al x tid k c typed0 HI HT) as (s1 & E & HT1).
    { destruct typed0; [left; reflexivity|right]. simpl in Eooc. apply negb_false_iff in Eooc. exact Eooc. }
    exists (set_log s1 []), hs. split; [apply (mstep_of_step typed s hs (XoRemove tid k c typed0) s1 RNone E)|].
    split; [apply TI_set_log; exact HT1|lia].
  - (* write through getComponent *)
    apply Nat.ltb_lt in Ha.
    destruct (step_set_total cis s hs al x k c v HI HT Ha) as (s1 & p & w & E & HT1).
    exists (set_log s1 []), hs. split; [apply (mstep_of_step typed s hs (XoSet k c v) s1 (RCell p w) E)|].
    split; [apply TI_set_log; exact HT1|lia].
Qed.

(* the run *)
Lemma run_total cis typed : forall ops s hs al x,
  MInv cis s hs al x -> TI cis s -> cis_ok cis ->
  forallb (alpha_b cis) ops = true -> forallb (reg_b cis) ops = true ->
  x_viol x = 0 -> x_viol (fold_left x_step ops x) = 0 -> within (length hs + creates ops) ->
  exists s' hs', fold_res (mstep typed) ops (s, hs) = Ok (s', hs') /\ length hs' = length hs + creates ops.
Proof.
  induction ops as [|o t IH]; intros s hs al x HI HT Hok Ha Hr Hv0 Hv1 Hb.
  - exists s, hs. split; [reflexivity|]. unfold creates. simpl. lia.
  - cbn [forallb] in Ha, Hr. apply andb_true_iff in Ha. destruct Ha as (Ho & Ht). apply andb_true_iff in Hr. destruct Hr as (Hro & Hrt).
    cbn [fold_left] in Hv1.
    assert (Hv1' : x_viol (x_step x o) = 0).
    { pose proof (x_viol_run_mono cis t (x_step x o) Ht). lia. }
    destruct (mstep_total cis typed s hs al x o HI HT Ho Hro Hv0 Hv1') as (s1 & hs1 & E1 & HT1 & Hlen1).
    rewrite creates_cons in Hb.
    destruct (MInv_step cis typed s hs al x o s1 hs1 HI Hok Ho Hv0 Hv1' E1) as (al1 & HI1).
    { eapply within_le; [|exact Hb]. lia. }
    destruct (IH s1 hs1 al1 (x_step x o) HI1 HT1 Hok Ht Hrt Hv1' Hv1) as (s' & hs' & E & Hlen).
    { eapply within_le; [|exact Hb]. lia. }
    exists s', hs'. cbn [fold_res]. rewrite E1. cbn [bind]. split; [exact E|]. rewrite creates_cons. lia.
Qed.

(* for every script over the unlocked alphabet that names described component ids only and stays inside the contract,
   the model run does not end in Err *)
Theorem model_run_total typed n cis ops :
  cis_ok cis -> forallb (alpha_b cis) ops = true -> forallb (reg_b cis) ops = true ->
  x_viol (xrun n cis ops) = 0 -> within (creates ops) ->
  exists s hs, mrun typed n cis ops = Ok (s, hs) /\ length hs = creates ops.
Proof.
  intros Hok Ha Hr Hv Hb. unfold mrun. unfold xrun in Hv.
  destruct (run_total cis typed ops (init n cis) [] [] (x_init n cis) (MInv_init n cis) (TI_init n cis) Hok Ha Hr eq_refl Hv Hb)
    as (s & hs & E & Hlen).
  exists s, hs. split; [exact E|exact Hlen].
Qed.

(* the refinement theorems without the hypothesis on the model run *)
Theorem unlocked_refines_total typed n cis ops :
  cis_ok cis -> forallb (alpha_b cis) ops = true -> forallb (reg_b cis) ops = true ->
  x_viol (xrun n cis ops) = 0 -> within (creates ops) ->
  refines_on typed n cis ops = true.
Proof.
  intros Hok Ha Hr Hv Hb. destruct (model_run_total typed n cis ops Hok Ha Hr Hv Hb) as (s & hs & E & Hlen).
  apply (unlocked_refines_on typed n cis ops s hs Hok Ha E Hv). rewrite Hlen. exact Hb.
Qed.

Theorem unlocked_refinement_total typed n cis ops :
  cis_ok cis -> forallb (alpha_b cis) ops = true -> forallb (reg_b cis) ops = true ->
  x_viol (xrun n cis ops) = 0 -> within (creates ops) ->
  exists s hs, mrun typed n cis ops = Ok (s, hs) /\ length hs = x_count (xrun n cis ops) /\
  (forall k,
    match find_ent (xrun n cis ops) k with
    | Some e => exists e', abs_ent s k (nth k hs null_handle) = Some e' /\ ent_match e e' = true
    | None => abs_ent s k (nth k hs null_handle) = None
    end) /\
  (forall k c, c < MASK_BITS ->
    step s (OHas (nth k hs null_handle) c) = Ok (s, RBool (spec_has (xrun n cis ops) k c)) /\
    exists v, step s (OGetConst (nth k hs null_handle) c) = Ok (s, RCell (spec_has (xrun n cis ops) k c) v) /\
              forall e w, find_ent (xrun n cis ops) k = Some e -> In (c, w) (e_comps e) -> cell_le w v = true).
Proof.
  intros Hok Ha Hr Hv Hb. destruct (model_run_total typed n cis ops Hok Ha Hr Hv Hb) as (s & hs & E & Hlen).
  assert (Hb' : within (length hs)) by (rewrite Hlen; exact Hb).
  exists s, hs. split; [exact E|].
  destruct (unlocked_refinement typed n cis ops s hs Hok Ha E Hv Hb') as (Hc & Hk).
  split; [exact Hc|]. split; [exact Hk|]. apply (unlocked_observations typed n cis ops s hs Hok Ha E Hv Hb').
Qed.
