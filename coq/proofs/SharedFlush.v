(* C12 under lock: the flush at the outermost unlock when archetypes carry shared components.  The proofs are those of
   ManagerFlush.v (F_pack_create / F_pack_other / F_pack / F_packs / F_storage / F_buffers) with the invariant SLInv of
   SharedLInv.v in place of LInv: applyCommandPack takes the shared info of the entity's previous archetype (si_null
   for a recorded creation) into the lookup of the target archetype, so the entity moves between archetypes with the
   SAME shared info and the values the specification gives it are still those of its archetype. *)
Require Import Coq.Lists.List Coq.NArith.NArith Coq.ZArith.ZArith Coq.Arith.Arith Coq.Bool.Bool Coq.micromega.Lia.
From Mustache Require Import Res Manager MgrSpec Refine.
From Mustache Require Skeleton.
From Mustache Require Import SkelSpec.
From Mustache.proofs Require Import ListLemmas SkelBasics SkelInv SkelSteps SkelRefine SkelLocked SkelFlush SkelMove SkelMoveRem ClosureProofs
  ManagerBasics ManagerMoves ManagerProj ManagerInv ManagerMain ManagerLInv ManagerPack ManagerFlush DepsFrame DepsClosure DepsInv
  SharedProofs SharedKey SharedVals SharedFrame SharedInv SharedLInv.
From Mustache.proofs Require ManagerDeferred.
Import ListNotations.

(* ---- the flush invariant ---- *)
Record SFInv (cis : list cinfo) (s : mst) (hs : list handle) (x : xst) (rem : list scmd) : Prop := {
  sf_inv : exists al, SLInv cis s hs al rem x;
  sf_created : NoDup (created rem);
  sf_mr : MR hs (marked s) (x_marked x);
  sf_ids : forall h, In h hs -> N.to_nat (fst h) < length hs
}.

(* the masks of the recorded creations are inside the 128 bits of the bitset *)
Definition xlow (xc : xcmd) : Prop := match xc with XCreate _ m _ => lowm m | _ => True end.

(* ---- the final mask of a pack stays inside the 128 bits ---- *)
Lemma pack_loop_low create h : forall t s fm am s3 final assigned fin, Forall asg_ok t -> lowm fm ->
  pack_loop create h t s fm am = Ok (s3, final, assigned, fin) -> lowm final.
Proof.
  induction t as [|c t IH]; intros s fm am s3 final assigned fin Hp Hm H; simpl in H.
  - inversion H; subst. exact Hm.
  - inversion Hp as [|c1 t1 Hc Hp']; subst c1 t1. destruct c as [h' ha m sh|h'|h'|h' c|h' c n]; [discriminate| | | |].
    + eapply IH; eassumption.
    + destruct create; [inversion H; subst; exact Hm|]. bd H s1 Hd. inversion H; subst. exact Hm.
    + eapply IH; [exact Hp'| |exact H]. apply lowm_mdel. exact Hm.
    + eapply IH; [exact Hp'| |exact H]. apply lowm_madd; [exact Hm|exact Hc].
Qed.

Lemma shvals_same s s' sh : insts s' = insts s -> shvals s' sh = shvals s sh.
Proof. intros E. apply shvals_insts. intros i _. apply inst_value_insts. exact E. Qed.

Lemma shvals_null s : shvals s si_null = [].
Proof. reflexivity. Qed.

(* an entity with the given component set, indeterminate values and the given shared values *)
Definition blank_s (k : nat) (m : mask) (sh : list (nat * Z)) : ent :=
  {| e_k := k; e_comps := map (fun c => (c, @None Z)) (mitems m); e_shared := sh |}.
Lemma blank_s_vmatch k m sh a idx : mitems (am_mask a) = mitems m -> vmatch (erase (blank_s k m sh)) a idx.
Proof.
  intros E. unfold blank_s, erase. rewrite !e_comps_mk, e_k_mk. split; [rewrite e_comps_mk, E; apply map_fst_pair|]. split; [reflexivity|].
  intros c v Hin. rewrite e_comps_mk in Hin. apply in_map_iff in Hin. destruct Hin as (c0 & E0 & _). inversion E0; subst. reflexivity.
Qed.

(* ---- a pack that begins with the creation of its entity ---- *)
Lemma F_pack_create_s cis tid tl s hs x k m hact sh h t xt rem' s' :
  SFInv cis s hs x (SCreate k m :: rem') -> cis_ok cis -> nth_error (tmps s) tid = Some tl ->
  k < length hs -> hnd hs k = h -> sh = si_null -> hact = negb (m =? 0)%N -> lowm m ->
  Forall2 (crel cis hs tl) t xt -> Forall (fun c => cmd_handle c = h) t -> Forall (fun c => is_create c = false) t ->
  x_viol (fold_left x_cmd xt (x_cmd x (XCreate k m []))) = x_viol x ->
  apply_pack tid s (ACreate h hact m sh :: t) = Ok s' ->
  SFInv cis s' hs (fold_left x_cmd xt (x_cmd x (XCreate k m []))) rem' /\ fr4 s' = fr4 s.
Proof.
  intros [(al & HS) Hcr Hmr Hids] Hok Htl Hk Eh -> Eha Hlm HR Hall Hnc Hviol H.
  rewrite (x_cmd_create x k m []) in Hviol |- *.
  pose proof HS as (HI & HX).
  pose proof HI as [HG Hawf Hdp0 Hc0 Hxd0 Hxc0 Hcnt0 Hsl0 Hal0 Hv].
  assert (Hdp : deps s = []) by exact Hdp0. assert (Hc : cinfos s = cis) by exact Hc0.
  assert (Hxd : x_deps x = []) by exact Hxd0. assert (Hxc : x_cinfos x = cis) by exact Hxc0.
  assert (Hcnt : x_count x = length hs) by exact Hcnt0. assert (Hsl : length (slots s) <= length hs) by exact Hsl0.
  assert (Hal : forall k0, alive al k0 <-> alive_x x k0 = true) by (intros k0; rewrite <- alive_x_xns; apply Hal0).
  set (rem := SCreate k m :: rem') in *.
  assert (Hpk : pend rem k) by (exists m; left; reflexivity).
  change (created rem) with (k :: created rem') in Hcr. inversion Hcr as [|x0 l0 Hknot Hcr']; subst x0 l0.
  assert (Hp : forall k', pend rem' k' <-> pend rem k' /\ k' <> k).
  { intros k'. unfold rem. split.
    - intros Hp'. split; [destruct Hp' as (key' & Hi'); exists key'; right; exact Hi'|]. intros ->. apply Hknot. apply created_in. exact Hp'.
    - intros ((key' & [E|Hi']) & Hne); [inversion E; congruence|exists key'; exact Hi']. }
  destruct (g_pend HG k Hpk) as (_ & Hna & Hv0 & _ & _).
  destruct h as [i v]. rewrite Eh in Hv0. simpl in Hv0. subst v.
  assert (Hfk0 : find_ent x k = None).
  { apply alive_x_false. destruct (alive_x x k) eqn:E; [|reflexivity]. exfalso. apply Hna. apply Hal. exact E. }
  (* the model *)
  rewrite apply_pack_create_eq in H. bd H s2 Hinst.
  assert (Eex : (if hact then extra_components s m else Ok 0%N) = Ok 0%N) by (destruct hact; [apply extra_nil; exact Hdp|reflexivity]).
  rewrite Eex, bind_Ok in H.
  assert (Em0 : (if hact then munion m 0%N else 0%N) = m).
  { destruct hact; [apply munion_zero|]. symmetry in Eha. apply negb_false_iff in Eha. apply N.eqb_eq in Eha. congruence. }
  assert (Esh0 : (if hact then si_null else si_null) = si_null) by (destruct hact; reflexivity).
  rewrite Em0, Esh0 in H. bd H r Hloop. destruct r as (((s3, final), assigned), fin).
  assert (Hlen : length (locs s) = length (slots s)).
  { pose proof (g_len HG) as E. simpl in E. rewrite !map_length in E. exact E. }
  destruct (minstall_facts s (i, 0%N) s2 Hlen Hinst) as (I1 & I2 & I3 & I4 & I5 & I6 & I7 & In2 & Ie2 & Ia2 & If2 & Im2).
  simpl fst in *. simpl snd in *.
  destruct (fr4_pool _ _ If2) as (P2 & Q2 & R2).
  (* the specification *)
  destruct (x_create_eq x k m [] Hxd) as (Fx & Ex). rewrite Hxc in Ex.
  remember {| e_k := k; e_comps := map (fun c => (c, default_cell cis c)) (mitems m); e_shared := [] |} as e0 eqn:Ee0 in *.
  set (x1 := x_create x k m []) in *.
  assert (Hf1 : forall k', find_ent x1 k' = if Nat.eqb k' k then Some e0 else find_ent x k').
  { intros k'. rewrite find_ent_findk, Ex, findk_put. rewrite Ee0 at 1. rewrite e_k_mk. reflexivity. }
  destruct (xfr_fields _ _ Fx) as (X1 & X2 & X3 & X4 & X5).
  assert (Hkeys0 : map fst (e_comps e0) = mitems m) by (rewrite Ee0, e_comps_mk; apply map_fst_pair).
  assert (Hmr1 : MR hs (marked s2) (x_marked x1)).
  { rewrite Im2. unfold x1. rewrite x_marked_create. exact Hmr. }
  assert (Hviol1 : x_viol (fold_left x_cmd xt x1) = x_viol x1) by (unfold x1 at 2; rewrite x_viol_create; exact Hviol).
  destruct (pack_loop_sim cis hs tl true (i, 0%N) k (g_hs_nodup HG) Hk Eh t xt s2 m 0%N s3 final assigned fin x1 e0 HR Hall Hnc)
    as (Hsame & m' & Hm' & Hff & Hft); [congruence|congruence|rewrite Hf1, Nat.eqb_refl; reflexivity|exact Hkeys0|exact Hmr1|exact Hviol1|exact Hloop|].
  assert (Hlf : lowm final) by (eapply pack_loop_low; [eapply crel_asg_ok; exact HR|exact Hlm|exact Hloop]).
  set (x' := fold_left x_cmd xt x1) in *.
  destruct Hsame as (Fm & Hoth). destruct (xfm_fields _ _ Fm) as (Y1 & Y2 & Y3 & Y4 & Y5 & Y6 & Y7).
  assert (Hi_lt : N.to_nat i < length (slots s2)) by (apply nth_error_Some; congruence).
  assert (Hslots_bound : length (slots s2) <= length hs).
  { rewrite I7. assert (Hin : In (i, 0%N) hs) by (rewrite <- Eh; apply nth_In_hnd; exact Hk). pose proof (Hids _ Hin) as Hb. simpl in Hb. lia. }
  destruct (fr4_fields _ _ If2) as (_ & D2 & C2 & _).
  destruct fin.
  - (* destroyed in the same pack *)
    destruct (Hft eq_refl) as (Es3 & Hdead). inversion H; subst s'; clear H. subst s3.
    assert (Hb : (N.to_nat i <? length (slots s2)) = true) by (apply Nat.ltb_lt; exact Hi_lt).
    assert (HS' : SLInv cis (release_id (set_marked s2 m') (i, 0%N)) hs al rem' x).
    { eapply (SLInv_stillborn cis s _ hs al rem rem' x k i HS Hpk Hp Eh); unfold release_id; simpl; rewrite ?Hb, ?upd_length.
      - exact I1.
      - exact I2.
      - exact Hslots_bound.
      - rewrite nth_error_upd_same by exact Hi_lt. rewrite Ie2, In2. reflexivity.
      - intros j Hj Hjl. rewrite nth_error_upd_other by congruence. apply I4; assumption.
      - intros j Hj H1 H2. rewrite nth_error_upd_other by congruence. apply I5; assumption.
      - reflexivity.
      - rewrite Ie2. reflexivity.
      - exact Ia2.
      - intros j _ Hj. apply I6. exact Hj.
      - exact D2.
      - exact C2.
      - exact P2.
      - exact Q2.
      - exact R2. }
    split; [constructor|].
    + exists al. eapply SLInv_ext; [exact HS'|congruence|congruence|congruence|].
      intros k'. destruct (Nat.eq_dec k' k) as [->|Hne]; [congruence|]. rewrite (Hoth k' Hne), Hf1. apply Nat.eqb_neq in Hne. rewrite Hne. reflexivity.
    + exact Hcr'.
    + unfold release_id. simpl. exact Hm'.
    + exact Hids.
    + rewrite fr4_release, fr4_set_marked. exact If2.
  - (* it enters its archetype *)
    destruct (Hff eq_refl) as (Es3 & e' & He' & Hk' & Hsh' & Has & Hvals). subst s3.
    bd H ra Hga. destruct ra as (s4, ai). cbv beta iota in H. bd H s5 Hins.
    destruct (SLInv_get_arch_indep cis s hs al rem x (set_marked s2 m') final si_null s4 ai HS) as (F4 & sa & HSa & Ea4 & Fa & _ & a & Ha & Hma & Hsea);
      [simpl; exact Ia2|simpl; congruence|exact Hlf|intros a0 E0; apply (hok_null s final a0 Hlf E0)|exact Hga|].
    assert (Ha4 : nth_error (archs s4) ai = Some a) by (rewrite Ea4; exact Ha).
    assert (Wsh : am_shared a = si_null).
    { apply si_eqb_null; [|exact Hsea]. destruct (SL_hok _ _ _ _ _ _ _ _ HSa Ha) as (_ & W & _). exact W. }
    destruct (SL_awf _ _ _ _ _ _ _ _ HSa Ha) as (Wsz & Wcl).
    destruct (arch_insert_ok _ _ _ _ _ _ Ha4 Wcl Hins) as (a3 & F5 & A5 & Hlt5 & L5 & Hab & He & Hz & Hcl & Hcells & Hdef).
    simpl fst in *.
    destruct (fr2_slots _ _ (fr1_fr2 _ _ F4)) as (S4 & N4 & E4). simpl in S4, N4, E4.
    pose proof (fr1_locs _ _ F4) as L4. simpl in L4.
    destruct (fr2_slots _ _ F5) as (S5 & N5 & E5).
    destruct (fr2_slots _ _ (fr1_fr2 _ _ Fa)) as (Sa & Na & Ea). pose proof (fr1_locs _ _ Fa) as La.
    destruct (fr3_ctl _ _ (fr2_fr3 _ _ (fr1_fr2 _ _ Fa))) as (_ & Da & Ca & _).
    destruct (fr3_ctl _ _ (fr2_fr3 _ _ F5)) as (_ & D5 & C5 & _).
    destruct (fr3_ctl _ _ (fr2_fr3 _ _ (fr1_fr2 _ _ F4))) as (_ & D4 & C4 & _). simpl in D4, C4.
    destruct (fr2_pool _ _ F5) as (P5 & Q5 & R5). destruct (fr1_pool _ _ F4) as (P4 & Q4 & R4). simpl in P4, Q4, R4.
    destruct (fr1_pool _ _ Fa) as (Pa & Qa & Ra).
    destruct (ab3_fields _ _ Hab) as (Em3 & Es3 & _).
    assert (Emk : am_mask (ha a) = final) by (rewrite ha_mask, Wsh, Hma; apply kmk_null).
    set (e_ins := blank_s k final []).
    assert (HS5 : SLInv cis s5 hs (al ++ [(k, am_mask (ha a))]) rem' (xput x e_ins)).
    { apply (SLInv_activate cis sa s5 hs al rem rem' x k i ai a a3 e_ins HSa Hpk Hp Eh); rewrite ?S5, ?S4, ?N5, ?N4, ?E5, ?E4, ?Sa, ?Na, ?Ea, ?La; try assumption.
      - rewrite L5, upd_length, L4. exact I1.
      - rewrite A5, Ea4. reflexivity.
      - rewrite L5, L4. apply nth_error_upd_same. rewrite L4 in Hlt5. exact Hlt5.
      - intros j Hj Hjl. rewrite L5, L4, nth_error_upd_other by congruence. apply I6. exact Hjl.
      - congruence.
      - congruence.
      - congruence.
      - congruence.
      - congruence.
      - reflexivity.
      - apply blank_s_vmatch. rewrite (hdr_kmask _ _ (ab3_hdr _ _ Hab)), Emk. reflexivity.
      - rewrite Wsh. reflexivity. }
    assert (Hin5 : In (k, am_mask (ha a)) (al ++ [(k, am_mask (ha a))])) by (apply in_or_app; right; left; reflexivity).
    assert (Ha5 : nth_error (archs s5) ai = Some a3) by (rewrite A5; apply nth_error_upd_same; apply nth_error_Some; congruence).
    assert (Hent5 : nth_error (am_ents a3) (length (am_ents a)) = Some (i, 0%N)) by (rewrite He; apply nth_error_app_last).
    assert (Hloc5 : nth_error (locs s5) (N.to_nat i) = Some {| l_arch := Some ai; l_idx := length (am_ents a) |}).
    { rewrite L5. apply nth_error_upd_same. exact Hlt5. }
    assert (Htl5 : nth_error (tmps s5) tid = Some tl).
    { destruct (fr4_fields _ _ (fr2_fr4 _ _ F5)) as (_ & _ & _ & _ & _ & _ & T5 & _).
      destruct (fr4_fields _ _ (fr1_fr4 _ _ F4)) as (_ & _ & _ & _ & _ & _ & T4 & _). simpl in T4.
      destruct (fr4_fields _ _ If2) as (_ & _ & _ & _ & _ & _ & T2 & _). congruence. }
    assert (Hek' : e_k e' = k) by (apply (findk_key _ _ _ He')).
    destruct (finish_write_s cis tid tl (i, 0%N) s5 hs _ rem' (xput x e_ins) k (am_mask (ha a)) ai a3 (length (am_ents a)) (ACreate (i, 0%N) hact m si_null :: t) e' s' HS5 Hin5 Eh Ha5)
      as (HS6 & F6); [apply hdr_kmask; apply ab3_hdr; exact Hab|exact Hent5|exact Hloc5|exact Htl5|constructor; [exact I|eapply crel_asg_ok; exact HR]|exact Hek'|rewrite Em3, Hma; exact Hk'|rewrite Hsh', Ee0, Es3, Wsh; reflexivity| |exact H|].
    { intros c v Hcv. specialize (Hvals c v Hcv). simpl last_asg. pose proof (Has c) as Hasc.
      destruct (last_asg tl t c) as [w|]; [exact Hvals|]. rewrite mhas_zero in Hasc. cbn [is_some orb] in Hasc.
      rewrite Ee0, e_comps_mk in Hvals. apply in_default_comps in Hvals. destruct Hvals as (-> & Hc0').
      assert (Hi : In c (mitems (am_mask a))).
      { rewrite Hma, <- Hk'. apply in_map_iff. exists (c, default_cell cis c). auto. }
      apply In_nth_error in Hi. destruct Hi as (ci & Hci).
      unfold acell. rewrite Em3, (nth_cindex _ _ _ Hci).
      destruct (nth_error cis c) as [inf|] eqn:Einf; [|unfold default_cell; rewrite Einf; reflexivity].
      apply (default_cell_ok cis c inf _ Hok Einf). apply (Hdef ci c inf Hci Hasc). congruence. }
    split; [constructor|].
    + eexists. eapply SLInv_ext; [exact HS6|simpl; congruence|simpl; congruence|simpl; congruence|].
      intros k'. rewrite !xput_find, Hek'. simpl e_k. destruct (Nat.eqb_spec k' k) as [->|Hne]; [exact He'|].
      rewrite (Hoth k' Hne), Hf1. apply Nat.eqb_neq in Hne. rewrite Hne. reflexivity.
    + exact Hcr'.
    + rewrite (fr3_marked _ _ (fr2_fr3 _ _ (fr1_fr2 _ _ F6))), (fr3_marked _ _ (fr2_fr3 _ _ F5)), (fr3_marked _ _ (fr2_fr3 _ _ (fr1_fr2 _ _ F4))). simpl. exact Hm'.
    + exact Hids.
    + rewrite (fr1_fr4 _ _ F6), (fr2_fr4 _ _ F5), (fr1_fr4 _ _ F4), fr4_set_marked. exact If2.
Qed.

(* ---- a pack on an entity that exists already (or a handle that is not alive any more) ---- *)
Lemma F_pack_other_s cis tid tl s hs x k h c0 t xp rem' s' :
  SFInv cis s hs x rem' -> within (length hs) -> nth_error (tmps s) tid = Some tl ->
  k < length hs -> hnd hs k = h ->
  Forall2 (crel cis hs tl) (c0 :: t) xp -> Forall (fun c => cmd_handle c = h) (c0 :: t) -> Forall (fun c => is_create c = false) (c0 :: t) ->
  x_viol (fold_left x_cmd xp x) = x_viol x ->
  apply_pack tid s (c0 :: t) = Ok s' ->
  SFInv cis s' hs (fold_left x_cmd xp x) rem' /\ fr4 s' = fr4 s.
Proof.
  intros [(al & HS) Hcr Hmr Hids] Hb Htl Hk Eh HR Hall Hnc Hviol H.
  pose proof HS as (HI & HX).
  pose proof HI as [HG Hawf Hdp0 Hc0' Hxd0 Hxc0 Hcnt0 Hsl0 Hal0 Hv].
  assert (Hxd : x_deps x = []) by exact Hxd0. assert (Hxc : x_cinfos x = cis) by exact Hxc0.
  assert (Hcnt : x_count x = length hs) by exact Hcnt0.
  assert (Hc0 : cmd_handle c0 = h) by (inversion Hall; assumption).
  assert (Hc0c : is_create c0 = false) by (inversion Hnc; assumption).
  rewrite (apply_pack_other_eq _ _ _ _ Hc0c), Hc0 in H.
  pose proof (crel_on cis hs tl h k (g_hs_nodup HG) Hk Eh _ _ HR Hall Hnc) as Hon.
  destruct (is_valid s h) eqn:Ev.
  2:{ (* not alive: the pack is skipped and its commands mean nothing *)
      inversion H; subst s'. rewrite <- Eh in Ev. pose proof (dead_find_sl _ _ _ _ _ _ _ HS Hk Ev) as Hfd.
      rewrite (x_fold_dead k xp x Hon Hfd). split; [constructor; eauto|reflexivity]. }
  rewrite <- Eh in Ev. destruct (valid_find_sl _ _ _ _ _ _ _ HS Ev) as (_ & Ha & _). destruct (alive_in _ _ Ha) as (key & Hin).
  destruct (live_sl _ _ _ _ _ _ _ _ HS Hin) as (_ & e0 & pai & pidx & pa & Hfe & Hloc & Hpa & Hkey & Hent & Hvm & Hshe).
  rewrite Eh in Hloc, Hent.
  rewrite (loc_arch_some _ _ _ _ Hloc), bind_Ok in H. simpl fst in H. rewrite (nth_res_some _ _ _ Hpa), bind_Ok in H.
  bd H r Hloop. destruct r as (((s3, final), assigned), fin).
  destruct Hvm as (Hkeys0 & _ & Hvals0'). cbn [erase e_comps] in Hkeys0, Hvals0'. rewrite mitems_ha in Hkeys0.
  assert (Hvals0 : forall c v, In (c, v) (e_comps e0) -> cell_le v (acell pa c pidx) = true).
  { intros c v Hcv. rewrite <- acell_ha; [apply Hvals0'; exact Hcv|].
    assert (Hi : In c (mitems (am_mask pa))) by (rewrite <- Hkeys0; apply in_map_iff; exists (c, v); auto). apply mitems_in in Hi. tauto. }
  pose proof (SL_hok _ _ _ _ _ _ _ _ HS Hpa) as Hokpa.
  destruct (pack_loop_sim cis hs tl false h k (g_hs_nodup HG) Hk Eh (c0 :: t) xp s (am_mask pa) 0%N s3 final assigned fin x e0 HR Hall Hnc Hxd Hxc Hfe Hkeys0 Hmr Hviol Hloop)
    as (Hsame & m' & Hm' & Hff & Hft).
  assert (Hasg : Forall asg_ok (c0 :: t)) by (eapply crel_asg_ok; exact HR).
  assert (Hlf : lowm final) by (eapply pack_loop_low; [exact Hasg|exact (proj1 Hokpa)|exact Hloop]).
  set (x' := fold_left x_cmd xp x) in *.
  destruct Hsame as (Fm & Hoth). destruct (xfm_fields _ _ Fm) as (Y1 & Y2 & Y3 & Y4 & Y5 & Y6 & Y7).
  assert (HSm : SLInv cis (set_marked s m') hs al rem' x) by (eapply SLInv_frame; [| | | | | | | | | |exact HS]; reflexivity).
  destruct fin.
  - (* destroyed by the pack *)
    destruct (Hft eq_refl) as (Hd & Hdead). inversion H; subst s3; clear H. rewrite <- Eh in Hd.
    destruct (SLInv_destroy_now cis (set_marked s m') hs al rem' x k s' HSm Hb Hk Hd) as (HS' & F' & M').
    destruct (x_kill_eq x k) as (_ & Hfk).
    split; [constructor|rewrite F'; apply fr4_set_marked].
    + eexists. eapply SLInv_ext; [exact HS'| | | |].
      * rewrite Y2. unfold x_kill. destruct (find_ent x k); reflexivity.
      * rewrite Y3. unfold x_kill. destruct (find_ent x k); reflexivity.
      * rewrite Y4. unfold x_kill. destruct (find_ent x k); reflexivity.
      * intros k'. rewrite Hfk. destruct (Nat.eqb_spec k' k) as [->|Hne]; [exact Hdead|apply Hoth; exact Hne].
    + exact Hcr.
    + rewrite M'. exact Hm'.
    + exact Hids.
  - destruct (Hff eq_refl) as (Es3 & e' & He' & Hk' & Hsh' & Has & Hvals). subst s3.
    bd H ra Hga. destruct ra as (s4, ai). cbv beta iota in H. bd H s5 Hmv.
    destruct (SLInv_get_arch cis _ hs al rem' x final (am_shared pa) s4 ai HSm Hlf (hok_mask s pa final Hokpa Hlf) Hga) as (HS4 & F4 & Hkeep & a_t & Hat & Hmt & Hst).
    assert (Hpa4 : nth_error (archs s4) pai = Some pa) by (apply Hkeep; exact Hpa).
    assert (Hloc4 : nth_error (locs s4) (N.to_nat (fst h)) = Some {| l_arch := Some pai; l_idx := pidx |}) by (rewrite (fr1_locs _ _ F4); exact Hloc).
    assert (Htl4 : nth_error (tmps s4) tid = Some tl) by (rewrite (fr1_tmps _ _ F4); exact Htl).
    assert (Hek' : e_k e' = k) by (apply (findk_key _ _ _ He')).
    assert (Hm4 : marked s4 = m') by (rewrite (fr3_marked _ _ (fr2_fr3 _ _ (fr1_fr2 _ _ F4))); reflexivity).
    assert (Ff4 : fr4 s4 = fr4 s) by (rewrite (fr1_fr4 _ _ F4); apply fr4_set_marked).
    destruct (fr1_pool _ _ F4) as (_ & Q4 & _). simpl in Q4.
    assert (Hkt : am_mask (ha a_t) = kmk final (am_shared pa)) by (apply key_of_eqb; assumption).
    pose proof (SL_hok _ _ _ _ _ _ _ _ HS4 Hat) as Hokt. pose proof (SL_hok _ _ _ _ _ _ _ _ HS4 Hpa4) as Hokpa4.
    assert (Hsv : shvals s4 (am_shared a_t) = shvals s4 (am_shared pa)).
    { destruct Hokt as (_ & T2 & T3 & _). destruct Hokpa4 as (_ & B2 & B3 & _). apply (shvals_eqb s4 (ty s4)); assumption. }
    assert (Hshe4 : e_shared e' = shvals s4 (am_shared pa)) by (rewrite Hsh', Hshe; symmetry; apply shvals_same; exact Q4).
    assert (Hextx : forall al5 s6 x5, SLInv cis s6 hs al5 rem' (xput x5 e') -> x_deps x5 = [] -> x_cinfos x5 = cis -> x_count x5 = length hs ->
              (forall k', k' <> k -> find_ent x5 k' = find_ent x k') -> exists al6, SLInv cis s6 hs al6 rem' x').
    { intros al5 s6 x5 HS6 Z1 Z2 Z3 Z4. exists al5. eapply SLInv_ext; [exact HS6|simpl; congruence|simpl; congruence|simpl; congruence|].
      intros k'. rewrite xput_find, Hek'. destruct (Nat.eqb_spec k' k) as [->|Hne]; [exact He'|]. rewrite (Hoth k' Hne), (Z4 k' Hne). reflexivity. }
    destruct (N.eqb_spec (am_mask pa) final) as [Emf|Emf]; simpl negb in Hmv; cbv iota in Hmv.
    + (* the component set is unchanged: the assigned values are written in place *)
      inversion Hmv; subst s5; clear Hmv.
      assert (ai = pai).
      { apply (SL_index_unique _ _ _ _ _ _ ai pai a_t pa HS4 Hat Hpa4). rewrite Hkt, ha_mask, Emf. reflexivity. }
      subst ai. rewrite Hpa4 in Hat. inversion Hat; subst a_t.
      destruct (finish_write_s cis tid tl h s4 hs al rem' x k key pai pa pidx (c0 :: t) e' s' HS4 Hin Eh Hpa4 Hkey Hent Hloc4 Htl4 Hasg Hek')
        as (HS6 & F6); [rewrite Emf; exact Hk'|exact Hshe4| |exact H|].
      { intros c v Hcv. specialize (Hvals c v Hcv). destruct (last_asg tl (c0 :: t) c); [exact Hvals|]. apply Hvals0. exact Hvals. }
      split; [constructor|rewrite (fr1_fr4 _ _ F6); exact Ff4].
      * apply (Hextx al s' x HS6 Hxd Hxc Hcnt). reflexivity.
      * exact Hcr.
      * rewrite (fr3_marked _ _ (fr2_fr3 _ _ (fr1_fr2 _ _ F6))), Hm4. exact Hm'.
      * exact Hids.
    + (* the entity moves to the archetype of the final component set *)
      rewrite (loc_arch_some _ _ _ _ Hloc4), bind_Ok in Hmv. simpl fst in Hmv. simpl snd in Hmv.
      destruct (Nat.eqb_spec pai ai) as [<-|Hnai].
      { exfalso. rewrite Hpa4 in Hat. inversion Hat; subst a_t. congruence. }
      rewrite <- Eh in Hmv, Hloc4, Hent.
      assert (Hmit : mitems (am_mask (ha a_t)) = mitems final) by (rewrite Hkt; apply mitems_kmk).
      destruct (SLInv_move cis s4 hs al rem' x k key ai a_t pai pidx pa final s5 (blank_s k final (e_shared e')) HS4 Hin eq_refl Hloc4 Hpa4 Hent Hat Hmv)
        as (HS5 & F5 & a2 & Ha2 & Eh2 & Hent2 & Hloc2 & Hcopy).
      { intros a2 Em2 _. apply blank_s_vmatch. rewrite Em2. exact Hmit. }
      { unfold blank_s. rewrite e_shared_mk, Hshe4. symmetry. exact Hsv. }
      rewrite Eh in Hent2, Hloc2.
      assert (Em2 : am_mask a2 = am_mask a_t) by (unfold hdr in Eh2; inversion Eh2; reflexivity).
      assert (Es2 : am_shared a2 = am_shared a_t) by (unfold hdr in Eh2; inversion Eh2; reflexivity).
      destruct (fr2_pool _ _ F5) as (_ & Q5 & _).
      assert (Htl5 : nth_error (tmps s5) tid = Some tl).
      { destruct (fr4_fields _ _ (fr2_fr4 _ _ F5)) as (_ & _ & _ & _ & _ & _ & T5 & _). congruence. }
      destruct (finish_write_s cis tid tl h s5 hs _ rem' (xput x (blank_s k final (e_shared e'))) k (am_mask (ha a_t)) ai a2 (length (am_ents a_t)) (c0 :: t) e' s'
                  HS5 (retag_same _ _ _ _ Hin) Eh Ha2 (hdr_kmask _ _ Eh2) Hent2 Hloc2 Htl5 Hasg Hek')
        as (HS6 & F6); [rewrite Em2, Hmt; exact Hk'|rewrite Es2, Hshe4, <- Hsv; symmetry; apply shvals_same; exact Q5| |exact H|].
      { intros c v Hcv. specialize (Hvals c v Hcv). destruct (last_asg tl (c0 :: t) c); [exact Hvals|].
        pose proof (Hvals0 c v Hvals) as Hle.
        assert (Hip : In c (mitems (am_mask pa))) by (rewrite <- Hkeys0; apply in_map_iff; exists (c, v); auto).
        assert (Hit : In c (mitems (am_mask a_t))) by (rewrite Hmt, <- Hk'; apply in_map_iff; exists (c, v); auto).
        assert (Hc128 : c < MASK_BITS) by (apply mitems_in in Hip; tauto).
        apply In_nth_error in Hip. destruct Hip as (pci & Hpci). apply In_nth_error in Hit. destruct Hit as (ci & Hci).
        unfold acell in *. rewrite Em2, (nth_cindex _ _ _ Hci). rewrite (nth_cindex _ _ _ Hpci) in Hle.
        rewrite (Hcopy ci c Hci pci); [exact Hle|]. rewrite ha_mask, (cindex_kmk _ _ _ Hc128). apply (nth_cindex _ _ _ Hpci). }
      split; [constructor|rewrite (fr1_fr4 _ _ F6), (fr2_fr4 _ _ F5); exact Ff4].
      * apply (Hextx _ s' (xput x (blank_s k final (e_shared e'))) HS6 Hxd Hxc Hcnt). intros k' Hne. rewrite xput_find. unfold blank_s. rewrite e_k_mk.
        apply Nat.eqb_neq in Hne. rewrite Hne. reflexivity.
      * exact Hcr.
      * rewrite (fr3_marked _ _ (fr2_fr3 _ _ (fr1_fr2 _ _ F6))), (fr3_marked _ _ (fr2_fr3 _ _ F5)), Hm4. exact Hm'.
      * exact Hids.
Qed.

(* ---- one pack ---- *)
Lemma F_pack_s cis tid tl s hs x h p xp rem' s' :
  SFInv cis s hs x (xrem xp ++ rem') -> cis_ok cis -> within (length hs) -> nth_error (tmps s) tid = Some tl ->
  p <> [] -> allh h p -> brel cis hs tl p xp -> mcf p -> Forall xlow xp ->
  x_viol (fold_left x_cmd xp x) = x_viol x ->
  apply_pack tid s p = Ok s' ->
  SFInv cis s' hs (fold_left x_cmd xp x) rem' /\ fr4 s' = fr4 s.
Proof.
  intros HF Hok Hb Htl Hne Hall HB Hcf Hlow Hviol H. destruct p as [|c0 t]; [congruence|].
  pose proof HF as [(al & (HI & _)) _ _ _]. pose proof (li_G _ _ _ _ _ _ HI) as HG.
  destruct (handle_null_dec h) as [->|Hnn].
  - (* commands through the null handle *)
    assert (Exp : xp = []) by (eapply brel_null; eassumption). subst xp.
    assert (Hc0 : is_create c0 = false) by (inversion HB; assumption).
    assert (Eh0 : cmd_handle c0 = null_handle) by (inversion Hall; assumption).
    rewrite (apply_pack_other_eq _ _ _ _ Hc0), Eh0, is_valid_null_m in H. inversion H; subst s'. split; [exact HF|reflexivity].
  - pose proof (brel_issued cis hs tl h Hnn _ _ Hall HB) as HR.
    inversion HR as [|c' xc0 t' xt Hc0 HRt]; subst c' t' xp.
    destruct (crel_key _ _ _ _ _ Hc0) as (Hk & Eh & Ecr).
    assert (Eh0 : cmd_handle c0 = h) by (inversion Hall; assumption). rewrite Eh0 in Eh.
    pose proof (mcf_tail _ _ _ Hcf Hall) as Hnct.
    assert (Hallt : allh h t) by (inversion Hall; assumption).
    pose proof (crel_on cis hs tl h (xkey xc0) (g_hs_nodup HG) Hk Eh _ _ HRt Hallt Hnct) as Hont.
    assert (Ext : xrem xt = []).
    { apply xrem_nocreate. eapply Forall_impl; [|exact Hont]. simpl. intros a (A & _). exact A. }
    destruct c0 as [h' ha m sh|h'|h'|h' c|h' c n].
    + destruct xc0 as [k m0 sh0|k|k|k c1 v1|k c1]; simpl in Hc0; try contradiction.
      destruct Hc0 as (_ & _ & -> & -> & -> & Eha). simpl in Eh0. subst h'. simpl xkey in *.
      assert (Hlm : lowm m) by (inversion Hlow; assumption).
      rewrite fold_left_cons in Hviol |- *. rewrite xrem_create, Ext in HF. rewrite <- app_comm_cons, app_nil_l in HF.
      apply (F_pack_create_s cis tid tl s hs x k m ha si_null h t xt rem' s' HF Hok Htl Hk Eh eq_refl Eha Hlm HRt Hallt Hnct Hviol H).
    + assert (Hnc : Forall (fun c => is_create c = false) (ADestroy h' :: t)) by (constructor; [reflexivity|exact Hnct]).
      assert (Exp : xrem (xc0 :: xt) = []).
      { apply xrem_nocreate. constructor; [simpl in Ecr; exact Ecr|]. eapply Forall_impl; [|exact Hont]. simpl. intros a (A & _). exact A. }
      rewrite Exp in HF. simpl app in HF. apply (F_pack_other_s cis tid tl s hs x (xkey xc0) h _ t _ rem' s' HF Hb Htl Hk Eh HR Hall Hnc Hviol H).
    + assert (Hnc : Forall (fun c => is_create c = false) (ADestroyNow h' :: t)) by (constructor; [reflexivity|exact Hnct]).
      assert (Exp : xrem (xc0 :: xt) = []).
      { apply xrem_nocreate. constructor; [simpl in Ecr; exact Ecr|]. eapply Forall_impl; [|exact Hont]. simpl. intros a (A & _). exact A. }
      rewrite Exp in HF. simpl app in HF. apply (F_pack_other_s cis tid tl s hs x (xkey xc0) h _ t _ rem' s' HF Hb Htl Hk Eh HR Hall Hnc Hviol H).
    + assert (Hnc : Forall (fun c => is_create c = false) (ARemove h' c :: t)) by (constructor; [reflexivity|exact Hnct]).
      assert (Exp : xrem (xc0 :: xt) = []).
      { apply xrem_nocreate. constructor; [simpl in Ecr; exact Ecr|]. eapply Forall_impl; [|exact Hont]. simpl. intros a (A & _). exact A. }
      rewrite Exp in HF. simpl app in HF. apply (F_pack_other_s cis tid tl s hs x (xkey xc0) h _ t _ rem' s' HF Hb Htl Hk Eh HR Hall Hnc Hviol H).
    + assert (Hnc : Forall (fun c => is_create c = false) (AAssign h' c n :: t)) by (constructor; [reflexivity|exact Hnct]).
      assert (Exp : xrem (xc0 :: xt) = []).
      { apply xrem_nocreate. constructor; [simpl in Ecr; exact Ecr|]. eapply Forall_impl; [|exact Hont]. simpl. intros a (A & _). exact A. }
      rewrite Exp in HF. simpl app in HF. apply (F_pack_other_s cis tid tl s hs x (xkey xc0) h _ t _ rem' s' HF Hb Htl Hk Eh HR Hall Hnc Hviol H).
Qed.

(* ---- the packs of one buffer, in log order ---- *)
Lemma F_packs_s cis tid tl hs : forall ps s x xb rem' s',
  Forall (fun p => p <> [] /\ exists h, allh h p) ps -> mcf (concat ps) -> brel cis hs tl (concat ps) xb -> Forall xlow xb ->
  cis_ok cis -> within (length hs) -> nth_error (tmps s) tid = Some tl ->
  SFInv cis s hs x (xrem xb ++ rem') -> x_viol (fold_left x_cmd xb x) = x_viol x ->
  fold_res (apply_pack tid) ps s = Ok s' ->
  SFInv cis s' hs (fold_left x_cmd xb x) rem' /\ fr4 s' = fr4 s.
Proof.
  induction ps as [|p ps IH]; intros s x xb rem' s' Hu Hcf HB Hlow Hok Hb Htl HF Hviol H.
  - simpl in *. inversion H; subst s'. inversion HB; subst xb. simpl in *. split; [exact HF|reflexivity].
  - simpl in H. bd H s1 Hp. inversion Hu as [|p' ps' (Hne & h & Hall) Hu']; subst p' ps'. simpl in Hcf, HB.
    destruct (brel_app_inv _ _ _ _ _ _ HB) as (xp & xr & -> & HBp & HBr).
    apply Forall_app in Hlow. destruct Hlow as (Hlp & Hlr).
    rewrite xrem_app, <- app_assoc in HF. destruct (viol_app _ _ _ Hviol) as (V1 & V2). rewrite fold_left_app.
    destruct (F_pack_s cis tid tl s hs x h p xp (xrem xr ++ rem') s1 HF Hok Hb Htl Hne Hall HBp (mcf_app_l _ _ Hcf) Hlp V1 Hp) as (HF1 & F1).
    assert (Htl1 : nth_error (tmps s1) tid = Some tl).
    { destruct (fr4_fields _ _ F1) as (_ & _ & _ & _ & _ & _ & T & _). congruence. }
    destruct (IH s1 _ xr rem' s' Hu' (mcf_app_r _ _ Hcf) HBr Hlr Hok Hb Htl1 HF1 V2 H) as (HF2 & F2).
    split; [exact HF2|congruence].
Qed.

(* ---- applyStorage ---- *)
Lemma F_storage_s cis tid tl hs b s x xb rem' s' :
  mcf b -> brel cis hs tl b xb -> Forall xlow xb -> cis_ok cis -> within (length hs) -> nth_error (tmps s) tid = Some tl ->
  SFInv cis s hs x (xrem xb ++ rem') -> x_viol (fold_left x_cmd xb x) = x_viol x ->
  apply_storage s (tid, b) = Ok s' ->
  SFInv cis s' hs (fold_left x_cmd xb x) rem' /\ fr4 s' = fr4 s.
Proof.
  intros Hcf HB Hlow Hok Hb Htl HF Hviol H. rewrite ManagerDeferred.apply_storage_unfold in H. bd H s1 Hp.
  destruct (ManagerDeferred.split_packs_correct b) as (Ec & Hu & _).
  assert (Hu' : Forall (fun p => p <> [] /\ exists h, allh h p) (split_packs b [])).
  { eapply Forall_impl; [|exact Hu]. simpl. intros p (Hne & Hun). split; [exact Hne|apply uniform_allh; assumption]. }
  rewrite <- Ec in Hcf, HB.
  destruct (F_packs_s cis tid tl hs _ s x xb rem' s1 Hu' Hcf HB Hlow Hok Hb Htl HF Hviol Hp) as (HF1 & F1).
  destruct (destroy_tmps_olog _ _ _ _ H) as (Fo & Ao).
  split; [|rewrite (fr1_fr4 _ _ Fo); exact F1].
  destruct HF1 as [(al & HS1) C1 M1 I1]. constructor; [exists al; eapply SLInv_fr1; eassumption|exact C1| |exact I1].
  rewrite (fr3_marked _ _ (fr2_fr3 _ _ (fr1_fr2 _ _ Fo))). exact M1.
Qed.

(* ---- all buffers, in thread order ---- *)
Lemma F_buffers_s cis hs : forall bs tls xbs n s x s',
  F3 (brel cis hs) tls bs xbs -> Forall mcf bs -> Forall (Forall xlow) xbs ->
  (forall j tl, nth_error tls j = Some tl -> nth_error (tmps s) (n + j) = Some tl) ->
  cis_ok cis -> within (length hs) ->
  SFInv cis s hs x (xrem (concat xbs)) -> x_viol (fold_left (fun st b => fold_left x_cmd b st) xbs x) = x_viol x ->
  fold_res apply_storage (combine (seq n (length bs)) bs) s = Ok s' ->
  SFInv cis s' hs (fold_left (fun st b => fold_left x_cmd b st) xbs x) [] /\ fr4 s' = fr4 s.
Proof.
  induction bs as [|b bs IH]; intros tls xbs n s x s' H3 Hcf Hlow Ht Hok Hb HF Hviol H.
  - inversion H3; subst. simpl in *. inversion H; subst s'. split; [exact HF|reflexivity].
  - inversion H3 as [|tl b' xb tls' bs' xbs' HB H3']; subst. inversion Hcf as [|? ? Hcfb Hcfr]; subst.
    inversion Hlow as [|? ? Hlb Hlr]; subst.
    cbn [length seq combine fold_res] in H. bd H s1 Hst. cbn [fold_left concat] in HF, Hviol |- *. rewrite xrem_app in HF.
    assert (V : x_viol (fold_left x_cmd xb x) = x_viol x /\
                x_viol (fold_left (fun st b => fold_left x_cmd b st) xbs' (fold_left x_cmd xb x)) = x_viol (fold_left x_cmd xb x)).
    { pose proof (x_viol_fold_le xb x). pose proof (x_viol_bufs_le xbs' (fold_left x_cmd xb x)). lia. }
    destruct V as (V1 & V2).
    assert (Htl : nth_error (tmps s) n = Some tl) by (rewrite <- (Nat.add_0_r n); apply Ht; reflexivity).
    destruct (F_storage_s cis n tl hs b s x xb _ s1 Hcfb HB Hlb Hok Hb Htl HF V1 Hst) as (HF1 & F1).
    destruct (IH tls' xbs' (S n) s1 (fold_left x_cmd xb x) s' H3' Hcfr Hlr) as (HF2 & F2); try assumption.
    + intros j tl' Hj. destruct (fr4_fields _ _ F1) as (_ & _ & _ & _ & _ & _ & T & _). rewrite T.
      replace (S n + j) with (n + S j) by lia. apply Ht. exact Hj.
    + split; [exact HF2|congruence].
Qed.
