(* C02: the refinement theorem for the Manager on the unlocked alphabet without dependencies and shared components
   (create, destroyNow, assign, removeComponent, write through getComponent), by induction over scripts. *)
Require Import Coq.Lists.List Coq.NArith.NArith Coq.ZArith.ZArith Coq.Arith.Arith Coq.Bool.Bool Coq.micromega.Lia.
From Mustache Require Import Res Manager MgrSpec Refine.
From Mustache Require Skeleton.
From Mustache Require Import SkelSpec.
From Mustache.proofs Require Import ListLemmas SkelBasics SkelInv SkelSteps SkelMove SkelMain ClosureProofs
  ManagerBasics ManagerMoves ManagerProj ManagerInv.
Import ListNotations.

(* the operations covered: no lock, no dependencies, no shared components; component ids below the mask width;
   an assignment carries a value only for a component type whose value the driver can read *)
Definition alpha_b (cis : list cinfo) (o : xop) : bool :=
  match o with
  | XoCreate _ _ sids _ => match sids with [] => true | _ => false end
  | XoDestroyNow _ _ => true
  | XoAssign _ _ c v =>
    Nat.ltb c MASK_BITS &&
    match v with None => true | Some _ => match nth_error cis c with Some inf => ci_hasval inf | None => true end end
  | XoRemove _ _ c _ => Nat.ltb c MASK_BITS
  | XoSet _ c _ => Nat.ltb c MASK_BITS
  | _ => false
  end.

(* ---- the violation counter never decreases ---- *)
Lemma x_viol_push s tid c : x_viol (x_push s tid c) = x_viol s.
Proof. reflexivity. Qed.

Lemma x_viol_create s k m sh : x_viol (x_create s k m sh) = x_viol s.
Proof. unfold x_create. destruct (widen s k _) as [cs att]. reflexivity. Qed.

Lemma x_viol_kill s k : x_viol (x_kill s k) = x_viol s.
Proof. unfold x_kill. destruct (find_ent s k); reflexivity. Qed.

Lemma x_viol_assign s k c v : x_viol s <= x_viol (x_assign s k c v).
Proof.
  unfold x_assign. destruct (find_ent s k) as [e|]; [|lia]. destruct (has_comp (e_comps e) c); [simpl; lia|].
  destruct (widen s k _) as [cs att]. simpl. lia.
Qed.

Lemma x_viol_remove s k c : x_viol (x_remove s k c) = x_viol s.
Proof.
  unfold x_remove. destruct (find_ent s k) as [e|]; [|reflexivity]. destruct (negb (has_comp (e_comps e) c)); [reflexivity|].
  destruct (mhas _ c); reflexivity.
Qed.

Lemma x_viol_step_mono cis x o : alpha_b cis o = true -> x_viol x <= x_viol (x_step x o).
Proof.
  intros Ha. unfold x_step. destruct (out_of_contract x o); [simpl; lia|].
  destruct o; simpl in Ha; try discriminate; unfold x_step_in.
  - destruct (x_lock x); [rewrite x_viol_create|rewrite x_viol_push]; simpl; lia.
  - destruct (negb (issued_b x k)); [lia|]. destruct (x_lock x); [rewrite x_viol_kill|rewrite x_viol_push]; lia.
  - destruct (negb (issued_b x k)); [lia|]. destruct (x_lock x); [apply x_viol_assign|rewrite x_viol_push; lia].
  - destruct (negb (issued_b x k)); [lia|]. destruct (x_lock x); [rewrite x_viol_remove|rewrite x_viol_push]; lia.
  - destruct (find_ent x k) as [e|]; [|lia]. destruct (has_comp (e_comps e) c); simpl; lia.
Qed.

Lemma x_viol_run_mono cis : forall ops x, forallb (alpha_b cis) ops = true -> x_viol x <= x_viol (fold_left x_step ops x).
Proof.
  induction ops as [|o t IH]; intros x Ha; simpl in *; [lia|]. apply andb_true_iff in Ha. destruct Ha as (Ho & Ht).
  pose proof (x_viol_step_mono cis x o Ho). pose proof (IH (x_step x o) Ht). lia.
Qed.

(* ---- one step ---- *)
Lemma within_le n m : n <= m -> within m -> within n.
Proof. unfold within. intros H1 H2. lia. Qed.

Lemma resolve_hnd hs k : resolve hs k = hnd hs k.
Proof. reflexivity. Qed.

Lemma step_create_out s tid m via s1 out : lockc s = 0 -> step s (OCreate tid m [] via) = Ok (s1, out) -> exists h, out = RHandle h.
Proof.
  intros Hl H. rewrite (step_create_unlocked _ _ _ _ Hl) in H. bd H r Hga. destruct r as (s0, ai). cbv beta iota in H.
  bd H r2 Hc. destruct r2 as (s2, h). cbv beta iota in H. bd H s3 Hi. inversion H. eauto.
Qed.

Lemma MInv_step cis typed s hs al x o s' hs' :
  MInv cis s hs al x -> cis_ok cis -> alpha_b cis o = true -> x_viol x = 0 -> x_viol (x_step x o) = 0 ->
  mstep typed (s, hs) o = Ok (s', hs') -> within (length hs') ->
  exists al', MInv cis s' hs' al' (x_step x o).
Proof.
  intros HI Hok Ha Hv0 Hv1 H Hb. unfold mstep in H. bd H r Hst. destruct r as (s1, out). inversion H; subst s' hs'; clear H.
  unfold x_step in *. destruct (out_of_contract x o) eqn:Eooc; [simpl in Hv1; lia|].
  assert (Hb0 : within (length hs)).
  { eapply within_le; [|exact Hb]. destruct out; rewrite ?app_length; simpl; lia. }
  destruct o; simpl in Ha; try discriminate; cbn [concretize] in Hst.
  - (* create *)
    destruct sids; [|discriminate].
    destruct (step_create_out _ _ _ _ _ _ (mi_lock _ _ _ _ _ HI) Hst) as (h & ->).
    rewrite app_length in Hb. simpl in Hb. replace (length hs + 1) with (S (length hs)) in Hb by lia.
    destruct (MInv_create cis s hs al x tid m via_arch s1 _ HI Hok Hb Hst) as (h' & E & HI'). inversion E; subst h'.
    eexists. apply MInv_set_log. exact HI'.
  - (* destroyNow *)
    rewrite resolve_hnd in Hst. destruct (MInv_destroy_now cis s hs al x tid k s1 out HI) as (-> & HI'); [|exact Hst|].
    + exact Hb0.
    + eexists. apply MInv_set_log. exact HI'.
  - (* assign *)
    apply andb_true_iff in Ha. destruct Ha as (Hc & Hhv). apply Nat.ltb_lt in Hc.
    rewrite resolve_hnd in Hst. simpl in Eooc. rewrite (mi_xlock _ _ _ _ _ HI) in Eooc. apply negb_false_iff in Eooc.
    destruct (MInv_assign cis s hs al x tid k c v typed s1 out HI Hc) as (-> & al' & HI'); [|exact Eooc|lia|exact Hst|].
    + intros z inf -> Hinf. rewrite Hinf in Hhv. exact Hhv.
    + exists al'. apply MInv_set_log. exact HI'.
  - (* removeComponent *)
    apply Nat.ltb_lt in Ha. rewrite resolve_hnd in Hst. simpl in Eooc. rewrite (mi_xlock _ _ _ _ _ HI) in Eooc.
    destruct (MInv_remove cis s hs al x tid k c typed0 s1 out HI Ha) as (-> & al' & HI'); [|exact Hst|].
    + destruct typed0; [left; reflexivity|right]. simpl in Eooc. apply negb_false_iff in Eooc. exact Eooc.
    + exists al'. apply MInv_set_log. exact HI'.
  - (* write through getComponent *)
    apply Nat.ltb_lt in Ha. rewrite resolve_hnd in Hst.
    destruct (MInv_set cis s hs al x k c v s1 out HI Ha Hst) as ((p & w & ->) & HI').
    exists al. apply MInv_set_log. exact HI'.
Qed.

Lemma mstep_mono typed s hs o s' hs' : mstep typed (s, hs) o = Ok (s', hs') -> length hs <= length hs'.
Proof.
  intros H. unfold mstep in H. bd H r Hst. destruct r as (s1, out). inversion H; subst. destruct out; rewrite ?app_length; simpl; lia.
Qed.

Lemma mrun_mono typed : forall ops s hs s' hs', fold_res (mstep typed) ops (s, hs) = Ok (s', hs') -> length hs <= length hs'.
Proof.
  induction ops as [|o t IH]; intros s hs s' hs' H; simpl in H.
  - inversion H. lia.
  - bd H r H1. destruct r as (s1, hs1). pose proof (mstep_mono _ _ _ _ _ _ H1). pose proof (IH _ _ _ _ H). lia.
Qed.

Lemma MInv_run cis typed : forall ops s hs al x s' hs',
  MInv cis s hs al x -> cis_ok cis -> forallb (alpha_b cis) ops = true -> x_viol x = 0 ->
  x_viol (fold_left x_step ops x) = 0 ->
  fold_res (mstep typed) ops (s, hs) = Ok (s', hs') -> within (length hs') ->
  exists al', MInv cis s' hs' al' (fold_left x_step ops x).
Proof.
  induction ops as [|o t IH]; intros s hs al x s' hs' HI Hok Ha Hv0 Hv1 H Hb; simpl in *.
  - inversion H; subst. eauto.
  - apply andb_true_iff in Ha. destruct Ha as (Ho & Ht). bd H r H1. destruct r as (s1, hs1).
    assert (Hv1' : x_viol (x_step x o) = 0).
    { pose proof (x_viol_run_mono cis t (x_step x o) Ht). lia. }
    destruct (MInv_step cis typed s hs al x o s1 hs1 HI Hok Ho Hv0 Hv1' H1) as (al1 & HI1).
    { eapply within_le; [|exact Hb]. eapply mrun_mono. exact H. }
    apply (IH s1 hs1 al1 (x_step x o) s' hs' HI1 Hok Ht Hv1' Hv1 H Hb).
Qed.

(* ---- the initial state ---- *)
Lemma MInv_init n cis : MInv cis (init n cis) [] [] (x_init n cis).
Proof.
  constructor; try reflexivity.
  - change (proj (init n cis)) with (Skeleton.init n). apply G_init.
  - constructor.
  - intros k. split; [intros []|intros H; discriminate].
  - intros ai a idx h Ha. destruct ai; discriminate.
Qed.

(* ---- what queries observe ---- *)
Lemma comps_match_ok (f : nat -> cell) cs l : map fst cs = l -> (forall c v, In (c, v) cs -> cell_le v (f c) = true) ->
  comps_match cs (map (fun c => (c, f c)) l) = true.
Proof.
  intros <- H. rewrite map_map. unfold comps_match. rewrite map_length, Nat.eqb_refl. simpl.
  induction cs as [|(c, v) t IH]; simpl; [reflexivity|]. rewrite Nat.eqb_refl, (H c v) by (left; reflexivity). simpl.
  apply IH. intros c' v' Hin. apply H. right. exact Hin.
Qed.

Lemma MInv_abs_alive cis s hs al x k e : MInv cis s hs al x -> find_ent x k = Some e ->
  exists e', abs_ent s k (hnd hs k) = Some e' /\ ent_match e e' = true.
Proof.
  intros HI Hfe. assert (Ha : alive al k) by (apply (mi_alive _ _ _ _ _ HI); apply alive_x_find; congruence).
  destruct (alive_in _ _ Ha) as (key & Hin).
  destruct (live_vmatch _ _ _ _ _ _ _ _ HI Hin Hfe) as (Hk & ai & idx & a & Hloc & Harch & Hkey & Hent & Hm & Hs & Hv).
  assert (Ev : is_valid s (hnd hs k) = true) by (apply (valid_m _ _ _ _ (mi_G _ _ _ _ _ HI) Hk); exact Ha).
  destruct (awf_nth _ _ _ (mi_awf _ _ _ _ _ HI) Harch) as (Wsh & _).
  unfold abs_ent. rewrite Ev, Hloc. simpl l_arch. cbv iota. rewrite Harch. simpl l_idx. rewrite Wsh. simpl combine. simpl sort_shared.
  eexists. split; [reflexivity|]. unfold ent_match. simpl.
  rewrite (findk_key _ _ _ Hfe), Nat.eqb_refl, Hs. simpl. rewrite andb_true_r.
  rewrite abs_comps_acell. apply comps_match_ok; [exact Hm|exact Hv].
Qed.

Lemma MInv_abs_dead cis s hs al x k : MInv cis s hs al x -> find_ent x k = None -> abs_ent s k (hnd hs k) = None.
Proof.
  intros HI Hfe. unfold abs_ent. destruct (is_valid s (hnd hs k)) eqn:Ev; [|reflexivity].
  destruct (valid_find _ _ _ _ _ _ HI Ev) as (_ & _ & e & He). congruence.
Qed.

Theorem unlocked_refinement typed n cis ops s hs :
  cis_ok cis -> forallb (alpha_b cis) ops = true ->
  mrun typed n cis ops = Ok (s, hs) -> x_viol (xrun n cis ops) = 0 -> within (length hs) ->
  length hs = x_count (xrun n cis ops) /\
  forall k,
    match find_ent (xrun n cis ops) k with
    | Some e => exists e', abs_ent s k (nth k hs null_handle) = Some e' /\ ent_match e e' = true
    | None => abs_ent s k (nth k hs null_handle) = None
    end.
Proof.
  intros Hok Ha Hrun Hviol Hb. unfold mrun in Hrun. unfold xrun in *.
  destruct (MInv_run cis typed ops _ _ _ _ _ _ (MInv_init n cis) Hok Ha eq_refl Hviol Hrun Hb) as (al & HI).
  split; [symmetry; apply (mi_count _ _ _ _ _ HI)|]. intros k.
  destruct (find_ent (fold_left x_step ops (x_init n cis)) k) as [e|] eqn:Hfe.
  - apply (MInv_abs_alive _ _ _ _ _ _ _ HI Hfe).
  - apply (MInv_abs_dead _ _ _ _ _ _ HI Hfe).
Qed.

(* ---- the read-only queries on the final state ---- *)
Lemma step_getconst s h c :
  step s (OGetConst h c) =
    (if negb (is_valid s h) then Ok (s, RCell false None) else
    do l <- nth_res (locs s) (N.to_nat (fst h));
    match l_arch l with
    | None => Ok (s, RCell false None)
    | Some ai =>
      do a <- nth_res (archs s) ai;
      match cindex (am_mask a) c with
      | None => Ok (s, RCell false None)
      | Some ci => Ok (s, RCell true (get_cell a ci (l_idx l)))
      end
    end).
Proof. reflexivity. Qed.

Lemma step_has s h c :
  step s (OHas h c) =
    (if negb (is_valid s h) then Ok (s, RBool false) else
    do l <- nth_res (locs s) (N.to_nat (fst h));
    match l_arch l with
    | None => Ok (s, RBool false)
    | Some ai => do a <- nth_res (archs s) ai; Ok (s, RBool (mhas (am_mask a) c))
    end).
Proof. reflexivity. Qed.

Definition spec_has (x : xst) (k c : nat) : bool :=
  match find_ent x k with Some e => has_comp (e_comps e) c | None => false end.

Lemma MInv_observe cis s hs al x k c : MInv cis s hs al x -> c < MASK_BITS ->
  step s (OHas (hnd hs k) c) = Ok (s, RBool (spec_has x k c)) /\
  exists v, step s (OGetConst (hnd hs k) c) = Ok (s, RCell (spec_has x k c) v) /\
            forall e w, find_ent x k = Some e -> In (c, w) (e_comps e) -> cell_le w v = true.
Proof.
  intros HI Hc. rewrite step_has, step_getconst. unfold spec_has.
  destruct (find_ent x k) as [e|] eqn:Hfe.
  - assert (Ha : alive al k) by (apply (mi_alive _ _ _ _ _ HI); apply alive_x_find; congruence).
    destruct (alive_in _ _ Ha) as (key & Hin).
    destruct (live_vmatch _ _ _ _ _ _ _ _ HI Hin Hfe) as (Hk & ai & idx & a & Hloc & Harch & Hkey & Hent & Hvm).
    assert (Ev : is_valid s (hnd hs k) = true) by (apply (valid_m _ _ _ _ (mi_G _ _ _ _ _ HI) Hk); exact Ha).
    rewrite Ev. simpl negb. cbv iota. rewrite (nth_res_some _ _ _ Hloc), !bind_Ok. simpl l_arch. cbv iota.
    rewrite (nth_res_some _ _ _ Harch), !bind_Ok. simpl l_idx. rewrite (vmatch_has _ _ _ _ Hvm Hc).
    split; [reflexivity|]. destruct (cindex (am_mask a) c) as [ci|] eqn:Eci.
    + rewrite (cindex_some_has _ _ _ Eci). eexists. split; [reflexivity|]. intros e0 w E Hin'. inversion E; subst e0.
      destruct Hvm as (_ & _ & Hv). specialize (Hv c w Hin'). unfold acell in Hv. rewrite Eci in Hv. exact Hv.
    + rewrite (proj1 (cindex_none_has _ _) Eci). exists None. split; [reflexivity|]. intros e0 w E Hin'. inversion E; subst e0. exfalso.
      destruct (vmatch_lt _ _ _ _ _ Hvm Hin') as (_ & Hm). apply cindex_none_has in Eci. congruence.
  - assert (Ev : is_valid s (hnd hs k) = false).
    { destruct (is_valid s (hnd hs k)) eqn:Ev; [|reflexivity]. destruct (valid_find _ _ _ _ _ _ HI Ev) as (_ & _ & e & He). congruence. }
    rewrite Ev. simpl. split; [reflexivity|]. exists None. split; [reflexivity|]. intros e w E. discriminate.
Qed.

Theorem unlocked_observations typed n cis ops s hs :
  cis_ok cis -> forallb (alpha_b cis) ops = true ->
  mrun typed n cis ops = Ok (s, hs) -> x_viol (xrun n cis ops) = 0 -> within (length hs) ->
  forall k c, c < MASK_BITS ->
    step s (OHas (nth k hs null_handle) c) = Ok (s, RBool (spec_has (xrun n cis ops) k c)) /\
    exists v, step s (OGetConst (nth k hs null_handle) c) = Ok (s, RCell (spec_has (xrun n cis ops) k c) v) /\
              forall e w, find_ent (xrun n cis ops) k = Some e -> In (c, w) (e_comps e) -> cell_le w v = true.
Proof.
  intros Hok Ha Hrun Hviol Hb k c Hc. unfold mrun in Hrun. unfold xrun in *.
  destruct (MInv_run cis typed ops _ _ _ _ _ _ (MInv_init n cis) Hok Ha eq_refl Hviol Hrun Hb) as (al & HI).
  apply (MInv_observe _ _ _ _ _ k c HI Hc).
Qed.

(* ---- Archetype::insert gives the new member default values (every component type of a well-formed registry) ---- *)
Theorem arch_insert_default_cells cis s ai h s' a :
  cis_ok cis -> cinfos s = cis -> nth_error (archs s) ai = Some a -> length (am_cols a) = length (mitems (am_mask a)) ->
  arch_insert s ai h 0%N = Ok s' ->
  exists a3, nth_error (archs s') ai = Some a3 /\ am_mask a3 = am_mask a /\ am_ents a3 = am_ents a ++ [h] /\
    nth_error (locs s') (N.to_nat (fst h)) = Some {| l_arch := Some ai; l_idx := length (am_ents a) |} /\
    (forall c, c < MASK_BITS -> mhas (am_mask a) c = true ->
       cell_le (default_cell cis c) (acell a3 c (length (am_ents a))) = true) /\
    (forall c slot, c < MASK_BITS -> slot < length (am_ents a) -> acell a3 c slot = acell a c slot).
Proof.
  intros Hok Hcis Ha Hcols H.
  destruct (arch_insert_ok _ _ _ _ _ _ Ha Hcols H) as (a3 & F3 & A3 & Hlt & L3 & Hab & He & Hz & Hcl & Hcells & Hdef).
  destruct (ab3_fields _ _ Hab) as (Em & _).
  exists a3. split; [rewrite A3; apply nth_error_upd_same; apply nth_error_Some; congruence|].
  split; [exact Em|]. split; [exact He|]. split; [rewrite L3; apply nth_error_upd_same; exact Hlt|]. split.
  - intros c Hc Hm. unfold acell. rewrite Em.
    assert (E1 : cindex (am_mask a) c = Some (length (filter (mhas (am_mask a)) (seq 0 c)))) by (unfold cindex; rewrite Hm; reflexivity).
    rewrite E1. destruct (nth_error cis c) as [inf|] eqn:Einf; [|unfold default_cell; rewrite Einf; reflexivity].
    apply (default_cell_ok cis c inf _ Hok Einf). apply (Hdef _ c inf (cindex_nth _ _ _ Hc E1) (mhas_zero c)). congruence.
  - intros c slot Hc Hs. apply acell_eq; [exact Em|exact Hc|]. intros ci _. apply Hcells. lia.
Qed.
