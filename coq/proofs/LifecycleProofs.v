(* C03: the lifecycle events (construction, move, destruction, callbacks) emitted by the functions of the
   Manager model, characterised function by function for ALL states and inputs.
   The log of Manager.v is reversed (emit conses), so every statement has the shape
       log s' = rev evs ++ log s
   with evs the new events in chronological order. *)
Require Import Coq.Lists.List Coq.NArith.NArith Coq.ZArith.ZArith Coq.Arith.Arith Coq.Bool.Bool Coq.micromega.Lia.
From Mustache Require Import Res Manager.
From Mustache.proofs Require Import ListLemmas SkelBasics ClosureProofs.
Import ListNotations.

Lemma bind_ok {A B} (r : res A) (f : A -> res B) b : bind r f = Ok b -> exists a, r = Ok a /\ f a = Ok b.
Proof. destruct r as [a|e]; simpl; intros H; [exists a; auto|discriminate]. Qed.

Lemma info_of_ok s c inf : info_of s c = Ok inf -> nth_error (cinfos s) c = Some inf.
Proof. unfold info_of. destruct (nth_error (cinfos s) c); intros H; inversion H; reflexivity. Qed.

(* ------------------------------------------------------------------------------------------ *)
(* transitions that emit exactly the events evs and touch only the archetypes listed in t       *)
Definition tr (t : list nat) (evs : list event) (s s' : mst) : Prop :=
  cinfos s' = cinfos s /\ epoch s' = epoch s /\ log s' = rev evs ++ log s /\
  (forall i, ~ In i t -> nth_error (archs s') i = nth_error (archs s) i) /\
  (forall i, option_map am_mask (nth_error (archs s') i) = option_map am_mask (nth_error (archs s) i)) /\
  bufs s' = bufs s /\ tmps s' = tmps s.

Lemma tr_refl t s : tr t [] s s.
Proof. repeat split. Qed.

Lemma tr_trans t e1 e2 a b c : tr t e1 a b -> tr t e2 b c -> tr t (e1 ++ e2) a c.
Proof.
  intros (A1 & A2 & A3 & A4 & A5 & A6 & A7) (B1 & B2 & B3 & B4 & B5 & B6 & B7).
  split; [congruence|]. split; [congruence|]. split; [|split; [|split; [|split; congruence]]].
  - rewrite B3, A3, rev_app_distr, app_assoc. reflexivity.
  - intros i Hi. rewrite B4, A4 by assumption. reflexivity.
  - intros i. rewrite B5, A5. reflexivity.
Qed.

Lemma tr_trans_nil_r t e a b c : tr t e a b -> tr t [] b c -> tr t e a c.
Proof. intros H1 H2. rewrite <- (app_nil_r e). eapply tr_trans; eassumption. Qed.

Lemma tr_trans_nil_l t e a b c : tr t [] a b -> tr t e b c -> tr t e a c.
Proof. intros H1 H2. change e with ([] ++ e). eapply tr_trans; eassumption. Qed.

Lemma tr_weaken t t' e s s' : incl t t' -> tr t e s s' -> tr t' e s s'.
Proof.
  intros Hi (A1 & A2 & A3 & A4 & A5 & A6 & A7). repeat split; try assumption.
  intros i Hn. apply A4. intros Hin. apply Hn, Hi, Hin.
Qed.

Lemma tr_emit t s e : tr t [e] s (emit s e).
Proof. repeat split. Qed.

Lemma tr_if_emit t s (b : bool) e : tr t (if b then [e] else []) s (if b then emit s e else s).
Proof. destruct b; [apply tr_emit|apply tr_refl]. Qed.

Lemma tr_same t s s' : cinfos s' = cinfos s -> epoch s' = epoch s -> log s' = log s -> archs s' = archs s ->
  bufs s' = bufs s -> tmps s' = tmps s -> tr t [] s s'.
Proof. intros H1 H2 H3 H4 H5 H6. repeat split; try assumption; intros; rewrite H4; reflexivity. Qed.

Lemma tr_set_arch t s ai a a' :
  nth_error (archs s) ai = Some a -> am_mask a' = am_mask a -> In ai t -> tr t [] s (set_arch s ai a').
Proof.
  intros Ha Hm Hin. repeat split; simpl.
  - intros i Hi. apply nth_error_upd_other. intros ->. contradiction.
  - intros i. rewrite nth_error_upd. destruct (Nat.eqb_spec ai i) as [<-|Hne]; simpl; [|reflexivity].
    assert (Hlt : ai < length (archs s)) by (apply nth_error_Some; congruence).
    apply Nat.ltb_lt in Hlt. rewrite Hlt, Ha. simpl. rewrite Hm. reflexivity.
Qed.

Lemma update_location_tr t s h l s' : update_location s h l = Ok s' -> tr t [] s s'.
Proof.
  unfold update_location. intros H. apply bind_ok in H. destruct H as (ls & _ & H). inversion H; subst s'.
  apply tr_same; reflexivity.
Qed.

(* a fold whose body is such a transition *)
Lemma fold_tr {A} t (f : mst -> A -> res mst) (g : mst -> A -> list event) :
  (forall st a st', f st a = Ok st' -> tr t (g st a) st st') ->
  (forall st st' e a, tr t e st st' -> g st' a = g st a) ->
  forall l s s', fold_res f l s = Ok s' -> tr t (flat_map (g s) l) s s'.
Proof.
  intros Hf Hg. induction l as [|a l IH]; intros s s' H; simpl in H.
  - inversion H; subst s'. apply tr_refl.
  - apply bind_ok in H. destruct H as (s1 & H1 & H2). apply Hf in H1. apply IH in H2.
    simpl. eapply tr_trans; [exact H1|].
    rewrite (flat_map_ext (g s) (g s1)); [exact H2|]. intros x. symmetry. eapply Hg. exact H1.
Qed.

Lemma flat_map_combine_seq {A B} (g : A -> list B) (l : list A) : forall k,
  flat_map (fun x : nat * A => g (snd x)) (combine (seq k (length l)) l) = flat_map g l.
Proof. induction l as [|a l IH]; intros k; simpl; [reflexivity|]. rewrite IH. reflexivity. Qed.

(* ------------------------------------------------------------------------------------------ *)
(* the version storage does not touch masks, sizes, members or cells                            *)
Lemma vs_set_chunk_mask a v ch a' : vs_set_chunk a v ch = Ok a' -> am_mask a' = am_mask a.
Proof. unfold vs_set_chunk. destruct (Nat.ltb _ _); intros H; inversion H; reflexivity. Qed.

Lemma vs_emplace_mask a v i a' : vs_emplace a v i = Ok a' -> am_mask a' = am_mask a.
Proof.
  unfold vs_emplace. intros H. apply bind_ok in H. destruct H as (ch & _ & H).
  apply vs_set_chunk_mask in H. rewrite H. destruct (Nat.leb _ _); reflexivity.
Qed.

(* ------------------------------------------------------------------------------------------ *)
(* event lists                                                                                 *)
Definition on_info (cis : list cinfo) (c : nat) (f : cinfo -> list event) : list event :=
  match nth_error cis c with Some inf => f inf | None => [] end.

Definition has_create (inf : cinfo) : bool := match ci_create inf with Some _ => true | None => false end.
Definition has_default (inf : cinfo) : bool := match ci_default inf with Some _ => true | None => false end.

(* destructors of the components comps of slot (ai, slot) *)
Definition dtor_events (cis : list cinfo) (ai slot : nat) (comps : list nat) : list event :=
  flat_map (fun c => on_info cis c (fun inf =>
    if ci_destroy inf && ci_ev inf then [EvD (ci_pal inf) (PArch ai c slot)] else [])) comps.

(* move-assignments src -> dst inside archetype ai *)
Definition ma_events (cis : list cinfo) (ai src dst : nat) (comps : list nat) : list event :=
  flat_map (fun c => on_info cis c (fun inf =>
    if ci_move inf && ci_ev inf then [EvMA (ci_pal inf) (PArch ai c dst) (PArch ai c src)] else [])) comps.

(* beforeRemove callbacks of the components in the mask rm *)
Definition br_events (cis : list cinfo) (ai idx : nat) (ent : handle) (rm : mask) (comps : list nat) : list event :=
  flat_map (fun c => on_info cis c (fun inf =>
    if ci_br inf && mhas rm c then [EvBR (ci_pal inf) (PArch ai c idx) ent] else [])) comps.

(* construct_default on one cell *)
Definition cd_events (inf : cinfo) (ai c slot : nat) (h : handle) : list event :=
  (if has_create inf && ci_ev inf then [EvC (ci_pal inf) (PArch ai c slot)] else []) ++
  (if ci_aa inf then [EvAA (ci_pal inf) (PArch ai c slot) h] else []).

(* ------------------------------------------------------------------------------------------ *)
(* primitives                                                                                  *)
Lemma write_cell_tr s ai ci slot v s' : write_cell s ai ci slot v = Ok s' -> tr [ai] [] s s'.
Proof.
  unfold write_cell. intros H. apply bind_ok in H. destruct H as (a & Ha & H). apply nth_res_ok in Ha.
  inversion H; subst s'. eapply tr_set_arch; [exact Ha|reflexivity|left; reflexivity].
Qed.

Lemma construct_default_tr s ai c ci slot h b s' : construct_default s ai c ci slot h b = Ok s' ->
  exists inf, nth_error (cinfos s) c = Some inf /\ tr [ai] (cd_events inf ai c slot h) s s'.
Proof.
  unfold construct_default. intros H. apply bind_ok in H. destruct H as (inf & Hi & H). apply info_of_ok in Hi.
  exists inf. split; [assumption|]. apply bind_ok in H. destruct H as (s1 & H1 & H). inversion H; subst s'; clear H.
  unfold cd_events. eapply tr_trans; [|apply tr_if_emit].
  unfold has_create. destruct (ci_create inf) as [v|].
  - apply bind_ok in H1. destruct H1 as (s0 & Hw & H1). apply write_cell_tr in Hw. inversion H1; subst s1; clear H1.
    simpl. eapply tr_trans_nil_l; [exact Hw|]. apply tr_if_emit.
  - simpl. destruct (ci_default inf) as [v|]; [destruct b|]; try (inversion H1; subst s1; apply tr_refl).
    eapply write_cell_tr; eassumption.
Qed.

Lemma push_back_tr s ai h s1 idx : push_back s ai h = Ok (s1, idx) ->
  exists a, nth_error (archs s) ai = Some a /\ idx = length (am_ents a) /\ tr [ai] [] s s1.
Proof.
  unfold push_back. intros H. apply bind_ok in H. destruct H as (a & Ha & H). apply nth_res_ok in Ha.
  apply bind_ok in H. destruct H as (a1 & He & H). apply vs_emplace_mask in He. inversion H; subst s1 idx; clear H.
  exists a. repeat split; try assumption; try reflexivity.
  - simpl. intros i Hi. apply nth_error_upd_other. intros ->. apply Hi. left; reflexivity.
  - apply (tr_set_arch [ai] s ai a); [assumption|simpl; assumption|left; reflexivity].
Qed.

Lemma pop_back_tr s ai s' : pop_back s ai = Ok s' -> tr [ai] [] s s'.
Proof.
  unfold pop_back. intros H. apply bind_ok in H. destruct H as (a & Ha & H). apply nth_res_ok in Ha.
  inversion H; subst s'. eapply tr_set_arch; [exact Ha|reflexivity|left; reflexivity].
Qed.

(* ------------------------------------------------------------------------------------------ *)
(* callDestructor: one EvD per component with a logging destroy function, at that slot, nothing else *)
Lemma call_destructor_tr s ai slot s' : call_destructor s ai slot = Ok s' ->
  exists a, nth_error (archs s) ai = Some a /\ tr [ai] (dtor_events (cinfos s) ai slot (mitems (am_mask a))) s s'.
Proof.
  unfold call_destructor. intros H. apply bind_ok in H. destruct H as (a & Ha & H). apply nth_res_ok in Ha.
  apply bind_ok in H. destruct H as (s1 & Hf & H). apply bind_ok in H. destruct H as (a1 & Ha1 & H).
  apply nth_res_ok in Ha1. inversion H; subst s'; clear H. exists a. split; [assumption|].
  apply (fold_tr [ai] _ (fun st c => on_info (cinfos st) c (fun inf =>
           if ci_destroy inf && ci_ev inf then [EvD (ci_pal inf) (PArch ai c slot)] else []))) in Hf.
  - eapply tr_trans_nil_r; [exact Hf|]. eapply tr_set_arch; [exact Ha1|reflexivity|left; reflexivity].
  - intros st c st' Hb. apply bind_ok in Hb. destruct Hb as (inf & Hi & Hb). apply info_of_ok in Hi.
    unfold on_info. rewrite Hi. inversion Hb. apply tr_if_emit.
  - intros st st' e c (E & _). rewrite E. reflexivity.
Qed.

Ltac bind_inv H x Hx := apply bind_ok in H; destruct H as (x & Hx & H).

Lemma tr_mask_at t e s s' i a a' : tr t e s s' ->
  nth_error (archs s) i = Some a -> nth_error (archs s') i = Some a' -> am_mask a' = am_mask a.
Proof. intros (_ & _ & _ & _ & Hm & _) Ha Ha'. specialize (Hm i). rewrite Ha, Ha' in Hm. simpl in Hm. congruence. Qed.

Lemma tr_frame_at t e s s' i : tr t e s s' -> ~ In i t -> nth_error (archs s') i = nth_error (archs s) i.
Proof. intros (_ & _ & _ & H & _). apply H. Qed.

Lemma tr_cis t e s s' : tr t e s s' -> cinfos s' = cinfos s.
Proof. intros (H & _). exact H. Qed.

(* internal_move: one move-assignment per component with a logging move function, then the vacated source
   slot is destroyed *)
Lemma internal_move_tr s ai src dst s' : internal_move s ai src dst = Ok s' ->
  exists a, nth_error (archs s) ai = Some a /\
    tr [ai] (ma_events (cinfos s) ai src dst (mitems (am_mask a)) ++
             dtor_events (cinfos s) ai src (mitems (am_mask a))) s s'.
Proof.
  unfold internal_move. intros H. bind_inv H a Ha. apply nth_res_ok in Ha.
  bind_inv H s1 Hf. bind_inv H a1 Ha1. apply nth_res_ok in Ha1.
  bind_inv H src_e Hse. bind_inv H dst_e Hde. bind_inv H csrc Hcs. bind_inv H cdst Hcd.
  bind_inv H a2 Ha2. bind_inv H a3 Ha3. bind_inv H s3 Hs3. bind_inv H s4 Hs4. bind_inv H a4 Ha4.
  apply nth_res_ok in Ha4. apply vs_set_chunk_mask in Ha2. apply vs_set_chunk_mask in Ha3.
  exists a. split; [assumption|].
  assert (T1 : tr [ai] (ma_events (cinfos s) ai src dst (mitems (am_mask a))) s s1).
  { apply (fold_tr [ai] _ (fun st x => on_info (cinfos st) (snd x) (fun inf =>
       if ci_move inf && ci_ev inf then [EvMA (ci_pal inf) (PArch ai (snd x) dst) (PArch ai (snd x) src)] else []))) in Hf.
    - unfold ma_events. rewrite <- (flat_map_combine_seq _ (mitems (am_mask a)) 0). exact Hf.
    - intros st [ci c] st' Hb. cbn [snd]. bind_inv Hb inf Hi. apply info_of_ok in Hi. bind_inv Hb a' Ha'.
      apply nth_res_ok in Ha'. unfold on_info. rewrite Hi. inversion Hb.
      eapply tr_trans_nil_l; [|apply tr_if_emit]. eapply tr_set_arch; [exact Ha'|reflexivity|left; reflexivity].
    - intros st st' e x (E & _). rewrite E. reflexivity. }
  assert (T5 : tr [ai] (ma_events (cinfos s) ai src dst (mitems (am_mask a))) s
                 (set_arch s4 ai (with_ents a4 (upd (am_ents a4) dst src_e)))).
  { eapply tr_trans_nil_r; [|eapply tr_set_arch; [exact Ha4|reflexivity|left; reflexivity]].
    eapply tr_trans_nil_r; [|eapply update_location_tr; exact Hs4].
    eapply tr_trans_nil_r; [|eapply update_location_tr; exact Hs3].
    eapply tr_trans_nil_r; [exact T1|]. eapply tr_set_arch; [exact Ha1|congruence|left; reflexivity]. }
  apply call_destructor_tr in H. destruct H as (a5 & Ha5 & T6).
  rewrite (tr_cis _ _ _ _ T5) in T6. rewrite (tr_mask_at _ _ _ _ _ _ _ T5 Ha Ha5) in T6.
  eapply tr_trans; eassumption.
Qed.

Lemma any_destroy_false s m ai slot : any_destroy s m = false -> dtor_events (cinfos s) ai slot (mitems m) = [].
Proof.
  unfold any_destroy, dtor_events. induction (mitems m) as [|c l IH]; simpl; [reflexivity|].
  intros H. apply orb_false_iff in H. destruct H as (H1 & H2). rewrite (IH H2), app_nil_r.
  unfold on_info. destruct (nth_error (cinfos s) c) as [inf|]; [|reflexivity]. rewrite H1. reflexivity.
Qed.

(* the entity handle passed to beforeRemove *)
Definition br_ent (cis : list cinfo) (a : archetype) (idx : nat) (h : handle) : handle :=
  if existsb (fun c => match nth_error cis c with Some i => ci_br i | None => false end) (mitems (am_mask a))
  then nth idx (am_ents a) h else h.

(* what vacating slot idx of an archetype with mask m and `S last` slots emits *)
Definition vacate_events (cis : list cinfo) (ai idx last : nat) (m : mask) : list event :=
  if Nat.eqb idx last then dtor_events cis ai idx (mitems m)
  else ma_events cis ai last idx (mitems m) ++ dtor_events cis ai last (mitems m).

(* arch_remove: beforeRemove for the components that do not survive (not in skip_on_remove), then either the last
   slot is destroyed in place, or the last slot is move-assigned into the hole and then destroyed *)
Lemma arch_remove_tr s ai idx h skip s' : arch_remove s ai idx h skip = Ok s' ->
  exists a last, nth_error (archs s) ai = Some a /\ am_size a = S last /\
    tr [ai] (br_events (cinfos s) ai idx (br_ent (cinfos s) a idx h) (minter (am_mask a) (minverse skip)) (mitems (am_mask a)) ++
             vacate_events (cinfos s) ai idx last (am_mask a)) s s'.
Proof.
  unfold arch_remove. intros H. bind_inv H a Ha. apply nth_res_ok in Ha.
  bind_inv H ent Hent. bind_inv H s1 Hf.
  destruct (am_size a) as [|last] eqn:Esz; [discriminate|].
  exists a, last. split; [assumption|]. split; [exact Esz|].
  assert (Eent : ent = br_ent (cinfos s) a idx h).
  { unfold br_ent. destruct (existsb _ _).
    - apply nth_res_ok in Hent. symmetry. apply nth_error_nth'. exact Hent.
    - inversion Hent; reflexivity. }
  subst ent.
  assert (T0 : tr [] (br_events (cinfos s) ai idx (br_ent (cinfos s) a idx h) (minter (am_mask a) (minverse skip)) (mitems (am_mask a))) s s1).
  { apply (fold_tr [] _ (fun st c => on_info (cinfos st) c (fun inf =>
       if ci_br inf && mhas (minter (am_mask a) (minverse skip)) c
       then [EvBR (ci_pal inf) (PArch ai c idx) (br_ent (cinfos s) a idx h)] else []))) in Hf.
    - exact Hf.
    - intros st c st' Hb. bind_inv Hb inf Hi. apply info_of_ok in Hi. unfold on_info. rewrite Hi. inversion Hb. apply tr_if_emit.
    - intros st st' e x (E & _). rewrite E. reflexivity. }
  assert (T1 := tr_weaken [] [ai] _ _ _ (incl_nil_l _) T0).
  assert (Ha1 : nth_error (archs s1) ai = Some a /\ cinfos s1 = cinfos s).
  { split; [|eapply tr_cis; exact T1]. destruct T0 as (_ & _ & _ & Hfr & _). rewrite Hfr by (intros []). exact Ha. }
  destruct Ha1 as (Ha1 & Ec1).
  eapply tr_trans; [exact T1|]. unfold vacate_events.
  destruct (Nat.eqb idx last) eqn:El.
  - bind_inv H s2 Hs2. bind_inv H a2 Ha2. apply nth_res_ok in Ha2. bind_inv H ch Hch. bind_inv H a3 Ha3.
    apply vs_set_chunk_mask in Ha3. apply update_location_tr with (t := [ai]) in H.
    assert (T2 : tr [ai] (dtor_events (cinfos s) ai idx (mitems (am_mask a))) s1 s2).
    { destruct (any_destroy s1 (am_mask a)) eqn:Ead.
      - apply call_destructor_tr in Hs2. destruct Hs2 as (a' & Ha' & T). rewrite Ha1 in Ha'. inversion Ha'; subst a'.
        rewrite Ec1 in T. exact T.
      - rewrite <- Ec1. rewrite any_destroy_false by assumption. eapply pop_back_tr; eassumption. }
    eapply tr_trans_nil_r; [|exact H]. eapply tr_trans_nil_r; [exact T2|].
    eapply tr_set_arch; [exact Ha2|assumption|left; reflexivity].
  - apply internal_move_tr in H. destruct H as (a' & Ha' & T). rewrite Ha1 in Ha'. inversion Ha'; subst a'.
    rewrite Ec1 in T. exact T.
Qed.

(* ------------------------------------------------------------------------------------------ *)
(* external_move                                                                               *)
(* per component c of the destination archetype: present in the source (mask pm) -> at most one move-construction
   from the source place (exactly one when the type has a logging move constructor); absent -> construct_default
   unless c is in the skip mask *)
Definition move_events (cis : list cinfo) (ai idx prev pidx : nat) (h : handle) (skip pm : mask) (comps : list nat) : list event :=
  flat_map (fun c => on_info cis c (fun inf =>
    if mhas pm c then (if ci_mctor inf && ci_ev inf then [EvMC (ci_pal inf) (PArch ai c idx) (PArch prev c pidx)] else [])
    else if (has_create inf || has_default inf || ci_aa inf) && negb (mhas skip c) then cd_events inf ai c idx h else [])) comps.

Lemma external_move_tr s ai h prev pidx skip s' : external_move s ai h prev pidx skip = Ok s' ->
  exists a pa last pent, ai <> prev /\ nth_error (archs s) ai = Some a /\ nth_error (archs s) prev = Some pa /\
    am_size pa = S last /\ nth_error (am_ents pa) pidx = Some pent /\
    tr [ai; prev]
       (move_events (cinfos s) ai (length (am_ents a)) prev pidx h skip (am_mask pa) (mitems (am_mask a)) ++
        br_events (cinfos s) prev pidx pent (minter (am_mask pa) (minverse (am_mask a))) (mitems (am_mask pa)) ++
        vacate_events (cinfos s) prev pidx last (am_mask pa)) s s'.
Proof.
  unfold external_move. intros H. destruct (Nat.eqb_spec ai prev) as [|Hne]; [discriminate|].
  bind_inv H r Hpb. destruct r as (s1, idx). bind_inv H a1 Ha1. apply nth_res_ok in Ha1.
  bind_inv H pa Hpa. apply nth_res_ok in Hpa. bind_inv H s2 Hf. bind_inv H pa2 Hpa2. apply nth_res_ok in Hpa2.
  bind_inv H pent Hpent. apply nth_res_ok in Hpent. bind_inv H s3 Hrm.
  apply push_back_tr in Hpb. destruct Hpb as (a & Ha & -> & T0).
  assert (Hnp : ~ In prev [ai]) by (intros [E|[]]; congruence).
  assert (Hpa0 : nth_error (archs s) prev = Some pa) by (rewrite <- (tr_frame_at _ _ _ _ prev T0 Hnp); exact Hpa).
  assert (Em : am_mask a1 = am_mask a) by (eapply tr_mask_at; eassumption).
  rewrite Em in *. clear Em.
  set (idx := length (am_ents a)) in *.
  assert (T1 : tr [ai] (move_events (cinfos s) ai idx prev pidx h skip (am_mask pa) (mitems (am_mask a))) s1 s2).
  { apply (fold_tr [ai] _ (fun st x => on_info (cinfos st) (snd x) (fun inf =>
       match option_map am_mask (nth_error (archs st) prev) with
       | Some pm =>
         if mhas pm (snd x) then (if ci_mctor inf && ci_ev inf then [EvMC (ci_pal inf) (PArch ai (snd x) idx) (PArch prev (snd x) pidx)] else [])
         else if (has_create inf || has_default inf || ci_aa inf) && negb (mhas skip (snd x)) then cd_events inf ai (snd x) idx h else []
       | None => [] end))) in Hf.
    - unfold move_events. rewrite <- (flat_map_combine_seq _ (mitems (am_mask a)) 0).
      rewrite Hpa, (tr_cis _ _ _ _ T0) in Hf. exact Hf.
    - intros st [ci c] st' Hb. cbn [snd]. bind_inv Hb inf Hi. apply info_of_ok in Hi. bind_inv Hb pa' Hpa'.
      apply nth_res_ok in Hpa'. unfold on_info. rewrite Hi, Hpa'. cbn [option_map]. unfold cindex in Hb.
      destruct (mhas (am_mask pa') c).
      + destruct (Nat.ltb pidx (am_size pa')); [|discriminate]. bind_inv Hb st1 Hw. apply write_cell_tr in Hw.
        inversion Hb. eapply tr_trans_nil_l; [exact Hw|]. apply tr_if_emit.
      + unfold has_create, has_default.
        destruct ((_ || _ || ci_aa inf) && negb (mhas skip c)).
        * apply construct_default_tr in Hb. destruct Hb as (inf' & Hi' & T). rewrite Hi in Hi'. inversion Hi'; subst inf'. exact T.
        * inversion Hb. apply tr_refl.
    - intros st st' e x (E & _ & _ & _ & Em & _). rewrite E, Em. reflexivity. }
  assert (T01 := tr_trans_nil_l _ _ _ _ _ T0 T1).
  assert (Hpa2' : pa2 = pa).
  { rewrite (tr_frame_at _ _ _ _ prev T01 Hnp), Hpa0 in Hpa2. congruence. }
  subst pa2.
  apply arch_remove_tr in Hrm. destruct Hrm as (pa' & last & Hpa' & Hsz & T2).
  rewrite (tr_frame_at _ _ _ _ prev T01 Hnp), Hpa0 in Hpa'. inversion Hpa'; subst pa'. clear Hpa'.
  rewrite (tr_cis _ _ _ _ T01) in T2.
  assert (Ebr : br_ent (cinfos s) pa pidx pent = pent).
  { unfold br_ent. destruct (existsb _ _); [|reflexivity]. apply nth_error_nth'. exact Hpent. }
  rewrite Ebr in T2.
  apply update_location_tr with (t := [ai; prev]) in H.
  exists a, pa, last, pent. repeat (split; [assumption|]).
  eapply tr_trans_nil_r; [|exact H]. eapply tr_trans.
  - eapply tr_weaken; [|exact T01]. intros x [<-|[]]. left; reflexivity.
  - eapply tr_weaken; [|exact T2]. intros x [<-|[]]. right; left; reflexivity.
Qed.

(* ------------------------------------------------------------------------------------------ *)
(* Archetype::clear, EntityManager::clear, clearArchetype                                       *)
Definition clear_events (cis : list cinfo) (ai : nat) (a : archetype) : list event :=
  match am_ents a with
  | [] => []
  | _ => flat_map (fun c => on_info cis c (fun inf =>
           if ci_destroy inf && ci_ev inf then map (fun i => EvD (ci_pal inf) (PArch ai c i)) (seq 0 (am_size a)) else []))
         (mitems (am_mask a))
  end.

Lemma fold_emit_tr {A} t (f : A -> event) : forall l s, tr t (map f l) s (fold_left (fun st i => emit st (f i)) l s).
Proof.
  induction l as [|x l IH]; intros s; simpl; [apply tr_refl|].
  change (f x :: map f l) with ([f x] ++ map f l). eapply tr_trans; [apply tr_emit|apply IH].
Qed.

Lemma arch_clear_tr s ai s' : arch_clear s ai = Ok s' ->
  exists a, nth_error (archs s) ai = Some a /\ tr [ai] (clear_events (cinfos s) ai a) s s'.
Proof.
  unfold arch_clear. intros H. bind_inv H a Ha. apply nth_res_ok in Ha. exists a. split; [assumption|].
  unfold clear_events. destruct (am_ents a) as [|e0 et]; [inversion H; apply tr_refl|].
  bind_inv H s1 Hf. bind_inv H a1 Ha1. apply nth_res_ok in Ha1. inversion H; subst s'; clear H.
  eapply tr_trans_nil_r; [|eapply tr_set_arch; [exact Ha1|reflexivity|left; reflexivity]].
  apply (fold_tr [ai] _ (fun st c => on_info (cinfos st) c (fun inf =>
       if ci_destroy inf && ci_ev inf then map (fun i => EvD (ci_pal inf) (PArch ai c i)) (seq 0 (am_size a)) else []))) in Hf.
  - exact Hf.
  - intros st c st' Hb. bind_inv Hb inf Hi. apply info_of_ok in Hi. unfold on_info. rewrite Hi. inversion Hb.
    destruct (_ && _); [apply fold_emit_tr|apply tr_refl].
  - intros st st' e x (E & _). rewrite E. reflexivity.
Qed.

Definition arch_clear_events (cis : list cinfo) (al : list archetype) (i : nat) : list event :=
  match nth_error al i with Some a => clear_events cis i a | None => [] end.

Lemma flat_map_ext_in' {A B} (f g : A -> list B) l : (forall x, In x l -> f x = g x) -> flat_map f l = flat_map g l.
Proof. intros H. rewrite !flat_map_concat_map. f_equal. apply map_ext_in. exact H. Qed.

Lemma fold_clear_tr (f : mst -> nat -> res mst) :
  (forall s i s', f s i = Ok s' -> exists a, nth_error (archs s) i = Some a /\ tr [i] (clear_events (cinfos s) i a) s s') ->
  forall l, NoDup l -> forall s s', fold_res f l s = Ok s' ->
  tr l (flat_map (arch_clear_events (cinfos s) (archs s)) l) s s'.
Proof.
  intros Hf. induction l as [|i l IH]; intros Hnd s s' H; simpl in H.
  - inversion H. apply tr_refl.
  - inversion Hnd as [|? ? Hni Hnd']; subst. bind_inv H s1 H1. apply Hf in H1. destruct H1 as (a & Ha & T1).
    apply (IH Hnd') in H. simpl. eapply tr_trans.
    + unfold arch_clear_events at 1. rewrite Ha. eapply tr_weaken; [|exact T1]. intros x [<-|[]]. left; reflexivity.
    + rewrite (flat_map_ext_in' _ (arch_clear_events (cinfos s1) (archs s1))).
      * eapply tr_weaken; [|exact H]. intros x Hx. right; exact Hx.
      * intros x Hx. unfold arch_clear_events. rewrite (tr_cis _ _ _ _ T1).
        rewrite (tr_frame_at _ _ _ _ x T1); [reflexivity|]. intros [<-|[]]. contradiction.
Qed.

Lemma clear_one_same s h s' : clear_one s h = Ok s' ->
  cinfos s' = cinfos s /\ epoch s' = epoch s /\ log s' = log s /\ archs s' = archs s /\ bufs s' = bufs s /\ tmps s' = tmps s.
Proof.
  unfold clear_one. intros H. bind_inv H l Hl. bind_inv H ls Hls. bind_inv H sl Hsl. inversion H. repeat split.
Qed.

Lemma clear_archetype_tr s ai s' : clear_archetype s ai = Ok s' ->
  exists a, nth_error (archs s) ai = Some a /\ tr [ai] (clear_events (cinfos s) ai a) s s'.
Proof.
  unfold clear_archetype. intros H. bind_inv H a Ha. apply nth_res_ok in Ha. bind_inv H s1 Hf.
  assert (Hs : cinfos s1 = cinfos s /\ epoch s1 = epoch s /\ log s1 = log s /\ archs s1 = archs s /\ bufs s1 = bufs s /\ tmps s1 = tmps s).
  { clear -Hf. revert s Hf. induction (am_ents a) as [|h l IH]; intros s Hf; simpl in Hf.
    - inversion Hf. repeat split.
    - bind_inv Hf s0 H0. apply clear_one_same in H0. apply IH in Hf.
      destruct H0 as (A1 & A2 & A3 & A4 & A5 & A6), Hf as (B1 & B2 & B3 & B4 & B5 & B6). repeat split; congruence. }
  destruct Hs as (E1 & E2 & E3 & E4 & E5 & E6). apply arch_clear_tr in H. destruct H as (a' & Ha' & T).
  rewrite E4, Ha in Ha'. inversion Ha'; subst a'. exists a. split; [assumption|]. rewrite E1 in T.
  eapply tr_trans_nil_l; [|exact T]. apply tr_same; assumption.
Qed.

(* EntityManager::clear: every archetype is cleared (clearArchetype) once, in index order *)
Lemma clear_all_tr s s' : clear_all s = Ok s' ->
  tr (seq 0 (length (archs s))) (flat_map (arch_clear_events (cinfos s) (archs s)) (seq 0 (length (archs s)))) s s'.
Proof.
  unfold clear_all. intros H. apply (fold_clear_tr _ clear_archetype_tr) in H; [|apply seq_NoDup]. exact H.
Qed.

(* ------------------------------------------------------------------------------------------ *)
(* counting: "exactly once"                                                                    *)
Definition place_eqb (p q : place) : bool :=
  match p, q with
  | PArch a c i, PArch a' c' i' => Nat.eqb a a' && Nat.eqb c c' && Nat.eqb i i'
  | PTmp e n, PTmp e' n' => Nat.eqb e e' && Nat.eqb n n'
  | _, _ => false
  end.

Lemma place_eqb_eq p q : place_eqb p q = true <-> p = q.
Proof.
  destruct p, q; simpl; rewrite ?andb_true_iff, ?Nat.eqb_eq; split; try discriminate; try tauto.
  - intros ((-> & ->) & ->). reflexivity.
  - intros E; inversion E; auto.
  - intros (-> & ->). reflexivity.
  - intros E; inversion E; auto.
Qed.

Lemma place_eqb_refl p : place_eqb p p = true.
Proof. apply place_eqb_eq. reflexivity. Qed.

Lemma place_eqb_neq p q : p <> q -> place_eqb p q = false.
Proof. intros H. destruct (place_eqb p q) eqn:E; [|reflexivity]. apply place_eqb_eq in E. contradiction. Qed.

(* the destructor events at place p *)
Definition is_dtor_at (p : place) (e : event) : bool := match e with EvD _ q => place_eqb q p | _ => false end.

Lemma filter_none {A} (p : A -> bool) l : (forall x, In x l -> p x = false) -> filter p l = [].
Proof.
  induction l as [|a l IH]; intros H; simpl; [reflexivity|]. rewrite (H a) by (left; reflexivity).
  apply IH. intros x Hx. apply H. right; exact Hx.
Qed.

Lemma filter_flat_map_none {A B} (p : B -> bool) (g : A -> list B) (l : list A) :
  (forall x, In x l -> filter p (g x) = []) -> filter p (flat_map g l) = [].
Proof.
  induction l as [|x l IH]; intros H; simpl; [reflexivity|]. rewrite filter_app, (H x) by (left; reflexivity).
  apply IH. intros y Hy. apply H. right; exact Hy.
Qed.

Lemma filter_flat_map_once {A B} (p : B -> bool) (g : A -> list B) (l : list A) (a : A) :
  NoDup l -> In a l -> (forall x, x <> a -> In x l -> filter p (g x) = []) -> filter p (flat_map g l) = filter p (g a).
Proof.
  induction l as [|x l IH]; intros Hnd Hin Ho; [contradiction|]. inversion Hnd as [|? ? Hnx Hnd']; subst.
  simpl. rewrite filter_app. destruct Hin as [->|Hin].
  - rewrite filter_flat_map_none, app_nil_r; [reflexivity|].
    intros y Hy. apply Ho; [intros ->; contradiction|right; exact Hy].
  - rewrite Ho; [|intros ->; contradiction|left; reflexivity]. simpl. apply IH; [assumption|assumption|].
    intros z Hz Hz'. apply Ho; [assumption|right; assumption].
Qed.

Lemma mitems_NoDup m : NoDup (mitems m).
Proof. unfold mitems. apply NoDup_filter, seq_NoDup. Qed.

Lemma filter_map_once {A B} (p : B -> bool) (f : A -> B) l i :
  NoDup l -> In i l -> (forall j, j <> i -> p (f j) = false) -> p (f i) = true -> filter p (map f l) = [f i].
Proof.
  intros Hnd Hin Ho Hi.
  induction l as [|x l IH]; [contradiction|]. inversion Hnd as [|? ? Hnx Hnd']; subst. simpl. destruct Hin as [->|Hin].
  - rewrite Hi. f_equal. apply filter_none. intros y Hy. apply in_map_iff in Hy. destruct Hy as (j & <- & Hj).
    apply Ho. intros ->. contradiction.
  - rewrite Ho by (intros ->; contradiction). apply IH; assumption.
Qed.

(* call_destructor / the vacated slot: each component of the archetype whose type has a logging destroy function is
   destroyed exactly once at that slot; and there is nothing else *)
Lemma dtor_events_once cis ai slot comps c inf :
  NoDup comps -> In c comps -> nth_error cis c = Some inf ->
  filter (is_dtor_at (PArch ai c slot)) (dtor_events cis ai slot comps) =
  if ci_destroy inf && ci_ev inf then [EvD (ci_pal inf) (PArch ai c slot)] else [].
Proof.
  intros Hnd Hin Hi. unfold dtor_events. rewrite (filter_flat_map_once _ _ comps c Hnd Hin).
  - unfold on_info. rewrite Hi. destruct (_ && _); [|reflexivity]. simpl. rewrite !Nat.eqb_refl. reflexivity.
  - intros x Hx _. unfold on_info. destruct (nth_error cis x) as [i|]; [|reflexivity]. destruct (_ && _); [|reflexivity].
    simpl. apply Nat.eqb_neq in Hx. rewrite Hx, andb_false_r. reflexivity.
Qed.

Lemma dtor_events_only cis ai slot comps :
  Forall (fun e => exists pal c, e = EvD pal (PArch ai c slot) /\ In c comps) (dtor_events cis ai slot comps).
Proof.
  unfold dtor_events. apply Forall_flat_map, Forall_forall. intros c Hc. unfold on_info.
  destruct (nth_error cis c) as [inf|]; [|constructor]. destruct (_ && _); [|constructor].
  constructor; [|constructor]. exists (ci_pal inf), c. auto.
Qed.

(* Archetype::clear: slots 0 .. am_size-1 of each such component exactly once, nothing else *)
Lemma clear_events_once cis ai a c i inf :
  am_ents a <> [] -> In c (mitems (am_mask a)) -> i < am_size a -> nth_error cis c = Some inf ->
  filter (is_dtor_at (PArch ai c i)) (clear_events cis ai a) =
  if ci_destroy inf && ci_ev inf then [EvD (ci_pal inf) (PArch ai c i)] else [].
Proof.
  intros He Hin Hlt Hi. unfold clear_events. destruct (am_ents a) as [|e0 et]; [congruence|].
  rewrite (filter_flat_map_once _ _ _ c (mitems_NoDup _) Hin).
  - unfold on_info. rewrite Hi. destruct (_ && _); [|reflexivity].
    apply (filter_map_once _ (fun j => EvD (ci_pal inf) (PArch ai c j))).
    + apply seq_NoDup.
    + apply in_seq. lia.
    + intros j Hj. simpl. apply Nat.eqb_neq in Hj. rewrite Hj, andb_false_r. reflexivity.
    + simpl. rewrite !Nat.eqb_refl. reflexivity.
  - intros x Hx _. unfold on_info. destruct (nth_error cis x) as [ix|]; [|reflexivity]. destruct (_ && _); [|reflexivity].
    apply filter_none. intros e He'. apply in_map_iff in He'. destruct He' as (j & <- & _). simpl.
    apply Nat.eqb_neq in Hx. rewrite Hx, andb_false_r. reflexivity.
Qed.

Lemma clear_events_only cis ai a :
  Forall (fun e => exists pal c i, e = EvD pal (PArch ai c i) /\ In c (mitems (am_mask a)) /\ i < am_size a)
         (clear_events cis ai a).
Proof.
  unfold clear_events. destruct (am_ents a); [constructor|]. apply Forall_flat_map, Forall_forall. intros c Hc.
  unfold on_info. destruct (nth_error cis c) as [inf|]; [|constructor]. destruct (_ && _); [|constructor].
  apply Forall_forall. intros e He. apply in_map_iff in He. destruct He as (j & <- & Hj). apply in_seq in Hj.
  exists (ci_pal inf), c, j. repeat split; [assumption|lia].
Qed.

(* ------------------------------------------------------------------------------------------ *)
(* events whose primary place (where an instance is created, overwritten, destroyed or notified) is an archetype
   cell -- in particular they are not EvC / EvD at a temporary                                   *)
Definition ev_place (e : event) : place :=
  match e with
  | EvC _ p | EvV _ p | EvD _ p | EvAA _ p _ | EvBR _ p _ => p
  | EvCP _ d _ | EvMC _ d _ | EvMA _ d _ => d
  end.
Definition arch_ev (e : event) : Prop := match ev_place e with PArch _ _ _ => True | PTmp _ _ => False end.

Definition emits_arch (s s' : mst) : Prop :=
  cinfos s' = cinfos s /\ epoch s' = epoch s /\ bufs s' = bufs s /\ tmps s' = tmps s /\
  exists evs, log s' = evs ++ log s /\ Forall arch_ev evs.

Lemma emits_refl s : emits_arch s s.
Proof. repeat split. exists []. split; [reflexivity|constructor]. Qed.

Lemma emits_trans a b c : emits_arch a b -> emits_arch b c -> emits_arch a c.
Proof.
  intros (A1 & A2 & A5 & A6 & e1 & A3 & A4) (B1 & B2 & B5 & B6 & e2 & B3 & B4).
  split; [congruence|]. split; [congruence|]. split; [congruence|]. split; [congruence|].
  exists (e2 ++ e1). split; [rewrite B3, A3, app_assoc; reflexivity|]. apply Forall_app. split; assumption.
Qed.

Lemma emits_same s s' : cinfos s' = cinfos s -> epoch s' = epoch s -> log s' = log s ->
  bufs s' = bufs s -> tmps s' = tmps s -> emits_arch s s'.
Proof. intros H1 H2 H3 H4 H5. repeat split; try assumption. exists []. split; [assumption|constructor]. Qed.

Lemma emits_of_tr t evs s s' : tr t evs s s' -> Forall arch_ev evs -> emits_arch s s'.
Proof.
  intros (A1 & A2 & A3 & _ & _ & A6 & A7) HF. repeat split; try assumption. exists (rev evs). split; [assumption|apply Forall_rev; assumption].
Qed.

Lemma emits_if_emit s (b : bool) e : arch_ev e -> emits_arch s (if b then emit s e else s).
Proof. intros He. apply (emits_of_tr [] _ _ _ (tr_if_emit [] s b e)). destruct b; repeat constructor. exact He. Qed.

Lemma fold_emits {A} (f : mst -> A -> res mst) :
  (forall st a st', f st a = Ok st' -> emits_arch st st') ->
  forall l s s', fold_res f l s = Ok s' -> emits_arch s s'.
Proof.
  intros Hf. induction l as [|a l IH]; intros s s' H; simpl in H.
  - inversion H. apply emits_refl.
  - bind_inv H s1 H1. eapply emits_trans; [eapply Hf; exact H1|eapply IH; exact H].
Qed.

Ltac arch_tac := repeat match goal with
  | |- Forall _ (_ ++ _) => apply Forall_app; split
  | |- Forall _ (flat_map _ _) => apply Forall_flat_map, Forall_forall; intros ? _
  | |- Forall _ (on_info _ _ _) => unfold on_info
  | |- Forall _ (match ?x with _ => _ end) => destruct x
  | |- Forall _ [] => constructor
  | |- Forall _ (_ :: _) => constructor; [exact I|]
  end.

Lemma dtor_events_arch cis ai slot comps : Forall arch_ev (dtor_events cis ai slot comps).
Proof. unfold dtor_events. arch_tac. Qed.
Lemma ma_events_arch cis ai src dst comps : Forall arch_ev (ma_events cis ai src dst comps).
Proof. unfold ma_events. arch_tac. Qed.
Lemma br_events_arch cis ai idx ent rm comps : Forall arch_ev (br_events cis ai idx ent rm comps).
Proof. unfold br_events. arch_tac. Qed.
Lemma cd_events_arch inf ai c slot h : Forall arch_ev (cd_events inf ai c slot h).
Proof. unfold cd_events. arch_tac. Qed.
Lemma vacate_events_arch cis ai idx last m : Forall arch_ev (vacate_events cis ai idx last m).
Proof. unfold vacate_events. destruct (Nat.eqb idx last); arch_tac; auto using dtor_events_arch, ma_events_arch. Qed.
Lemma move_events_arch cis ai idx prev pidx h skip pm comps : Forall arch_ev (move_events cis ai idx prev pidx h skip pm comps).
Proof. unfold move_events. arch_tac; apply cd_events_arch. Qed.

Lemma arch_remove_emits s ai idx h skip s' : arch_remove s ai idx h skip = Ok s' -> emits_arch s s'.
Proof.
  intros H. apply arch_remove_tr in H. destruct H as (a & last & _ & _ & T). eapply emits_of_tr; [exact T|].
  apply Forall_app. split; [apply br_events_arch|apply vacate_events_arch].
Qed.

Lemma external_move_emits s ai h prev pidx skip s' : external_move s ai h prev pidx skip = Ok s' -> emits_arch s s'.
Proof.
  intros H. apply external_move_tr in H. destruct H as (a & pa & last & pent & _ & _ & _ & _ & _ & T).
  eapply emits_of_tr; [exact T|].
  apply Forall_app. split; [apply move_events_arch|]. apply Forall_app. split; [apply br_events_arch|apply vacate_events_arch].
Qed.

(* ------------------------------------------------------------------------------------------ *)
(* the functions reached from applyCommandPack                                                 *)
Lemma write_cell_emits s ai ci slot v s' : write_cell s ai ci slot v = Ok s' -> emits_arch s s'.
Proof. intros H. apply write_cell_tr in H. eapply emits_of_tr; [exact H|constructor]. Qed.

Lemma construct_default_emits s ai c ci slot h b s' : construct_default s ai c ci slot h b = Ok s' -> emits_arch s s'.
Proof.
  intros H. apply construct_default_tr in H. destruct H as (inf & _ & T). eapply emits_of_tr; [exact T|apply cd_events_arch].
Qed.

Lemma get_arch_same s m sh s' i : get_arch s m sh = Ok (s', i) ->
  cinfos s' = cinfos s /\ epoch s' = epoch s /\ log s' = log s /\ bufs s' = bufs s /\ tmps s' = tmps s.
Proof.
  unfold get_arch. intros H. bind_inv H exm Hex. destruct (find_arch _ _ _ _).
  - inversion H. repeat split.
  - bind_inv H cs Hcs. inversion H. repeat split.
Qed.

Lemma arch_insert_emits s ai h skip s' : arch_insert s ai h skip = Ok s' -> emits_arch s s'.
Proof.
  unfold arch_insert. intros H. bind_inv H r Hpb. destruct r as (s1, idx). apply push_back_tr in Hpb.
  destruct Hpb as (a0 & _ & _ & T0). bind_inv H a Ha. bind_inv H s2 H2. bind_inv H a2 Ha2. bind_inv H a3 Ha3.
  apply (update_location_tr []) in H.
  eapply emits_trans; [eapply emits_of_tr; [exact T0|constructor]|].
  apply emits_trans with s2; [|apply emits_trans with (set_arch s2 ai a3); [apply emits_same; reflexivity|eapply emits_of_tr; [exact H|constructor]]].
  destruct (skip =? am_mask a)%N; [inversion H2; apply emits_refl|].
  bind_inv H2 s1' Hf1. eapply emits_trans.
  - eapply fold_emits; [|exact Hf1]. intros st [ci c] st' Hb. bind_inv Hb inf Hi.
    destruct (_ || ci_aa inf); [|inversion Hb; apply emits_refl].
    destruct (_ || _); [eapply construct_default_emits; exact Hb|inversion Hb; apply emits_refl].
  - eapply fold_emits; [|exact H2]. intros st [ci c] st' Hb. bind_inv Hb inf Hi.
    destruct (_ || ci_aa inf); [inversion Hb; apply emits_refl|].
    destruct (ci_default inf); [|inversion Hb; apply emits_refl].
    destruct (_ || _); [eapply write_cell_emits; exact Hb|inversion Hb; apply emits_refl].
Qed.

Lemma destroy_now_unlocked_emits s h s' : destroy_now_unlocked s h = Ok s' -> emits_arch s s'.
Proof.
  unfold destroy_now_unlocked. intros H. destruct (is_valid s h); [|inversion H; apply emits_refl].
  bind_inv H l Hl. bind_inv H s1 H1. inversion H; subst s'; clear H.
  apply emits_trans with s1; [|apply emits_same; reflexivity].
  destruct (l_arch l); [eapply arch_remove_emits; exact H1|inversion H1; apply emits_refl].
Qed.

Lemma pack_loop_emits create h : forall cs s fm am s' fm' am' fin,
  pack_loop create h cs s fm am = Ok (s', fm', am', fin) -> emits_arch s s'.
Proof.
  induction cs as [|c t IH]; intros s fm am s' fm' am' fin H; simpl in H.
  - inversion H. apply emits_refl.
  - destruct c.
    + discriminate.
    + apply IH in H. eapply emits_trans; [|exact H]. apply emits_same; reflexivity.
    + destruct create.
      * inversion H. apply emits_same; reflexivity.
      * bind_inv H s1 H1. inversion H; subst. eapply destroy_now_unlocked_emits; exact H1.
    + eapply IH; exact H.
    + eapply IH; exact H.
Qed.

(* applyCommandPack: every event it emits happens at an archetype cell; the temporaries only appear as the SOURCE
   of a move construction.  In particular no temporary is constructed or destroyed by it. *)
Lemma apply_pack_emits tid s p s' : apply_pack tid s p = Ok s' -> emits_arch s s'.
Proof.
  unfold apply_pack. destruct p as [|c0 t]; intros H; [inversion H; apply emits_refl|].
  bind_inv H r0 Hr0.
  assert (Hr : match r0 with None => True | Some (s2, _, _, _, _) => emits_arch s s2 end).
  { destruct c0.
    - bind_inv Hr0 sl Hsl. try (bind_inv Hr0 exm Hex). inversion Hr0. apply emits_same; destruct (Nat.ltb _ _); reflexivity.
    - destruct (is_valid s _); [bind_inv Hr0 la Hla; bind_inv Hr0 a Ha|]; inversion Hr0; try apply emits_refl; exact I.
    - destruct (is_valid s _); [bind_inv Hr0 la Hla; bind_inv Hr0 a Ha|]; inversion Hr0; try apply emits_refl; exact I.
    - destruct (is_valid s _); [bind_inv Hr0 la Hla; bind_inv Hr0 a Ha|]; inversion Hr0; try apply emits_refl; exact I.
    - destruct (is_valid s _); [bind_inv Hr0 la Hla; bind_inv Hr0 a Ha|]; inversion Hr0; try apply emits_refl; exact I. }
  clear Hr0. destruct r0 as [[[[[s2 initial] sh] create] body]|]; [|inversion H; apply emits_refl].
  eapply emits_trans; [exact Hr|]. clear Hr.
  bind_inv H r Hpl. destruct r as (((s3, final), assigned), fin). apply pack_loop_emits in Hpl.
  eapply emits_trans; [exact Hpl|]. clear Hpl.
  destruct fin; [inversion H; apply emits_refl|].
  bind_inv H ra Hga. destruct ra as (s4, ai). apply get_arch_same in Hga. destruct Hga as (G1 & G2 & G3 & G4 & G5).
  eapply emits_trans; [apply emits_same; eassumption|].
  bind_inv H s5 H5. bind_inv H l Hl. bind_inv H a Ha.
  eapply emits_trans.
  - destruct create; [eapply arch_insert_emits; exact H5|].
    destruct (negb _); [|inversion H5; apply emits_refl].
    bind_inv H5 la Hla. destruct (Nat.eqb _ _); [inversion H5; apply emits_refl|eapply external_move_emits; exact H5].
  - eapply fold_emits; [|exact H]. intros st c st' Hb.
    destruct c; try (inversion Hb; apply emits_refl).
    bind_inv Hb inf Hi. destruct (cindex (am_mask a) c); [|discriminate].
    bind_inv Hb tls Htl. bind_inv Hb v Hv. bind_inv Hb st1 Hw. inversion Hb.
    apply emits_trans with st1; [eapply write_cell_emits; exact Hw|].
    match goal with |- emits_arch _ (if _ then emit ?m _ else _) => apply emits_trans with m end.
    + apply emits_if_emit. exact I.
    + apply (emits_if_emit _ (ci_aa inf)). exact I.
Qed.

(* ------------------------------------------------------------------------------------------ *)
(* command-buffer temporaries                                                                  *)
Definition tmp_value (inf : cinfo) (skip_ctor : bool) : cell :=
  if skip_ctor then None else match ci_create inf with Some x => Some x | None => ci_default inf end.

Definition assign_ctor_events (inf : cinfo) (skip_ctor : bool) (p : place) : list event :=
  if negb skip_ctor && has_create inf && ci_ev inf then [EvC (ci_pal inf) p] else [].

Lemma push_cmd_ok s tid c s' : push_cmd s tid c = Ok s' ->
  exists b, nth_error (bufs s) tid = Some b /\ s' = set_bufs s (upd (bufs s) tid (b ++ [c])) (tmps s).
Proof.
  unfold push_cmd. intros H. bind_inv H b Hb. apply nth_res_ok in Hb. exists b. split; [assumption|]. inversion H; reflexivity.
Qed.

(* TemporalStorage::assignComponent: exactly one new temporary, the one numbered `length tl`, is appended to buffer tid
   together with the command that refers to it; it is constructed (one EvC at that temporary) iff the constructor is
   not skipped and the type has a logging create function; nothing else is logged or changed *)
Lemma assign_locked_spec s tid h c sk s' n : assign_locked s tid h c sk = Ok (s', n) ->
  exists inf tl b,
    nth_error (cinfos s) c = Some inf /\ nth_error (tmps s) tid = Some tl /\ nth_error (bufs s) tid = Some b /\
    n = length tl /\
    tmps s' = upd (tmps s) tid (tl ++ [tmp_value inf sk]) /\
    bufs s' = upd (bufs s) tid (b ++ [AAssign h c n]) /\
    log s' = assign_ctor_events inf sk (PTmp (epoch s * 64 + tid) n) ++ log s /\
    cinfos s' = cinfos s /\ epoch s' = epoch s /\ archs s' = archs s.
Proof.
  unfold assign_locked. intros H. bind_inv H inf Hi. apply info_of_ok in Hi. bind_inv H tls Htl. apply nth_res_ok in Htl.
  exists inf, tls. unfold tmp_value, assign_ctor_events, has_create.
  destruct (ci_create inf) as [x|]; destruct sk; destruct (ci_ev inf); cbv beta iota in H;
    bind_inv H s2 Hp; apply push_cmd_ok in Hp; destruct Hp as (b & Hb & ->); inversion H; subst; clear H;
    exists b; simpl; repeat split; assumption.
Qed.

(* the final pass of applyStorage over buffer b of thread tid (k = epoch * 64 + tid): the temporary of every assign
   command whose type has a logging destroy function is destroyed, in buffer order *)
Definition tmp_dtor_events (cis : list cinfo) (k : nat) (b : list acmd) : list event :=
  flat_map (fun c => match c with
                     | AAssign _ cid n => on_info cis cid (fun inf =>
                         if ci_destroy inf && ci_ev inf then [EvD (ci_pal inf) (PTmp k n)] else [])
                     | _ => []
                     end) b.

Lemma tmp_pass_tr tid b s s' :
  fold_res (fun st (c : acmd) =>
      match c with
      | AAssign _ cid n =>
        do inf <- info_of st cid;
        Ok (if ci_destroy inf && ci_ev inf then emit st (EvD (ci_pal inf) (PTmp (epoch st * 64 + tid) n)) else st)
      | _ => Ok st
      end) b s = Ok s' ->
  tr [] (tmp_dtor_events (cinfos s) (epoch s * 64 + tid) b) s s'.
Proof.
  intros H.
  apply (fold_tr [] _ (fun st c => match c with
     | AAssign _ cid n => on_info (cinfos st) cid (fun inf =>
         if ci_destroy inf && ci_ev inf then [EvD (ci_pal inf) (PTmp (epoch st * 64 + tid) n)] else [])
     | _ => [] end)) in H.
  - exact H.
  - intros st c st' Hb. destruct c; try (inversion Hb; apply tr_refl).
    bind_inv Hb inf Hi. apply info_of_ok in Hi. unfold on_info. rewrite Hi. inversion Hb. apply tr_if_emit.
  - intros st st' e c (E1 & E2 & _). rewrite E1, E2. reflexivity.
Qed.

(* applyStorage: first the packs (events at archetype cells only), then the destructor pass over the WHOLE buffer --
   whether the pack holding an assign command was applied or skipped plays no role *)
Lemma apply_storage_spec s tid b s' : apply_storage s (tid, b) = Ok s' ->
  cinfos s' = cinfos s /\ epoch s' = epoch s /\ bufs s' = bufs s /\ tmps s' = tmps s /\
  exists pk, Forall arch_ev pk /\
    log s' = rev (tmp_dtor_events (cinfos s) (epoch s * 64 + tid) b) ++ pk ++ log s.
Proof.
  unfold apply_storage. intros H. bind_inv H s1 Hp.
  apply (fold_emits _ (apply_pack_emits tid)) in Hp. destruct Hp as (A1 & A2 & A3 & A4 & pk & A5 & A6).
  apply tmp_pass_tr in H. destruct H as (B1 & B2 & B3 & _ & _ & B6 & B7).
  repeat split; try congruence. exists pk. split; [assumption|]. rewrite B3, A5, A1, A2. reflexivity.
Qed.

(* the destructor events at temporaries *)
Definition is_tmp_dtor (e : event) : bool := match e with EvD _ (PTmp _ _) => true | _ => false end.

Definition flush_tmp_dtors (cis : list cinfo) (ep : nat) (bs : list (nat * list acmd)) : list event :=
  flat_map (fun x => tmp_dtor_events cis (ep * 64 + fst x) (snd x)) bs.

Lemma arch_ev_not_tmp_dtor e : arch_ev e -> is_tmp_dtor e = false.
Proof. destruct e as [? p|? p|? p ?|? p ?|? p ?|? p|? p ?|? p ?]; try reflexivity. destruct p; simpl; [reflexivity|contradiction]. Qed.

Lemma tmp_dtor_events_all cis k b : filter is_tmp_dtor (tmp_dtor_events cis k b) = tmp_dtor_events cis k b.
Proof.
  apply forallb_filter_id, forallb_forall. intros e He. unfold tmp_dtor_events in He. apply in_flat_map in He.
  destruct He as (c & _ & He). destruct c; try contradiction. unfold on_info in He.
  destruct (nth_error cis c); [|contradiction]. destruct (_ && _); [|contradiction]. destruct He as [<-|[]]. reflexivity.
Qed.

Lemma fold_apply_storage_spec : forall l s s', fold_res apply_storage l s = Ok s' ->
  cinfos s' = cinfos s /\ epoch s' = epoch s /\ bufs s' = bufs s /\ tmps s' = tmps s /\
  exists evs, log s' = rev evs ++ log s /\ filter is_tmp_dtor evs = flush_tmp_dtors (cinfos s) (epoch s) l.
Proof.
  induction l as [|[tid b] l IH]; intros s s' H; simpl in H.
  - inversion H. repeat split. exists []. split; reflexivity.
  - bind_inv H s1 H1. apply apply_storage_spec in H1. destruct H1 as (A1 & A2 & A3 & A4 & pk & Hpk & A5).
    apply IH in H. destruct H as (B1 & B2 & B3 & B4 & evs & B5 & B6).
    repeat split; try congruence.
    exists ((rev pk ++ tmp_dtor_events (cinfos s) (epoch s * 64 + tid) b) ++ evs). split.
    + rewrite B5, A5, !rev_app_distr, rev_involutive, <- !app_assoc. reflexivity.
    + rewrite !filter_app, B6, A1, A2, tmp_dtor_events_all. simpl.
      rewrite filter_none; [reflexivity|]. intros e He. apply arch_ev_not_tmp_dtor.
      apply in_rev in He. rewrite Forall_forall in Hpk. apply Hpk. exact He.
Qed.

(* flush (the outermost unlock): all buffers and temporaries are emptied, the epoch advances, and the destructor
   events at temporaries are exactly those of the final passes, buffer after buffer in thread order *)
Lemma flush_spec s s' : flush s = Ok s' ->
  bufs s' = map (fun _ => []) (bufs s) /\ tmps s' = map (fun _ => []) (tmps s) /\
  epoch s' = S (epoch s) /\ cinfos s' = cinfos s /\
  exists evs, log s' = rev evs ++ log s /\
    filter is_tmp_dtor evs = flush_tmp_dtors (cinfos s) (epoch s) (combine (seq 0 (length (bufs s))) (bufs s)).
Proof.
  unfold flush. intros H. bind_inv H s1 Hf. apply fold_apply_storage_spec in Hf.
  destruct Hf as (A1 & A2 & A3 & A4 & evs & A5 & A6). inversion H; subst s'; clear H. simpl.
  rewrite A1, A2, A3, A4. repeat split. exists evs. split; assumption.
Qed.

(* ---- every parked temporary is destroyed exactly once ---- *)
Definition assign_nums (b : list acmd) : list nat :=
  flat_map (fun c => match c with AAssign _ _ n => [n] | _ => [] end) b.

Lemma tmp_dtor_other_k cis k k' n b : k' <> k -> filter (is_dtor_at (PTmp k n)) (tmp_dtor_events cis k' b) = [].
Proof.
  intros Hk. apply filter_none. intros e He. unfold tmp_dtor_events in He. apply in_flat_map in He.
  destruct He as (c & _ & He). destruct c; try contradiction. unfold on_info in He.
  destruct (nth_error cis c); [|contradiction]. destruct (_ && _); [|contradiction]. destruct He as [<-|[]].
  simpl. apply Nat.eqb_neq in Hk. rewrite Hk. reflexivity.
Qed.

Lemma tmp_dtor_none cis k n b : ~ In n (assign_nums b) -> filter (is_dtor_at (PTmp k n)) (tmp_dtor_events cis k b) = [].
Proof.
  intros Hn. apply filter_none. intros e He. unfold tmp_dtor_events in He. apply in_flat_map in He.
  destruct He as (c & Hc & He). destruct c as [| | | |h' c' n']; try contradiction. unfold on_info in He.
  destruct (nth_error cis c'); [|contradiction]. destruct (_ && _); [|contradiction]. destruct He as [<-|[]].
  simpl. destruct (Nat.eqb_spec n' n) as [->|]; [|apply andb_false_r].
  exfalso. apply Hn. unfold assign_nums. apply in_flat_map. exists (AAssign h' c' n). split; [assumption|left; reflexivity].
Qed.

Lemma tmp_dtor_once cis k b h cid n inf :
  NoDup (assign_nums b) -> In (AAssign h cid n) b -> nth_error cis cid = Some inf ->
  filter (is_dtor_at (PTmp k n)) (tmp_dtor_events cis k b) =
  if ci_destroy inf && ci_ev inf then [EvD (ci_pal inf) (PTmp k n)] else [].
Proof.
  intros Hnd Hin Hi. induction b as [|c b IH]; [contradiction|].
  unfold tmp_dtor_events. cbn [flat_map]. fold (tmp_dtor_events cis k b).
  rewrite filter_app. destruct Hin as [->|Hin].
  - simpl in Hnd. inversion Hnd as [|? ? Hni Hnd']; subst. rewrite (tmp_dtor_none _ _ _ _ Hni), app_nil_r.
    unfold on_info. rewrite Hi. destruct (_ && _); [|reflexivity]. simpl. rewrite !Nat.eqb_refl. reflexivity.
  - assert (Hn : In n (assign_nums b)).
    { unfold assign_nums. apply in_flat_map. exists (AAssign h cid n). split; [assumption|left; reflexivity]. }
    destruct c as [| | | |h' c' n']; simpl in Hnd |- *; try (apply IH; assumption).
    inversion Hnd as [|? ? Hni Hnd']; subst. rewrite (IH Hnd' Hin).
    replace (filter _ _) with (@nil event); [reflexivity|]. symmetry. apply filter_none. intros e He.
    unfold on_info in He. destruct (nth_error cis c') as [i0|]; [|contradiction]. destruct (ci_destroy i0 && ci_ev i0); [|contradiction].
    destruct He as [<-|[]]. simpl. destruct (Nat.eqb_spec n' n) as [->|]; [contradiction|apply andb_false_r].
Qed.

Lemma in_combine_seq {A} (l : list A) : forall k i x,
  In (i, x) (combine (seq k (length l)) l) <-> k <= i /\ nth_error l (i - k) = Some x.
Proof.
  induction l as [|a l IH]; intros k i x; simpl.
  - split; [intros []|]. intros (_ & H). destruct (i - k); discriminate.
  - rewrite IH. split.
    + intros [E|(Hle & Hn)]; [inversion E; subst; rewrite Nat.sub_diag; split; [lia|reflexivity]|].
      split; [lia|]. replace (i - k) with (S (i - S k)) by lia. exact Hn.
    + intros (Hle & Hn). destruct (Nat.eq_dec k i) as [->|Hne].
      * rewrite Nat.sub_diag in Hn. simpl in Hn. inversion Hn. left; reflexivity.
      * right. split; [lia|]. replace (i - k) with (S (i - S k)) in Hn by lia. exact Hn.
Qed.

Lemma combine_seq_NoDup {A} (l : list A) k : NoDup (combine (seq k (length l)) l).
Proof.
  revert k. induction l as [|a l IH]; intros k; simpl; constructor; [|apply IH].
  intros Hin. apply in_combine_seq in Hin. lia.
Qed.

(* in the events of a flush, the destructor events at temporary n of buffer tid *)
Lemma flush_tmp_dtors_once cis ep bs tid b h cid n inf :
  nth_error bs tid = Some b -> NoDup (assign_nums b) -> In (AAssign h cid n) b -> nth_error cis cid = Some inf ->
  filter (is_dtor_at (PTmp (ep * 64 + tid) n)) (flush_tmp_dtors cis ep (combine (seq 0 (length bs)) bs)) =
  if ci_destroy inf && ci_ev inf then [EvD (ci_pal inf) (PTmp (ep * 64 + tid) n)] else [].
Proof.
  intros Hb Hnd Hin Hi. unfold flush_tmp_dtors.
  rewrite (filter_flat_map_once _ _ _ (tid, b)).
  - simpl. eapply tmp_dtor_once; eassumption.
  - apply combine_seq_NoDup.
  - apply in_combine_seq. rewrite Nat.sub_0_r. split; [lia|assumption].
  - intros [i x] Hne Hx. apply in_combine_seq in Hx. rewrite Nat.sub_0_r in Hx. destruct Hx as (_ & Hx). simpl.
    apply tmp_dtor_other_k. intros E. assert (i = tid) by lia. subst i. rewrite Hb in Hx. inversion Hx; subst. congruence.
Qed.

Lemma filter_filter_sub {A} (p q : A -> bool) l : (forall x, p x = true -> q x = true) -> filter p (filter q l) = filter p l.
Proof.
  intros H. induction l as [|a l IH]; simpl; [reflexivity|]. destruct (q a) eqn:Eq; simpl; [rewrite IH; reflexivity|].
  destruct (p a) eqn:Ep; [apply H in Ep; congruence|exact IH].
Qed.

Lemma is_dtor_at_tmp k n e : is_dtor_at (PTmp k n) e = true -> is_tmp_dtor e = true.
Proof. destruct e as [? p|? p|? p ?|? p ?|? p ?|? p|? p ?|? p ?]; try discriminate. destruct p; [discriminate|reflexivity]. Qed.

(* HEADLINE (part 1): a temporary parked in buffer tid (by a command AAssign h cid n recorded in it) is destroyed
   exactly once by the flush of that buffer when its type has a logging destroy function, and never otherwise --
   regardless of what happened to the entity it was meant for *)
Theorem flush_destroys_temporary_once s s' tid b h cid n inf :
  flush s = Ok s' ->
  nth_error (bufs s) tid = Some b -> NoDup (assign_nums b) -> In (AAssign h cid n) b -> nth_error (cinfos s) cid = Some inf ->
  exists evs, log s' = rev evs ++ log s /\
    filter (is_dtor_at (PTmp (epoch s * 64 + tid) n)) evs =
    if ci_destroy inf && ci_ev inf then [EvD (ci_pal inf) (PTmp (epoch s * 64 + tid) n)] else [].
Proof.
  intros Hf Hb Hnd Hin Hi. apply flush_spec in Hf. destruct Hf as (_ & _ & _ & _ & evs & Hl & Hd).
  exists evs. split; [assumption|].
  rewrite <- (filter_filter_sub _ is_tmp_dtor) by apply is_dtor_at_tmp. rewrite Hd.
  eapply flush_tmp_dtors_once; eassumption.
Qed.

(* ---- the numbering invariant of buffers: the assign commands of buffer tid refer to temporaries 0, 1, 2, ...
   of that buffer, one each.  It holds initially, is kept by every recording primitive and by lock, and is
   re-established by flush. ---- *)
Definition tmps_wf (s : mst) : Prop :=
  Forall2 (fun b tl => assign_nums b = seq 0 (length tl)) (bufs s) (tmps s).

Lemma Forall2_nth_error {A B} (R : A -> B -> Prop) l1 l2 i a b :
  Forall2 R l1 l2 -> nth_error l1 i = Some a -> nth_error l2 i = Some b -> R a b.
Proof.
  intros H. revert i. induction H as [|x y l1 l2 Hxy H IH]; intros [|i] Ha Hb; simpl in *; try discriminate.
  - inversion Ha; inversion Hb; subst; assumption.
  - eapply IH; eassumption.
Qed.

Lemma Forall2_upd {A B} (R : A -> B -> Prop) l1 l2 i a b :
  Forall2 R l1 l2 -> R a b -> Forall2 R (upd l1 i a) (upd l2 i b).
Proof.
  intros H Hab. revert i. induction H as [|x y l1 l2 Hxy H IH]; intros [|i]; simpl; constructor; auto.
Qed.

Lemma Forall2_upd_l {A B} (R : A -> B -> Prop) l1 l2 i a :
  Forall2 R l1 l2 -> (forall b, nth_error l2 i = Some b -> R a b) -> Forall2 R (upd l1 i a) l2.
Proof.
  intros H. revert i. induction H as [|x y l1 l2 Hxy H IH]; intros [|i] Hab; simpl; constructor; auto.
Qed.

Lemma Forall2_upd_r {A B} (R : A -> B -> Prop) l1 l2 i b :
  Forall2 R l1 l2 -> (forall a, nth_error l1 i = Some a -> R a b) -> Forall2 R l1 (upd l2 i b).
Proof.
  intros H. revert i. induction H as [|x y l1 l2 Hxy H IH]; intros [|i] Hab; simpl; constructor; auto.
Qed.

Lemma Forall2_length {A B} (R : A -> B -> Prop) l1 l2 : Forall2 R l1 l2 -> length l1 = length l2.
Proof. induction 1; simpl; congruence. Qed.

Lemma Forall2_resize {A B} (R : A -> B -> Prop) l1 l2 n d1 d2 :
  Forall2 R l1 l2 -> R d1 d2 -> Forall2 R (resize l1 n d1) (resize l2 n d2).
Proof.
  intros H Hd. unfold resize. rewrite (Forall2_length _ _ _ H). apply Forall2_app.
  - clear Hd. revert n. induction H; intros [|n]; simpl; constructor; auto.
  - induction (n - length l2); simpl; constructor; auto.
Qed.

Lemma assign_nums_app b c : assign_nums (b ++ c) = assign_nums b ++ assign_nums c.
Proof. unfold assign_nums. apply flat_map_app. Qed.

Lemma tmps_wf_nodup s tid b : tmps_wf s -> nth_error (bufs s) tid = Some b -> NoDup (assign_nums b).
Proof.
  intros Hwf Hb. assert (Hlt : tid < length (tmps s)).
  { rewrite <- (Forall2_length _ _ _ Hwf). apply nth_error_Some. congruence. }
  destruct (nth_error (tmps s) tid) as [tl|] eqn:Et; [|apply nth_error_None in Et; lia].
  rewrite (Forall2_nth_error _ _ _ _ _ _ Hwf Hb Et). apply seq_NoDup.
Qed.

Lemma tmps_wf_init n cis : tmps_wf (init n cis).
Proof. constructor. Qed.

Lemma tmps_wf_assign_locked s tid h c sk s' n : tmps_wf s -> assign_locked s tid h c sk = Ok (s', n) -> tmps_wf s'.
Proof.
  intros Hwf H. apply assign_locked_spec in H.
  destruct H as (inf & tl & b & _ & Htl & Hb & -> & Et & Eb & _). unfold tmps_wf. rewrite Et, Eb.
  apply Forall2_upd; [assumption|]. rewrite assign_nums_app, app_length, (Forall2_nth_error _ _ _ _ _ _ Hwf Hb Htl).
  simpl. rewrite Nat.add_1_r, seq_S. reflexivity.
Qed.

Lemma tmps_wf_push_cmd s tid c s' :
  (match c with AAssign _ _ _ => False | _ => True end) -> tmps_wf s -> push_cmd s tid c = Ok s' -> tmps_wf s'.
Proof.
  intros Hc Hwf H. apply push_cmd_ok in H. destruct H as (b & Hb & ->). unfold tmps_wf. simpl.
  apply Forall2_upd_l; [assumption|]. intros tl Htl. rewrite assign_nums_app, (Forall2_nth_error _ _ _ _ _ _ Hwf Hb Htl).
  destruct c; try contradiction; apply app_nil_r.
Qed.

Lemma tmps_wf_write_tmp s tid n v s' : tmps_wf s -> write_tmp s tid n v = Ok s' -> tmps_wf s'.
Proof.
  intros Hwf H. unfold write_tmp in H. bind_inv H tl0 Htl. apply nth_res_ok in Htl. bind_inv H tl1 Hu.
  apply upd_res_ok in Hu. destruct Hu as (_ & ->). inversion H; subst s'. unfold tmps_wf. simpl.
  apply Forall2_upd_r; [assumption|]. intros b Hb. rewrite upd_length. exact (Forall2_nth_error _ _ _ _ _ _ Hwf Hb Htl).
Qed.

Lemma tmps_wf_do_lock s : tmps_wf s -> tmps_wf (do_lock s).
Proof.
  intros Hwf. unfold do_lock. destruct (lockc s); [|exact Hwf]. unfold tmps_wf. simpl.
  apply Forall2_resize; [assumption|reflexivity].
Qed.

Lemma tmps_wf_flush s s' : tmps_wf s -> flush s = Ok s' -> tmps_wf s'.
Proof.
  intros Hwf H. apply flush_spec in H. destruct H as (Eb & Et & _). unfold tmps_wf in *. rewrite Eb, Et.
  clear Eb Et. induction Hwf; simpl; constructor; try reflexivity; assumption.
Qed.

Theorem flush_destroys_temporary_once_wf s s' tid b h cid n inf :
  tmps_wf s -> flush s = Ok s' ->
  nth_error (bufs s) tid = Some b -> In (AAssign h cid n) b -> nth_error (cinfos s) cid = Some inf ->
  exists evs, log s' = rev evs ++ log s /\
    filter (is_dtor_at (PTmp (epoch s * 64 + tid) n)) evs =
    if ci_destroy inf && ci_ev inf then [EvD (ci_pal inf) (PTmp (epoch s * 64 + tid) n)] else [].
Proof.
  intros Hwf Hf Hb Hin Hi. eapply flush_destroys_temporary_once; try eassumption. eapply tmps_wf_nodup; eassumption.
Qed.

(* (part 2) places of temporaries of different lock periods never coincide (at most 64 threads) *)
Lemma tmp_places_distinct ep ep' tid tid' n n' :
  tid < 64 -> tid' < 64 -> ep <> ep' -> PTmp (ep * 64 + tid) n <> PTmp (ep' * 64 + tid') n'.
Proof. intros H1 H2 Hne E. inversion E. lia. Qed.

Lemma tmp_places_distinct_tid ep tid tid' n n' : tid <> tid' -> PTmp (ep * 64 + tid) n <> PTmp (ep * 64 + tid') n'.
Proof. intros Hne E. inversion E. lia. Qed.

(* ------------------------------------------------------------------------------------------ *)
(* external_move: which slots the events mention                                               *)
Definition ev_places (e : event) : list place :=
  match e with
  | EvC _ p | EvV _ p | EvD _ p | EvAA _ p _ | EvBR _ p _ => [p]
  | EvCP _ d s | EvMC _ d s | EvMA _ d s => [d; s]
  end.
(* every place the event mentions is a cell of one of the listed (archetype, slot) pairs *)
Definition only_slots (al : list (nat * nat)) (e : event) : Prop :=
  forall p, In p (ev_places e) -> match p with PArch a _ i => In (a, i) al | PTmp _ _ => False end.

Ltac ev_tac leaf := repeat match goal with
  | |- Forall _ (_ ++ _) => apply Forall_app; split
  | |- Forall _ (flat_map _ _) => apply Forall_flat_map, Forall_forall; intros ? _
  | |- Forall _ (on_info _ _ _) => unfold on_info
  | |- Forall _ (match ?x with _ => _ end) => destruct x
  | |- Forall _ [] => constructor
  | |- Forall _ (_ :: _) => constructor; [leaf|]
  end.

Lemma external_move_events_slots cis ai idx prev pidx last h skip pm am pent :
  Forall (only_slots [(ai, idx); (prev, pidx); (prev, last)])
    (move_events cis ai idx prev pidx h skip pm (mitems am) ++
     br_events cis prev pidx pent (minter pm (minverse am)) (mitems pm) ++
     vacate_events cis prev pidx last pm).
Proof.
  unfold move_events, br_events, vacate_events, cd_events, dtor_events, ma_events.
  destruct (Nat.eqb_spec pidx last) as [->|_];
  ev_tac ltac:(intros p Hp; simpl in Hp; repeat (destruct Hp as [<-|Hp]); try contradiction; simpl; auto).
Qed.

(* ------------------------------------------------------------------------------------------ *)
(* ~World (OTeardown): every archetype is cleared, then every command buffer destroys its parked temporaries *)
Lemma teardown_spec s s' r : step s OTeardown = Ok (s', r) ->
  log s' = rev (flush_tmp_dtors (cinfos s) (epoch s) (combine (seq 0 (length (bufs s))) (bufs s))) ++
           rev (flat_map (arch_clear_events (cinfos s) (archs s)) (seq 0 (length (archs s)))) ++ log s.
Proof.
  unfold step. intros H. bind_inv H s1 H1. bind_inv H s2 H2. inversion H; subst s2 r; clear H.
  apply (fold_clear_tr _ clear_archetype_tr) in H1; [|apply seq_NoDup].
  destruct H1 as (A1 & A2 & A3 & _ & _ & A6 & A7).
  apply (fold_tr [] _ (fun st x => tmp_dtor_events (cinfos st) (epoch st * 64 + fst x) (snd x))) in H2.
  - destruct H2 as (_ & _ & B3 & _). rewrite B3, A3, A1, A2, A6. reflexivity.
  - intros st [tid b] st' Hb. apply tmp_pass_tr in Hb. exact Hb.
  - intros st st' e x (E1 & E2 & _). rewrite E1, E2. reflexivity.
Qed.

(* ------------------------------------------------------------------------------------------ *)
(* the statements in log form, as used by Properties_C03                                        *)
Lemma tr_log t e s s' : tr t e s s' -> log s' = rev e ++ log s.
Proof. intros (_ & _ & H & _). exact H. Qed.

Lemma call_destructor_events s ai slot s' : call_destructor s ai slot = Ok s' ->
  exists a, nth_error (archs s) ai = Some a /\
    log s' = rev (dtor_events (cinfos s) ai slot (mitems (am_mask a))) ++ log s.
Proof. intros H. apply call_destructor_tr in H. destruct H as (a & Ha & T). exists a. split; [assumption|eapply tr_log; exact T]. Qed.

Lemma arch_clear_events_log s ai s' : arch_clear s ai = Ok s' ->
  exists a, nth_error (archs s) ai = Some a /\ log s' = rev (clear_events (cinfos s) ai a) ++ log s.
Proof. intros H. apply arch_clear_tr in H. destruct H as (a & Ha & T). exists a. split; [assumption|eapply tr_log; exact T]. Qed.

Lemma clear_archetype_events_log s ai s' : clear_archetype s ai = Ok s' ->
  exists a, nth_error (archs s) ai = Some a /\ log s' = rev (clear_events (cinfos s) ai a) ++ log s.
Proof. intros H. apply clear_archetype_tr in H. destruct H as (a & Ha & T). exists a. split; [assumption|eapply tr_log; exact T]. Qed.

Lemma clear_all_events_log s s' : clear_all s = Ok s' ->
  log s' = rev (flat_map (arch_clear_events (cinfos s) (archs s)) (seq 0 (length (archs s)))) ++ log s.
Proof. intros H. apply clear_all_tr in H. eapply tr_log; exact H. Qed.

Lemma internal_move_events_log s ai src dst s' : internal_move s ai src dst = Ok s' ->
  exists a, nth_error (archs s) ai = Some a /\
    log s' = rev (ma_events (cinfos s) ai src dst (mitems (am_mask a)) ++
                  dtor_events (cinfos s) ai src (mitems (am_mask a))) ++ log s.
Proof. intros H. apply internal_move_tr in H. destruct H as (a & Ha & T). exists a. split; [assumption|eapply tr_log; exact T]. Qed.

Lemma arch_remove_events_log s ai idx h skip s' : arch_remove s ai idx h skip = Ok s' ->
  exists a last, nth_error (archs s) ai = Some a /\ am_size a = S last /\
    log s' = rev (br_events (cinfos s) ai idx (br_ent (cinfos s) a idx h) (minter (am_mask a) (minverse skip)) (mitems (am_mask a)) ++
                  vacate_events (cinfos s) ai idx last (am_mask a)) ++ log s.
Proof.
  intros H. apply arch_remove_tr in H. destruct H as (a & last & Ha & Hs & T). exists a, last.
  split; [assumption|]. split; [assumption|eapply tr_log; exact T].
Qed.

Lemma external_move_events_log s ai h prev pidx skip s' : external_move s ai h prev pidx skip = Ok s' ->
  exists a pa last pent, ai <> prev /\ nth_error (archs s) ai = Some a /\ nth_error (archs s) prev = Some pa /\
    am_size pa = S last /\ nth_error (am_ents pa) pidx = Some pent /\
    log s' = rev (move_events (cinfos s) ai (length (am_ents a)) prev pidx h skip (am_mask pa) (mitems (am_mask a)) ++
                  br_events (cinfos s) prev pidx pent (minter (am_mask pa) (minverse (am_mask a))) (mitems (am_mask pa)) ++
                  vacate_events (cinfos s) prev pidx last (am_mask pa)) ++ log s /\
    (forall i, i <> ai -> i <> prev -> nth_error (archs s') i = nth_error (archs s) i).
Proof.
  intros H. apply external_move_tr in H. destruct H as (a & pa & last & pent & H1 & H2 & H3 & H4 & H5 & T).
  exists a, pa, last, pent. repeat (split; [assumption|]). split; [eapply tr_log; exact T|].
  intros i Hi1 Hi2. eapply tr_frame_at; [exact T|]. intros [E|[E|[]]]; congruence.
Qed.

(* applyCommandPack never constructs or destroys a temporary *)
Lemma apply_pack_no_tmp_lifecycle tid s p s' : apply_pack tid s p = Ok s' ->
  exists evs, log s' = evs ++ log s /\
    forall pal k n, ~ In (EvD pal (PTmp k n)) evs /\ ~ In (EvC pal (PTmp k n)) evs /\ ~ In (EvV pal (PTmp k n)) evs.
Proof.
  intros H. apply apply_pack_emits in H. destruct H as (_ & _ & _ & _ & evs & Hl & HF). exists evs. split; [assumption|].
  rewrite Forall_forall in HF. intros pal k n. repeat split; intros Hin; apply HF in Hin; exact Hin.
Qed.
