(* C03, history level, scripts with lock / unlock sections that are FLUSHED.
   Alphabet: ManagerLockedMain.alphaL_b (creation, destroyNow, destroy, assign, removeComponent, write through
   getComponent, update, lock, unlock) -- the alphabet of C05_locked_refines_on.
   Invariant HL = the refinement relation LR of the locked alphabet (ManagerLocked.v) + "the log is empty" + the buffer
   numbering invariant + "the history so far is accepted by the bracket checker and the checker's live set is
       the occupied cells of tracked components  +  the parked temporaries of tracked types (LifecycleLocked.tmp_live)".
   The step lemma takes the unlocked operations from LifecycleHist.LStep, the recording operations from
   LifecycleLocked.LK_step and the flush from LifecycleFlushPack.P_flush.
   Besides the hypotheses of C05_locked_refines_on the theorems need `ra_script`: at every flushing unlock no pack of
   the recorded buffers removes a component and assigns it afterwards (LifecycleFlushLang.ra_ok; Properties_C03 shows
   by counterexamples that x_viol = 0 does not exclude this and that the implementation then move-constructs over a
   live instance). *)
Require Import Coq.Lists.List Coq.NArith.NArith Coq.ZArith.ZArith Coq.Arith.Arith Coq.Bool.Bool Coq.micromega.Lia.
From Mustache Require Import Res Manager MgrSpec Refine.
From Mustache Require Skeleton.
From Mustache Require Import SkelSpec.
From Mustache.proofs Require Import ListLemmas SkelBasics SkelInv SkelSteps SkelRefine SkelLocked SkelFlush SkelMove SkelMoveRem SkelMain ClosureProofs
  ManagerBasics ManagerMoves ManagerProj ManagerInv ManagerMain ManagerLInv ManagerPack ManagerFlush ManagerLocked ManagerLockedMain
  LifecycleProofs LifecycleLang LifecycleHist LifecycleLocked LifecycleFlushLang LifecycleFlushPack.
From Mustache.proofs Require ManagerDeferred ManagerIsolation.
Import ListNotations.

(* ------------------------------------------------------------------------------------------ *)
(* the live set between operations: occupied tracked cells + parked temporaries *)
Lemma LS_parked_ext cis s s' L : archs s' = archs s -> bufs s' = bufs s -> epoch s' = epoch s ->
  LS cis s (parked cis s) L -> LS cis s' (parked cis s') L.
Proof.
  intros Ea Eb Ee HL. apply (LS_archs cis s); [exact Ea|]. eapply LS_T_ext; [|exact HL].
  intros p _. unfold parked, tmp_live. rewrite Eb, Ee. tauto.
Qed.

Lemma parked_nil cis s p : Forall (fun b => b = []) (bufs s) -> ~ parked cis s p.
Proof.
  intros Hn (k & n & _ & tid & b & h & cid & _ & Hb & Hin & _). apply nth_error_In in Hb.
  rewrite (proj1 (Forall_forall _ _) Hn b Hb) in Hin. contradiction.
Qed.

Lemma LS_nil_iff cis s L : Forall (fun b => b = []) (bufs s) ->
  (LS cis s (parked cis s) L <-> forall p, In p L <-> aplace cis (archs s) p).
Proof.
  intros Hn. split.
  - intros (A & B) p. destruct (is_parch p) eqn:E; [apply A; exact E|]. rewrite (B p E). split.
    + intros Hp. exfalso. exact (parked_nil cis s p Hn Hp).
    + intros Hp. apply aplace_parch in Hp. congruence.
  - intros H. split; [intros p _; apply H|]. intros p Hp. rewrite H. split.
    + intros Ha. apply aplace_parch in Ha. congruence.
    + intros Ha. exfalso. exact (parked_nil cis s p Hn Ha).
Qed.

Lemma LS_LK cis s L : lockc s <> 0 -> log s = [] -> cinfos s = cis -> Forall awf (archs s) -> tmps_wf s ->
  LS cis s (parked cis s) L -> LK cis s L.
Proof.
  intros H1 H2 H3 H4 H5 (A & B). constructor; try assumption.
  - intros a c i. apply (A (PArch a c i) eq_refl).
  - intros k n. rewrite (B (PTmp k n) eq_refl). unfold parked. split; [intros (k' & n' & E & Ht); inversion E; subst; exact Ht|eauto].
Qed.

Lemma LK_LS cis s L : LK cis s L -> LS cis s (parked cis s) L.
Proof.
  intros [_ _ _ _ _ A B]. split.
  - intros p Hp. destruct p as [a c i|]; [apply A|discriminate].
  - intros p Hp. destruct p as [|k n]; [discriminate|]. rewrite B. unfold parked. split; [eauto|intros (k' & n' & E & Ht); inversion E; subst; exact Ht].
Qed.

(* what one operation does to the checker: its events (the whole log, which was empty before) are accepted, the live
   set afterwards is the one of the new state, the buffers stay numbered *)
Definition spost (cis : list cinfo) (s1 : mst) (L : list place) : Prop :=
  exists L', lc_run (destroy_pals cis) L (rev (log s1)) = Some L' /\ LS cis s1 (parked cis s1) L' /\ tmps_wf s1.

Lemma spost_of_post cis s s1 L T : log s = [] -> post cis s s1 T L -> (forall p, is_parch p = false -> (T p <-> parked cis s1 p)) ->
  tmps_wf s1 -> spost cis s1 L.
Proof.
  intros Hlog (evs & L' & G & R & HL') HT Hwf. exists L'. rewrite G, Hlog, app_nil_r, rev_involutive. split; [exact R|]. split; [|exact Hwf].
  eapply LS_T_ext; eassumption.
Qed.

Lemma spost_silent cis s s1 L : log s1 = [] -> (forall p, aplace cis (archs s1) p <-> aplace cis (archs s) p) ->
  bufs s1 = bufs s -> epoch s1 = epoch s -> tmps_wf s1 -> LS cis s (parked cis s) L -> spost cis s1 L.
Proof.
  intros Hlog Ha Eb Ee Hwf HL. exists L. rewrite Hlog. split; [reflexivity|]. split; [|exact Hwf].
  apply (LS_shape cis s); [exact Ha|]. eapply LS_T_ext; [|exact HL]. intros p _. unfold parked, tmp_live. rewrite Eb, Ee. tauto.
Qed.

(* ------------------------------------------------------------------------------------------ *)
(* the operations of the unlocked alphabet of C02, while unlocked *)
Lemma spost_c02 cis typed s hs x o s1 out L :
  LR cis s hs x -> x_lock x = 0 -> log s = [] -> tmps_wf s -> lc_cis_ok cis -> alpha_b cis o = true ->
  x_viol x = 0 -> x_viol (x_step x o) = 0 -> step s (concretize typed hs o) = Ok (s1, out) ->
  LS cis s (parked cis s) L -> spost cis s1 L.
Proof.
  intros HR Hl Hlog Hwf Hlok Ha Hv0 Hv1 Hst HL. destruct (LR_MInv _ _ _ _ HR Hl) as (al & HM).
  pose proof (lr_unl_m _ _ _ _ HR Hl) as Hnil.
  destruct (LStep cis typed s hs al x o s1 out L HM Hlok Ha Hv0 Hv1 Hst (proj1 (LS_nil_iff cis s L Hnil) HL)) as (evs & L' & Hlg & Hbf & Htm & Hr & HL').
  exists L'. rewrite Hlg, Hlog, app_nil_r, rev_involutive. split; [exact Hr|]. split; [|eapply tmps_wf_ext; eassumption].
  apply LS_nil_iff; [rewrite Hbf; exact Hnil|exact HL'].
Qed.

(* a write through getComponent<T>(): immediate in any lock state, no lifecycle event *)
Lemma getmut_silent cis s h c w s' out : step s (OGetMut h c w) = Ok (s', out) ->
  log s' = log s /\ bufs s' = bufs s /\ tmps s' = tmps s /\ epoch s' = epoch s /\ forall p, aplace cis (archs s') p <-> aplace cis (archs s) p.
Proof.
  intros H. rewrite step_getmut in H.
  assert (Hsame : log s = log s /\ bufs s = bufs s /\ tmps s = tmps s /\ epoch s = epoch s /\ forall p, aplace cis (archs s) p <-> aplace cis (archs s) p) by (repeat split; tauto).
  destruct (negb (is_valid s h)); [inversion H; subst s' out; exact Hsame|].
  bd H l Hloc. destruct (l_arch l) as [ai|]; [|inversion H; subst s' out; exact Hsame].
  bd H a Ha. apply nth_res_ok in Ha. destruct (cindex (am_mask a) c) as [ci|]; [|inversion H; subst s' out; exact Hsame].
  bd H ch Hch. bd H a1 Ha1. apply vs_set_one_ok in Ha1. destruct Ha1 as (g & cv & ->). cbv zeta in H.
  inversion H; subst s' out; clear H. split; [reflexivity|]. split; [reflexivity|]. split; [reflexivity|]. split; [reflexivity|].
  simpl. apply aplace_shape; [apply upd_length|]. intros j a0 Ha0. destruct (Nat.eq_dec j ai) as [->|Hne].
  - rewrite Ha in Ha0. inversion Ha0; subst a0. eexists. split; [apply nth_error_upd_same; apply nth_error_Some; congruence|].
    destruct w; split; reflexivity.
  - exists a0. rewrite nth_error_upd_other by congruence. auto.
Qed.

(* ------------------------------------------------------------------------------------------ *)
(* update(): the entities marked by destroy() are destroyed, one after the other *)
Lemma LS_destroy_list cis hs rem T : lc_cis_ok cis -> within (length hs) -> forall m s al x s' L,
  LInv cis s hs al rem x -> (forall h, In h m -> h = null_handle \/ In h hs) ->
  fold_res destroy_now_unlocked m s = Ok s' -> LS cis s T L -> post cis s s' T L /\ fr4 s' = fr4 s.
Proof.
  intros Hlok Hb. induction m as [|h m IH]; intros s al x s' L HI Hm H HL.
  - simpl in H. inversion H; subst s'. split; [apply post_same; [reflexivity|tauto|exact HL]|reflexivity].
  - simpl in H. bd H s1 Hd. destruct (Hm h (or_introl eq_refl)) as [->|Hin].
    + rewrite destroy_now_null in Hd. inversion Hd; subst s1. apply (IH s al x s' L HI (fun h' Hh' => Hm h' (or_intror Hh')) H HL).
    + destruct (In_hnd _ _ Hin) as (k & Hk & Eh). rewrite <- Eh in Hd.
      destruct (LInv_destroy_now cis s hs al rem x k s1 HI Hb Hk Hd) as (HI1 & F1 & _).
      pose proof (LS_destroy_now cis s hs al rem x k s1 T L Hlok HI Hk Hd HL) as P1.
      split.
      * eapply post_trans; [exact P1|]. intros L1 HL1. apply (IH s1 _ (x_kill x k) s' L1 HI1 (fun h' Hh' => Hm h' (or_intror Hh')) H HL1).
      * destruct P1 as (_ & L1 & _ & _ & HL1). destruct (IH s1 _ (x_kill x k) s' L1 HI1 (fun h' Hh' => Hm h' (or_intror Hh')) H HL1) as (_ & F). congruence.
Qed.

Lemma step_unlock_flush s : lockc s <= 1 -> step s OUnlock = do s2 <- flush (set_lock s 0); Ok (s2, RBool true).
Proof.
  intros Hl. cbn [step]. unfold do_unlock. destruct (lockc s) as [|[|n]]; [| |lia]; cbn [pred lockc set_lock]; destruct (flush (set_lock s 0)); reflexivity.
Qed.

Lemma map_nil_all {A B} (l : list A) : Forall (fun b : list B => b = []) (map (fun _ => []) l).
Proof. induction l; simpl; constructor; auto. Qed.

(* ------------------------------------------------------------------------------------------ *)
(* the invariant and its step *)
Record HL (cis : list cinfo) (s : mst) (hs : list handle) (x : xst) (hist : list event) : Prop := {
  hl_R : LR cis s hs x;
  hl_log : log s = [];
  hl_wf : tmps_wf s;
  hl_hist : exists L, lc_run (destroy_pals cis) [] hist = Some L /\ LS cis s (parked cis s) L
}.

Lemma HL_init n cis : HL cis (init n cis) [] (x_init n cis) [].
Proof.
  constructor; [apply LR_init|reflexivity|apply tmps_wf_init|]. exists []. split; [reflexivity|].
  apply LS_nil_iff; [constructor|]. intros p. split; [intros []|]. destruct p as [ai c i|]; [|intros []]. intros (a & Ha & _). destruct ai; discriminate.
Qed.

(* the decidable contract on the recorded buffers, checked where they are flushed *)
Definition flush_guard (s : mst) (o : xop) : bool :=
  match o with XoUnlock => Nat.ltb 1 (lockc s) || packs_ok s | _ => true end.

Lemma HL_spost cis typed s hs x hist o s1 out L :
  HL cis s hs x hist -> cis_ok cis -> lc_cis_ok cis -> alphaL_b cis o = true -> x_viol x = 0 -> x_viol (x_step x o) = 0 ->
  flush_guard s o = true -> within (length hs) ->
  step s (concretize typed hs o) = Ok (s1, out) -> LS cis s (parked cis s) L -> spost cis s1 L.
Proof.
  intros [HR Hlog Hwf _] Hok Hlok Ha Hv0 Hv1 Hg Hb Hst HL.
  pose proof HR as [(al & HI) Hlk Hn H3 Hux Hum Hcr Hmr He Hcf].
  pose proof HI as [HG Hawf Hdp Hc Hxd Hxc Hcnt Hsl Hal Hv].
  assert (Hve : x_viol (x_step x o) = x_viol x) by congruence.
  (* the write through getComponent<T>() is immediate in any lock state *)
  assert (Hset : forall k c v, o = XoSet k c v -> spost cis s1 L).
  { intros k c v ->. cbn [concretize] in Hst. destruct (getmut_silent cis _ _ _ _ _ _ Hst) as (G & B & Tm & E & P).
    apply (spost_silent cis s); try assumption; [congruence|]. eapply tmps_wf_ext; eassumption. }
  destruct (x_lock x) as [|n] eqn:El.
  - (* not locked *)
    assert (Hl0 : lockc s = 0) by congruence.
    assert (Hc02 : alpha_b cis o = true -> spost cis s1 L) by (intros Ha2; eapply spost_c02; eassumption).
    destruct o; simpl in Ha; try discriminate; try (apply Hc02; exact Ha); cbn [concretize] in Hst.
    + (* destroy: marked for the next update *)
      unfold step in Hst. rewrite Hl0 in Hst. inversion Hst; subst s1 out. apply (spost_silent cis s); try assumption; try reflexivity; tauto.
    + (* update *)
      rewrite step_update_unlocked in Hst by exact Hl0. bd Hst s2 Hfold. inversion Hst; subst s1 out; clear Hst.
      set (s0 := set_wv (inc_wv s) (wv (inc_wv s)) (Some (wv (inc_wv s)))) in *.
      assert (HI0 : LInv cis s0 hs al (xrem (concat (x_bufs x))) x) by (eapply LInv_frame; [| | | | | | |exact HI]; reflexivity).
      destruct Hmr as (M1 & _).
      destruct (LS_destroy_list cis hs _ (parked cis s) Hlok Hb (marked s) s0 al x s2 L HI0 M1 Hfold) as (P & F); [apply (LS_archs cis s); [reflexivity|exact HL]|].
      destruct (fr4_fields _ _ F) as (_ & _ & _ & _ & _ & B2 & T2 & E2 & _).
      destruct P as (evs & L' & G & R & HL'). exists L'. change (log (set_marked s2 [])) with (log s2). rewrite G. change (log s0) with (log s).
      rewrite Hlog, app_nil_r, rev_involutive. split; [exact R|]. split.
      * apply (LS_archs cis s2); [reflexivity|]. eapply LS_T_ext; [|exact HL']. intros p _. unfold parked, tmp_live. simpl. rewrite B2, E2. tauto.
      * eapply (tmps_wf_ext s); [exact B2|exact T2|exact Hwf].
    + (* lock *)
      inversion Hst; subst s1 out. pose proof (Hum eq_refl) as Hnil. unfold do_lock. rewrite Hl0.
      exists L. simpl log. rewrite Hlog. split; [reflexivity|]. split.
      * apply LS_nil_iff; [simpl; apply Forall_resize; auto|]. simpl. apply (LS_nil_iff cis s L Hnil). exact HL.
      * pose proof (tmps_wf_do_lock s Hwf) as W. unfold do_lock in W. rewrite Hl0 in W. exact W.
    + (* unlock of an unlocked manager: a flush of empty buffers *)
      rewrite step_unlock_flush in Hst by lia. bd Hst s2 Hfl. inversion Hst; subst s1 out; clear Hst.
      assert (Hpk : packs_ok s = true) by (simpl in Hg; rewrite Hl0 in Hg; exact Hg).
      assert (Ex : x_step x XoUnlock = x_flush (xw_lock x 0)).
      { unfold x_step. simpl out_of_contract. cbv iota. unfold x_step_in. rewrite El. reflexivity. }
      rewrite Ex in Hve.
      pose proof (P_flush cis s hs x s2 L HR Hok Hlok Hb Hve Hwf Hpk Hfl HL) as P.
      destruct (flush_spec _ _ Hfl) as (B2 & _).
      apply (spost_of_post cis s s2 L (fun _ => False) Hlog P).
      * intros p _. split; [intros []|]. apply parked_nil. rewrite B2. apply map_nil_all.
      * apply (tmps_wf_flush (set_lock s 0)); [exact Hwf|exact Hfl].
  - (* locked *)
    assert (Hl1 : lockc s = S n) by congruence.
    assert (HK : LK cis s L) by (apply LS_LK; try assumption; congruence).
    assert (Hrec : lk_op (concretize typed hs o) = true -> spost cis s1 L).
    { intros Hop. destruct (LK_step cis s L _ s1 out Hlok HK Hop Hst) as (L' & Hr & HK').
      exists L'. split; [exact Hr|]. split; [apply (LS_parked_ext cis (set_log s1 [])); try reflexivity; apply LK_LS; exact HK'|].
      apply (tmps_wf_ext (set_log s1 [])); [reflexivity|reflexivity|exact (lk_wf _ _ _ HK')]. }
    destruct o; simpl in Ha; try discriminate; try (apply Hrec; reflexivity).
    + (* a creation is recorded *)
      destruct sids; [|discriminate]. cbn [concretize] in Hst.
      unfold step, make_shared_info in Hst. cbn [fold_res] in Hst. rewrite bind_Ok in Hst. cbv beta iota in Hst. rewrite Hl1 in Hst.
      assert (Hcl : forall sg m' sh' s2 h', LK cis sg L -> create_locked sg tid m' sh' = Ok (s2, h') -> spost cis s2 L).
      { intros sg m' sh' s2 h' HKg Hcr'. unfold create_locked in Hcr'. bd Hcr' s3 Hp. inversion Hcr'; subst s3 h'; clear Hcr'.
        assert (HKe : LK cis (set_eid sg (next_eid sg + 1)%N) L) by (apply (LK_frame cis sg); try reflexivity; [exact HKg|exact (lk_lock _ _ _ HKg)|exact (lk_log _ _ _ HKg)]).
        match type of Hp with push_cmd ?st _ ?c = _ => pose proof (LK_push cis st L tid c s2 HKe I Hp) as HK2 end.
        apply push_cmd_ok in Hp. destruct Hp as (b & Hb' & E2).
        assert (G2 : log s2 = []) by (rewrite E2; simpl; exact (lk_log _ _ _ HKg)).
        exists L. rewrite G2. split; [reflexivity|]. split; [apply (LS_parked_ext cis (set_log s2 [])); try reflexivity; apply LK_LS; exact HK2|].
        apply (tmps_wf_ext (set_log s2 [])); [reflexivity|reflexivity|exact (lk_wf _ _ _ HK2)]. }
      destruct via_arch.
      * bd Hst rg Hga. destruct rg as (sg, ai). cbv beta iota in Hst. bd Hst a Ha'. bd Hst r2 Hcr2. destruct r2 as (s2, h').
        inversion Hst; subst s1 out; clear Hst. simpl fst.
        destruct (get_arch_ls cis s m sg ai Hdp Hawf Hga) as (F & G & Hawfg & _ & _ & P).
        destruct (fr4_fields _ _ (fr1_fr4 _ _ F)) as (K1 & _ & C1 & _ & _ & B1 & T1 & E1 & _).
        apply (Hcl sg (am_mask a) (am_shared a) s2 h'); [|exact Hcr2].
        apply LS_LK; try congruence; [eapply tmps_wf_ext; eassumption|].
        apply (LS_shape cis s); [exact P|]. eapply LS_T_ext; [|exact HL]. intros p _. unfold parked, tmp_live. rewrite B1, E1. tauto.
      * bd Hst r2 Hcr2. destruct r2 as (s2, h'). inversion Hst; subst s1 out; clear Hst. simpl fst. apply (Hcl s m si_null s2 h' HK Hcr2).
    + (* update while locked is outside the contract *)
      exfalso. unfold x_step in Hv1. simpl out_of_contract in Hv1. rewrite El in Hv1. simpl in Hv1. lia.
    + (* unlock *)
      cbn [concretize] in Hst. destruct n as [|n].
      * rewrite step_unlock_flush in Hst by lia. bd Hst s2 Hfl. inversion Hst; subst s1 out; clear Hst.
        assert (Hpk : packs_ok s = true) by (simpl in Hg; rewrite Hl1 in Hg; exact Hg).
        assert (Ex : x_step x XoUnlock = x_flush (xw_lock x 0)).
        { unfold x_step. simpl out_of_contract. cbv iota. unfold x_step_in. rewrite El. reflexivity. }
        rewrite Ex in Hve.
        pose proof (P_flush cis s hs x s2 L HR Hok Hlok Hb Hve Hwf Hpk Hfl HL) as P.
        destruct (flush_spec _ _ Hfl) as (B2 & _).
        apply (spost_of_post cis s s2 L (fun _ => False) Hlog P).
        -- intros p _. split; [intros []|]. apply parked_nil. rewrite B2. apply map_nil_all.
        -- apply (tmps_wf_flush (set_lock s 0)); [exact Hwf|exact Hfl].
      * rewrite (ManagerIsolation.nested_unlock_does_not_flush s n Hl1) in Hst. inversion Hst; subst s1 out.
        apply (spost_silent cis s); try assumption; try reflexivity; tauto.
    + eapply Hset. reflexivity.
Qed.

Lemma HL_step cis typed s hs x hist o s' hs' hist' :
  HL cis s hs x hist -> cis_ok cis -> lc_cis_ok cis -> alphaL_b cis o = true -> x_viol x = 0 -> x_viol (x_step x o) = 0 ->
  flush_guard s o = true -> hstep typed (s, hs, hist) o = Ok (s', hs', hist') -> within (length hs') ->
  HL cis s' hs' (x_step x o) hist'.
Proof.
  intros HH Hok Hlok Ha Hv0 Hv1 Hg H Hb. pose proof HH as [HR Hlog Hwf (L & HrL & HL)].
  pose proof (hstep_mstep _ _ _ _ _ _ _ _ H) as Hm.
  pose proof (LR_step cis typed s hs x o s' hs' HR Hok Ha Hv0 Hv1 Hm Hb) as HR'.
  assert (Hb0 : within (length hs)) by (eapply within_le; [eapply mstep_mono; exact Hm|exact Hb]).
  unfold hstep in H. bd H r Hst. destruct r as (s1, out). inversion H; subst s' hs' hist'; clear H.
  destruct (HL_spost cis typed s hs x hist o s1 out L HH Hok Hlok Ha Hv0 Hv1 Hg Hb0 Hst HL) as (L' & Hr & HL' & Hwf').
  constructor; [exact HR'|reflexivity|eapply (tmps_wf_ext s1); [reflexivity|reflexivity|exact Hwf']|].
  exists L'. split; [rewrite lc_run_app, HrL; exact Hr|]. apply (LS_parked_ext cis s1); try reflexivity. exact HL'.
Qed.

(* the contract along a script: checked on the model's buffers at every flushing unlock *)
Fixpoint ra_run (typed : bool) (ops : list xop) (st : mst * list handle) : bool :=
  match ops with
  | [] => true
  | o :: t => flush_guard (fst st) o && match mstep typed st o with Ok st' => ra_run typed t st' | Err _ => true end
  end.
Definition ra_script (typed : bool) (n : nat) (cis : list cinfo) (ops : list xop) : bool := ra_run typed ops (init n cis, []).

Lemma HL_run cis typed : forall ops s hs x hist s' hs' hist',
  HL cis s hs x hist -> cis_ok cis -> lc_cis_ok cis -> forallb (alphaL_b cis) ops = true -> x_viol x = 0 ->
  x_viol (fold_left x_step ops x) = 0 -> ra_run typed ops (s, hs) = true ->
  fold_res (hstep typed) ops (s, hs, hist) = Ok (s', hs', hist') -> within (length hs') ->
  HL cis s' hs' (fold_left x_step ops x) hist'.
Proof.
  induction ops as [|o t IH]; intros s hs x hist s' hs' hist' HH Hok Hlok Ha Hv0 Hv1 Hra H Hb; cbn [fold_res forallb fold_left ra_run fst] in *.
  - inversion H; subst. exact HH.
  - apply andb_true_iff in Ha. destruct Ha as (Ho & Ht). apply andb_true_iff in Hra. destruct Hra as (Hg & Hra).
    bd H r H1. destruct r as ((s1, hs1), hist1).
    assert (Hv1' : x_viol (x_step x o) = 0).
    { pose proof (x_viol_runL_mono cis t (x_step x o) Ht). lia. }
    rewrite (hstep_mstep _ _ _ _ _ _ _ _ H1) in Hra.
    assert (HH1 : HL cis s1 hs1 (x_step x o) hist1).
    { apply (HL_step cis typed s hs x hist o s1 hs1 hist1 HH Hok Hlok Ho Hv0 Hv1' Hg H1). eapply within_le; [|exact Hb]. eapply hfold_mono. exact H. }
    apply (IH s1 hs1 (x_step x o) hist1 s' hs' hist' HH1 Hok Hlok Ht Hv1' Hv1 Hra H Hb).
Qed.

(* ------------------------------------------------------------------------------------------ *)
(* the live cells are the tracked components of the live entities (LifecycleHist.aplace_live for the locked invariant) *)
Lemma aplace_live_l cis s hs al rem x p : LInv cis s hs al rem x -> (aplace cis (archs s) p <-> live_comp_place cis s hs x p).
Proof.
  intros HI. split.
  - destruct p as [ai c i|]; [|intros []]. intros (a & Ha & Hc & Hi & Ht).
    destruct (nth_error (am_ents a) i) as [h|] eqn:Hh; [|apply nth_error_None in Hh; lia].
    destruct (li_vals _ _ _ _ _ _ HI ai a i h Ha Hh) as (k & e & Hk & Eh & Hf & Hvm).
    destruct (members_l _ _ _ _ _ _ _ _ (li_G _ _ _ _ _ _ HI) Ha Hh) as (k' & _ & _ & _ & Hloc).
    exists k, e, c, ai, i. split; [exact Hf|]. split; [apply has_comp_in; destruct Hvm as (Hm & _); rewrite Hm; exact Hc|].
    split; [exact Ht|]. split; [|reflexivity]. change (nth k hs null_handle) with (hnd hs k). rewrite Eh. exact Hloc.
  - intros (k & e & c & ai & i & Hf & Hh & Ht & Hloc & ->).
    assert (Ha : alive al k) by (apply (li_alive _ _ _ _ _ _ HI); apply alive_x_find; congruence).
    destruct (alive_in _ _ Ha) as (key & Hin).
    destruct (live_vmatch_l _ _ _ _ _ _ _ _ HI Hin) as (Hk & e0 & ai' & idx' & a & Hf0 & Hloc' & Harch & _ & Hent & Hvm).
    rewrite Hf in Hf0. inversion Hf0; subst e0.
    change (nth k hs null_handle) with (hnd hs k) in Hloc. rewrite Hloc' in Hloc. inversion Hloc; subst ai' idx'.
    exists a. split; [exact Harch|]. split; [destruct Hvm as (Hm & _); rewrite <- Hm; apply has_comp_in; exact Hh|].
    split; [apply nth_error_Some; congruence|exact Ht].
Qed.

(* ~World at any point: every occupied cell and every parked temporary is destroyed *)
Lemma LS_teardown cis s L s' r : lc_cis_ok cis -> log s = [] -> cinfos s = cis -> Forall awf (archs s) -> tmps_wf s ->
  LS cis s (parked cis s) L -> step s OTeardown = Ok (s', r) ->
  lc_run (destroy_pals cis) L (rev (log s')) = Some [].
Proof.
  intros Hok Hlog Hc Hawf Hwf (HA & HT) H. apply teardown_spec in H.
  rewrite H, Hlog, app_nil_r, rev_app_distr, !rev_involutive, Hc, lc_run_app.
  destruct (run_clear_all cis (archs s) Hok Hawf (seq 0 (length (archs s))) L (seq_NoDup _ _)) as (L1 & Hr1 & HL1).
  { intros ai c i _ Hp. apply (HA (PArch ai c i) eq_refl). exact Hp. }
  rewrite Hr1.
  destruct (run_flush_tmp_dtors cis (epoch s) Hok (combine (seq 0 (length (bufs s))) (bufs s)) L1) as (L2 & Hr2 & HL2).
  - rewrite map_fst_combine_seq. apply seq_NoDup.
  - intros (tid, b) Hx. apply in_combine_seq0 in Hx. simpl. eapply tmps_wf_nodup; eassumption.
  - intros tid b h cid n Hx Hin Ht. apply in_combine_seq0 in Hx. apply HL1. split.
    + apply (HT (PTmp _ n) eq_refl). exists (epoch s * 64 + tid), n. split; [reflexivity|]. exists tid, b, h, cid. auto.
    + intros (ai & c & i & _ & E & _). discriminate.
  - rewrite Hr2. f_equal. destruct L2 as [|p t]; [reflexivity|]. exfalso.
    assert (Hp : In p (p :: t)) by (left; reflexivity). apply HL2 in Hp. destruct Hp as (Hp1 & Hno2). apply HL1 in Hp1.
    destruct Hp1 as (Hp & Hno1). destruct p as [ai c i|k n].
    + apply (HA (PArch ai c i) eq_refl) in Hp. apply Hno1. exists ai, c, i. split; [|split; [reflexivity|exact Hp]].
      destruct Hp as (a & Ha & _). apply in_seq. split; [lia|]. simpl. apply nth_error_Some. congruence.
    + apply (HT (PTmp k n) eq_refl) in Hp. destruct Hp as (k' & n' & E & tid & b & h & cid & Ek & Hb & Hin & Ht). injection E as E1 E2.
      apply Hno2. exists tid, b, h, cid, n'. split; [apply in_combine_seq0; exact Hb|]. split; [exact Hin|]. split; [exact Ht|]. rewrite E1, E2, Ek. reflexivity.
Qed.

(* ------------------------------------------------------------------------------------------ *)
(* the theorems *)
Lemma hrun_HL typed n cis ops s hs hist :
  cis_ok cis -> lc_cis_ok cis -> forallb (alphaL_b cis) ops = true ->
  hrun typed n cis ops = Ok (s, hs, hist) -> x_viol (xrun n cis ops) = 0 -> within (length hs) -> ra_script typed n cis ops = true ->
  HL cis s hs (xrun n cis ops) hist.
Proof.
  intros Hok Hlok Ha Hrun Hviol Hb Hra. unfold hrun in Hrun. unfold xrun in *. unfold ra_script in Hra.
  apply (HL_run cis typed ops _ _ _ _ _ _ _ (HL_init n cis) Hok Hlok Ha eq_refl Hviol Hra Hrun Hb).
Qed.

Theorem history_flush typed n cis ops s hs hist :
  cis_ok cis -> lc_cis_ok cis -> forallb (alphaL_b cis) ops = true ->
  hrun typed n cis ops = Ok (s, hs, hist) -> x_viol (xrun n cis ops) = 0 -> within (length hs) -> ra_script typed n cis ops = true ->
  lc_ok (destroy_pals cis) hist = true /\
  (forall p, In p (lc_live (destroy_pals cis) hist) <-> (live_comp_place cis s hs (xrun n cis ops) p \/ parked cis s p)) /\
  (lockc s = 0 -> forall p, In p (lc_live (destroy_pals cis) hist) <-> live_comp_place cis s hs (xrun n cis ops) p).
Proof.
  intros Hok Hlok Ha Hrun Hviol Hb Hra.
  destruct (hrun_HL typed n cis ops s hs hist Hok Hlok Ha Hrun Hviol Hb Hra) as [HR _ _ (L & Hr & (HA & HT))].
  destruct (lr_inv _ _ _ _ HR) as (al & HI).
  unfold lc_ok, lc_live. rewrite Hr. split; [reflexivity|].
  assert (Hall : forall p, In p L <-> (live_comp_place cis s hs (xrun n cis ops) p \/ parked cis s p)).
  { intros p. rewrite <- (aplace_live_l _ _ _ _ _ _ p HI). destruct (is_parch p) eqn:E.
    - rewrite (HA p E). split; [auto|]. intros [Hp|(k & m & -> & _)]; [exact Hp|discriminate].
    - rewrite (HT p E). split; [auto|]. intros [Hp|Hp]; [apply aplace_parch in Hp; congruence|exact Hp]. }
  split; [exact Hall|]. intros Hl p. rewrite Hall. split; [|auto]. intros [Hp|Hp]; [exact Hp|]. exfalso.
  apply (parked_nil cis s p); [|exact Hp]. apply (lr_unl_m _ _ _ _ HR). rewrite <- (lr_lock _ _ _ _ HR). exact Hl.
Qed.

Theorem history_flush_teardown typed n cis ops s hs hist s' r :
  cis_ok cis -> lc_cis_ok cis -> forallb (alphaL_b cis) ops = true ->
  hrun typed n cis ops = Ok (s, hs, hist) -> x_viol (xrun n cis ops) = 0 -> within (length hs) -> ra_script typed n cis ops = true ->
  step s OTeardown = Ok (s', r) ->
  lc_ok (destroy_pals cis) (hist ++ rev (log s')) = true /\ lc_live (destroy_pals cis) (hist ++ rev (log s')) = [].
Proof.
  intros Hok Hlok Ha Hrun Hviol Hb Hra Htd.
  destruct (hrun_HL typed n cis ops s hs hist Hok Hlok Ha Hrun Hviol Hb Hra) as [HR Hlog Hwf (L & Hr & HL)].
  destruct (lr_inv _ _ _ _ HR) as (al & HI).
  pose proof (LS_teardown cis s L s' r Hlok Hlog (li_cis _ _ _ _ _ _ HI) (li_awf _ _ _ _ _ _ HI) Hwf HL Htd) as Hr3.
  unfold lc_ok, lc_live. rewrite lc_run_app, Hr, Hr3. split; reflexivity.
Qed.

(* ---- at every point of the script: the hypotheses pass to every prefix ---- *)
Lemma ra_run_prefix typed : forall ops1 ops2 st, ra_run typed (ops1 ++ ops2) st = true -> ra_run typed ops1 st = true.
Proof.
  induction ops1 as [|o t IH]; intros ops2 st H; [reflexivity|]. simpl in *. apply andb_true_iff in H. destruct H as (Hg & H).
  rewrite Hg. simpl. destruct (mstep typed st o) as [st'|]; [eapply IH; exact H|reflexivity].
Qed.

Lemma prefix_hyps typed n cis ops1 ops2 s hs hist :
  forallb (alphaL_b cis) (ops1 ++ ops2) = true -> hrun typed n cis (ops1 ++ ops2) = Ok (s, hs, hist) ->
  x_viol (xrun n cis (ops1 ++ ops2)) = 0 -> within (length hs) -> ra_script typed n cis (ops1 ++ ops2) = true ->
  exists s1 hs1 hist1, hrun typed n cis ops1 = Ok (s1, hs1, hist1) /\ forallb (alphaL_b cis) ops1 = true /\
    x_viol (xrun n cis ops1) = 0 /\ within (length hs1) /\ ra_script typed n cis ops1 = true /\
    fold_res (hstep typed) ops2 (s1, hs1, hist1) = Ok (s, hs, hist).
Proof.
  intros Ha Hrun Hviol Hb Hra. rewrite forallb_app in Ha. apply andb_true_iff in Ha. destruct Ha as (Ha1 & Ha2).
  unfold hrun in Hrun. rewrite ManagerDeferred.fold_res_app in Hrun. bd Hrun st1 H1. destruct st1 as ((s1, hs1), hist1).
  exists s1, hs1, hist1. split; [exact H1|]. split; [exact Ha1|]. split; [|split; [|split; [|exact Hrun]]].
  - unfold xrun in *. rewrite fold_left_app in Hviol. pose proof (x_viol_runL_mono cis ops2 (fold_left x_step ops1 (x_init n cis)) Ha2). lia.
  - eapply within_le; [|exact Hb]. eapply hfold_mono. exact Hrun.
  - unfold ra_script in *. eapply ra_run_prefix. exact Hra.
Qed.

Theorem history_flush_every_point typed n cis ops1 ops2 s hs hist :
  cis_ok cis -> lc_cis_ok cis -> forallb (alphaL_b cis) (ops1 ++ ops2) = true ->
  hrun typed n cis (ops1 ++ ops2) = Ok (s, hs, hist) -> x_viol (xrun n cis (ops1 ++ ops2)) = 0 -> within (length hs) ->
  ra_script typed n cis (ops1 ++ ops2) = true ->
  exists s1 hs1 hist1, hrun typed n cis ops1 = Ok (s1, hs1, hist1) /\
    lc_ok (destroy_pals cis) hist1 = true /\
    (forall p, In p (lc_live (destroy_pals cis) hist1) <-> (live_comp_place cis s1 hs1 (xrun n cis ops1) p \/ parked cis s1 p)) /\
    (lockc s1 = 0 -> forall p, In p (lc_live (destroy_pals cis) hist1) <-> live_comp_place cis s1 hs1 (xrun n cis ops1) p) /\
    (forall s' r, step s1 OTeardown = Ok (s', r) ->
       lc_ok (destroy_pals cis) (hist1 ++ rev (log s')) = true /\ lc_live (destroy_pals cis) (hist1 ++ rev (log s')) = []).
Proof.
  intros Hok Hlok Ha Hrun Hviol Hb Hra.
  destruct (prefix_hyps typed n cis ops1 ops2 s hs hist Ha Hrun Hviol Hb Hra) as (s1 & hs1 & hist1 & H1 & A1 & V1 & B1 & R1 & _).
  exists s1, hs1, hist1. split; [exact H1|].
  destruct (history_flush typed n cis ops1 s1 hs1 hist1 Hok Hlok A1 H1 V1 B1 R1) as (C1 & C2 & C3).
  split; [exact C1|]. split; [exact C2|]. split; [exact C3|]. intros s' r Htd.
  apply (history_flush_teardown typed n cis ops1 s1 hs1 hist1 s' r Hok Hlok A1 H1 V1 B1 R1 Htd).
Qed.
