(* Proofs about the dependency closure (C13): Manager.extra_components (the code's fixpoint loop) and MgrSpec.closure. *)
Require Import Coq.Lists.List Coq.NArith.NArith Coq.Arith.Arith Coq.Bool.Bool Coq.micromega.Lia.
From Mustache Require Import Res Manager MgrSpec.
Import ListNotations.

Definition sub (a b : mask) : Prop := forall c, mhas a c = true -> mhas b c = true.
(* x is closed under the declared dependencies (only component ids below 128 exist) *)
Definition closed (d : list (nat * mask)) (x : mask) : Prop :=
  forall c dm, c < MASK_BITS -> dep_find d c = Some dm -> mhas x c = true -> sub dm x.

Lemma mhas_union a b c : mhas (munion a b) c = mhas a c || mhas b c.
Proof. unfold mhas, munion. apply N.lor_spec. Qed.

Lemma sub_refl a : sub a a. Proof. intros c H; exact H. Qed.
Lemma sub_trans a b c : sub a b -> sub b c -> sub a c. Proof. intros H1 H2 x Hx. apply H2, H1, Hx. Qed.
Lemma sub_union_l a b : sub a (munion a b). Proof. intros c H. rewrite mhas_union, H. reflexivity. Qed.
Lemma sub_union_r a b : sub b (munion a b). Proof. intros c H. rewrite mhas_union, H. apply orb_true_r. Qed.
Lemma sub_union_lub a b x : sub a x -> sub b x -> sub (munion a b) x.
Proof. intros Ha Hb c H. rewrite mhas_union in H. apply orb_true_iff in H. destruct H; auto. Qed.

Lemma mitems_in m c : In c (mitems m) <-> c < MASK_BITS /\ mhas m c = true.
Proof. unfold mitems. rewrite filter_In, in_seq. simpl. intuition lia. Qed.

(* one round: result ∪ the dependencies of every member of cur *)
Lemma extra_round_spec d : forall l result x,
  mhas (fold_left (fun r c => match dep_find d c with Some m => munion r m | None => r end) l result) x = true <->
  mhas result x = true \/ exists c dm, In c l /\ dep_find d c = Some dm /\ mhas dm x = true.
Proof.
  induction l as [|a t IH]; intros result x; simpl.
  - split; [auto|intros [H|(c & dm & [] & _)]; assumption].
  - rewrite IH. destruct (dep_find d a) as [m|] eqn:E.
    + rewrite mhas_union, orb_true_iff. split.
      * intros [[H|H]|(c & dm & Hc & Hd & Hx)]; [left; assumption|right; exists a, m; auto|right; exists c, dm; auto].
      * intros [H|(c & dm & [->|Hc] & Hd & Hx)]; [left; left; assumption|left; right; congruence|right; exists c, dm; auto].
    + split.
      * intros [H|(c & dm & Hc & Hd & Hx)]; [left; assumption|right; exists c, dm; auto].
      * intros [H|(c & dm & [->|Hc] & Hd & Hx)]; [left; assumption|congruence|right; exists c, dm; auto].
Qed.

Lemma extra_round_in d cur result x :
  mhas (extra_round d cur result) x = true <->
  mhas result x = true \/ exists c dm, In c (mitems cur) /\ dep_find d c = Some dm /\ mhas dm x = true.
Proof. unfold extra_round. apply extra_round_spec. Qed.

Lemma extra_round_mono d cur result : sub result (extra_round d cur result).
Proof. intros x H. apply extra_round_in. left. assumption. Qed.

Lemma extra_loop_S f d cur result :
  extra_loop (S f) d cur result =
  (if N.eqb result (extra_round d cur result) then Ok (extra_round d cur result)
   else extra_loop f d (extra_round d cur result) (extra_round d cur result)).
Proof. reflexivity. Qed.
Lemma extra_loop_O d cur result : extra_loop 0 d cur result = Err OutOfFuel.
Proof. reflexivity. Qed.

Lemma mhas_zero c : mhas 0%N c = false.
Proof. unfold mhas. apply N.bits_0. Qed.

Lemma extra_round_deps d cur result c dm :
  In c (mitems cur) -> dep_find d c = Some dm -> sub dm (extra_round d cur result).
Proof. intros Hc Hd x Hx. apply extra_round_in. right. exists c, dm. auto. Qed.

(* the result contains result and the dependencies of every member of cur *)
Lemma extra_loop_contains d : forall fuel cur result r,
  extra_loop fuel d cur result = Ok r ->
  sub result r /\ (forall c dm, In c (mitems cur) -> dep_find d c = Some dm -> sub dm r).
Proof.
  induction fuel as [|f IH]; intros cur result r H; [rewrite extra_loop_O in H; discriminate|rewrite extra_loop_S in H].
  destruct (N.eqb result (extra_round d cur result)).
  - injection H as <-. split; [apply extra_round_mono|]. intros c dm Hc Hd. eapply extra_round_deps; eassumption.
  - destruct (IH _ _ _ H) as (I1 & _). split; [eapply sub_trans; [apply extra_round_mono|exact I1]|].
    intros c dm Hc Hd. eapply sub_trans; [eapply extra_round_deps; eassumption|exact I1].
Qed.

(* the result is closed: the loop stops when a round over (all of) the result adds nothing *)
Lemma extra_loop_result_closed d : forall fuel cur result r,
  extra_loop fuel d cur result = Ok r -> (cur = result \/ result = 0%N) ->
  forall c dm, c < MASK_BITS -> dep_find d c = Some dm -> mhas r c = true -> sub dm r.
Proof.
  induction fuel as [|f IH]; intros cur result r H Hcase c dm Hc Hd Hm; [rewrite extra_loop_O in H; discriminate|rewrite extra_loop_S in H].
  destruct (N.eqb_spec result (extra_round d cur result)) as [E|E].
  - injection H as <-. destruct Hcase as [Hc1|Hc2].
    + subst cur. eapply extra_round_deps; [|eassumption]. apply mitems_in. split; [assumption|]. rewrite E. assumption.
    + subst result. rewrite <- E in Hm. rewrite mhas_zero in Hm. discriminate.
  - eapply (IH _ _ _ H); [left; reflexivity| | |]; eassumption.
Qed.

Lemma extra_loop_closed d fuel m r : extra_loop fuel d m 0%N = Ok r -> closed d (munion m r).
Proof.
  intros H. destruct (extra_loop_contains d fuel m 0%N r H) as (_ & I2).
  pose proof (extra_loop_result_closed d fuel m 0%N r H (or_intror eq_refl)) as I3.
  intros c dm Hc Hd Hm. rewrite mhas_union in Hm. apply orb_true_iff in Hm.
  eapply sub_trans; [|apply sub_union_r]. destruct Hm as [Hm|Hm].
  - apply (I2 c dm); [apply mitems_in; auto|assumption].
  - eapply I3; eassumption.
Qed.

Lemma extra_loop_least d x : closed d x -> forall fuel cur result r,
  sub cur x -> sub result x -> extra_loop fuel d cur result = Ok r -> sub r x.
Proof.
  intros Hcl. induction fuel as [|f IH]; intros cur result r Hcur Hres H; [rewrite extra_loop_O in H; discriminate|rewrite extra_loop_S in H].
  assert (Hround : sub (extra_round d cur result) x).
  { intros y Hy. apply extra_round_in in Hy. destruct Hy as [Hy|(c & dm & Hc & Hd & Hy)]; [auto|].
    apply mitems_in in Hc. destruct Hc as (Hc1 & Hc2). eapply (Hcl c dm Hc1 Hd); [apply Hcur; assumption|assumption]. }
  destruct (N.eqb result (extra_round d cur result)).
  - injection H as <-. assumption.
  - eapply IH; [exact Hround|exact Hround|exact H].
Qed.

(* the code's closure: m together with the extra components is closed and is the least closed superset of m *)
Theorem extra_components_least_fixpoint s m r :
  extra_components s m = Ok r ->
  closed (deps s) (munion m r) /\ sub m (munion m r) /\
  forall x, closed (deps s) x -> sub m x -> sub (munion m r) x.
Proof.
  unfold extra_components. destruct (deps s) as [|p t] eqn:Ed.
  - intros H. inversion H; subst. split; [intros c dm _ Hd; discriminate|]. split; [apply sub_union_l|].
    intros x _ Hm. apply sub_union_lub; [assumption|]. intros c Hc. rewrite mhas_zero in Hc. discriminate.
  - intros H. split; [eapply extra_loop_closed; eassumption|]. split; [apply sub_union_l|].
    intros x Hcl Hm. apply sub_union_lub; [assumption|].
    eapply (extra_loop_least _ x Hcl); [exact Hm| |exact H]. intros c Hc. rewrite mhas_zero in Hc. discriminate.
Qed.

(* ---- the specification's closure (MgrSpec.closure) ---- *)
Lemma dep_step_spec d : forall m x,
  mhas (dep_step d m) x = true <-> mhas m x = true \/ exists c dm, In (c, dm) d /\ mhas m c = true /\ mhas dm x = true.
Proof.
  intros m x. unfold dep_step.
  assert (G : forall l acc, mhas (fold_left (fun r (p : nat * mask) => if mhas m (fst p) then munion r (snd p) else r) l acc) x = true <->
              mhas acc x = true \/ exists c dm, In (c, dm) l /\ mhas m c = true /\ mhas dm x = true).
  { induction l as [|[c0 dm0] t IH]; intros acc; simpl.
    - split; [auto|intros [H|(c & dm & [] & _)]; assumption].
    - rewrite IH. destruct (mhas m c0) eqn:E.
      + rewrite mhas_union, orb_true_iff. split.
        * intros [[H|H]|(c & dm & Hc & Hx)]; [left; assumption|right; exists c0, dm0; auto|right; exists c, dm; tauto].
        * intros [H|(c & dm & [Ep|Hc] & Hm & Hx)]; [left; left; assumption|inversion Ep; subst; left; right; assumption|right; exists c, dm; auto].
      + split.
        * intros [H|(c & dm & Hc & Hx)]; [left; assumption|right; exists c, dm; tauto].
        * intros [H|(c & dm & [Ep|Hc] & Hm & Hx)]; [left; assumption|inversion Ep; subst; congruence|right; exists c, dm; auto]. }
  apply G.
Qed.

(* closedness in terms of the declaration list itself *)
Definition closed_list (d : list (nat * mask)) (x : mask) : Prop :=
  forall c dm, In (c, dm) d -> mhas x c = true -> sub dm x.

Lemma closure_fuel_sub d : forall fuel m, sub m (closure_fuel fuel d m).
Proof.
  induction fuel as [|f IH]; intros m; simpl; [apply sub_refl|].
  destruct (N.eqb (dep_step d m) m); [apply sub_refl|].
  eapply sub_trans; [|apply IH]. intros x Hx. apply dep_step_spec. left. assumption.
Qed.

Lemma closure_fuel_least d x : closed_list d x -> forall fuel m, sub m x -> sub (closure_fuel fuel d m) x.
Proof.
  intros Hcl. induction fuel as [|f IH]; intros m Hm; simpl; [assumption|].
  destruct (N.eqb (dep_step d m) m); [assumption|]. apply IH.
  intros y Hy. apply dep_step_spec in Hy. destruct Hy as [Hy|(c & dm & Hin & Hc & Hy)]; [auto|].
  eapply (Hcl c dm Hin); [apply Hm; assumption|assumption].
Qed.

(* when the iteration has reached its fixpoint (it always has with 130 rounds over 128 bits; stated as a hypothesis) *)
Theorem spec_closure_least_fixpoint d m :
  dep_step d (closure d m) = closure d m ->
  closed_list d (closure d m) /\ sub m (closure d m) /\ forall x, closed_list d x -> sub m x -> sub (closure d m) x.
Proof.
  intros Hfix. split; [|split].
  - intros c dm Hin Hc y Hy. rewrite <- Hfix. apply dep_step_spec. right. exists c, dm. auto.
  - apply closure_fuel_sub.
  - intros x Hcl Hm. apply closure_fuel_least; assumption.
Qed.
