(* C13 / C05: the mask loop of applyCommandPack (raw final mask, closed ONCE afterwards) against the specification's
   commands applied one at a time, each assignment closing the component set -- with a declared dependency table.
   The loop invariant relates the raw mask fm of the model, the set am of components assigned so far and the removals X
   still binding to the (closed) component set sm of the specification's entity:
       fm <= sm <= closure (fm + am),        sm <= fm + X + closure am.
   At the end, when the write loop of applyCommandPack does not fail, every assigned component is in the final
   archetype, hence closure (final + assigned) = closure final and the two component sets are equal. *)
Require Import Coq.Lists.List Coq.NArith.NArith Coq.ZArith.ZArith Coq.Arith.Arith Coq.Bool.Bool Coq.micromega.Lia.
From Mustache Require Import Res Manager MgrSpec Refine.
From Mustache Require Skeleton.
From Mustache Require Import SkelSpec.
From Mustache.proofs Require Import ListLemmas SkelBasics SkelInv SkelSteps SkelRefine SkelLocked SkelFlush SkelMove SkelMoveRem ClosureProofs
  ManagerBasics ManagerMoves ManagerProj ManagerInv ManagerMain ManagerLInv ManagerPack ManagerFlush
  DepsFrame DepsClosure DepsInv DepsTotal DepsAlgebra.
Import ListNotations.

(* after "remove c": what stays of the specification's set is still inside the closure of the model's masks *)
Lemma rm_claim d fm am sm X c k : dwf d -> sub sm (closure d (munion fm am)) ->
  (forall y, mhas sm y = true -> mhas fm y = true \/ In y X \/ mhas (closure d am) y = true) ->
  cmd_ok d X (XRemove k c) = true ->
  forall y, mhas sm y = true -> y <> c -> mhas (closure d (munion (mdel fm c) am)) y = true.
Proof.
  intros Hd J3 J4 Hok y Hy Hne.
  assert (Hs : sub (munion fm am) (munion (munion (mdel fm c) am) (bit c))).
  { intros z Hz. rewrite !mhas_union, mhas_mdel, mhas_bit. rewrite mhas_union in Hz.
    destruct (Nat.eqb z c); [apply orb_true_r|]. simpl. rewrite andb_true_r, orb_false_r. exact Hz. }
  pose proof (cl_mono d _ _ Hd Hs y (J3 y Hy)) as H. rewrite (cl_union d _ _ Hd), mhas_union in H.
  apply orb_true_iff in H. destruct H as [H|H]; [exact H|].
  destruct (J4 y Hy) as [Hf|[Hx|Ha]].
  - apply (cl_ext d _ Hd). rewrite mhas_union, mhas_mdel, Hf. apply Nat.eqb_neq in Hne. rewrite Hne. reflexivity.
  - simpl in Hok. rewrite forallb_forall in Hok. specialize (Hok y Hx). apply orb_true_iff in Hok.
    destruct Hok as [E|E]; [apply Nat.eqb_eq in E; congruence|]. apply negb_true_iff in E. unfold req in E. congruence.
  - apply (cl_mono d am _ Hd (sub_union_r _ _)). exact Ha.
Qed.

Lemma keys_has (cs : list (nat * cell)) sm c v : map fst cs = mitems sm -> In (c, v) cs -> mhas sm c = true /\ c < MASK_BITS.
Proof.
  intros Hk Hin. assert (Hi : In c (mitems sm)) by (rewrite <- Hk; apply in_map_iff; exists (c, v); auto).
  apply mitems_in in Hi. tauto.
Qed.

Lemma last_asg_assign tl h c n t c' :
  last_asg tl (AAssign h c n :: t) c' =
  match last_asg tl t c' with Some w => Some w | None => if Nat.eqb c c' then Some (nth n tl None) else None end.
Proof. reflexivity. Qed.

(* ---------------------------------------------------------------------------------------- *)
Lemma pack_loop_sim_d cis d hs tl create h k : dwf d -> NoDup hs -> k < length hs -> hnd hs k = h ->
  forall t xt s fm am s3 final assigned fin x e sm X,
  Forall2 (crel cis hs tl) t xt -> Forall (fun c => cmd_handle c = h) t -> Forall (fun c => is_create c = false) t ->
  x_deps x = d -> x_cinfos x = cis -> find_ent x k = Some e -> map fst (e_comps e) = mitems sm ->
  lowm sm -> closed d sm -> sub fm sm -> sub sm (closure d (munion fm am)) ->
  (forall y, mhas sm y = true -> mhas fm y = true \/ In y X \/ mhas (closure d am) y = true) ->
  run_ok d X xt = true ->
  MR hs (marked s) (x_marked x) ->
  x_viol (fold_left x_cmd xt x) = x_viol x ->
  pack_loop create h t s fm am = Ok (s3, final, assigned, fin) ->
  xsame k x (fold_left x_cmd xt x) /\
  exists m', MR hs m' (x_marked (fold_left x_cmd xt x)) /\
    (fin = false -> s3 = set_marked s m' /\ exists e' sm', find_ent (fold_left x_cmd xt x) k = Some e' /\
        map fst (e_comps e') = mitems sm' /\ lowm sm' /\ closed d sm' /\ sub final sm' /\
        sub sm' (closure d (munion final assigned)) /\ e_shared e' = e_shared e /\
        (forall c, mhas assigned c = mhas am c || is_some (last_asg tl t c)) /\
        (forall c, mhas final c = true -> mhas fm c = true \/ is_some (last_asg tl t c) = true) /\
        (forall c, mhas sm' c = true -> mhas sm c = true \/ exists m, is_some (last_asg tl t m) = true /\ req d m c = true) /\
        (forall c v, In (c, v) (e_comps e') ->
           match last_asg tl t c with
           | Some w => v = w
           | None => In (c, v) (e_comps e) \/ (mhas sm c = false /\ v = default_cell cis c)
           end)) /\
    (fin = true -> (if create then s3 = release_id (set_marked s m') h else destroy_now_unlocked (set_marked s m') h = Ok s3) /\
                   find_ent (fold_left x_cmd xt x) k = None).
Proof.
  intros Hd Hnd Hk Eh t. induction t as [|c t IH];
    intros xt s fm am s3 final assigned fin x e sm X HR Hall Hnc Hxd Hxc Hfe Hkeys Hlow Hcl J2 J3 J4 Hrun Hmr Hviol H.
  - inversion HR; subst xt. simpl in *. inversion H; subst s3 final assigned fin. split; [apply xsame_refl|].
    exists (marked s). split; [exact Hmr|]. split; [|discriminate]. intros _. split; [symmetry; apply set_marked_id|].
    exists e, sm. split; [exact Hfe|]. split; [exact Hkeys|]. split; [exact Hlow|]. split; [exact Hcl|]. split; [exact J2|]. split; [exact J3|].
    split; [reflexivity|]. split; [intros c; rewrite orb_false_r; reflexivity|]. split; [auto|]. split; [auto|]. intros c v Hin. left. exact Hin.
  - inversion HR as [|c' xc t' xt' Hc HRt]; subst c' t' xt. inversion Hall as [|c1 t1 Hch Hallt]; subst c1 t1. inversion Hnc as [|c1 t1 Hcc Hnct]; subst c1 t1.
    simpl fold_left in *. destruct (viol_head _ _ _ Hviol) as (Hv1 & Hv2).
    simpl in Hrun. apply andb_true_iff in Hrun. destruct Hrun as (Hok1 & Hrun).
    assert (Ekey : xkey xc = k).
    { destruct (crel_key _ _ _ _ _ Hc) as (Hk' & E & _). apply (proj1 (NoDup_nth hs Skeleton.null_handle) Hnd); [exact Hk'|exact Hk|].
      fold (hnd hs (xkey xc)). fold (hnd hs k). congruence. }
    destruct c as [h' ha m sh|h'|h'|h' c|h' c n]; [discriminate| | | |]; destruct xc as [k0 m0 sh0|k0|k0|k0 c0 v0|k0 c0]; simpl in Hc; try contradiction;
      simpl in Ekey; subst k0.
    + (* destroy: the entity is marked *)
      destruct Hc as (_ & Eh'). simpl in H. simpl x_cmd in *.
      assert (Hal : alive_x x k = true) by (apply alive_x_find; congruence). rewrite Hal in *.
      assert (Hmr1 : MR hs (marked (set_marked s (set_insert (marked s) h'))) (x_marked (xw_marked x (k :: x_marked x)))).
      { simpl. rewrite <- Eh'. apply MR_insert_m; assumption. }
      destruct (IH xt' _ fm am s3 final assigned fin (xw_marked x (k :: x_marked x)) e sm X HRt Hallt Hnct Hxd Hxc Hfe Hkeys Hlow Hcl J2 J3 J4 Hrun Hmr1 Hv2 H)
        as (Hs & m' & Hm' & Hf & Ht).
      split; [eapply xsame_trans; [|exact Hs]; split; reflexivity|]. exists m'. split; [exact Hm'|]. split; [exact Hf|exact Ht].
    + (* destroyNow: the rest of the pack means nothing *)
      simpl x_cmd in *. destruct (x_kill_eq x k) as (Fx & Hfind).
      assert (Hdead : find_ent (x_kill x k) k = None) by (rewrite Hfind, Nat.eqb_refl; reflexivity).
      rewrite (x_fold_dead k xt' (x_kill x k)); [|eapply crel_on; eassumption|exact Hdead].
      assert (Hs : xsame k x (x_kill x k)).
      { split; [apply xfr_xfm; exact Fx|]. intros k' Hne. rewrite Hfind. apply Nat.eqb_neq in Hne. rewrite Hne. reflexivity. }
      split; [exact Hs|]. exists (marked s). assert (Em : x_marked (x_kill x k) = x_marked x) by (apply (f_equal x_marked) in Fx; exact Fx).
      rewrite Em. split; [exact Hmr|]. rewrite set_marked_id. simpl in H. destruct create.
      * inversion H; subst. split; [discriminate|]. intros _. split; [reflexivity|exact Hdead].
      * bd H s1 Hd1. inversion H; subst. split; [discriminate|]. intros _. split; [exact Hd1|exact Hdead].
    + (* removeComponent *)
      destruct Hc as (_ & Eh' & -> & Hc128). simpl in H. simpl x_cmd in *.
      pose proof (rm_claim d fm am sm X c k Hd J3 J4 Hok1) as Hclaim.
      assert (J4' : forall smx, sub smx sm -> (mhas smx c = true -> True) ->
                forall y, mhas smx y = true -> mhas (mdel fm c) y = true \/ In y (c :: X) \/ mhas (closure d am) y = true).
      { intros smx Hs1 _ y Hy. destruct (Nat.eq_dec y c) as [->|Hne]; [right; left; left; reflexivity|].
        destruct (J4 y (Hs1 y Hy)) as [Hf|[Hx|Ha]]; [left|right; left; right; exact Hx|right; right; exact Ha].
        rewrite mhas_mdel, Hf. apply Nat.eqb_neq in Hne. rewrite Hne. reflexivity. }
      assert (J2' : sub (mdel fm c) (mdel sm c)).
      { intros y Hy. rewrite mhas_mdel in *. apply andb_true_iff in Hy. destruct Hy as (A & B). rewrite (J2 y A), B. reflexivity. }
      destruct (has_comp (e_comps e) c) eqn:Hhas.
      * assert (Hsc : mhas sm c = true) by (apply has_comp_in in Hhas; rewrite Hkeys in Hhas; apply mitems_in in Hhas; tauto).
        remember (filter (fun p : nat * cell => negb (Nat.eqb (fst p) c)) (e_comps e)) as rest eqn:Erest.
        assert (Hkr : map fst rest = mitems (mdel sm c)) by (rewrite Erest, map_fst_filter, Hkeys; symmetry; apply mitems_mdel).
        assert (Hlr : lowm (mdel sm c)) by (apply lowm_mdel; exact Hlow).
        assert (Ecm : comp_mask rest = mdel sm c) by (apply comp_mask_keys; assumption).
        destruct (mhas (closure d (mdel sm c)) c) eqn:Eb.
        -- (* a dependent of something that stays: the specification does nothing *)
           assert (Enoop : x_remove x k c = x) by (apply (x_remove_noop x k c e Hfe Hhas); rewrite <- Erest, Ecm, Hxd; exact Eb).
           rewrite Enoop in *.
           assert (J3' : sub sm (closure d (munion (mdel fm c) am))).
           { intros y Hy. destruct (Nat.eq_dec y c) as [->|Hne]; [|apply Hclaim; assumption].
             eapply (cl_least d (mdel sm c) _ Hd (cl_closed d _ Hd)); [|exact Eb].
             intros z Hz. rewrite mhas_mdel in Hz. apply andb_true_iff in Hz. destruct Hz as (A & B). apply Hclaim; [exact A|].
             apply negb_true_iff in B. apply Nat.eqb_neq in B. exact B. }
           destruct (IH xt' s (mdel fm c) am s3 final assigned fin x e sm (c :: X) HRt Hallt Hnct Hxd Hxc Hfe Hkeys Hlow Hcl) as (Hs & m' & Hm' & Hf & Ht);
             [eapply sub_trans; [exact J2'|apply sub_mdel]|exact J3'|apply (J4' sm (sub_refl _)); auto|exact Hrun|exact Hmr|exact Hv2|exact H|].
           split; [exact Hs|]. exists m'. split; [exact Hm'|]. split; [|exact Ht]. intros Ef.
           destruct (Hf Ef) as (Es3 & e' & sm' & He' & Hk' & Hl' & Hc' & Hfs & Hsc' & Hsh' & Has & Hfin & HK & Hvals).
           split; [exact Es3|]. exists e', sm'. repeat (split; [assumption|]). split.
           { intros c1 Hc1. destruct (Hfin c1 Hc1) as [A|A]; [left; apply (sub_mdel fm c); exact A|right; exact A]. }
           split; [exact HK|exact Hvals].
        -- (* nothing that stays requires it: it goes *)
           destruct (x_remove_dep x k c e Hfe Hhas) as (Fx & Ex); [rewrite <- Erest, Ecm, Hxd; exact Eb|]. rewrite <- Erest in Ex.
           remember {| e_k := k; e_comps := rest; e_shared := e_shared e |} as e1 eqn:Ee1.
           assert (Hf1 : forall k', find_ent (x_remove x k c) k' = if Nat.eqb k' k then Some e1 else find_ent x k').
           { intros k'. rewrite find_ent_findk, Ex, findk_put. rewrite Ee1 at 1. rewrite e_k_mk. reflexivity. }
           destruct (xfr_fields _ _ Fx) as (X1 & X2 & X3 & X4 & X5).
           assert (Hkeys1 : map fst (e_comps e1) = mitems (mdel sm c)) by (rewrite Ee1, e_comps_mk; exact Hkr).
           assert (Hmr1 : MR hs (marked s) (x_marked (x_remove x k c))) by (apply (f_equal x_marked) in Fx; simpl in Fx; rewrite Fx; exact Hmr).
           assert (J3' : sub (mdel sm c) (closure d (munion (mdel fm c) am))).
           { intros y Hy. rewrite mhas_mdel in Hy. apply andb_true_iff in Hy. destruct Hy as (A & B). apply Hclaim; [exact A|].
             apply negb_true_iff in B. apply Nat.eqb_neq in B. exact B. }
           destruct (IH xt' s (mdel fm c) am s3 final assigned fin (x_remove x k c) e1 (mdel sm c) (c :: X) HRt Hallt Hnct) as (Hs & m' & Hm' & Hf & Ht);
             [congruence|congruence|rewrite Hf1, Nat.eqb_refl; reflexivity|exact Hkeys1|exact Hlr|apply closed_mdel; assumption|exact J2'|exact J3'
             |apply (J4' (mdel sm c) (sub_mdel _ _)); auto|exact Hrun|exact Hmr1|exact Hv2|exact H|].
           split; [eapply xsame_trans; [|exact Hs]; split; [apply xfr_xfm; exact Fx|intros k' Hne; rewrite Hf1; apply Nat.eqb_neq in Hne; rewrite Hne; reflexivity]|].
           exists m'. split; [exact Hm'|]. split; [|exact Ht]. intros Ef.
           destruct (Hf Ef) as (Es3 & e' & sm' & He' & Hk' & Hl' & Hc' & Hfs & Hsc' & Hsh' & Has & Hfin & HK & Hvals).
           split; [exact Es3|]. exists e', sm'. repeat (split; [assumption|]).
           split; [rewrite Hsh', Ee1; reflexivity|]. split; [exact Has|]. split.
           { intros c1 Hc1. destruct (Hfin c1 Hc1) as [A|A]; [left; apply (sub_mdel fm c); exact A|right; exact A]. }
           split.
           { intros c1 Hc1. destruct (HK c1 Hc1) as [A|A]; [left; apply (sub_mdel sm c); exact A|right; exact A]. }
           intros c1 v1 Hin. specialize (Hvals c1 v1 Hin). simpl. destruct (last_asg tl t c1) eqn:El1; [exact Hvals|].
           destruct Hvals as [A|(A & B)].
           ++ left. rewrite Ee1, e_comps_mk, Erest in A. apply filter_In in A. tauto.
           ++ destruct (Nat.eq_dec c1 c) as [->|Hne].
              ** (* c was removed and has come back without being assigned: a later assignment requires it -- excluded *)
                 exfalso. destruct (keys_has _ _ _ _ Hk' Hin) as (Hin' & _).
                 destruct (HK c Hin') as [A'|(m & Hm & Hr)]; [congruence|].
                 destruct (run_ok_forbids cis hs tl d t xt' (c :: X) c HRt Hrun (or_introl eq_refl) El1 m Hm) as [->|E]; [|congruence].
                 rewrite El1 in Hm. discriminate.
              ** right. split; [|exact B]. rewrite mhas_mdel in A. apply Nat.eqb_neq in Hne. rewrite Hne, andb_true_r in A. exact A.
      * rewrite (x_remove_absent _ _ _ _ Hfe Hhas) in *.
        assert (Hsc : mhas sm c = false).
        { destruct (mhas sm c) eqn:E; [|reflexivity]. exfalso.
          assert (Hi : In c (map fst (e_comps e))) by (rewrite Hkeys; apply mitems_in; split; assumption). apply has_comp_in in Hi. congruence. }
        assert (J3' : sub sm (closure d (munion (mdel fm c) am))).
        { intros y Hy. apply Hclaim; [exact Hy|]. intros ->. congruence. }
        destruct (IH xt' s (mdel fm c) am s3 final assigned fin x e sm (c :: X) HRt Hallt Hnct Hxd Hxc Hfe Hkeys Hlow Hcl) as (Hs & m' & Hm' & Hf & Ht);
          [eapply sub_trans; [exact J2'|apply sub_mdel]|exact J3'|apply (J4' sm (sub_refl _)); auto|exact Hrun|exact Hmr|exact Hv2|exact H|].
        split; [exact Hs|]. exists m'. split; [exact Hm'|]. split; [|exact Ht]. intros Ef.
        destruct (Hf Ef) as (Es3 & e' & sm' & He' & Hk' & Hl' & Hc' & Hfs & Hsc' & Hsh' & Has & Hfin & HK & Hvals).
        split; [exact Es3|]. exists e', sm'. repeat (split; [assumption|]). split.
        { intros c1 Hc1. destruct (Hfin c1 Hc1) as [A|A]; [left; apply (sub_mdel fm c); exact A|right; exact A]. }
        split; [exact HK|exact Hvals].
    + (* assign *)
      destruct Hc as (_ & Eh' & -> & Hc128 & Htmp). simpl in H. simpl x_cmd in *.
      assert (Hhas : has_comp (e_comps e) c = false).
      { destruct (has_comp (e_comps e) c) eqn:E; [|reflexivity]. exfalso. unfold x_assign in Hv1. rewrite Hfe, E in Hv1. simpl in Hv1. lia. }
      destruct (x_assign_dep x k c v0 e Hfe Hhas) as (Fx & Ex). rewrite Hxc in Ex. fold (cellof cis c v0) in Ex.
      assert (Hki : map fst (insert_comp (e_comps e) c (cellof cis c v0)) = mitems (madd sm c)).
      { rewrite map_fst_insert_comp, Hkeys. symmetry. apply mitems_madd. exact Hc128. }
      assert (Hlm : lowm (madd sm c)) by (apply lowm_madd; assumption).
      destruct (widen_spec x k _ (madd sm c) (closure d (madd sm c)) Hki Hlm) as (W1 & W2); [rewrite Hxd; reflexivity|apply cl_ext; exact Hd|].
      rewrite Hxc in W2.
      remember (fst (widen x k (insert_comp (e_comps e) c (cellof cis c v0)))) as cs1 eqn:Ecs1 in *.
      remember {| e_k := k; e_comps := cs1; e_shared := e_shared e |} as e1 eqn:Ee1.
      assert (Hf1 : forall k', find_ent (x_assign x k c v0) k' = if Nat.eqb k' k then Some e1 else find_ent x k').
      { intros k'. rewrite find_ent_findk, Ex, findk_put. rewrite Ee1 at 1. rewrite e_k_mk. reflexivity. }
      destruct (xfr_fields _ _ Fx) as (X1 & X2 & X3 & X4 & X5).
      assert (Hkeys1 : map fst (e_comps e1) = mitems (closure d (madd sm c))) by (rewrite Ee1, e_comps_mk; exact W1).
      assert (Hmr1 : MR hs (marked s) (x_marked (x_assign x k c v0))) by (apply (f_equal x_marked) in Fx; simpl in Fx; rewrite Fx; exact Hmr).
      assert (Hs01 : sub sm (closure d (madd sm c))).
      { intros y Hy. apply (cl_ext d _ Hd). rewrite mhas_madd, Hy. apply orb_true_r. }
      assert (Hc1 : mhas (closure d (madd sm c)) c = true) by (apply (cl_ext d _ Hd); rewrite mhas_madd, Nat.eqb_refl; reflexivity).
      assert (J2' : sub (madd fm c) (closure d (madd sm c))).
      { intros y Hy. rewrite mhas_madd in Hy. apply orb_true_iff in Hy. destruct Hy as [E|Hy]; [apply Nat.eqb_eq in E; subst y; exact Hc1|apply Hs01, J2, Hy]. }
      assert (J3' : sub (closure d (madd sm c)) (closure d (munion (madd fm c) (madd am c)))).
      { apply cl_least; [exact Hd|apply cl_closed; exact Hd|]. intros y Hy. rewrite mhas_madd in Hy. apply orb_true_iff in Hy. destruct Hy as [E|Hy].
        - apply Nat.eqb_eq in E. subst y. apply (cl_ext d _ Hd). rewrite mhas_union, mhas_madd, Nat.eqb_refl. reflexivity.
        - eapply (cl_mono d (munion fm am) _ Hd); [|exact (J3 y Hy)]. intros z Hz. rewrite mhas_union in *. rewrite !mhas_madd.
          apply orb_true_iff in Hz. destruct Hz as [Hz|Hz]; rewrite Hz; rewrite ?orb_true_r; reflexivity. }
      assert (J4' : forall y, mhas (closure d (madd sm c)) y = true ->
                mhas (madd fm c) y = true \/ In y (upd_rm X (XAssign k c v0)) \/ mhas (closure d (madd am c)) y = true).
      { intros y Hy. destruct (Nat.eq_dec y c) as [->|Hne]; [left; rewrite mhas_madd, Nat.eqb_refl; reflexivity|].
        destruct (cl_madd_closed d sm c y Hd Hcl Hy) as [Hy'|Hr].
        - destruct (J4 y Hy') as [Hf|[Hx|Ha]].
          + left. rewrite mhas_madd, Hf. apply orb_true_r.
          + right. left. simpl. apply filter_In. split; [exact Hx|]. apply negb_true_iff. apply Nat.eqb_neq. exact Hne.
          + right. right. eapply (cl_mono d am _ Hd); [|exact Ha]. intros z Hz. rewrite mhas_madd, Hz. apply orb_true_r.
        - right. right. apply (req_in_cl d _ c y Hd); [rewrite mhas_madd, Nat.eqb_refl; reflexivity|exact Hr]. }
      destruct (IH xt' s (madd fm c) (madd am c) s3 final assigned fin (x_assign x k c v0) e1 (closure d (madd sm c)) (upd_rm X (XAssign k c v0)) HRt Hallt Hnct)
        as (Hs & m' & Hm' & Hf & Ht);
        [congruence|congruence|rewrite Hf1, Nat.eqb_refl; reflexivity|exact Hkeys1|apply cl_low; assumption|apply cl_closed; exact Hd|exact J2'|exact J3'|exact J4'
        |exact Hrun|exact Hmr1|exact Hv2|exact H|].
      split; [eapply xsame_trans; [|exact Hs]; split; [apply xfr_xfm; exact Fx|intros k' Hne; rewrite Hf1; apply Nat.eqb_neq in Hne; rewrite Hne; reflexivity]|].
      exists m'. split; [exact Hm'|]. split; [|exact Ht]. intros Ef.
      destruct (Hf Ef) as (Es3 & e' & sm' & He' & Hk' & Hl' & Hc' & Hfs & Hsc' & Hsh' & Has & Hfin & HK & Hvals).
      split; [exact Es3|]. exists e', sm'. repeat (split; [assumption|]).
      split; [rewrite Hsh', Ee1; reflexivity|]. split.
      { intros c1. rewrite Has, mhas_madd. rewrite last_asg_assign. rewrite (Nat.eqb_sym c c1).
        destruct (last_asg tl t c1); simpl; [rewrite !orb_true_r; reflexivity|]. destruct (Nat.eqb c1 c), (mhas am c1); reflexivity. }
      split.
      { intros c1 Hc1'. rewrite last_asg_assign. destruct (Hfin c1 Hc1') as [A|A].
        - rewrite mhas_madd in A. apply orb_true_iff in A. destruct A as [A|A]; [|left; exact A]. right. apply Nat.eqb_eq in A. subst c1.
          rewrite Nat.eqb_refl. destruct (last_asg tl t c); reflexivity.
        - right. destruct (last_asg tl t c1); [reflexivity|discriminate]. }
      split.
      { intros c1 Hc1'. destruct (HK c1 Hc1') as [A|(m & Hm & Hr)].
        - destruct (cl_madd_closed d sm c c1 Hd Hcl A) as [A'|Hr]; [left; exact A'|]. right. exists c. split; [|exact Hr].
          rewrite last_asg_assign, Nat.eqb_refl. destruct (last_asg tl t c); reflexivity.
        - right. exists m. split; [|exact Hr]. rewrite last_asg_assign. destruct (last_asg tl t m); [reflexivity|discriminate]. }
      intros c1 v1 Hin. specialize (Hvals c1 v1 Hin). rewrite last_asg_assign. destruct (last_asg tl t c1); [exact Hvals|].
      assert (Hndk : NoDup (map fst (insert_comp (e_comps e) c (cellof cis c v0)))) by (rewrite Hki; apply mitems_nodup).
      destruct (Nat.eqb_spec c c1) as [<-|Hne].
      * destruct Hvals as [A|(A & _)]; [|congruence]. rewrite Ee1, e_comps_mk in A. apply W2 in A.
        destruct A as [A|(A & _)]; [|rewrite mhas_madd, Nat.eqb_refl in A; discriminate].
        apply insert_comp_cases in A; [|exact Hndk]. destruct A as [(_ & ->)|(A & _)]; [|congruence].
        symmetry. apply (nth_error_nth _ _ _ Htmp).
      * destruct Hvals as [A|(A & B)].
        -- rewrite Ee1, e_comps_mk in A. apply W2 in A. destruct A as [A|(A & _ & _ & B)].
           ++ apply insert_comp_weak in A. destruct A as [(E & _)|A]; [congruence|left; exact A].
           ++ right. split; [|exact B]. rewrite mhas_madd in A. apply orb_false_iff in A. tauto.
        -- right. split; [|exact B]. destruct (mhas sm c1) eqn:E; [|reflexivity]. rewrite (Hs01 c1 E) in A. discriminate.
Qed.

(* ---------------------------------------------------------------------------------------- *)
(* when the write loop of applyCommandPack returns, every assigned component is in the final archetype *)
Lemma wr_fold_asg tid h ai a idx tl : forall p st s', fold_res (wr_step tid h ai a idx) p st = Ok s' ->
  forall c, is_some (last_asg tl p c) = true -> mhas (am_mask a) c = true.
Proof.
  induction p as [|c0 p IH]; intros st s' H c Hc; [discriminate|]. simpl in H. bd H st1 H1.
  destruct c0 as [h' ha m sh|h'|h'|h' c1|h' cid n]; simpl in Hc; try (apply (IH _ _ H c Hc)).
  destruct (last_asg tl p c) eqn:El; [apply (IH _ _ H c); rewrite El; reflexivity|].
  destruct (Nat.eqb_spec cid c) as [->|Hne]; [|discriminate]. simpl in H1. bd H1 inf Hinf.
  destruct (cindex (am_mask a) c) as [ci|] eqn:Eci; [|discriminate]. eapply cindex_some_has. exact Eci.
Qed.

(* the two component sets are equal *)
Lemma final_sets_equal d final assigned sm' T : dwf d -> closed d sm' -> sub final sm' -> sub sm' (closure d (munion final assigned)) ->
  T = closure d final -> sub assigned T -> sm' = T.
Proof.
  intros Hd Hc J2 J3 -> Ha. apply sub_antisym.
  - eapply sub_trans; [exact J3|]. apply cl_least; [exact Hd|apply cl_closed; exact Hd|]. apply sub_union_lub; [apply cl_ext; exact Hd|exact Ha].
  - apply cl_least; assumption.
Qed.
