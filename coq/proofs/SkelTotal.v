(* Totality of the Skeleton run on in-contract scripts (C01): inside the contract the model never returns Err, so the
   refinement theorem of SkelMain.v is not vacuous anywhere in the contract.

   The contract (op_ok) has exactly two clauses; each points at the model line that returns Err otherwise:
     (a) SoUpdate only when the specification's lock count is 0
           Skeleton.v, step, case Update:  `| S _ => Err (Throw 2)`     (update() while locked throws);
     (b) SoCreate / SoDestroy / SoDestroyNow issued while the lock count is > 0 have tid < n
           Skeleton.v, push_cmd: `do b <- nth_res (bufs s) tid`  returns Err OobIndex for tid >= length (bufs s),
           and length (bufs s) = nthreads = n while locked (lock() resizes the buffer vector to maxThreadCount()).
           The clause applies whatever the handle is: a destroy of a handle never issued still records a command
           (on the null handle) in buffer tid.
   Every other Err of the model (OobIndex in locations / slots / archetype lists, Underflow in arch_remove, Throw 1 in
   pack_loop) is excluded by the invariant R of the refinement proof. *)
Require Import Coq.Lists.List Coq.NArith.NArith Coq.Arith.Arith Coq.Bool.Bool Coq.micromega.Lia.
From Mustache Require Import Res Skeleton SkelSpec SkelRun.
From Mustache.proofs Require Import ListLemmas SkelBasics SkelInv SkelSteps SkelRefine SkelLocked SkelFlush SkelMain.
Import ListNotations.

(* ------------------------------------------------------------------------------------------ *)
(* the contract *)
Definition op_ok (n : nat) (sp : sst) (o : sop) : Prop :=
  match o with
  | SoUpdate => sp_lock sp = 0                                        (* (a) *)
  | SoCreate tid _ | SoDestroy tid _ | SoDestroyNow tid _ => sp_lock sp <> 0 -> tid < n     (* (b) *)
  | SoClearArch _ | SoLock | SoUnlock => True
  end.

(* at every prefix, the next operation is allowed in the specification state reached by the prefix *)
Definition in_contract (n : nat) (ops : list sop) : Prop :=
  forall pre o post, ops = pre ++ o :: post -> op_ok n (spec_run n pre) o.

(* the same, computed along the script *)
Fixpoint contract_from (n : nat) (sp : sst) (ops : list sop) : Prop :=
  match ops with
  | [] => True
  | o :: t => op_ok n sp o /\ contract_from n (spec_step sp o) t
  end.

Definition is_create (o : sop) : bool := match o with SoCreate _ _ => true | _ => false end.
Definition creates (ops : list sop) : nat := length (filter is_create ops).
(* the number of handles the script issues is below the bound of the refinement theorem *)
Definition bounded (ops : list sop) : Prop := within (creates ops).

Lemma contract_from_prefix n : forall ops sp,
  (forall pre o post, ops = pre ++ o :: post -> op_ok n (fold_left spec_step pre sp) o) -> contract_from n sp ops.
Proof.
  induction ops as [|o t IH]; intros sp H; simpl; [exact I|]. split.
  - apply (H [] o t). reflexivity.
  - apply IH. intros pre o' post E. apply (H (o :: pre) o' post). rewrite E. reflexivity.
Qed.

Lemma prefix_contract_from n : forall ops sp, contract_from n sp ops ->
  forall pre o post, ops = pre ++ o :: post -> op_ok n (fold_left spec_step pre sp) o.
Proof.
  induction ops as [|o t IH]; intros sp H pre o' post E.
  - destruct pre; discriminate.
  - destruct H as (H1 & H2). destruct pre as [|p pre']; simpl in E; inversion E; subst.
    + exact H1.
    + simpl. eapply IH; [exact H2|reflexivity].
Qed.

Lemma in_contract_iff n ops : in_contract n ops <-> contract_from n (sp_init n) ops.
Proof.
  unfold in_contract, spec_run. split.
  - intros H. apply contract_from_prefix. exact H.
  - intros H. apply (prefix_contract_from n ops (sp_init n) H).
Qed.

(* ------------------------------------------------------------------------------------------ *)
(* an invariant of specification runs: the thread count never changes, and there is one buffer per thread while locked *)
Definition SI (n : nat) (sp : sst) : Prop := sp_nthr sp = n /\ (sp_lock sp <> 0 -> length (sp_bufs sp) = n).

Lemma SI_init n : SI n (sp_init n).
Proof. split; [reflexivity|]. simpl. intros H. contradiction. Qed.

Lemma SI_push n sp tid c : SI n sp -> SI n (spec_push sp tid c).
Proof. intros (A & B). split; [exact A|]. simpl. intros H. rewrite upd_length. apply B. exact H. Qed.

Lemma SI_step n sp o : SI n sp -> SI n (spec_step sp o).
Proof.
  intros HS. pose proof HS as (A & B). destruct o as [tid key|tid k|tid k|key| | |]; simpl.
  - destruct (sp_lock sp) eqn:El.
    + split; [exact A|]. simpl. rewrite El. intros H. contradiction.
    + apply SI_push. split; [exact A|]. simpl. rewrite El. exact B.
  - destruct (negb (k <? sp_count sp)); [exact HS|]. destruct (sp_lock sp) eqn:El.
    + split; [exact A|]. simpl. rewrite El. intros H. contradiction.
    + apply SI_push. exact HS.
  - destruct (negb (k <? sp_count sp)); [exact HS|]. destruct (sp_lock sp) eqn:El.
    + split; [exact A|]. simpl. rewrite El. intros H. contradiction.
    + apply SI_push. exact HS.
  - split; [exact A|exact B].
  - split; [exact A|exact B].
  - destruct (sp_lock sp) eqn:El.
    + split; [exact A|]. simpl. intros _. rewrite resize_length. exact A.
    + split; [exact A|]. simpl. intros _. apply B. discriminate.
  - destruct (Nat.pred (sp_lock sp)) eqn:Ep.
    + unfold spec_flush, SI. simpl.
      destruct (spec_bufs_frame (sp_bufs sp) (with_lock sp 0)) as (F1 & F2 & F3 & F4). simpl in F1, F4.
      rewrite F1, F4. split; [exact A|intros H; contradiction].
    + split; [exact A|]. simpl. intros _. apply B. intros E. rewrite E in Ep. discriminate.
Qed.

(* ------------------------------------------------------------------------------------------ *)
(* the primitives return Ok under the invariant *)
Lemma upd_res_some {A} (l : list A) i x : i < length l -> upd_res l i x = Ok (upd l i x).
Proof. intros H. unfold upd_res. apply Nat.ltb_lt in H. rewrite H. reflexivity. Qed.

Lemma nth_res_lt {A} (l : list A) i : i < length l -> exists a, nth_error l i = Some a.
Proof. intros H. destruct (nth_error l i) as [a|] eqn:E; [exists a; reflexivity|]. apply nth_error_None in E. lia. Qed.

Lemma nth_error_lt {A} (l : list A) i a : nth_error l i = Some a -> i < length l.
Proof. intros H. apply nth_error_Some. congruence. Qed.

(* Archetype::remove finds its entries: no Underflow, no index out of range *)
Lemma arch_remove_total s hs al rem ai a idx h :
  G s hs al rem -> nth_error (archs s) ai = Some a -> nth_error (a_ents a) idx = Some h ->
  exists s1, arch_remove s ai idx h = Ok s1.
Proof.
  intros HG Harch Hent. unfold arch_remove. rewrite (nth_res_some _ _ _ Harch). cbn [bind].
  pose proof (nth_error_lt _ _ _ Hent) as Hidx.
  assert (Hloc_of : forall p x, nth_error (a_ents a) p = Some x -> N.to_nat (fst x) < length (locs s)).
  { intros p x Hp. destruct (g_arch_members HG ai a p x (noex_no _ _) Harch Hp) as (k & _ & _ & _ & L). exact (nth_error_lt _ _ _ L). }
  pose proof (Hloc_of idx h Hent) as Hh.
  destruct (length (a_ents a)) as [|last] eqn:El; [lia|].
  destruct (Nat.eqb idx last).
  - unfold update_location. cbn [locs set_archs]. rewrite (upd_res_some _ _ _ Hh). cbn [bind]. eexists. reflexivity.
  - destruct (nth_res_lt (a_ents a) last) as (src & Hsrc); [lia|].
    rewrite (nth_res_some _ _ _ Hsrc), (nth_res_some _ _ _ Hent). cbn [bind].
    pose proof (Hloc_of last src Hsrc) as Hs.
    unfold update_location. rewrite (upd_res_some _ _ _ Hh). cbn [bind locs set_locs].
    rewrite upd_res_some by (rewrite upd_length; exact Hs). cbn [bind]. eexists. reflexivity.
Qed.

(* destroyNow (unlocked, checked variant) on the null handle or on any handle ever issued *)
Lemma destroy_now_total s hs al rem h :
  G s hs al rem -> h = null_handle \/ In h hs -> exists s', destroy_now_unlocked s h = Ok s'.
Proof.
  intros HG Hh. unfold destroy_now_unlocked. destruct (is_valid s h) eqn:Ev; [|eexists; reflexivity].
  destruct Hh as [->|Hin]; [rewrite is_valid_null in Ev; discriminate|].
  destruct (In_hnd _ _ Hin) as (k & Hk & Eh). subst h.
  apply (G_valid s hs al rem k HG Hk) in Ev. unfold alive in Ev. apply in_map_iff in Ev.
  destruct Ev as ((k0, key) & E0 & Hal). simpl in E0. subst k0.
  destruct (g_alive HG k key Hal) as (_ & _ & _ & ai & idx & a & Hloc & Harch & _ & Hent).
  rewrite (nth_res_some _ _ _ Hloc). cbn [bind l_arch l_idx].
  destruct (arch_remove_total s hs al rem ai a idx _ HG Harch Hent) as (s1 & Hrm). rewrite Hrm. cbn [bind].
  eexists. reflexivity.
Qed.

(* update(): the whole set of deferred destroys *)
Lemma destroy_list_total hs rem : forall m s al,
  G s hs al rem -> (N.of_nat (length hs) + 1 < NULL_VER)%N ->
  (forall h, In h m -> h = null_handle \/ In h hs) ->
  exists s', fold_res destroy_now_unlocked m s = Ok s'.
Proof.
  induction m as [|h t IH]; intros s al HG Hcnt Hm; simpl; [eexists; reflexivity|].
  destruct (destroy_now_total s hs al rem h HG (Hm h (or_introl eq_refl))) as (s1 & H1). rewrite H1. cbn [bind].
  assert (Hal1 : exists al1, G s1 hs al1 rem).
  { destruct (Hm h (or_introl eq_refl)) as [->|Hin].
    - unfold destroy_now_unlocked in H1. rewrite is_valid_null in H1. inversion H1; subst s1. exists al. exact HG.
    - destruct (In_hnd _ _ Hin) as (k & Hk & Eh). subst h.
      destruct (G_destroy_now s s1 hs al rem k HG Hk Hcnt H1) as (HG1 & _). exists (kill al k). exact HG1. }
  destruct Hal1 as (al1 & HG1). apply (IH s1 al1 HG1 Hcnt). intros h' Hh'. apply Hm. right. exact Hh'.
Qed.

(* createWithOutInit: the head of the free list is a slot of the table *)
Lemma create_id_total s hs al rem : G s hs al rem ->
  exists s2 h, create_id s = Ok (s2, h) /\ archs s2 = archs s /\ N.to_nat (fst h) < length (locs s2).
Proof.
  intros HG. pose proof (g_len HG) as Hlen. unfold create_id. destruct (empty_slots s) as [|e] eqn:Ee.
  - eexists. eexists. split; [reflexivity|]. split; [reflexivity|]. cbn [fst locs set_locs]. rewrite app_length, Nat2N.id. simpl. lia.
  - assert (Hin : In (next_slot s) (W s)) by (unfold W; rewrite Ee, walk_S; left; reflexivity).
    pose proof (g_free_range HG _ Hin) as Hr.
    destruct (nth_res_lt (slots s) (N.to_nat (next_slot s)) Hr) as (sl & Hsl).
    rewrite (nth_res_some _ _ _ Hsl). cbn [bind locs set_slots set_free].
    rewrite upd_res_some by (rewrite Hlen; exact Hr). cbn [bind].
    eexists. eexists. split; [reflexivity|]. split; [reflexivity|]. cbn [fst locs set_locs]. rewrite upd_length, Hlen. exact Hr.
Qed.

Lemma arch_insert_total s ai a h :
  nth_error (archs s) ai = Some a -> N.to_nat (fst h) < length (locs s) -> exists s', arch_insert s ai h = Ok s'.
Proof.
  intros Ha Hh. unfold arch_insert. rewrite (nth_res_some _ _ _ Ha). cbn [bind]. unfold update_location. cbn [locs set_archs].
  rewrite (upd_res_some _ _ _ Hh). cbn [bind]. eexists. reflexivity.
Qed.

(* getArchetype returns the index of an existing archetype and touches nothing but the archetype vector *)
Lemma get_arch_nth s key s1 ai : get_arch s key = (s1, ai) ->
  (exists a, nth_error (archs s1) ai = Some a) /\ locs s1 = locs s /\ slots s1 = slots s.
Proof.
  unfold get_arch. destruct (find_arch (archs s) key 0) as [i|] eqn:Ef; intros H; inversion H; subst s1 ai.
  - destruct (find_arch_some _ _ _ _ Ef) as (_ & a & Hn & _). rewrite Nat.sub_0_r in Hn. split; [exists a; exact Hn|]. split; reflexivity.
  - split; [eexists; simpl; apply nth_error_app_last|]. split; reflexivity.
Qed.

(* clearArchetype: the loop over the members *)
Lemma clear_one_total s h : length (locs s) = length (slots s) -> N.to_nat (fst h) < length (locs s) ->
  exists s', clear_one s h = Ok s' /\ length (locs s') = length (locs s) /\ length (slots s') = length (slots s).
Proof.
  intros Hlen Hh. unfold clear_one. destruct (nth_res_lt (locs s) _ Hh) as (l & Hl). rewrite (nth_res_some _ _ _ Hl). cbn [bind].
  rewrite (upd_res_some _ _ _ Hh). cbn [bind slots set_locs]. rewrite upd_res_some by (rewrite <- Hlen; exact Hh). cbn [bind].
  eexists. split; [reflexivity|]. simpl. rewrite !upd_length. split; reflexivity.
Qed.

Lemma clear_loop_total : forall l s, length (locs s) = length (slots s) ->
  (forall h, In h l -> N.to_nat (fst h) < length (locs s)) -> exists s', fold_res clear_one l s = Ok s'.
Proof.
  induction l as [|h t IH]; intros s Hlen Hl; simpl; [eexists; reflexivity|].
  destruct (clear_one_total s h Hlen (Hl h (or_introl eq_refl))) as (s1 & H1 & L1 & L2). rewrite H1. cbn [bind].
  apply IH; [congruence|]. intros h' Hh'. rewrite L1. apply Hl. right. exact Hh'.
Qed.

Lemma clear_arch_total s hs al rem ai a : G s hs al rem -> nth_error (archs s) ai = Some a -> exists s', clear_arch s ai = Ok s'.
Proof.
  intros HG Ha. unfold clear_arch. rewrite (nth_res_some _ _ _ Ha). cbn [bind].
  destruct (clear_loop_total (a_ents a) s (g_len HG)) as (s1 & H1).
  { intros h Hin. apply In_nth_error in Hin. destruct Hin as (idx & Hidx).
    destruct (g_arch_members HG ai a idx h (noex_no _ _) Ha Hidx) as (k & _ & _ & _ & L). exact (nth_error_lt _ _ _ L). }
  rewrite H1. cbn [bind]. eexists. reflexivity.
Qed.

Lemma push_cmd_total s tid c : tid < length (bufs s) -> exists s', push_cmd s tid c = Ok s'.
Proof.
  intros H. unfold push_cmd. destruct (nth_res_lt _ _ H) as (b & Hb). rewrite (nth_res_some _ _ _ Hb). cbn [bind]. eexists. reflexivity.
Qed.

(* ------------------------------------------------------------------------------------------ *)
(* the flush: every pack application returns Ok *)
Lemma install_total s h : exists s2, install s h = Ok s2.
Proof.
  unfold install. destruct (Nat.ltb_spec (N.to_nat (fst h)) (length (slots s))) as [Hlt|Hge].
  - rewrite (upd_res_some _ _ _ Hlt). cbn [bind]. eexists. reflexivity.
  - cbn [slots set_locs set_slots]. rewrite upd_res_some by (rewrite resize_length; lia). cbn [bind]. eexists. reflexivity.
Qed.

(* the loop over the commands of a pack that holds only destroy/destroyNow of its entity (no Throw 1) *)
Lemma pack_loop_shape create h : forall t s, only_destroys h t ->
  exists m', pack_loop create h t s = Ok (set_marked s m', false) \/
             pack_loop create h t s = (if create then Ok (release_id (set_marked s m') h, true)
                                       else do s1 <- destroy_now_unlocked (set_marked s m') h; Ok (s1, true)).
Proof.
  induction t as [|c t IH]; intros s Ht.
  - exists (marked s). left. simpl. rewrite set_marked_id. reflexivity.
  - inversion Ht as [|c' t' Hc Ht']; subst c' t'. destruct Hc as [->| ->].
    + destruct (IH (set_marked s (set_insert (marked s) h)) Ht') as (m' & Hm'). exists m'. exact Hm'.
    + exists (marked s). right. simpl. rewrite set_marked_id. reflexivity.
Qed.

Lemma create_pack_total s h key t : length (locs s) = length (slots s) -> only_destroys h t ->
  exists s', apply_pack s (CCreate h key :: t) = Ok s'.
Proof.
  intros Hlen Ht. rewrite apply_pack_create_eq.
  destruct (install_total s h) as (s2 & Hinst). rewrite Hinst. cbn [bind].
  destruct (install_facts s h s2 Hlen Hinst) as (I1 & _ & I3 & _).
  pose proof (nth_error_lt _ _ _ I3) as Hi. rewrite <- I1 in Hi.
  destruct (pack_loop_shape true h t s2 Ht) as (m' & [E|E]); rewrite E; cbn [bind].
  - destruct (get_arch (set_marked s2 m') key) as [s4 ai] eqn:Ega.
    destruct (get_arch_nth _ _ _ _ Ega) as ((a & Ha) & El & _).
    apply (arch_insert_total s4 ai a h Ha). rewrite El. exact Hi.
  - eexists. reflexivity.
Qed.

Lemma other_pack_total s hs al rem c0 t :
  G s hs al rem -> (forall h key, c0 <> CCreate h key) -> wf_cmd hs c0 -> only_destroys (cmd_handle c0) (c0 :: t) ->
  exists s', apply_pack s (c0 :: t) = Ok s'.
Proof.
  intros HG Hnc Hwf Hod. set (p := c0 :: t) in *. set (h0 := cmd_handle c0) in *.
  assert (Hap : apply_pack s p = (if is_valid s h0 then do r <- pack_loop false h0 p s; Ok (fst r) else Ok s)).
  { unfold p, h0. destruct c0 as [h key|h|h]; [exfalso; eapply Hnc; reflexivity|reflexivity|reflexivity]. }
  rewrite Hap. destruct (is_valid s h0) eqn:Ev; [|eexists; reflexivity].
  destruct (pack_loop_shape false h0 p s Hod) as (m' & [E|E]); rewrite E; cbn [bind]; [eexists; reflexivity|].
  assert (HGm : G (set_marked s m') hs al rem) by (eapply G_same_core; [| | | | |exact HG]; reflexivity).
  destruct (destroy_now_total (set_marked s m') hs al rem h0 HGm (wf_handle hs c0 Hwf)) as (s1 & H1).
  rewrite H1. cbn [bind]. eexists. reflexivity.
Qed.

(* applyStorage on one buffer, cut into packs (the structure of Q_packs, with the existence of the result) *)
Lemma packs_total hs : forall ps s sp rem',
  Forall (fun p => p <> [] /\ exists h', allh h' p) ps -> Forall (wf_cmd hs) (concat ps) -> creates_first (concat ps) ->
  within (length hs) -> Q s hs sp (abs_buf hs (concat ps) ++ rem') ->
  exists s', fold_res apply_pack ps s = Ok s'.
Proof.
  induction ps as [|p ps IH]; intros s sp rem' Hu Hwf Hcf Hb HQ; [eexists; reflexivity|].
  cbn [fold_res].
  inversion Hu as [|p' ps' (Hne & h & Hall) Hu']; subst p' ps'.
  assert (Hwf0 := Hwf). assert (Hcf0 := Hcf). assert (HQ0 := HQ).
  cbn [concat] in Hwf, Hcf. apply Forall_app in Hwf. destruct Hwf as (Hwfp & Hwfr).
  pose proof (creates_first_app_l _ _ Hcf) as Hcfp. pose proof (creates_first_app_r _ _ Hcf) as Hcfr.
  destruct p as [|c0 t]; [congruence|].
  inversion Hall as [|x l Hc0 Ht]; subst x l. inversion Hwfp as [|x l Hwc0 Hwt]; subst x l.
  assert (Htot : exists s1, apply_pack s (c0 :: t) = Ok s1).
  { destruct c0 as [h0 key|h0|h0].
    - simpl in Hc0. subst h. apply create_pack_total; [exact (g_len (q_G _ _ _ _ HQ))|]. apply (pack_tail_destroys h0 key t Hcfp Ht).
    - eapply other_pack_total; [exact (q_G _ _ _ _ HQ)|intros; discriminate|assumption|].
      apply pack_destroys; [intros; discriminate|assumption|]. simpl in Hc0 |- *. subst h. exact Hall.
    - eapply other_pack_total; [exact (q_G _ _ _ _ HQ)|intros; discriminate|assumption|].
      apply pack_destroys; [intros; discriminate|assumption|]. simpl in Hc0 |- *. subst h. exact Hall. }
  destruct Htot as (s1 & H1). rewrite H1. cbn [bind].
  (* the state after this pack satisfies the flush invariant for the remaining packs: Q_packs on the singleton list *)
  assert (HQ1 : Q s1 hs (fold_left spec_cmd (abs_buf hs (c0 :: t)) sp) (abs_buf hs (concat ps) ++ rem')).
  { assert (E1 : concat [c0 :: t] = c0 :: t) by (simpl; rewrite app_nil_r; reflexivity).
    assert (Hq : Q s hs sp (abs_buf hs (concat [c0 :: t]) ++ (abs_buf hs (concat ps) ++ rem'))).
    { rewrite E1. cbn [concat] in HQ0. unfold abs_buf in HQ0 |- *. rewrite filter_map_app, <- app_assoc in HQ0. exact HQ0. }
    destruct (Q_packs hs [c0 :: t] s sp (abs_buf hs (concat ps) ++ rem') s1) as (HQ1 & _).
    - constructor; [split; [assumption|exists h; exact Hall]|constructor].
    - rewrite E1. exact Hwfp.
    - rewrite E1. exact Hcfp.
    - exact Hb.
    - exact Hq.
    - cbn [fold_res]. rewrite H1. reflexivity.
    - rewrite E1 in HQ1. exact HQ1. }
  apply (IH s1 _ rem' Hu' Hwfr Hcfr Hb HQ1).
Qed.

(* all buffers, in thread order (the structure of Q_buffers) *)
Lemma buffers_total hs : forall bs s sp,
  Forall (Forall (wf_cmd hs)) bs -> Forall creates_first bs -> within (length hs) ->
  Q s hs sp (concat (map (abs_buf hs) bs)) ->
  exists s', fold_res apply_storage bs s = Ok s'.
Proof.
  induction bs as [|b bs IH]; intros s sp Hwf Hcf Hb HQ; [eexists; reflexivity|].
  cbn [fold_res]. cbn [map concat] in HQ.
  inversion Hwf as [|x l Hwfb Hwfr]; subst x l. inversion Hcf as [|x l Hcfb Hcfr]; subst x l.
  pose proof (split_packs_concat b []) as Ec. simpl in Ec.
  assert (Hu : Forall (fun p => p <> [] /\ exists h', allh h' p) (split_packs b []))
    by (apply (split_packs_uniform b [] null_handle); constructor).
  rewrite <- Ec in Hwfb, Hcfb, HQ.
  destruct (packs_total hs (split_packs b []) s sp _ Hu Hwfb Hcfb Hb HQ) as (s1 & H1).
  unfold apply_storage at 1. rewrite H1. cbn [bind].
  destruct (Q_packs hs (split_packs b []) s sp _ s1 Hu Hwfb Hcfb Hb HQ H1) as (HQ1 & _).
  apply (IH s1 _ Hwfr Hcfr Hb HQ1).
Qed.

Lemma flush_total s hs sp : R s hs sp -> within (length hs) -> exists s', flush (set_lock s 0) = Ok s'.
Proof.
  intros HR Hb. pose proof HR as HR0. destruct HR as [HG Hc Hl Hn Hbf Hwf Hu Hcr Hmi Hml Hm Hs He Hcf].
  assert (Hids : forall h, In h hs -> N.to_nat (fst h) < length hs).
  { intros h Hin. destruct (Nat.eq_dec (sp_lock sp) 0) as [E0|Hne].
    - pose proof (R_rem_nil _ _ _ HR0 E0) as Hrem. rewrite Hrem in HG. destruct (In_hnd _ _ Hin) as (k & Hk & <-).
      pose proof (ids_in_range s hs _ k HG Hk). lia.
    - destruct (He Hne) as (_ & E2 & E3). pose proof (E3 h Hin). lia. }
  assert (HQ : Q (set_lock s 0) hs (with_lock sp 0) (concat (map (abs_buf hs) (bufs s)))).
  { constructor; simpl.
    - rewrite <- Hbf. eapply G_same_core; [| | | | |exact HG]; reflexivity.
    - rewrite <- Hbf. assumption.
    - split; [assumption|]. split; assumption.
    - assumption.
    - assumption. }
  destruct (buffers_total hs (bufs s) (set_lock s 0) _ Hwf Hcf Hb HQ) as (s2 & H2).
  unfold flush. cbn [bufs set_lock]. rewrite H2. cbn [bind]. eexists. reflexivity.
Qed.

(* ------------------------------------------------------------------------------------------ *)
(* every operation of the contract returns Ok in a state related to the specification *)
Lemma R_bufs_length s hs sp : R s hs sp -> length (bufs s) = length (sp_bufs sp).
Proof. intros HR. rewrite (r_bufs _ _ _ HR), map_length. reflexivity. Qed.

Lemma step_total n s hs sp o :
  R s hs sp -> SI n sp -> op_ok n sp o -> within (length hs) ->
  exists s' oh, step s (concretize hs o) = Ok (s', oh).
Proof.
  intros HR (Hn & Hbl) Hok Hb.
  pose proof (r_G _ _ _ HR) as HG. pose proof (r_lock _ _ _ HR) as Hl. pose proof (R_bufs_length _ _ _ HR) as Hlen.
  assert (Htid : forall tid, (sp_lock sp <> 0 -> tid < n) -> sp_lock sp <> 0 -> tid < length (bufs s)).
  { intros tid H Hne. rewrite Hlen, (Hbl Hne). apply H. exact Hne. }
  destruct o as [tid key|tid k|tid k|key| | |]; cbn [concretize op_ok] in *.
  - (* Create *)
    unfold step. rewrite Hl. destruct (sp_lock sp) as [|m] eqn:El.
    + destruct (get_arch s key) as [s1 ai] eqn:Ega.
      destruct (get_arch_G s hs _ _ key s1 ai HG Ega) as (HG1 & (a & Ha & _) & _).
      destruct (create_id_total s1 hs _ _ HG1) as (s2 & h & Hc & Ea & Hh). rewrite Hc. cbn [bind].
      destruct (arch_insert_total s2 ai a h) as (s3 & Hi); [rewrite Ea; exact Ha|exact Hh|].
      rewrite Hi. cbn [bind]. eexists. eexists. reflexivity.
    + unfold create_locked.
      destruct (push_cmd_total (set_eid s (next_eid s + 1)) tid
                  (CCreate (next_eid s, match nth_error (slots s) (N.to_nat (next_eid s)) with
                                        | Some sl => ((s_ver sl + 1) mod VER_MOD)%N | None => 0%N end) key)) as (s1 & H1).
      { cbn [bufs set_eid]. apply Htid; [exact Hok|discriminate]. }
      rewrite H1. cbn [bind]. eexists. eexists. reflexivity.
  - (* Destroy *)
    unfold step. rewrite Hl. destruct (sp_lock sp) as [|m] eqn:El; [eexists; eexists; reflexivity|].
    destruct (push_cmd_total s tid (CDestroy (resolve hs k))) as (s1 & H1); [apply Htid; [exact Hok|discriminate]|].
    rewrite H1. cbn [bind]. eexists. eexists. reflexivity.
  - (* DestroyNow *)
    unfold step. rewrite Hl. destruct (sp_lock sp) as [|m] eqn:El.
    + destruct (destroy_now_total s hs _ _ (resolve hs k) HG) as (s1 & H1); [rewrite resolve_hnd; apply wf_hnd|].
      rewrite H1. cbn [bind]. eexists. eexists. reflexivity.
    + destruct (push_cmd_total s tid (CDestroyNow (resolve hs k))) as (s1 & H1); [apply Htid; [exact Hok|discriminate]|].
      rewrite H1. cbn [bind]. eexists. eexists. reflexivity.
  - (* ClearArch *)
    unfold step. destruct (get_arch s key) as [s1 ai] eqn:Ega.
    destruct (get_arch_G s hs _ _ key s1 ai HG Ega) as (HG1 & (a & Ha & _) & _).
    destruct (clear_arch_total s1 hs _ _ ai a HG1 Ha) as (s2 & H2). rewrite H2. cbn [bind]. eexists. eexists. reflexivity.
  - (* Update: the contract says the manager is not locked *)
    unfold step. rewrite Hl, Hok.
    destruct (destroy_list_total hs _ (marked s) s _ HG (bound_ver _ Hb) (r_marked_in _ _ _ HR)) as (s1 & H1).
    rewrite H1. cbn [bind]. eexists. eexists. reflexivity.
  - (* Lock *)
    unfold step. destruct (lockc s); eexists; eexists; reflexivity.
  - (* Unlock *)
    unfold step. cbn [lockc set_lock]. destruct (Nat.pred (lockc s)) eqn:Ep; [|eexists; eexists; reflexivity].
    destruct (flush_total s hs sp HR Hb) as (s2 & H2). rewrite H2. cbn [bind]. eexists. eexists. reflexivity.
Qed.

(* ------------------------------------------------------------------------------------------ *)
(* the run *)
Lemma run_total n : forall ops s0 hs0 sp0,
  R s0 hs0 sp0 -> SI n sp0 -> contract_from n sp0 ops -> within (length hs0 + creates ops) ->
  exists s hs, fold_res sstep ops (s0, hs0) = Ok (s, hs).
Proof.
  induction ops as [|o t IH]; intros s0 hs0 sp0 HR HS Hc Hb; [eexists; eexists; reflexivity|].
  destruct Hc as (Hok & Hc).
  assert (Hb0 : within (length hs0)) by (eapply within_le; [|exact Hb]; lia).
  destruct (step_total n s0 hs0 sp0 o HR HS Hok Hb0) as (s1 & oh & Hst).
  set (hs1 := match oh with Some h => hs0 ++ [h] | None => hs0 end).
  assert (Hss : sstep (s0, hs0) o = Ok (s1, hs1)) by (unfold sstep; rewrite Hst; reflexivity).
  cbn [fold_res]. rewrite Hss. cbn [bind].
  assert (Hlen1 : length hs1 + creates t = length hs0 + creates (o :: t)).
  { unfold hs1, creates. destruct o as [tid key|tid k|tid k|key| | |]; cbn [filter is_create length];
      try (assert (oh = None) by (eapply step_other_none; [|exact Hst]; intros; discriminate); subst oh; reflexivity).
    destruct (step_create_some _ _ _ _ _ Hst) as (h & ->). rewrite app_length. simpl. lia. }
  apply (IH s1 hs1 (spec_step sp0 o)).
  - eapply R_step; [exact HR|exact Hss|]. eapply within_le; [|exact Hb]. lia.
  - apply SI_step. exact HS.
  - exact Hc.
  - rewrite Hlen1. exact Hb.
Qed.

Theorem srun_total : forall n ops, in_contract n ops -> bounded ops -> exists s hs, srun n ops = Ok (s, hs).
Proof.
  intros n ops Hc Hb. unfold srun. apply (run_total n ops (init n) [] (sp_init n)).
  - apply R_init.
  - apply SI_init.
  - apply in_contract_iff. exact Hc.
  - exact Hb.
Qed.

(* with the refinement theorem: on every in-contract script the model run exists and is related to the specification *)
Theorem srun_total_refines : forall n ops, in_contract n ops -> bounded ops ->
  exists s hs, srun n ops = Ok (s, hs) /\ R s hs (spec_run n ops).
Proof.
  intros n ops Hc Hb. destruct (srun_total n ops Hc Hb) as (s & hs & H). exists s, hs. split; [exact H|].
  apply skeleton_refines_spec; [exact H|].
  (* the number of handles issued is at most the number of creations of the script *)
  assert (Hle : length hs <= creates ops).
  { revert H. unfold srun. generalize (init n). intros s0.
    assert (Hgen : forall ops s0 hs0 s hs, fold_res sstep ops (s0, hs0) = Ok (s, hs) -> length hs <= length hs0 + creates ops).
    { clear. induction ops as [|o t IH]; intros s0 hs0 s hs H.
      - simpl in H. inversion H; subst. lia.
      - cbn [fold_res] in H. apply bind_ok in H. destruct H as ((s1, hs1) & H1 & H). apply IH in H.
        unfold sstep in H1. apply bind_ok in H1. destruct H1 as ((s1', oh) & Hst & H1). inversion H1; subst s1' hs1; clear H1.
        unfold creates in *. destruct o as [tid key|tid k|tid k|key| | |]; cbn [filter is_create length concretize] in *;
          try (assert (oh = None) by (eapply step_other_none; [|exact Hst]; intros; discriminate); subst oh; lia).
        destruct oh; [rewrite app_length in H; simpl in H|]; lia. }
    intros H. apply Hgen in H. simpl in H. exact H. }
  eapply within_le; [exact Hle|exact Hb].
Qed.

(* ------------------------------------------------------------------------------------------ *)
(* the hypotheses are satisfiable on a script that locks (nested), records commands from several threads, recycles ids,
   clears an archetype while locked and updates when unlocked *)
Definition demo_script : list sop :=
  [SoCreate 0 1; SoCreate 9 1; SoDestroyNow 7 0; SoLock; SoLock; SoCreate 1 1; SoDestroy 2 1; SoDestroyNow 1 2; SoCreate 0 2;
   SoDestroyNow 3 17; SoClearArch 1; SoUnlock; SoUnlock; SoUnlock; SoCreate 0 1; SoDestroy 5 3; SoUpdate; SoClearArch 2; SoCreate 0 2]%N.

(* the contract is decidable along the script *)
Definition op_okb (n : nat) (sp : sst) (o : sop) : bool :=
  match o with
  | SoUpdate => Nat.eqb (sp_lock sp) 0
  | SoCreate tid _ | SoDestroy tid _ | SoDestroyNow tid _ => Nat.eqb (sp_lock sp) 0 || Nat.ltb tid n
  | SoClearArch _ | SoLock | SoUnlock => true
  end.
Fixpoint contract_fromb (n : nat) (sp : sst) (ops : list sop) : bool :=
  match ops with [] => true | o :: t => op_okb n sp o && contract_fromb n (spec_step sp o) t end.

Lemma op_okb_ok n sp o : op_okb n sp o = true -> op_ok n sp o.
Proof.
  destruct o as [tid key|tid k|tid k|key| | |]; cbn [op_okb op_ok]; intros H; try exact I;
    try (apply Nat.eqb_eq; exact H);
    (apply orb_true_iff in H; destruct H as [H|H]; [apply Nat.eqb_eq in H; intros Hne; contradiction|apply Nat.ltb_lt in H; intros _; exact H]).
Qed.

Lemma contract_fromb_ok n : forall ops sp, contract_fromb n sp ops = true -> contract_from n sp ops.
Proof.
  induction ops as [|o t IH]; intros sp H; [exact I|]. cbn [contract_fromb] in H. apply andb_true_iff in H. destruct H as (H1 & H2).
  split; [apply op_okb_ok; exact H1|apply IH; exact H2].
Qed.

Lemma contract_from_dec_demo : contract_from 4 (sp_init 4) demo_script.
Proof. apply contract_fromb_ok. vm_compute. reflexivity. Qed.

Example srun_total_nonvacuous : in_contract 4 demo_script /\ bounded demo_script.
Proof. split; [apply in_contract_iff; exact contract_from_dec_demo|vm_compute; reflexivity]. Qed.

(* both clauses of the contract are necessary: outside it the model returns Err *)
Example update_while_locked_errs : srun 4 [SoLock; SoUpdate] = Err (Throw 2).
Proof. vm_compute. reflexivity. Qed.
Example tid_beyond_buffers_errs : srun 4 [SoLock; SoDestroy 4 0] = Err OobIndex.
Proof. vm_compute. reflexivity. Qed.
Example tid_beyond_buffers_create_errs : srun 4 [SoLock; SoCreate 4 1%N] = Err OobIndex.
Proof. vm_compute. reflexivity. Qed.
