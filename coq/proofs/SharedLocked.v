(* C12 under lock: the relation SLR between a Manager run and the run of the specification over the alphabet with
   lock / unlock AND shared components (assigned / removed while the manager is not locked).
   SLR = the relation LR of C05 on the re-keyed model state (SharedFrame.rk) and the specification with the shared values
   erased (SharedInv.xns) + "every archetype's shared info is well formed, typed and pooled, the pool invariant holds"
   + SK: "the shared values the specification gives a live entity are those of the shared info of the archetype it is in"
   + "the masks of the recorded creations are inside the 128 bits".
   - operations that do not read the archetypes commute with the re-keying: the step lemmas of C05 are reused as they are;
   - the unlocked create / destroyNow / assign / remove / write / assignShared / removeShared go through the step lemma
     of the unlocked refinement with shared components (SharedMain.SInv_step);
   - update() and the flush are followed with the invariant SLInv (SharedLInv.v, SharedFlush.v). *)
Require Import Coq.Lists.List Coq.NArith.NArith Coq.ZArith.ZArith Coq.Arith.Arith Coq.Bool.Bool Coq.micromega.Lia Coq.Sorting.Permutation.
From Mustache Require Import Res Manager MgrSpec Refine.
From Mustache Require Skeleton.
From Mustache Require Import SkelSpec.
From Mustache.proofs Require Import ListLemmas SkelBasics SkelInv SkelSteps SkelRefine SkelLocked SkelFlush SkelMove SkelMoveRem SkelMain ClosureProofs
  ManagerBasics ManagerMoves ManagerProj ManagerInv ManagerMain ManagerWorlds ManagerLInv ManagerPack ManagerFlush ManagerLocked ManagerLockedMain
  DepsFrame DepsClosure DepsInv SharedProofs SharedKey SharedVals SharedFrame SharedInv SharedMain SharedLInv SharedFlush SharedCtl.
From Mustache.proofs Require ManagerDeferred ManagerIsolation DepsLocked.
Import ListNotations.

(* ---------------------------------------------------------------------------------------- *)
(* the relation *)
Definition SK (s : mst) (hs : list handle) (x : xst) : Prop :=
  forall k e, find_ent x k = Some e -> is_valid s (hnd hs k) = true -> e_shared e = shvals s (shared_at s (hnd hs k)).

Record EX (s : mst) : Prop := {
  ex_chunk : chunk_fns s = [];
  ex_hdr : Forall (hok s) (archs s);
  ex_pool : pool_wf s;
  ex_typool : typool s
}.

Definition BL (x : xst) : Prop := Forall (Forall xlow) (x_bufs x).

Record SLR (cis : list cinfo) (s : mst) (hs : list handle) (x : xst) : Prop := {
  sr_L : LR cis (rk s) hs (xns x);
  sr_E : EX s;
  sr_K : SK s hs x;
  sr_bl : BL x
}.

Lemma EX_of_SX s al x : SX s al x -> EX s.
Proof. intros [A B C D _]. constructor; assumption. Qed.

Lemma SX_of_SK cis s hs al rem x : LInv cis (rk s) hs al rem (xns x) -> EX s -> SK s hs x -> SX s al x.
Proof.
  intros HL [A B C D] HK. constructor; try assumption. intros k key e Hin Hfe.
  destruct (live_l _ _ _ _ _ _ (li_G _ _ _ _ _ _ HL) Hin) as (Hk & ai & idx & a' & Hloc & Ha' & Hkey & Hent).
  destruct (arch_rk_inv _ _ _ Ha') as (a & Ha & ->). exists a. split; [eapply nth_error_In; exact Ha|]. split; [exact Hkey|].
  assert (Hv : is_valid s (hnd hs k) = true).
  { apply (valid_l (rk s) _ _ _ _ (li_G _ _ _ _ _ _ HL) Hk). unfold alive. apply in_map_iff. exists (k, key). auto. }
  rewrite (HK k e Hfe Hv). unfold shared_at. change (locs (rk s)) with (locs s) in Hloc. rewrite Hloc. simpl. rewrite Ha. reflexivity.
Qed.

Lemma SK_of_SX cis s hs al rem x : SLInv cis s hs al rem x -> SK s hs x.
Proof.
  intros HS k e Hfe Hv. destruct (valid_find_sl _ _ _ _ _ _ _ HS Hv) as (_ & Ha & _). destruct (alive_in _ _ Ha) as (key & Hin).
  destruct (live_sl _ _ _ _ _ _ _ _ HS Hin) as (_ & e1 & ai & idx & a & Hfe1 & Hloc & Harch & _ & _ & _ & Hsh).
  rewrite Hfe in Hfe1. inversion Hfe1; subst e1. unfold shared_at. rewrite Hloc. simpl. rewrite Harch. exact Hsh.
Qed.

Lemma SLR_inv cis s hs x : SLR cis s hs x -> exists al, SLInv cis s hs al (xrem (concat (x_bufs x))) x.
Proof.
  intros [HR HE HK _]. destruct (lr_inv _ _ _ _ HR) as (al & HL). exists al. split; [exact HL|]. eapply SX_of_SK; eassumption.
Qed.

Lemma SLR_of cis s hs x al : LR cis (rk s) hs (xns x) -> SLInv cis s hs al (xrem (concat (x_bufs x))) x -> BL x -> SLR cis s hs x.
Proof. intros HR HS HB. constructor; [exact HR|exact (EX_of_SX _ _ _ (proj2 HS))|eapply SK_of_SX; exact HS|exact HB]. Qed.

Lemma SLR_set_log cis s hs x l : SLR cis s hs x -> SLR cis (set_log s l) hs x.
Proof.
  intros [HR [A B C D] HK HB]. constructor; [exact (LR_set_log cis (rk s) hs (xns x) l HR)|constructor; assumption|exact HK|exact HB].
Qed.

(* ---- the extras along a step that keeps the pool and the archetype headers (new ones may be appended) ---- *)
Lemma EX_frame s s' ext : EX s -> hdl s' = hdl s ++ ext -> (forall a, In a (archs s') -> In (hdr a) ext -> hok s' a) ->
  pool s' = pool s -> insts s' = insts s -> chunk_fns s' = chunk_fns s -> EX s'.
Proof.
  intros [A B C D] Eh Hnew Ep Ei Ec.
  assert (HX : SX s [] (x_init 0 [])) by (constructor; try assumption; intros k key e []).
  apply (EX_of_SX s' [] (x_init 0 [])). apply (SX_frame s s' [] [] _ _ ext HX); try assumption; [congruence|]. intros k key e' [].
Qed.

Lemma shared_at_frame s s' ext h ai idx a : locs s' = locs s -> hdl s' = hdl s ++ ext ->
  nth_error (locs s) (N.to_nat (fst h)) = Some {| l_arch := Some ai; l_idx := idx |} -> nth_error (archs s) ai = Some a ->
  shared_at s' h = am_shared a.
Proof.
  intros El Eh Hloc Ha. unfold shared_at. rewrite El, Hloc. simpl.
  assert (Hh : nth_error (hdl s') ai = Some (hdr a)).
  { rewrite Eh, nth_error_app1 by (unfold hdl; rewrite map_length; apply nth_error_Some; congruence). unfold hdl. apply map_nth_error. exact Ha. }
  unfold hdl in Hh. apply nth_error_map_inv in Hh. destruct Hh as (a' & Ha' & E). rewrite Ha'. unfold hdr in E. inversion E. reflexivity.
Qed.

Lemma SK_transfer cis s hs al rem x s' hs' x' ext :
  SLInv cis s hs al rem x -> locs s' = locs s -> hdl s' = hdl s ++ ext -> insts s' = insts s ->
  (hs' = hs \/ exists h, hs' = hs ++ [h]) ->
  (forall k e', find_ent x' k = Some e' -> exists e, find_ent x k = Some e /\ e_shared e' = e_shared e) ->
  SK s' hs' x'.
Proof.
  intros HS El Eh Ei Hhs Hf k e' Hfe _. destruct (Hf k e' Hfe) as (e & Hfe0 & Es). pose proof HS as (HL & _).
  assert (Ha : alive al k).
  { apply (li_alive _ _ _ _ _ _ HL). rewrite alive_x_xns. apply alive_x_find. congruence. }
  destruct (alive_in _ _ Ha) as (key & Hin).
  destruct (live_sl _ _ _ _ _ _ _ _ HS Hin) as (Hk & e1 & ai & idx & a & Hfe1 & Hloc & Harch & _ & _ & _ & Hsh).
  rewrite Hfe0 in Hfe1. inversion Hfe1; subst e1.
  assert (Ehk : hnd hs' k = hnd hs k) by (destruct Hhs as [->|(h & ->)]; [reflexivity|apply hnd_app1; exact Hk]).
  rewrite Ehk, (shared_at_frame s s' ext _ ai idx a El Eh Hloc Harch), Es, Hsh. symmetry. apply shvals_same. exact Ei.
Qed.

Lemma mstep_hs typed s hs o s' hs' : mstep typed (s, hs) o = Ok (s', hs') -> hs' = hs \/ exists h, hs' = hs ++ [h].
Proof. intros H. unfold mstep in H. bd H r Hst. destruct r as (s1, out). inversion H. destruct out; eauto. Qed.

(* ---------------------------------------------------------------------------------------- *)
(* recording, locking, marking and writing a cell commute with the re-keying *)
Lemma push_cmd_rk s tid c : push_cmd (rk s) tid c = rmap rk (push_cmd s tid c).
Proof. unfold push_cmd. change (bufs (rk s)) with (bufs s). apply bind_same. intros b. reflexivity. Qed.

Lemma create_locked_rk s tid m sh : create_locked (rk s) tid m sh = rmap rk1 (create_locked s tid m sh).
Proof.
  unfold create_locked. change (next_eid (rk s)) with (next_eid s). change (slots (rk s)) with (slots s). apply (bind_comm rk).
  - apply (push_cmd_rk (set_eid s (next_eid s + 1)%N)).
  - intros s1. reflexivity.
Qed.

Lemma assign_locked_rk s tid h c sk : assign_locked (rk s) tid h c sk = rmap rk1 (assign_locked s tid h c sk).
Proof.
  unfold assign_locked. change (info_of (rk s) c) with (info_of s c). apply bind_same. intros inf.
  change (tmps (rk s)) with (tmps s). change (epoch (rk s)) with (epoch s). apply bind_same. intros tl0.
  destruct (ci_create inf) as [z|]; [destruct sk; [|destruct (ci_ev inf)]|].
  - apply (bind_comm rk); [apply push_cmd_rk|]. intros s2. reflexivity.
  - apply (bind_comm rk); [apply (push_cmd_rk (emit s _))|]. intros s2. reflexivity.
  - apply (bind_comm rk); [apply push_cmd_rk|]. intros s2. reflexivity.
  - apply (bind_comm rk); [apply push_cmd_rk|]. intros s2. reflexivity.
Qed.

Lemma write_tmp_rk s tid n v : write_tmp (rk s) tid n v = rmap rk (write_tmp s tid n v).
Proof. unfold write_tmp. change (tmps (rk s)) with (tmps s). apply bind_same. intros tl0. apply bind_same. intros tl'. reflexivity. Qed.

Lemma do_lock_rk s : do_lock (rk s) = rk (do_lock s).
Proof. unfold do_lock. change (lockc (rk s)) with (lockc s). destruct (lockc s); reflexivity. Qed.

(* the operations that do not read the archetypes (or only a cell), in the lock state in which they do not *)
Definition ca (s : mst) (o : xop) : Prop :=
  match o with
  | XoDestroy _ _ | XoUpdate | XoLock => True
  | XoSet _ c _ => c < MASK_BITS
  | XoUnlock => exists n, lockc s = S (S n)
  | XoCreate _ _ sids via => lockc s <> 0 /\ via = false /\ sids = []
  | XoDestroyNow _ _ | XoAssign _ _ _ _ | XoRemove _ _ _ _ => lockc s <> 0
  | _ => False
  end.

Lemma step_rk typed s hs o : ca s o ->
  step (rk s) (concretize typed hs o) = rmap rk1 (step s (concretize typed hs o)).
Proof.
  intros Hn. destruct o; simpl in Hn; try contradiction; cbn [concretize].
  - (* create, locked *)
    destruct Hn as (Hl & -> & ->). cbn [step]. unfold make_shared_info. cbn [fold_res]. rewrite !bind_Ok. cbv beta iota.
    change (lockc (rk s)) with (lockc s). destruct (lockc s) as [|n]; [congruence|].
    apply (bind_comm rk1); [apply create_locked_rk|]. intros (s1, h). reflexivity.
  - (* destroy *)
    cbn [step]. change (lockc (rk s)) with (lockc s). destruct (lockc s); [reflexivity|].
    apply (bind_comm rk); [apply push_cmd_rk|]. intros s1. reflexivity.
  - (* destroyNow *)
    cbn [step]. change (lockc (rk s)) with (lockc s). destruct (lockc s); [congruence|].
    apply (bind_comm rk); [apply push_cmd_rk|]. intros s1. reflexivity.
  - (* update *)
    cbn [step]. cbv zeta. cbv iota. change (lockc (inc_wv (rk s))) with (lockc s). change (lockc (inc_wv s)) with (lockc s).
    destruct (lockc s); [|reflexivity].
    apply (bind_comm rk).
    + apply (fold_res_comm_in rk destroy_now_unlocked destroy_now_unlocked (marked s) (fun st x _ => destroy_now_unlocked_rk st x)
               (set_wv (inc_wv s) (wv (inc_wv s)) (Some (wv (inc_wv s))))).
    + intros s2. reflexivity.
  - (* lock *)
    cbn [step]. rewrite do_lock_rk. reflexivity.
  - (* unlock that stays locked *)
    destruct Hn as (n & Hl). rewrite (ManagerIsolation.nested_unlock_does_not_flush s n Hl).
    rewrite (ManagerIsolation.nested_unlock_does_not_flush (rk s) n Hl). reflexivity.
  - (* assign, locked *)
    destruct (lockc s) as [|n] eqn:El; [congruence|].
    rewrite (ManagerDeferred.step_assign_locked s _ _ _ _ _ n El), (ManagerDeferred.step_assign_locked (rk s) _ _ _ _ _ n El).
    change (info_of (rk s) c) with (info_of s c). apply bind_same. intros inf.
    apply (bind_comm rk1); [apply assign_locked_rk|]. intros (s1, nn). cbn [rk1 fst snd]. destruct v as [z|]; [|reflexivity].
    apply (bind_comm rk).
    + destruct (ci_hasval inf); [apply write_tmp_rk|reflexivity].
    + intros s2. change (epoch (rk s)) with (epoch s). destruct typed; [destruct (ci_ev inf)|]; reflexivity.
  - (* remove, locked *)
    cbn [step]. change (lockc (rk s)) with (lockc s). destruct (lockc s); [congruence|].
    apply (bind_comm rk); [apply push_cmd_rk|]. intros s1. reflexivity.
  - (* write through getComponent *)
    change (get_mut (rk s) (resolve hs k) c (Some v) = rmap rk1 (get_mut s (resolve hs k) c (Some v))). apply get_mut_rk. exact Hn.
Qed.

Lemma mstep_rk typed s hs o s' hs' : ca s o -> mstep typed (s, hs) o = Ok (s', hs') -> mstep typed (rk s, hs) o = Ok (rk s', hs').
Proof.
  intros Hn H. unfold mstep in *. bd H r Hst. destruct r as (s1, out). inversion H; subst s' hs'; clear H.
  rewrite (step_rk typed s hs o Hn), Hst. reflexivity.
Qed.

(* ... and so do the same operations of the specification with the erasure of the shared values *)
Lemma xns_fold_kill : forall l x, fold_left x_kill l (xns x) = xns (fold_left x_kill l x).
Proof. induction l as [|k l IH]; intros x; simpl; [reflexivity|]. rewrite xns_kill. apply IH. Qed.

Definition xca (x : xst) (o : xop) : Prop :=
  match o with
  | XoDestroy _ _ | XoUpdate | XoLock | XoSet _ _ _ => True
  | XoUnlock => exists n, x_lock x = S (S n)
  | XoCreate _ _ _ _ | XoDestroyNow _ _ | XoAssign _ _ _ _ | XoRemove _ _ _ _ => x_lock x <> 0
  | _ => False
  end.

Lemma x_step_xns x o : xca x o -> x_step (xns x) o = xns (x_step x o).
Proof.
  intros Hn. unfold x_step. destruct o; simpl in Hn; try contradiction.
  - change (out_of_contract (xns x) (XoCreate tid m sids via_arch)) with (out_of_contract x (XoCreate tid m sids via_arch)).
    destruct (out_of_contract x _); [reflexivity|]. unfold x_step_in. change (x_lock (xns x)) with (x_lock x). destruct (x_lock x); [congruence|reflexivity].
  - change (out_of_contract (xns x) (XoDestroy tid k)) with (out_of_contract x (XoDestroy tid k)).
    destruct (out_of_contract x _); [reflexivity|]. unfold x_step_in. change (issued_b (xns x) k) with (issued_b x k). change (x_lock (xns x)) with (x_lock x).
    destruct (negb (issued_b x k)); [reflexivity|]. destruct (x_lock x); reflexivity.
  - change (out_of_contract (xns x) (XoDestroyNow tid k)) with (out_of_contract x (XoDestroyNow tid k)).
    destruct (out_of_contract x _); [reflexivity|]. unfold x_step_in. change (issued_b (xns x) k) with (issued_b x k). change (x_lock (xns x)) with (x_lock x).
    destruct (negb (issued_b x k)); [reflexivity|]. destruct (x_lock x); [congruence|reflexivity].
  - change (out_of_contract (xns x) XoUpdate) with (out_of_contract x XoUpdate).
    destruct (out_of_contract x _); [reflexivity|]. unfold x_step_in. change (x_marked (xns x)) with (x_marked x). rewrite xns_fold_kill. reflexivity.
  - change (out_of_contract (xns x) XoLock) with (out_of_contract x XoLock).
    destruct (out_of_contract x _); [reflexivity|]. unfold x_step_in. change (x_lock (xns x)) with (x_lock x). destruct (x_lock x); reflexivity.
  - destruct Hn as (n & Hl). change (out_of_contract (xns x) XoUnlock) with (out_of_contract x XoUnlock).
    destruct (out_of_contract x _); [reflexivity|]. unfold x_step_in. change (x_lock (xns x)) with (x_lock x). rewrite Hl. reflexivity.
  - assert (E : out_of_contract (xns x) (XoAssign tid k c v) = out_of_contract x (XoAssign tid k c v)).
    { simpl. change (x_lock (xns x)) with (x_lock x). destruct (x_lock x); [congruence|reflexivity]. }
    rewrite E. destruct (out_of_contract x _); [reflexivity|]. unfold x_step_in. change (issued_b (xns x) k) with (issued_b x k). change (x_lock (xns x)) with (x_lock x).
    destruct (negb (issued_b x k)); [reflexivity|]. destruct (x_lock x); [congruence|reflexivity].
  - assert (E : out_of_contract (xns x) (XoRemove tid k c typed) = out_of_contract x (XoRemove tid k c typed)).
    { simpl. change (x_lock (xns x)) with (x_lock x). destruct (x_lock x); [congruence|reflexivity]. }
    rewrite E. destruct (out_of_contract x _); [reflexivity|]. unfold x_step_in. change (issued_b (xns x) k) with (issued_b x k). change (x_lock (xns x)) with (x_lock x).
    destruct (negb (issued_b x k)); [reflexivity|]. destruct (x_lock x); [congruence|reflexivity].
  - change (out_of_contract (xns x) (XoSet k c v)) with (out_of_contract x (XoSet k c v)).
    destruct (out_of_contract x _); [reflexivity|]. apply xns_set.
Qed.

(* the entities of the specification along these operations: none appears, none changes its shared values *)
Lemma find_ca x o : xca x o -> forall k e', find_ent (x_step x o) k = Some e' -> exists e, find_ent x k = Some e /\ e_shared e' = e_shared e.
Proof.
  intros Hn k e' H. unfold x_step in H. destruct (out_of_contract x o); [exists e'; auto|].
  destruct o; simpl in Hn; try contradiction; unfold x_step_in in H.
  - destruct (x_lock x); [congruence|]. exists e'. auto.
  - destruct (negb (issued_b x k0)); [exists e'; auto|]. destruct (x_lock x); exists e'; auto.
  - destruct (negb (issued_b x k0)); [exists e'; auto|]. destruct (x_lock x); [congruence|]. exists e'. auto.
  - rewrite xw_marked_find, find_fold_kill in H. destruct (existsb _ _); [discriminate|]. exists e'. auto.
  - destruct (x_lock x); exists e'; auto.
  - destruct Hn as (n & Hl). rewrite Hl in H. exists e'. auto.
  - destruct (negb (issued_b x k0)); [exists e'; auto|]. destruct (x_lock x); [congruence|]. exists e'. auto.
  - destruct (negb (issued_b x k0)); [exists e'; auto|]. destruct (x_lock x); [congruence|]. exists e'. auto.
  - destruct (find_ent x k0) as [e|] eqn:Hfk; [|exists e'; auto]. destruct (has_comp (e_comps e) c); [|exists e'; auto].
    rewrite find_ent_findk in H. simpl in H. rewrite findk_put in H. simpl in H.
    destruct (Nat.eqb_spec k k0) as [->|Hne]; [|exists e'; rewrite find_ent_findk; auto]. inversion H; subst e'. exists e. auto.
Qed.

(* ---------------------------------------------------------------------------------------- *)
(* the alphabet: that of C05 (ManagerLockedMain.alphaL_b: lock / unlock, the C02 operations from any thread, destroy,
   update) with creation masks inside the 128 bits, plus assignShared / removeShared *)
Definition alphaL_s (cis : list cinfo) (o : xop) : bool :=
  match o with
  | XoCreate _ m sids _ => (match sids with [] => true | _ => false end) && lowmb m
  | XoAssignShared _ _ _ | XoRemoveShared _ _ => true
  | _ => alphaL_b cis o
  end.

Definition is_shared (o : xop) : bool := match o with XoAssignShared _ _ _ | XoRemoveShared _ _ => true | _ => false end.

Lemma alphaL_s_b cis o : alphaL_s cis o = true -> is_shared o = false -> alphaL_b cis o = true.
Proof. intros Ha Hn. destruct o; simpl in *; try exact Ha; try discriminate. apply andb_true_iff in Ha. tauto. Qed.

Lemma alphaL_s_d cis o : alphaL_s cis o = true -> is_shared o = false -> DepsLocked.alphaL_d cis o = true.
Proof. intros Ha Hn. destruct o; simpl in *; try exact Ha; discriminate. Qed.

Lemma BL_step cis x o : alphaL_s cis o = true -> BL x -> BL (x_step x o).
Proof.
  intros Ha HB. destruct (is_shared o) eqn:Es.
  - unfold x_step. destruct (out_of_contract x o); [exact HB|]. destruct o; try discriminate; unfold x_step_in; destruct (find_ent x k); exact HB.
  - exact (DepsLocked.BL_step cis x o (alphaL_s_d cis o Ha Es) HB).
Qed.

(* ---------------------------------------------------------------------------------------- *)
(* a step of the first kind: the relation of C05 is carried over by the step lemma of C05 on the re-keyed states *)
Lemma SLR_ca0 cis typed s hs x o s' hs' ext :
  SLR cis s hs x -> cis_ok cis -> mstep typed (rk s, hs) o = Ok (rk s', hs') -> xca x o ->
  alphaL_s cis o = true -> is_shared o = false -> x_viol x = 0 -> x_viol (x_step x o) = 0 ->
  mstep typed (s, hs) o = Ok (s', hs') -> within (length hs') ->
  locs s' = locs s -> hdl s' = hdl s ++ ext -> (forall a, In a (archs s') -> In (hdr a) ext -> hok s' a) ->
  pool s' = pool s -> insts s' = insts s -> chunk_fns s' = chunk_fns s ->
  SLR cis s' hs' (x_step x o).
Proof.
  intros HR Hok Hrk Hxn Ha Hns Hv0 Hv1 H Hb El Eh Hnew Ep Ei Ec. pose proof HR as [HL HE HK HB].
  destruct (SLR_inv _ _ _ _ HR) as (al & HS).
  constructor.
  - rewrite <- (x_step_xns x o Hxn). apply (LR_step cis typed (rk s) hs (xns x) o (rk s') hs' HL Hok (alphaL_s_b cis o Ha Hns) Hv0); [|exact Hrk|exact Hb].
    rewrite (x_step_xns x o Hxn). exact Hv1.
  - apply (EX_frame s s' ext HE Eh Hnew Ep Ei Ec).
  - apply (SK_transfer cis s hs al _ x s' hs' (x_step x o) ext HS El Eh Ei (mstep_hs _ _ _ _ _ _ H)). apply find_ca. exact Hxn.
  - apply (BL_step cis); assumption.
Qed.

Lemma SLR_ca cis typed s hs x o s' hs' ext :
  SLR cis s hs x -> cis_ok cis -> ca s o -> alphaL_s cis o = true -> is_shared o = false -> x_viol x = 0 -> x_viol (x_step x o) = 0 ->
  mstep typed (s, hs) o = Ok (s', hs') -> within (length hs') ->
  locs s' = locs s -> hdl s' = hdl s ++ ext -> (forall a, In a (archs s') -> In (hdr a) ext -> hok s' a) ->
  pool s' = pool s -> insts s' = insts s -> chunk_fns s' = chunk_fns s ->
  SLR cis s' hs' (x_step x o).
Proof.
  intros HR Hok Hn Ha Hns Hv0 Hv1 H Hb El Eh Hnew Ep Ei Ec.
  assert (Hlk : lockc s = x_lock x) by exact (lr_lock _ _ _ _ (sr_L _ _ _ _ HR)).
  assert (Hxn : xca x o).
  { destruct o; simpl in Hn |- *; try exact Hn; try exact I; try (rewrite <- Hlk; tauto). }
  apply (SLR_ca0 cis typed s hs x o s' hs' ext HR Hok (mstep_rk typed s hs o s' hs' Hn H) Hxn); assumption.
Qed.

(* the operations recorded while locked move the id counter, the buffers with their temporaries and the log only *)
Lemma locked_rec_form typed s hs o s1 out n : lockc s = S n ->
  match o with
  | XoCreate _ _ sids via => sids = [] /\ via = false
  | XoDestroy _ _ | XoDestroyNow _ _ | XoAssign _ _ _ _ | XoRemove _ _ _ _ => True
  | _ => False
  end ->
  step s (concretize typed hs o) = Ok (s1, out) ->
  s1 = ManagerDeferred.with_rec s (next_eid s1) (bufs s1) (tmps s1) (log s1).
Proof.
  intros Hl Ho H. destruct o; try contradiction; cbn [concretize] in H.
  - destruct Ho as (-> & ->). unfold step, make_shared_info in H. cbn [fold_res] in H. rewrite bind_Ok in H. cbv beta iota in H. rewrite Hl in H.
    bd H r Hcl. destruct r as (s2, h). inversion H; subst s1 out. destruct (ManagerDeferred.create_locked_spec _ _ _ _ _ _ Hcl) as (_ & b & _ & ->). reflexivity.
  - unfold step in H. rewrite Hl in H. bd H s2 Hp. inversion H; subst s1 out. destruct (ManagerDeferred.push_cmd_spec _ _ _ _ Hp) as (b & _ & ->). reflexivity.
  - unfold step in H. rewrite Hl in H. bd H s2 Hp. inversion H; subst s1 out. destruct (ManagerDeferred.push_cmd_spec _ _ _ _ Hp) as (b & _ & ->). reflexivity.
  - rewrite (ManagerDeferred.step_assign_locked s _ _ _ _ _ n Hl) in H. bd H inf Hinf. bd H r Hal. destruct r as (s2, nn).
    destruct (ManagerDeferred.assign_locked_spec _ _ _ _ _ _ _ Hal) as (inf' & b & tl & _ & _ & _ & _ & ->). cbn [fst snd] in H.
    destruct v as [z|]; [|inversion H; subst s1 out; reflexivity].
    bd H s3 Hw. destruct (ci_hasval inf).
    + destruct (ManagerDeferred.write_tmp_spec _ _ _ _ _ Hw) as (tl2 & _ & _ & ->). destruct typed; [destruct (ci_ev inf)|]; inversion H; subst s1 out; reflexivity.
    + inversion Hw; subst s3. destruct typed; [destruct (ci_ev inf)|]; inversion H; subst s1 out; reflexivity.
  - unfold step in H. rewrite Hl in H. bd H s2 Hp. inversion H; subst s1 out. destruct (ManagerDeferred.push_cmd_spec _ _ _ _ Hp) as (b & _ & ->). reflexivity.
Qed.

Lemma get_mut_frame s h c w s' out : get_mut s h c w = Ok (s', out) -> fr1 s' = fr1 s /\ hdl s' = hdl s.
Proof.
  unfold get_mut. intros H. destruct (negb (is_valid s h)); [inversion H; auto|]. bd H l Hl.
  destruct (l_arch l) as [ai|]; [|inversion H; auto]. bd H a Ha. apply nth_res_ok in Ha.
  destruct (cindex (am_mask a) c) as [ci|]; [|inversion H; auto].
  bd H ch Hch. bd H a1 Ha1. apply vs_set_one_ok in Ha1. destruct Ha1 as (g & cv & ->). cbv zeta in H. inversion H; subst s' out; clear H.
  split; [reflexivity|]. unfold hdl. simpl archs. apply (hdl_upd _ _ _ _ Ha). destruct w; reflexivity.
Qed.

Lemma SLR_ca_step cis typed s hs x o s' hs' :
  SLR cis s hs x -> cis_ok cis -> alphaL_s cis o = true -> x_viol x = 0 -> x_viol (x_step x o) = 0 ->
  mstep typed (s, hs) o = Ok (s', hs') -> within (length hs') ->
  match o with
  | XoDestroy _ _ | XoLock | XoSet _ _ _ => True
  | XoUnlock => exists n, lockc s = S (S n)
  | XoCreate _ _ sids via => lockc s <> 0 /\ via = false
  | XoDestroyNow _ _ | XoAssign _ _ _ _ | XoRemove _ _ _ _ => lockc s <> 0
  | _ => False
  end ->
  SLR cis s' hs' (x_step x o).
Proof.
  intros HR Hok Ha Hv0 Hv1 H Hb Ho.
  assert (Hsame : forall s1 out, step s (concretize typed hs o) = Ok (s1, out) -> s' = set_log s1 [] ->
            ca s o -> is_shared o = false -> locs s1 = locs s -> hdl s1 = hdl s -> pool s1 = pool s -> insts s1 = insts s -> chunk_fns s1 = chunk_fns s ->
            SLR cis s' hs' (x_step x o)).
  { intros s1 out Hst -> Hca Hns E1 E2 E3 E4 E5.
    apply (SLR_ca cis typed s hs x o _ hs' [] HR Hok Hca Ha Hns Hv0 Hv1 H Hb); try assumption.
    - rewrite app_nil_r. exact E2.
    - intros a _ []. }
  assert (Hrec : forall n, lockc s = S n ->
            match o with XoCreate _ _ sids via => sids = [] /\ via = false | XoDestroy _ _ | XoDestroyNow _ _ | XoAssign _ _ _ _ | XoRemove _ _ _ _ => True | _ => False end ->
            ca s o -> is_shared o = false -> SLR cis s' hs' (x_step x o)).
  { intros n Hl Hf Hca Hns. unfold mstep in H. bd H r Hst. destruct r as (s1, out).
    pose proof (locked_rec_form typed s hs o s1 out n Hl Hf Hst) as E. inversion H; subst s' hs'.
    apply (Hsame s1 out Hst eq_refl Hca Hns); rewrite E; reflexivity. }
  destruct o; try contradiction.
  - (* create *)
    destruct Ho as (Hl & ->). simpl in Ha. apply andb_true_iff in Ha. destruct Ha as (Hs & _). destruct sids; [|discriminate].
    destruct (lockc s) as [|n] eqn:El; [congruence|]. apply (Hrec n eq_refl); simpl; auto. rewrite El. auto.
  - (* destroy *)
    destruct (lockc s) as [|n] eqn:El.
    + unfold mstep in H. bd H r Hst. destruct r as (s1, out). inversion H; subst s' hs'. pose proof Hst as Hst0. cbn [concretize step] in Hst. rewrite El in Hst.
      inversion Hst; subst s1 out. apply (Hsame _ _ Hst0 eq_refl I eq_refl); reflexivity.
    + apply (Hrec n eq_refl I I eq_refl).
  - destruct (lockc s) as [|n] eqn:El; [congruence|]. apply (Hrec n eq_refl I); simpl; [rewrite El; discriminate|reflexivity].
  - (* lock *)
    unfold mstep in H. bd H r Hst. destruct r as (s1, out). inversion H; subst s' hs'. pose proof Hst as Hst0. cbn [concretize step] in Hst.
    inversion Hst; subst s1 out. apply (Hsame _ _ Hst0 eq_refl I eq_refl); unfold do_lock, hdl; destruct (lockc s); reflexivity.
  - (* unlock that stays locked *)
    destruct Ho as (n & Hl). unfold mstep in H. bd H r Hst. destruct r as (s1, out). inversion H; subst s' hs'. pose proof Hst as Hst0.
    cbn [concretize] in Hst. rewrite (ManagerIsolation.nested_unlock_does_not_flush s n Hl) in Hst. inversion Hst; subst s1 out.
    apply (Hsame _ _ Hst0 eq_refl); [simpl; eauto|reflexivity|reflexivity|reflexivity|reflexivity|reflexivity|reflexivity].
  - destruct (lockc s) as [|n] eqn:El; [congruence|]. apply (Hrec n eq_refl I); simpl; [rewrite El; discriminate|reflexivity].
  - destruct (lockc s) as [|n] eqn:El; [congruence|]. apply (Hrec n eq_refl I); simpl; [rewrite El; discriminate|reflexivity].
  - (* write through getComponent *)
    simpl in Ha. apply Nat.ltb_lt in Ha. unfold mstep in H. bd H r Hst. destruct r as (s1, out). inversion H; subst s' hs'. pose proof Hst as Hst0.
    cbn [concretize] in Hst. destruct (get_mut_frame _ _ _ _ _ _ Hst) as (F & Eh). destruct (fr1_pool _ _ F) as (P1 & P2 & P3).
    apply (Hsame _ _ Hst0 eq_refl Ha eq_refl); try assumption. apply (fr1_locs _ _ F).
Qed.

(* ---------------------------------------------------------------------------------------- *)
(* create(Archetype&) under lock: the driver fetches the archetype first (it may be new) and the recorded mask and shared
   info are the archetype's: the requested mask and no shared component *)
Lemma SLR_create_via cis typed s hs x tid m s' hs' n :
  SLR cis s hs x -> cis_ok cis -> x_lock x = S n -> lowmb m = true -> x_viol x = 0 ->
  x_viol (x_step x (XoCreate tid m [] true)) = 0 -> within (length hs') ->
  mstep typed (s, hs) (XoCreate tid m [] true) = Ok (s', hs') -> SLR cis s' hs' (x_step x (XoCreate tid m [] true)).
Proof.
  intros HR Hok El Hlmb Hv0 Hv1 Hb H. pose proof HR as [HL HE HK HB]. pose proof (lowmb_ok _ Hlmb) as Hlm.
  assert (Hlk : lockc s = S n) by (rewrite <- El; exact (lr_lock _ _ _ _ HL)).
  destruct (SLR_inv _ _ _ _ HR) as (al & HS). pose proof HS as (HI & HX).
  assert (Hd : deps s = []) by exact (li_deps _ _ _ _ _ _ HI).
  pose proof H as H0. unfold mstep in H. bd H r Hst. destruct r as (s1, out). cbn [concretize] in Hst.
  unfold step, make_shared_info in Hst. cbn [fold_res] in Hst. rewrite bind_Ok in Hst. cbv beta iota in Hst. rewrite Hlk in Hst.
  bd Hst rg Hga. destruct rg as (sg, ai). cbv beta iota in Hst. bd Hst a Ha. apply nth_res_ok in Ha. bd Hst r2 Hcl. destruct r2 as (s2, h).
  inversion Hst; subst s1 out; clear Hst. inversion H; subst s' hs'; clear H. simpl fst in *. simpl snd in *.
  (* the archetype *)
  assert (Hg : fr1 sg = fr1 s /\ am_mask a = m /\ am_shared a = si_null /\
               exists ext, hdl sg = hdl s ++ ext /\ forall a0, In (hdr a0) ext -> hdr a0 = (m, si_null)).
  { destruct (get_arch_ok _ _ _ _ _ Hd Hga) as [(-> & a' & Ha' & Hma & Hsa)|(Hf & -> & cs & ->)].
    - rewrite Ha in Ha'. inversion Ha'; subst a'. split; [reflexivity|]. split; [exact Hma|]. split.
      + apply si_eqb_null; [|exact Hsa]. destruct (SL_hok _ _ _ _ _ _ _ _ HS Ha) as (_ & W & _). exact W.
      + exists []. rewrite app_nil_r. split; [reflexivity|intros a0 []].
    - simpl in Ha. rewrite nth_error_app_last in Ha. inversion Ha; subst a. split; [reflexivity|]. split; [reflexivity|]. split; [reflexivity|].
      exists [(m, si_null)]. split; [unfold hdl; cbn [archs set_archs]; rewrite map_app; reflexivity|]. intros a0 [E|[]]. symmetry. exact E. }
  destruct Hg as (Fg & Hma & Wsh & ext & Ehg & Hext).
  rewrite Hma, Wsh in Hcl.
  destruct (ManagerDeferred.create_locked_spec _ _ _ _ _ _ Hcl) as (_ & b & _ & Es2).
  (* the same step on the re-keyed state *)
  assert (Hga' : get_arch (rk s) m si_null = Ok (rk sg, ai)).
  { rewrite <- (kmk_null m) at 1. apply (get_arch_rk s m si_null sg ai Hd (sx_chunk _ _ _ HX) (SL_lowm _ _ _ _ _ _ HS) Hlm Hga). }
  assert (Hrk : mstep typed (rk s, hs) (XoCreate tid m [] true) = Ok (rk (set_log s2 []), hs ++ [h])).
  { unfold mstep. cbn [concretize]. unfold step, make_shared_info. cbn [fold_res]. rewrite bind_Ok. cbv beta iota.
    change (lockc (rk s)) with (lockc s). rewrite Hlk, Hga', bind_Ok. cbv beta iota.
    rewrite (nth_res_some _ _ _ (arch_rk _ _ _ Ha)), bind_Ok.
    assert (Em : am_mask (ha a) = m) by (rewrite ha_mask, Wsh, Hma; apply kmk_null). rewrite Em.
    change (am_shared (ha a)) with si_null. rewrite create_locked_rk, (rmap_ok _ _ _ Hcl), bind_Ok. reflexivity. }
  destruct (fr1_pool _ _ Fg) as (P1 & P2 & P3).
  assert (Ha_s : alphaL_s cis (XoCreate tid m [] true) = true) by (simpl; exact Hlmb).
  apply (SLR_ca0 cis typed s hs x (XoCreate tid m [] true) (set_log s2 []) (hs ++ [h]) ext HR Hok Hrk); try assumption.
  - simpl. congruence.
  - reflexivity.
  - rewrite Es2. simpl. apply (fr1_locs _ _ Fg).
  - rewrite Es2. unfold hdl. simpl archs. exact Ehg.
  - intros a0 _ Hin. apply (hok_null _ m a0 Hlm). apply Hext. exact Hin.
  - rewrite Es2. simpl. exact P1.
  - rewrite Es2. simpl. exact P2.
  - rewrite Es2. simpl. exact P3.
Qed.

(* ---------------------------------------------------------------------------------------- *)
(* the operations of the unlocked alphabet with shared components while the manager is not locked *)
Definition uo (o : xop) : Prop :=
  match o with
  | XoCreate _ _ _ _ | XoDestroyNow _ _ | XoAssign _ _ _ _ | XoRemove _ _ _ _ | XoSet _ _ _ | XoAssignShared _ _ _ | XoRemoveShared _ _ => True
  | _ => False
  end.

Lemma alphaL_s_alpha_s cis o : alphaL_s cis o = true -> uo o -> alpha_s cis o = true.
Proof. destruct o; simpl; intros Ha Hu; try contradiction; exact Ha. Qed.

Lemma xctl_step_unlocked_s cis x o : x_lock x = 0 -> alpha_s cis o = true -> xctl (x_step x o) = xctl x.
Proof.
  intros Hl Ha. destruct o; try (apply (xctl_step_unlocked cis x _ Hl Ha)); simpl in Ha.
  - apply (xctl_step_unlocked cis x _ Hl). simpl. apply andb_true_iff in Ha. tauto.
  - unfold x_step. destruct (out_of_contract x _); [reflexivity|]. unfold x_step_in. destruct (find_ent x k); reflexivity.
  - unfold x_step. destruct (out_of_contract x _); [reflexivity|]. unfold x_step_in. destruct (find_ent x k); reflexivity.
Qed.

Lemma SLR_unlocked_s cis typed s hs x o s' hs' :
  SLR cis s hs x -> cis_ok cis -> x_lock x = 0 -> uo o -> alphaL_s cis o = true -> x_viol x = 0 -> x_viol (x_step x o) = 0 ->
  mstep typed (s, hs) o = Ok (s', hs') -> within (length hs') -> SLR cis s' hs' (x_step x o).
Proof.
  intros HR Hok Hl Hu Ha Hv0 Hv1 H Hb. pose proof HR as [HL HE HK HB].
  pose proof (alphaL_s_alpha_s cis o Ha Hu) as Has.
  destruct (LR_MInv _ _ _ _ HL Hl) as (al & HM).
  assert (HSI : SInv cis s hs al x).
  { pose proof (SX_of_SK cis s hs al [] x (LInv_of_MInv _ _ _ _ _ HM) HE HK) as [A B C D E]. constructor; assumption. }
  destruct (SInv_step cis typed s hs al x o s' hs' HSI Hok Has Hv0 Hv1 H Hb) as (al' & HSI').
  pose proof (mstep_hs _ _ _ _ _ _ H) as Hhs.
  assert (Hlm : lockc s = 0) by (rewrite <- Hl; exact (lr_lock _ _ _ _ HL)).
  (* the control fields *)
  assert (Emc : mc s' = mc s).
  { unfold mstep in H. bd H r Hst. destruct r as (s1, out). inversion H; subst s' hs'. change (mc s1 = mc s).
    apply (step_unlocked_mc typed s hs o s1 out Hlm); [|exact Hst].
    destruct o; simpl in Hu; try contradiction; try exact I. simpl in Ha. destruct sids; [reflexivity|discriminate]. }
  destruct (mc_fields _ _ Emc) as (E1 & E5 & E6 & E7 & M).
  destruct (xctl_fields _ _ (xctl_step_unlocked_s cis x o Hl Has)) as (X1 & X2 & X3 & X4).
  destruct HL as [_ Hlk Hn H3 Hux Hum Hcr Hmr _ Hcf].
  destruct (F3_length _ _ _ _ H3) as (L1 & L2).
  pose proof (sv_M _ _ _ _ _ HSI') as HM'.
  assert (Hnil : xrem (concat (x_bufs (x_step x o))) = []) by (rewrite X2; change (x_bufs x) with (x_bufs (xns x)); rewrite (all_nil_concat' _ (Hux Hl)); reflexivity).
  assert (HS' : SLInv cis s' hs' al' (xrem (concat (x_bufs (x_step x o)))) (x_step x o)).
  { rewrite Hnil. split; [apply LInv_of_MInv; exact HM'|]. destruct HSI' as [_ A B C D E]. constructor; assumption. }
  apply (SLR_of cis s' hs' (x_step x o) al'); [|exact HS'|unfold BL; rewrite X2; exact HB].
  constructor.
  - exists al'. exact (proj1 HS').
  - change (lockc s' = x_lock (x_step x o)). rewrite E1, X1. exact Hlk.
  - change (nthreads s' = x_nthr (x_step x o)). rewrite E5, X3. exact Hn.
  - change (F3 (brel cis hs') (tmps s') (bufs s') (x_bufs (x_step x o))). rewrite E6, E7, X2. apply brel_nil_all; auto.
  - intros _. change (x_bufs (xns (x_step x o))) with (x_bufs (x_step x o)). rewrite X2. auto.
  - intros _. change (bufs (rk s')) with (bufs s'). rewrite E6. auto.
  - change (x_bufs (xns (x_step x o))) with (x_bufs (x_step x o)). rewrite Hnil. constructor.
  - change (MR hs' (marked s') (x_marked (x_step x o))). rewrite M, X4. destruct Hhs as [->|(h & ->)]; [exact Hmr|].
    pose proof (mi_G _ _ _ _ _ HM') as HG'.
    apply MR_app; [exact Hmr| |].
    + pose proof (g_hs_nodup HG') as Hnd. apply nodup_app_inv in Hnd. destruct Hnd as (_ & _ & Hd). intros Hin. apply (Hd h Hin). left. reflexivity.
    + intros E. apply (null_not_in _ _ _ _ HG'). apply in_or_app. right. left. exact E.
  - change (x_lock (xns (x_step x o))) with (x_lock (x_step x o)). rewrite X1, Hl. intros E. congruence.
  - change (Forall mcf (bufs s')). rewrite E6. exact Hcf.
Qed.

(* ---------------------------------------------------------------------------------------- *)
(* update() while not locked: the marked entities are destroyed *)
Lemma SLInv_destroy_list cis hs rem : forall m s al x s',
  SLInv cis s hs al rem x -> within (length hs) -> (forall h, In h m -> h = null_handle \/ In h hs) ->
  fold_res destroy_now_unlocked m s = Ok s' ->
  exists al' x', SLInv cis s' hs al' rem x' /\ fr4 s' = fr4 s /\
    forall k', k' < length hs -> find_ent x' k' = if existsb (fun h => handle_eqb (hnd hs k') h) m then None else find_ent x k'.
Proof.
  induction m as [|h m IH]; intros s al x s' HS Hb Hm H.
  - simpl in H. inversion H; subst s'. exists al, x. split; [exact HS|]. split; [reflexivity|]. intros k' _. reflexivity.
  - simpl in H. bd H s1 Hd. destruct (Hm h (or_introl eq_refl)) as [->|Hin].
    + rewrite destroy_now_null in Hd. inversion Hd; subst s1.
      destruct (IH s al x s' HS Hb (fun h' Hh' => Hm h' (or_intror Hh')) H) as (al' & x' & HS' & F & Hf).
      exists al', x'. split; [exact HS'|]. split; [exact F|]. intros k' Hk'. rewrite (Hf k' Hk'). simpl.
      assert (E : handle_eqb (hnd hs k') null_handle = false).
      { apply ManagerDeferred.handle_eqb_neq. apply (hnd_not_null _ _ _ _ _ (li_G _ _ _ _ _ _ (proj1 HS)) Hk'). }
      rewrite E. reflexivity.
    + destruct (In_hnd _ _ Hin) as (k & Hk & Eh). rewrite <- Eh in Hd.
      destruct (SLInv_destroy_now cis s hs al rem x k s1 HS Hb Hk Hd) as (HS1 & F1 & M1).
      destruct (IH s1 _ (x_kill x k) s' HS1 Hb (fun h' Hh' => Hm h' (or_intror Hh')) H) as (al' & x' & HS' & F & Hf).
      destruct (x_kill_eq x k) as (Fx & Hfk).
      exists al', x'. split; [exact HS'|]. split; [congruence|].
      intros k' Hk'. rewrite (Hf k' Hk'), Hfk. simpl. rewrite <- Eh.
      destruct (Nat.eqb_spec k' k) as [->|Hne].
      * rewrite (proj2 (ManagerDeferred.handle_eqb_eq _ _) eq_refl). simpl. destruct (existsb _ m); reflexivity.
      * assert (E : handle_eqb (hnd hs k') (hnd hs k) = false).
        { apply ManagerDeferred.handle_eqb_neq. intros E. apply Hne. eapply (hnd_inj _ hs _ _ _ _ (li_G _ _ _ _ _ _ (proj1 HS))); eassumption. }
        rewrite E. reflexivity.
Qed.

Lemma SLR_update cis typed s hs x s' hs' :
  SLR cis s hs x -> cis_ok cis -> x_lock x = 0 -> alphaL_s cis XoUpdate = true -> within (length hs) ->
  mstep typed (s, hs) XoUpdate = Ok (s', hs') -> hs' = hs /\ SLR cis s' hs (x_step x XoUpdate).
Proof.
  intros HR Hok Hl Ha Hb H. pose proof HR as [HL HE HK HB].
  destruct (LR_update cis typed (rk s) hs (xns x) (rk s') hs' HL Hl Hb (mstep_rk typed s hs XoUpdate s' hs' I H)) as (-> & HL').
  split; [reflexivity|]. rewrite (x_step_xns x XoUpdate I) in HL'.
  destruct (SLR_inv _ _ _ _ HR) as (al & HS).
  unfold mstep in H. bd H r Hst. destruct r as (s1, out). cbn [concretize] in Hst.
  assert (Hlm : lockc s = 0) by (rewrite <- Hl; exact (lr_lock _ _ _ _ HL)).
  rewrite (step_update_unlocked _ Hlm) in Hst. bd Hst s2 Hfold. inversion Hst; subst s1 out; clear Hst. inversion H; subst s'; clear H.
  assert (HS0 : SLInv cis (set_wv (inc_wv s) (wv (inc_wv s)) (Some (wv (inc_wv s)))) hs al (xrem (concat (x_bufs x))) x)
    by (eapply SLInv_frame; [| | | | | | | | | |exact HS]; reflexivity).
  destruct (lr_mr _ _ _ _ HL) as (M1 & _).
  destruct (SLInv_destroy_list cis hs _ (marked s) _ al x s2 HS0 Hb M1 Hfold) as (al' & x' & HS' & F & Hf).
  constructor; [exact HL'| | |apply (BL_step cis); assumption].
  - destruct (EX_of_SX _ _ _ (proj2 HS')) as [A B C D]. constructor; assumption.
  - intros k e Hfe Hv. destruct (find_ca x XoUpdate I k e Hfe) as (e0 & Hfe0 & Es).
    assert (Hv2 : is_valid s2 (hnd hs k) = true) by exact Hv.
    destruct (valid_find_sl _ _ _ _ _ _ _ HS' Hv2) as (Hk & _ & e2 & Hfe2).
    pose proof (SK_of_SX _ _ _ _ _ _ HS' k e2 Hfe2 Hv2) as Hsk.
    rewrite (Hf k Hk) in Hfe2. destruct (existsb _ _); [discriminate|]. rewrite Hfe0 in Hfe2. inversion Hfe2; subst e2.
    rewrite Es. exact Hsk.
Qed.

(* ---------------------------------------------------------------------------------------- *)
(* THE FLUSH with shared components: from related states, the flush of the recorded buffers reaches the state the
   specification's x_flush reaches; every entity a pack moves keeps the shared info of its archetype *)
Theorem flush_faithful_s cis s hs x s' :
  SLR cis s hs x -> cis_ok cis -> within (length hs) -> x_viol (x_flush (xw_lock x 0)) = x_viol x ->
  flush (set_lock s 0) = Ok s' -> SLR cis s' hs (x_flush (xw_lock x 0)).
Proof.
  intros HR Hok Hb Hviol H. pose proof HR as [HL HE HK HB]. destruct (SLR_inv _ _ _ _ HR) as (al & HS).
  pose proof HL as [_ Hlk Hn H3 Hux Hum Hcr Hmr He Hcf].
  unfold flush in H. bd H s1 Hfold. inversion H; subst s'; clear H.
  change (bufs (set_lock s 0)) with (bufs s) in Hfold.
  assert (Hviol' : x_viol (fold_left (fun st b => fold_left x_cmd b st) (x_bufs x) (xw_lock x 0)) = x_viol (xw_lock x 0)) by exact Hviol.
  unfold x_flush. change (x_bufs (xw_lock x 0)) with (x_bufs x).
  remember (xw_lock x 0) as x1 eqn:Ex1 in *.
  remember (fold_left (fun st b => fold_left x_cmd b st) (x_bufs x) x1) as xf eqn:Exf in *.
  assert (Hids : forall h, In h hs -> N.to_nat (fst h) < length hs).
  { intros h Hin. destruct (Nat.eq_dec (x_lock x) 0) as [E0|Hne].
    - pose proof (proj1 HS) as HI. change (x_bufs x) with (x_bufs (xns x)) in HI. rewrite (LR_rem_nil _ _ _ _ HL E0) in HI. destruct (In_hnd _ _ Hin) as (k & Hk & <-).
      pose proof (ids_in_range _ hs _ k (li_G _ _ _ _ _ _ HI) Hk) as Hr. simpl in Hr. rewrite map_length in Hr.
      pose proof (li_slots _ _ _ _ _ _ HI) as Hsl. simpl in Hsl. exact (Nat.lt_le_trans _ _ _ Hr Hsl).
    - destruct (He Hne) as (_ & E2 & E3). pose proof (E3 h Hin) as E4. simpl in E2, E4. clear - E2 E4. lia. }
  assert (HF : SFInv cis (set_lock s 0) hs x1 (xrem (concat (x_bufs x)))).
  { constructor; [|exact Hcr|rewrite Ex1; exact Hmr|exact Hids].
    exists al. rewrite Ex1. eapply SLInv_ext; [eapply SLInv_frame; [| | | | | | | | | |exact HS]; reflexivity| | | |]; reflexivity. }
  destruct (F_buffers_s cis hs (bufs s) (tmps s) (x_bufs x) 0 (set_lock s 0) x1 s1 H3 Hcf HB) as (HF1 & F1); try assumption.
  { intros j tl Hj. exact Hj. }
  { rewrite <- Exf. exact Hviol'. }
  rewrite <- Exf in HF1. destruct HF1 as [(al1 & HS1) _ Hmr1 _].
  pose proof (xc3_bufs (x_bufs x) x1) as Ex. rewrite <- Exf in Ex. unfold xc3 in Ex. inversion Ex as [[X1 X2 X3]].
  destruct (fr4_fields _ _ F1) as (E1 & _ & _ & _ & E5 & E6 & E7 & _).
  destruct (F3_length _ _ _ _ H3) as (L1 & L2). simpl in L1, L2, E1, E5, E6, E7.
  assert (Exl : x_lock x1 = 0) by (rewrite Ex1; reflexivity).
  assert (Eb1 : x_bufs x1 = x_bufs x) by (rewrite Ex1; reflexivity).
  assert (HS2 : SLInv cis (set_epoch (set_bufs s1 (map (fun _ => []) (bufs s1)) (map (fun _ => []) (tmps s1))) (S (epoch s1))) hs al1
                      (xrem (concat (x_bufs (xw_bufs xf (map (fun _ => []) (x_bufs xf)))))) (xw_bufs xf (map (fun _ => []) (x_bufs xf)))).
  { simpl x_bufs. rewrite xrem_map_nil. eapply SLInv_ext; [eapply SLInv_frame; [| | | | | | | | | |exact HS1]; reflexivity| | | |]; reflexivity. }
  apply (SLR_of cis _ hs _ al1); [|exact HS2|unfold BL; simpl; apply Forall_forall; intros b Hb0; apply in_map_iff in Hb0; destruct Hb0 as (y & <- & _); constructor].
  constructor.
  - exists al1. exact (proj1 HS2).
  - simpl. rewrite E1, X1, Exl. reflexivity.
  - simpl. rewrite E5, X3, Ex1. exact Hn.
  - simpl. apply brel_nil_all; rewrite ?map_length; [rewrite E7, E6; exact L1|rewrite E6, X2, Eb1; exact L2|apply all_nil_map_nil|apply all_nil_map_nil].
  - intros _. simpl. apply all_nil_map_nil.
  - intros _. simpl. apply all_nil_map_nil.
  - simpl. rewrite xrem_map_nil. constructor.
  - simpl. exact Hmr1.
  - simpl. rewrite X1, Exl. intros E. congruence.
  - simpl. apply all_nil_mcf. apply all_nil_map_nil.
Qed.

Lemma SLR_unlock_flush cis typed s hs x s' hs' :
  SLR cis s hs x -> cis_ok cis -> pred (x_lock x) = 0 -> within (length hs) ->
  x_viol (x_step x XoUnlock) = x_viol x ->
  mstep typed (s, hs) XoUnlock = Ok (s', hs') -> hs' = hs /\ SLR cis s' hs (x_step x XoUnlock).
Proof.
  intros HR Hok Hp Hb Hv H. unfold mstep in H. cbn [concretize] in H. bd H r Hst. destruct r as (s1, out).
  unfold step in Hst. bd Hst r Hd. inversion Hst; subst r; clear Hst. unfold do_unlock in Hd. cbn [lockc set_lock] in Hd.
  assert (Hlk : lockc s = x_lock x) by exact (lr_lock _ _ _ _ (sr_L _ _ _ _ HR)).
  rewrite Hlk, Hp in Hd. bd Hd s2 Hfl. inversion Hd; subst s1 out; clear Hd. inversion H; subst s' hs'; clear H.
  split; [reflexivity|].
  assert (Ex : x_step x XoUnlock = x_flush (xw_lock x 0)).
  { unfold x_step. simpl out_of_contract. cbv iota. unfold x_step_in. rewrite Hp. reflexivity. }
  rewrite Ex in *. apply SLR_set_log. apply (flush_faithful_s cis s hs x s2 HR Hok Hb Hv Hfl).
Qed.
