(* C03, history level: the per-place bracket language of the lifecycle events.
   `lc_step` / `lc_run` are the Coq rendering of the Python oracle `Lifecycle.feed` of lib/mgrcheck.py (the checker that
   judges the IMPLEMENTATION's event stream) over the event type of Manager.v:
     - an event whose palette number is not in `destroy_pals` is ignored;
     - C / V (construction): the place must be dead, becomes live;
     - CP / MC (copy / move construction): the destination must be dead, the source live; the destination becomes live;
     - MA (move assignment): destination and source must be live;
     - D (destruction): the place must be live, becomes dead;
     - AA / BR (callbacks): ignored by the bracket checker.
   The checker state is the list of live places (the keys of `self.live` whose value is True); `leaked()` is that list.
   The second half of the file is the theory of the event lists of proofs/LifecycleProofs.v (dtor_events, ma_events,
   br_events, move_events, vacate_events, clear_events and the events of Archetype::insert) under this checker:
   what each list demands of the live set and what it does to it.  No Manager state occurs in this file. *)
Require Import Coq.Lists.List Coq.NArith.NArith Coq.ZArith.ZArith Coq.Arith.Arith Coq.Bool.Bool Coq.micromega.Lia.
From Mustache Require Import Res Manager.
From Mustache.proofs Require Import ListLemmas SkelBasics ClosureProofs LifecycleProofs.
Import ListNotations.

(* ------------------------------------------------------------------------------------------ *)
(* the checker                                                                                 *)
Definition pmem (p : place) (L : list place) : bool := existsb (place_eqb p) L.
Definition premove (p : place) (L : list place) : list place := filter (fun q => negb (place_eqb p q)) L.
Definition pal_in (pal : nat) (dp : list nat) : bool := existsb (Nat.eqb pal) dp.

(* destroy_pals_of: the palette numbers of the registered types that have a destroy function *)
Definition destroy_pals (cis : list cinfo) : list nat := map ci_pal (filter ci_destroy cis).

Definition lc_step (dp : list nat) (L : list place) (e : event) : option (list place) :=
  match e with
  | EvC pal p | EvV pal p =>
    if pal_in pal dp then (if pmem p L then None else Some (p :: L)) else Some L
  | EvCP pal d s | EvMC pal d s =>
    if pal_in pal dp then (if pmem d L then None else if pmem s L then Some (d :: L) else None) else Some L
  | EvMA pal d s =>
    if pal_in pal dp then (if pmem d L && pmem s L then Some L else None) else Some L
  | EvD pal p =>
    if pal_in pal dp then (if pmem p L then Some (premove p L) else None) else Some L
  | EvAA _ _ _ | EvBR _ _ _ => Some L
  end.

Fixpoint lc_run (dp : list nat) (L : list place) (evs : list event) : option (list place) :=
  match evs with
  | [] => Some L
  | e :: t => match lc_step dp L e with Some L' => lc_run dp L' t | None => None end
  end.

(* the whole history, from the empty world: accepted? which places are alive at the end (leaked())? *)
Definition lc_ok (dp : list nat) (evs : list event) : bool :=
  match lc_run dp [] evs with Some _ => true | None => false end.
Definition lc_live (dp : list nat) (evs : list event) : list place :=
  match lc_run dp [] evs with Some L => L | None => [] end.

Lemma lc_run_app dp L e1 e2 :
  lc_run dp L (e1 ++ e2) = match lc_run dp L e1 with Some L1 => lc_run dp L1 e2 | None => None end.
Proof.
  revert L. induction e1 as [|e t IH]; intros L; simpl; [reflexivity|].
  destruct (lc_step dp L e) as [L1|]; [apply IH|reflexivity].
Qed.

Lemma pmem_in p L : pmem p L = true <-> In p L.
Proof.
  unfold pmem. rewrite existsb_exists. split.
  - intros (q & Hq & E). apply place_eqb_eq in E. subst q. exact Hq.
  - intros H. exists p. split; [exact H|apply place_eqb_refl].
Qed.

Lemma pmem_false p L : pmem p L = false <-> ~ In p L.
Proof.
  rewrite <- pmem_in. destruct (pmem p L).
  - split; [discriminate|intros H; exfalso; apply H; reflexivity].
  - split; [intros _ H; discriminate|reflexivity].
Qed.

Lemma premove_in p q L : In q (premove p L) <-> In q L /\ q <> p.
Proof.
  unfold premove. rewrite filter_In. split; intros (H1 & H2); (split; [exact H1|]).
  - intros ->. rewrite place_eqb_refl in H2. discriminate.
  - rewrite place_eqb_neq; [reflexivity|]. intros E. apply H2. symmetry. exact E.
Qed.

(* ------------------------------------------------------------------------------------------ *)
(* component types and the palette                                                             *)
(* the component (by id) has a destroy function that writes to the log: its instances are tracked *)
Definition tcomp (cis : list cinfo) (c : nat) : bool :=
  match nth_error cis c with Some inf => ci_destroy inf && ci_ev inf | None => false end.

(* what the bracket language needs of the component table (each clause is needed: Properties_C03, counterexamples):
   of the logging types,
   - one without a destroy function does not share its palette number with a type that has one
     (the checker tells tracked from untracked events by palette number only);
   - one with a destroy function also has a create function and a move constructor that log. *)
Definition lc_cis_ok (cis : list cinfo) : Prop :=
  Forall (fun inf => ci_ev inf = true ->
     (ci_destroy inf = false -> pal_in (ci_pal inf) (destroy_pals cis) = false) /\
     (ci_destroy inf = true -> has_create inf = true /\ ci_mctor inf = true)) cis.

Definition lc_cis_okb (cis : list cinfo) : bool :=
  forallb (fun inf => negb (ci_ev inf) ||
     (if ci_destroy inf then has_create inf && ci_mctor inf else negb (pal_in (ci_pal inf) (destroy_pals cis)))) cis.

Lemma lc_cis_okb_ok cis : lc_cis_okb cis = true -> lc_cis_ok cis.
Proof.
  unfold lc_cis_okb, lc_cis_ok. rewrite forallb_forall, Forall_forall. intros H inf Hin Hev.
  specialize (H inf Hin). rewrite Hev in H. simpl in H. split; intros Hd; rewrite Hd in H.
  - apply negb_true_iff. exact H.
  - apply andb_true_iff. exact H.
Qed.

Lemma pal_in_destroy cis inf : In inf cis -> ci_destroy inf = true -> pal_in (ci_pal inf) (destroy_pals cis) = true.
Proof.
  intros Hin Hd. unfold pal_in, destroy_pals. apply existsb_exists. exists (ci_pal inf). split; [|apply Nat.eqb_refl].
  apply in_map. apply filter_In. split; assumption.
Qed.

Section Events.
Variable cis : list cinfo.
Hypothesis Hok : lc_cis_ok cis.
Local Notation dp := (destroy_pals cis).

Lemma tcomp_some c inf : nth_error cis c = Some inf -> tcomp cis c = ci_destroy inf && ci_ev inf.
Proof. unfold tcomp. intros ->. reflexivity. Qed.

(* a logging type: its events are tracked exactly when it has a destroy function *)
Lemma pal_tracked c inf : nth_error cis c = Some inf -> ci_ev inf = true -> pal_in (ci_pal inf) dp = ci_destroy inf.
Proof.
  intros Hn Hev. assert (Hin : In inf cis) by (eapply nth_error_In; exact Hn).
  destruct (ci_destroy inf) eqn:Hd; [apply pal_in_destroy; assumption|].
  destruct (proj1 (Forall_forall _ _) Hok inf Hin Hev) as (H & _). apply H. exact Hd.
Qed.

Lemma tcomp_funs c inf : nth_error cis c = Some inf -> tcomp cis c = true ->
  ci_ev inf = true /\ ci_destroy inf = true /\ has_create inf = true /\ ci_mctor inf = true /\ pal_in (ci_pal inf) dp = true.
Proof.
  intros Hn Ht. rewrite (tcomp_some _ _ Hn) in Ht. apply andb_true_iff in Ht. destruct Ht as (Hd & Hev).
  assert (Hin : In inf cis) by (eapply nth_error_In; exact Hn).
  destruct (proj1 (Forall_forall _ _) Hok inf Hin Hev) as (_ & H). destruct (H Hd) as (Hc & Hm).
  repeat split; try assumption. rewrite (pal_tracked _ _ Hn Hev). exact Hd.
Qed.

(* events of an untracked component are ignored *)
Lemma untracked_pal c inf : nth_error cis c = Some inf -> tcomp cis c = false -> ci_ev inf = true -> pal_in (ci_pal inf) dp = false.
Proof.
  intros Hn Ht Hev. rewrite (pal_tracked _ _ Hn Hev). rewrite (tcomp_some _ _ Hn), Hev, andb_true_r in Ht. exact Ht.
Qed.

(* ------------------------------------------------------------------------------------------ *)
(* one component at a time                                                                     *)
Lemma dtor_one ai slot c L : (tcomp cis c = true -> In (PArch ai c slot) L) ->
  lc_run dp L (on_info cis c (fun inf => if ci_destroy inf && ci_ev inf then [EvD (ci_pal inf) (PArch ai c slot)] else [])) =
  Some (if tcomp cis c then premove (PArch ai c slot) L else L).
Proof.
  intros H. unfold on_info. destruct (nth_error cis c) as [inf|] eqn:Hn; [|unfold tcomp; rewrite Hn; reflexivity].
  rewrite (tcomp_some _ _ Hn) in *. destruct (ci_destroy inf && ci_ev inf) eqn:T; [|reflexivity].
  assert (Ht : tcomp cis c = true) by (rewrite (tcomp_some _ _ Hn); exact T).
  destruct (tcomp_funs _ _ Hn Ht) as (_ & _ & _ & _ & Hp). simpl. rewrite Hp.
  rewrite (proj2 (pmem_in _ _) (H eq_refl)). reflexivity.
Qed.

Lemma ma_one ai src dst c L : (tcomp cis c = true -> In (PArch ai c dst) L /\ In (PArch ai c src) L) ->
  lc_run dp L (on_info cis c (fun inf =>
    if ci_move inf && ci_ev inf then [EvMA (ci_pal inf) (PArch ai c dst) (PArch ai c src)] else [])) = Some L.
Proof.
  intros H. unfold on_info. destruct (nth_error cis c) as [inf|] eqn:Hn; [|reflexivity].
  destruct (ci_move inf && ci_ev inf) eqn:G; [|reflexivity]. apply andb_true_iff in G. destruct G as (_ & Hev).
  simpl. destruct (pal_in (ci_pal inf) dp) eqn:P; [|reflexivity].
  assert (Ht : tcomp cis c = true).
  { destruct (tcomp cis c) eqn:Ht; [reflexivity|]. rewrite (untracked_pal _ _ Hn Ht Hev) in P. discriminate. }
  destruct (H Ht) as (H1 & H2). rewrite (proj2 (pmem_in _ _) H1), (proj2 (pmem_in _ _) H2). reflexivity.
Qed.

Lemma br_one ai idx ent rm c L :
  lc_run dp L (on_info cis c (fun inf => if ci_br inf && mhas rm c then [EvBR (ci_pal inf) (PArch ai c idx) ent] else [])) = Some L.
Proof. unfold on_info. destruct (nth_error cis c) as [inf|]; [|reflexivity]. destruct (_ && _); reflexivity. Qed.

(* construct_default on a dead cell *)
Lemma cd_one inf ai c slot h L : nth_error cis c = Some inf -> (tcomp cis c = true -> ~ In (PArch ai c slot) L) ->
  lc_run dp L (cd_events inf ai c slot h) = Some (if tcomp cis c then PArch ai c slot :: L else L).
Proof.
  intros Hn H. unfold cd_events. rewrite lc_run_app.
  assert (E2 : forall L0, lc_run dp L0 (if ci_aa inf then [EvAA (ci_pal inf) (PArch ai c slot) h] else []) = Some L0).
  { intros L0. destruct (ci_aa inf); reflexivity. }
  destruct (tcomp cis c) eqn:Ht.
  - destruct (tcomp_funs _ _ Hn Ht) as (Hev & _ & Hc & _ & Hp). rewrite Hc, Hev. simpl. rewrite Hp.
    rewrite (proj2 (pmem_false _ _) (H eq_refl)). apply E2.
  - destruct (has_create inf && ci_ev inf) eqn:G; [|simpl; apply E2]. apply andb_true_iff in G. destruct G as (_ & Hev).
    simpl. rewrite (untracked_pal _ _ Hn Ht Hev). apply E2.
Qed.

(* one destination component of an external move *)
Definition move_one (ai idx prev pidx : nat) (h : handle) (skip pm : mask) (c : nat) : list event :=
  on_info cis c (fun inf =>
    if mhas pm c then (if ci_mctor inf && ci_ev inf then [EvMC (ci_pal inf) (PArch ai c idx) (PArch prev c pidx)] else [])
    else if (has_create inf || has_default inf || ci_aa inf) && negb (mhas skip c) then cd_events inf ai c idx h else []).

Lemma move_one_run ai idx prev pidx h skip pm c L :
  (tcomp cis c = true -> ~ In (PArch ai c idx) L /\ (mhas pm c = true -> In (PArch prev c pidx) L)) ->
  lc_run dp L (move_one ai idx prev pidx h skip pm c) =
  Some (if tcomp cis c && (mhas pm c || negb (mhas skip c)) then PArch ai c idx :: L else L).
Proof.
  intros H. unfold move_one, on_info. destruct (nth_error cis c) as [inf|] eqn:Hn; [|unfold tcomp; rewrite Hn; reflexivity].
  destruct (mhas pm c) eqn:Hpm.
  - rewrite orb_true_l, andb_true_r. destruct (tcomp cis c) eqn:Ht.
    + destruct (tcomp_funs _ _ Hn Ht) as (Hev & _ & _ & Hm & Hp). rewrite Hm, Hev. simpl. rewrite Hp.
      destruct (H eq_refl) as (H1 & H2). rewrite (proj2 (pmem_false _ _) H1), (proj2 (pmem_in _ _) (H2 eq_refl)). reflexivity.
    + destruct (ci_mctor inf && ci_ev inf) eqn:G; [|reflexivity]. apply andb_true_iff in G. destruct G as (_ & Hev).
      simpl. rewrite (untracked_pal _ _ Hn Ht Hev). reflexivity.
  - rewrite orb_false_l. destruct (mhas skip c) eqn:Hsk.
    + rewrite !andb_false_r. reflexivity.
    + simpl negb. rewrite !andb_true_r. destruct (tcomp cis c) eqn:Ht.
      * destruct (tcomp_funs _ _ Hn Ht) as (_ & _ & Hc & _). rewrite Hc. simpl orb. cbv iota.
        rewrite (cd_one inf ai c idx h L Hn); [rewrite Ht; reflexivity|]. intros _. apply (H eq_refl).
      * destruct (has_create inf || has_default inf || ci_aa inf); [|reflexivity].
        rewrite (cd_one inf ai c idx h L Hn); [rewrite Ht; reflexivity|]. intros E. congruence.
Qed.

(* one component of Archetype::insert *)
Definition insert_one (ai idx : nat) (h : handle) (skip : mask) (c : nat) : list event :=
  on_info cis c (fun inf =>
    if (has_create inf || ci_aa inf) && ((skip =? 0)%N || negb (mhas skip c)) then cd_events inf ai c idx h else []).

Lemma skip_guard skip c : ((skip =? 0)%N || negb (mhas skip c)) = negb (mhas skip c).
Proof.
  destruct (N.eqb_spec skip 0) as [->|_]; [|reflexivity]. rewrite mhas_zero. reflexivity.
Qed.

Lemma insert_one_run ai idx h skip c L : (tcomp cis c = true -> ~ In (PArch ai c idx) L) ->
  lc_run dp L (insert_one ai idx h skip c) = Some (if tcomp cis c && negb (mhas skip c) then PArch ai c idx :: L else L).
Proof.
  intros H. unfold insert_one, on_info. rewrite skip_guard.
  destruct (nth_error cis c) as [inf|] eqn:Hn; [|unfold tcomp; rewrite Hn; reflexivity].
  destruct (mhas skip c); [rewrite !andb_false_r; reflexivity|]. simpl negb. rewrite !andb_true_r.
  destruct (tcomp cis c) eqn:Ht.
  - destruct (tcomp_funs _ _ Hn Ht) as (_ & _ & Hc & _). rewrite Hc. simpl orb. cbv iota.
    rewrite (cd_one inf ai c idx h L Hn); [rewrite Ht; reflexivity|intros _; apply (H eq_refl)].
  - destruct (has_create inf || ci_aa inf); [|reflexivity].
    rewrite (cd_one inf ai c idx h L Hn); [rewrite Ht; reflexivity|]. intros E. congruence.
Qed.

(* ------------------------------------------------------------------------------------------ *)
(* the event lists                                                                             *)
Lemma run_dtor ai slot : forall comps L, NoDup comps ->
  (forall c, In c comps -> tcomp cis c = true -> In (PArch ai c slot) L) ->
  exists L', lc_run dp L (dtor_events cis ai slot comps) = Some L' /\
    forall p, In p L' <-> (In p L /\ ~ exists c, In c comps /\ tcomp cis c = true /\ p = PArch ai c slot).
Proof.
  induction comps as [|c t IH]; intros L Hnd H.
  - exists L. split; [reflexivity|]. intros p. split; [intros Hp; split; [exact Hp|intros (c & [] & _)]|tauto].
  - inversion Hnd as [|? ? Hni Hnd']; subst. unfold dtor_events. cbn [flat_map]. rewrite lc_run_app.
    rewrite dtor_one by (intros Ht; apply H; [left; reflexivity|exact Ht]).
    destruct (IH (if tcomp cis c then premove (PArch ai c slot) L else L) Hnd') as (L' & Hr & HL').
    { intros c' Hc' Ht'. destruct (tcomp cis c); [|apply H; [right; exact Hc'|exact Ht']].
      apply premove_in. split; [apply H; [right; exact Hc'|exact Ht']|]. intros E. inversion E; subst c'. contradiction. }
    exists L'. split; [exact Hr|]. intros p. rewrite HL'. clear Hr HL' IH. split.
    + intros (Hp & Hno). assert (Hp' : In p L /\ (tcomp cis c = true -> p <> PArch ai c slot)).
      { destruct (tcomp cis c); [apply premove_in in Hp; destruct Hp; split; [assumption|intros _; assumption]|split; [exact Hp|discriminate]]. }
      destruct Hp' as (Hp1 & Hp2). split; [exact Hp1|]. intros (c' & [<-|Hc'] & Ht' & E).
      * apply (Hp2 Ht'). exact E.
      * apply Hno. exists c'. auto.
    + intros (Hp & Hno). split.
      * destruct (tcomp cis c) eqn:Ht; [|exact Hp]. apply premove_in. split; [exact Hp|]. intros E. apply Hno. exists c.
        split; [left; reflexivity|]. split; [exact Ht|exact E].
      * intros (c' & Hc' & Ht' & E). apply Hno. exists c'. split; [right; exact Hc'|]. split; assumption.
Qed.

Lemma run_ma ai src dst : forall comps L,
  (forall c, In c comps -> tcomp cis c = true -> In (PArch ai c dst) L /\ In (PArch ai c src) L) ->
  lc_run dp L (ma_events cis ai src dst comps) = Some L.
Proof.
  induction comps as [|c t IH]; intros L H; [reflexivity|]. unfold ma_events. cbn [flat_map]. rewrite lc_run_app.
  rewrite ma_one by (intros Ht; apply H; [left; reflexivity|exact Ht]).
  apply IH. intros c' Hc'. apply H. right. exact Hc'.
Qed.

Lemma run_br ai idx ent rm : forall comps L, lc_run dp L (br_events cis ai idx ent rm comps) = Some L.
Proof.
  induction comps as [|c t IH]; intros L; [reflexivity|]. unfold br_events. cbn [flat_map]. rewrite lc_run_app, br_one. apply IH.
Qed.

Lemma move_events_eq ai idx prev pidx h skip pm comps :
  move_events cis ai idx prev pidx h skip pm comps = flat_map (move_one ai idx prev pidx h skip pm) comps.
Proof. reflexivity. Qed.

Lemma run_move ai idx prev pidx h skip pm : forall comps L, NoDup comps ->
  (forall c, In c comps -> tcomp cis c = true -> ~ In (PArch ai c idx) L /\ (mhas pm c = true -> In (PArch prev c pidx) L)) ->
  exists L', lc_run dp L (move_events cis ai idx prev pidx h skip pm comps) = Some L' /\
    forall p, In p L' <-> (In p L \/ exists c, In c comps /\ tcomp cis c = true /\ (mhas pm c || negb (mhas skip c)) = true /\ p = PArch ai c idx).
Proof.
  induction comps as [|c t IH]; intros L Hnd H.
  - exists L. split; [reflexivity|]. intros p. split; [auto|intros [Hp|(c & [] & _)]; exact Hp].
  - inversion Hnd as [|? ? Hni Hnd']; subst. rewrite move_events_eq. cbn [flat_map]. rewrite lc_run_app.
    rewrite move_one_run by (intros Ht; apply H; [left; reflexivity|exact Ht]). rewrite <- move_events_eq.
    set (L1 := if tcomp cis c && (mhas pm c || negb (mhas skip c)) then PArch ai c idx :: L else L).
    assert (HL1 : forall p, In p L1 <-> In p L \/ (tcomp cis c = true /\ (mhas pm c || negb (mhas skip c)) = true /\ p = PArch ai c idx)).
    { intros p. unfold L1. destruct (tcomp cis c); simpl andb; cbv iota; [destruct (mhas pm c || negb (mhas skip c))|]; simpl.
      - split; [intros [E|Hp]; [right; auto|left; exact Hp]|intros [Hp|(_ & _ & E)]; [right; exact Hp|left; auto]].
      - split; [auto|intros [Hp|(_ & E & _)]; [exact Hp|discriminate]].
      - split; [auto|intros [Hp|(E & _)]; [exact Hp|discriminate]]. }
    destruct (IH L1 Hnd') as (L' & Hr & HL').
    { intros c' Hc' Ht'. destruct (H c' (or_intror Hc') Ht') as (H1 & H2). split.
      - rewrite HL1. intros [Hp|(_ & _ & E)]; [exact (H1 Hp)|]. inversion E; subst c'. contradiction.
      - intros Hpm. apply HL1. left. exact (H2 Hpm). }
    exists L'. split; [exact Hr|]. intros p. rewrite HL', HL1. clear. split.
    + intros [[Hp|(A & B & E)]|(c' & Hc' & A & B & E)]; [left; exact Hp| |].
      * right. exists c. split; [left; reflexivity|auto].
      * right. exists c'. split; [right; exact Hc'|auto].
    + intros [Hp|(c' & [<-|Hc'] & A & B & E)]; [left; left; exact Hp|left; right; auto|right; exists c'; auto].
Qed.

Definition insert_events (ai idx : nat) (h : handle) (skip : mask) (comps : list nat) : list event :=
  flat_map (insert_one ai idx h skip) comps.

Lemma run_insert ai idx h skip : forall comps L, NoDup comps ->
  (forall c, In c comps -> tcomp cis c = true -> ~ In (PArch ai c idx) L) ->
  exists L', lc_run dp L (insert_events ai idx h skip comps) = Some L' /\
    forall p, In p L' <-> (In p L \/ exists c, In c comps /\ tcomp cis c = true /\ mhas skip c = false /\ p = PArch ai c idx).
Proof.
  induction comps as [|c t IH]; intros L Hnd H.
  - exists L. split; [reflexivity|]. intros p. split; [auto|intros [Hp|(c & [] & _)]; exact Hp].
  - inversion Hnd as [|? ? Hni Hnd']; subst. unfold insert_events. cbn [flat_map]. rewrite lc_run_app.
    rewrite insert_one_run by (intros Ht; apply H; [left; reflexivity|exact Ht]). fold (insert_events ai idx h skip t).
    set (L1 := if tcomp cis c && negb (mhas skip c) then PArch ai c idx :: L else L).
    assert (HL1 : forall p, In p L1 <-> In p L \/ (tcomp cis c = true /\ mhas skip c = false /\ p = PArch ai c idx)).
    { intros p. unfold L1. destruct (tcomp cis c); simpl andb; cbv iota; [destruct (mhas skip c)|]; simpl.
      - split; [auto|intros [Hp|(_ & E & _)]; [exact Hp|discriminate]].
      - split; [intros [E|Hp]; [right; auto|left; exact Hp]|intros [Hp|(_ & _ & E)]; [right; exact Hp|left; auto]].
      - split; [auto|intros [Hp|(E & _)]; [exact Hp|discriminate]]. }
    destruct (IH L1 Hnd') as (L' & Hr & HL').
    { intros c' Hc' Ht'. rewrite HL1. intros [Hp|(_ & _ & E)]; [exact (H c' (or_intror Hc') Ht' Hp)|].
      inversion E; subst c'. contradiction. }
    exists L'. split; [exact Hr|]. intros p. rewrite HL', HL1. clear. split.
    + intros [[Hp|(A & B & E)]|(c' & Hc' & A & B & E)]; [left; exact Hp| |].
      * right. exists c. split; [left; reflexivity|auto].
      * right. exists c'. split; [right; exact Hc'|auto].
    + intros [Hp|(c' & [<-|Hc'] & A & B & E)]; [left; left; exact Hp|left; right; auto|right; exists c'; auto].
Qed.

(* vacating slot idx of an archetype with `S last` slots: only the last slot dies *)
Lemma run_vacate ai idx last m L : idx <= last ->
  (forall c i, In c (mitems m) -> tcomp cis c = true -> i <= last -> In (PArch ai c i) L) ->
  exists L', lc_run dp L (vacate_events cis ai idx last m) = Some L' /\
    forall p, In p L' <-> (In p L /\ ~ exists c, In c (mitems m) /\ tcomp cis c = true /\ p = PArch ai c last).
Proof.
  intros Hle H. unfold vacate_events. destruct (Nat.eqb_spec idx last) as [->|Hne].
  - apply run_dtor; [apply mitems_NoDup|]. intros c Hc Ht. apply (H c last Hc Ht). lia.
  - rewrite lc_run_app, run_ma.
    + apply run_dtor; [apply mitems_NoDup|]. intros c Hc Ht. apply (H c last Hc Ht). lia.
    + intros c Hc Ht. split; apply (H c _ Hc Ht); lia.
Qed.

(* Archetype::clear: one component, the slots sl *)
Lemma run_dtor_slots ai c pal : pal_in pal dp = true -> forall sl L, NoDup sl ->
  (forall i, In i sl -> In (PArch ai c i) L) ->
  exists L', lc_run dp L (map (fun i => EvD pal (PArch ai c i)) sl) = Some L' /\
    forall p, In p L' <-> (In p L /\ ~ exists i, In i sl /\ p = PArch ai c i).
Proof.
  intros Hp. induction sl as [|i t IH]; intros L Hnd H.
  - exists L. split; [reflexivity|]. intros p. split; [intros Hq; split; [exact Hq|intros (i & [] & _)]|tauto].
  - inversion Hnd as [|? ? Hni Hnd']; subst. simpl. rewrite Hp, (proj2 (pmem_in _ _) (H i (or_introl eq_refl))).
    destruct (IH (premove (PArch ai c i) L) Hnd') as (L' & Hr & HL').
    { intros j Hj. apply premove_in. split; [apply H; right; exact Hj|]. intros E. inversion E; subst j. contradiction. }
    exists L'. split; [exact Hr|]. intros p. rewrite HL', premove_in. clear. split.
    + intros ((Hq & Hn) & Hno). split; [exact Hq|]. intros (j & [<-|Hj] & E); [contradiction|]. apply Hno. exists j. auto.
    + intros (Hq & Hno). split; [split; [exact Hq|]|].
      * intros E. apply Hno. exists i. split; [left; reflexivity|exact E].
      * intros (j & Hj & E). apply Hno. exists j. split; [right; exact Hj|exact E].
Qed.

Lemma run_clear_comps ai size : forall comps L, NoDup comps ->
  (forall c i, In c comps -> tcomp cis c = true -> i < size -> In (PArch ai c i) L) ->
  exists L', lc_run dp L (flat_map (fun c => on_info cis c (fun inf =>
        if ci_destroy inf && ci_ev inf then map (fun i => EvD (ci_pal inf) (PArch ai c i)) (seq 0 size) else [])) comps) = Some L' /\
    forall p, In p L' <-> (In p L /\ ~ exists c i, In c comps /\ tcomp cis c = true /\ i < size /\ p = PArch ai c i).
Proof.
  induction comps as [|c t IH]; intros L Hnd H.
  - exists L. split; [reflexivity|]. intros p. split; [intros Hq; split; [exact Hq|intros (c & i & [] & _)]|tauto].
  - inversion Hnd as [|? ? Hni Hnd']; subst. cbn [flat_map]. rewrite lc_run_app.
    assert (H1 : exists L1, lc_run dp L (on_info cis c (fun inf =>
                if ci_destroy inf && ci_ev inf then map (fun i => EvD (ci_pal inf) (PArch ai c i)) (seq 0 size) else [])) = Some L1 /\
              forall p, In p L1 <-> (In p L /\ ~ (tcomp cis c = true /\ exists i, i < size /\ p = PArch ai c i))).
    { unfold on_info. destruct (nth_error cis c) as [inf|] eqn:Hn.
      - rewrite <- (tcomp_some _ _ Hn). destruct (tcomp cis c) eqn:Ht.
        + destruct (tcomp_funs _ _ Hn Ht) as (_ & _ & _ & _ & Hp).
          destruct (run_dtor_slots ai c (ci_pal inf) Hp (seq 0 size) L (seq_NoDup _ _)) as (L1 & Hr & HL1).
          { intros i Hi. apply in_seq in Hi. apply (H c i (or_introl eq_refl) Ht). lia. }
          exists L1. split; [exact Hr|]. intros p. rewrite HL1. split; intros (Hq & Hno); (split; [exact Hq|]).
          * intros (_ & i & Hi & E). apply Hno. exists i. split; [apply in_seq; lia|exact E].
          * intros (i & Hi & E). apply Hno. split; [reflexivity|]. exists i. apply in_seq in Hi. split; [lia|exact E].
        + exists L. split; [reflexivity|]. intros p. split; [intros Hq; split; [exact Hq|intros (E & _); discriminate]|tauto].
      - exists L. split; [reflexivity|]. intros p. split; [|tauto]. intros Hq. split; [exact Hq|]. intros (E & _).
        unfold tcomp in E. rewrite Hn in E. discriminate. }
    destruct H1 as (L1 & Hr1 & HL1). rewrite Hr1.
    destruct (IH L1 Hnd') as (L' & Hr & HL').
    { intros c' i Hc' Ht' Hi. apply HL1. split; [apply (H c' i (or_intror Hc') Ht' Hi)|].
      intros (_ & j & _ & E). inversion E; subst c'. contradiction. }
    exists L'. split; [exact Hr|]. intros p. rewrite HL', HL1. clear. split.
    + intros ((Hq & Hn1) & Hno). split; [exact Hq|]. intros (c' & i & [<-|Hc'] & Ht & Hi & E).
      * apply Hn1. split; [exact Ht|]. exists i. auto.
      * apply Hno. exists c', i. auto.
    + intros (Hq & Hno). split; [split; [exact Hq|]|].
      * intros (Ht & i & Hi & E). apply Hno. exists c, i. split; [left; reflexivity|auto].
      * intros (c' & i & Hc' & Ht & Hi & E). apply Hno. exists c', i. split; [right; exact Hc'|auto].
Qed.

Lemma run_clear ai a L :
  (forall c i, In c (mitems (am_mask a)) -> tcomp cis c = true -> i < am_size a -> am_ents a <> [] -> In (PArch ai c i) L) ->
  exists L', lc_run dp L (clear_events cis ai a) = Some L' /\
    forall p, In p L' <-> (In p L /\ ~ (am_ents a <> [] /\ exists c i, In c (mitems (am_mask a)) /\ tcomp cis c = true /\ i < am_size a /\ p = PArch ai c i)).
Proof.
  intros H. unfold clear_events. destruct (am_ents a) as [|e0 et] eqn:Ee.
  - exists L. split; [reflexivity|]. intros p. split; [intros Hq; split; [exact Hq|intros (E & _); congruence]|tauto].
  - destruct (run_clear_comps ai (am_size a) (mitems (am_mask a)) L (mitems_NoDup _)) as (L' & Hr & HL').
    { intros c i Hc Ht Hi. apply H; try assumption. discriminate. }
    exists L'. split; [exact Hr|]. intros p. rewrite HL'. split; intros (Hq & Hno); (split; [exact Hq|]).
    + intros (_ & X). apply Hno. exact X.
    + intros X. apply Hno. split; [discriminate|exact X].
Qed.

End Events.
