(* C12: the shared VALUES of an archetype as the specification lists them (Refine.abs_ent: sorted by shared type):
   insertion sort gives the one strictly sorted list of the (type, value) pairs; what si_add / si_remove do to it;
   two shared infos that si_eqb identifies list the same values when their instances are typed. *)
Require Import Coq.Lists.List Coq.NArith.NArith Coq.ZArith.ZArith Coq.Arith.Arith Coq.Bool.Bool Coq.micromega.Lia.
Require Import Coq.Sorting.Sorted.
From Mustache Require Import Res Manager MgrSpec Refine.
From Mustache.proofs Require Import ListLemmas SkelBasics ClosureProofs ManagerBasics SharedProofs.
Import ListNotations.

Definition ssorted (l : list (nat * Z)) : Prop := StronglySorted lt (map fst l).

Lemma ssorted_nil : ssorted []. Proof. constructor. Qed.

Lemma ssorted_inv p t : ssorted (p :: t) -> ssorted t /\ forall q, In q t -> fst p < fst q.
Proof.
  unfold ssorted. simpl. intros H. apply StronglySorted_inv in H. destruct H as (Hs & Hf). split; [exact Hs|].
  rewrite Forall_forall in Hf. intros q Hq. apply Hf. apply in_map. exact Hq.
Qed.

Lemma ssorted_cons p t : ssorted t -> (forall q, In q t -> fst p < fst q) -> ssorted (p :: t).
Proof.
  unfold ssorted. simpl. intros Hs Hf. constructor; [exact Hs|]. apply Forall_forall. intros x Hx. apply in_map_iff in Hx.
  destruct Hx as (q & <- & Hq). apply Hf. exact Hq.
Qed.

Lemma insert_shared_has l c v : In (c, v) (insert_shared l c v).
Proof.
  induction l as [|(c', v') t IH]; simpl; [left; reflexivity|].
  destruct (Nat.eqb c c'); [left; reflexivity|]. destruct (Nat.ltb c c'); [left; reflexivity|right; exact IH].
Qed.

Lemma insert_shared_keep l c v c' v' : c' <> c -> In (c', v') l -> In (c', v') (insert_shared l c v).
Proof.
  intros Hne. induction l as [|(c0, v0) t IH]; simpl; [intros []|].
  destruct (Nat.eqb_spec c c0) as [->|Hn0].
  - intros [E|H]; [inversion E; congruence|right; exact H].
  - destruct (Nat.ltb c c0); [intros H; right; exact H|]. intros [E|H]; [left; exact E|right; apply IH; exact H].
Qed.

Lemma insert_shared_weak l c v c' v' : In (c', v') (insert_shared l c v) -> (c' = c /\ v' = v) \/ In (c', v') l.
Proof.
  induction l as [|(c0, v0) t IH]; simpl.
  - intros [E|[]]. inversion E. auto.
  - destruct (Nat.eqb c c0).
    + intros [E|H]; [inversion E; auto|right; right; exact H].
    + destruct (Nat.ltb c c0).
      * intros [E|H]; [inversion E; auto|right; exact H].
      * intros [E|H]; [right; left; exact E|]. destruct (IH H) as [H'|H']; [left; exact H'|right; right; exact H'].
Qed.

Lemma insert_shared_sorted l c v : ssorted l -> ssorted (insert_shared l c v) /\
  forall c' v', In (c', v') (insert_shared l c v) -> c' = c -> v' = v.
Proof.
  induction l as [|(c0, v0) t IH]; intros Hs; simpl.
  - split; [apply ssorted_cons; [constructor|intros q []]|]. intros c' v' [E|[]] _. inversion E. reflexivity.
  - destruct (ssorted_inv _ _ Hs) as (Ht & Hlt). simpl in Hlt.
    destruct (Nat.eqb_spec c c0) as [->|Hne].
    + split; [apply ssorted_cons; [exact Ht|exact Hlt]|]. intros c' v' [E|H] Ec; [inversion E; reflexivity|].
      specialize (Hlt _ H). simpl in Hlt. lia.
    + destruct (Nat.ltb_spec c c0) as [Hlt0|Hge].
      * split; [apply ssorted_cons; [exact Hs|]|].
        -- intros q [<-|Hq]; simpl; [exact Hlt0|]. specialize (Hlt q Hq). lia.
        -- intros c' v' [E|[E|H]] Ec; [inversion E; reflexivity|inversion E; lia|]. specialize (Hlt _ H). simpl in Hlt. lia.
      * destruct (IH Ht) as (I1 & I2). split.
        -- apply ssorted_cons; [exact I1|]. intros (c', v') Hq. simpl. apply insert_shared_weak in Hq.
           destruct Hq as [(-> & _)|Hq]; [lia|apply (Hlt _ Hq)].
        -- intros c' v' [E|H] Ec; [inversion E; lia|apply (I2 c' v' H Ec)].
Qed.

Lemma insert_shared_in l c v c' v' : ssorted l ->
  (In (c', v') (insert_shared l c v) <-> (c' = c /\ v' = v) \/ (c' <> c /\ In (c', v') l)).
Proof.
  intros Hs. split.
  - intros H. destruct (Nat.eq_dec c' c) as [->|Hne].
    + left. split; [reflexivity|]. apply (proj2 (insert_shared_sorted l c v Hs) c v' H eq_refl).
    + apply insert_shared_weak in H. destruct H as [(E & _)|H]; [congruence|right; auto].
  - intros [(-> & ->)|(Hne & H)]; [apply insert_shared_has|apply insert_shared_keep; assumption].
Qed.

Lemma sort_shared_sorted l : ssorted (sort_shared l).
Proof. induction l as [|(c, v) t IH]; simpl; [constructor|]. apply insert_shared_sorted. exact IH. Qed.

Lemma sort_shared_in l : NoDup (map fst l) -> forall c v, In (c, v) (sort_shared l) <-> In (c, v) l.
Proof.
  induction l as [|(c0, v0) t IH]; intros Hnd c v; simpl; [tauto|]. inversion Hnd as [|? ? Hni Hnd']; subst.
  rewrite (insert_shared_in _ _ _ _ _ (sort_shared_sorted t)), (IH Hnd'). split.
  - intros [(-> & ->)|(_ & H)]; [left; reflexivity|right; exact H].
  - intros [E|H]; [inversion E; left; auto|]. right. split; [|exact H]. intros ->. apply Hni. apply in_map_iff. exists (c0, v). auto.
Qed.

(* two strictly sorted lists with the same pairs are equal *)
Lemma ssorted_ext : forall l1 l2, ssorted l1 -> ssorted l2 -> (forall p, In p l1 <-> In p l2) -> l1 = l2.
Proof.
  induction l1 as [|a t1 IH]; intros l2 H1 H2 Hm.
  - destruct l2 as [|b t2]; [reflexivity|]. exfalso. apply (proj2 (Hm b)). left. reflexivity.
  - destruct l2 as [|b t2]; [exfalso; apply (proj1 (Hm a)); left; reflexivity|].
    destruct (ssorted_inv _ _ H1) as (S1 & F1). destruct (ssorted_inv _ _ H2) as (S2 & F2).
    assert (Eab : a = b).
    { destruct (proj1 (Hm a) (or_introl eq_refl)) as [E|Ha]; [congruence|].
      destruct (proj2 (Hm b) (or_introl eq_refl)) as [E|Hb]; [congruence|].
      pose proof (F2 a Ha). pose proof (F1 b Hb). lia. }
    subst b. f_equal. apply IH; [exact S1|exact S2|]. intros e. split; intros He.
    + destruct (proj1 (Hm e) (or_intror He)) as [E|H]; [|exact H]. subst e. pose proof (F1 a He). lia.
    + destruct (proj2 (Hm e) (or_intror He)) as [E|H]; [|exact H]. subst e. pose proof (F2 a He). lia.
Qed.

Lemma filter_ssorted (f : nat * Z -> bool) l : ssorted l -> ssorted (filter f l).
Proof.
  induction l as [|p t IH]; intros Hs; simpl; [constructor|]. destruct (ssorted_inv _ _ Hs) as (Ht & Hlt).
  destruct (f p); [|apply IH; exact Ht]. apply ssorted_cons; [apply IH; exact Ht|]. intros q Hq. apply filter_In in Hq. apply Hlt. tauto.
Qed.

Lemma shared_match_refl l : shared_match l l = true.
Proof.
  unfold shared_match. rewrite Nat.eqb_refl. simpl. induction l as [|(c, v) t IH]; simpl; [reflexivity|].
  rewrite Nat.eqb_refl, Z.eqb_refl. exact IH.
Qed.

(* ---- the values of a shared info ---- *)
Definition shvals (s : mst) (sh : shared_info) : list (nat * Z) :=
  sort_shared (map (fun x : nat * nat => (fst x, inst_value s (snd x))) (combine (si_ids sh) (si_data sh))).

Lemma lookup_combine ids : forall data id i, NoDup ids -> (In (id, i) (combine ids data) <-> lookup ids data id = Some i).
Proof.
  induction ids as [|y t IH]; intros data id i Hnd; simpl; [split; [intros []|discriminate]|].
  destruct data as [|d dt]; [split; [intros []|discriminate]|]. inversion Hnd as [|? ? Hni Hnd']; subst. simpl.
  destruct (Nat.eqb_spec id y) as [->|Hne].
  - split.
    + intros [E|H]; [inversion E; reflexivity|]. exfalso. apply Hni. apply in_combine_l in H. exact H.
    + intros E. inversion E. left. reflexivity.
  - rewrite <- (IH dt id i Hnd'). split; [intros [E|H]; [inversion E; congruence|exact H]|intros H; right; exact H].
Qed.

Lemma shvals_in s sh id v : si_wf sh -> (In (id, v) (shvals s sh) <-> exists i, si_get sh id = Some i /\ inst_value s i = v).
Proof.
  intros (Hl & Hnd & _). unfold shvals. rewrite sort_shared_in.
  - rewrite in_map_iff. split.
    + intros ((id', i) & E & Hin). simpl in E. inversion E; subst. exists i. split; [|reflexivity].
      rewrite si_get_lookup. apply lookup_combine; assumption.
    + intros (i & Hg & Hv). exists (id, i). split; [simpl; rewrite Hv; reflexivity|]. rewrite si_get_lookup in Hg. apply lookup_combine; assumption.
  - rewrite map_map. simpl.
    assert (E : map (fun x : nat * nat => fst x) (combine (si_ids sh) (si_data sh)) = si_ids sh).
    { clear Hnd. revert Hl. generalize (si_data sh). induction (si_ids sh) as [|y t IH]; intros [|d dt] Hl; simpl in *; try discriminate; [reflexivity|].
      f_equal. apply IH. lia. }
    rewrite E. exact Hnd.
Qed.

Lemma shvals_sorted s sh : ssorted (shvals s sh).
Proof. apply sort_shared_sorted. Qed.

(* shared infos with the same lookups list the same values *)
Lemma shvals_ext s a b : si_wf a -> si_wf b -> (forall id, si_get a id = si_get b id) -> shvals s a = shvals s b.
Proof.
  intros Ha Hb Hg. apply ssorted_ext; [apply shvals_sorted|apply shvals_sorted|]. intros (id, v).
  rewrite (shvals_in _ _ _ _ Ha), (shvals_in _ _ _ _ Hb). split; intros (i & H1 & H2); exists i; (split; [|exact H2]); congruence.
Qed.

Lemma shvals_eqb s ty a b : si_wf a -> si_wf b -> si_typed ty a -> si_typed ty b -> si_eqb a b = true -> shvals s a = shvals s b.
Proof. intros Ha Hb Ta Tb E. apply shvals_ext; [exact Ha|exact Hb|]. apply (si_eqb_typed ty); assumption. Qed.

(* the values depend on the instances listed only *)
Lemma shvals_insts s s' sh : (forall i, In i (si_data sh) -> inst_value s' i = inst_value s i) -> shvals s' sh = shvals s sh.
Proof.
  intros H. unfold shvals. f_equal. apply map_ext_in. intros (id, i) Hin. simpl. rewrite H; [reflexivity|]. apply in_combine_r in Hin. exact Hin.
Qed.

(* assignShared / removeShared on the values *)
Lemma shvals_add s sh sid inst sh' v : si_wf sh -> si_add sh sid inst = Ok sh' -> inst_value s inst = v ->
  shvals s sh' = insert_shared (shvals s sh) sid v.
Proof.
  intros Hw Ha Hv. pose proof (si_add_wf _ _ _ _ Hw Ha) as Hw'.
  apply ssorted_ext; [apply shvals_sorted|apply insert_shared_sorted; apply shvals_sorted|]. intros (id, w).
  rewrite (insert_shared_in _ _ _ _ _ (shvals_sorted s sh)), (shvals_in _ _ _ _ Hw'), (shvals_in _ _ _ _ Hw). split.
  - intros (i & Hg & Hi). destruct (Nat.eq_dec id sid) as [->|Hne].
    + left. rewrite (si_add_get_same _ _ _ _ Hw Ha) in Hg. inversion Hg; subst i. split; [reflexivity|congruence].
    + right. split; [exact Hne|]. rewrite (si_add_get_other _ _ _ _ _ Hw Ha Hne) in Hg. eauto.
  - intros [(-> & ->)|(Hne & i & Hg & Hi)].
    + exists inst. split; [apply (si_add_get_same _ _ _ _ Hw Ha)|exact Hv].
    + exists i. split; [rewrite (si_add_get_other _ _ _ _ _ Hw Ha Hne); exact Hg|exact Hi].
Qed.

Lemma shvals_remove s sh sid sh' : si_wf sh -> si_remove sh sid = Ok sh' ->
  shvals s sh' = filter (fun p => negb (Nat.eqb (fst p) sid)) (shvals s sh).
Proof.
  intros Hw Hr. pose proof (si_remove_wf _ _ _ Hw Hr) as Hw'.
  apply ssorted_ext; [apply shvals_sorted|apply filter_ssorted; apply shvals_sorted|]. intros (id, w).
  rewrite filter_In, (shvals_in _ _ _ _ Hw'), (shvals_in _ _ _ _ Hw). simpl. split.
  - intros (i & Hg & Hi). destruct (Nat.eqb_spec id sid) as [->|Hne].
    + rewrite (si_remove_get_same _ _ _ Hw Hr) in Hg. discriminate.
    + rewrite (si_remove_get_other _ _ _ _ Hw Hr Hne) in Hg. split; [eauto|reflexivity].
  - intros ((i & Hg & Hi) & Hb). destruct (Nat.eqb_spec id sid) as [->|Hne]; [discriminate|].
    exists i. split; [rewrite (si_remove_get_other _ _ _ _ Hw Hr Hne); exact Hg|exact Hi].
Qed.

(* nothing of type sid is listed when the mask lacks it *)
Lemma shvals_absent s sh sid : si_wf sh -> mhas (si_mask sh) sid = false ->
  filter (fun p => negb (Nat.eqb (fst p) sid)) (shvals s sh) = shvals s sh.
Proof.
  intros Hw Hm. apply forallb_filter_id. apply forallb_forall. intros (id, w) Hin. simpl.
  apply (shvals_in _ _ _ _ Hw) in Hin. destruct Hin as (i & Hg & _).
  destruct (Nat.eqb_spec id sid) as [->|Hne]; [|reflexivity]. exfalso.
  assert (H : mhas (si_mask sh) sid = true) by (apply (si_get_has _ _ Hw); eauto). congruence.
Qed.
