(* C05 / C02: totality of the flush, part 1 -- one command pack.
   Forward lemmas ("the preconditions imply that the call returns Ok") for applyCommandPack on the states of the flush
   invariant FInv (ManagerFlush.v) + the shape invariant TI (ManagerTotal.v):
     - the mask loop (pack_loop_total), with destroyNow of a live entity (destroy_now_total_l);
     - the loop that move-constructs the assigned temporaries into the archetype (wr_total);
     - how far a pack gets (R_pack_create: a pack that begins with the creation of its entity; R_pack_other: a pack on
       an existing or dead target): skipped, finished by its destroyNow, or the write loop is reached in the archetype
       of the final component set;
     - inside the contract the write loop returns Ok (T_pack_create, T_pack_other, T_pack), outside it and on a live
       target it returns Err NullDeref (N_pack_create, N_pack_other, N_pack): the contract is exact.
   The one way applyCommandPack fails on recorded commands (Err NullDeref: the temporary of an assign command is
   move-constructed into a component the final archetype lacks) is excluded by the decidable contract pack_ar:
   every component the pack assigns is assigned by the LAST command of the pack that names it (ar_ok), unless the
   pack destroys its entity at once (has_dnow: the write loop is not reached) or goes through the null handle. *)
Require Import Coq.Lists.List Coq.NArith.NArith Coq.ZArith.ZArith Coq.Arith.Arith Coq.Bool.Bool Coq.micromega.Lia.
From Mustache Require Import Res Manager MgrSpec Refine.
From Mustache Require Skeleton.
From Mustache Require Import SkelSpec.
From Mustache.proofs Require Import ListLemmas SkelBasics SkelInv SkelSteps SkelRefine SkelLocked SkelFlush SkelMove SkelMoveRem SkelMain ClosureProofs
  ManagerBasics ManagerMoves ManagerProj ManagerInv ManagerMain ManagerWorlds ManagerTotal ManagerLInv ManagerPack ManagerFlush ManagerLocked.
From Mustache.proofs Require ManagerDeferred.
Import ListNotations.

(* ---------------------------------------------------------------------------------------- *)
(* the component set the mask loop computes, and what a pack leaves of one component *)
Fixpoint pmask (t : list acmd) (fm : mask) : mask :=
  match t with
  | [] => fm
  | ARemove _ c :: t' => pmask t' (mdel fm c)
  | AAssign _ c _ :: t' => pmask t' (madd fm c)
  | _ :: t' => pmask t' fm
  end.

(* Some true: the last command of t that names c assigns it; Some false: it removes it; None: no command names c *)
Fixpoint touch (c : nat) (t : list acmd) : option bool :=
  match t with
  | [] => None
  | ARemove _ c' :: t' => match touch c t' with Some b => Some b | None => if Nat.eqb c c' then Some false else None end
  | AAssign _ c' _ :: t' => match touch c t' with Some b => Some b | None => if Nat.eqb c c' then Some true else None end
  | _ :: t' => touch c t'
  end.

Lemma pmask_touch : forall t fm c, mhas (pmask t fm) c = match touch c t with Some b => b | None => mhas fm c end.
Proof.
  induction t as [|c0 t IH]; intros fm c; [reflexivity|].
  destruct c0 as [h0 ha m0 sh0|h0|h0|h0 c'|h0 c' n]; simpl; try apply IH.
  - rewrite IH. destruct (touch c t); [reflexivity|]. rewrite mhas_mdel. destruct (Nat.eqb c c'); simpl; [apply andb_false_r|apply andb_true_r].
  - rewrite IH. destruct (touch c t); [reflexivity|]. rewrite ManagerBasics.mhas_madd. destruct (Nat.eqb c c'); reflexivity.
Qed.

(* THE CONTRACT: no component is assigned and removed afterwards without being assigned again later in the pack *)
Fixpoint ar_ok (p : list acmd) : bool :=
  match p with
  | [] => true
  | AAssign _ c _ :: t => negb (match touch c t with Some false => true | _ => false end) && ar_ok t
  | _ :: t => ar_ok t
  end.

Lemma ar_ok_assigned : forall p h c n, ar_ok p = true -> In (AAssign h c n) p -> touch c p = Some true.
Proof.
  induction p as [|c0 t IH]; intros h c n Hok Hin; [contradiction|].
  destruct c0 as [h0 ha m0 sh0|h0|h0|h0 c'|h0 c' n']; simpl in Hok |- *;
    try (destruct Hin as [E|Hin]; [discriminate|]; try (rewrite (IH h c n Hok Hin); reflexivity); apply (IH h c n Hok Hin)).
  apply andb_true_iff in Hok. destruct Hok as (H1 & H2). destruct Hin as [E|Hin].
  - inversion E; subst. rewrite Nat.eqb_refl. destruct (touch c t) as [[|]|]; [reflexivity|discriminate|reflexivity].
  - rewrite (IH h c n H2 Hin). reflexivity.
Qed.

(* the contract says exactly: the component set the mask loop ends with contains every component the pack assigns
   (the write loop move-constructs the temporary of every assign command into that set: Err NullDeref otherwise) *)
Lemma touch_assigned : forall p h c n, In (AAssign h c n) p -> touch c p <> None.
Proof.
  induction p as [|c0 t IH]; intros h c n Hin; [contradiction|].
  destruct c0 as [h0 ha m0 sh0|h0|h0|h0 c'|h0 c' n']; simpl;
    try (destruct Hin as [E|Hin]; [discriminate|]; try apply (IH h c n Hin)).
  - pose proof (IH h c n Hin) as Ht. destruct (touch c t); [discriminate|congruence].
  - destruct Hin as [E|Hin].
    + inversion E; subst. rewrite Nat.eqb_refl. destruct (touch c t); discriminate.
    + pose proof (IH h c n Hin) as Ht. destruct (touch c t); [discriminate|congruence].
Qed.

Lemma ar_ok_of_touch : forall p, (forall h c n, In (AAssign h c n) p -> touch c p = Some true) -> ar_ok p = true.
Proof.
  induction p as [|c0 t IH]; intros H; [reflexivity|].
  assert (Ht : forall h c n, In (AAssign h c n) t -> touch c t = Some true).
  { intros h c n Hin. pose proof (H h c n (or_intror Hin)) as E. pose proof (touch_assigned t h c n Hin) as Hn.
    destruct c0 as [h0 ha m0 sh0|h0|h0|h0 c'|h0 c' n']; simpl in E; try exact E; destruct (touch c t); congruence. }
  destruct c0 as [h0 ha m0 sh0|h0|h0|h0 c'|h0 c' n']; simpl; try (apply IH; exact Ht).
  apply andb_true_iff. split; [|apply IH; exact Ht].
  pose proof (H h0 c' n' (or_introl eq_refl)) as E. simpl in E. destruct (touch c' t) as [[|]|]; [reflexivity|discriminate|reflexivity].
Qed.

Theorem ar_ok_meaning p : ar_ok p = true <-> forall h c n, In (AAssign h c n) p -> forall fm, mhas (pmask p fm) c = true.
Proof.
  split.
  - intros H h c n Hin fm. rewrite pmask_touch, (ar_ok_assigned p h c n H Hin). reflexivity.
  - intros H. apply ar_ok_of_touch. intros h c n Hin. pose proof (H h c n Hin 0%N) as E. rewrite pmask_touch in E.
    pose proof (touch_assigned p h c n Hin) as Hn. destruct (touch c p) as [b|]; [subst b; reflexivity|congruence].
Qed.

(* outside the contract: some assigned component is removed by the last command that names it *)
Lemma ar_ok_false : forall p, ar_ok p = false -> exists h c n, In (AAssign h c n) p /\ touch c p = Some false.
Proof.
  induction p as [|c0 t IH]; intros H; [discriminate|].
  assert (Ht : ar_ok t = false -> exists h c n, In (AAssign h c n) (c0 :: t) /\ touch c (c0 :: t) = Some false).
  { intros Hf. destruct (IH Hf) as (h & c & n & Hin & E). exists h, c, n. split; [right; exact Hin|].
    destruct c0 as [h0 ha m0 sh0|h0|h0|h0 c'|h0 c' n']; simpl; rewrite ?E; reflexivity. }
  destruct c0 as [h0 ha m0 sh0|h0|h0|h0 c'|h0 c' n']; simpl in H; try (apply Ht; exact H).
  apply andb_false_iff in H. destruct H as [H|H]; [|apply Ht; exact H].
  exists h0, c', n'. split; [left; reflexivity|]. simpl. destruct (touch c' t) as [[|]|]; try discriminate. reflexivity.
Qed.

Fixpoint has_dnow (p : list acmd) : bool :=
  match p with [] => false | ADestroyNow _ :: _ => true | _ :: t => has_dnow t end.

Definition pack_ar (p : list acmd) : bool :=
  match p with [] => true | c0 :: _ => is_null (cmd_handle c0) || has_dnow p || ar_ok p end.

(* the component ids a recorded command names have a description *)
Definition cmd_reg (n : nat) (c : acmd) : Prop :=
  match c with AAssign _ cid _ => cid < n | ACreate _ _ m _ => mreg n m | _ => True end.

Lemma pmask_reg n : forall t fm, Forall (cmd_reg n) t -> mreg n fm -> mreg n (pmask t fm).
Proof.
  induction t as [|c0 t IH]; intros fm Hr Hm; [exact Hm|]. inversion Hr as [|? ? H0 Ht]; subst.
  destruct c0 as [h0 ha m0 sh0|h0|h0|h0 c'|h0 c' n']; simpl; try (apply IH; assumption).
  - apply IH; [exact Ht|apply mreg_mdel; exact Hm].
  - apply IH; [exact Ht|apply mreg_madd; [exact Hm|exact H0]].
Qed.

(* ---------------------------------------------------------------------------------------- *)
(* TI reads def_chunk, chunk_fns and the archetypes only *)
Lemma TI_same cis s s' : TI cis s -> def_chunk s' = def_chunk s -> chunk_fns s' = chunk_fns s -> archs s' = archs s -> TI cis s'.
Proof. intros [A B C] E1 E2 E3. constructor; [rewrite E1; exact A|rewrite E2; exact B|rewrite E3; exact C]. Qed.

Lemma TI_set_marked cis s m : TI cis s -> TI cis (set_marked s m).
Proof. intros H. apply (TI_same cis s); [exact H|reflexivity|reflexivity|reflexivity]. Qed.

Lemma TI_set_lock cis s v : TI cis s -> TI cis (set_lock s v).
Proof. intros H. apply (TI_same cis s); [exact H|reflexivity|reflexivity|reflexivity]. Qed.

Lemma TI_fr4 cis s s' : TI cis s -> fr4 s' = fr4 s -> archs s' = archs s -> TI cis s'.
Proof. intros H F A. destruct (fr4_fields _ _ F) as (_ & _ & _ & _ & _ & _ & _ & _ & E1 & E2). apply (TI_same cis s); assumption. Qed.

Lemma TI_cells cis s ai idx a0 s' a' : TI cis s -> nth_error (archs s) ai = Some a0 -> cells_of s ai idx a0 s' a' -> TI cis s'.
Proof.
  intros HT Ha (F & A & Hab & _). apply (TI_upd cis s s' ai a' HT); [apply fr2_fr3, fr1_fr2; exact F|exact A|].
  destruct (twf_nth _ _ _ _ (ti_archs _ _ HT) Ha) as (Hv & Hr). split; [apply (vwf_ab1 a0 a' Hab Hv)|].
  destruct (ab1_fields _ _ Hab) as (Em & _). rewrite Em. exact Hr.
Qed.

(* ---------------------------------------------------------------------------------------- *)
(* destroyNow of an issued handle (alive or not), on the locked invariant *)
Lemma member_ids_l s hs al rem ai a : G (proj s) hs al rem -> nth_error (archs s) ai = Some a ->
  forall p y, nth_error (am_ents a) p = Some y -> N.to_nat (fst y) < length (locs s).
Proof.
  intros HG Ha p y Hp. destruct (members_l _ _ _ _ _ _ _ _ HG Ha Hp) as (_ & _ & _ & _ & L). eapply nth_error_lt'. exact L.
Qed.

Lemma destroy_now_total_l cis s hs al rem x k :
  LInv cis s hs al rem x -> TI cis s ->
  exists s', destroy_now_unlocked s (hnd hs k) = Ok s' /\ TI cis s'.
Proof.
  intros HI HT. unfold destroy_now_unlocked.
  destruct (is_valid s (hnd hs k)) eqn:Ev; [|exists s; split; [reflexivity|exact HT]].
  destruct (valid_find_l _ _ _ _ _ _ _ HI Ev) as (Hk & Hal & _). destruct (alive_in _ _ Hal) as (key & Hin).
  pose proof (li_G _ _ _ _ _ _ HI) as HG.
  destruct (live_l _ _ _ _ _ _ HG Hin) as (_ & ai & idx & a & Hloc & Harch & _ & Hent).
  rewrite (nth_res_some _ _ _ Hloc). cbn [bind l_arch l_idx].
  destruct (awf_nth _ _ _ (li_awf _ _ _ _ _ _ HI) Harch) as (_ & Wsz & Wcols).
  destruct (arch_remove_total s ai idx (hnd hs k) 0%N a (length cis) Harch (twf_nth _ _ _ _ (ti_archs _ _ HT) Harch))
    as (s1 & E & _ & a' & A' & Ht').
  { rewrite (li_cis _ _ _ _ _ _ HI). reflexivity. }
  { exact Wsz. }
  { eapply nth_error_lt'. exact Hent. }
  { eapply nth_error_lt'. exact Hloc. }
  { apply (member_ids_l _ _ _ _ _ _ HG Harch). }
  rewrite E. cbn [bind]. eexists. split; [reflexivity|]. apply TI_release.
  destruct (arch_remove_ok _ _ _ _ _ _ _ Harch Wsz Wcols E) as (a'' & F2 & _).
  apply (TI_upd cis s s1 ai a' HT (fr2_fr3 _ _ F2) A' Ht').
Qed.

(* ---------------------------------------------------------------------------------------- *)
(* the mask loop of applyCommandPack *)
Lemma pack_loop_total cis create h : forall t s fm am,
  Forall (fun c => ManagerPack.is_create c = false) t -> TI cis s ->
  (create = false -> forall m', exists s', destroy_now_unlocked (set_marked s m') h = Ok s' /\ TI cis s') ->
  exists s3 final assigned fin, pack_loop create h t s fm am = Ok (s3, final, assigned, fin) /\ TI cis s3 /\
    (fin = false -> has_dnow t = false /\ final = pmask t fm /\ exists m', s3 = set_marked s m') /\
    (fin = true -> has_dnow t = true).
Proof.
  induction t as [|c0 t IH]; intros s fm am Hnc HT Hd.
  - exists s, fm, am, false. split; [reflexivity|]. split; [exact HT|]. split; [|discriminate]. intros _. split; [reflexivity|]. split; [reflexivity|].
    exists (marked s). symmetry. apply set_marked_id.
  - inversion Hnc as [|? ? Hc0 Hnct]; subst.
    destruct c0 as [h0 ha m0 sh0|h0|h0|h0 c'|h0 c' n']; [discriminate| | | |]; cbn [pack_loop has_dnow pmask].
    + destruct (IH (set_marked s (set_insert (marked s) h0)) fm am Hnct (TI_set_marked _ _ _ HT)) as (s3 & final & asg & fin & E & HT3 & Hf & Hft).
      { intros Ec m'. exact (Hd Ec m'). }
      exists s3, final, asg, fin. split; [exact E|]. split; [exact HT3|]. split; [|exact Hft]. intros Ef. destruct (Hf Ef) as (A & B & m' & C).
      split; [exact A|]. split; [exact B|]. exists m'. exact C.
    + destruct create.
      * eexists. eexists. eexists. exists true. split; [reflexivity|]. split; [apply TI_release; exact HT|]. split; [discriminate|reflexivity].
      * destruct (Hd eq_refl (marked s)) as (s' & E & HT'). rewrite set_marked_id in E. rewrite E. cbn [bind].
        eexists. eexists. eexists. exists true. split; [reflexivity|]. split; [exact HT'|]. split; [discriminate|reflexivity].
    + apply (IH s (mdel fm c') am Hnct HT Hd).
    + apply (IH s (madd fm c') (madd am c') Hnct HT Hd).
Qed.

(* ---------------------------------------------------------------------------------------- *)
(* the loop that move-constructs the assigned temporaries into the archetype *)
(* what every recorded assign command satisfies: a described component, an existing temporary *)
Definition wr_pre0 (n : nat) (tl : list cell) (c : acmd) : Prop :=
  match c with AAssign _ cid k => cid < n /\ k < length tl | _ => True end.
(* ... and the target archetype has the component *)
Definition wr_pre (n : nat) (m : mask) (tl : list cell) (c : acmd) : Prop :=
  match c with AAssign _ cid k => cid < n /\ mhas m cid = true /\ k < length tl | _ => True end.

Lemma wr_step_total cis tid h ai a idx tl s a0 st a_st c :
  nth_error (archs s) ai = Some a0 -> nth_error (tmps s) tid = Some tl -> cinfos s = cis ->
  wr_pre (length cis) (am_mask a) tl c -> cells_of s ai idx a0 st a_st ->
  exists st1 a1, wr_step tid h ai a idx st c = Ok st1 /\ cells_of s ai idx a0 st1 a1.
Proof.
  intros Ha0 Htl Hcis Hc0 Hc.
  destruct c as [h0 ha m0 sh0|h0|h0|h0 c'|h0 cid n]; try (exists st, a_st; split; [reflexivity|exact Hc]).
  destruct Hc0 as (Hreg & Hm & Hn). unfold wr_step.
  assert (Hci : cinfos st = cinfos s) by (apply fr1_cinfos; exact (proj1 Hc)).
  destruct (info_of_total st cid) as (inf & Einf); [rewrite Hci, Hcis; exact Hreg|]. rewrite Einf. cbn [bind].
  unfold cindex. rewrite Hm.
  rewrite (fr1_tmps _ _ (proj1 Hc)), (nth_res_some _ _ _ Htl). cbn [bind].
  destruct (nth_error_ex tl n Hn) as (v & Hv). rewrite (nth_res_some _ _ _ Hv). cbn [bind].
  rewrite (write_cell_total _ _ _ _ idx v (cells_of_nth _ _ _ _ _ _ Ha0 Hc)). cbn [bind].
  eexists. eexists. split; [reflexivity|].
  eapply cells_of_olog; [apply cells_of_put; exact Hc|]. eapply olog_trans; apply olog_if.
Qed.

Lemma wr_total cis tid h ai a idx tl s a0 :
  nth_error (archs s) ai = Some a0 -> nth_error (tmps s) tid = Some tl -> cinfos s = cis ->
  forall p st a_st, Forall (wr_pre (length cis) (am_mask a) tl) p -> cells_of s ai idx a0 st a_st ->
  exists s', fold_res (wr_step tid h ai a idx) p st = Ok s' /\ exists a', cells_of s ai idx a0 s' a'.
Proof.
  intros Ha0 Htl Hcis p. induction p as [|c p IH]; intros st a_st Hp Hc.
  - exists st. split; [reflexivity|]. exists a_st. exact Hc.
  - inversion Hp as [|? ? Hc0 Hp']; subst. cbn [fold_res].
    destruct (wr_step_total (cinfos s) tid h ai a idx tl s a0 st a_st c Ha0 Htl eq_refl Hc0 Hc) as (st1 & a1 & E1 & Hc1).
    rewrite E1. cbn [bind]. apply (IH st1 a1 Hp' Hc1).
Qed.

(* an assign command whose component the target archetype lacks: move_constructor(nullptr, tmp) *)
Lemma wr_fails cis tid h ai a idx tl s a0 :
  nth_error (archs s) ai = Some a0 -> nth_error (tmps s) tid = Some tl -> cinfos s = cis ->
  forall p st a_st, Forall (wr_pre0 (length cis) tl) p -> cells_of s ai idx a0 st a_st ->
  (exists h0 c k, In (AAssign h0 c k) p /\ mhas (am_mask a) c = false) ->
  fold_res (wr_step tid h ai a idx) p st = Err NullDeref.
Proof.
  intros Ha0 Htl Hcis p. induction p as [|c p IH]; intros st a_st Hp Hc (h0 & c1 & k1 & Hin & Hm1); [contradiction|].
  inversion Hp as [|? ? Hc0 Hp']; subst. cbn [fold_res].
  assert (Hci : cinfos st = cinfos s) by (apply fr1_cinfos; exact (proj1 Hc)).
  assert (Hbad : forall hh cid n, c = AAssign hh cid n -> mhas (am_mask a) cid = false -> wr_step tid h ai a idx st c = Err NullDeref).
  { intros hh cid n -> Hm. simpl in Hc0. destruct Hc0 as (Hreg & _). unfold wr_step.
    destruct (info_of_total st cid) as (inf & Einf); [rewrite Hci; exact Hreg|]. rewrite Einf. cbn [bind].
    unfold cindex. rewrite Hm. reflexivity. }
  assert (Hgood : wr_pre (length (cinfos s)) (am_mask a) tl c ->
            bind (wr_step tid h ai a idx st c) (fold_res (wr_step tid h ai a idx) p) = Err NullDeref).
  { intros Hpre. destruct Hin as [E|Hin].
    - subst c. simpl in Hpre. destruct Hpre as (_ & Hm & _). congruence.
    - destruct (wr_step_total (cinfos s) tid h ai a idx tl s a0 st a_st c Ha0 Htl eq_refl Hpre Hc) as (st1 & a1 & E1 & Hc1).
      rewrite E1. cbn [bind]. apply (IH st1 a1 Hp' Hc1). exists h0, c1, k1. auto. }
  destruct c as [h' ha m0 sh0|h'|h'|h' c'|h' cid n]; try (apply Hgood; exact I).
  destruct (mhas (am_mask a) cid) eqn:Em.
  - apply Hgood. simpl in Hc0 |- *. destruct Hc0 as (A & B). auto.
  - rewrite (Hbad h' cid n eq_refl Em). reflexivity.
Qed.

(* the preconditions of the write loop, from the recorded commands (and the contract) *)
Lemma wr_pre0_of cis hs tl n : forall q xq, Forall2 (crel cis hs tl) q xq -> Forall (cmd_reg n) q -> Forall (wr_pre0 n tl) q.
Proof.
  induction 1 as [|c xc q xq Hc Hq IH]; intros Hr; [constructor|]. inversion Hr as [|? ? H0 Hr']; subst.
  constructor; [|apply IH; exact Hr'].
  destruct c as [h0 ha m0 sh0|h0|h0|h0 c'|h0 cid k]; try exact I.
  destruct xc as [k1 m1 sh1|k1|k1|k1 c1 v1|k1 c1]; simpl in Hc; try contradiction.
  destruct Hc as (_ & _ & _ & _ & Hn). split; [exact H0|]. eapply nth_error_lt'. exact Hn.
Qed.

Lemma wr_pre_of n m tl : forall q, Forall (wr_pre0 n tl) q ->
  (forall h c k, In (AAssign h c k) q -> mhas m c = true) -> Forall (wr_pre n m tl) q.
Proof.
  induction 1 as [|c q Hc Hq IH]; intros Hm; [constructor|].
  constructor; [|apply IH; intros h c0 k Hin; apply (Hm h c0 k); right; exact Hin].
  destruct c as [h0 ha m0 sh0|h0|h0|h0 c'|h0 cid k]; try exact I.
  destruct Hc as (A & B). split; [exact A|]. split; [apply (Hm h0 cid k); left; reflexivity|exact B].
Qed.

Lemma minstall_total s h : exists s2, minstall s h = Ok s2.
Proof.
  unfold minstall. destruct (Nat.ltb_spec (N.to_nat (fst h)) (length (slots s))) as [Hlt|Hge].
  - rewrite upd_res_some' by exact Hlt. cbn [bind]. eauto.
  - rewrite upd_res_some' by (cbn [slots set_locs set_slots]; rewrite SkelFlush.resize_length; lia). cbn [bind]. eauto.
Qed.

(* the tail of every pack: location, archetype, write loop *)
Definition pack_tail (tid : nat) (h : handle) (s5 : mst) (ai : nat) (q : list acmd) : res mst :=
  do l <- nth_res (locs s5) (N.to_nat (fst h)); do a <- nth_res (archs s5) ai; fold_res (wr_step tid h ai a (l_idx l)) q s5.

(* the state in which the tail of a pack runs *)
Definition tail_ready (cis : list cinfo) (tid : nat) (tl : list cell) (h : handle) (s5 : mst) (ai : nat) (final : mask) : Prop :=
  TI cis s5 /\ cinfos s5 = cis /\ nth_error (tmps s5) tid = Some tl /\ N.to_nat (fst h) < length (locs s5) /\
  exists a5, nth_error (archs s5) ai = Some a5 /\ am_mask a5 = final.

Lemma finish_total cis tid tl h s5 ai final q :
  tail_ready cis tid tl h s5 ai final -> Forall (wr_pre (length cis) final tl) q ->
  exists s6, pack_tail tid h s5 ai q = Ok s6 /\ TI cis s6.
Proof.
  intros (HT & Hcis & Htl & Hh & a5 & Ha & Em) Hq. subst final. destruct (nth_error_ex _ _ Hh) as (l & Hl). unfold pack_tail.
  rewrite (nth_res_some _ _ _ Hl). cbn [bind]. rewrite (nth_res_some _ _ _ Ha). cbn [bind].
  destruct (wr_total cis tid h ai a5 (l_idx l) tl s5 a5 Ha Htl Hcis q s5 a5 Hq (cells_of_refl _ _ _ _ Ha)) as (s6 & E & a6 & Hc6).
  exists s6. split; [exact E|]. apply (TI_cells cis s5 ai (l_idx l) a5 s6 a6 HT Ha Hc6).
Qed.

Lemma finish_fails cis tid tl h s5 ai final q :
  tail_ready cis tid tl h s5 ai final -> Forall (wr_pre0 (length cis) tl) q ->
  (exists h0 c k, In (AAssign h0 c k) q /\ mhas final c = false) ->
  pack_tail tid h s5 ai q = Err NullDeref.
Proof.
  intros (HT & Hcis & Htl & Hh & a5 & Ha & Em) Hq Hbad. subst final. destruct (nth_error_ex _ _ Hh) as (l & Hl). unfold pack_tail.
  rewrite (nth_res_some _ _ _ Hl). cbn [bind]. rewrite (nth_res_some _ _ _ Ha). cbn [bind].
  apply (wr_fails cis tid h ai a5 (l_idx l) tl s5 a5 Ha Htl Hcis q s5 a5 Hq (cells_of_refl _ _ _ _ Ha) Hbad).
Qed.

(* ---------------------------------------------------------------------------------------- *)
(* a pack that begins with the creation of its entity: either it destroys the entity at once, or it reaches the tail
   in the archetype of the final component set *)
Lemma R_pack_create cis tid tl s hs x k m ha sh h t rem' :
  FInv cis s hs x (SCreate k m :: rem') -> TI cis s -> nth_error (tmps s) tid = Some tl ->
  sh = si_null -> ha = negb (m =? 0)%N -> Forall (fun c => ManagerPack.is_create c = false) t ->
  mreg (length cis) m -> Forall (cmd_reg (length cis)) t ->
  (has_dnow t = true /\ exists s', apply_pack tid s (ACreate h ha m sh :: t) = Ok s' /\ TI cis s') \/
  (has_dnow t = false /\ exists s5 ai, apply_pack tid s (ACreate h ha m sh :: t) = pack_tail tid h s5 ai (ACreate h ha m sh :: t) /\
                                      tail_ready cis tid tl h s5 ai (pmask t m)).
Proof.
  intros [(al & HI) Hcr Hmr Hids] HT Htl -> Eha Hnc Hm Hreg.
  pose proof HI as [HG Hawf Hdp Hc Hxd Hxc Hcnt Hsl Hal Hv].
  rewrite apply_pack_create_eq.
  destruct (minstall_total s h) as (s2 & Hinst). rewrite Hinst. cbn [bind].
  assert (Hlen : length (locs s) = length (slots s)).
  { pose proof (g_len HG) as E. simpl in E. rewrite !map_length in E. exact E. }
  destruct (minstall_facts s h s2 Hlen Hinst) as (I1 & I2 & I3 & _ & _ & _ & _ & _ & _ & Ia2 & If2 & _).
  assert (Eex : (if ha then extra_components s m else Ok 0%N) = Ok 0%N) by (destruct ha; [apply extra_nil; exact Hdp|reflexivity]).
  rewrite Eex. cbn [bind].
  assert (Em0 : (if ha then munion m 0%N else 0%N) = m).
  { destruct ha; [apply munion_zero|]. symmetry in Eha. apply negb_false_iff in Eha. apply N.eqb_eq in Eha. congruence. }
  assert (Esh0 : (if ha then si_null else si_null) = si_null) by (destruct ha; reflexivity).
  rewrite Em0, Esh0.
  assert (HT2 : TI cis s2) by (apply (TI_fr4 cis s s2 HT If2 Ia2)).
  destruct (fr4_fields _ _ If2) as (_ & D2 & C2 & _ & _ & _ & T2 & _).
  destruct (pack_loop_total cis true h t s2 m 0%N Hnc HT2) as (s3 & final & asg & fin & Eloop & HT3 & Hf & Hft); [discriminate|].
  rewrite Eloop. cbn [bind]. destruct fin; [left; split; [apply Hft; reflexivity|exists s3; split; [reflexivity|exact HT3]]|].
  destruct (Hf eq_refl) as (Hnd & -> & m' & ->). right. split; [exact Hnd|].
  assert (Hmf : mreg (length cis) (pmask t m)) by (apply pmask_reg; assumption).
  destruct (get_arch_TI cis (set_marked s2 m') (pmask t m) (TI_set_marked _ _ _ HT2)) as (s4 & ai & Ega & HT4); [cbn [deps set_marked]; congruence|exact Hmf|].
  rewrite Ega. cbn [bind].
  destruct (get_arch_awf (set_marked s2 m') (pmask t m) s4 ai) as (F4 & Hawf4 & _ & a & Ha & Hma);
    [cbn [deps set_marked]; congruence|cbn [archs set_marked]; rewrite Ia2; exact Hawf|exact Ega|].
  pose proof (fr1_locs _ _ F4) as L4. cbn [locs set_marked] in L4.
  assert (Hh4 : N.to_nat (fst h) < length (locs s4)).
  { rewrite L4, I1. eapply nth_error_lt'. exact I3. }
  assert (Hc4 : cinfos s4 = cis) by (rewrite (fr1_cinfos _ _ F4); cbn [cinfos set_marked]; congruence).
  destruct (arch_insert_total s4 ai a h asg (length cis) Ha (twf_nth _ _ _ _ (ti_archs _ _ HT4) Ha)) as (s5 & Eins & a3 & Ha3 & Ht3);
    [rewrite Hc4; reflexivity|exact Hh4|].
  rewrite Eins. cbn [bind].
  destruct (awf_nth _ _ _ Hawf4 Ha) as (_ & _ & Wcl).
  destruct (arch_insert_ok _ _ _ _ _ _ Ha Wcl Eins) as (a3' & F5 & A5 & _ & L5 & Hab & _).
  assert (a3' = a3).
  { rewrite A5, nth_error_upd_same in Ha3 by (eapply nth_error_lt'; exact Ha). congruence. }
  subst a3'. destruct (ab3_fields _ _ Hab) as (Em3 & _).
  assert (HT5 : TI cis s5) by (apply (TI_upd cis s4 s5 ai a3 HT4 (fr2_fr3 _ _ F5) A5 Ht3)).
  destruct (fr4_fields _ _ (fr2_fr4 _ _ F5)) as (_ & _ & C5 & _ & _ & _ & T5 & _).
  destruct (fr4_fields _ _ (fr1_fr4 _ _ F4)) as (_ & _ & _ & _ & _ & _ & T4 & _). cbn [tmps set_marked] in T4.
  exists s5, ai. split; [reflexivity|]. split; [exact HT5|]. split; [congruence|]. split; [congruence|].
  split; [rewrite L5, upd_length; exact Hh4|]. exists a3. split; [exact Ha3|congruence].
Qed.

(* ---------------------------------------------------------------------------------------- *)
(* a pack on an existing handle: skipped when the handle is not alive, finished by its destroyNow, or it reaches the
   tail in the archetype of the final component set (after one externalMove, or none) *)
Lemma R_pack_other cis tid tl s hs x k h c0 t rem' :
  FInv cis s hs x rem' -> TI cis s -> nth_error (tmps s) tid = Some tl ->
  k < length hs -> hnd hs k = h ->
  Forall (fun c => ManagerPack.is_create c = false) (c0 :: t) ->
  Forall (cmd_reg (length cis)) (c0 :: t) -> cmd_handle c0 = h ->
  ((is_valid s h = false \/ has_dnow (c0 :: t) = true) /\ exists s', apply_pack tid s (c0 :: t) = Ok s' /\ TI cis s') \/
  (is_valid s h = true /\ has_dnow (c0 :: t) = false /\ exists s5 ai fm, apply_pack tid s (c0 :: t) = pack_tail tid h s5 ai (c0 :: t) /\
                                      tail_ready cis tid tl h s5 ai (pmask (c0 :: t) fm)).
Proof.
  intros [(al & HI) Hcr Hmr Hids] HT Htl Hk Eh Hnc Hreg Hc0.
  pose proof HI as [HG Hawf Hdp Hc Hxd Hxc Hcnt Hsl Hal Hv].
  assert (Hc0c : ManagerPack.is_create c0 = false) by (inversion Hnc; assumption).
  rewrite (apply_pack_other_eq _ _ _ _ Hc0c), Hc0.
  destruct (is_valid s h) eqn:Ev; [|left; split; [left; reflexivity|exists s; split; [reflexivity|exact HT]]].
  rewrite <- Eh in Ev. destruct (valid_find_l _ _ _ _ _ _ _ HI Ev) as (_ & Ha & _). destruct (alive_in _ _ Ha) as (key & Hin).
  destruct (live_l _ _ _ _ _ _ HG Hin) as (_ & pai & pidx & pa & Hloc & Hpa & _ & Hent).
  rewrite Eh in Hloc, Hent.
  rewrite (loc_arch_some _ _ _ _ Hloc). cbn [bind fst]. rewrite (nth_res_some _ _ _ Hpa). cbn [bind].
  destruct (pack_loop_total cis false h (c0 :: t) s (am_mask pa) 0%N Hnc HT) as (s3 & final & asg & fin & Eloop & HT3 & Hf & Hft).
  { intros _ m'. rewrite <- Eh. apply (destroy_now_total_l cis (set_marked s m') hs al rem' x k); [|apply TI_set_marked; exact HT].
    eapply LInv_frame; [| | | | | | |exact HI]; reflexivity. }
  rewrite Eloop. cbn [bind]. destruct fin; [left; split; [right; apply Hft; reflexivity|exists s3; split; [reflexivity|exact HT3]]|].
  destruct (Hf eq_refl) as (Hnd & -> & m' & ->). right. split; [reflexivity|]. split; [exact Hnd|].
  set (final := pmask (c0 :: t) (am_mask pa)) in *.
  destruct (twf_nth _ _ _ _ (ti_archs _ _ HT) Hpa) as (_ & Hregp).
  assert (Hmf : mreg (length cis) final) by (apply pmask_reg; assumption).
  destruct (awf_nth _ _ _ Hawf Hpa) as (Wsh & _). rewrite Wsh.
  assert (HIm : LInv cis (set_marked s m') hs al rem' x) by (eapply LInv_frame; [| | | | | | |exact HI]; reflexivity).
  destruct (get_arch_TI cis (set_marked s m') final (TI_set_marked _ _ _ HT)) as (s4 & ai & Ega & HT4); [exact Hdp|exact Hmf|].
  rewrite Ega. cbn [bind].
  destruct (LInv_get_arch cis _ hs al rem' x final s4 ai HIm Ega) as (HI4 & F4 & Hkeep & a_t & Hat & Hmt).
  assert (Hpa4 : nth_error (archs s4) pai = Some pa) by (apply Hkeep; exact Hpa).
  assert (Hloc4 : nth_error (locs s4) (N.to_nat (fst h)) = Some {| l_arch := Some pai; l_idx := pidx |}) by (rewrite (fr1_locs _ _ F4); exact Hloc).
  assert (Htl4 : nth_error (tmps s4) tid = Some tl) by (rewrite (fr1_tmps _ _ F4); exact Htl).
  assert (Hc4 : cinfos s4 = cis) by (apply (li_cis _ _ _ _ _ _ HI4)).
  (* the move (or none) *)
  match goal with |- exists s5' ai' fm', bind ?X _ = _ /\ _ =>
    assert (K : exists s5, X = Ok s5 /\ tail_ready cis tid tl h s5 ai final) end.
  { assert (K0 : tail_ready cis tid tl h s4 ai final).
    { repeat (split; [assumption|]). split; [eapply nth_error_lt'; exact Hloc4|]. exists a_t. split; assumption. }
    destruct (negb (am_mask pa =? final)%N); [|exists s4; split; [reflexivity|exact K0]].
    rewrite (loc_arch_some _ _ _ _ Hloc4). cbn [bind fst snd].
    destruct (Nat.eqb_spec pai ai) as [E|Hne]; [exists s4; split; [reflexivity|exact K0]|].
    destruct (move_total_gen cis s4 h ai a_t pai pidx pa final HT4 (li_awf _ _ _ _ _ _ HI4) Hc4) as (s5 & Emv & HT5 & Hl5 & a2 & Ha2 & Em2).
    { apply (member_ids_l _ _ _ _ _ _ (li_G _ _ _ _ _ _ HI4) Hpa4). }
    { eapply nth_error_lt'. exact Hloc4. }
    { exact Hpa4. }
    { eapply nth_error_lt'. exact Hent. }
    { exact Hat. }
    { congruence. }
    destruct (external_move_fr _ _ _ _ _ _ _ (li_awf _ _ _ _ _ _ HI4) Emv) as (F5 & _).
    destruct (fr4_fields _ _ (fr2_fr4 _ _ F5)) as (_ & _ & C5 & _ & _ & _ & T5 & _).
    exists s5. split; [exact Emv|]. split; [exact HT5|]. split; [congruence|]. split; [congruence|].
    split; [rewrite Hl5; eapply nth_error_lt'; exact Hloc4|]. exists a2. split; [exact Ha2|congruence]. }
  destruct K as (s5 & E5 & Hready). rewrite E5. cbn [bind].
  exists s5, ai, (am_mask pa). split; [reflexivity|exact Hready].
Qed.

(* ---------------------------------------------------------------------------------------- *)
(* inside the contract the tail returns Ok ... *)
Lemma T_pack_create cis tid tl s hs x k m ha sh h t xt rem' :
  FInv cis s hs x (SCreate k m :: rem') -> TI cis s -> nth_error (tmps s) tid = Some tl ->
  k < length hs -> hnd hs k = h -> sh = si_null -> ha = negb (m =? 0)%N ->
  Forall2 (crel cis hs tl) t xt -> Forall (fun c => ManagerPack.is_create c = false) t ->
  mreg (length cis) m -> Forall (cmd_reg (length cis)) t -> has_dnow t || ar_ok t = true ->
  exists s', apply_pack tid s (ACreate h ha m sh :: t) = Ok s' /\ TI cis s'.
Proof.
  intros HF HT Htl Hk Eh Esh Eha HR Hnc Hm Hreg Har.
  destruct (R_pack_create cis tid tl s hs x k m ha sh h t rem' HF HT Htl Esh Eha Hnc Hm Hreg) as [(_ & Hok)|(Hnd & s5 & ai & E & Hready)]; [exact Hok|].
  rewrite Hnd in Har. cbn [orb] in Har. rewrite E. apply (finish_total cis tid tl h s5 ai (pmask t m) _ Hready).
  constructor; [exact I|]. apply wr_pre_of; [apply (wr_pre0_of cis hs tl _ t xt HR Hreg)|].
  intros h0 c0 k0 Hin. rewrite pmask_touch, (ar_ok_assigned t h0 c0 k0 Har Hin). reflexivity.
Qed.

Lemma T_pack_other cis tid tl s hs x k h c0 t xp rem' :
  FInv cis s hs x rem' -> TI cis s -> nth_error (tmps s) tid = Some tl ->
  k < length hs -> hnd hs k = h ->
  Forall2 (crel cis hs tl) (c0 :: t) xp -> Forall (fun c => ManagerPack.is_create c = false) (c0 :: t) ->
  Forall (cmd_reg (length cis)) (c0 :: t) -> cmd_handle c0 = h -> has_dnow (c0 :: t) || ar_ok (c0 :: t) = true ->
  exists s', apply_pack tid s (c0 :: t) = Ok s' /\ TI cis s'.
Proof.
  intros HF HT Htl Hk Eh HR Hnc Hreg Hc0 Har.
  destruct (R_pack_other cis tid tl s hs x k h c0 t rem' HF HT Htl Hk Eh Hnc Hreg Hc0) as [(_ & Hok)|(_ & Hnd & s5 & ai & fm & E & Hready)]; [exact Hok|].
  rewrite Hnd in Har. cbn [orb] in Har. rewrite E. apply (finish_total cis tid tl h s5 ai _ _ Hready).
  apply wr_pre_of; [apply (wr_pre0_of cis hs tl _ _ xp HR Hreg)|].
  intros h0 c1 k0 Hin0. rewrite pmask_touch, (ar_ok_assigned (c0 :: t) h0 c1 k0 Har Hin0). reflexivity.
Qed.

(* ... and outside the contract, on a target that is alive (or created by the pack), Err NullDeref *)
Lemma N_pack_create cis tid tl s hs x k m ha sh h t xt rem' :
  FInv cis s hs x (SCreate k m :: rem') -> TI cis s -> nth_error (tmps s) tid = Some tl ->
  k < length hs -> hnd hs k = h -> sh = si_null -> ha = negb (m =? 0)%N ->
  Forall2 (crel cis hs tl) t xt -> Forall (fun c => ManagerPack.is_create c = false) t ->
  mreg (length cis) m -> Forall (cmd_reg (length cis)) t -> has_dnow t = false -> ar_ok t = false ->
  apply_pack tid s (ACreate h ha m sh :: t) = Err NullDeref.
Proof.
  intros HF HT Htl Hk Eh Esh Eha HR Hnc Hm Hreg Hnd Har.
  destruct (R_pack_create cis tid tl s hs x k m ha sh h t rem' HF HT Htl Esh Eha Hnc Hm Hreg) as [(Hd & _)|(_ & s5 & ai & E & Hready)]; [congruence|].
  rewrite E. apply (finish_fails cis tid tl h s5 ai (pmask t m) _ Hready).
  - constructor; [exact I|]. apply (wr_pre0_of cis hs tl _ t xt HR Hreg).
  - destruct (ar_ok_false t Har) as (h0 & c & n & Hin & Et). exists h0, c, n. split; [right; exact Hin|]. rewrite pmask_touch, Et. reflexivity.
Qed.

Lemma N_pack_other cis tid tl s hs x k h c0 t xp rem' :
  FInv cis s hs x rem' -> TI cis s -> nth_error (tmps s) tid = Some tl ->
  k < length hs -> hnd hs k = h ->
  Forall2 (crel cis hs tl) (c0 :: t) xp -> Forall (fun c => ManagerPack.is_create c = false) (c0 :: t) ->
  Forall (cmd_reg (length cis)) (c0 :: t) -> cmd_handle c0 = h ->
  is_valid s h = true -> has_dnow (c0 :: t) = false -> ar_ok (c0 :: t) = false ->
  apply_pack tid s (c0 :: t) = Err NullDeref.
Proof.
  intros HF HT Htl Hk Eh HR Hnc Hreg Hc0 Hval Hnd Har.
  destruct (R_pack_other cis tid tl s hs x k h c0 t rem' HF HT Htl Hk Eh Hnc Hreg Hc0) as [([Hd|Hd] & _)|(_ & _ & s5 & ai & fm & E & Hready)]; [congruence|congruence|].
  rewrite E. apply (finish_fails cis tid tl h s5 ai _ _ Hready).
  - apply (wr_pre0_of cis hs tl _ _ xp HR Hreg).
  - destruct (ar_ok_false _ Har) as (h0 & c & n & Hin & Et). exists h0, c, n. split; [exact Hin|]. rewrite pmask_touch, Et. reflexivity.
Qed.

(* ---------------------------------------------------------------------------------------- *)
(* one pack *)
Lemma has_dnow_create h ha m sh t : has_dnow (ACreate h ha m sh :: t) = has_dnow t.
Proof. reflexivity. Qed.
Lemma ar_ok_create h ha m sh t : ar_ok (ACreate h ha m sh :: t) = ar_ok t.
Proof. reflexivity. Qed.

(* the target of the pack is alive when the pack is reached, or the pack creates it *)
Definition pack_live (s : mst) (p : list acmd) : bool :=
  match p with [] => false | c0 :: _ => ManagerPack.is_create c0 || is_valid s (cmd_handle c0) end.

Section OnePack.
Variables (cis : list cinfo) (tl : list cell) (s : mst) (hs : list handle) (x : xst) (h : handle)
          (p : list acmd) (xp : list xcmd) (rem' : list scmd).
Hypothesis HF : FInv cis s hs x (xrem xp ++ rem').
Hypothesis Hne : p <> [].
Hypothesis Hall : allh h p.
Hypothesis HB : brel cis hs tl p xp.
Hypothesis Hcf : mcf p.
Hypothesis Hreg : Forall (cmd_reg (length cis)) p.

(* the three kinds of pack: through the null handle (Q true), creating its entity, on an issued handle (Q false) *)
Lemma pack_cases (Q : bool -> Prop) :
  (is_null h = true -> Q true) ->
  (forall k m ha t xt, p = ACreate h ha m si_null :: t -> k < length hs -> hnd hs k = h -> ha = negb (m =? 0)%N ->
     FInv cis s hs x (SCreate k m :: rem') -> Forall2 (crel cis hs tl) t xt -> Forall (fun c => ManagerPack.is_create c = false) t ->
     mreg (length cis) m -> Forall (cmd_reg (length cis)) t -> Q false) ->
  (forall k c0 t, p = c0 :: t -> k < length hs -> hnd hs k = h -> FInv cis s hs x rem' ->
     Forall2 (crel cis hs tl) (c0 :: t) xp -> Forall (fun c => ManagerPack.is_create c = false) (c0 :: t) -> cmd_handle c0 = h -> Q false) ->
  exists b, Q b.
Proof.
  intros Qnull Qcreate Qother. destruct p as [|c0 t] eqn:Ep; [congruence|].
  pose proof HF as [(al & HI) _ _ _]. pose proof (li_G _ _ _ _ _ _ HI) as HG.
  assert (Eh0 : cmd_handle c0 = h) by (inversion Hall; assumption).
  destruct (handle_null_dec h) as [En|Hnn].
  - exists true. apply Qnull. rewrite En. reflexivity.
  - exists false.
    pose proof (brel_issued cis hs tl h Hnn _ _ Hall HB) as HR.
    inversion HR as [|c' xc0 t' xt Hc0 HRt]; subst c' t'.
    destruct (crel_key _ _ _ _ _ Hc0) as (Hk & Eh & Ecr). rewrite Eh0 in Eh.
    pose proof (mcf_tail _ _ _ Hcf Hall) as Hnct.
    assert (Hallt : allh h t) by (inversion Hall; assumption).
    pose proof (crel_on cis hs tl h (xkey xc0) (g_hs_nodup HG) Hk Eh _ _ HRt Hallt Hnct) as Hont.
    assert (Ext : xrem xt = []).
    { apply xrem_nocreate. eapply Forall_impl; [|exact Hont]. simpl. intros a (A & _). exact A. }
    inversion Hreg as [|cr0 tr0 Hreg0 Hregt]; subst cr0 tr0.
    destruct (ManagerPack.is_create c0) eqn:Ec0.
    + destruct c0 as [h' ha m sh|h'|h'|h' c|h' c n]; try discriminate.
      destruct xc0 as [k m0 sh0|k|k|k c1 v1|k c1]; simpl in Hc0; try contradiction.
      destruct Hc0 as (_ & _ & -> & -> & -> & Eha). simpl in Eh0. subst h'. simpl xkey in *.
      pose proof HF as HF'. rewrite <- H1, xrem_create, Ext in HF'. rewrite <- app_comm_cons, app_nil_l in HF'.
      apply (Qcreate k m ha t xt eq_refl Hk Eh Eha HF' HRt Hnct Hreg0 Hregt).
    + assert (Hnc : Forall (fun c => ManagerPack.is_create c = false) (c0 :: t)) by (constructor; [exact Ec0|exact Hnct]).
      assert (Exp : xrem (xc0 :: xt) = []).
      { apply xrem_nocreate. constructor; [exact Ecr|]. eapply Forall_impl; [|exact Hont]. simpl. intros a (A & _). exact A. }
      pose proof HF as HF'. rewrite <- H1, Exp in HF'. simpl app in HF'.
      apply (Qother (xkey xc0) c0 t eq_refl Hk Eh HF' HR Hnc Eh0).
Qed.
End OnePack.

Lemma T_pack cis tid tl s hs x h p xp rem' :
  FInv cis s hs x (xrem xp ++ rem') -> TI cis s -> nth_error (tmps s) tid = Some tl ->
  p <> [] -> allh h p -> brel cis hs tl p xp -> mcf p ->
  Forall (cmd_reg (length cis)) p -> pack_ar p = true ->
  exists s', apply_pack tid s p = Ok s' /\ TI cis s'.
Proof.
  intros HF HT Htl Hne Hall HB Hcf Hreg Har.
  pose proof HF as [(al & HI) _ _ _]. pose proof (li_G _ _ _ _ _ _ HI) as HG.
  destruct (pack_cases cis tl s hs x h p xp rem' HF Hne Hall HB Hcf Hreg
              (fun _ => exists s', apply_pack tid s p = Ok s' /\ TI cis s')) as (b & Hb); [| | |exact Hb].
  - intros En. destruct p as [|c0 t]; [congruence|].
    assert (Eh0 : cmd_handle c0 = h) by (inversion Hall; assumption).
    apply ManagerDeferred.handle_eqb_eq in En.
    assert (Hc0 : ManagerPack.is_create c0 = false).
    { inversion HB as [|c' b' xb' Hn Hc Hb|c' xc b' xb' Hc Hb]; [exact Hc|].
      destruct (crel_key _ _ _ _ _ Hc) as (Hk & E & _).
      exfalso. apply (hnd_not_null _ _ _ _ _ HG Hk). rewrite E, Eh0. exact En. }
    rewrite (apply_pack_other_eq _ _ _ _ Hc0), Eh0, En, is_valid_null_m. exists s. split; [reflexivity|exact HT].
  - intros k m ha t xt -> Hk Eh Eha HF' HRt Hnct Hreg0 Hregt.
    assert (Hnull : is_null h = false).
    { rewrite <- Eh. apply ManagerDeferred.handle_eqb_neq. apply (hnd_not_null _ _ _ _ _ HG Hk). }
    unfold pack_ar in Har. cbn [cmd_handle] in Har. rewrite Hnull in Har. cbn [orb] in Har. rewrite has_dnow_create, ar_ok_create in Har.
    apply (T_pack_create cis tid tl s hs x k m ha si_null h t xt rem' HF' HT Htl Hk Eh eq_refl Eha HRt Hnct Hreg0 Hregt Har).
  - intros k c0 t -> Hk Eh HF' HR Hnc Eh0.
    assert (Hnull : is_null (cmd_handle c0) = false).
    { rewrite Eh0, <- Eh. apply ManagerDeferred.handle_eqb_neq. apply (hnd_not_null _ _ _ _ _ HG Hk). }
    unfold pack_ar in Har. rewrite Hnull in Har. cbn [orb] in Har.
    apply (T_pack_other cis tid tl s hs x k h c0 t xp rem' HF' HT Htl Hk Eh HR Hnc Hreg Eh0 Har).
Qed.

(* THE CONTRACT IS EXACT: a pack whose target is alive when the pack is reached (or which creates its target) and which
   is outside the contract ends in Err NullDeref *)
Lemma N_pack cis tid tl s hs x h p xp rem' :
  FInv cis s hs x (xrem xp ++ rem') -> TI cis s -> nth_error (tmps s) tid = Some tl ->
  p <> [] -> allh h p -> brel cis hs tl p xp -> mcf p ->
  Forall (cmd_reg (length cis)) p -> pack_live s p = true -> pack_ar p = false ->
  apply_pack tid s p = Err NullDeref.
Proof.
  intros HF HT Htl Hne Hall HB Hcf Hreg Hlive Har.
  pose proof HF as [(al & HI) _ _ _]. pose proof (li_G _ _ _ _ _ _ HI) as HG.
  destruct (pack_cases cis tl s hs x h p xp rem' HF Hne Hall HB Hcf Hreg
              (fun _ => apply_pack tid s p = Err NullDeref)) as (b & Hb); [| | |exact Hb].
  - intros En. exfalso. destruct p as [|c0 t]; [congruence|].
    assert (Eh0 : cmd_handle c0 = h) by (inversion Hall; assumption).
    unfold pack_ar in Har. rewrite Eh0, En in Har. discriminate.
  - intros k m ha t xt -> Hk Eh Eha HF' HRt Hnct Hreg0 Hregt.
    unfold pack_ar in Har. apply orb_false_iff in Har. destruct Har as (Har1 & Har). apply orb_false_iff in Har1. destruct Har1 as (_ & Hnd).
    rewrite has_dnow_create in Hnd. rewrite ar_ok_create in Har.
    apply (N_pack_create cis tid tl s hs x k m ha si_null h t xt rem' HF' HT Htl Hk Eh eq_refl Eha HRt Hnct Hreg0 Hregt Hnd Har).
  - intros k c0 t -> Hk Eh HF' HR Hnc Eh0.
    unfold pack_ar in Har. apply orb_false_iff in Har. destruct Har as (Har1 & Har). apply orb_false_iff in Har1. destruct Har1 as (_ & Hnd).
    assert (Hc0c : ManagerPack.is_create c0 = false) by (inversion Hnc; assumption).
    unfold pack_live in Hlive. rewrite Hc0c, Eh0 in Hlive. cbn [orb] in Hlive.
    apply (N_pack_other cis tid tl s hs x k h c0 t xp rem' HF' HT Htl Hk Eh HR Hnc Hreg Eh0 Hlive Hnd Har).
Qed.
